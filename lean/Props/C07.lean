import Proofs.MulAll
import Proofs.MulAdd0
import Proofs.Toy
import Proofs.StepsTie
/-!
# C07 — scalar multiplication and double-scalar multiplication are exact

Model: `Curve.naf`, `pjMul` (= `PointJacobi.__mul__`/`__rmul__`: early exits, `other % (2*order)`, lazily built generator
table + `_mul_precompute`, or `scale()` + left-to-right NAF loop), `pjMulAdd` (= `mul_add`: all early exits, both-tables
path, reduction by self's order, the four combined points, the INFINITY fallback, padded interleaved NAF loop), `affMul`
(legacy `Point.__mul__` with `leftmost_bit`).  Every arithmetic step goes through the generated kernels `Gen.k_add`,
`Gen.k_double`.  Statements are for EVERY integer scalar (zero, negative, larger than the order, any size).

`MulOK p a b H P g`: the stored object P denotes g ∈ H, its declared order — if any — annihilates g ("a declared order
that annihilates every point taking part"), and a generator point declares a positive order.
**Partial** = hypothesis `NoOrder2 H` (N2T, open known finding K1) — see Props/C06.lean.  The hypothesis on the declared
order is the property's own and is necessary: `order_annihilates_needed`.
-/
namespace C07
open WeierstrassCurve WeierstrassCurve.Jacobian Curve Jac

variable {p : ℕ} [hp : Fact p.Prime] {a b : ℤ} {H : AddSubgroup (Grp (a : ZMod p) (b : ZMod p))}

/-- `_naf` terminates for EVERY integer (well-founded on |k|: `Curve.nafStep_decreasing`), Σ dᵢ·2ⁱ = k, the digits are
in {−1, 0, 1} and no two adjacent digits are non-zero -/
theorem naf_sum (k : ℤ) :
    (naf k).foldr (fun d acc => d + 2 * acc) 0 = k ∧ (∀ d ∈ naf k, d = -1 ∨ d = 0 ∨ d = 1) ∧
      List.IsChain (fun d e => d = 0 ∨ e = 0) (naf k) :=
  ⟨Naf.naf_sum_foldr k, Naf.naf_digits k, Naf.naf_nonadjacent k⟩

/-- FULL: ⟦P * k⟧ = k • ⟦P⟧ for every point and every integer.  PROVED under N2T: the NAF path (no table) -/
theorem mul_naf_correct_partial (hp2 : p ≠ 2) (hH : NoOrder2 H) {P : PJ} {g} (hP : PJRep p a b H P g)
    (hgen : P.generator = false) (ho : ∀ n, truthy P.order = some n → n • g = 0) (k : ℤ) :
    ∃ R, pjMul P k = .ok R ∧ PtRep p a b H R (k • g) :=
  pjMul_naf_correct hp2 hH hP hgen ho k

/-- the table of a generator point: entry i is the canonical affine pair of 2ⁱ • ⟦P⟧; its length is m + 1 with m minimal
such that 2ᵐ ≥ 4·order -/
theorem table_correct_partial (hH : NoOrder2 H) {P : PJ} {g} (hP : PJRep p a b H P g) {o : ℤ}
    (ho : truthy P.order = some o) (hpos : 0 < o) :
    ∃ table, precomputeTable P = .ok table ∧
      (∀ j (hj : j < table.length), EntryRep p a b H table[j] ((2 : ℤ) ^ j • g)) ∧
      ∃ m : ℕ, table.length = m + 1 ∧ 4 * o ≤ 2 ^ m ∧ 2 ^ (m - 1) < 4 * o :=
  precomputeTable_correct_min hH hP ho hpos

/-- the signed-digit recoding of `_mul_precompute` consumes the scalar exactly within the table -/
theorem mul_table_correct_partial (hp2 : p ≠ 2) (hH : NoOrder2 H) {P : PJ} {g} (hP : PJRep p a b H P g)
    {o : ℤ} (ho : truthy P.order = some o) (hpos : 0 < o) (hog : o • g = 0) (hgen : P.generator = true)
    (k : ℤ) (hk0 : k ≠ 0) (hk1 : k ≠ 1) : ∃ R, pjMul P k = .ok R ∧ PtRep p a b H R (k • g) :=
  pjMul_table_correct hp2 hH hP ho hpos hog hgen k hk0 hk1

/-- the dispatch of `__mul__`: k = 0 and Y = 0 give INFINITY, k = 1 returns the same object, and the reduction
`k % (2·order)` does not change the multiple -/
theorem mul_dispatch (P : PJ) (k : ℤ) :
    pjMul P 0 = .ok .infinity ∧ (P.y = 0 → pjMul P k = .ok .infinity) ∧
      (P.y ≠ 0 → pjMul P 1 = .ok (.jac P)) ∧
      (∀ (g : Grp (a : ZMod p) (b : ZMod p)), (∀ n, truthy P.order = some n → n • g = 0) →
        (match truthy P.order with
          | some o => pmod k (o * 2)
          | none => k) • g = k • g) := by
  refine ⟨by simp [pjMul, pjMulWith], fun h => by simp [pjMul, pjMulWith, h],
    fun h => by simp [pjMul, pjMulWith, h], fun g ho => reduce_smul ho k⟩

/-- **P * k = k • P**, both paths, every integer k -/
theorem mul_correct_partial (hp2 : p ≠ 2) (hH : NoOrder2 H) {P : PJ} {g} (hP : MulOK p a b H P g) (k : ℤ) :
    ∃ R, pjMul P k = .ok R ∧ PtRep p a b H R (k • g) :=
  pjMul_correct hp2 hH hP k

/-- **P.mul_add(a, Q, b) = a • P + b • Q** for all integers a, b and Q ∈ {INFINITY, any `PointJacobi` (table or not),
any legacy `Point`} — in particular Q = P, Q = −P, zero multipliers; `ho`: self's order (by which the code reduces BOTH
scalars) annihilates Q as well -/
theorem mul_add_correct_partial (hp2 : p ≠ 2) (hH : NoOrder2 H) {P : PJ} {other : Pt} {g h}
    (hP : MulOK p a b H P g) (hO : PtMulOK p a b H other h)
    (ho : ∀ n, truthy P.order = some n → n • h = 0) (sm om : ℤ) :
    ∃ R, pjMulAdd P sm other om = .ok R ∧ PtRep p a b H R (sm • g + om • h) :=
  pjMulAdd_correct hp2 hH hP hO ho sm om

/-- a WARMED-UP generator: the table `pre` is already in the object (any list whose entry i is the canonical affine pair
of 2ⁱ • ⟦P⟧ and whose length is m + 1 with 2ᵐ ≥ 4·order — what `table_correct_partial` says `_maybe_precompute`
builds); `pre` is then used as it is, whatever the current scaling of P -/
theorem mul_warm_table_correct_partial (hp2 : p ≠ 2) (hH : NoOrder2 H) {P : PJ} {g} (hP : PJRep p a b H P g)
    {o : ℤ} (ho : truthy P.order = some o) (hpos : 0 < o) (hog : o • g = 0) {pre : List (ℤ × ℤ)}
    (hT : ∀ j (hj : j < pre.length), EntryRep p a b H pre[j] ((2 : ℤ) ^ j • g))
    (hlen : ∃ m : ℕ, pre.length = m + 1 ∧ 4 * o ≤ 2 ^ m) (k : ℤ) (hk0 : k ≠ 0) (hk1 : k ≠ 1) :
    ∃ R, pjMulWith pre P k = .ok R ∧ PtRep p a b H R (k • g) :=
  pjMulWith_table_correct hp2 hH hP ho hpos hog hT hlen k hk0 hk1

/-- `P * k` when P may be an identity-valued `PointJacobi` (Y = 0: the `not self.__coords[1]` exit; Z = 0, Y ≠ 0: the
NAF loop over the scaled (0, 0, 1)); `MulOK0` = `MulOK` with `PJRep0`; an identity-valued object must not be
generator-flagged (then `_maybe_precompute` raises AttributeError, in the code and in the model) -/
theorem mul_all_correct_partial (hp2 : p ≠ 2) (hH : NoOrder2 H) {P : PJ} {g} (hP : MulOK0 p a b H P g) (k : ℤ) :
    ∃ R, pjMul P k = .ok R ∧ PtRep0 p a b H R (k • g) :=
  pjMul_correct0 hp2 hH hP k

/-- `P.mul_add(a, Q, b)` when P and/or Q may be identity-valued `PointJacobi` objects -/
theorem mul_add_all_correct_partial (hp2 : p ≠ 2) (hH : NoOrder2 H) {P : PJ} {other : Pt} {g h}
    (hP : MulOK0 p a b H P g) (hO : PtMulOK0 p a b H other h)
    (ho : ∀ n, truthy P.order = some n → n • h = 0) (sm om : ℤ) :
    ∃ R, pjMulAdd P sm other om = .ok R ∧ PtRep0 p a b H R (sm • g + om • h) :=
  pjMulAdd_correct0 hp2 hH hP hO ho sm om

/-- the legacy affine class: `Point.__mul__` (X9.62 D.3.2 with `leftmost_bit`; after F3 the result is canonical) -/
theorem legacy_mul_correct_partial (hp2 : p ≠ 2) (hH : NoOrder2 H) {A : AffPt} {g}
    (hA : AffRep p a b H A g) (ho : ∀ n, truthy A.order = some n → n • g = 0) (e : ℤ) :
    ∃ R, affMul A e = .ok R ∧ PtRep p a b H R (e • g) :=
  affMul_correct hp2 hH hA ho e

/-- results of `*` are canonical: `x()`, `y()` of the product are the residues in [0, p−1] of k • ⟦P⟧ -/
theorem mul_result_canonical_partial (hp2 : p ≠ 2) (hH : NoOrder2 H) {P : PJ} {g} (hP : MulOK p a b H P g)
    (k : ℤ) (J : PJ) (hJ : pjMul P k = .ok (.jac J)) :
    ∃ x y, pjX J = .ok x ∧ pjY J = .ok y ∧ 0 ≤ x ∧ x < p ∧ 0 ≤ y ∧ y < p ∧
      ∃ hn : (shortW (a : ZMod p) (b : ZMod p)).toAffine.Nonsingular (x : ZMod p) (y : ZMod p),
        k • g = Affine.Point.some _ _ hn := by
  obtain ⟨R, e, hR⟩ := pjMul_correct hp2 hH hP k
  rw [hJ] at e
  cases e
  obtain ⟨x, y, ex, ey, rx, ry, hn⟩ := pjXY_correct (show PJRep p a b H J (k • g) from hR)
  exact ⟨x, y, ex, ey, rx.1, rx.2, ry.1, ry.2, hn⟩

/-- TIE: the step functions folded by the model's loops are the loop bodies GENERATED from the current source
(`Generated/Steps.lean`: bodies of `_naf`, `_mul_precompute`, `__mul__`, `mul_add`, and its four combined points) -/
theorem loop_bodies_are_generated :
    (∀ m, nafStep m = Gen.s_naf_step m) ∧
    (∀ p a st e, mulPrecomputeStep p a st e =
      Gen.s_mul_precompute_step st.1 st.2.1 st.2.2.1 st.2.2.2 e.1 e.2 p a) ∧
    (∀ p a X2 Y2 acc i, mulNafStep p a X2 Y2 acc i = Gen.s_mul_step acc.1 acc.2.1 acc.2.2 X2 Y2 i p a) ∧
    (∀ p a P1 P2 mAmB pAmB mApB pApB acc A B, mulAddStep p a P1 P2 mAmB pAmB mApB pApB acc (A, B) =
      Gen.s_mul_add_step acc.1 acc.2.1 acc.2.2 A B P1.1 P1.2.1 P1.2.2 P2.1 P2.2.1 P2.2.2
        mAmB.1 mAmB.2.1 mAmB.2.2 pAmB.1 pAmB.2.1 pAmB.2.2 mApB.1 mApB.2.1 mApB.2.2 pApB.1 pApB.2.1 pApB.2.2
        p a) :=
  ⟨StepsTie.nafStep_tie, StepsTie.mulPrecomputeStep_tie, StepsTie.mulNafStep_tie, StepsTie.mulAddStep_tie⟩

/-! ### concrete evaluations on y² = x³ + x + 6 over F₁₁ (G = (2, 7) has order 13) -/

theorem naf_13 : naf 13 = [1, 0, -1, 0, 1] := by
  simp [Naf.naf_of_ne_zero, Naf.naf_zero, nafStep, pmod, pdiv]
theorem naf_2 : naf 2 = [0, 1] := by
  simp [Naf.naf_of_ne_zero, Naf.naf_zero, nafStep, pmod, pdiv]

theorem toy_13G : pjMul toyG 13 = .ok .infinity := by
  simp only [pjMul, pjMulWith, naf_13, toyG, truthy, maybePrecompute]
  decide

theorem toy_2G : pjMul toyG 2 = .ok (.jac ⟨toyC, 1, 10, 3, none, false⟩) := by
  simp only [pjMul, pjMulWith, naf_2, toyG, truthy, maybePrecompute]
  decide

/-- G with the WRONG declared order 5 (its order is 13): `G * 12` is computed as `(12 % 10) • G = 2G` -/
theorem toy_wrong_order : pjMul { toyG with order := some 5 } 12 = .ok (.jac ⟨toyC, 1, 10, 3, some 5, false⟩) := by
  simp only [pjMul, pjMulWith, toyG, truthy, maybePrecompute]
  simp [pmod, naf_2]
  decide

/-- the hypothesis "the declared order annihilates the point" is needed: with a declared order that does not, the
product is wrong (the model agrees with the code here: the check replays it) -/
theorem order_annihilates_needed :
    ∃ (P : PJ) (g : Grp ((1 : ℤ) : ZMod 11) ((6 : ℤ) : ZMod 11)) (k : ℤ) (R : Pt),
      PJRep 11 1 6 ⊤ P g ∧ P.order = some 5 ∧ P.generator = false ∧ pjMul P k = .ok R ∧
        ¬ PtRep 11 1 6 ⊤ R (k • g) := by
  obtain ⟨g, hg⟩ := toyG_rep
  refine ⟨{ toyG with order := some 5 }, g, 12, _, ⟨hg.1, hg.2.1, hg.2.2⟩, rfl, rfl, toy_wrong_order, ?_⟩
  intro h12
  have hnone : ∀ n, truthy toyG.order = some n → n • g = 0 := by intro n hn; simp [toyG, truthy] at hn
  -- 13 • g = 0
  obtain ⟨R13, e13, h13⟩ := pjMul_naf_correct (by decide) toy_n2t hg rfl hnone 13
  change pjMul toyG 13 = _ at e13
  rw [toy_13G] at e13; cases e13
  have z13 : (13 : ℤ) • g = 0 := h13
  -- the same triple denotes 2 • g
  obtain ⟨R2, e2, h2⟩ := pjMul_naf_correct (by decide) toy_n2t hg rfl hnone 2
  change pjMul toyG 2 = _ at e2
  rw [toy_2G] at e2; cases e2
  have e : (12 : ℤ) • g = (2 : ℤ) • g := by
    have a1 : PJRep 11 1 6 ⊤ _ ((12 : ℤ) • g) := h12
    have a2 : PJRep 11 1 6 ⊤ _ ((2 : ℤ) • g) := h2
    rw [← a1.2.2.2.2.2.2, ← a2.2.2.2.2.2.2]
  have z10 : (10 : ℤ) • g = 0 := by
    have : (12 : ℤ) • g - (2 : ℤ) • g = 0 := sub_eq_zero.mpr e
    rwa [← sub_smul] at this
  have : g = 0 := by
    have h1 : (1 : ℤ) • g = (4 * 10 - 3 * 13 : ℤ) • g := by norm_num
    rw [one_smul, sub_smul, mul_smul, mul_smul, z10, z13, smul_zero, smul_zero, sub_zero] at h1
    exact h1
  exact good_ne_zero hg.2.2 this

/-! ### non-vacuity -/

example : ∃ g R, MulOK 11 1 6 ⊤ toyG g ∧ pjMul toyG 13 = .ok R ∧ PtRep 11 1 6 ⊤ R ((13 : ℤ) • g) := by
  obtain ⟨g, hg⟩ := toyG_rep
  have hm : MulOK 11 1 6 ⊤ toyG g :=
    ⟨hg, by intro n hn; simp [toyG, truthy] at hn, by intro h; simp [toyG] at h⟩
  obtain ⟨R, e, hR⟩ := mul_correct_partial (by decide) toy_n2t hm 13
  exact ⟨g, R, hm, e, hR⟩

example : ∃ g h R, pjMulAdd toyG 5 (.jac toyQ) (-3) = .ok R ∧ PtRep 11 1 6 ⊤ R ((5 : ℤ) • g + (-3 : ℤ) • h) := by
  obtain ⟨g, hg⟩ := toyG_rep
  obtain ⟨h, hh⟩ := toyQ_rep
  have hm : MulOK 11 1 6 ⊤ toyG g :=
    ⟨hg, by intro n hn; simp [toyG, truthy] at hn, by intro h; simp [toyG] at h⟩
  have hq : PtMulOK 11 1 6 ⊤ (.jac toyQ) h :=
    ⟨hh, by intro n hn; simp [toyQ, truthy] at hn, by intro h; simp [toyQ] at h⟩
  obtain ⟨R, e, hR⟩ := mul_add_correct_partial (by decide) toy_n2t hm hq
    (by intro n hn; simp [toyG, truthy] at hn) 5 (-3)
  exact ⟨g, h, R, e, hR⟩

example : naf (-7) = [1, 0, 0, -1] := by
  simp [Naf.naf_of_ne_zero, Naf.naf_zero, nafStep, pmod, pdiv]


/-- the generator-table path and the legacy class, instantiated: G = (2, 7) with declared order 13 -/
example : ∃ g, MulOK 11 1 6 ⊤ { toyG with order := some 13, generator := true } g ∧
    (∃ R, pjMul { toyG with order := some 13, generator := true } 29 = .ok R ∧
      PtRep 11 1 6 ⊤ R ((29 : ℤ) • g)) ∧
    (∃ table, precomputeTable { toyG with order := some 13, generator := true } = .ok table ∧ table.length = 7) := by
  obtain ⟨g, hg⟩ := toyG_rep
  have hnone : ∀ n, truthy toyG.order = some n → n • g = 0 := by intro n hn; simp [toyG, truthy] at hn
  obtain ⟨R13, e13, h13⟩ := pjMul_naf_correct (by decide) toy_n2t hg rfl hnone 13
  change pjMul toyG 13 = _ at e13
  rw [toy_13G] at e13; cases e13
  have z13 : (13 : ℤ) • g = 0 := h13
  have hm : MulOK 11 1 6 ⊤ { toyG with order := some 13, generator := true } g := by
    refine ⟨⟨hg.1, hg.2.1, hg.2.2⟩, ?_, fun _ => ⟨13, by simp [truthy], by decide⟩⟩
    intro n hn
    simp only [truthy] at hn
    split_ifs at hn
    cases hn
    exact z13
  refine ⟨g, hm, mul_correct_partial (by decide) toy_n2t hm 29, ?_⟩
  obtain ⟨table, et, _, m, hl, h1, h2⟩ :=
    table_correct_partial toy_n2t hm.1 (o := 13) (by simp [truthy]) (by decide)
  refine ⟨table, et, ?_⟩
  -- 4·13 = 52 ≤ 2^m and 2^(m-1) < 52 force m = 6
  have : m = 6 := by
    have h64 : (2 : ℤ) ^ m ≥ 52 := h1
    have hlt : (2 : ℤ) ^ (m - 1) < 52 := h2
    by_contra hne
    rcases Nat.lt_or_gt_of_ne hne with h | h
    · have : (2 : ℤ) ^ m ≤ 2 ^ 5 := pow_le_pow_right₀ (by norm_num) (by omega)
      norm_num at this; omega
    · have : (2 : ℤ) ^ 6 ≤ 2 ^ (m - 1) := pow_le_pow_right₀ (by norm_num) (by omega)
      norm_num at this; omega
  omega


/-- a generator with a NON-EMPTY table (warmed up): the table `_maybe_precompute` builds is fed back as `pre` -/
example : ∃ g table R, precomputeTable { toyG with order := some 13, generator := true } = .ok table ∧ table ≠ [] ∧
    pjMulWith table { toyG with order := some 13, generator := true } 29 = .ok R ∧
    PtRep 11 1 6 ⊤ R ((29 : ℤ) • g) := by
  obtain ⟨g, hg⟩ := toyG_rep
  have hnone : ∀ n, truthy toyG.order = some n → n • g = 0 := by intro n hn; simp [toyG, truthy] at hn
  obtain ⟨R13, e13, h13⟩ := pjMul_naf_correct (by decide) toy_n2t hg rfl hnone 13
  change pjMul toyG 13 = _ at e13
  rw [toy_13G] at e13; cases e13
  have z13 : (13 : ℤ) • g = 0 := h13
  have hP : PJRep 11 1 6 ⊤ { toyG with order := some 13, generator := true } g := ⟨hg.1, hg.2.1, hg.2.2⟩
  obtain ⟨table, et, hT, m, hl, h1, _⟩ := table_correct_partial toy_n2t hP (o := 13) (by simp [truthy]) (by decide)
  obtain ⟨R, e, hR⟩ := mul_warm_table_correct_partial (by decide) toy_n2t hP (o := 13) (by simp [truthy]) (by decide)
    z13 hT ⟨m, hl, h1⟩ 29 (by decide) (by decide)
  exact ⟨g, table, R, et, by intro h0; simp [h0] at hl, e, hR⟩

/-- identity-valued operands: (3, 6, 0) * 7 and G.mul_add(5, (0, 0, 1), 9) -/
example : ∃ g, (∃ R, pjMul ⟨toyC, 3, 6, 0, none, false⟩ 7 = .ok R ∧ PtRep0 11 1 6 ⊤ R ((7 : ℤ) • 0)) ∧
    (∃ R, pjMulAdd toyG 5 (.jac ⟨toyC, 0, 0, 1, none, false⟩) 9 = .ok R ∧
      PtRep0 11 1 6 ⊤ R ((5 : ℤ) • g + (9 : ℤ) • 0)) := by
  obtain ⟨g, hg⟩ := toyG_rep
  have rng : ∀ x y z : ℤ, (0 ≤ x ∧ x < 11) → (0 ≤ y ∧ y < 11) → (0 ≤ z ∧ z < 11) → InRange3 11 (x, y, z) :=
    fun _ _ _ hx hy hz => ⟨hx, hy, hz⟩
  have z1 : MulOK0 11 1 6 ⊤ ⟨toyC, 3, 6, 0, none, false⟩ 0 :=
    ⟨pjRep0_zero toyC_on (rng 3 6 0 (by decide) (by decide) (by decide)) (Or.inr rfl),
      by intro n hn; simp [truthy] at hn, by intro h; simp at h⟩
  have z2 : MulOK0 11 1 6 ⊤ ⟨toyC, 0, 0, 1, none, false⟩ 0 :=
    ⟨pjRep0_zero toyC_on (rng 0 0 1 (by decide) (by decide) (by decide)) (Or.inl rfl),
      by intro n hn; simp [truthy] at hn, by intro h; simp at h⟩
  have hm : MulOK0 11 1 6 ⊤ toyG g :=
    ⟨hg.rep0, by intro n hn; simp [toyG, truthy] at hn, by intro h; simp [toyG] at h⟩
  exact ⟨g, mul_all_correct_partial (by decide) toy_n2t z1 7,
    mul_add_all_correct_partial (by decide) toy_n2t hm (other := .jac _) z2
      (by intro n hn; simp [toyG, truthy] at hn) 5 9⟩

end C07
