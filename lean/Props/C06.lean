import Proofs.Legacy
import Proofs.GroupObj0
import Proofs.Toy
import Proofs.StepsTie
/-!
# C06 — point addition, doubling, negation, equality and affine conversion implement the curve group

Objects of the statements
* `Gen.k_*` — the seven Jacobian kernels, REGENERATED from `/repo/src/ecdsa/ellipticcurve.py` on every run (exact integer
  text, Python `%` = `Int.fmod`);  `Curve.*` — the hand-written object layer over them (Model/Curve.lean).
* 𝔾 = `Jac.Grp a b` = Mathlib's group of nonsingular affine points of y² = x³ + ax + b over `ZMod p` — the textbook
  chord-and-tangent law (`WeierstrassCurve.Affine.Point`, `AddCommGroup` proved in Mathlib).
* `Jac.IRep p a b H t g` — the integer triple `t` represents `g ∈ H` in the code's own reading (Y ≡ 0 or Z ≡ 0 is the
  identity; integer zero tests agree with the field, true for |c| < p);  `Jac.PJRep / AffRep / PtRep` — a stored
  `PointJacobi` / legacy `Point` / any point value with coordinates in [0, p) denoting `g`.
* Domain: p an odd prime (`[Fact p.Prime]`, `p ≠ 2`), all a, b (nothing is assumed about Δ: Mathlib's group is the group
  of nonsingular points), all integer triples.

* `Jac.PJRep0 / PtRep0` (section 3b) — the same, but a stored `PointJacobi` may ITSELF be the identity (Y = 0 or Z = 0,
  e.g. `PointJacobi(c, 0, 0, 1)`, `(x, y, 0)`): the library never produces such objects (identity results are the
  INFINITY singleton) but accepts them, and C06 says "including the identity … in any internal representation".

**What is partial.**  Theorems named `…_partial` carry the hypothesis `Jac.NoOrder2 H` (N2T): the operands denote
elements of a subgroup H without an element of order two.  Where N2T is available:
* H = ⊤ (every point of the curve) when x³+ax+b has no root mod p — `Jac.noOrder2_top_of_no_root`; this is PROVED only
  for the toy curve used in the examples (Proofs/Toy.lean);
* H = ⊤ from the SEC 2 / FIPS fact #E(𝔽_p) = n with n odd, when that fact is a hypothesis anyway
  (`GroupInterface.noOrder2_top_of_card`, `Ctx.ofCard`); root-freeness of x³+ax+b is NOT proved for the named curves;
* H = ⟨G⟩ for a base point with n • G = 0, n odd, with no further assumption (`GroupInterface.Ctx.n2t`): so on a NAMED
  curve (all 17, SECP112r2 included) the theorems below speak, unconditionally in #E, about the points of ⟨G⟩.
The FULL statement (for every point of every curve) is FALSE for the code: open known finding K1,
`two_torsion_counterexample` below.  Everything else is unconditional.
Domain of the object-level statements: stored coordinates reduced to [0, p) (kernel level: |c| < p); what the code does
with unreduced constructor arguments is covered by the correspondence only (harness ASSUMPTIONS).
-/
namespace C06
open WeierstrassCurve WeierstrassCurve.Jacobian Curve Jac

variable {p : ℕ} [hp : Fact p.Prime] {a b : ℤ} {H : AddSubgroup (Grp (a : ZMod p) (b : ZMod p))}

/-! ## 1. every generated formula is Mathlib's formula (kernels ↔ `WeierstrassCurve.Jacobian`) -/

/-- `_add_with_z_1` (generic branch) = (−2) • `addXYZ` -/
theorem kernel_z_1_eq_smul (hp2 : p ≠ 2) (X1 Y1 X2 Y2 : ℤ)
    (hP : (shortW (a : ZMod p) (b : ZMod p)).Equation ![(X1 : ZMod p), (Y1 : ZMod p), 1])
    (hQ : (shortW (a : ZMod p) (b : ZMod p)).Equation ![(X2 : ZMod p), (Y2 : ZMod p), 1])
    (hne : ¬((X2 : ZMod p) = X1 ∧ (Y2 : ZMod p) = Y1)) :
    cast3 p (Gen.k_add_with_z_1 X1 Y1 X2 Y2 p a) =
      (-2 : ZMod p) • (shortW (a : ZMod p) (b : ZMod p)).addXYZ ![(X1 : ZMod p), (Y1 : ZMod p), 1]
        ![(X2 : ZMod p), (Y2 : ZMod p), 1] := by
  rcases k_add_with_z_1_cases (two_ne_zero_of hp2) X1 Y1 X2 Y2 a with ⟨hs, _⟩ | ⟨_, hc, _, _⟩
  · exact absurd hs hne
  · rw [hc]; exact addZ1F_eq_smul _ _ _ _ _ _ hP hQ

/-- `_add_with_z_eq` (generic branch) = (−Z₁⁻¹) • `addXYZ` -/
theorem kernel_z_eq_eq_smul (X1 Y1 Z1 X2 Y2 : ℤ) (hZ : (Z1 : ZMod p) ≠ 0)
    (hP : (shortW (a : ZMod p) (b : ZMod p)).Equation ![(X1 : ZMod p), (Y1 : ZMod p), (Z1 : ZMod p)])
    (hQ : (shortW (a : ZMod p) (b : ZMod p)).Equation ![(X2 : ZMod p), (Y2 : ZMod p), (Z1 : ZMod p)])
    (hne : ¬((X2 : ZMod p) = X1 ∧ (Y2 : ZMod p) = Y1)) :
    cast3 p (Gen.k_add_with_z_eq X1 Y1 Z1 X2 Y2 p a) =
      (-(Z1 : ZMod p)⁻¹) • (shortW (a : ZMod p) (b : ZMod p)).addXYZ
        ![(X1 : ZMod p), (Y1 : ZMod p), (Z1 : ZMod p)] ![(X2 : ZMod p), (Y2 : ZMod p), (Z1 : ZMod p)] := by
  rcases k_add_with_z_eq_cases (p := p) X1 Y1 Z1 X2 Y2 a with ⟨hs, _⟩ | ⟨_, hc, _, _⟩
  · exact absurd hs hne
  · rw [hc]; exact addZeqF_eq_smul _ _ _ _ _ _ _ hZ hP hQ

/-- `_add_with_z2_1` (generic branch) = (−2·Z₁) • `addXYZ` -/
theorem kernel_z2_1_eq_smul (hp2 : p ≠ 2) (X1 Y1 Z1 X2 Y2 : ℤ)
    (hP : (shortW (a : ZMod p) (b : ZMod p)).Equation ![(X1 : ZMod p), (Y1 : ZMod p), (Z1 : ZMod p)])
    (hQ : (shortW (a : ZMod p) (b : ZMod p)).Equation ![(X2 : ZMod p), (Y2 : ZMod p), 1])
    (hne : ¬((X2 : ZMod p) * Z1 ^ 2 = X1 ∧ (Y2 : ZMod p) * Z1 ^ 3 = Y1)) :
    cast3 p (Gen.k_add_with_z2_1 X1 Y1 Z1 X2 Y2 p a) =
      (-2 * (Z1 : ZMod p)) • (shortW (a : ZMod p) (b : ZMod p)).addXYZ
        ![(X1 : ZMod p), (Y1 : ZMod p), (Z1 : ZMod p)] ![(X2 : ZMod p), (Y2 : ZMod p), 1] := by
  rcases k_add_with_z2_1_cases (two_ne_zero_of hp2) X1 Y1 Z1 X2 Y2 a with ⟨hs, _⟩ | ⟨_, hc, _, _⟩
  · exact absurd hs hne
  · rw [hc]; exact addZ21F_eq_smul _ _ _ _ _ _ _ hP hQ

/-- `_add_with_z_ne` (generic branch) = (−2·Z₁·Z₂) • `addXYZ` -/
theorem kernel_z_ne_eq_smul (hp2 : p ≠ 2) (X1 Y1 Z1 X2 Y2 Z2 : ℤ)
    (hP : (shortW (a : ZMod p) (b : ZMod p)).Equation ![(X1 : ZMod p), (Y1 : ZMod p), (Z1 : ZMod p)])
    (hQ : (shortW (a : ZMod p) (b : ZMod p)).Equation ![(X2 : ZMod p), (Y2 : ZMod p), (Z2 : ZMod p)])
    (hne : ¬((X2 : ZMod p) * Z1 ^ 2 = X1 * Z2 ^ 2 ∧ (Y2 : ZMod p) * Z1 ^ 3 = Y1 * Z2 ^ 3)) :
    cast3 p (Gen.k_add_with_z_ne X1 Y1 Z1 X2 Y2 Z2 p a) =
      (-2 * (Z1 : ZMod p) * (Z2 : ZMod p)) • (shortW (a : ZMod p) (b : ZMod p)).addXYZ
        ![(X1 : ZMod p), (Y1 : ZMod p), (Z1 : ZMod p)] ![(X2 : ZMod p), (Y2 : ZMod p), (Z2 : ZMod p)] := by
  rcases k_add_with_z_ne_cases (two_ne_zero_of hp2) X1 Y1 Z1 X2 Y2 Z2 a with ⟨hs, _⟩ | ⟨_, hc, _, _⟩
  · exact absurd hs hne
  · rw [hc]; exact addNeF_eq_smul _ _ _ _ _ _ _ _ hP hQ

/-- `_double` (generic branch, Z ≠ 1) EQUALS Mathlib's `dblXYZ`; same-point tests of the four addition kernels
fall through to it -/
theorem kernel_double_eq (X1 Y1 Z1 : ℤ) (hZ : Z1 ≠ 1) (hY : Y1 ≠ 0) (hZ0 : Z1 ≠ 0) (hy : (Y1 : ZMod p) ≠ 0) :
    cast3 p (Gen.k_double X1 Y1 Z1 p a) =
      (shortW (a : ZMod p) (b : ZMod p)).dblXYZ ![(X1 : ZMod p), (Y1 : ZMod p), (Z1 : ZMod p)] := by
  rcases k_double_cases (p := p) X1 Y1 Z1 a hZ with ⟨h0, _⟩ | ⟨_, _, _, hc, _, _⟩
  · rcases h0 with h0 | h0 | h0
    · exact absurd h0 hY
    · exact absurd h0 hZ0
    · exact absurd h0 hy
  · rw [hc]; exact dblF_eq _ _ _ _ _

/-- `_double_with_z_1` EQUALS `dblXYZ` at Z = 1 -/
theorem kernel_double_z1_eq (X1 Y1 : ℤ) (hy : (Y1 : ZMod p) ≠ 0) :
    cast3 p (Gen.k_double_with_z_1 X1 Y1 p a) =
      (shortW (a : ZMod p) (b : ZMod p)).dblXYZ ![(X1 : ZMod p), (Y1 : ZMod p), 1] := by
  rcases k_double_with_z_1_cases (p := p) X1 Y1 a with ⟨h0, _⟩ | ⟨_, hc, _, _⟩
  · exact absurd h0 hy
  · rw [hc]; exact dblZ1F_eq _ _ _ _

/-! ## 2. the group law on representations -/

/-- FULL statement (false for the code — K1): for every curve and all valid triples,
`⟦_add P Q⟧ = ⟦P⟧ + ⟦Q⟧`.  PROVED: the same under N2T (`hH`), through all seven dispatch cases of `_add`
(identity pass-through with `Y2 % p`, Z₁ = Z₂ = 1, Z₁ = Z₂, Z₁ = 1, Z₂ = 1, general) including the reduced
same-point tests that fall through to `_double` (this is where F1 lived). -/
theorem add_correct_partial (hp2 : p ≠ 2) (hH : NoOrder2 H) {X1 Y1 Z1 X2 Y2 Z2 : ℤ} {g h}
    (hP : IRep p a b H (X1, Y1, Z1) g) (hQ : IRep p a b H (X2, Y2, Z2) h) :
    IRep p a b H (Gen.k_add X1 Y1 Z1 X2 Y2 Z2 p a) (g + h) :=
  k_add_correct hp2 hH hP hQ

/-- the code's own reading of an integer triple as a function (DESIGN's ⟦X,Y,Z⟧): 0 if Y ≡ 0 or Z ≡ 0 -/
noncomputable def den (p : ℕ) [Fact p.Prime] (a b : ℤ) (t : ℤ × ℤ × ℤ) : Grp (a : ZMod p) (b : ZMod p) :=
  open Classical in
  if (t.2.1 : ZMod p) = 0 ∨ (t.2.2 : ZMod p) = 0 then 0
  else Point.toAffine (shortW (a : ZMod p) (b : ZMod p)) (cast3 p t)

/-- `t` is a valid triple for the subgroup H: it represents some element of H -/
def Valid (p : ℕ) [Fact p.Prime] (a b : ℤ) (H : AddSubgroup (Grp (a : ZMod p) (b : ZMod p))) (t : ℤ × ℤ × ℤ) : Prop :=
  ∃ g, IRep p a b H t g

theorem irep_den {t : ℤ × ℤ × ℤ} {g} (h : IRep p a b H t g) : den p a b t = g := by
  unfold den
  rcases h.2.2.cases with ⟨h0, hg⟩ | hgood
  · rw [if_pos (by simpa [cast3] using h0), hg]
  · rw [if_neg (by simpa [cast3, not_or] using And.intro hgood.2.1 hgood.2.2.1)]
    exact hgood.2.2.2.2

/-- the headline in the shape of DESIGN Appendix C -/
theorem add_correct_den_partial (hp2 : p ≠ 2) (hH : NoOrder2 H) {X1 Y1 Z1 X2 Y2 Z2 : ℤ}
    (hP : Valid p a b H (X1, Y1, Z1)) (hQ : Valid p a b H (X2, Y2, Z2)) :
    Valid p a b H (Gen.k_add X1 Y1 Z1 X2 Y2 Z2 p a) ∧
      den p a b (Gen.k_add X1 Y1 Z1 X2 Y2 Z2 p a) = den p a b (X1, Y1, Z1) + den p a b (X2, Y2, Z2) := by
  obtain ⟨g, hg⟩ := hP
  obtain ⟨h, hh⟩ := hQ
  have := k_add_correct hp2 hH hg hh
  exact ⟨⟨_, this⟩, by rw [irep_den this, irep_den hg, irep_den hh]⟩

/-- `P + Q` on objects (`PointJacobi.__add__`; second operand INFINITY, a `PointJacobi` or a legacy `Point`):
never raises, and the result denotes `⟦P⟧ + ⟦Q⟧` (INFINITY exactly when the sum is 0) -/
theorem add_objects_correct_partial (hp2 : p ≠ 2) (hH : NoOrder2 H) {P : PJ} {other : Pt} {g h}
    (hP : PJRep p a b H P g) (hQ : PtRep p a b H other h) :
    ∃ R, pjAdd P other = .ok R ∧ PtRep p a b H R (g + h) :=
  pjAdd_correct hp2 hH hP hQ

/-- FULL: `⟦_double P⟧ = 2⟦P⟧` for every valid triple.  PROVED under N2T. -/
theorem double_correct_partial (hH : NoOrder2 H) {X1 Y1 Z1 : ℤ} {g}
    (h : IRep p a b H (X1, Y1, Z1) g) : IRep p a b H (Gen.k_double X1 Y1 Z1 p a) (g + g) :=
  k_double_correct hH h

theorem double_object_correct_partial (hH : NoOrder2 H) {P : PJ} {g} (hP : PJRep p a b H P g) :
    PtRep p a b H (pjDouble P) (g + g) :=
  pjDouble_correct hH hP

/-- `-P` (unconditional): denotes `−⟦P⟧`, and the stored coordinates stay in [0, p) (F2) -/
theorem neg_correct {P : PJ} {g} (hP : PJRep p a b H P g) : PJRep p a b H (pjNeg P) (-g) :=
  pjNeg_correct hP

/-- `-P` on ANY point value, the identity included: `-INFINITY` is INFINITY (fix F12), `-P` for a `PointJacobi`,
`Point.__neg__` for a legacy point (that case is why N2T is needed: it stores `p - y`) -/
theorem pt_neg_correct_partial (hH : NoOrder2 H) {A : Pt} {g} (hA : PtRep p a b H A g) :
    ∃ R, ptNeg A = .ok R ∧ PtRep p a b H R (-g) :=
  ptNeg_correct hH hA

/-- FULL: `P == Q ↔ ⟦P⟧ = ⟦Q⟧` for all points.  PROVED under N2T (needed only when `other` is a legacy affine point,
to know its y ≠ 0); `other` = INFINITY / `PointJacobi` / legacy `Point`. -/
theorem eq_iff_partial (hH : NoOrder2 H) {P : PJ} {other : Pt} {g h}
    (hP : PJRep p a b H P g) (hQ : PtRep p a b H other h) : pjEq P other = true ↔ g = h :=
  pjEq_iff hH hP hQ

/-- hence `==` is an equivalence relation on point values (reflexive, symmetric, transitive) -/
theorem eq_equivalence_partial (hH : NoOrder2 H) {A B C : Pt} {g h k}
    (hA : PtRep p a b H A g) (hB : PtRep p a b H B h) (hC : PtRep p a b H C k) :
    ptEq A A = true ∧ (ptEq A B = true → ptEq B A = true) ∧
      (ptEq A B = true → ptEq B C = true → ptEq A C = true) := by
  refine ⟨(ptEq_iff hH hA hA).mpr rfl, fun h1 => (ptEq_iff hH hB hA).mpr ((ptEq_iff hH hA hB).mp h1).symm,
    fun h1 h2 => (ptEq_iff hH hA hC).mpr (((ptEq_iff hH hA hB).mp h1).trans ((ptEq_iff hH hB hC).mp h2))⟩

/-- `x()`, `y()` (unconditional): never raise on a stored point, return the canonical residues in [0, p−1], and these
are the affine coordinates of `⟦P⟧` -/
theorem xy_canonical {P : PJ} {g} (hP : PJRep p a b H P g) :
    ∃ x y, pjX P = .ok x ∧ pjY P = .ok y ∧ 0 ≤ x ∧ x < p ∧ 0 ≤ y ∧ y < p ∧
      ∃ hn : (shortW (a : ZMod p) (b : ZMod p)).toAffine.Nonsingular (x : ZMod p) (y : ZMod p),
        g = Affine.Point.some _ _ hn := by
  obtain ⟨x, y, ex, ey, rx, ry, hn⟩ := pjXY_correct hP
  exact ⟨x, y, ex, ey, rx.1, rx.2, ry.1, ry.2, hn⟩

/-- `scale()` (unconditional): Z becomes 1, coordinates reduced, same element, same order/generator flags -/
theorem scale_preserves {P : PJ} {g} (hP : PJRep p a b H P g) :
    ∃ S, pjScale P = .ok S ∧ PJRep p a b H S g ∧ S.z = 1 ∧ S.curve = P.curve ∧ S.order = P.order ∧
      S.generator = P.generator :=
  pjScale_correct hP

/-- `to_affine()` (unconditional): a legacy `Point` with canonical coordinates denoting the same element; the
constructor's `contains_point` assertion cannot fail -/
theorem to_affine_correct {P : PJ} {g} (hP : PJRep p a b H P g) :
    ∃ A, pjToAffine P = .ok (.aff A) ∧ AffRep p a b H A g ∧ A.order = P.order :=
  pjToAffine_correct hP

/-- mixing representations: `+` and `==` on any two point values (INFINITY, `PointJacobi`, legacy `Point`, on either
side, through Python's `__radd__` / reflected `__eq__`) -/
theorem mixed_affine_jacobi_partial (hp2 : p ≠ 2) (hH : NoOrder2 H) {A B : Pt} {g h}
    (hA : PtRep p a b H A g) (hB : PtRep p a b H B h) :
    (∃ R, ptAdd A B = .ok R ∧ PtRep p a b H R (g + h)) ∧ (ptEq A B = true ↔ g = h) :=
  ⟨ptAdd_correct hp2 hH hA hB, ptEq_iff hH hA hB⟩

/-! ## 3. the legacy affine class -/

theorem legacy_add_correct_partial (hp2 : p ≠ 2) (hH : NoOrder2 H) {A : AffPt} {other : Pt} {g h}
    (hA : AffRep p a b H A g) (hQ : PtRep p a b H other h) :
    ∃ R, affAdd A other = .ok R ∧ PtRep p a b H R (g + h) :=
  affAdd_correct hp2 hH hA hQ

theorem legacy_double_correct_partial (hp2 : p ≠ 2) (hH : NoOrder2 H) {A : AffPt} {g}
    (hA : AffRep p a b H A g) : ∃ R, affDouble A = .ok R ∧ PtRep p a b H R (g + g) :=
  affDouble_correct hp2 hH hA

/-- N2T is needed: `Point.__neg__` stores `p - y`, which is p (not canonical) when y = 0 -/
theorem legacy_neg_correct_partial (hH : NoOrder2 H) {A : AffPt} {g} (hA : AffRep p a b H A g) :
    ∃ N, affNeg A = .ok N ∧ AffRep p a b H N (-g) ∧ N.order = none :=
  affNeg_correct hH hA

theorem legacy_eq_correct_partial (hH : NoOrder2 H) {A : AffPt} {other : Pt} {g h}
    (hA : AffRep p a b H A g) (hQ : PtRep p a b H other h) : affEq A other = true ↔ g = h :=
  affEq_iff hH hA hQ

/-! ## 3b. identity-valued `PointJacobi` objects (Y = 0 or Z = 0): "including the identity" at object level -/

/-- `P == Q` on ALL objects (after fix F13): an identity-valued `PointJacobi` equals exactly the other identity-valued
objects and INFINITY (e.g. `(0,0,1) == (5,0,1)`, `(0,0,0) ≠ G`); otherwise equality of the denoted elements -/
theorem eq_iff_all_partial (hH : NoOrder2 H) {P : PJ} {other : Pt} {g h}
    (hP : PJRep0 p a b H P g) (hQ : PtRep0 p a b H other h) : pjEq P other = true ↔ g = h :=
  pjEq_iff0 hH hP hQ

/-- `==` is an equivalence relation on ALL point values, identity-valued objects included -/
theorem eq_equivalence_all_partial (hH : NoOrder2 H) {A B C : Pt} {g h k}
    (hA : PtRep0 p a b H A g) (hB : PtRep0 p a b H B h) (hC : PtRep0 p a b H C k) :
    ptEq A A = true ∧ (ptEq A B = true → ptEq B A = true) ∧
      (ptEq A B = true → ptEq B C = true → ptEq A C = true) := by
  refine ⟨(ptEq_iff0 hH hA hA).mpr rfl, fun h1 => (ptEq_iff0 hH hB hA).mpr ((ptEq_iff0 hH hA hB).mp h1).symm,
    fun h1 h2 => (ptEq_iff0 hH hA hC).mpr (((ptEq_iff0 hH hA hB).mp h1).trans ((ptEq_iff0 hH hB hC).mp h2))⟩

/-- `P + Q` on ALL objects (the `self == INFINITY` / `other == INFINITY` pass-through of `__add__`, and through
`__radd__` for INFINITY / legacy points on the left) -/
theorem add_all_correct_partial (hp2 : p ≠ 2) (hH : NoOrder2 H) {A B : Pt} {g h}
    (hA : PtRep0 p a b H A g) (hB : PtRep0 p a b H B h) :
    (∃ R, ptAdd A B = .ok R ∧ PtRep0 p a b H R (g + h)) ∧ (ptEq A B = true ↔ g = h) :=
  ⟨ptAdd_correct0 hp2 hH hA hB, ptEq_iff0 hH hA hB⟩

/-- `double()`, `-P`, `scale()`, `to_affine()` on ALL `PointJacobi` objects: an identity-valued object doubles to
INFINITY, negates to an identity-valued object, scales without raising (`inverse_mod(0, p) = 0`) and converts to INFINITY -/
theorem unary_all_correct_partial (hH : NoOrder2 H) {P : PJ} {g} (hP : PJRep0 p a b H P g) :
    PtRep p a b H (pjDouble P) (g + g) ∧ PJRep0 p a b H (pjNeg P) (-g) ∧
      (∃ S, pjScale P = .ok S ∧ PJRep0 p a b H S g ∧ S.z = 1) ∧
      (∃ R, pjToAffine P = .ok R ∧ PtRep p a b H R g) := by
  obtain ⟨S, e, hS, z, _⟩ := pjScale_correct0 hP
  exact ⟨pjDouble_correct0 hH hP, pjNeg_correct0 hP, ⟨S, e, hS, z⟩, pjToAffine_correct0 hP⟩

/-- representation independence of `double`, unary minus, `==` and `to_affine` (for `+` see section 4): operands with
equal denotations — any scaling, identity held as INFINITY or as an identity-valued object — give results with equal
denotations, hence `==` results, and `to_affine()` gives the same value -/
theorem representation_independence_unary_partial (hH : NoOrder2 H) {P P' : PJ} {Q Q' : Pt} {g h}
    (hP : PJRep0 p a b H P g) (hP' : PJRep0 p a b H P' g) (hQ : PtRep0 p a b H Q h) (hQ' : PtRep0 p a b H Q' h) :
    ptEq (pjDouble P) (pjDouble P') = true ∧ pjEq (pjNeg P) (.jac (pjNeg P')) = true ∧
      pjEq P Q = pjEq P' Q' ∧
      (∃ R R', pjToAffine P = .ok R ∧ pjToAffine P' = .ok R' ∧ ptEq R R' = true ∧
        (R = .infinity ↔ R' = .infinity)) := by
  refine ⟨(ptEq_iff hH (pjDouble_correct0 hH hP) (pjDouble_correct0 hH hP')).mpr rfl,
    (pjEq_iff0 hH (pjNeg_correct0 hP) (show PtRep0 p a b H (.jac (pjNeg P')) (-g) from pjNeg_correct0 hP')).mpr rfl,
    ?_, ?_⟩
  · rw [Bool.eq_iff_iff, pjEq_iff0 hH hP hQ, pjEq_iff0 hH hP' hQ']
  · obtain ⟨R, e, hR⟩ := pjToAffine_correct0 hP
    obtain ⟨R', e', hR'⟩ := pjToAffine_correct0 hP'
    refine ⟨R, R', e, e', (ptEq_iff hH hR hR').mpr rfl, ?_⟩
    have i1 : ∀ {X : Pt} {k}, PtRep p a b H X k → (X = .infinity ↔ k = 0) := by
      intro X k hX
      cases X with
      | infinity => exact ⟨fun _ => hX, fun _ => rfl⟩
      | jac J => exact ⟨fun e => Pt.noConfusion e, fun e => absurd e (good_ne_zero hX.2.2)⟩
      | aff A => exact ⟨fun e => Pt.noConfusion e, fun e => absurd e (AffRep.ne_zero hX)⟩
    rw [i1 hR, i1 hR']

/-- F13 witnesses on the toy curve, evaluated: `(0,0,0) == G` is False, `(0,0,1) == (5,0,1)` is True, both orders -/
theorem f13_witnesses :
    pjEq ⟨toyC, 0, 0, 0, none, false⟩ (.jac toyG) = false ∧ pjEq toyG (.jac ⟨toyC, 0, 0, 0, none, false⟩) = false ∧
    pjEq ⟨toyC, 0, 0, 1, none, false⟩ (.jac ⟨toyC, 5, 0, 1, none, false⟩) = true ∧
    pjEq ⟨toyC, 5, 0, 1, none, false⟩ (.jac ⟨toyC, 0, 0, 1, none, false⟩) = true ∧
    pjEq ⟨toyC, 3, 6, 0, none, false⟩ .infinity = true := by decide

/-! ## 4. representation independence -/

/-- two stored objects denoting the same element have identical canonical coordinates -/
theorem xy_unique {P P' : PJ} {g} (hP : PJRep p a b H P g) (hP' : PJRep p a b H P' g) :
    pjX P = pjX P' ∧ pjY P = pjY P' := by
  obtain ⟨x, y, ex, ey, rx, ry, hn, hg⟩ := pjXY_correct hP
  obtain ⟨x', y', ex', ey', rx', ry', hn', hg'⟩ := pjXY_correct hP'
  have e := hg.symm.trans hg'
  rw [Affine.Point.some.injEq] at e
  rw [ex, ey, ex', ey', (InRange.cast_inj rx rx').mp e.1, (InRange.cast_inj ry ry').mp e.2]
  exact ⟨rfl, rfl⟩

/-- a point value is INFINITY exactly when it denotes the identity -/
theorem infinity_iff_zero {R : Pt} {k} (hR : PtRep p a b H R k) : R = .infinity ↔ k = 0 := by
  cases R with
  | infinity => exact ⟨fun _ => hR, fun _ => rfl⟩
  | jac J => exact ⟨fun e => Pt.noConfusion e, fun e => absurd e (good_ne_zero hR.2.2)⟩
  | aff A => exact ⟨fun e => Pt.noConfusion e, fun e => absurd e (AffRep.ne_zero hR)⟩

/-- no result depends on the representation of the operands: operands with equal denotations (any scaling, Jacobi or
affine or INFINITY) give sums that are `==`, are INFINITY together, and have identical `x()`, `y()` -/
theorem representation_independence_partial (hp2 : p ≠ 2) (hH : NoOrder2 H) {P P' : PJ} {Q Q' : Pt} {g h}
    (hP : PJRep p a b H P g) (hP' : PJRep p a b H P' g) (hQ : PtRep p a b H Q h) (hQ' : PtRep p a b H Q' h) :
    ∃ R R', pjAdd P Q = .ok R ∧ pjAdd P' Q' = .ok R' ∧ ptEq R R' = true ∧
      (R = .infinity ↔ R' = .infinity) ∧
      (∀ J J', R = .jac J → R' = .jac J' → pjX J = pjX J' ∧ pjY J = pjY J') := by
  obtain ⟨R, e, hR⟩ := pjAdd_correct hp2 hH hP hQ
  obtain ⟨R', e', hR'⟩ := pjAdd_correct hp2 hH hP' hQ'
  refine ⟨R, R', e, e', (ptEq_iff hH hR hR').mpr rfl, ?_, ?_⟩
  · rw [infinity_iff_zero hR, infinity_iff_zero hR']
  · rintro J J' rfl rfl
    exact xy_unique hR hR'

/-! ## 4b. tie of the straight-line arithmetic of the object layer to the generated text -/

/-- `contains_point`, the cross-multiplied comparison of `__eq__`, and the arithmetic of `scale`, `x`, `y` in the model
are the definitions GENERATED from the current source (`Generated/Steps.lean`) -/
theorem object_arithmetic_is_generated :
    (∀ c x y, containsPoint c x y = Gen.s_contains_point x y c.p c.a c.b) ∧
    (∀ p x1 y1 z1 x2 y2 z2, coordsEq p x1 y1 z1 x2 y2 z2 = Gen.s_eq_coords x1 y1 z1 x2 y2 z2 p) ∧
    (∀ (P : PJ) zi, P.z ≠ 1 → inverseMod P.z P.curve.p = .ok zi →
      pjScale P = .ok { P with x := (Gen.s_scale_coords P.x P.y zi P.curve.p).1,
                               y := (Gen.s_scale_coords P.x P.y zi P.curve.p).2, z := 1 } ∧
      pjX P = .ok (Gen.s_x_coord P.x zi P.curve.p) ∧ pjY P = .ok (Gen.s_y_coord P.y zi P.curve.p)) :=
  ⟨StepsTie.containsPoint_tie, StepsTie.coordsEq_tie,
    fun P zi hz hi => ⟨StepsTie.pjScale_tie P zi hz hi, StepsTie.pjX_tie P zi hz hi, StepsTie.pjY_tie P zi hz hi⟩⟩

/-! ## 5. K1 is real: the full statement fails on a curve with a point of order two -/

/-- p = 11, a = 0, b = 1: (0, 1) and (2, 3) are points of the curve, their sum in the textbook group is NOT the
identity (it is (10, 0), of order two), yet the model — like the code, replayed by the check — returns INFINITY -/
theorem two_torsion_counterexample :
    ∃ (hP : (shortW ((0 : ℤ) : ZMod 11) ((1 : ℤ) : ZMod 11)).toAffine.Nonsingular ((0 : ℤ) : ZMod 11) ((1 : ℤ) : ZMod 11))
      (hQ : (shortW ((0 : ℤ) : ZMod 11) ((1 : ℤ) : ZMod 11)).toAffine.Nonsingular ((2 : ℤ) : ZMod 11) ((3 : ℤ) : ZMod 11)),
      Affine.Point.some _ _ hP + Affine.Point.some _ _ hQ ≠ 0 ∧
      pjAdd ⟨⟨11, 0, 1, none⟩, 0, 1, 1, none, false⟩ (.jac ⟨⟨11, 0, 1, none⟩, 2, 3, 1, none, false⟩)
        = .ok .infinity := by
  refine ⟨nonsingular_of (by decide) (by decide) (by decide), nonsingular_of (by decide) (by decide) (by decide),
    ?_, by decide⟩
  intro h0
  have := eq_neg_of_add_eq_zero_right h0
  rw [Affine.Point.neg_some, Affine.Point.some.injEq] at this
  exact absurd this.1 (by decide)

/-! ## non-vacuity: the hypotheses are satisfiable on y² = x³ + x + 6 over F₁₁ (13 points, no 2-torsion) -/

example : ∃ R g h, PJRep 11 1 6 ⊤ toyG g ∧ PJRep 11 1 6 ⊤ toyQ h ∧
    pjAdd toyG (.jac toyQ) = .ok R ∧ PtRep 11 1 6 ⊤ R (g + h) := by
  obtain ⟨g, hg⟩ := toyG_rep
  obtain ⟨h, hh⟩ := toyQ_rep
  obtain ⟨R, e, hR⟩ := add_objects_correct_partial (by decide) toy_n2t hg (show PtRep 11 1 6 ⊤ (.jac toyQ) h from hh)
  exact ⟨R, g, h, hg, hh, e, hR⟩

example : ∃ g, IRep 11 1 6 ⊤ (Gen.k_add 2 7 1 2 7 1 11 1) (g + g) := by
  obtain ⟨g, hg⟩ := toyG_rep
  exact ⟨g, add_correct_partial (by decide) toy_n2t hg.irep hg.irep⟩

example : pjAdd toyG (.jac toyQ) = .ok (.jac ⟨toyC, 6, 6, 2, none, false⟩) := by decide
example : pjEq toyG (.jac ⟨toyC, 8, 1, 2, none, false⟩) = true := by decide   -- (2,7) rescaled by Z = 2
example : ∃ x y, pjX toyG = .ok x ∧ pjY toyG = .ok y := by
  obtain ⟨g, hg⟩ := toyG_rep
  obtain ⟨x, y, ex, ey, _⟩ := xy_canonical hg
  exact ⟨x, y, ex, ey⟩


/-- the same toy point as a legacy affine `Point` value -/
example : ∃ g, AffRep 11 1 6 ⊤ ⟨toyC, 2, 7, none⟩ g ∧
    (∃ R, affDouble ⟨toyC, 2, 7, none⟩ = .ok R ∧ PtRep 11 1 6 ⊤ R (g + g)) ∧
    (∃ N, affNeg ⟨toyC, 2, 7, none⟩ = .ok N ∧ AffRep 11 1 6 ⊤ N (-g)) := by
  obtain ⟨g, hg⟩ := toyG_rep
  obtain ⟨A, e, hA, _⟩ := to_affine_correct hg
  have eA : A = ⟨toyC, 2, 7, none⟩ := by
    have : pjToAffine toyG = .ok (.aff ⟨toyC, 2, 7, none⟩) := by decide
    rw [this] at e; cases e; rfl
  subst eA
  obtain ⟨N, eN, hN, _⟩ := legacy_neg_correct_partial toy_n2t hA
  exact ⟨g, hA, legacy_double_correct_partial (by decide) toy_n2t hA, N, eN, hN⟩

/-- `==` between two scalings of the same point, and representation independence, instantiated -/
example : ∃ g, PJRep 11 1 6 ⊤ toyG g ∧ PJRep 11 1 6 ⊤ ⟨toyC, 8, 1, 2, none, false⟩ g := by
  obtain ⟨g, hg⟩ := toyG_rep
  refine ⟨g, hg, ?_⟩
  have h := good_smul hg.2.2 (u := ((2 : ℤ) : ZMod 11)) (by decide)
  refine ⟨toyC_on, ⟨⟨by decide, by decide⟩, ⟨by decide, by decide⟩, ⟨by decide, by decide⟩⟩, ?_⟩
  convert h using 2
  simp only [toyG, cast3_mk, Matrix.cons_val_zero, Matrix.cons_val_one, Matrix.cons_val_two, Matrix.head_cons,
    Matrix.tail_cons]
  decide


/-- identity-valued objects satisfy `PJRep0` and the object theorems apply to them: (0,0,1) + G = G, (3,6,0) == INFINITY -/
example : ∃ g, PJRep0 11 1 6 ⊤ ⟨toyC, 0, 0, 1, none, false⟩ 0 ∧ PJRep0 11 1 6 ⊤ ⟨toyC, 3, 6, 0, none, false⟩ 0 ∧
    PJRep0 11 1 6 ⊤ toyG g ∧
    (∃ R, pjAdd ⟨toyC, 0, 0, 1, none, false⟩ (.jac toyG) = .ok R ∧ PtRep0 11 1 6 ⊤ R (0 + g)) ∧
    (pjEq ⟨toyC, 3, 6, 0, none, false⟩ .infinity = true) := by
  obtain ⟨g, hg⟩ := toyG_rep
  have z1 : PJRep0 11 1 6 ⊤ ⟨toyC, 0, 0, 1, none, false⟩ 0 :=
    pjRep0_zero toyC_on ⟨⟨by decide, by decide⟩, ⟨by decide, by decide⟩, ⟨by decide, by decide⟩⟩ (Or.inl rfl)
  have z2 : PJRep0 11 1 6 ⊤ ⟨toyC, 3, 6, 0, none, false⟩ 0 :=
    pjRep0_zero toyC_on ⟨⟨by decide, by decide⟩, ⟨by decide, by decide⟩, ⟨by decide, by decide⟩⟩ (Or.inr rfl)
  exact ⟨g, z1, z2, hg.rep0, (add_all_correct_partial (by decide) toy_n2t (A := .jac _) (B := .jac toyG) z1 hg.rep0).1,
    (eq_iff_all_partial toy_n2t z2 (show PtRep0 11 1 6 ⊤ .infinity 0 from rfl)).mpr rfl⟩

end C06
