import Proofs.EcdsaInstLegacy
import Proofs.EcdsaInstNamed
import Proofs.EcdsaInstToy
import Proofs.EcdsaInstCurve
import Proofs.EcdsaSign
import Proofs.EcdsaTruncate
import Proofs.EcdsaKeys
import Proofs.EcdsaToy
/-!
# C03 — signature integers and public keys are the ones the ECDSA standard defines

Model: `Model/Ecdsa.lean` (`Ecdsa.sign` = `Private_key.sign`, `Ecdsa.signNumber`, `Ecdsa.signDigest`,
`Ecdsa.truncateAndConvertDigest`, `Ecdsa.fromSecretExponent`), whose integer expressions and tests are the
definitions `Gen.Ecdsa.*` regenerated from `src/ecdsa/ecdsa.py`, `src/ecdsa/keys.py` on every run.
Point layer: any `ops` with `PointOpsCorrect ops G den xc valid` (abstract group `𝔾`, `n • G = 0`, `G ≠ 0`,
`n` prime) — see `Proofs/EcdsaGroup.lean`.  `invZ n k` is `k⁻¹` in `ZMod n` as an integer of `[0, n)`.
-/
namespace C03
open Ecdsa

variable {P : Type} {𝔾 : Type} [AddCommGroup 𝔾]
variable {ops : PointOps P} {G : 𝔾} {den : P → 𝔾} {xc : 𝔾 → Option ℤ} {valid : P → Prop}

/-- **r = x(kG) mod n, s = k⁻¹(e + r d) mod n**, and `RSZeroError` exactly when that r or s is 0 — for every
secret `d`, every hash integer `e`, every nonce `k ∈ [1, n−1]`. -/
theorem sign_eq_standard (C : PointOpsCorrect ops G den xc valid) (d e k : ℤ) (hk : 1 ≤ k ∧ k < ops.order) :
    ∃ x, xc (k • G) = some x ∧
      sign ops d e k =
        (let r := x % ops.order
         let s := invZ ops.order k * (e + r * d) % ops.order
         if r = 0 ∨ s = 0 then .error .rsZero else .ok (r, s)) := by
  have hnd : ¬ ops.order ∣ k := fun h => by have := Int.le_of_dvd (by omega) h; omega
  obtain ⟨x, hx, h⟩ := sign_spec C d e k hnd
  refine ⟨x, hx, ?_⟩
  rw [h, Int.emod_eq_of_lt (by omega) hk.2]
  rfl

/-- the same for an arbitrary integer nonce that is not a multiple of `n` (`Private_key.sign` reduces it) -/
theorem sign_eq_standard_any_nonce (C : PointOpsCorrect ops G den xc valid) (d e k : ℤ) (hk : ¬ ops.order ∣ k) :
    ∃ x, xc (k • G) = some x ∧
      sign ops d e k =
        (let r := x % ops.order
         let s := invZ ops.order (k % ops.order) * (e + r * d) % ops.order
         if r = 0 ∨ s = 0 then .error .rsZero else .ok (r, s)) := by
  obtain ⟨x, hx, h⟩ := sign_spec C d e k hk
  exact ⟨x, hx, h⟩

/-- `sign_number` with an explicit nonce: the range assertion, then `Private_key.sign` -/
theorem sign_number_explicit (ops : PointOps P) (d number k : ℤ) (rand : ℤ → Res ℤ) :
    signNumber ops d number (some k) rand =
      if 1 ≤ k ∧ k < ops.order then sign ops d number k else .error .assertionError := by
  unfold signNumber
  by_cases h : 1 ≤ k ∧ k < ops.order
  · simp [Gen.Ecdsa.sign_number_k_ok, h, bind, Except.bind]
  · have : ¬ (1 ≤ k ∧ k < ops.order) := h
    simp only [Gen.Ecdsa.sign_number_k_ok, bind, Except.bind, h, if_false]
    have : (decide (1 ≤ k) && decide (k < ops.order)) = false := by
      simp only [Bool.and_eq_false_iff, decide_eq_false_iff_not]; omega
    simp [this]

/-- **e = the leftmost min(8·len, bitlen n) bits of the digest** (truncation allowed; `baselen = orderlen(n)`),
stated on the bit string of the digest -/
theorem truncate_eq_leftmost_bits (dg : Bytes) (hne : dg ≠ []) (n : ℕ) :
    truncateAndConvertDigest dg (Util.orderlen n) (n : ℤ) true =
      .ok ((bitsToNat ((bytesToBits dg).take (min (8 * dg.length) (bitLen (n : ℤ)).toNat)) : ℕ) : ℤ) :=
  truncate_allow dg hne n

/-- the bit-string reading is the quotient `⌊beVal dg / 2^(8·len − min(8·len, bitlen))⌋` (one shift) -/
theorem leftmost_bits_as_quotient (dg : Bytes) (blen : ℕ) :
    bitsToNat ((bytesToBits dg).take (min (8 * dg.length) blen)) = beVal dg / 2 ^ (8 * dg.length - min (8 * dg.length) blen) :=
  leftmostBits_eq dg blen

/-- a digest with no more bits than `n` is taken as it is, with or without truncation allowed -/
theorem truncate_short_is_digest (dg : Bytes) (hne : dg ≠ []) (n : ℕ) (h : 8 * dg.length ≤ (bitLen (n : ℤ)).toNat) (allow : Bool) :
    truncateAndConvertDigest dg (Util.orderlen n) (n : ℤ) allow = .ok (beVal dg : ℤ) := by
  cases allow
  · rw [truncate_noallow dg hne]
    have := bitLen_le_baselen n
    have : ¬ dg.length > Util.orderlen n := by omega
    simp [this]
  · rw [truncate_allow dg hne n]
    show Except.ok ((leftmostBits dg _ : ℕ) : ℤ) = _
    rw [leftmostBits_short dg _ h]

/-- truncation disabled: longer (in bytes) than the order → `BadDigestError`; otherwise the digest itself -/
theorem truncate_disallowed (dg : Bytes) (hne : dg ≠ []) (baselen : ℕ) (order : ℤ) :
    truncateAndConvertDigest dg baselen order false =
      if dg.length > baselen then .error .badDigest else .ok (beVal dg : ℤ) :=
  truncate_noallow dg hne baselen order

/-- **the public key of d is d • G** (`1 ≤ d < n`); any other `secexp` is refused with `MalformedPointError` -/
theorem pubkey_eq_dG (C : PointOpsCorrect ops G den xc valid) (d : ℤ) :
    (1 ≤ d ∧ d < ops.order → ∃ A, fromSecretExponent ops d = .ok A ∧ valid A ∧ den A = d • G) ∧
    (¬ (1 ≤ d ∧ d < ops.order) → fromSecretExponent ops d = .error .malformedPoint) :=
  fromSecretExponent_spec C d

/-- **`dg ≠ []` is necessary** in the truncation and end-to-end statements: on an empty digest `sign_digest` (like
`verify_digest`) raises `ValueError` from `int(b"", 16)`; the property quantifies over non-empty digests. -/
theorem sign_digest_empty_digest {β : Type} (ops : PointOps P) (d : ℤ) (k : Option ℤ) (rand : ℤ → Res ℤ)
    (enc : ℤ → ℤ → ℤ → Res β) (allow : Bool) : signDigest ops d [] k rand enc allow = .error .valueError := by
  unfold signDigest
  rw [truncate_empty]; rfl

/-- end to end (NON-EMPTY digest, hypothesis `hne`), as observed at `SigningKey.sign_digest(digest, k=k, allow_truncate=True)`: the encoder is applied
to the standard `(r, s)` of the leftmost-bits integer, or `RSZeroError` is raised -/
theorem sign_digest_eq_standard {β : Type} (C : PointOpsCorrect ops G den xc valid) (d k : ℤ) (hk : 1 ≤ k ∧ k < ops.order)
    (dg : Bytes) (hne : dg ≠ []) (rand : ℤ → Res ℤ) (enc : ℤ → ℤ → ℤ → Res β) :
    ∃ x, xc (k • G) = some x ∧
      signDigest ops d dg (some k) rand enc true =
        (let e : ℤ := (bitsToNat ((bytesToBits dg).take (min (8 * dg.length) (bitLen ops.order).toNat)) : ℕ)
         let r := x % ops.order
         let s := invZ ops.order k * (e + r * d) % ops.order
         if r = 0 ∨ s = 0 then .error .rsZero else enc r s ops.order) := by
  have hn := C.n_pos
  have hno : ((ops.order.toNat : ℕ) : ℤ) = ops.order := Int.toNat_of_nonneg hn.le
  have ht := truncate_allow dg hne ops.order.toNat
  rw [hno] at ht
  obtain ⟨x, hx, hs⟩ := sign_eq_standard C d
    ((bitsToNat ((bytesToBits dg).take (min (8 * dg.length) (bitLen ops.order).toNat)) : ℕ) : ℤ) k hk
  refine ⟨x, hx, ?_⟩
  unfold signDigest baselen
  rw [ht]
  simp only [bind, Except.bind, sign_number_explicit, hk, and_self, if_true]
  unfold leftmostBits
  rw [hs]
  simp only
  by_cases hz : x % ops.order = 0 ∨ invZ ops.order k * ((bitsToNat ((bytesToBits dg).take
      (min (8 * dg.length) (bitLen ops.order).toNat)) : ℕ) + x % ops.order * d) % ops.order = 0
  · rw [if_pos hz, if_pos hz]
  · rw [if_neg hz, if_neg hz]

/-- the hash integer for either flag: the leftmost `min(8·len, bitlen n)` bits when truncation is allowed, the digest
itself (big-endian) when it is not -/
def digestInt (order : ℤ) (dg : Bytes) (allow : Bool) : ℤ :=
  if allow then ((bitsToNat ((bytesToBits dg).take (min (8 * dg.length) (bitLen order).toNat)) : ℕ) : ℤ) else (beVal dg : ℤ)

/-- **both truncation flags** (NON-EMPTY digest): with `allow_truncate=False` a digest longer in bytes than the order raises
`BadDigestError`; in every other case `sign_digest(digest, k=k, allow_truncate=allow)` applies the encoder to the standard
`(r, s)` for `e = digestInt` (when truncation is disabled and the digest fits, `e` is the digest itself, cf.
`truncate_short_is_digest`), or raises `RSZeroError` -/
theorem sign_digest_eq_standard_flag {β : Type} (C : PointOpsCorrect ops G den xc valid) (d k : ℤ) (hk : 1 ≤ k ∧ k < ops.order)
    (dg : Bytes) (hne : dg ≠ []) (rand : ℤ → Res ℤ) (enc : ℤ → ℤ → ℤ → Res β) (allow : Bool) :
    ∃ x, xc (k • G) = some x ∧
      signDigest ops d dg (some k) rand enc allow =
        (if allow = false ∧ dg.length > baselen ops then .error .badDigest
         else
           let e := digestInt ops.order dg allow
           let r := x % ops.order
           let s := invZ ops.order k * (e + r * d) % ops.order
           if r = 0 ∨ s = 0 then .error .rsZero else enc r s ops.order) := by
  cases allow with
  | true =>
    obtain ⟨x, hx, h⟩ := sign_digest_eq_standard C d k hk dg hne rand enc
    exact ⟨x, hx, by rw [h]; simp [digestInt]⟩
  | false =>
    obtain ⟨x, hx, hs⟩ := sign_eq_standard C d (beVal dg : ℤ) k hk
    refine ⟨x, hx, ?_⟩
    unfold signDigest
    rw [truncate_noallow dg hne]
    by_cases hl : dg.length > baselen ops
    · simp [hl, bind, Except.bind]
    · simp only [hl, if_false, bind, Except.bind, sign_number_explicit, hk, and_self, if_true, and_false, digestInt,
        Bool.false_eq_true]
      rw [hs]
      simp only
      by_cases hz : x % ops.order = 0 ∨ invZ ops.order k * ((beVal dg : ℤ) + x % ops.order * d) % ops.order = 0
      · rw [if_pos hz, if_pos hz]
      · rw [if_neg hz, if_neg hz]

/-! ### non-vacuity: the toy instance (cyclic group of order 7) and concrete byte strings -/

example : PointOpsCorrect Toy.ops (1 : ZMod 7) id Toy.xc (fun _ => True) := Toy.correct

/-- the hypotheses of `sign_eq_standard` are met and the model really signs: d = 3, e = 5, k = 2 gives (2, 2) -/
example : (1 : ℤ) ≤ 2 ∧ (2 : ℤ) < Toy.ops.order ∧ sign Toy.ops 3 5 2 = .ok (2, 2) := by decide +kernel

/-- … and it really raises `RSZeroError` on the standard's zero cases: d = 3, e = 1, k = 2 has s = 0 -/
example : sign Toy.ops 3 1 2 = .error .rsZero := by decide +kernel

/-- truncation on concrete data: n = 0x1FF (9 bits, baselen 2), digest ab cd ef → leftmost 9 bits of `ab cd` = 0x157 -/
example : truncateAndConvertDigest [0xab, 0xcd, 0xef] (Util.orderlen 0x1ff) 0x1ff true = .ok 0x157
    ∧ truncateAndConvertDigest [0xab, 0xcd, 0xef] (Util.orderlen 0x1ff) 0x1ff false = .error .badDigest := by
  decide +kernel

example : fromSecretExponent Toy.ops 3 = .ok 3 ∧ fromSecretExponent Toy.ops 7 = .error .malformedPoint := by
  decide +kernel

/-! ### the same, for the model of the real point classes
`Ecdsa.OnCurve.ops c` is what the model driver executes (`Model/EcdsaCurve.lean` over `Model/Curve.lean`: the
`PointJacobi` code as written).  `OnCurve.Matches c C`: odd prime field `p`, the curve parameters of `c`, a group
context `C` (Mathlib's curve group, base point `C.G` with `n • G = 0`, `n` an odd prime) and the generator object
denotes `C.G`; point objects are `OnCurve.Valid` (INFINITY or a `PointJacobi` denoting an element of ⟨G⟩, declared
order `n` or none).  The interface `PointOpsCorrect` is *proved* for it (Proofs/EcdsaInstCurve.lean, from C06/C07). -/
section OnCurve
open GroupInterface
variable {p : ℕ} [Fact p.Prime] {a b : ℤ}

theorem sign_eq_standard_on_curve (c : Affine.Crv) (C : Ctx p a b) (M : OnCurve.Matches c C) (d e k : ℤ)
    (hk : 1 ≤ k ∧ k < c.n) :
    ∃ x, OnCurve.xcOf (k • C.G) = some x ∧
      sign (OnCurve.ops c) d e k =
        (let r := x % c.n
         let s := invZ c.n k * (e + r * d) % c.n
         if r = 0 ∨ s = 0 then .error .rsZero else .ok (r, s)) :=
  sign_eq_standard (OnCurve.pointOpsCorrect c C M) d e k hk

theorem pubkey_eq_dG_on_curve (c : Affine.Crv) (C : Ctx p a b) (M : OnCurve.Matches c C) (d : ℤ) :
    (1 ≤ d ∧ d < c.n → ∃ A, fromSecretExponent (OnCurve.ops c) d = .ok A ∧ OnCurve.Valid C A ∧ OnCurve.den C A = d • C.G) ∧
    (¬ (1 ≤ d ∧ d < c.n) → fromSecretExponent (OnCurve.ops c) d = .error .malformedPoint) :=
  pubkey_eq_dG (OnCurve.pointOpsCorrect c C M) d

/-- **the public key in coordinates**: what `x()`, `y()` of the verifying key's point return (and hence what
`VerifyingKey.to_string()` serialises, C09) are the canonical affine coordinates — integers of `[0, p)` — of the group
element `d • G` of Mathlib's curve group -/
theorem pubkey_coordinates_on_curve (c : Affine.Crv) (C : Ctx p a b) (M : OnCurve.Matches c C) (d : ℤ)
    (hd : 1 ≤ d ∧ d < c.n) :
    ∃ A x y, fromSecretExponent (OnCurve.ops c) d = .ok A ∧ (OnCurve.ops c).xOf A = .ok x ∧ (OnCurve.ops c).yOf A = .ok y ∧
      0 ≤ x ∧ x < p ∧ 0 ≤ y ∧ y < p ∧
      ∃ hns : (Jac.shortW (a : ZMod p) (b : ZMod p)).toAffine.Nonsingular (x : ZMod p) (y : ZMod p),
        d • C.G = WeierstrassCurve.Affine.Point.some _ _ hns := by
  have PC := OnCurve.pointOpsCorrect c C M
  obtain ⟨A, hA, vA, dA⟩ := (pubkey_eq_dG PC d).1 hd
  have hne : OnCurve.den C A ≠ 0 := by
    rw [dA]; intro h
    have := (PC.smul_eq_zero_iff d).mp h
    have := Int.le_of_dvd (by omega) this
    have : (OnCurve.ops c).order = c.n := rfl
    omega
  rcases GroupInterface.result_cases (OnCurve.valid_rep vA) with ⟨_, h0⟩ | ⟨J, rfl, hJ, _⟩ | ⟨Af, rfl, _, _⟩
  · exact absurd h0 hne
  · obtain ⟨x, y, ex, ey, x0, x1, y0, y1, hns, hg⟩ := GroupInterface.xy hJ
    exact ⟨_, x, y, hA, ex, ey, x0, x1, y0, y1, hns, by rw [← dA]; exact hg⟩
  · exact absurd vA.1 (by simp [OnCurve.OrdInv])

/-- non-vacuity: the hypotheses are satisfiable (toy curve y² = x³ + x + 6 over 𝔽₁₁, G = (2,7), n = 13) -/
example : ∃ C : Ctx 11 1 6, OnCurve.Matches OnCurve.toyCrv C := OnCurve.toy_matches

end OnCurve

/-! ### the named curves
For each of the 16 named curves with cofactor 1 (rows of `Generated/Curves.lean`, re-extracted from the source on
every run) the only hypotheses left are the SEC 2 / FIPS 186 / RFC 5639 facts **p prime, n prime, #E(𝔽_p) = n**
(DESIGN §4); generator on the curve, reduced coordinates, Δ ≠ 0, h = 1 are computed by the kernel
(`OnCurve.rowCheck_named`), `n • G = 0` is Lagrange, ⟨G⟩ is the whole group. -/
section Named
open GroupInterface

theorem sign_eq_standard_named (row : Gen.CurveRow) (hrow : row ∈ [Gen.curve_NIST192p, Gen.curve_NIST224p, Gen.curve_NIST256p, Gen.curve_NIST384p,
      Gen.curve_NIST521p, Gen.curve_SECP256k1, Gen.curve_BRAINPOOLP160r1, Gen.curve_BRAINPOOLP192r1,
      Gen.curve_BRAINPOOLP224r1, Gen.curve_BRAINPOOLP256r1, Gen.curve_BRAINPOOLP320r1, Gen.curve_BRAINPOOLP384r1,
      Gen.curve_BRAINPOOLP512r1, Gen.curve_SECP112r1, Gen.curve_SECP128r1, Gen.curve_SECP160r1])
    [Fact row.p.Prime] (hnp : row.n.Prime)
    (hcard : Nat.card (Jac.Grp ((row.a : ℤ) : ZMod row.p) ((row.b : ℤ) : ZMod row.p)) = row.n) :
    ∃ C : Ctx row.p row.a row.b, C.n = row.n ∧
      (∀ d e k : ℤ, 1 ≤ k ∧ k < row.n → ∃ x, OnCurve.xcOf (k • C.G) = some x ∧
        sign (OnCurve.ops (OnCurve.crvOfRow row)) d e k =
          (let r := x % (row.n : ℤ)
           let s := invZ row.n k * (e + r * d) % (row.n : ℤ)
           if r = 0 ∨ s = 0 then .error .rsZero else .ok (r, s))) ∧
      (∀ d : ℤ, 1 ≤ d ∧ d < row.n → ∃ A, fromSecretExponent (OnCurve.ops (OnCurve.crvOfRow row)) d = .ok A ∧
        OnCurve.Valid C A ∧ OnCurve.den C A = d • C.G) := by
  obtain ⟨C, M, hn⟩ := OnCurve.matchesRec_of_row row hnp hcard (OnCurve.rowCheck_named row hrow)
  exact ⟨C, hn, fun d e k hk => sign_eq_standard_on_curve _ C M.toMatches d e k hk,
    fun d hd => (pubkey_eq_dG_on_curve _ C M.toMatches d).1 hd⟩

end Named

/-! ### user-built curves whose generator is a legacy affine `Point` (no `mul_add`)
`Public_key.verifies` then computes `u1 * G + u2 * Q` with `Point.__mul__`, `PointJacobi.__mul__` and the mixed
`__add__` / `__radd__` dispatch; `from_public_point` converts the key with `PointJacobi.from_affine`.  The interface is
proved for this configuration too (Proofs/EcdsaInstLegacy.lean: `OnCurve.pointOpsCorrect_legacy`, point objects
`OnCurve.ValidL` = INFINITY, `PointJacobi` or `Point` values of ⟨G⟩). -/
section Legacy
open GroupInterface
variable {p : ℕ} [Fact p.Prime] {a b : ℤ}

theorem sign_eq_standard_legacy (c : Affine.Crv) (C : Ctx p a b) (M : OnCurve.MatchesL c C) (d e k : ℤ)
    (hk : 1 ≤ k ∧ k < c.n) :
    ∃ x, OnCurve.xcOf (k • C.G) = some x ∧
      sign (OnCurve.ops c) d e k =
        (let r := x % c.n
         let s := invZ c.n k * (e + r * d) % c.n
         if r = 0 ∨ s = 0 then .error .rsZero else .ok (r, s)) :=
  sign_eq_standard (OnCurve.pointOpsCorrect_legacy c C M) d e k hk

theorem pubkey_eq_dG_legacy (c : Affine.Crv) (C : Ctx p a b) (M : OnCurve.MatchesL c C) (d : ℤ) (hd : 1 ≤ d ∧ d < c.n) :
    ∃ A, fromSecretExponent (OnCurve.ops c) d = .ok A ∧ OnCurve.ValidL C A ∧ OnCurve.den C A = d • C.G :=
  (pubkey_eq_dG (OnCurve.pointOpsCorrect_legacy c C M) d).1 hd

example : ∃ C : Ctx 11 1 6, OnCurve.MatchesL OnCurve.toyCrvL C := OnCurve.toy_matchesL

end Legacy

/-! ### evaluated on the model of the REAL point classes (closed instance, no hypothesis; kernel evaluation through
`PointJacobi.__mul__` / `mul_add` / `x()` as written): toy curve y² = x³ + x + 6 over 𝔽₁₁, G = (2,7), n = 13,
driver token `11,1,6,2,7,13,1,j`; secret d = 3, public point Q = 3G = (8,3) -/
set_option maxRecDepth 4000 in
example : fromSecretExponent (OnCurve.ops OnCurve.toyCrv) 3 = .ok (.jac ⟨OnCurve.crvOf OnCurve.toyCrv, 8, 3, 1, some 13, false⟩)
    ∧ sign (OnCurve.ops OnCurve.toyCrv) 3 5 2 = .ok (5, 10)        -- 2G = (5,2): r = 5, s = 2⁻¹(5 + 5·3) = 7·20 mod 13 = 10
    ∧ sign (OnCurve.ops OnCurve.toyCrv) 3 5 13 = .error .typeError  -- nonce ≡ 0: `None % n` (outside the property's domain)
    ∧ signDigest (OnCurve.ops OnCurve.toyCrv) 3 [0x50] (some 2) (fun _ => .error .other) encDer true
        = .ok [48, 6, 2, 1, 5, 2, 1, 10] := by                      -- digest 50: leftmost 4 bits = 5
  decide +kernel

end C03
