import Props.C09
import Props.Named
import Props.NamedPrimes
/-!
# C01 × C09 — signatures still verify after the key is serialised and re-loaded, and a re-loaded signing key makes the
same signatures

C09 (`C09.all_round_trips_model`, keys' model `Model/Keys.lean`: a key is its curve row and the integers `d`, `(x, y)`)
proves that every serialisation of a key pair built from `d` loads back to the *same* key value.  Here that value is
linked to the ECDSA model: the point object a loader builds for the verifying key, `PointJacobi(curve, x, y, 1, order)`,
is a valid point object denoting `d • G`, so C01's theorems apply to it; and the re-loaded signing key carries the same
scalar, so it signs identically.  All 17 named curves; hypotheses `p`, `n` prime (the order of `G` is kernel-checked).
-/
namespace C01r
open Ecdsa Keys GroupInterface Jac Named Curve WeierstrassCurve

variable {r : Gen.CurveRow} [Fact (Nat.Prime r.p)]

/-- the point object of a loaded verifying key: `PointJacobi(curve.curve, x, y, 1, order)` -/
def vkPoint (r : Gen.CurveRow) (vk : VK) : Curve.Pt := .jac ⟨KeysWire.curveFp r, vk.x, vk.y, 1, some r.n, false⟩

/-- **tie of `vkPoint`**: it is the model function `OnCurve.loadedKeyPoint` (Model/EcdsaCurve.lean) at the key's
coordinates — the function the model driver uses for every public-key argument of the `ecdsa_*` lines and exposes as
`ecdsa_loaded_key_point`; the correspondence run of C01 (`loaded_key_point` stream) compares it, field by field
(class, X, Y, Z, order, generator flag), with `VerifyingKey.from_string / from_der / from_pem(...).pubkey.point` of the
real code for every container × point encoding on all 17 curves -/
theorem vkPoint_is_model_loader (r : Gen.CurveRow) (vk : VK) :
    vkPoint r vk = OnCurve.loadedKeyPoint (Named.crvOf r) vk.x vk.y := rfl

/-- what `from_secret_exponent` stores in the key value: the coordinates the point model computes for `d * G` -/
theorem vk_of_fromSecretExponent {c : Keys.Curve} {d : ℕ} {k : SK}
    (h : SK.fromSecretExponent KeysWire.modelExt c d = .ok k) :
    k.d = d ∧ ∃ X Y : ℤ, KeysWire.pubPointModel c d = some (X, Y) ∧ 0 ≤ X ∧ 0 ≤ Y ∧ k.vk.x = X.toNat ∧ k.vk.y = Y.toNat := by
  unfold SK.fromSecretExponent at h
  split at h
  · cases h
  · simp only [Int.toNat_natCast] at h
    cases hp : KeysWire.modelExt.pubPoint c d with
    | none => rw [hp] at h; cases h
    | some xy =>
      obtain ⟨X, Y⟩ := xy
      rw [hp] at h
      simp only at h
      cases hf : Keys.fromPublicPoint KeysWire.modelExt c X Y false with
      | error e => rw [hf] at h; cases h
      | ok vk =>
        rw [hf] at h
        injection h with h; subst h
        unfold Keys.fromPublicPoint at hf
        split at hf
        · cases hf
        · rename_i hr
          simp only [not_or, not_not] at hr
          split at hf
          · cases hf
          · split at hf
            · cases hf
            · split at hf
              · cases hf
              · injection hf with hf; subst hf
                exact ⟨rfl, X, Y, hp, hr.1.1, hr.2.1, rfl, rfl⟩

/-- **the loaded verifying key denotes `d • G`**: the point object built from the coordinates stored for `d` is a valid
point object of ⟨G⟩ with that denotation -/
theorem loaded_vk_denotes_dG (hr : r ∈ Gen.curveTable) (hn : Nat.Prime r.n) (d : ℕ) (h1 : 1 ≤ d) (h2 : d < r.n) (k : SK)
    (hk : SK.fromSecretExponent KeysWire.modelExt r d = .ok k) :
    OnCurve.Valid (baseCtx r (checked_of_mem hr)) (vkPoint r k.vk) ∧
      OnCurve.den (baseCtx r (checked_of_mem hr)) (vkPoint r k.vk) = (d : ℤ) • (baseCtx r (checked_of_mem hr)).G := by
  set C := baseCtx r (checked_of_mem hr) with hC
  have M := matches_named hr hn
  obtain ⟨-, X, Y, hp, X0, Y0, ex, ey⟩ := vk_of_fromSecretExponent hk
  obtain ⟨R, hR, hrep⟩ := GroupInterface.mul M.hp2 C M.genRep (Or.inl rfl) (d : ℤ)
  have hmem : (d : ℤ) • C.G ∈ C.H := C.smul_mem d
  -- integer coordinates denoting d • G give the claim
  have fin : ∀ X' Y' : ℤ, (0 ≤ X' ∧ X' < r.p) → (0 ≤ Y' ∧ Y' < r.p) →
      (∃ hns : (shortW ((r.a : ℤ) : ZMod r.p) ((r.b : ℤ) : ZMod r.p)).toAffine.Nonsingular (X' : ZMod r.p) (Y' : ZMod r.p),
        (d : ℤ) • C.G = Affine.Point.some _ _ hns) → X = X' → Y = Y' →
      OnCurve.Valid C (vkPoint r k.vk) ∧ OnCurve.den C (vkPoint r k.vk) = (d : ℤ) • C.G := by
    intro X' Y' hx hy ⟨hns, hg⟩ eX eY
    subst eX; subst eY
    have hm : Affine.Point.some _ _ hns ∈ C.H := by rw [← hg]; exact hmem
    have hrep' := pjRep_of_coords C.n2t (KeysWire.curveFp r) ⟨rfl, rfl, rfl⟩ X Y hx hy hns hm (some (r.n : ℤ)) false
    have hpt : PtRep r.p r.a r.b C.H (vkPoint r k.vk) (Affine.Point.some _ _ hns) := by
      unfold vkPoint
      rw [ex, ey, Int.toNat_of_nonneg X0, Int.toNat_of_nonneg Y0]
      exact hrep'
    exact ⟨⟨Or.inl rfl, _, hpt⟩, by rw [OnCurve.den_eq hpt, hg]⟩
  unfold KeysWire.pubPointModel at hp
  have hR' : Curve.pjMul ⟨KeysWire.curveFp r, r.gx, r.gy, 1, some r.n, true⟩ d = .ok R := hR
  rw [hR'] at hp
  have hne : (d : ℤ) • C.G ≠ 0 := by
    intro h0
    have PC := OnCurve.pointOpsCorrect (crvOf r) C M
    have := (PC.smul_eq_zero_iff (d : ℤ)).mp h0
    have hdvd : (r.n : ℤ) ∣ (d : ℤ) := this
    have := Int.le_of_dvd (by omega) hdvd
    omega
  rcases result_cases hrep with ⟨_, h0⟩ | ⟨J, hJ, hJrep, _⟩ | ⟨A, hA, hArep, _⟩
  · exact absurd h0 hne
  · subst hJ
    obtain ⟨S, hS, hSrep, hz, _⟩ := GroupInterface.scale hJrep
    obtain ⟨x, y, ex', ey', x0, x1, y0, y1, hns, hg⟩ := GroupInterface.xy hSrep
    have exS : pjX S = .ok S.x := by unfold pjX; rw [if_pos hz]
    have eyS : pjY S = .ok S.y := by unfold pjY; rw [if_pos hz]
    rw [exS] at ex'; rw [eyS] at ey'
    injection ex' with ex'; injection ey' with ey'
    subst ex' ey'
    simp only [hS] at hp
    injection hp with hp; injection hp with hX hY
    exact fin S.x S.y ⟨x0, x1⟩ ⟨y0, y1⟩ ⟨hns, hg⟩ hX.symm hY.symm
  · subst hA
    obtain ⟨_, hx, hy, _, hns, hg⟩ := hArep
    simp only at hp
    injection hp with hp; injection hp with hX hY
    exact fin A.x A.y hx hy ⟨hns, hg.symm⟩ hX.symm hY.symm

/-- **C01 after re-loading the verifying key.**  For every named curve and `d ∈ [1, n−1]`: the key pair `k` exists; every
serialisation of its verifying key (raw/uncompressed/compressed/hybrid string; DER and PEM with any explicit point
encoding) loads back to `k.vk`; and whatever `sign_digest` returns for `d` (any digest, nonce source, codec pair,
truncation flag) verifies under the point object of that loaded key. -/
theorem reloaded_verifying_key_verifies (hr : r ∈ Gen.curveTable) (hn : Nat.Prime r.n) (d : ℕ) (h1 : 1 ≤ d) (h2 : d < r.n) :
    ∃ k : SK, SK.fromSecretExponent KeysWire.modelExt r d = .ok k ∧
      (∀ enc, ∃ bs, k.vk.toString enc = .ok bs ∧ VK.fromString KeysWire.modelExt r bs true = .ok k.vk) ∧
      (∀ enc, enc ≠ .raw → ∃ bs, k.vk.toDer enc = .ok bs ∧ VK.fromDer KeysWire.modelExt bs = .ok k.vk ∧
        ∃ pem, k.vk.toPem enc = .ok pem ∧ VK.fromPem KeysWire.modelExt pem = .ok k.vk) ∧
      ∀ {β σ : Type} (dg : Bytes) (kk : Option ℤ) (rand : ℤ → Res ℤ) (enc : ℤ → ℤ → ℤ → Res β) (wrap : β → σ)
        (dec : σ → ℕ → Res (ℕ × ℕ)), Codec enc wrap dec r.n → ∀ (allow : Bool) (sig : β),
        signDigest (OnCurve.ops (crvOf r)) d dg kk rand enc allow = .ok sig →
        verifyDigest (OnCurve.ops (crvOf r)) (vkPoint r k.vk) dec (wrap sig) dg allow = .ok true := by
  have hp : Nat.Prime r.p := Fact.out
  obtain ⟨k, hk, -, -, -, -, -, hstr, hder⟩ := C09.all_round_trips_model r hr hp hn d h1 h2
  refine ⟨k, hk, hstr, fun enc he => (hder enc he).1, ?_⟩
  intro β σ dg kk rand enc wrap dec hcodec allow sig hsig
  obtain ⟨hv, hd⟩ := loaded_vk_denotes_dG hr hn d h1 h2 k hk
  exact C01.sign_then_verify (OnCurve.pointOpsCorrect (crvOf r) _ (matches_named hr hn)) (d : ℤ) _ hv hd dg kk rand
    enc wrap dec hcodec allow sig hsig

/-- **a re-loaded signing key makes the same signatures.**  Every serialisation of the signing key (raw string; DER / PEM
in SSLeay and PKCS#8 form with any point encoding DER allows, i.e. not `raw`) loads back to a key with the same scalar, so `sign_digest`
with the loaded key is `sign_digest` with `d`: same `(r, s)` for the same nonce, same bytes for the same encoder. -/
theorem reloaded_signing_key_signs_same (hr : r ∈ Gen.curveTable) (hn : Nat.Prime r.n) (d : ℕ) (h1 : 1 ≤ d) (h2 : d < r.n) :
    ∃ k : SK, SK.fromSecretExponent KeysWire.modelExt r d = .ok k ∧
      (∀ k' : SK, ((∃ bs, k.toString = .ok bs ∧ SK.fromString KeysWire.modelExt r bs = .ok k') ∨
          (∃ enc fmt bs, enc ≠ .raw ∧ k.toDer enc fmt = .ok bs ∧ SK.fromDer KeysWire.modelExt bs = .ok k') ∨
          (∃ enc fmt pem, enc ≠ .raw ∧ k.toPem enc fmt = .ok pem ∧ SK.fromPem KeysWire.modelExt pem = .ok k')) →
        k'.d = d ∧ k'.vk = k.vk ∧
          ∀ {β : Type} (dg : Bytes) (kk : Option ℤ) (rand : ℤ → Res ℤ) (enc : ℤ → ℤ → ℤ → Res β) (allow : Bool),
            signDigest (OnCurve.ops (crvOf r)) (k'.d : ℤ) dg kk rand enc allow
              = signDigest (OnCurve.ops (crvOf r)) (d : ℤ) dg kk rand enc allow) := by
  have hp : Nat.Prime r.p := Fact.out
  obtain ⟨k, hk, -, hkd, -, -, ⟨bs0, hs0, hl0⟩, -, hder⟩ := C09.all_round_trips_model r hr hp hn d h1 h2
  refine ⟨k, hk, ?_⟩
  intro k' hload
  have hkk : k' = k := by
    rcases hload with ⟨bs, e1, e2⟩ | ⟨enc, fmt, bs, he, e1, e2⟩ | ⟨enc, fmt, pem, he, e1, e2⟩
    · rw [hs0] at e1; injection e1 with e1; subst e1
      rw [hl0] at e2; injection e2 with e2; exact e2.symm
    · obtain ⟨bs', f1, f2, _⟩ := (hder enc he).2 fmt
      rw [f1] at e1; injection e1 with e1; subst e1
      rw [f2] at e2; injection e2 with e2; exact e2.symm
    · obtain ⟨bs', f1, f2, pem', g1, g2⟩ := (hder enc he).2 fmt
      rw [g1] at e1; injection e1 with e1; subst e1
      rw [g2] at e2; injection e2 with e2; exact e2.symm
  subst hkk
  exact ⟨hkd, rfl, fun dg kk rand enc allow => by rw [hkd]⟩

/-! ### unconditional on the curves (all 17 of the table) whose p and n carry primality certificates (`NamedPrimes.unconditionalCurves`) -/

theorem reloaded_verifying_key_verifies_unconditional (r : Gen.CurveRow) (hr : r ∈ NamedPrimes.unconditionalCurves)
    (d : ℕ) (h1 : 1 ≤ d) (h2 : d < r.n) :
    ∃ k : SK, SK.fromSecretExponent KeysWire.modelExt r d = .ok k ∧
      (∀ enc, ∃ bs, k.vk.toString enc = .ok bs ∧ VK.fromString KeysWire.modelExt r bs true = .ok k.vk) ∧
      (∀ enc, enc ≠ .raw → ∃ bs, k.vk.toDer enc = .ok bs ∧ VK.fromDer KeysWire.modelExt bs = .ok k.vk ∧
        ∃ pem, k.vk.toPem enc = .ok pem ∧ VK.fromPem KeysWire.modelExt pem = .ok k.vk) ∧
      ∀ {β σ : Type} (dg : Bytes) (kk : Option ℤ) (rand : ℤ → Res ℤ) (enc : ℤ → ℤ → ℤ → Res β) (wrap : β → σ)
        (dec : σ → ℕ → Res (ℕ × ℕ)), Codec enc wrap dec r.n → ∀ (allow : Bool) (sig : β),
        signDigest (OnCurve.ops (crvOf r)) d dg kk rand enc allow = .ok sig →
        verifyDigest (OnCurve.ops (crvOf r)) (vkPoint r k.vk) dec (wrap sig) dg allow = .ok true := by
  obtain ⟨hm, hp, hn⟩ := NamedPrimes.unconditional_subset r hr
  haveI := Fact.mk hp
  exact reloaded_verifying_key_verifies hm hn d h1 h2

theorem reloaded_signing_key_signs_same_unconditional (r : Gen.CurveRow) (hr : r ∈ NamedPrimes.unconditionalCurves)
    (d : ℕ) (h1 : 1 ≤ d) (h2 : d < r.n) :
    ∃ k : SK, SK.fromSecretExponent KeysWire.modelExt r d = .ok k ∧
      (∀ k' : SK, ((∃ bs, k.toString = .ok bs ∧ SK.fromString KeysWire.modelExt r bs = .ok k') ∨
          (∃ enc fmt bs, enc ≠ .raw ∧ k.toDer enc fmt = .ok bs ∧ SK.fromDer KeysWire.modelExt bs = .ok k') ∨
          (∃ enc fmt pem, enc ≠ .raw ∧ k.toPem enc fmt = .ok pem ∧ SK.fromPem KeysWire.modelExt pem = .ok k')) →
        k'.d = d ∧ k'.vk = k.vk ∧
          ∀ {β : Type} (dg : Bytes) (kk : Option ℤ) (rand : ℤ → Res ℤ) (enc : ℤ → ℤ → ℤ → Res β) (allow : Bool),
            signDigest (OnCurve.ops (crvOf r)) (k'.d : ℤ) dg kk rand enc allow
              = signDigest (OnCurve.ops (crvOf r)) (d : ℤ) dg kk rand enc allow) := by
  obtain ⟨hm, hp, hn⟩ := NamedPrimes.unconditional_subset r hr
  haveI := Fact.mk hp
  exact reloaded_signing_key_signs_same hm hn d h1 h2

end C01r
