import Props.C05g
import Props.C05b
import Props.C08
import Props.C09
import Proofs.KeysInstPub
import Props.NamedPrimes
/-!
# C05 (end to end) — two parties on a named curve, keys as the library builds and transports them

The property, literally: *for any two key pairs (d_A, Q_A), (d_B, Q_B) on the same curve, the two ECDH objects compute the
same shared secret, equal to the x-coordinate of d_A d_B G*.  Here every ingredient is the model that is driven against
the real code: private keys are built by `SigningKey.from_secret_exponent` (`Keys.SK.fromSecretExponent`, public point
through `Model/Curve.lean`), each party's public key travels as `to_string(encoding)` bytes and is loaded with
`load_received_public_key_bytes` (`Keys.VK.fromString`, validation on), the state machine is `Model/Ecdh.lean` with the
driver's environment `EcdhWire.env`, the group is Mathlib's group of the curve with the base point of the generated
table (`Named.baseCtx`: n • G = 0 checked by kernel evaluation).

`named_exchange_agrees_all_loaders` extends this to every way `ecdh.py` offers to put the keys into the object — generated,
bytes, DER, PEM, key objects handed over directly — with the two loader calls of each party in either order, and gives the
shared bytes explicitly (big-endian x((d_A d_B)•G), left-padded to ⌈bitlen p / 8⌉ bytes).

Hypotheses left: `p` prime and `n` prime for the row (the SEC 2 / FIPS / RFC 5639 facts); for the curves of
`NamedPrimes.unconditionalCurves` (all 17 of the table) none (`exchange_agrees_all_loaders_unconditional`).
-/
namespace C05x
open Ecdh Keys KeysP Curve Jac GroupInterface WeierstrassCurve

variable (r : Gen.CurveRow) [Fact r.p.Prime]

/-- the public point of `d`: it exists, is a valid point, **and denotes d • G** (whatever `CurveFp` object, order
attribute and flag the stored point carries) -/
theorem pubKey_denotes (hr : r ∈ Gen.curveTable) (hn : r.n.Prime) (d : Nat) (h1 : 1 ≤ d) (h2 : d < r.n) :
    ∃ x y : Nat, KeysWire.pubPointModel r d = some ((x : Int), (y : Int)) ∧ ValidPoint KeysWire.modelExt r x y ∧
      PJRep r.p r.a r.b (Named.baseCtx r (Named.checked_of_mem hr)).H
        ⟨EcdhWire.fpOf r, x, y, 1, some (r.n : ℤ), false⟩ ((d : ℤ) • (Named.baseCtx r (Named.checked_of_mem hr)).G) := by
  have K := Named.checked_of_mem hr
  have M := Named.matches_row K hn
  have hG : PJRep r.p r.a r.b (Named.baseCtx r K).H ⟨KeysWire.curveFp r, r.gx, r.gy, 1, some r.n, true⟩
      (Named.baseCtx r K).G := M.genRep
  obtain ⟨R, hR, hrep⟩ := GroupInterface.mul M.hp2 (Named.baseCtx r K) hG (Or.inl rfl) (d : ℤ)
  have hG0 : (Named.baseCtx r K).G ≠ 0 := by
    rcases result_cases (R := .jac ⟨KeysWire.curveFp r, r.gx, r.gy, 1, some r.n, true⟩) hG with
      ⟨h, _⟩ | ⟨_, _, _, h⟩ | ⟨_, h, _⟩
    · cases h
    · exact h
    · cases h
  have hnG : r.n • (Named.baseCtx r K).G = 0 := by
    have := (Named.baseCtx r K).hn
    rwa [show (Named.baseCtx r K).n = (r.n : ℤ) from rfl, natCast_zsmul] at this
  haveI := Fact.mk hn
  have hord : addOrderOf (Named.baseCtx r K).G = r.n := addOrderOf_eq_prime hnG hG0
  have hne : (d : ℤ) • (Named.baseCtx r K).G ≠ 0 := by
    rw [natCast_zsmul]
    intro h0
    have := addOrderOf_dvd_of_nsmul_eq_zero h0
    rw [hord] at this
    have := Nat.le_of_dvd (by omega) this
    omega
  have hmem : (d : ℤ) • (Named.baseCtx r K).G ∈ (Named.baseCtx r K).H := (Named.baseCtx r K).smul_mem d
  have hcF : Jac.OnCurve r.p r.a r.b (EcdhWire.fpOf r) := ⟨rfl, rfl, rfl⟩
  have fin : ∀ X Y : ℤ, (0 ≤ X ∧ X < r.p) → (0 ≤ Y ∧ Y < r.p) →
      (∃ hns : (shortW ((r.a : ℤ) : ZMod r.p) ((r.b : ℤ) : ZMod r.p)).toAffine.Nonsingular (X : ZMod r.p) (Y : ZMod r.p),
        (d : ℤ) • (Named.baseCtx r K).G = Affine.Point.some _ _ hns) →
      ∃ x y : Nat, (some (X, Y) : Option (Int × Int)) = some ((x : Int), (y : Int)) ∧ ValidPoint KeysWire.modelExt r x y ∧
        PJRep r.p r.a r.b (Named.baseCtx r K).H ⟨EcdhWire.fpOf r, x, y, 1, some (r.n : ℤ), false⟩
          ((d : ℤ) • (Named.baseCtx r K).G) := by
    intro X Y hx hy ⟨hns, hg⟩
    have hm : Affine.Point.some _ _ hns ∈ (Named.baseCtx r K).H := by rw [← hg]; exact hmem
    obtain ⟨v1, v2⟩ := valid_of_mem r K hn X Y hx hy hns hm
    have hP := pjRep_of_coords (Named.baseCtx r K).n2t (EcdhWire.fpOf r) hcF X Y hx hy hns hm (some (r.n : ℤ)) false
    refine ⟨X.toNat, Y.toNat, by rw [Int.toNat_of_nonneg hx.1, Int.toNat_of_nonneg hy.1], ⟨?_, ?_, ?_, ?_⟩, ?_⟩
    · have := hx.2; have := hx.1; omega
    · have := hy.2; have := hy.1; omega
    · rw [Int.toNat_of_nonneg hx.1, Int.toNat_of_nonneg hy.1]; exact v1
    · intro _; exact v2
    · rw [Int.toNat_of_nonneg hx.1, Int.toNat_of_nonneg hy.1, hg]; exact hP
  unfold KeysWire.pubPointModel
  rw [hR]
  rcases result_cases hrep with ⟨_, h0⟩ | ⟨J, hJ, hJrep, _⟩ | ⟨A, hA, hArep, _⟩
  · exact absurd h0 hne
  · subst hJ
    obtain ⟨S, hS, hSrep, hz, _⟩ := GroupInterface.scale hJrep
    obtain ⟨x, y, ex, ey, x0, x1, y0, y1, hns, hg⟩ := GroupInterface.xy hSrep
    have exS : pjX S = .ok S.x := by unfold pjX; rw [if_pos hz]
    have eyS : pjY S = .ok S.y := by unfold pjY; rw [if_pos hz]
    rw [exS] at ex; rw [eyS] at ey
    injection ex with ex; injection ey with ey
    subst ex ey
    simp only [hS]
    exact fin S.x S.y ⟨x0, x1⟩ ⟨y0, y1⟩ ⟨hns, hg⟩
  · subst hA
    obtain ⟨_, hx, hy, _, hns, hg⟩ := hArep
    simp only
    exact fin A.x A.y hx hy ⟨hns, hg.symm⟩

omit [Fact r.p.Prime] in
/-- `SigningKey.from_secret_exponent(d, curve)` in the driver's environment -/
theorem generate_ok (d x y : Nat) (h1 : 1 ≤ d) (h2 : d < r.n)
    (hp : KeysWire.pubPointModel r d = some ((x : Int), (y : Int))) (hv : ValidPoint KeysWire.modelExt r x y) :
    (EcdhWire.env #[r]).generate 0 (d : Int) = .ok (EcdhWire.ofKeysSK 0 ⟨r, d, ⟨r, x, y⟩⟩) := by
  have hn0 : r.n ≠ 0 := by omega
  have e : SK.fromSecretExponent KeysWire.modelExt r (d : Int) = .ok ⟨r, d, ⟨r, x, y⟩⟩ := by
    unfold SK.fromSecretExponent
    have hc : (1 ≤ (d : Int) ∧ (d : Int) < (r.n : Int)) := ⟨by omega, by omega⟩
    have hpp : KeysWire.modelExt.pubPoint r d = some ((x : Int), (y : Int)) := hp
    simp only [hc, and_self, not_true_eq_false, if_false, Int.toNat_natCast, hpp,
      fromPublicPoint_novalidate KeysWire.modelExt r hn0 x y hv.1 hv.2.1]
  show (SK.fromSecretExponent KeysWire.modelExt (#[r] : Array Keys.Curve)[0]! (d : Int)).map (EcdhWire.ofKeysSK 0) = _
  rw [show (#[r] : Array Keys.Curve)[0]! = r from rfl, e]
  rfl

/-- `VerifyingKey.from_string(bytes, curve)` of the bytes `to_string(enc)` wrote, in the driver's environment -/
theorem load_ok (hr : r ∈ Gen.curveTable) (x y : Nat) (hv : ValidPoint KeysWire.modelExt r x y) (enc : PointEnc) :
    ∃ bs, (⟨r, x, y⟩ : Keys.VK).toString enc = .ok bs ∧
      (EcdhWire.env #[r]).vkFromString 0 bs = .ok (EcdhWire.ofKeysVK 0 ⟨r, x, y⟩) := by
  have hp : r.p.Prime := Fact.out
  have hp2 : r.p ≠ 2 := by
    intro h2; have := (C08.table_p_odd r hr).1; rw [h2] at this; cases this
  obtain ⟨bs, e1, e2⟩ := C09.vk_from_string_to_string KeysWire.modelExt ⟨r, x, y⟩ hr hp
    (sqrtSpec_modelExt r.p hp hp2) hv enc
  refine ⟨bs, e1, ?_⟩
  show (if 0 < (#[r] : Array Keys.Curve).size then
      (VK.fromString KeysWire.modelExt (#[r] : Array Keys.Curve)[0]! bs true).map (EcdhWire.ofKeysVK 0) else .error .other) = _
  rw [show (#[r] : Array Keys.Curve)[0]! = r from rfl, e2]
  rfl

omit [Fact r.p.Prime] in
/-- the state of a party after `set_curve(c); generate_private_key() [→ d]; load_received_public_key_bytes(bytes)` -/
theorem party_state (d : Nat) (bs : Bytes) (sk : EcdhWire.SK) (vk : EcdhWire.VK) (hsk : sk.curve = 0) (hvk : vk.curve = 0)
    (hg : (EcdhWire.env #[r]).generate 0 (d : Int) = .ok sk) (hl : (EcdhWire.env #[r]).vkFromString 0 bs = .ok vk) :
    run (EcdhWire.env #[r]) ⟨none, none, none⟩ [.setCurve (some 0), .genPriv (d : Int), .loadPubBytes bs]
      = ⟨some 0, some sk, some vk⟩ := by
  simp [run, step, viaLoader, hg, hl, loadPrivate, loadPublic, hsk, hvk]

/-- the statement of the exchange theorem for the row `r`, scalars `dA`, `dB` and encodings `encA`, `encB` -/
def ExchangeAgrees (hr : r ∈ Gen.curveTable) (dA dB : Nat) (encA encB : PointEnc) : Prop :=
  ∃ (QA QB : Keys.VK) (bytesA bytesB : Bytes),
    QA.toString encA = .ok bytesA ∧ QB.toString encB = .ok bytesB ∧
    let env := EcdhWire.env #[r]
    let C := Named.baseCtx r (Named.checked_of_mem hr)
    let sA := run env ⟨none, none, none⟩ [.setCurve (some 0), .genPriv (dA : Int), .loadPubBytes bytesB]
    let sB := run env ⟨none, none, none⟩ [.setCurve (some 0), .genPriv (dB : Int), .loadPubBytes bytesA]
    (step env sA .secret).2 = (step env sB .secret).2 ∧
    (step env sA .secretBytes).2 = (step env sB .secretBytes).2 ∧
    getSharedSecret env sA = (if ((dA : ℤ) * (dB : ℤ)) • C.G = 0 then .error .invalidSharedSecret
      else .ok (GroupInterface.xOf (((dA : ℤ) * (dB : ℤ)) • C.G)))

/-- **named_exchange_agrees** — on every curve of the generated table (p, n prime), for all d_A, d_B ∈ [1, n-1] and all
point encodings: A and B build their keys, send `to_string(enc)` of their public keys, load the other's bytes — and then
`generate_sharedsecret()` returns the same result on both sides, `generate_sharedsecret_bytes()` the same bytes, and the
integer is the x-coordinate of (d_A d_B) • G (an `InvalidSharedSecretError` on both sides iff that point is the identity). -/
theorem named_exchange_agrees (hr : r ∈ Gen.curveTable) (hn : r.n.Prime) (dA dB : Nat)
    (hA : 1 ≤ dA ∧ dA < r.n) (hB : 1 ≤ dB ∧ dB < r.n) (encA encB : PointEnc) :
    ExchangeAgrees r hr dA dB encA encB := by
  obtain ⟨xA, yA, pA, vA, rA⟩ := pubKey_denotes r hr hn dA hA.1 hA.2
  obtain ⟨xB, yB, pB, vB, rB⟩ := pubKey_denotes r hr hn dB hB.1 hB.2
  obtain ⟨bytesA, tA, lA⟩ := load_ok r hr xA yA vA encA
  obtain ⟨bytesB, tB, lB⟩ := load_ok r hr xB yB vB encB
  refine ⟨⟨r, xA, yA⟩, ⟨r, xB, yB⟩, bytesA, bytesB, tA, tB, ?_⟩
  intro env C sA sB
  have gA := generate_ok r dA xA yA hA.1 hA.2 pA vA
  have gB := generate_ok r dB xB yB hB.1 hB.2 pB vB
  have esA : sA = ⟨some 0, some (EcdhWire.ofKeysSK 0 ⟨r, dA, ⟨r, xA, yA⟩⟩), some (EcdhWire.ofKeysVK 0 ⟨r, xB, yB⟩)⟩ :=
    party_state r dA bytesB _ _ rfl rfl gA lB
  have esB : sB = ⟨some 0, some (EcdhWire.ofKeysSK 0 ⟨r, dB, ⟨r, xB, yB⟩⟩), some (EcdhWire.ofKeysVK 0 ⟨r, xA, yA⟩)⟩ :=
    party_state r dB bytesA _ _ rfl rfl gB lA
  have hp2 : r.p ≠ 2 := (Named.matches_row (Named.checked_of_mem hr) hn).hp2
  have hu := C05g.driver_uses_curve_model #[r]
  have kA : C05g.KeyPoint C (EcdhWire.ofKeysVK 0 ⟨r, xA, yA⟩).point (((dA : ℕ) : ℤ) • C.G) :=
    ⟨_, rfl, rA, Or.inl rfl⟩
  have kB : C05g.KeyPoint C (EcdhWire.ofKeysVK 0 ⟨r, xB, yB⟩).point (((dB : ℕ) : ℤ) • C.G) :=
    ⟨_, rfl, rB, Or.inl rfl⟩
  obtain ⟨h1, h2, h3, _⟩ := C05g.shared_secret_value hp2 C env hu sA sB
    (EcdhWire.ofKeysSK 0 ⟨r, dA, ⟨r, xA, yA⟩⟩) (EcdhWire.ofKeysSK 0 ⟨r, dB, ⟨r, xB, yB⟩⟩)
    (EcdhWire.ofKeysVK 0 ⟨r, xA, yA⟩) (EcdhWire.ofKeysVK 0 ⟨r, xB, yB⟩)
    (by rw [esA]; exact ⟨rfl, rfl, rfl, rfl⟩) (by rw [esB]; exact ⟨rfl, rfl, rfl, rfl⟩) rfl kA kB
  refine ⟨?_, ?_, h3⟩
  · rw [h1]
  · rw [h2]

/-! ### every way of loading the keys

`named_exchange_agrees` lets each party generate its key and receive the peer's key as `to_string` bytes.  The same
conclusion holds for **every** loader of `ecdh.py`: the private key generated, or loaded from its raw bytes, from DER
(ssleay / PKCS#8, any point encoding) or from PEM; the peer's public key loaded from raw / uncompressed / compressed /
hybrid bytes, from DER or from PEM — C09's round-trip theorems say that each of these loaders returns the key that was
written. -/

/-- `op` loads the private key `k` into an ECDH object (in one of the four ways) -/
def PrivOp (k : Keys.SK) : Op Nat EcdhWire.WPt Int → Prop
  | .genPriv d => d = (k.d : Int)
  | .loadPrivBytes bs => k.toString = .ok bs
  | .loadPrivDer bs => ∃ enc fmt, enc ≠ PointEnc.raw ∧ k.toDer enc fmt = .ok bs
  | .loadPrivPem bs => ∃ enc fmt, enc ≠ PointEnc.raw ∧ k.toPem enc fmt = .ok bs
  | _ => False

/-- `op` loads the public key `q`, transported in one of its serialisations -/
def PubOp (q : Keys.VK) : Op Nat EcdhWire.WPt Int → Prop
  | .loadPubBytes bs => ∃ enc, q.toString enc = .ok bs
  | .loadPubDer bs => ∃ enc, enc ≠ PointEnc.raw ∧ q.toDer enc = .ok bs
  | .loadPubPem bs => ∃ enc, enc ≠ PointEnc.raw ∧ q.toPem enc = .ok bs
  | _ => False

theorem table_name_ne_toy : ∀ c ∈ Gen.curveTable, c.name ≠ "toy" := by decide +kernel

omit [Fact r.p.Prime] in
theorem index_self (hr : r ∈ Gen.curveTable) : EcdhWire.indexOfCurve #[r] r = some 0 := by
  have := table_name_ne_toy r hr
  simp [EcdhWire.indexOfCurve, this]

omit [Fact r.p.Prime] in
theorem locate_self {α β} (hr : r ∈ Gen.curveTable) (k : α) (crv : α → Keys.Curve) (f : Nat → α → β) (hk : crv k = r) :
    EcdhWire.locate #[r] (.ok k) crv f = .ok (f 0 k) := by
  simp [EcdhWire.locate, hk, index_self r hr]

/-- the effect of a private-key loader on an object whose curve is set -/
theorem priv_step (hr : r ∈ Gen.curveTable) (hn : r.n.Prime) (k : Keys.SK) (hk : SK.fromSecretExponent KeysWire.modelExt r k.d = .ok k)
    (h1 : 1 ≤ k.d ∧ k.d < r.n) (op : Op Nat EcdhWire.WPt Int) (hop : PrivOp k op)
    (s : State Nat EcdhWire.WPt) (hs : s.curve = some 0) :
    (step (EcdhWire.env #[r]) s op).1 = { s with priv := some (EcdhWire.ofKeysSK 0 k) } := by
  obtain ⟨cv, pv, pb⟩ := s
  simp only at hs
  subst hs
  have hs : (⟨some 0, pv, pb⟩ : State Nat EcdhWire.WPt).curve = some 0 := rfl
  have hp : r.p.Prime := Fact.out
  obtain ⟨k', e', hc', _, _, _, hstr, _, hrest⟩ := C09.all_round_trips_model r hr hp hn k.d h1.1 h1.2
  have ek : k' = k := by rw [hk] at e'; exact (Except.ok.inj e').symm
  subst ek
  have hcur : (#[r] : Array Keys.Curve)[0]! = r := rfl
  have fin : ∀ res : Res (Keys.SK), res = .ok k' →
      (viaLoader ⟨some 0, pv, pb⟩ (res.map (EcdhWire.ofKeysSK 0)) loadPrivate).1 = ⟨some 0, some (EcdhWire.ofKeysSK 0 k'), pb⟩ := by
    intro res e; subst e
    simp [viaLoader, Except.map, loadPrivate, EcdhWire.ofKeysSK]
  cases op with
  | genPriv d =>
    simp only [PrivOp] at hop; subst hop
    simp only [step]
    show (viaLoader ⟨some 0, pv, pb⟩ ((SK.fromSecretExponent KeysWire.modelExt (#[r] : Array Keys.Curve)[0]! (k'.d : Int)).map
      (EcdhWire.ofKeysSK 0)) loadPrivate).1 = _
    exact fin _ hk
  | loadPrivBytes bs =>
    simp only [PrivOp] at hop
    obtain ⟨bs', t1, t2⟩ := hstr
    have : bs' = bs := by rw [hop] at t1; exact (Except.ok.inj t1).symm
    subst this
    simp only [step]
    show (viaLoader ⟨some 0, pv, pb⟩ ((SK.fromString KeysWire.modelExt (#[r] : Array Keys.Curve)[0]! bs').map
      (EcdhWire.ofKeysSK 0)) loadPrivate).1 = _
    exact fin _ t2
  | loadPrivDer bs =>
    obtain ⟨enc, fmt, henc, t⟩ := hop
    obtain ⟨bs', t1, t2, _⟩ := (hrest enc henc).2 fmt
    have : bs' = bs := by rw [t] at t1; exact (Except.ok.inj t1).symm
    subst this
    simp only [step]
    show (viaLoader ⟨some 0, pv, pb⟩ (EcdhWire.locate #[r] (SK.fromDer KeysWire.modelExt bs') (·.curve) EcdhWire.ofKeysSK) loadPrivate).1 = _
    rw [t2, locate_self r hr k' (·.curve) EcdhWire.ofKeysSK hc']
    exact fin (.ok k') rfl
  | loadPrivPem bs =>
    obtain ⟨enc, fmt, henc, t⟩ := hop
    obtain ⟨_, _, _, pem, t1, t2⟩ := (hrest enc henc).2 fmt
    have : pem = bs := by rw [t] at t1; exact (Except.ok.inj t1).symm
    subst this
    simp only [step]
    show (viaLoader ⟨some 0, pv, pb⟩ (EcdhWire.locate #[r] (SK.fromPem KeysWire.modelExt pem) (·.curve) EcdhWire.ofKeysSK) loadPrivate).1 = _
    rw [t2, locate_self r hr k' (·.curve) EcdhWire.ofKeysSK hc']
    exact fin (.ok k') rfl
  | setCurve _ => exact absurd hop id
  | loadPriv _ => exact absurd hop id
  | getPub => exact absurd hop id
  | loadPub _ => exact absurd hop id
  | loadPubBytes _ => exact absurd hop id
  | loadPubDer _ => exact absurd hop id
  | loadPubPem _ => exact absurd hop id
  | secret => exact absurd hop id
  | secretBytes => exact absurd hop id

/-- the effect of a public-key loader on an object whose curve is set -/
theorem pub_step (hr : r ∈ Gen.curveTable) (hn : r.n.Prime) (k : Keys.SK) (hk : SK.fromSecretExponent KeysWire.modelExt r k.d = .ok k)
    (h1 : 1 ≤ k.d ∧ k.d < r.n) (op : Op Nat EcdhWire.WPt Int) (hop : PubOp k.vk op)
    (s : State Nat EcdhWire.WPt) (hs : s.curve = some 0) :
    (step (EcdhWire.env #[r]) s op).1 = { s with pub := some (EcdhWire.ofKeysVK 0 k.vk) } := by
  obtain ⟨cv, pv, pb⟩ := s
  simp only at hs
  subst hs
  have hs : (⟨some 0, pv, pb⟩ : State Nat EcdhWire.WPt).curve = some 0 := rfl
  have hp : r.p.Prime := Fact.out
  obtain ⟨k', e', _, _, hvc, _, _, hvstr, hrest⟩ := C09.all_round_trips_model r hr hp hn k.d h1.1 h1.2
  have ek : k' = k := by rw [hk] at e'; exact (Except.ok.inj e').symm
  subst ek
  have hcur : (#[r] : Array Keys.Curve)[0]! = r := rfl
  have fin : ∀ res : Res (Keys.VK), res = .ok k'.vk →
      (viaLoader ⟨some 0, pv, pb⟩ (res.map (EcdhWire.ofKeysVK 0)) loadPublic).1 = ⟨some 0, pv, some (EcdhWire.ofKeysVK 0 k'.vk)⟩ := by
    intro res e; subst e
    simp [viaLoader, Except.map, loadPublic, EcdhWire.ofKeysVK]
  cases op with
  | loadPubBytes bs =>
    obtain ⟨enc, t⟩ := hop
    obtain ⟨bs', t1, t2⟩ := hvstr enc
    have : bs' = bs := by rw [t] at t1; exact (Except.ok.inj t1).symm
    subst this
    simp only [step]
    show (viaLoader ⟨some 0, pv, pb⟩ (if 0 < (#[r] : Array Keys.Curve).size then
      (VK.fromString KeysWire.modelExt (#[r] : Array Keys.Curve)[0]! bs' true).map (EcdhWire.ofKeysVK 0) else .error .other) loadPublic).1 = _
    rw [hcur]
    simp only [List.size_toArray, List.length_cons, List.length_nil, Nat.zero_add, Nat.lt_one_iff, if_true]
    exact fin _ t2
  | loadPubDer bs =>
    obtain ⟨enc, henc, t⟩ := hop
    obtain ⟨bs', t1, t2, _⟩ := (hrest enc henc).1
    have : bs' = bs := by rw [t] at t1; exact (Except.ok.inj t1).symm
    subst this
    simp only [step]
    show (viaLoader ⟨some 0, pv, pb⟩ (EcdhWire.locate #[r] (VK.fromDer KeysWire.modelExt bs') (·.curve) EcdhWire.ofKeysVK) loadPublic).1 = _
    rw [t2, locate_self r hr k'.vk (·.curve) EcdhWire.ofKeysVK hvc]
    exact fin (.ok k'.vk) rfl
  | loadPubPem bs =>
    obtain ⟨enc, henc, t⟩ := hop
    obtain ⟨_, _, _, pem, t1, t2⟩ := (hrest enc henc).1
    have : pem = bs := by rw [t] at t1; exact (Except.ok.inj t1).symm
    subst this
    simp only [step]
    show (viaLoader ⟨some 0, pv, pb⟩ (EcdhWire.locate #[r] (VK.fromPem KeysWire.modelExt pem) (·.curve) EcdhWire.ofKeysVK) loadPublic).1 = _
    rw [t2, locate_self r hr k'.vk (·.curve) EcdhWire.ofKeysVK hvc]
    exact fin (.ok k'.vk) rfl
  | setCurve _ => exact absurd hop id
  | genPriv _ => exact absurd hop id
  | loadPriv _ => exact absurd hop id
  | loadPrivBytes _ => exact absurd hop id
  | loadPrivDer _ => exact absurd hop id
  | loadPrivPem _ => exact absurd hop id
  | getPub => exact absurd hop id
  | loadPub _ => exact absurd hop id
  | secret => exact absurd hop id
  | secretBytes => exact absurd hop id

omit [Fact r.p.Prime] in
theorem fromSecexp_ok (d x y : Nat) (h1 : 1 ≤ d) (h2 : d < r.n)
    (hp : KeysWire.pubPointModel r d = some ((x : Int), (y : Int))) (hv : ValidPoint KeysWire.modelExt r x y) :
    SK.fromSecretExponent KeysWire.modelExt r (d : Int) = .ok ⟨r, d, ⟨r, x, y⟩⟩ := by
  have hn0 : r.n ≠ 0 := by omega
  unfold SK.fromSecretExponent
  have hc : (1 ≤ (d : Int) ∧ (d : Int) < (r.n : Int)) := ⟨by omega, by omega⟩
  have hpp : KeysWire.modelExt.pubPoint r d = some ((x : Int), (y : Int)) := hp
  simp only [hc, and_self, not_true_eq_false, if_false, Int.toNat_natCast, hpp,
    fromPublicPoint_novalidate KeysWire.modelExt r hn0 x y hv.1 hv.2.1]

/-! #### key OBJECTS handed over directly (`load_private_key`, `load_received_public_key`)

The object given to `load_private_key` is a `SigningKey` of the agreed curve object whose secret multiplier is `d`; the object
given to `load_received_public_key` is a `VerifyingKey` of that curve object whose stored point **denotes** `d • G` — in any
representation (`PointJacobi` with any Z, declared order n or none), not only the one the library's own constructors build. -/

/-- `op` loads the private key `k`: generated, decoded (bytes / DER / PEM), or handed over as an object -/
def PrivLoad (k : Keys.SK) (op : Op Nat EcdhWire.WPt Int) : Prop :=
  PrivOp k op ∨ ∃ sk : EcdhWire.SK, op = .loadPriv sk ∧ sk.curve = 0 ∧ sk.d = (k.d : Int)

/-- `op` loads the public key of `k`: decoded (bytes in four encodings / DER / PEM), or handed over as an object -/
def PubLoad (hr : r ∈ Gen.curveTable) (k : Keys.SK) (op : Op Nat EcdhWire.WPt Int) : Prop :=
  PubOp k.vk op ∨ ∃ vk : EcdhWire.VK, op = .loadPub vk ∧ vk.curve = 0 ∧
    C05g.KeyPoint (Named.baseCtx r (Named.checked_of_mem hr)) vk.point (((k.d : ℕ) : ℤ) • (Named.baseCtx r (Named.checked_of_mem hr)).G)

/-- the effect of any private-key loader on an object whose curve is set -/
theorem priv_load_step (hr : r ∈ Gen.curveTable) (hn : r.n.Prime) (k : Keys.SK) (hk : SK.fromSecretExponent KeysWire.modelExt r k.d = .ok k)
    (h1 : 1 ≤ k.d ∧ k.d < r.n) (op : Op Nat EcdhWire.WPt Int) (hop : PrivLoad k op)
    (s : State Nat EcdhWire.WPt) (hs : s.curve = some 0) :
    ∃ sk : EcdhWire.SK, (step (EcdhWire.env #[r]) s op).1 = { s with priv := some sk } ∧ sk.curve = 0 ∧ sk.d = (k.d : Int) := by
  rcases hop with hop | ⟨sk, rfl, hc, hd⟩
  · exact ⟨EcdhWire.ofKeysSK 0 k, priv_step r hr hn k hk h1 op hop s hs, rfl, rfl⟩
  · refine ⟨sk, ?_, hc, hd⟩
    obtain ⟨cv, pv, pb⟩ := s
    simp only at hs
    subst hs
    simp [step, loadPrivate, hc]

/-- the effect of any public-key loader on an object whose curve is set -/
theorem pub_load_step (hr : r ∈ Gen.curveTable) (hn : r.n.Prime) (k : Keys.SK) (hk : SK.fromSecretExponent KeysWire.modelExt r k.d = .ok k)
    (h1 : 1 ≤ k.d ∧ k.d < r.n) (op : Op Nat EcdhWire.WPt Int) (hop : PubLoad r hr k op)
    (s : State Nat EcdhWire.WPt) (hs : s.curve = some 0) :
    ∃ vk : EcdhWire.VK, (step (EcdhWire.env #[r]) s op).1 = { s with pub := some vk } ∧ vk.curve = 0 ∧
      C05g.KeyPoint (Named.baseCtx r (Named.checked_of_mem hr)) vk.point (((k.d : ℕ) : ℤ) • (Named.baseCtx r (Named.checked_of_mem hr)).G) := by
  rcases hop with hop | ⟨vk, rfl, hc, hd⟩
  · obtain ⟨x, y, px, vx, rx⟩ := pubKey_denotes r hr hn k.d h1.1 h1.2
    have e := fromSecexp_ok r k.d x y h1.1 h1.2 px vx
    have ek : k = ⟨r, k.d, ⟨r, x, y⟩⟩ := by rw [hk] at e; exact Except.ok.inj e
    refine ⟨EcdhWire.ofKeysVK 0 k.vk, pub_step r hr hn k hk h1 op hop s hs, rfl, ?_⟩
    rw [ek]
    exact ⟨_, rfl, rx, Or.inl rfl⟩
  · refine ⟨vk, ?_, hc, hd⟩
    obtain ⟨cv, pv, pb⟩ := s
    simp only at hs
    subst hs
    simp [step, loadPublic, hc]

/-- a party's calls: `set_curve`, then its two loaders in either order -/
def calls (privFirst : Bool) (opP opQ : Op Nat EcdhWire.WPt Int) : List (Op Nat EcdhWire.WPt Int) :=
  if privFirst then [.setCurve (some 0), opP, opQ] else [.setCurve (some 0), opQ, opP]

/-- the state of a party after its calls: curve object 0, a private key object with multiplier d, a public key object whose
point denotes d' • G -/
theorem party_state_all (hr : r ∈ Gen.curveTable) (hn : r.n.Prime) (k k' : Keys.SK)
    (hk : SK.fromSecretExponent KeysWire.modelExt r k.d = .ok k) (h1 : 1 ≤ k.d ∧ k.d < r.n)
    (hk' : SK.fromSecretExponent KeysWire.modelExt r k'.d = .ok k') (h1' : 1 ≤ k'.d ∧ k'.d < r.n)
    (pf : Bool) (opP opQ : Op Nat EcdhWire.WPt Int) (hP : PrivLoad k opP) (hQ : PubLoad r hr k' opQ) :
    ∃ (sk : EcdhWire.SK) (vk : EcdhWire.VK),
      run (EcdhWire.env #[r]) ⟨none, none, none⟩ (calls pf opP opQ) = ⟨some 0, some sk, some vk⟩ ∧ sk.curve = 0 ∧ sk.d = (k.d : Int) ∧
      vk.curve = 0 ∧ C05g.KeyPoint (Named.baseCtx r (Named.checked_of_mem hr)) vk.point
        (((k'.d : ℕ) : ℤ) • (Named.baseCtx r (Named.checked_of_mem hr)).G) := by
  cases pf with
  | true =>
    obtain ⟨sk, s1, c1, d1⟩ := priv_load_step r hr hn k hk h1 opP hP ⟨some 0, none, none⟩ rfl
    obtain ⟨vk, s2, c2, kp⟩ := pub_load_step r hr hn k' hk' h1' opQ hQ ⟨some 0, some sk, none⟩ rfl
    refine ⟨sk, vk, ?_, c1, d1, c2, kp⟩
    show run (EcdhWire.env #[r]) (step (EcdhWire.env #[r]) (step (EcdhWire.env #[r]) ⟨some 0, none, none⟩ opP).1 opQ).1 [] = _
    rw [s1, s2]; rfl
  | false =>
    obtain ⟨vk, s1, c2, kp⟩ := pub_load_step r hr hn k' hk' h1' opQ hQ ⟨some 0, none, none⟩ rfl
    obtain ⟨sk, s2, c1, d1⟩ := priv_load_step r hr hn k hk h1 opP hP ⟨some 0, none, some vk⟩ rfl
    refine ⟨sk, vk, ?_, c1, d1, c2, kp⟩
    show run (EcdhWire.env #[r]) (step (EcdhWire.env #[r]) (step (EcdhWire.env #[r]) ⟨some 0, none, none⟩ opQ).1 opP).1 [] = _
    rw [s1, s2]; rfl

/-- the statement for arbitrary loaders: `opPA`, `opQA` are A's calls that load its private key and B's public key (generated,
decoded in any encoding / format, or handed over as objects), `opPB`, `opQB` likewise for B.  Both parties obtain the same
integer x((d_A d_B)•G) and the same bytes — and these bytes are given explicitly: the big-endian digits of that integer
left-padded with zeros to ⌈bitlen p / 8⌉ bytes (`C05b.secret_bytes` composed in).  Each party may call its two loaders in either
order (`pfA`, `pfB`). -/
def ExchangeAgreesAll (hr : r ∈ Gen.curveTable) (dA dB : Nat) : Prop :=
  ∃ kA kB : Keys.SK, kA.d = dA ∧ kB.d = dB ∧
    SK.fromSecretExponent KeysWire.modelExt r dA = .ok kA ∧ SK.fromSecretExponent KeysWire.modelExt r dB = .ok kB ∧
    ∀ (pfA pfB : Bool) opPA opQA opPB opQB, PrivLoad kA opPA → PubLoad r hr kB opQA → PrivLoad kB opPB → PubLoad r hr kA opQB →
      let env := EcdhWire.env #[r]
      let C := Named.baseCtx r (Named.checked_of_mem hr)
      let sA := run env ⟨none, none, none⟩ (calls pfA opPA opQA)
      let sB := run env ⟨none, none, none⟩ (calls pfB opPB opQB)
      let v := GroupInterface.xOf (((dA : ℤ) * (dB : ℤ)) • C.G)
      let L := (bitLength r.p + 7) / 8
      (step env sA .secret).2 = (step env sB .secret).2 ∧
      (step env sA .secretBytes).2 = (step env sB .secretBytes).2 ∧
      getSharedSecret env sA = (if ((dA : ℤ) * (dB : ℤ)) • C.G = 0 then .error .invalidSharedSecret else .ok v) ∧
      (((dA : ℤ) * (dB : ℤ)) • C.G ≠ 0 →
        (step env sA .secretBytes).2 = .ok (.bytes (beFixed L v.toNat)) ∧
        (step env sB .secretBytes).2 = .ok (.bytes (beFixed L v.toNat)) ∧
        (beFixed L v.toNat).length = L ∧ (beVal (beFixed L v.toNat) : ℤ) = v)

/-- **named_exchange_agrees_all_loaders** — the exchange theorem for every combination of loaders: private key generated,
loaded from bytes / DER (ssleay, PKCS#8) / PEM or given as an object; peer's public key loaded from raw / uncompressed /
compressed / hybrid bytes, DER, PEM or given as an object; with the explicit value of the shared bytes -/
theorem named_exchange_agrees_all_loaders (hr : r ∈ Gen.curveTable) (hn : r.n.Prime) (dA dB : Nat)
    (hA : 1 ≤ dA ∧ dA < r.n) (hB : 1 ≤ dB ∧ dB < r.n) : ExchangeAgreesAll r hr dA dB := by
  obtain ⟨xA, yA, pA, vA, rA⟩ := pubKey_denotes r hr hn dA hA.1 hA.2
  obtain ⟨xB, yB, pB, vB, rB⟩ := pubKey_denotes r hr hn dB hB.1 hB.2
  have eA := fromSecexp_ok r dA xA yA hA.1 hA.2 pA vA
  have eB := fromSecexp_ok r dB xB yB hB.1 hB.2 pB vB
  refine ⟨⟨r, dA, ⟨r, xA, yA⟩⟩, ⟨r, dB, ⟨r, xB, yB⟩⟩, rfl, rfl, eA, eB, ?_⟩
  intro pfA pfB opPA opQA opPB opQB hPA hQA hPB hQB env C sA sB v L
  -- the two states
  obtain ⟨skA, vkB, stA, cA, dAe, cvB, kpB⟩ := party_state_all r hr hn ⟨r, dA, ⟨r, xA, yA⟩⟩ ⟨r, dB, ⟨r, xB, yB⟩⟩ eA hA eB hB pfA opPA opQA hPA hQA
  obtain ⟨skB, vkA, stB, cB, dBe, cvA, kpA⟩ := party_state_all r hr hn ⟨r, dB, ⟨r, xB, yB⟩⟩ ⟨r, dA, ⟨r, xA, yA⟩⟩ eB hB eA hA pfB opPB opQB hPB hQB
  change sA = _ at stA
  change sB = _ at stB
  have hp2 : r.p ≠ 2 := (Named.matches_row (Named.checked_of_mem hr) hn).hp2
  have hu := C05g.driver_uses_curve_model #[r]
  simp only at dAe dBe kpA kpB
  rw [← dAe] at kpA
  rw [← dBe] at kpB
  obtain ⟨h1, h2, h3, h4⟩ := C05g.shared_secret_value hp2 C env hu sA sB skA skB vkA vkB
    (by rw [stA]; exact ⟨rfl, rfl, by rw [cA], by rw [cvB, cA]⟩) (by rw [stB]; exact ⟨rfl, rfl, by rw [cB], by rw [cvA, cB]⟩)
    (by rw [cA, cB]) kpA kpB
  rw [dAe, dBe] at h3 h4
  refine ⟨by rw [h1], by rw [h2], h3, ?_⟩
  intro hne
  have hv : getSharedSecret env sA = .ok v := by rw [h3, if_neg hne]
  have hfp : env.fieldP skA.curve = r.p := by rw [cA]; rfl
  have key := C05b.secret_bytes env sA v skA (by rw [stA]) hv h4.1 (by rw [hfp]; exact h4.2)
  simp only [hfp] at key
  have bA : (step env sA .secretBytes).2 = .ok (.bytes (beFixed L v.toNat)) := by rw [key.1]
  refine ⟨bA, ?_, key.2.1, ?_⟩
  · rw [← bA, h2]
  · rw [key.2.2]; exact Int.toNat_of_nonneg h4.1

/-- non-vacuity of the object clauses: the key objects the library itself builds for `k` are such objects -/
theorem object_loaders_inhabited (hr : r ∈ Gen.curveTable) (hn : r.n.Prime) (k : Keys.SK)
    (hk : SK.fromSecretExponent KeysWire.modelExt r k.d = .ok k) (h1 : 1 ≤ k.d ∧ k.d < r.n) :
    PrivLoad k (.loadPriv (EcdhWire.ofKeysSK 0 k)) ∧ ¬ PrivOp k (.loadPriv (EcdhWire.ofKeysSK 0 k)) ∧
    PubLoad r hr k (.loadPub (EcdhWire.ofKeysVK 0 k.vk)) ∧ ¬ PubOp k.vk (.loadPub (EcdhWire.ofKeysVK 0 k.vk)) := by
  refine ⟨Or.inr ⟨_, rfl, rfl, rfl⟩, id, Or.inr ⟨_, rfl, rfl, ?_⟩, id⟩
  obtain ⟨x, y, px, vx, rx⟩ := pubKey_denotes r hr hn k.d h1.1 h1.2
  have e := fromSecexp_ok r k.d x y h1.1 h1.2 px vx
  have ek : k = ⟨r, k.d, ⟨r, x, y⟩⟩ := by rw [hk] at e; exact Except.ok.inj e
  rw [ek]
  exact ⟨_, rfl, rx, Or.inl rfl⟩

/-! ### with the primality certificates of `Props/NamedPrimes`: no hypothesis left

For the curves whose field prime and group order carry a kernel-checked certificate the theorem is unconditional. -/

open Named in
/-- **P-256, unconditional**: for all d_A, d_B ∈ [1, n-1] and all encodings both parties of an ECDH exchange on NIST P-256
obtain the same integer — the x-coordinate of (d_A d_B) • G — and the same bytes -/
theorem nist256p_exchange_agrees (dA dB : Nat) (hA : 1 ≤ dA ∧ dA < Gen.curve_NIST256p.n)
    (hB : 1 ≤ dB ∧ dB < Gen.curve_NIST256p.n) (encA encB : PointEnc) :
    ExchangeAgrees Gen.curve_NIST256p mem_NIST256p dA dB encA encB :=
  named_exchange_agrees Gen.curve_NIST256p mem_NIST256p NamedPrimes.prime_n_NIST256p dA dB hA hB encA encB

open Named in
/-- **secp256k1, unconditional** -/
theorem secp256k1_exchange_agrees (dA dB : Nat) (hA : 1 ≤ dA ∧ dA < Gen.curve_SECP256k1.n)
    (hB : 1 ≤ dB ∧ dB < Gen.curve_SECP256k1.n) (encA encB : PointEnc) :
    ExchangeAgrees Gen.curve_SECP256k1 mem_SECP256k1 dA dB encA encB :=
  named_exchange_agrees Gen.curve_SECP256k1 mem_SECP256k1 NamedPrimes.prime_n_SECP256k1 dA dB hA hB encA encB

open Named in
/-- **SECP112r2 (cofactor 4), unconditional**: honest exchanges agree there too (K2 concerns dishonest remote keys) -/
theorem secp112r2_exchange_agrees (dA dB : Nat) (hA : 1 ≤ dA ∧ dA < Gen.curve_SECP112r2.n)
    (hB : 1 ≤ dB ∧ dB < Gen.curve_SECP112r2.n) (encA encB : PointEnc) :
    ExchangeAgrees Gen.curve_SECP112r2 mem_SECP112r2 dA dB encA encB :=
  named_exchange_agrees Gen.curve_SECP112r2 mem_SECP112r2 NamedPrimes.prime_n_SECP112r2 dA dB hA hB encA encB

open Named in
/-- **P-256, unconditional, every loader** -/
theorem nist256p_exchange_agrees_all_loaders (dA dB : Nat) (hA : 1 ≤ dA ∧ dA < Gen.curve_NIST256p.n)
    (hB : 1 ≤ dB ∧ dB < Gen.curve_NIST256p.n) : ExchangeAgreesAll Gen.curve_NIST256p mem_NIST256p dA dB :=
  named_exchange_agrees_all_loaders Gen.curve_NIST256p mem_NIST256p NamedPrimes.prime_n_NIST256p dA dB hA hB

/-- **every loader, unconditional on the curves of `NamedPrimes.unconditionalCurves` (all 17 of the table)** (p and n carry kernel-checked
primality certificates, n • G = 0 is checked by kernel evaluation): no hypothesis about the curve is left -/
theorem exchange_agrees_all_loaders_unconditional (r : Gen.CurveRow) (hr : r ∈ NamedPrimes.unconditionalCurves) (dA dB : Nat)
    (hA : 1 ≤ dA ∧ dA < r.n) (hB : 1 ≤ dB ∧ dB < r.n) :
    haveI : Fact r.p.Prime := ⟨(NamedPrimes.unconditional_subset r hr).2.1⟩
    ExchangeAgreesAll r (NamedPrimes.unconditional_subset r hr).1 dA dB := by
  haveI : Fact r.p.Prime := ⟨(NamedPrimes.unconditional_subset r hr).2.1⟩
  exact named_exchange_agrees_all_loaders r (NamedPrimes.unconditional_subset r hr).1 (NamedPrimes.unconditional_subset r hr).2.2 dA dB hA hB

/-- non-vacuity: the list has all 17 curves of the table, among them one with cofactor 4 -/
example : NamedPrimes.unconditionalCurves.length = 17 ∧ Gen.curve_SECP112r2 ∈ NamedPrimes.unconditionalCurves ∧
    Gen.curve_BRAINPOOLP320r1 ∈ NamedPrimes.unconditionalCurves := by
  refine ⟨rfl, ?_, ?_⟩ <;> simp [NamedPrimes.unconditionalCurves]

/-- non-vacuity: the scalar ranges are inhabited (d_A = 1, d_B = 2 on P-256) -/
example : (1 ≤ 1 ∧ 1 < Gen.curve_NIST256p.n) ∧ (1 ≤ 2 ∧ 2 < Gen.curve_NIST256p.n) := by decide

/-- the P-256 key pair with d = 1 (public point G) -/
def k1 : Keys.SK := ⟨Gen.curve_NIST256p, 1, ⟨Gen.curve_NIST256p, Gen.curve_NIST256p.gx, Gen.curve_NIST256p.gy⟩⟩

/-- non-vacuity of `PrivOp` / `PubOp`: the PKCS#8 DER of a P-256 private key with a compressed point, and the PEM of its public
key with a hybrid point, are loader calls covered by the theorem (the serialisers succeed, evaluated by the kernel) -/
example : (∃ bs, PrivOp k1 (.loadPrivDer bs)) ∧ (∃ bs, PubOp k1.vk (.loadPubPem bs)) ∧ (∃ bs, PrivOp k1 (.loadPrivBytes bs)) := by
  have h1 : (match k1.toDer .compressed .pkcs8 with | .ok _ => true | .error _ => false) = true := by decide +kernel
  have h2 : (match k1.vk.toPem .hybrid with | .ok _ => true | .error _ => false) = true := by decide +kernel
  have h3 : (match k1.toString with | .ok _ => true | .error _ => false) = true := by decide +kernel
  refine ⟨?_, ?_, ?_⟩
  · cases h : k1.toDer .compressed .pkcs8 with
    | ok bs => exact ⟨bs, .compressed, .pkcs8, by decide, h⟩
    | error e => rw [h] at h1; cases h1
  · cases h : k1.vk.toPem .hybrid with
    | ok bs => exact ⟨bs, .hybrid, by decide, h⟩
    | error e => rw [h] at h2; cases h2
  · cases h : k1.toString with
    | ok bs => exact ⟨bs, h⟩
    | error e => rw [h] at h3; cases h3

end C05x
