import Model.NumberTheory
import Proofs.NTGcd
import Proofs.NTTable
/-!
# C16 — primality, next prime, factorisation, gcd, lcm match their definitions

The model is `Model/NumberTheory.lean` (`NT.*`), built over the definitions regenerated from
`src/ecdsa/numbertheory.py` on every run (`Gen.NT.smallprimes`, the Miller–Rabin round table and tests, `lcm2`).
`lg : Int → Int` stands for `int(math.log(n, 2))` (float-derived): every theorem holds for every `lg`.
-/
namespace C16
open NT NTProofs

/-! ## the table -/

/-- the generated `smallprimes` table is exactly the strictly ascending list of all primes ≤ 1229 -/
theorem smallprimes_exact :
    (∀ n : Int, n ∈ Gen.NT.smallprimes ↔ 0 ≤ n ∧ n.toNat.Prime ∧ n ≤ 1229) ∧
    Gen.NT.smallprimes.Pairwise (· < ·) ∧ Gen.NT.smallprimes.getLast? = some 1229 :=
  ⟨mem_smallprimes, smallprimes_sorted, smallprimes_getLast⟩

/-- non-vacuity: 1229 is in the table, 1227 = 3·409 is not -/
example : (1229 : Int) ∈ Gen.NT.smallprimes ∧ (1227 : Int) ∉ Gen.NT.smallprimes := by decide +kernel

/-- `is_prime` is exact for every integer up to the end of the table — in particular it answers `False` for
everything below 2 — whatever the float-derived `lg` is -/
theorem is_prime_exact_small (lg : Int → Int) (n : Int) (hn : n ≤ 1229) :
    ∃ b, isPrime lg n = .ok b ∧ (b = true ↔ 0 ≤ n ∧ n.toNat.Prime) := by
  refine ⟨Gen.NT.smallprimes.contains n, ?_, ?_⟩
  · simp only [isPrime, lastSmall, smallprimes_getLast, bind, Except.bind, hn, ↓reduceIte]
  · rw [List.contains_iff_mem, mem_smallprimes]
    constructor
    · rintro ⟨a, b, _⟩; exact ⟨a, b⟩
    · rintro ⟨a, b⟩; exact ⟨a, b, hn⟩

theorem is_prime_false_below_two (lg : Int → Int) (n : Int) (hn : n < 2) : isPrime lg n = .ok false := by
  obtain ⟨b, hb, hiff⟩ := is_prime_exact_small lg n (by omega)
  rw [hb]
  cases b with
  | false => rfl
  | true =>
    have := (hiff.mp rfl)
    have h2 := this.2.two_le
    omega

example : isPrime (fun _ => 0) 1223 = .ok true ∧ isPrime (fun _ => 0) 1227 = .ok false ∧ isPrime (fun _ => 0) (-7) = .ok false := by
  decide +kernel

/-! ## gcd / lcm: any number (≥ 1) of natural arguments, both calling conventions -/

/-- `gcd(x, y, …)` and `gcd([x, y, …])` both return a common divisor that every common divisor divides -/
theorem gcd_spec (l : List Nat) (hl : l ≠ []) :
    ∃ g : Nat, NT.gcd (.sep (l.map Nat.cast)) = .ok (g : Int) ∧ NT.gcd (.iter (l.map Nat.cast)) = .ok (g : Int) ∧
      (∀ x ∈ l, g ∣ x) ∧ (∀ d : Nat, (∀ x ∈ l, d ∣ x) → d ∣ g) :=
  ⟨gcdList l, (gcd_both l hl).1, (gcd_both l hl).2, gcdList_dvd l, dvd_gcdList l⟩

/-- `lcm(x, y, …)` and `lcm([x, y, …])` both return a common multiple that divides every common multiple
(after fix F8: 0 as soon as an argument is 0 — the only common multiple) -/
theorem lcm_spec (l : List Nat) (hl : l ≠ []) :
    ∃ m : Nat, NT.lcm (.sep (l.map Nat.cast)) = .ok (m : Int) ∧ NT.lcm (.iter (l.map Nat.cast)) = .ok (m : Int) ∧
      (∀ x ∈ l, x ∣ m) ∧ (∀ c : Nat, (∀ x ∈ l, x ∣ c) → m ∣ c) :=
  ⟨lcmList l, (lcm_both l hl).1, (lcm_both l hl).2, dvd_lcmList l, lcmList_dvd l⟩

/-- the calls with no argument / an empty iterable fail as in Python (`a[0]` on `()`, `reduce` of an empty sequence) -/
theorem gcd_lcm_empty :
    NT.gcd (.sep []) = .error .indexError ∧ NT.gcd (.iter []) = .error .typeError ∧
    NT.lcm (.sep []) = .error .indexError ∧ NT.lcm (.iter []) = .error .typeError := by
  simp [NT.gcd, NT.lcm, dispatch, reduce1, reduce1E]

/-- non-vacuity, including the F8 witness `lcm(0, 0) = 0` -/
example : NT.gcd (.sep [12, 18, 8]) = .ok 2 ∧ NT.lcm (.iter [4, 6, 10]) = .ok 60 ∧ NT.lcm (.sep [0, 0]) = .ok 0 ∧
    NT.lcm (.sep [0, 5]) = .ok 0 := by decide +kernel

end C16
