import Model.NumberTheory
import Proofs.NTGcd
import Proofs.NTTable
import Proofs.NTPrime
import Proofs.NTNext
import Proofs.NTFact
import Proofs.NTReview
import Proofs.NTGuards
import Proofs.NTSmallExact
import Proofs.NTSmallExact16
/-!
# C16 — primality, next prime, factorisation, gcd, lcm match their definitions

The model is `Model/NumberTheory.lean` (`NT.*`), built over the definitions regenerated from
`src/ecdsa/numbertheory.py` on every run (`Gen.NT.smallprimes`, the Miller–Rabin round table and tests, `lcm2`).
`lg : Int → Int` stands for `int(math.log(n, 2))` (float-derived): every theorem holds for every `lg`.
-/
namespace C16
open NT NTProofs

/-! ## the table -/

/-- the generated `smallprimes` table is exactly the strictly ascending list of all primes ≤ 1229 -/
theorem smallprimes_exact :
    (∀ n : Int, n ∈ Gen.NT.smallprimes ↔ 0 ≤ n ∧ n.toNat.Prime ∧ n ≤ 1229) ∧
    Gen.NT.smallprimes.Pairwise (· < ·) ∧ Gen.NT.smallprimes.getLast? = some 1229 :=
  ⟨mem_smallprimes, smallprimes_sorted, smallprimes_getLast⟩

/-- non-vacuity: 1229 is in the table, 1227 = 3·409 is not -/
example : (1229 : Int) ∈ Gen.NT.smallprimes ∧ (1227 : Int) ∉ Gen.NT.smallprimes := by decide +kernel

/-- `is_prime` is exact for every integer up to the end of the table — in particular it answers `False` for
everything below 2 — whatever the float-derived `lg` is -/
theorem is_prime_exact_small (lg : Int → Int) (n : Int) (hn : n ≤ 1229) :
    ∃ b, isPrime lg n = .ok b ∧ (b = true ↔ 0 ≤ n ∧ n.toNat.Prime) := by
  refine ⟨Gen.NT.smallprimes.contains n, ?_, ?_⟩
  · simp only [isPrime, lastSmall, smallprimes_getLast, bind, Except.bind, hn, ↓reduceIte]
  · rw [List.contains_iff_mem, mem_smallprimes]
    constructor
    · rintro ⟨a, b, _⟩; exact ⟨a, b⟩
    · rintro ⟨a, b⟩; exact ⟨a, b, hn⟩

theorem is_prime_false_below_two (lg : Int → Int) (n : Int) (hn : n < 2) : isPrime lg n = .ok false := by
  obtain ⟨b, hb, hiff⟩ := is_prime_exact_small lg n (by omega)
  rw [hb]
  cases b with
  | false => rfl
  | true =>
    have := (hiff.mp rfl)
    have h2 := this.2.two_le
    omega

example : isPrime (fun _ => 0) 1223 = .ok true ∧ isPrime (fun _ => 0) 1227 = .ok false ∧ isPrime (fun _ => 0) (-7) = .ok false := by
  decide +kernel

/-! ## Miller–Rabin part -/

/-- `is_prime` returns a boolean for every integer: none of `IndexError` (`smallprimes[i]`, `smallprimes[-1]`) or the
loop budget is reachable -/
theorem is_prime_total (lg : Int → Int) (n : Int) : ∃ b, isPrime lg n = .ok b := isPrime_total' lg n

/-- **`is_prime` never rejects a prime**, of any size, for every round count the table can choose and every value of
the float-derived `lg` (Fermat + "x² = 1 ⇒ x = ±1" in the field `ZMod n`; the gcd pre-filter cannot reject a prime
above 1229) -/
theorem is_prime_complete (lg : Int → Int) (n : Nat) (hp : n.Prime) : isPrime lg n = .ok true :=
  isPrime_complete lg n hp

/-- `NTProofs.SPRP n a`: `n − 1 = 2^s·r`, `r` odd, and `a^r ≡ 1` or `a^(2^j·r) ≡ −1 (mod n)` for some `j < s`.
`True` above the table means: no factor 2, 3, 5, 7, 11 and a strong probable prime to each of the first `t` primes,
`t` = the round count chosen from the bit-length table (between 2 and 40) -/
theorem is_prime_true_is_sprp (lg : Int → Int) (n : Nat) (h : 1229 < n) (ht : isPrime lg n = .ok true) :
    Nat.gcd n 2310 = 1 ∧ (∀ a ∈ Gen.NT.smallprimes.take (mrRounds (Gen.NT.mr_n_bits (lg n))).toNat, SPRP n a) ∧
    2 ≤ (mrRounds (Gen.NT.mr_n_bits (lg n))).toNat ∧ (mrRounds (Gen.NT.mr_n_bits (lg n))).toNat ≤ 40 := by
  obtain ⟨h1, h2⟩ := isPrime_true_sprp lg n h ht
  have := mrRounds_range (Gen.NT.mr_n_bits (lg n))
  exact ⟨h1, h2, by omega, by omega⟩

/-- the first 12 bases are the primes 2 … 37 -/
example : Gen.NT.smallprimes.take 12 = [2, 3, 5, 7, 11, 13, 17, 19, 23, 29, 31, 37] := by decide +kernel

/-- **PARTIAL — exactness below 2^64.**  Full statement wanted: for every `n < 2^64`, `is_prime(n) ⇔ n prime`.
Proved here under two explicit hypotheses (NOT axioms):
* `ψ` — no composite `1229 < m < 2^64` is a strong probable prime to all of the first 12 prime bases.  This is the
  cited computational result ψ₁₂ = 318665857834031151167461 > 2^64 (Sorenson–Webster 2015, "Strong pseudoprimes to
  twelve prime bases"); it cannot be re-derived by kernel evaluation (≈ 40 integers/s, DESIGN.md C16);
* `hlg` — the float-derived `int(math.log(n, 2))` is below 299 for `n < 2^64` (true value ≤ 63), so that the round
  table yields at least 12 rounds (it yields 40 when `lg n < 99`).
What is missing for the unconditional statement is exactly `ψ`. -/
theorem is_prime_exact_below_bound_partial (B : Nat) (lg : Int → Int)
    (ψ : ∀ m : Nat, 1229 < m → m < B → (∀ a ∈ Gen.NT.smallprimes.take 12, SPRP m a) → m.Prime)
    (hlg : ∀ n : Int, 1229 < n → n < B → lg n < 299)
    (n : Int) (hn : n < B) :
    ∃ b, isPrime lg n = .ok b ∧ (b = true ↔ 0 ≤ n ∧ n.toNat.Prime) := by
  by_cases hs : n ≤ 1229
  · exact is_prime_exact_small lg n hs
  · obtain ⟨N, rfl⟩ : ∃ N : Nat, n = N := ⟨n.toNat, by omega⟩
    obtain ⟨b, hb⟩ := isPrime_total' lg N
    refine ⟨b, hb, ?_⟩
    simp only [Int.toNat_natCast, Int.natCast_nonneg, true_and]
    constructor
    · rintro rfl
      obtain ⟨_, h2⟩ := isPrime_true_sprp lg N (by omega) hb
      apply ψ N (by omega) (by exact_mod_cast hn)
      intro a ha
      apply h2
      have h12 : 12 ≤ (mrRounds (Gen.NT.mr_n_bits (lg N))).toNat := by
        have := mrRounds_ge_12 (Gen.NT.mr_n_bits (lg N)) (by
          have := hlg N (by omega) hn
          simp only [Gen.NT.mr_n_bits]; omega)
        omega
      exact List.take_subset_take_left _ h12 ha
    · intro hp
      rw [isPrime_complete lg N hp] at hb
      cases hb; rfl

/-- the instance `B = 2⁶⁴` (ψ₁₂ > 2⁶⁴, Sorenson–Webster) -/
theorem is_prime_exact_below_2_64_partial (lg : Int → Int)
    (ψ : ∀ m : Nat, 1229 < m → m < 2 ^ 64 → (∀ a ∈ Gen.NT.smallprimes.take 12, SPRP m a) → m.Prime)
    (hlg : ∀ n : Int, 1229 < n → n < 2 ^ 64 → lg n < 299)
    (n : Int) (hn : n < 2 ^ 64) :
    ∃ b, isPrime lg n = .ok b ∧ (b = true ↔ 0 ≤ n ∧ n.toNat.Prime) :=
  is_prime_exact_below_bound_partial (2 ^ 64) lg ψ (by exact_mod_cast hlg) n (by exact_mod_cast hn)

/-- **decided instance — exact below 4096, UNCONDITIONALLY**: the range (1229, 4096) is evaluated by the kernel through the
model (`Proofs/NTSmallExact{A,B}`, 40 rounds), so on this range no hypothesis ψ is needed (`lg n < 99`, i.e. fewer than 100
bits reported, selects the 40-round row of the table) -/
theorem is_prime_exact_below_4096 (lg : Int → Int) (n : Int) (hn : n < 4096) (hlg : lg n < 99) :
    ∃ b, isPrime lg n = .ok b ∧ (b = true ↔ 0 ≤ n ∧ n.toNat.Prime) :=
  NTSmall.isPrime_exact_below_4096 lg n hn hlg

/-- **decided instance — exact below 65536 = 2¹⁶, UNCONDITIONALLY**: the range (4096, 65536) is evaluated by the kernel
through the model in 48 chunks (`Proofs/NTSmall16/C00…C47`, 40 Miller–Rabin rounds each, compared with trial division by the
primes below 256, which is proved exact below 256² in `NTSmall.tdC_iff`).  Same reading of `hlg` as above.  The property asks
for 2⁶⁴; everything above 2¹⁶ still rests on ψ₁₂ > 2⁶⁴ (`is_prime_exact_below_2_64_partial`) — kernel evaluation costs
≈ 25 ms per integer, so this is as far as a decided range reasonably goes. -/
theorem is_prime_exact_below_65536 (lg : Int → Int) (n : Int) (hn : n < 65536) (hlg : lg n < 99) :
    ∃ b, isPrime lg n = .ok b ∧ (b = true ↔ 0 ≤ n ∧ n.toNat.Prime) :=
  NTSmall.isPrime_exact_below_65536 lg n hn hlg

/-- non-vacuity of `hlg`: the exact ⌊log₂ n⌋ satisfies it -/
example : ∀ n : Int, 1229 < n → n < 2 ^ 64 → (fun n : Int => ((n.toNat.log2 : Nat) : Int)) n < 299 := by
  intro n h1 h2
  have : n.toNat.log2 < 64 := by
    apply (Nat.log2_lt (by omega)).mpr
    omega
  simp only; omega

/-- non-vacuity of the Miller–Rabin theorems: a prime and a strong pseudoprime to base 2 above the table, a Carmichael
number; `lg` = exact ⌊log₂⌋ -/
example : isPrime (fun n => n.toNat.log2) 1231 = .ok true ∧ isPrime (fun n => n.toNat.log2) 2047 = .ok false ∧
    isPrime (fun n => n.toNat.log2) 1373653 = .ok false ∧ isPrime (fun n => n.toNat.log2) 8911 = .ok false ∧
    isPrime (fun n => n.toNat.log2) 2305843009213693951 = .ok true := by decide +kernel

/-! ## next_prime -/

/-- `next_prime(n)` for every `n` and every `lg`: it terminates (Bertrand's postulate bounds the scan), returns 2 below
2, otherwise a value `r > n` that `is_prime` accepts, and **no prime is skipped**: there is no prime strictly between
`n` and `r` (unconditional, by `is_prime_complete`) -/
theorem next_prime_no_prime_skipped (lg : Int → Int) (n : Int) :
    (n < 2 → nextPrime lg n = .ok 2) ∧
    (2 ≤ n → ∃ r : Nat, nextPrime lg n = .ok (r : Int) ∧ n < r ∧ isPrime lg r = .ok true ∧
      ∀ q : Nat, n < q → q < r → ¬ q.Prime) := by
  refine ⟨nextPrime_small lg n, fun h => ?_⟩
  obtain ⟨N, rfl⟩ : ∃ N : Nat, n = N := ⟨n.toNat, by omega⟩
  obtain ⟨r, h1, h2, h3, h4⟩ := nextPrime_spec lg N (by omega)
  exact ⟨r, h1, by exact_mod_cast h2, h3, fun q hq => h4 q (by exact_mod_cast hq)⟩

/-- **PARTIAL — `next_prime(n)` is the smallest prime greater than `n`.**  Proved under the hypothesis that `is_prime`
is sound at the returned value (`hsound`; below 2^64 this follows from `is_prime_exact_below_2_64_partial`, i.e. from ψ).
Missing for the unconditional statement: soundness of the fixed-base Miller–Rabin test at the returned value. -/
theorem next_prime_minimal_partial (lg : Int → Int) (n : Int)
    (hsound : ∀ r : Nat, nextPrime lg n = .ok (r : Int) → isPrime lg r = .ok true → r.Prime) :
    ∃ r : Nat, nextPrime lg n = .ok (r : Int) ∧ r.Prime ∧ n < r ∧ ∀ q : Nat, q.Prime → n < q → r ≤ q := by
  by_cases h : n < 2
  · refine ⟨2, (next_prime_no_prime_skipped lg n).1 h, Nat.prime_two, by omega, fun q hq _ => hq.two_le⟩
  · obtain ⟨r, h1, h2, h3, h4⟩ := (next_prime_no_prime_skipped lg n).2 (by omega)
    refine ⟨r, h1, hsound r h1 h3, h2, fun q hq hnq => ?_⟩
    by_contra hlt
    exact h4 q hnq (by omega) hq

/-- non-vacuity of `hsound`: at `n = 1229` the returned value is 1231, which is prime -/
example : ∀ r : Nat, nextPrime (fun n => n.toNat.log2) 1229 = .ok (r : Int) →
    isPrime (fun n => n.toNat.log2) r = .ok true → r.Prime := by
  intro r hr _
  have h : nextPrime (fun n => n.toNat.log2) 1229 = .ok 1231 := by decide +kernel
  rw [h] at hr
  have : (r : Int) = 1231 := by injection hr with h'; exact h'.symm
  have : r = 1231 := by omega
  subst this; norm_num

/-- `next_prime(n)` is the smallest prime greater than `n` **under ψ**, for every `n < 2⁶²` (then the result is below 2⁶⁴ by
Bertrand's postulate, where `is_prime` is exact under ψ) -/
theorem next_prime_minimal_below_2_62_partial (lg : Int → Int)
    (ψ : ∀ m : Nat, 1229 < m → m < 2 ^ 64 → (∀ a ∈ Gen.NT.smallprimes.take 12, SPRP m a) → m.Prime)
    (hlg : ∀ n : Int, 1229 < n → n < 2 ^ 64 → lg n < 299) (n : Int) (hn : n < 2 ^ 62) :
    ∃ r : Nat, nextPrime lg n = .ok (r : Int) ∧ r.Prime ∧ n < r ∧ ∀ q : Nat, q.Prime → n < q → r ≤ q := by
  by_cases h2 : n < 2
  · exact ⟨2, (next_prime_no_prime_skipped lg n).1 h2, Nat.prime_two, by omega, fun q hq _ => hq.two_le⟩
  · obtain ⟨N, rfl⟩ : ∃ N : Nat, n = N := ⟨n.toNat, by omega⟩
    obtain ⟨r, h1, hlt, hle, hacc, hskip⟩ := nextPrime_spec_bound lg N (by omega)
    have hr64 : (r : Int) < 2 ^ 64 := by
      have : (N : Int) < 2 ^ 62 := hn
      have : (r : Int) ≤ 2 * ((N : Int) + 2) := by exact_mod_cast hle
      omega
    obtain ⟨b, hb, hiff⟩ := is_prime_exact_below_2_64_partial lg ψ hlg r hr64
    rw [hacc] at hb; cases hb
    have hrp : r.Prime := by simpa using (hiff.mp rfl).2
    refine ⟨r, h1, hrp, by exact_mod_cast hlt, fun q hq hnq => ?_⟩
    by_contra hcon
    exact hskip q (by exact_mod_cast hnq) (by omega) hq

/-- decided instance: for `n < 2040` minimality holds unconditionally (the result is below 4096) -/
theorem next_prime_minimal_small (lg : Int → Int) (hlg : ∀ m : Int, lg m < 99) (n : Int) (hn : n < 2040) :
    ∃ r : Nat, nextPrime lg n = .ok (r : Int) ∧ r.Prime ∧ n < r ∧ ∀ q : Nat, q.Prime → n < q → r ≤ q := by
  by_cases h2 : n < 2
  · exact ⟨2, (next_prime_no_prime_skipped lg n).1 h2, Nat.prime_two, by omega, fun q hq _ => hq.two_le⟩
  · obtain ⟨N, rfl⟩ : ∃ N : Nat, n = N := ⟨n.toNat, by omega⟩
    obtain ⟨r, h1, hlt, hle, hacc, hskip⟩ := nextPrime_spec_bound lg N (by omega)
    obtain ⟨b, hb, hiff⟩ := NTSmall.isPrime_exact_below_4096 lg r (by omega) (hlg r)
    rw [hacc] at hb; cases hb
    have hrp : r.Prime := by simpa using (hiff.mp rfl).2
    refine ⟨r, h1, hrp, by exact_mod_cast hlt, fun q hq hnq => ?_⟩
    by_contra hcon
    exact hskip q (by exact_mod_cast hnq) (by omega) hq

/-- decided instance, larger: for `n < 32760` minimality holds unconditionally (the result is below 2¹⁶, where `is_prime` is
decided exact: `is_prime_exact_below_65536`) — `next_prime(n)` IS the smallest prime greater than `n` -/
theorem next_prime_minimal_below_32760 (lg : Int → Int) (hlg : ∀ m : Int, lg m < 99) (n : Int) (hn : n < 32760) :
    ∃ r : Nat, nextPrime lg n = .ok (r : Int) ∧ r.Prime ∧ n < r ∧ ∀ q : Nat, q.Prime → n < q → r ≤ q := by
  by_cases h2 : n < 2
  · exact ⟨2, (next_prime_no_prime_skipped lg n).1 h2, Nat.prime_two, by omega, fun q hq _ => hq.two_le⟩
  · obtain ⟨N, rfl⟩ : ∃ N : Nat, n = N := ⟨n.toNat, by omega⟩
    obtain ⟨r, h1, hlt, hle, hacc, hskip⟩ := nextPrime_spec_bound lg N (by omega)
    obtain ⟨b, hb, hiff⟩ := NTSmall.isPrime_exact_below_65536 lg r (by omega) (hlg r)
    rw [hacc] at hb; cases hb
    have hrp : r.Prime := by simpa using (hiff.mp rfl).2
    refine ⟨r, h1, hrp, by exact_mod_cast hlt, fun q hq hnq => ?_⟩
    by_contra hcon
    exact hskip q (by exact_mod_cast hnq) (by omega) hq

example : nextPrime (fun n => n.toNat.log2) 1229 = .ok 1231 ∧ nextPrime (fun n => n.toNat.log2) (-5) = .ok 2 ∧
    nextPrime (fun n => n.toNat.log2) 2046 = .ok 2053 := by decide +kernel

/-! ## factorization -/

/-- `factorization(n)` for every integer `n` and every `lg`: `[]` below 2; otherwise `[(p₁,e₁),…]` with `∏ pᵢ^eᵢ = n`,
strictly ascending bases `≥ 2`, exponents `≥ 1`, and every base prime **unconditionally** (least-divisor argument for the
small-prime loop, the odd-divisor loop and its leftover) — except the single last entry `(n', 1)`, `n' > 1229`, appended
by the shortcut `if is_prime(n): result.append((n, 1))`, which is as prime as `is_prime` says (second disjunct). -/
theorem factorization_spec (lg : Int → Int) (n : Int) :
    (n < 2 → factorization lg n = .ok []) ∧
    (2 ≤ n → ∃ fs, factorization lg n = .ok fs ∧
        (fs.map (fun f => f.1 ^ f.2.toNat)).prod = n ∧
        (fs.map Prod.fst).Pairwise (· < ·) ∧
        (∀ f ∈ fs, 1 ≤ f.2) ∧
        (∀ f ∈ fs, 2 ≤ f.1) ∧
        (∀ f ∈ fs, f.1.toNat.Prime ∨
          (1229 < f.1 ∧ f.2 = 1 ∧ isPrime lg f.1 = .ok true ∧ f = fs.getLast?.getD f))) :=
  NTProofs.factorization_spec lg n

/-- every base is prime as soon as `is_prime` is sound **on the numbers up to `n`** (it is only ever applied to one cofactor
`≤ n`).  This hypothesis is satisfiable: below 2⁶⁴ it follows from ψ (`factorization_all_prime_below_2_64_partial`), below
4096 it holds outright (`factorization_all_prime_small`).  (An unbounded `∀ m` version would be vacuous: for every `lg` some
strong pseudoprime to the finitely many bases exists.) -/
theorem factorization_all_prime (lg : Int → Int) (n : Int) (hn : 2 ≤ n)
    (hsound : ∀ m, 1229 < m → m ≤ n → isPrime lg m = .ok true → m.toNat.Prime) :
    ∃ fs, factorization lg n = .ok fs ∧ ∀ f ∈ fs, f.1.toNat.Prime := by
  obtain ⟨fs, h1, _, _, _, _, h6⟩ := NTProofs.factorization_all_prime_bounded lg n hn hsound
  exact ⟨fs, h1, h6⟩

/-- decided instance: below 4096 the hypothesis is discharged by kernel evaluation — the factorisation is THE prime
factorisation, unconditionally -/
theorem factorization_all_prime_small (lg : Int → Int) (hlg : ∀ m : Int, lg m < 99) (n : Int) (hn : 2 ≤ n) (hn' : n < 4096) :
    ∃ fs, factorization lg n = .ok fs ∧ (fs.map (fun f => f.1 ^ f.2.toNat)).prod = n ∧
      (fs.map Prod.fst).Pairwise (· < ·) ∧ (∀ f ∈ fs, 1 ≤ f.2) ∧ ∀ f ∈ fs, f.1.toNat.Prime := by
  obtain ⟨fs, h1, h2, h3, h4, _, h6⟩ := NTProofs.factorization_all_prime_bounded lg n hn (by
    intro m hm hmn hp
    obtain ⟨b, hb, hiff⟩ := NTSmall.isPrime_exact_below_4096 lg m (by omega) (hlg m)
    rw [hp] at hb; cases hb
    exact (hiff.mp rfl).2)
  exact ⟨fs, h1, h2, h3, h4, h6⟩

/-- decided instance, larger: below 2¹⁶ the factorisation is THE prime factorisation, unconditionally -/
theorem factorization_all_prime_below_65536 (lg : Int → Int) (hlg : ∀ m : Int, lg m < 99) (n : Int) (hn : 2 ≤ n) (hn' : n < 65536) :
    ∃ fs, factorization lg n = .ok fs ∧ (fs.map (fun f => f.1 ^ f.2.toNat)).prod = n ∧
      (fs.map Prod.fst).Pairwise (· < ·) ∧ (∀ f ∈ fs, 1 ≤ f.2) ∧ ∀ f ∈ fs, f.1.toNat.Prime := by
  obtain ⟨fs, h1, h2, h3, h4, _, h6⟩ := NTProofs.factorization_all_prime_bounded lg n hn (by
    intro m hm hmn hp
    obtain ⟨b, hb, hiff⟩ := NTSmall.isPrime_exact_below_65536 lg m (by omega) (hlg m)
    rw [hp] at hb; cases hb
    exact (hiff.mp rfl).2)
  exact ⟨fs, h1, h2, h3, h4, h6⟩

/-- the instance `B = 2⁶⁴` of the property's own range: from ψ₁₂ > 2⁶⁴ (the cited computation, the only hypothesis besides the
reading of `math.log`) the list returned for every 2 ≤ n < 2⁶⁴ is THE prime factorisation — product n, strictly ascending
bases, exponents ≥ 1, every base prime -/
theorem factorization_all_prime_below_2_64_partial (lg : Int → Int)
    (ψ : ∀ m : Nat, 1229 < m → m < 2 ^ 64 → (∀ a ∈ Gen.NT.smallprimes.take 12, SPRP m a) → m.Prime)
    (hlg : ∀ n : Int, 1229 < n → n < 2 ^ 64 → lg n < 299)
    (n : Int) (hn : 2 ≤ n) (hn' : n < 2 ^ 64) :
    ∃ fs, factorization lg n = .ok fs ∧ (fs.map (fun f => f.1 ^ f.2.toNat)).prod = n ∧
      (fs.map Prod.fst).Pairwise (· < ·) ∧ (∀ f ∈ fs, 1 ≤ f.2) ∧ ∀ f ∈ fs, f.1.toNat.Prime := by
  obtain ⟨fs, h1, h2, h3, h4, _, h6⟩ := NTProofs.factorization_all_prime_bounded lg n hn (by
    intro m hm hmn hp
    obtain ⟨b, hb, hiff⟩ := is_prime_exact_below_2_64_partial lg ψ hlg m (by omega)
    rw [hp] at hb; cases hb
    exact (hiff.mp rfl).2)
  exact ⟨fs, h1, h2, h3, h4, h6⟩

example : factorization (fun _ => 0) 360 = .ok [(2, 3), (3, 2), (5, 1)] ∧
    factorization (fun _ => 0) (1231 * 1231) = .ok [(1231, 2)] ∧
    factorization (fun _ => 20) (2 * 1231 * 1237) = .ok [(2, 1), (1231, 1), (1237, 1)] ∧
    factorization (fun _ => 10) (4 * 1231) = .ok [(2, 2), (1231, 1)] ∧ factorization (fun _ => 0) (-7) = .ok [] := by
  decide +kernel

/-! ## gcd / lcm: any number (≥ 1) of natural arguments, both calling conventions -/

/-- `gcd(x, y, …)` and `gcd([x, y, …])` both return a common divisor that every common divisor divides -/
theorem gcd_spec (l : List Nat) (hl : l ≠ []) :
    ∃ g : Nat, NT.gcd (.sep (l.map Nat.cast)) = .ok (g : Int) ∧ NT.gcd (.iter (l.map Nat.cast)) = .ok (g : Int) ∧
      (∀ x ∈ l, g ∣ x) ∧ (∀ d : Nat, (∀ x ∈ l, d ∣ x) → d ∣ g) :=
  ⟨gcdList l, (gcd_both l hl).1, (gcd_both l hl).2, gcdList_dvd l, dvd_gcdList l⟩

/-- `lcm(x, y, …)` and `lcm([x, y, …])` both return a common multiple that divides every common multiple
(after fix F8: 0 as soon as an argument is 0 — the only common multiple) -/
theorem lcm_spec (l : List Nat) (hl : l ≠ []) :
    ∃ m : Nat, NT.lcm (.sep (l.map Nat.cast)) = .ok (m : Int) ∧ NT.lcm (.iter (l.map Nat.cast)) = .ok (m : Int) ∧
      (∀ x ∈ l, x ∣ m) ∧ (∀ c : Nat, (∀ x ∈ l, x ∣ c) → m ∣ c) :=
  ⟨lcmList l, (lcm_both l hl).1, (lcm_both l hl).2, dvd_lcmList l, lcmList_dvd l⟩

/-- **arbitrary INTEGER arguments** (the quantifier of the property says "integer tuples"; the specification above is
claimed on ℕ because "greatest"/"least" fix no sign — DESIGN §2): what the code returns.  `gcd2 = math.gcd` is the gcd of
the absolute values (non-negative); `lcm2(a, b)` is 0 if an argument is 0, else `(a·b) // gcd(a, b)`: magnitude
`lcm(|a|, |b|)`, sign of `a·b` (so it can be negative); with ≥ 2 arguments `gcd` folds `gcd2` (result ≥ 0) and a single
argument is returned unchanged (possibly negative) -/
theorem gcd_lcm_int_behaviour (a b : Int) (l : List Int) (x : Int) :
    gcd2 a b = (Nat.gcd a.natAbs b.natAbs : Nat) ∧
    (∃ v : Int, NT.lcm2 a b = .ok v ∧ v.natAbs = Nat.lcm a.natAbs b.natAbs ∧ (0 < a * b → 0 < v) ∧ (a * b < 0 → v < 0) ∧
      (a * b = 0 → v = 0)) ∧
    NT.gcd (.sep [x]) = .ok x ∧ NT.lcm (.sep [x]) = .ok x ∧ NT.gcd (.iter [x]) = .ok x ∧
    NT.gcd (.sep (a :: b :: l)) = .ok ((b :: l).foldl gcd2 a) ∧ 0 ≤ (b :: l).foldl gcd2 a := by
  refine ⟨rfl, lcm2_int a b, rfl, rfl, rfl, rfl, ?_⟩
  have : ∀ (l : List Int) (y : Int), 0 ≤ y → 0 ≤ l.foldl gcd2 y := by
    intro l
    induction l with
    | nil => intro y hy; exact hy
    | cons c t ih => intro y _; exact ih _ (Int.natCast_nonneg _)
  exact this l (gcd2 a b) (Int.natCast_nonneg _)

example : NT.gcd (.sep [-4, 6]) = .ok 2 ∧ NT.lcm (.sep [-4, 6]) = .ok (-12) ∧ NT.lcm (.sep [-4, -6]) = .ok 12 ∧
    NT.gcd (.sep [-4]) = .ok (-4) := by decide +kernel

/-- the calls with no argument / an empty iterable fail as in Python (`a[0]` on `()`, `reduce` of an empty sequence) -/
theorem gcd_lcm_empty :
    NT.gcd (.sep []) = .error .indexError ∧ NT.gcd (.iter []) = .error .typeError ∧
    NT.lcm (.sep []) = .error .indexError ∧ NT.lcm (.iter []) = .error .typeError := by
  simp [NT.gcd, NT.lcm, dispatch, reduce1, reduce1E]

/-- non-vacuity, including the F8 witness `lcm(0, 0) = 0` -/
example : NT.gcd (.sep [12, 18, 8]) = .ok 2 ∧ NT.lcm (.iter [4, 6, 10]) = .ok 60 ∧ NT.lcm (.sep [0, 0]) = .ok 0 ∧
    NT.lcm (.sep [0, 5]) = .ok 0 := by decide +kernel

/-! ## guard ties (translator `gen_rest.py`, `Generated/RestGuards.lean`) -/

/-- `is_prime`: the tests and expressions the model is built from (`gen_nt.py`) are the guards `gen_rest.py` extracts
independently from the source on every run -/
theorem is_prime_guard_tie (y n j s r g lg : Int) :
    Gen.NT.mr_enter y n = Gen.Rest.numbertheory_is_prime_if4 y n ∧
    Gen.NT.mr_loop_cond j s y n = Gen.Rest.numbertheory_is_prime_while1 j s y n ∧
    Gen.NT.mr_final_fail y n = Gen.Rest.numbertheory_is_prime_if6 y n ∧
    Gen.NT.mr_gcd_const = Gen.Rest.numbertheory_is_prime_e1 ∧
    Gen.NT.mr_n_bits lg = Gen.Rest.numbertheory_is_prime_let2 lg ∧
    (decide (g ≠ 1) = Gen.Rest.numbertheory_is_prime_if2 g) ∧
    (n - 1 = Gen.Rest.numbertheory_is_prime_let5 n) ∧
    (decide (pmod r 2 = 0) = Gen.Rest.numbertheory_is_prime_while0 r) ∧
    (s + 1 = Gen.Rest.numbertheory_is_prime_let6 s) ∧ (pdiv r 2 = Gen.Rest.numbertheory_is_prime_let7 r) ∧
    (decide (y = 1) = Gen.Rest.numbertheory_is_prime_if5 y) ∧ (j + 1 = Gen.Rest.numbertheory_is_prime_let13 j) :=
  NTGuards.is_prime_guard_tie y n j s r g lg

/-- `factorization` (and the deprecated helpers): the models' tests are the generated guards -/
theorem factorization_guard_tie (lg : Int → Int) (n count : Int) :
    (factorization lg n = if Gen.Rest.numbertheory_factorization_if0 n then .ok [] else factorization lg n) ∧
    (count + 1 = Gen.Rest.numbertheory_factorization_let5 count) ∧
    (count + 1 = Gen.Rest.numbertheory_factorization_let13 count) ∧
    (decide (n > 1) = Gen.Rest.numbertheory_factorization_if9 n) :=
  ⟨(NTGuards.models_use_guards lg n 0 0 0 0).1, rfl, rfl, rfl⟩

end C16
