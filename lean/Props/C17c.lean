import Props.C03
import Props.C17
/-!
# C17c — the entropy-driven signature is a function of the bytes the caller's source handed out (C17 × C03)

`SigningKey.sign_digest(digest, entropy=ent)` draws its nonce with `randrange(order, ent)` (`sign_number`, pinned in
`Generated/RandSlices` and `Generated/EcdsaInt`).  The two halves live in two models: `Rand.randrange` (what is asked of the
source and what comes back, C17) and `Ecdsa.signDigest`, which takes the nonce source as a parameter `Int → Res Int` (C01–C03).
This file composes them:

* `sign_digest_entropy_eq_explicit` — with the nonce source instantiated by `randrange` on the caller's entropy, the outcome IS
  the outcome of `sign_digest(digest, k=k)` for the value `k` that `randrange` returned: the signature is a function of the
  consumed bytes and of nothing else; in particular there is no second draw, from this or any other source;
* `entropy_signature_is_standard` — hence (C03) the standard `(r, s)` of that nonce, or `RSZeroError` when that nonce gives
  `r = 0` or `s = 0` (an unusable nonce is REPORTED, never silently replaced: round-8 seed C17-mut53-1 retried with
  `os.urandom`), or `BadDigestError` for an over-long digest with truncation disabled;
* `entropy_signature_replay` — two sources that answer the requests of this call alike give the same outcome, whatever it is;
* `entropy_failure_propagates` — an exception of the source, or one raised while drawing, is the outcome.
The search stage of check C17 runs the same three situations against the real code (scripted source; `os.urandom` watched).
-/
namespace C17c
open Ecdsa

variable {P : Type} {𝔾 : Type} [AddCommGroup 𝔾]
variable {ops : PointOps P} {G : 𝔾} {den : P → 𝔾} {xc : 𝔾 → Option ℤ} {valid : P → Prop}

/-- the nonce source `sign_number` uses when no `k` is given: the value of `randrange(order, ent)` on the request history `hist`
(`fuel` bounds the rejected chunks explored; a draw still running after `fuel` chunks is no outcome at all: `.other`) -/
def entropyRand (ent : Rand.Entropy) (hist : List Nat) (fuel : Nat) : ℤ → Res ℤ := fun order =>
  match Rand.randrange ent order hist fuel with
  | some (.ok (k, _)) => .ok (k : ℤ)
  | some (.error e) => .error e
  | none => .error .other

theorem sign_digest_entropy_eq_explicit {β : Type} (ops : PointOps P) (d : ℤ) (dg : Bytes) (ent : Rand.Entropy)
    (hist : List Nat) (fuel : Nat) (k : ℕ) (hist' : List Nat)
    (h : Rand.randrange ent ops.order hist fuel = some (.ok (k, hist')))
    (rand' : ℤ → Res ℤ) (enc : ℤ → ℤ → ℤ → Res β) (allow : Bool) :
    signDigest ops d dg none (entropyRand ent hist fuel) enc allow = signDigest ops d dg (some (k : ℤ)) rand' enc allow := by
  unfold signDigest signNumber entropyRand
  simp only [h]

theorem entropy_signature_is_standard {β : Type} (C : PointOpsCorrect ops G den xc valid) (d : ℤ) (dg : Bytes) (hne : dg ≠ [])
    (ent : Rand.Entropy) (hist : List Nat) (fuel : Nat) (k : ℕ) (hist' : List Nat)
    (h : Rand.randrange ent ops.order hist fuel = some (.ok (k, hist')))
    (enc : ℤ → ℤ → ℤ → Res β) (allow : Bool) :
    (1 ≤ (k : ℤ) ∧ (k : ℤ) < ops.order) ∧
    ∃ x, xc ((k : ℤ) • G) = some x ∧
      signDigest ops d dg none (entropyRand ent hist fuel) enc allow =
        (if allow = false ∧ dg.length > baselen ops then .error .badDigest
         else
           let e := C03.digestInt ops.order dg allow
           let r := x % ops.order
           let s := invZ ops.order k * (e + r * d) % ops.order
           if r = 0 ∨ s = 0 then .error .rsZero else enc r s ops.order) := by
  have hk := C17.randrange_range ent ops.order hist fuel k hist' h
  have hk' : 1 ≤ (k : ℤ) ∧ (k : ℤ) < ops.order := ⟨by exact_mod_cast hk.1, hk.2⟩
  refine ⟨hk', ?_⟩
  obtain ⟨x, hx, hs⟩ := C03.sign_digest_eq_standard_flag C d (k : ℤ) hk' dg hne (fun _ => .error .other) enc allow
  exact ⟨x, hx, by rw [sign_digest_entropy_eq_explicit ops d dg ent hist fuel k hist' h (fun _ => .error .other) enc allow, hs]⟩

theorem entropy_signature_replay {β : Type} (ops : PointOps P) (d : ℤ) (dg : Bytes) (ent₁ ent₂ : Rand.Entropy)
    (hist : List Nat) (fuel : Nat)
    (hsame : ∀ i, ent₁ (hist ++ List.replicate (i + 1) (Rand.upper256 ops.order)) =
                  ent₂ (hist ++ List.replicate (i + 1) (Rand.upper256 ops.order)))
    (enc : ℤ → ℤ → ℤ → Res β) (allow : Bool) :
    signDigest ops d dg none (entropyRand ent₁ hist fuel) enc allow =
      signDigest ops d dg none (entropyRand ent₂ hist fuel) enc allow := by
  have : entropyRand ent₁ hist fuel ops.order = entropyRand ent₂ hist fuel ops.order := by
    unfold entropyRand
    rw [C17.randrange_replay ent₁ ent₂ ops.order hist fuel hsame]
  unfold signDigest signNumber
  simp only [this]

theorem entropy_failure_propagates {β : Type} (ops : PointOps P) (d : ℤ) (dg : Bytes) (number : ℤ) (ent : Rand.Entropy)
    (hist : List Nat) (fuel : Nat) (e : PyErr) (allow : Bool)
    (hnum : truncateAndConvertDigest dg (baselen ops) ops.order allow = .ok number)
    (h : Rand.randrange ent ops.order hist fuel = some (.error e))
    (enc : ℤ → ℤ → ℤ → Res β) :
    signDigest ops d dg none (entropyRand ent hist fuel) enc allow = .error e := by
  unfold signDigest signNumber entropyRand
  simp only [h, hnum, bind, Except.bind]

/-! ### non-vacuity: the toy group of order 7 (C03's instance), the scripted stream of C17's example -/

/-- the hypotheses are met and the composed model really signs: after the key draw (one request of one byte) the stream
`[64, 255, 32]` yields the nonce 2 on the second chunk it is asked for; digest `05`, d = 3 → (2, 2), the same as `k = 2` given
explicitly -/
example : Rand.randrange (Rand.streamEntropy [64, 255, 32]) Toy.ops.order [1] 5 = some (.ok (2, [1, 1, 1])) ∧
    signDigest Toy.ops 3 [5] none (entropyRand (Rand.streamEntropy [64, 255, 32]) [1] 5) (fun r s _ => .ok (r, s)) false = .ok (2, 2) ∧
    signDigest Toy.ops 3 [5] (some 2) (fun _ => .error .other) (fun r s _ => .ok (r, s)) false = .ok (2, 2) := by
  decide +kernel

/-- an unusable nonce is reported: the same stream with d = 1 and digest `05` gives s = 2⁻¹(5 + 2·1) = 0 (mod 7) → `RSZeroError` -/
example : signDigest Toy.ops 1 [5] none (entropyRand (Rand.streamEntropy [64, 255, 32]) [1] 5) (fun r s _ => .ok (r, s)) false =
    .error .rsZero := by
  decide +kernel

end C17c
