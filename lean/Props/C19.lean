import Proofs.PointObjMulAdd
import Mathlib.Algebra.Group.Int.Defs
/-!
# C19 — the value of a point or key never changes, whatever was done with it before

`Model/PointObj.lean` is the code's object world: a heap of `PointJacobi` objects with their hidden state (coordinate
triple rewritten by `scale()`, lazily built table), legacy points, copies of INFINITY, keys referencing points; operations
mutate, allocate and alias.  `Proofs/PointObjAbs.lean` is the world the property speaks about: a heap of **values**
(group element + immutable attributes), with no hidden state at all.

* `step_refines` — every covered operation, started in a concrete heap whose objects are hidden states of the values
  of an abstract heap, returns **exactly the output of the abstract operation** (integers, booleans, bytes, signatures,
  *and which object is returned*) and ends in such a heap again.
* `history_independent` — by induction over the operation list: the outputs of every history equal those of the
  abstract machine; `history_independent_fresh`: hence they equal the outputs of the same history on any other
  concrete heap denoting the same values — in particular on freshly constructed objects.
* `eq_equivalence` — `==` returns "the denoted values are equal": reflexive, symmetric, transitive.
* `pickle_roundtrip_value` — the restored object denotes the same value with the same attributes (so by
  `history_independent` it has the same coordinates and serialisations and makes and verifies the same signatures).

Hypothesis `RepIndep sp HS HA` (`Proofs/PointObjSim.lean`): the value-level functions of `Model/Curve.lean` map
hidden states of values to hidden states of the group results, for **every** representation — C06/C07's theorems
under N2T (open finding K1 is exactly the failure of this on curves with a point of order 2).

* `pickle_roundtrip_key`, `pickle_roundtrip_key_shared`, `pickle_roundtrip_skey` — the same for `VerifyingKey` and `SigningKey`
  objects: the whole object graph (generator, point, key, secret multiplier) is restored as new objects denoting the same
  values (instance with evaluated serialisations / signatures / verifications: `C19g.toy_key_pickle`).

**Domain of the theorems** (what `Inv` — through `RepIndep` — demands of a heap; outside it there is NO theorem here):

* *one curve per heap* (`hs_curve`): all point objects of a related heap lie on the curve `sp.c`, and their values in one
  subgroup ⟨G⟩ of odd order n (`Props/C19g.lean`), with declared order n or none.  **Mixed-curve heaps** — objects of two
  different curves side by side, where `==` must answer `False` and `+` must raise — are not covered by `step_refines` /
  `history_independent`; they are exercised by the harness only (walks with a second curve through a common point, walks
  with equal-but-distinct `CurveFp` objects: correspondence with the model + value-semantics search).
* *no identity-valued stored objects* (`hs_ne`, `ha_ne`, `hs_nz`): a stored `PointJacobi` / legacy `Point` cell denotes a
  non-zero group element and its triple has Y ≠ 0, Z ≠ 0.  The identity occurs as the `INFINITY` singleton and its
  pickled / copied twins only — which is all the library's own arithmetic ever returns (`coordsOut` maps Y = 0 or Z = 0
  to `INFINITY`).  A user-constructed `PointJacobi(curve, x, 0, z)` or `(x, y, 0)` (legal, and built by the pinned tests)
  living in the heap is **not** covered: the value-level theorems for such operands are C06/C07's `PJRep0` family
  (`Proofs/GroupObj0.lean`, `Proofs/MulAdd0.lean`), single operations, no heap.  The harness meets such objects only on
  the curves with a point of order 2 (stored triples with y = 0: the K1 domain).
* K1: curves whose subgroup has an element of order 2 are outside (`RepIndep` fails there; open known finding).

`Covered`: all 24 public operations of the model — reads, `scale`, `to_affine`, `from_affine`, `-`, `double`, `+`, `*`,
`mul_add`, `==`, pickle, `copy.copy`, key construction, `precompute` (lazy and eager), `to_string`, `verifies`, key `==`,
signing-key construction, `sign` — except arithmetic whose operands are all legacy `Point`s (`P + Q`, `k * P`, `-P`,
`P.double()` on immutable objects: no hidden state is involved; this includes the `other * other_mul` shortcut of
`mul_add` with a legacy `other` and first multiplier 0), and `verifies` on a key whose point is not a `PointJacobi`
(never the case for keys built by the library).
-/
namespace C19
open PointObj Curve

variable {G : Type} [AddCommGroup G] [DecidableEq G]
variable {sp : ASpec G} {HS : PJ → List (Int × Int) → G → Prop} {HA : AffPt → G → Prop}

/-! ### the covered set: well-typed calls, minus arithmetic on legacy points only

Every call the harness generates lies in this set and every kind of call in this set is generated
(`harness/props/C19.py`); what is excluded from generation is excluded here. -/

/-- the reference denotes a point object: a `PointJacobi`, a legacy `Point`, INFINITY or a copy of INFINITY -/
def IsPoint (ah : AHeap G) (r : Ref) : Prop := aptOf ah r ≠ none

/-- … and not the identity (`from_affine(INFINITY)` builds `PointJacobi(None, None, None, 1)` without raising: a
meaningless object, outside the model) -/
def IsFinite (ah : AHeap G) (r : Ref) : Prop := ∃ v, aptOf ah r = some v ∧ v ≠ .inf

/-- a `PointJacobi` with a declared non-zero order: what a `curves.Curve` object can be built around (`Curve.__init__`
calls `orderlen(generator.order())`) -/
def IsGen (ah : AHeap G) (g : Ref) : Prop := ∃ x n gen, aptOf ah g = some (.jac x (some n) gen) ∧ n ≠ 0

/-- a `VerifyingKey` as the library builds it: its generator is such an object, its point is a `PointJacobi` -/
def WFKey (ah : AHeap G) (k : Nat) : Prop :=
  ∃ g q, ah[k]? = some (.key g q) ∧ IsGen ah g ∧ ∃ x o gen, aptOf ah q = some (.jac x o gen)

def WFSKey (ah : AHeap G) (sk : Nat) : Prop := ∃ d vk, ah[sk]? = some (.skey d vk) ∧ WFKey ah vk

/-- anything that can be pickled: INFINITY or an existing object -/
def IsObject (ah : AHeap G) : Ref → Prop
  | .inf => True
  | .obj i => ∃ a, ah[i]? = some a

/-- the operations (in the abstract heap `ah`) for which the refinement is proved -/
def Covered (ah : AHeap G) : Op → Prop
  | .x r => IsPoint ah r
  | .y r => IsPoint ah r
  | .order r => IsPoint ah r
  | .scale r => IsPoint ah r
  | .toAffine r => IsPoint ah r
  | .fromAffine r _ => IsFinite ah r
  | .neg r => IsPoint ah r ∧ NotAff ah r
  | .double r => IsPoint ah r ∧ NotAff ah r
  | .mul r _ => IsPoint ah r ∧ NotAff ah r
  | .add r s => IsPoint ah r ∧ IsPoint ah s ∧ NotBothAff ah r s
  | .mulAdd r a s _ => IsPoint ah r ∧ IsPoint ah s ∧ MulAddOK ah a s
  | .eq r s => IsPoint ah r ∧ IsPoint ah s
  | .pickle r => IsObject ah r
  | .copy r => IsPoint ah r
  | .mkKey g r => IsGen ah g ∧ IsPoint ah r
  | .keyPoint k => WFKey ah k
  | .keyPrecompute k _ => WFKey ah k
  | .keySer k _ => WFKey ah k
  | .keyVerify k _ _ _ => WFKey ah k
  | .keyEq k l => WFKey ah k ∧ WFKey ah l
  | .mkSKey g _ => IsGen ah g
  | .skSign sk _ _ => WFSKey ah sk
  | .skVerifyingKey sk => WFSKey ah sk

/-! a Boolean checker for `Covered` (used by the non-vacuity instances) -/

def isPointB (ah : AHeap G) (r : Ref) : Bool := (aptOf ah r).isSome
def isFiniteB (ah : AHeap G) (r : Ref) : Bool := match aptOf ah r with | some .inf => false | some _ => true | none => false
def notAffB (ah : AHeap G) (r : Ref) : Bool := match aptOf ah r with | some (.aff _ _) => false | _ => true
def isGenB (ah : AHeap G) (g : Ref) : Bool := match aptOf ah g with | some (.jac _ (some n) _) => n != 0 | _ => false
def isJacB (ah : AHeap G) (r : Ref) : Bool := match aptOf ah r with | some (.jac _ _ _) => true | _ => false
def wfKeyB (ah : AHeap G) (k : Nat) : Bool := match ah[k]? with | some (.key g q) => isGenB ah g && isJacB ah q | _ => false
def wfSKeyB (ah : AHeap G) (sk : Nat) : Bool := match ah[sk]? with | some (.skey _ vk) => wfKeyB ah vk | _ => false
def isObjectB (ah : AHeap G) : Ref → Bool | .inf => true | .obj i => (ah[i]?).isSome

def coveredB (ah : AHeap G) : Op → Bool
  | .x r | .y r | .order r | .scale r | .toAffine r | .copy r => isPointB ah r
  | .fromAffine r _ => isFiniteB ah r
  | .neg r | .double r | .mul r _ => isPointB ah r && notAffB ah r
  | .add r s => isPointB ah r && isPointB ah s && (notAffB ah r || notAffB ah s)
  | .mulAdd r a s _ => isPointB ah r && isPointB ah s && (a != 0 || notAffB ah s)
  | .eq r s => isPointB ah r && isPointB ah s
  | .pickle r => isObjectB ah r
  | .mkKey g r => isGenB ah g && isPointB ah r
  | .keyPoint k | .keyPrecompute k _ | .keySer k _ | .keyVerify k _ _ _ => wfKeyB ah k
  | .keyEq k l => wfKeyB ah k && wfKeyB ah l
  | .mkSKey g _ => isGenB ah g
  | .skSign sk _ _ | .skVerifyingKey sk => wfSKeyB ah sk

theorem isPointB_sound {ah : AHeap G} {r : Ref} (h : isPointB ah r = true) : IsPoint ah r := by
  unfold isPointB at h; intro hn; rw [hn] at h; cases h

theorem notAffB_sound {ah : AHeap G} {r : Ref} (h : notAffB ah r = true) : NotAff ah r := by
  intro g o hc; unfold notAffB at h; rw [hc] at h; cases h

theorem isFiniteB_sound {ah : AHeap G} {r : Ref} (h : isFiniteB ah r = true) : IsFinite ah r := by
  unfold isFiniteB at h
  cases hv : aptOf ah r with
  | none => rw [hv] at h; cases h
  | some v =>
    refine ⟨v, hv, ?_⟩
    rintro rfl
    rw [hv] at h; cases h

theorem isGenB_sound {ah : AHeap G} {g : Ref} (h : isGenB ah g = true) : IsGen ah g := by
  unfold isGenB at h
  cases hv : aptOf ah g with
  | none => rw [hv] at h; cases h
  | some v =>
    rw [hv] at h
    cases v with
    | inf => cases h
    | aff _ _ => cases h
    | jac x o gen =>
      cases o with
      | none => cases h
      | some n => exact ⟨x, n, gen, hv, by simpa using h⟩

theorem wfKeyB_sound {ah : AHeap G} {k : Nat} (h : wfKeyB ah k = true) : WFKey ah k := by
  unfold wfKeyB at h
  cases hk : ah[k]? with
  | none => rw [hk] at h; cases h
  | some a =>
    rw [hk] at h
    cases a with
    | key g q =>
      simp only [Bool.and_eq_true] at h
      refine ⟨g, q, hk, isGenB_sound h.1, ?_⟩
      have h2 := h.2
      unfold isJacB at h2
      cases hq : aptOf ah q with
      | none => rw [hq] at h2; cases h2
      | some v =>
        rw [hq] at h2
        cases v with
        | jac x o gen => exact ⟨x, o, gen, rfl⟩
        | inf => cases h2
        | aff _ _ => cases h2
    | pj _ _ _ => cases h
    | aff _ _ => cases h
    | infc => cases h
    | skey _ _ => cases h

theorem wfSKeyB_sound {ah : AHeap G} {sk : Nat} (h : wfSKeyB ah sk = true) : WFSKey ah sk := by
  unfold wfSKeyB at h
  cases hk : ah[sk]? with
  | none => rw [hk] at h; cases h
  | some a =>
    rw [hk] at h
    cases a with
    | skey d vk => exact ⟨d, vk, hk, wfKeyB_sound h⟩
    | pj _ _ _ => cases h
    | aff _ _ => cases h
    | infc => cases h
    | key _ _ => cases h

theorem coveredB_sound {ah : AHeap G} {op : Op} (h : coveredB ah op = true) : Covered ah op := by
  cases op <;> simp only [coveredB, Bool.and_eq_true, Bool.or_eq_true] at h <;> simp only [Covered]
  case x => exact isPointB_sound h
  case y => exact isPointB_sound h
  case order => exact isPointB_sound h
  case scale => exact isPointB_sound h
  case toAffine => exact isPointB_sound h
  case copy => exact isPointB_sound h
  case fromAffine => exact isFiniteB_sound h
  case neg => exact ⟨isPointB_sound h.1, notAffB_sound h.2⟩
  case double => exact ⟨isPointB_sound h.1, notAffB_sound h.2⟩
  case mul => exact ⟨isPointB_sound h.1, notAffB_sound h.2⟩
  case add r s =>
    refine ⟨isPointB_sound h.1.1, isPointB_sound h.1.2, ?_⟩
    rintro ⟨⟨g, o, h1⟩, ⟨g', o', h2⟩⟩
    rcases h.2 with h3 | h3
    · exact notAffB_sound h3 g o h1
    · exact notAffB_sound h3 g' o' h2
  case mulAdd r a s b =>
    refine ⟨isPointB_sound h.1.1, isPointB_sound h.1.2, ?_⟩
    intro ha
    rcases h.2 with h3 | h3
    · simp [ha] at h3
    · exact notAffB_sound h3
  case eq => exact ⟨isPointB_sound h.1, isPointB_sound h.2⟩
  case pickle r =>
    cases r with
    | inf => trivial
    | obj i =>
      simp only [isObjectB] at h
      cases hc : ah[i]? with
      | none => rw [hc] at h; cases h
      | some a => exact ⟨a, hc⟩
  case mkKey => exact ⟨isGenB_sound h.1, isPointB_sound h.2⟩
  case keyPoint => exact wfKeyB_sound h
  case keyPrecompute => exact wfKeyB_sound h
  case keySer => exact wfKeyB_sound h
  case keyVerify => exact wfKeyB_sound h
  case keyEq => exact ⟨wfKeyB_sound h.1, wfKeyB_sound h.2⟩
  case mkSKey => exact isGenB_sound h
  case skSign => exact wfSKeyB_sound h
  case skVerifyingKey => exact wfSKeyB_sound h

theorem WFKey.pointOK {ah : AHeap G} {k : Nat} (h : WFKey ah k) : KeyPointOK ah k := by
  obtain ⟨g, q, hk, _, x, o, gen, hq⟩ := h
  intro g' q' hk' g'' o' hc
  rw [hk] at hk'
  cases hk'
  rw [hq] at hc
  cases hc

theorem run_of_outcome {α} {m : M α} {am : AM G α} {f : α → Out} {h : Heap} {ah : AHeap G}
    (ho : Outcome HS HA (fun a b => a = b) (m h) (am ah)) :
    (run m f h).2 = (arun am f ah).2 ∧ Inv HS HA (run m f h).1 (arun am f ah).1 := by
  unfold run arun
  rcases hm : m h with ⟨_ | a, h'⟩ <;> rcases ham : am ah with ⟨_ | b, ah'⟩ <;> simp only [hm, ham, Outcome] at ho ⊢
  · exact ⟨by rw [ho.1], ho.2⟩
  · exact ⟨by rw [ho.1], ho.2⟩

theorem run_of_outcome' {α β} {m : M α} {am : AM G β} {f : α → Out} {f' : β → Out} {h : Heap} {ah : AHeap G}
    (ho : Outcome HS HA (fun _ _ => True) (m h) (am ah)) (hf : ∀ a b, f a = f' b) :
    (run m f h).2 = (arun am f' ah).2 ∧ Inv HS HA (run m f h).1 (arun am f' ah).1 := by
  unfold run arun
  rcases hm : m h with ⟨_ | a, h'⟩ <;> rcases ham : am ah with ⟨_ | b, ah'⟩ <;> simp only [hm, ham, Outcome] at ho ⊢
  · exact ⟨by rw [ho.1], ho.2⟩
  · exact ⟨hf a b, ho.2⟩

/-- **step_refines** — one covered operation: the concrete step yields the abstract output and the heaps stay related -/
theorem step_refines (hyp : RepIndep sp HS HA) {h : Heap} {ah : AHeap G} (hi : Inv HS HA h ah) (op : Op)
    (hc : Covered ah op) :
    (step h op).2 = (astep sp ah op).2 ∧ Inv HS HA (step h op).1 (astep sp ah op).1 := by
  cases op with
  | x r => exact run_of_outcome (readX_sim hyp r h ah hi)
  | y r => exact run_of_outcome (readY_sim hyp r h ah hi)
  | order r => exact run_of_outcome (readOrder_sim r h ah hi)
  | scale r => exact run_of_outcome (scaleObj_sim hyp r h ah hi)
  | toAffine r => exact run_of_outcome (toAffineObj_sim hyp r h ah hi)
  | fromAffine r g => exact run_of_outcome (fromAffineObj_sim hyp r g h ah hi)
  | neg r => exact run_of_outcome (negObj_sim hyp r h ah hi hc.2)
  | double r => exact run_of_outcome (doubleObj_sim hyp r h ah hi hc.2)
  | add r s => exact run_of_outcome (addObj_sim hyp r s h ah hi hc.2.2)
  | mul r k => exact run_of_outcome (mulObj_sim hyp r k h ah hi hc.2)
  | mulAdd r a s b => exact run_of_outcome (mulAddObj_sim hyp r a s b h ah hi hc.2.2)
  | eq r s => exact run_of_outcome (eqObj_sim hyp r s h ah hi)
  | pickle r => exact run_of_outcome (pickleObj_sim r h ah hi)
  | copy r => exact run_of_outcome (copyPoint_sim r h ah hi)
  | mkKey g r => exact run_of_outcome (mkKeyObj_sim hyp g r h ah hi)
  | keyPoint k => exact run_of_outcome (keyPoint_sim k h ah hi)
  | keyPrecompute k l =>
    cases l with
    | true => exact run_of_outcome' (keyPrecompute_lazy_sim hyp k h ah hi) (fun _ _ => rfl)
    | false => exact run_of_outcome' (keyPrecompute_eager_sim hyp k h ah hi) (fun _ _ => rfl)
  | keySer k e => exact run_of_outcome (keySerObj_sim hyp k e h ah hi)
  | keyVerify k e r s => exact run_of_outcome (keyVerifyObj_sim hyp k e r s h ah hi hc.pointOK)
  | keyEq a b => exact run_of_outcome (keyEqObj_sim hyp a b h ah hi)
  | mkSKey g d => exact run_of_outcome (mkSKeyObj_sim hyp g d h ah hi)
  | skSign sk e k => exact run_of_outcome (skSignObj_sim hyp sk e k h ah hi)
  | skVerifyingKey sk => exact run_of_outcome (skVerifyingKey_sim sk h ah hi)

/-- every operation of the history is covered in the abstract state it is applied to -/
def CoveredAll (sp : ASpec G) : AHeap G → List Op → Prop
  | _, [] => True
  | ah, op :: ops => Covered ah op ∧ CoveredAll sp (astep sp ah op).1 ops

/-- **history_independent** — induction over the operation list: whatever was done before (the concrete heap may hold
any hidden states of the values), every output of the history equals the output of the abstract machine, which knows
values only; and the final heaps are related again -/
theorem history_independent (hyp : RepIndep sp HS HA) (ops : List Op) {h : Heap} {ah : AHeap G} (hi : Inv HS HA h ah)
    (hc : CoveredAll sp ah ops) :
    outputs h ops = aoutputs sp ah ops ∧ Inv HS HA (runOps h ops) (arunOps sp ah ops) := by
  induction ops generalizing h ah with
  | nil => exact ⟨rfl, hi⟩
  | cons op ops ih =>
    obtain ⟨h1, h2⟩ := step_refines hyp hi op hc.1
    obtain ⟨h3, h4⟩ := ih h2 hc.2
    exact ⟨by simp only [outputs, aoutputs, h1, h3], h4⟩

/-- non-vacuity of the covered set and of the abstract machine (values = integers, `x` of a value = itself): on a heap
with the generator-flagged value 5 (declared order 13) the history `x; 2*P; x; 1*P; P == 2P; scale; pickle` is covered
and the abstract machine answers 5, new object, 10, the same object, False, the same object, new object -/
example : let sp : ASpec Int := ⟨id, id, ⟨11, 1, 6, none⟩⟩
    let ah : AHeap Int := [.pj 5 (some 13) true]
    let ops : List Op := [.x (.obj 0), .mul (.obj 0) 2, .x (.obj 1), .mul (.obj 0) 1, .eq (.obj 0) (.obj 1),
      .scale (.obj 0), .pickle (.obj 0)]
    CoveredAll sp ah ops ∧
    aoutputs sp ah ops = [.optInt (some 5), .ref (.obj 1), .optInt (some 10), .ref (.obj 0), .bool false,
      .ref (.obj 0), .ref (.obj 2)] := by
  refine ⟨⟨coveredB_sound rfl, coveredB_sound rfl, coveredB_sound rfl, coveredB_sound rfl, coveredB_sound rfl,
    coveredB_sound rfl, coveredB_sound rfl, trivial⟩, by decide⟩

/-- … hence of freshly built objects: two concrete heaps denoting the same values — one with an arbitrary past, one
freshly constructed — answer every history identically (outputs include which pool object is returned) -/
theorem history_independent_fresh (hyp : RepIndep sp HS HA) (ops : List Op) {h₁ h₂ : Heap} {ah : AHeap G}
    (hi₁ : Inv HS HA h₁ ah) (hi₂ : Inv HS HA h₂ ah) (hc : CoveredAll sp ah ops) :
    outputs h₁ ops = outputs h₂ ops := by
  rw [(history_independent hyp ops hi₁ hc).1, (history_independent hyp ops hi₂ hc).1]

/-! ## equality -/

/-- the value a reference denotes in the abstract heap -/
def aden (ah : AHeap G) (r : Ref) : Option G :=
  match aptOf ah r with
  | some .inf => some 0
  | some (.jac g _ _) => some g
  | some (.aff g _) => some g
  | none => none

theorem aden_isPoint {ah : AHeap G} {r : Ref} {g : G} (h : aden ah r = some g) : IsPoint ah r := by
  unfold aden at h
  intro hn
  rw [hn] at h
  cases h

/-- `==` on the abstract machine is equality of values (for operands that occur in a related concrete heap, where a
`PointJacobi`/`Point` object never denotes 0) -/
theorem aeq_value (hyp : RepIndep sp HS HA) {h : Heap} {ah : AHeap G} (hi : Inv HS HA h ah) (r s : Ref) {g g' : G}
    (hr : aden ah r = some g) (hs : aden ah s = some g') :
    (astep sp ah (.eq r s)).2 = .bool (decide (g = g')) := by
  unfold aden at hr hs
  simp only [astep, arun, aeqObj, AM.bind_eq, agetPt_bind_run, agetHeap_bind_run]
  rcases ptOf_rel hi r with ⟨_, h2⟩ | ⟨v, b, _, h2, hv⟩
  · simp [h2] at hr
  rcases ptOf_rel hi s with ⟨_, k2⟩ | ⟨w, c, _, k2, hw⟩
  · simp [k2] at hs
  simp only [h2, k2] at hr hs ⊢
  cases hv with
  | inf =>
    simp only [Option.some.injEq] at hr; subst hr
    cases hw with
    | inf => simp only [Option.some.injEq] at hs; subst hs; simp [AM.pure]
    | @jac Q t' gq hsQ =>
      simp only [Option.some.injEq] at hs; subst hs
      have := hyp.hs_ne hsQ
      by_cases hc : aisInfCopy ah r = true <;> simp [hc, AM.pure, Ne.symm this]
    | @aff A ga ha => simp only [Option.some.injEq] at hs; subst hs; simp [AM.pure]
  | @jac P t gp hsP =>
    simp only [Option.some.injEq] at hr; subst hr
    cases hw with
    | inf =>
      simp only [Option.some.injEq] at hs; subst hs
      have := hyp.hs_ne hsP
      by_cases hc : aisInfCopy ah s = true <;> simp [hc, AM.pure, this]
    | @jac Q t' gq hsQ => simp only [Option.some.injEq] at hs; subst hs; simp [AM.pure]
    | @aff A ga ha => simp only [Option.some.injEq] at hs; subst hs; simp [AM.pure]
  | @aff A ga ha =>
    simp only [Option.some.injEq] at hr; subst hr
    cases hw with
    | inf => simp only [Option.some.injEq] at hs; subst hs; simp [AM.pure]
    | @jac Q t' gq hsQ => simp only [Option.some.injEq] at hs; subst hs; simp [AM.pure]
    | @aff B gb hb => simp only [Option.some.injEq] at hs; subst hs; simp [AM.pure]

/-- **eq_equivalence** — on objects with any past, `P == Q` returns `True` exactly when the denoted values are equal;
consequently it is reflexive, symmetric and transitive -/
theorem eq_equivalence (hyp : RepIndep sp HS HA) {h : Heap} {ah : AHeap G} (hi : Inv HS HA h ah) (r s t : Ref)
    {g g' g'' : G} (hr : aden ah r = some g) (hs : aden ah s = some g') (ht : aden ah t = some g'') :
    ((step h (.eq r s)).2 = .bool true ↔ g = g') ∧
    (step h (.eq r r)).2 = .bool true ∧
    ((step h (.eq r s)).2 = (step h (.eq s r)).2) ∧
    ((step h (.eq r s)).2 = .bool true → (step h (.eq s t)).2 = .bool true → (step h (.eq r t)).2 = .bool true) := by
  have e := fun (a b : Ref) (x y : G) (ha : aden ah a = some x) (hb : aden ah b = some y) =>
    (step_refines hyp hi (.eq a b) ⟨aden_isPoint ha, aden_isPoint hb⟩).1.trans (aeq_value hyp hi a b ha hb)
  rw [e r s g g' hr hs, e r r g g hr hr, e s r g' g hs hr, e s t g' g'' hs ht, e r t g g'' hr ht]
  refine ⟨by simp, by simp, ?_, ?_⟩
  · congr 1; exact decide_eq_decide.mpr ⟨fun h => h.symm, fun h => h.symm⟩
  · simp only [Out.bool.injEq, decide_eq_true_eq]
    intro h1 h2; rw [h1, h2]

/-! ## pickle -/

/-- **pickle_roundtrip_value** — `pickle.loads(pickle.dumps(P))` of a point object yields a *new* object that denotes the
same value with the same declared order and generator flag: the concrete heap afterwards is again related to an abstract
heap in which the new cell is a copy of the old one.  (By `history_independent` every later operation — coordinates,
serialisation, signing, verification through keys built on it — therefore answers as on the original.)  For keys the
object graph is copied the same way (`PointObj.copyKey_sim`). -/
theorem pickle_roundtrip_value (_hyp : RepIndep sp HS HA) {h : Heap} {ah : AHeap G} (hi : Inv HS HA h ah) (i : Nat)
    (a : AObj G) (ha : ah[i]? = some a) (hpt : (∃ g o gen, a = .pj g o gen) ∨ (∃ g o, a = .aff g o)) :
    (step h (.pickle (.obj i))).2 = .ref (.obj h.length) ∧ Inv HS HA (step h (.pickle (.obj i))).1 (ah ++ [a]) := by
  obtain ⟨e1, e2⟩ := run_of_outcome (f := Out.ref) (pickleObj_sim (HS := HS) (HA := HA) (.obj i) h ah hi)
  have habs : arun (apickleObj (G := G) (.obj i)) Out.ref ah = (ah ++ [a], .ref (.obj ah.length)) := by
    unfold arun apickleObj
    simp only [AM.bind_eq, agetHeap_bind_run, ha]
    rcases hpt with ⟨g, o, gen, rfl⟩ | ⟨g, o, rfl⟩ <;>
      simp [acopyPoint, AM.bind_eq, agetHeap_bind_run, ha, AM.alloc]
  show (run (pickleObj (.obj i)) Out.ref h).2 = _ ∧ Inv HS HA (run (pickleObj (.obj i)) Out.ref h).1 _
  rw [habs] at e1 e2
  exact ⟨by rw [e1, hi.length], e2⟩

/-- the abstract result of pickling a key whose generator and point are `PointJacobi` objects: the object graph is copied —
a copy of the generator, a copy of the point (one copy if they are the same object), a key cell referring to the copies -/
theorem apickle_key (ah : AHeap G) (k gi qi : Nat) (Gv Qv : G) (go qo : Option Int) (gg qg : Bool)
    (hk : ah[k]? = some (.key (.obj gi) (.obj qi))) (hg : ah[gi]? = some (.pj Gv go gg)) (hq : ah[qi]? = some (.pj Qv qo qg)) :
    arun (apickleObj (G := G) (.obj k)) Out.ref ah =
      if qi = gi then (ah ++ [.pj Gv go gg, .key (.obj ah.length) (.obj ah.length)], .ref (.obj (ah.length + 1)))
      else (ah ++ [.pj Gv go gg, .pj Qv qo qg, .key (.obj ah.length) (.obj (ah.length + 1))], .ref (.obj (ah.length + 2))) := by
  have hq' : (ah ++ [AObj.pj Gv go gg])[qi]? = some (.pj Qv qo qg) := by
    rw [List.getElem?_append_left (by
      rcases Nat.lt_or_ge qi ah.length with h | h
      · exact h
      · rw [List.getElem?_eq_none h] at hq; cases hq)]
    exact hq
  unfold arun apickleObj
  simp only [AM.bind_eq, agetHeap_bind_run, hk]
  by_cases e : qi = gi
  · subst e
    simp [acopyKey, acopyPoint, AM.bind_eq, AM.bind, agetHeap_bind_run, AM.getHeap, hk, hg, AM.alloc, AM.pure]
  · have e' : ¬ (Ref.obj qi = Ref.obj gi) := fun h => e (Ref.obj.inj h)
    simp [acopyKey, acopyPoint, AM.bind_eq, AM.bind, agetHeap_bind_run, AM.getHeap, hk, hg, hq', AM.alloc, AM.pure, e, e']

/-- **pickle_roundtrip_key** — `pickle.loads(pickle.dumps(vk))` of a `VerifyingKey` yields a *new* key object whose generator
and point are *new* `PointJacobi` objects denoting the same group elements with the same declared orders and flags: the
concrete heap afterwards (whatever hidden state — coordinate triples, tables — the originals had) is again related to the
abstract heap extended by copies of the value cells and a key cell referring to them.  By `history_independent` every later
operation on the restored key (`to_string` in all encodings, `verifies`, `precompute`, `==`) therefore returns what the
abstract machine returns on these values, i.e. what the original returns. -/
theorem pickle_roundtrip_key (_hyp : RepIndep sp HS HA) {h : Heap} {ah : AHeap G} (hi : Inv HS HA h ah) (k gi qi : Nat)
    (Gv Qv : G) (go qo : Option Int) (gg qg : Bool) (hne : qi ≠ gi)
    (hk : ah[k]? = some (.key (.obj gi) (.obj qi))) (hg : ah[gi]? = some (.pj Gv go gg)) (hq : ah[qi]? = some (.pj Qv qo qg)) :
    (step h (.pickle (.obj k))).2 = .ref (.obj (h.length + 2)) ∧
    Inv HS HA (step h (.pickle (.obj k))).1
      (ah ++ [.pj Gv go gg, .pj Qv qo qg, .key (.obj h.length) (.obj (h.length + 1))]) := by
  obtain ⟨e1, e2⟩ := run_of_outcome (f := Out.ref) (pickleObj_sim (HS := HS) (HA := HA) (.obj k) h ah hi)
  have habs := apickle_key ah k gi qi Gv Qv go qo gg qg hk hg hq
  rw [if_neg hne] at habs
  show (run (pickleObj (.obj k)) Out.ref h).2 = _ ∧ Inv HS HA (run (pickleObj (.obj k)) Out.ref h).1 _
  rw [habs] at e1 e2
  exact ⟨by rw [e1, hi.length], by rw [hi.length]; exact e2⟩

/-- the same when the key's point *is* its generator object (d = 1 and the caller passed the generator itself): one copy -/
theorem pickle_roundtrip_key_shared (_hyp : RepIndep sp HS HA) {h : Heap} {ah : AHeap G} (hi : Inv HS HA h ah) (k gi : Nat)
    (Gv : G) (go : Option Int) (gg : Bool)
    (hk : ah[k]? = some (.key (.obj gi) (.obj gi))) (hg : ah[gi]? = some (.pj Gv go gg)) :
    (step h (.pickle (.obj k))).2 = .ref (.obj (h.length + 1)) ∧
    Inv HS HA (step h (.pickle (.obj k))).1 (ah ++ [.pj Gv go gg, .key (.obj h.length) (.obj h.length)]) := by
  obtain ⟨e1, e2⟩ := run_of_outcome (f := Out.ref) (pickleObj_sim (HS := HS) (HA := HA) (.obj k) h ah hi)
  have habs := apickle_key ah k gi gi Gv Gv go go gg gg hk hg hg
  rw [if_pos rfl] at habs
  show (run (pickleObj (.obj k)) Out.ref h).2 = _ ∧ Inv HS HA (run (pickleObj (.obj k)) Out.ref h).1 _
  rw [habs] at e1 e2
  exact ⟨by rw [e1, hi.length], by rw [hi.length]; exact e2⟩

theorem apickle_skey (ah : AHeap G) (sk : Nat) (d : Int) (k gi qi : Nat) (Gv Qv : G) (go qo : Option Int) (gg qg : Bool) (hne : qi ≠ gi)
    (hs : ah[sk]? = some (.skey d k))
    (hk : ah[k]? = some (.key (.obj gi) (.obj qi))) (hg : ah[gi]? = some (.pj Gv go gg)) (hq : ah[qi]? = some (.pj Qv qo qg)) :
    arun (apickleObj (G := G) (.obj sk)) Out.ref ah =
      (ah ++ [.pj Gv go gg, .pj Qv qo qg, .key (.obj ah.length) (.obj (ah.length + 1)), .skey d (ah.length + 2)],
        .ref (.obj (ah.length + 3))) := by
  have hq' : (ah ++ [AObj.pj Gv go gg])[qi]? = some (.pj Qv qo qg) := by
    rw [List.getElem?_append_left (by
      rcases Nat.lt_or_ge qi ah.length with h | h
      · exact h
      · rw [List.getElem?_eq_none h] at hq; cases hq)]
    exact hq
  have e' : ¬ (Ref.obj qi = Ref.obj gi) := fun h => hne (Ref.obj.inj h)
  unfold arun apickleObj
  simp [acopyKey, acopyPoint, AM.bind_eq, AM.bind, agetHeap_bind_run, AM.getHeap, hs, hk, hg, hq', AM.alloc, AM.pure, hne, e']

/-- **pickle_roundtrip_skey** — the same for a `SigningKey`: the restored object has the same secret multiplier and a restored
verifying key as in `pickle_roundtrip_key`; by `history_independent` it therefore makes the same signatures (`sign` reads d,
the generator's value and declared order only) and its verifying key verifies the same signatures. -/
theorem pickle_roundtrip_skey (_hyp : RepIndep sp HS HA) {h : Heap} {ah : AHeap G} (hi : Inv HS HA h ah) (sk : Nat) (d : Int)
    (k gi qi : Nat) (Gv Qv : G) (go qo : Option Int) (gg qg : Bool) (hne : qi ≠ gi) (hs : ah[sk]? = some (.skey d k))
    (hk : ah[k]? = some (.key (.obj gi) (.obj qi))) (hg : ah[gi]? = some (.pj Gv go gg)) (hq : ah[qi]? = some (.pj Qv qo qg)) :
    (step h (.pickle (.obj sk))).2 = .ref (.obj (h.length + 3)) ∧
    Inv HS HA (step h (.pickle (.obj sk))).1
      (ah ++ [.pj Gv go gg, .pj Qv qo qg, .key (.obj h.length) (.obj (h.length + 1)), .skey d (h.length + 2)]) := by
  obtain ⟨e1, e2⟩ := run_of_outcome (f := Out.ref) (pickleObj_sim (HS := HS) (HA := HA) (.obj sk) h ah hi)
  have habs := apickle_skey ah sk d k gi qi Gv Qv go qo gg qg hne hs hk hg hq
  show (run (pickleObj (.obj sk)) Out.ref h).2 = _ ∧ Inv HS HA (run (pickleObj (.obj sk)) Out.ref h).1 _
  rw [habs] at e1 e2
  exact ⟨by rw [e1, hi.length], by rw [hi.length]; exact e2⟩

end C19
