import Props.C05
import Proofs.UtilNum
/-!
# C05 (bytes half) — `secret_bytes` with the `number_to_string` facts discharged

`C05.secret_bytes_of_facts` takes the facts about `number_to_string`/`orderlen`/`beFixed` as a hypothesis structure;
they are theorems of `Proofs/UtilNum.lean` and `Proofs/DerDigits.lean` (C11/C12 owner).  Here they are plugged in, and the
length is also given in the property's own words: ⌈bitlen p / 8⌉.
-/
namespace C05b
open Ecdh

theorem number_to_string_facts : C05.NumberToStringFacts where
  n2s := Util.numberToString_eq
  lt_pow := fun _ _ h => Util.lt_pow_orderlen_of_lt h
  len := Der.beFixed_length
  val := Der.beVal_beFixed_of_lt
  uniq := Util.orderlen_unique

theorem bitLength_zero : bitLength 0 = 0 := by rw [bitLength]
theorem bitLength_pos (n : Nat) (h : 0 < n) : bitLength n = bitLength (n / 2) + 1 := by
  cases n with
  | zero => omega
  | succ n => rw [bitLength]

/-- `2^(bitLength n - 1) ≤ n < 2^(bitLength n)` for `n > 0` (Python's `int.bit_length`) -/
theorem bitLength_spec (n : Nat) : n < 2 ^ bitLength n ∧ (0 < n → 2 ^ (bitLength n - 1) ≤ n) := by
  induction n using bitLength.induct with
  | case1 => simp [bitLength_zero]
  | case2 n ih =>
    rw [bitLength_pos (n + 1) (by omega)]
    obtain ⟨h1, h2⟩ := ih
    refine ⟨by rw [Nat.pow_succ]; omega, fun _ => ?_⟩
    simp only [Nat.add_sub_cancel]
    by_cases hz : (n + 1) / 2 = 0
    · rw [hz, bitLength_zero]; simp
    · have h3 := h2 (by omega)
      have hb : 1 ≤ bitLength ((n + 1) / 2) := by rw [bitLength_pos _ (by omega)]; omega
      have : 2 ^ bitLength ((n + 1) / 2) = 2 ^ (bitLength ((n + 1) / 2) - 1) * 2 := by
        rw [← Nat.pow_succ]; congr 1; omega
      omega

/-- the byte length used for the secret is ⌈bitlen p / 8⌉ -/
theorem orderlen_eq_ceil_bitlen (p : Nat) (hp : 1 ≤ p) : Util.orderlen p = (bitLength p + 7) / 8 := by
  obtain ⟨h1, h2⟩ := bitLength_spec p
  have h2 := h2 (by omega)
  have hb : 1 ≤ bitLength p := by rw [bitLength_pos p (by omega)]; omega
  apply Util.orderlen_unique p _ hp
  · have : 256 ^ ((bitLength p + 7) / 8) = 2 ^ (8 * ((bitLength p + 7) / 8)) := by
      rw [Nat.pow_mul]
    rw [this]
    exact Nat.lt_of_lt_of_le h1 (Nat.pow_le_pow_right (by decide) (by omega))
  · have : 256 ^ ((bitLength p + 7) / 8 - 1) = 2 ^ (8 * ((bitLength p + 7) / 8 - 1)) := by
      rw [Nat.pow_mul]
    rw [this]
    exact Nat.le_trans (Nat.pow_le_pow_right (by decide) (by omega)) h2

variable {Crv Pt Ent : Type} [DecidableEq Crv]

/-- **secret_bytes** — whenever `generate_sharedsecret()` returns `v` with `0 ≤ v < p` (p = the field prime of the agreed
curve), `generate_sharedsecret_bytes()` returns exactly the big-endian bytes of `v` left-padded with zeros to
`L = ⌈bitlen p / 8⌉` bytes; the length does not depend on `v`, and `v` is recovered from the bytes. -/
theorem secret_bytes (env : Env Crv Pt Ent) (s : State Crv Pt) (v : Int) (sk : SKey Crv Pt) (hs : s.priv = some sk)
    (hv : getSharedSecret env s = .ok v) (h0 : 0 ≤ v) (hp : v < (env.fieldP sk.curve : Int)) :
    let p := env.fieldP sk.curve
    let L := (bitLength p + 7) / 8
    step env s .secretBytes = (s, .ok (.bytes (beFixed L v.toNat))) ∧
    (beFixed L v.toNat).length = L ∧ beVal (beFixed L v.toNat) = v.toNat := by
  have hp1 : 1 ≤ env.fieldP sk.curve := by omega
  have key := C05.secret_bytes_of_facts number_to_string_facts env s v sk hs hv h0 hp
  simp only [orderlen_eq_ceil_bitlen _ hp1] at key
  exact ⟨key.1, key.2.1, key.2.2.1⟩

/-- non-vacuity: the toy environment of `Props/C05.lean` (field prime 1009, two bytes): the secret 6 is `00 06` -/
example : (step C05.Toy.env (run C05.Toy.env C05.Toy.fresh [.loadPriv C05.Toy.skA, .loadPub C05.Toy.skB.vk]) .secretBytes).2
    = .ok (.bytes [0, 6]) ∧ (bitLength 1009 + 7) / 8 = 2 := by
  have hL : (bitLength 1009 + 7) / 8 = 2 := by
    rw [← orderlen_eq_ceil_bitlen 1009 (by decide)]
    exact Util.orderlen_unique 1009 2 (by decide) (by decide) (by decide)
  have key := secret_bytes C05.Toy.env (run C05.Toy.env C05.Toy.fresh [.loadPriv C05.Toy.skA, .loadPub C05.Toy.skB.vk])
    6 C05.Toy.skA rfl rfl (by decide) (by decide)
  simp only [show C05.Toy.env.fieldP C05.Toy.skA.curve = 1009 from rfl, hL] at key
  refine ⟨?_, hL⟩
  rw [key.1]
  rfl

end C05b
