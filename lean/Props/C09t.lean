import Proofs.KeysTie3
/-!
# C09t — translator tie of `Model/Keys.lean` to the text of keys.py / curves.py / der.py (PEM) / ecdsa.point_is_valid

`Gen.KeysT.*` (Generated/KeysSlices.lean) is regenerated from the working tree on every run by
`harness/translate/gen_keys.py`: every statement of every function the model transcribes is pinned textually
(signature and defaults, byte-level work, DER calls, exception classes, delegation and its arguments — `Unsupported`
on any other shape), and the integer / boolean decisions inside them are cut out as definitions.  The theorems below
restate each model function with those generated decisions in place of its own tests: the length dispatch of
`from_string` (`== vkl`, `== vkl + 1`, `== vkl // 2 + 1`), the halves and asserts of the raw encoding, `alpha`, the
parity test `is_even == bool(beta & 1)` with `y = p - beta`, the hybrid consistency test, the encoders' parity tests,
`len(point_str) == verifying_key_length` of `from_der`, `len(string) != baselen`, `not 1 <= secexp < n`,
`version not in (0, 1)`, `version != 1`, `tag != 0`, the left padding of short private keys, the range tests of
`Public_key.__init__` / `point_is_valid`, the derived lengths of `Curve.__init__`, and the 64-character PEM lines.
(`Gen.Ecdsa.pubkey_*`, `secexp_bad` are the slices of gen_ecdsa.py for `Public_key.__init__` / `from_secret_exponent`.)
-/
namespace C09t
open Keys Gen.KeysT KeysTie

theorem from_string_dispatch_is_source (E : Ext) (c : Curve) (s : Bytes) (validate : Bool) :
    decodePoint E c s validate =
      if from_string_raw s.length c.vkLen then
        (fromRawEncoding c s).map fun (x, y) => ((x : Int), (y : Int))
      else if from_string_prefixed s.length c.vkLen then
        if s.take 1 = [0x06] ∨ s.take 1 = [0x07] then
          (fromHybrid c s validate).map fun (x, y) => ((x : Int), (y : Int))
        else if s.take 1 = [0x04] then
          (fromRawEncoding c (s.drop 1)).map fun (x, y) => ((x : Int), (y : Int))
        else .error .malformedPoint
      else if from_string_compressed s.length c.vkLen then fromCompressed E c s
      else .error .malformedPoint := decodePoint_source E c s validate

/-- non-vacuity: on NIST192p (vkl = 48) the three accepted lengths are 48, 49, 25 -/
example : from_string_raw 48 48 = true ∧ from_string_prefixed 49 48 = true ∧ from_string_compressed 25 48 = true ∧
    from_string_compressed 24 48 = false := by decide

theorem raw_encoding_is_source (c : Curve) (s : Bytes) :
    fromRawEncoding c s =
      if ¬ raw_len_ok s.length c.vkLen then .error .assertionError
      else
        let xs := s.take (raw_split_x c.vkLen).toNat
        let ys := s.drop (raw_split_y c.vkLen).toNat
        if ¬ raw_xs_ok xs.length c.vkLen then .error .assertionError
        else if ¬ raw_ys_ok ys.length c.vkLen then .error .assertionError
        else (Util.stringToNumber xs).bind fun x => (Util.stringToNumber ys).bind fun y => .ok (x, y) :=
  fromRawEncoding_source c s

theorem compressed_is_source (E : Ext) (c : Curve) (s : Bytes) (x : Nat) :
    alphaOf c x = compressed_alpha x c.p c.a c.b ∧
    fromCompressed E c s =
      if s.take 1 ≠ [0x02] ∧ s.take 1 ≠ [0x03] then .error .malformedPoint
      else
        let isEven : Bool := s.take 1 = [0x02]
        match Util.stringToNumber (s.drop 1) with
        | .error e => .error e
        | .ok x =>
          if c.p = 0 then .error .valueError
          else
          match E.sqrtModP (compressed_alpha x c.p c.a c.b) c.p with
          | .error .squareRoot => .error .malformedPoint
          | .error e => .error e
          | .ok beta =>
            let y : Int := if isEven = compressed_beta_odd beta then compressed_y_flip c.p beta else beta
            .ok ((x : Int), y) := ⟨rfl, fromCompressed_source E c s⟩

/-- non-vacuity: y² = x³ − 3x + b at x = 2 on a toy field, and the flip `p − β` -/
example : compressed_alpha 2 23 (-3) 5 = 7 ∧ compressed_beta_odd 7 = true ∧ compressed_y_flip 23 7 = 16 := by decide

theorem hybrid_is_source (c : Curve) (s : Bytes) (validate : Bool) :
    fromHybrid c s validate =
      if s.take 1 ≠ [0x06] ∧ s.take 1 ≠ [0x07] then .error .assertionError
      else
        match fromRawEncoding c (s.drop 1) with
        | .error e => .error e
        | .ok (x, y) =>
          if validate ∧ ((hybrid_y_odd y ∧ s.take 1 ≠ [0x07]) ∨ (¬ hybrid_y_odd2 y ∧ s.take 1 ≠ [0x06])) then .error .malformedPoint
          else .ok (x, y) := fromHybrid_source c s validate

theorem encoders_are_source (k : VK) :
    (k.compressedEncode = (Util.numberToString k.x k.curve.p).bind fun xs =>
      if compressed_encode_y_odd k.y then .ok (0x03 :: xs) else .ok (0x02 :: xs)) ∧
    (k.hybridEncode = k.rawEncode.bind fun raw =>
      if hybrid_encode_y_odd k.y then .ok (0x07 :: raw) else .ok (0x06 :: raw)) := encoders_source k

theorem vk_from_der_is_source (E : Ext) (str : Bytes) :
    VK.fromDer E str = (do
      let (s1, empty) ← Der.removeSequence str
      if empty ≠ [] then .error .unexpectedDER
      else do
        let (s2, pointStrBitstring) ← Der.removeSequence s1
        let (oidPk, rest) ← Der.removeObject s2
        let (oidCurve, empty) ← Der.removeObject rest
        if empty ≠ [] then .error .unexpectedDER
        else if oidPk ≠ Gen.oid_ecPublicKey then .error .unexpectedDER
        else do
          let curve ← findCurve oidCurve
          let (pointStr, _, empty) ← Der.removeBitstring pointStrBitstring (.some 0)
          if empty ≠ [] then .error .unexpectedDER
          else if vk_der_raw_len pointStr.length curve.vkLen then .error .unexpectedDER
          else VK.fromString E curve pointStr true) := vkFromDer_source E str

theorem public_key_init_is_source (E : Ext) (c : Curve) (x y : Int) (validate : Bool) :
    fromPublicPoint E c x y validate =
      if Gen.Ecdsa.pubkey_x_out x c.p ∨ Gen.Ecdsa.pubkey_y_out y c.p then .error .malformedPoint
      else if validate ∧ ¬ onCurve c x y then .error .malformedPoint
      else if Gen.Ecdsa.pubkey_no_order c.n then .error .malformedPoint
      else if validate ∧ c.h ≠ 1 ∧ ¬ E.subgroupOk c x.toNat y.toNat then .error .malformedPoint
      else .ok ⟨c, x.toNat, y.toNat⟩ := fromPublicPoint_source E c x y validate

theorem point_is_valid_is_source (E : Ext) (c : Curve) (x y : Int) :
    pointIsValid E c x y =
      if piv_x_out x c.p ∨ piv_y_out y c.p then false
      else if ¬ onCurve c x y then false
      else if c.h ≠ 1 ∧ ¬ E.subgroupOk c x.toNat y.toNat then false
      else true := pointIsValid_source E c x y

theorem sk_from_string_is_source (E : Ext) (c : Curve) (s : Bytes) :
    SK.fromString E c s =
      if sk_len_bad s.length c.baselen then .error .malformedPoint
      else
        match Util.stringToNumber s with
        | .error e => .error e
        | .ok secexp => SK.fromSecretExponent E c secexp := skFromString_source E c s

theorem sk_from_secret_exponent_is_source (E : Ext) (c : Curve) (secexp : Int) :
    SK.fromSecretExponent E c secexp =
      if Gen.Ecdsa.secexp_bad secexp c.n then .error .malformedPoint
      else
        match E.pubPoint c secexp.toNat with
        | none => .error .malformedPoint
        | some (x, y) =>
          match fromPublicPoint E c x y false with
          | .error e => .error e
          | .ok vk => .ok ⟨c, secexp.toNat, vk⟩ := skFromSecretExponent_source E c secexp

theorem sk_from_der_is_source (E : Ext) (str : Bytes) (version : Nat) (s : Bytes) (curve : Option Curve) :
    (SK.fromDer E str = (do
      let (s, empty) ← Der.removeSequence str
      if empty ≠ [] then .error .unexpectedDER
      else do
        let (version, s) ← Der.removeInteger s
        if isSequence s then
          if sk_der_pkcs8_version_bad version then .error .unexpectedDER
          else do
            let (sequence, s) ← Der.removeSequence s
            let (algorithmOid, algorithmIdentifier) ← Der.removeObject sequence
            let (curveOid, empty) ← Der.removeObject algorithmIdentifier
            let curve ← findCurve curveOid
            if algorithmOid ≠ Gen.oid_ecPublicKey ∧ algorithmOid ≠ Gen.oid_ecDH ∧ algorithmOid ≠ Gen.oid_ecMQV then
              .error .unexpectedDER
            else if empty ≠ [] then .error .unexpectedDER
            else do
              let (s, _) ← Der.removeOctetString s
              let (s, empty) ← Der.removeSequence s
              if empty ≠ [] then .error .unexpectedDER
              else do
                let (version, s) ← Der.removeInteger s
                SK.ecPrivateKeyTail E version s (some curve)
        else SK.ecPrivateKeyTail E version s none)) ∧
    (SK.ecPrivateKeyTail E version s curve =
      (if sk_der_version_bad version then .error .unexpectedDER
      else do
        let (privkeyStr, s) ← Der.removeOctetString s
        let curve ← (match curve with
          | some c => (.ok c : Res Curve)
          | none => do
            let (tag, curveOidStr, _) ← Der.removeConstructed s
            if sk_der_tag_bad tag then .error .unexpectedDER
            else do
              let (curveOid, empty) ← Der.removeObject curveOidStr
              if empty ≠ [] then .error .unexpectedDER
              else findCurve curveOid)
        let privkeyStr :=
          if sk_der_short privkeyStr.length curve.baselen then List.replicate (sk_der_pad privkeyStr.length curve.baselen).toNat 0 ++ privkeyStr
          else privkeyStr
        SK.fromString E curve privkeyStr)) :=
  ⟨skFromDer_source E str, ecPrivateKeyTail_source E version s curve⟩

/-- non-vacuity: PKCS#8 accepts versions 0 and 1 only, ECPrivateKey version 1 only; a 23-byte key on a 24-byte curve gets one zero -/
example : sk_der_pkcs8_version_bad 0 = false ∧ sk_der_pkcs8_version_bad 1 = false ∧ sk_der_pkcs8_version_bad 2 = true ∧
    sk_der_version_bad 0 = true ∧ sk_der_version_bad 1 = false ∧ sk_der_short 23 24 = true ∧ sk_der_pad 23 24 = 1 := by decide

theorem curve_lengths_are_source (c : Curve) :
    (c.baselen : Int) = curve_baselen c.n orderlenInt ∧
    (c.vkLen : Int) = curve_vkl c.p orderlenInt ∧
    ((2 * c.baselen : Nat) : Int) = curve_siglen c.baselen := curve_lengths_source c

theorem pem_line_length_is_source (s : Bytes) :
    chunk64 s = if s = [] then [] else s.take pem_line_len.toNat ++ [10] ++ chunk64 (s.drop pem_line_step.toNat) :=
  chunk64_source s

end C09t
