import Proofs.EcdsaCodec
import Proofs.NamedCurves
import Proofs.EcdsaInstToyRec
import Proofs.EcdsaInstNamed
import Proofs.EcdsaInstNt
import Proofs.EcdsaInstRecover
import Proofs.EcdsaRecover2
import Proofs.EcdsaToy2
/-!
# C14 — public-key recovery returns the signer's key and only keys that verify

Model: `Ecdsa.recoverPublicKeys` = `Signature.recover_public_keys` (with the repairs F9: a candidate at infinity is
skipped, F10: the second candidate is built with `-y % p`), `Ecdsa.fromPublicKeyRecoveryWithDigest`,
`Ecdsa.fromPublicKeyRecovery`.  Point layer: any `ops` with `RecoverOpsCorrect` (Proofs/EcdsaRecoverBase.lean);
square root: any `sqrt` with `SqrtSpec sqrt p` (returns a root whenever one exists — C15).
`Honest ops G xc d e k r s x₀`: `(r, s) = Private_key.sign(e, k)` for the secret `d`, `n ∤ d`, `n ∤ k`, and the nonce
point `k • G` has abscissa `x₀ < n` (the property's hypothesis; it fails only for a fraction ≈ (p−n)/p of nonces).
The cofactor is arbitrary here (with cofactor ≠ 1 the extra `n * Q == INFINITY` check of `Public_key` passes because
every candidate lies in ⟨G⟩).
-/
namespace C14
open Ecdsa

variable {P : Type} {𝔾 : Type} [AddCommGroup 𝔾]
variable {ops : PointOps P} {G : 𝔾} {den : P → 𝔾} {xc : 𝔾 → Option ℤ} {valid : P → Prop}

/-- the list contains the signer's key `Q = d • G` -/
theorem recovered_contains_Q (C : RecoverOpsCorrect ops G den xc valid) (sqrt : ℤ → ℤ → Res ℤ) (hsq : SqrtSpec sqrt ops.p)
    (d e k r s x0 : ℤ) (H : Honest ops G xc d e k r s x0) :
    ∃ l, recoverPublicKeys ops sqrt r s e = .ok l ∧ ∃ A ∈ l, valid A ∧ den A = d • G :=
  recover_contains C sqrt hsq d e k r s x0 H

/-- at most two entries — for every input whatsoever on which recovery returns -/
theorem recovered_length_le_two (ops : PointOps P) (sqrt : ℤ → ℤ → Res ℤ) (r s e : ℤ) (l : List P)
    (h : recoverPublicKeys ops sqrt r s e = .ok l) : l.length ≤ 2 :=
  recover_length_le_two ops sqrt r s e l h

/-- every returned key is a valid non-zero point of ⟨G⟩ and verifies the signature -/
theorem recovered_all_verify (C : RecoverOpsCorrect ops G den xc valid) (sqrt : ℤ → ℤ → Res ℤ) (hsq : SqrtSpec sqrt ops.p)
    (d e k r s x0 : ℤ) (H : Honest ops G xc d e k r s x0) (l : List P)
    (hl : recoverPublicKeys ops sqrt r s e = .ok l) :
    ∀ A ∈ l, valid A ∧ den A ≠ 0 ∧ ops.order • den A = 0 ∧ verifies ops A e r s = .ok true :=
  recover_all_verify C sqrt hsq d e k r s x0 H l hl

/-- the shape of the answer, including the F9 case: the two candidates `r⁻¹(s•(±k•G) − e•G)`, minus those at infinity -/
theorem recovered_structure (C : RecoverOpsCorrect ops G den xc valid) (sqrt : ℤ → ℤ → Res ℤ) (hsq : SqrtSpec sqrt ops.p)
    (d e k r s x0 : ℤ) (H : Honest ops G xc d e k r s x0) :
    ∃ Q1 Q2 : P, ∃ T : 𝔾, (T = k • G ∨ T = -(k • G)) ∧ valid Q1 ∧ valid Q2 ∧
      den Q1 = invZ ops.order r • (s • T + ((-e) % ops.order) • G) ∧
      den Q2 = invZ ops.order r • (s • (-T) + ((-e) % ops.order) • G) ∧
      recoverPublicKeys ops sqrt r s e = .ok ([Q1, Q2].filter (fun Q => !(ops.isInfinity Q))) :=
  recover_structure C sqrt hsq d e k r s x0 H

/-- the wrapper `from_public_key_recovery_with_digest` (any decoder that reads the honest pair back, either
truncation flag): same three claims, verification through `verify_digest` with the same decoder and flag -/
theorem recovery_with_digest {σ : Type} (C : RecoverOpsCorrect ops G den xc valid) (sqrt : ℤ → ℤ → Res ℤ)
    (hsq : SqrtSpec sqrt ops.p) (d e k r s x0 : ℤ) (H : Honest ops G xc d e k r s x0)
    (dec : σ → ℕ → Res (ℕ × ℕ)) (sig : σ) (dg : Bytes) (allow : Bool)
    (hdec : dec sig ops.order.toNat = .ok (r.toNat, s.toNat))
    (htr : truncateAndConvertDigest dg (baselen ops) ops.order allow = .ok e) :
    ∃ l, fromPublicKeyRecoveryWithDigest ops sqrt dec sig dg allow = .ok l ∧ l.length ≤ 2 ∧
      (∃ A ∈ l, valid A ∧ den A = d • G) ∧ ∀ A ∈ l, verifyDigest ops A dec sig dg allow = .ok true :=
  recovery_wrapper C sqrt hsq d e k r s x0 H dec sig dg allow hdec htr

/-- the hashing wrapper `from_public_key_recovery`, any hash function -/
theorem recovery_with_data {σ : Type} (C : RecoverOpsCorrect ops G den xc valid) (sqrt : ℤ → ℤ → Res ℤ)
    (hsq : SqrtSpec sqrt ops.p) (d e k r s x0 : ℤ) (H : Honest ops G xc d e k r s x0)
    (Hash : Bytes → Bytes) (dec : σ → ℕ → Res (ℕ × ℕ)) (sig : σ) (data : Bytes) (allow : Bool)
    (hdec : dec sig ops.order.toNat = .ok (r.toNat, s.toNat))
    (htr : truncateAndConvertDigest (Hash data) (baselen ops) ops.order allow = .ok e) :
    ∃ l, fromPublicKeyRecovery ops sqrt Hash dec sig data allow = .ok l ∧ l.length ≤ 2 ∧
      (∃ A ∈ l, valid A ∧ den A = d • G) ∧ ∀ A ∈ l, verify ops A Hash dec sig data allow = .ok true :=
  recovery_wrapper C sqrt hsq d e k r s x0 H dec sig (Hash data) allow hdec htr

/-- the two concrete decoders of the wrappers' signature (`sigdecode_string`, the default, and `sigdecode_der`): the
hypothesis "the decoder reads the honest pair back" of `recovery_with_digest` is discharged by C12 — the signature is
the one `sigencode_string` / `sigencode_der` emits for the honest `(r, s)` (`2 ≤ n ≤ 256^126` for DER) -/
theorem recovery_with_digest_string_and_der (C : RecoverOpsCorrect ops G den xc valid) (sqrt : ℤ → ℤ → Res ℤ)
    (hsq : SqrtSpec sqrt ops.p) (hbig : ops.order ≤ 256 ^ 126) (d e k r s x0 : ℤ) (H : Honest ops G xc d e k r s x0)
    (dg : Bytes) (allow : Bool) (htr : truncateAndConvertDigest dg (baselen ops) ops.order allow = .ok e) :
    (∀ sig, encString r s ops.order = .ok sig →
      ∃ l, fromPublicKeyRecoveryWithDigest ops sqrt Util.sigdecodeString sig dg allow = .ok l ∧ l.length ≤ 2 ∧
        (∃ A ∈ l, valid A ∧ den A = d • G) ∧ ∀ A ∈ l, verifyDigest ops A Util.sigdecodeString sig dg allow = .ok true)
    ∧ (∀ sig, encDer r s ops.order = .ok sig →
      ∃ l, fromPublicKeyRecoveryWithDigest ops sqrt Util.sigdecodeDer sig dg allow = .ok l ∧ l.length ≤ 2 ∧
        (∃ A ∈ l, valid A ∧ den A = d • G) ∧ ∀ A ∈ l, verifyDigest ops A Util.sigdecodeDer sig dg allow = .ok true) := by
  obtain ⟨r1, r2, s1, s2⟩ := sign_range C.toPointOpsCorrect d e k r s H.hk H.hsig
  have hn := C.two_le
  exact ⟨fun sig h => recovery_with_digest C sqrt hsq d e k r s x0 H _ sig dg allow
      (string_roundtrip _ r s hn (by omega) r2 (by omega) s2 sig h) htr,
    fun sig h => recovery_with_digest C sqrt hsq d e k r s x0 H _ sig dg allow
      (der_roundtrip _ r s hn hbig (by omega) r2 (by omega) s2 sig h) htr⟩

/-! ### non-vacuity: y² = x³ + 2x + 1 over 𝔽₅, order 7, G = (0,1); d = 3, k = 2 (k•G = (1,3), x₀ = 1 < 7) -/

example : RecoverOpsCorrect Toy2.ops (1 : ZMod 7) id Toy2.xc (fun _ => True) := Toy2.correct
example : SqrtSpec Toy2.sqrt Toy2.ops.p := Toy2.sqrt_spec

/-- an honest signature: e = 5 gives (r, s) = (1, 4) -/
example : Honest Toy2.ops (1 : ZMod 7) Toy2.xc 3 5 2 1 4 1 where
  hk := by decide
  hd := by decide
  hsig := by decide +kernel
  hx0 := by decide +kernel
  hlt := by decide

/-- recovery returns two keys, the signer's (3 = d) among them; in the F9 situation (e = 2 ≡ −r·d/2: the other
candidate is the point at infinity) it returns the signer's key alone -/
example : recoverPublicKeys Toy2.ops Toy2.sqrt 1 4 5 = .ok [1, 3]
    ∧ verifies Toy2.ops 1 5 1 4 = .ok true ∧ verifies Toy2.ops 3 5 1 4 = .ok true
    ∧ sign Toy2.ops 3 2 2 = .ok (1, 6) ∧ recoverPublicKeys Toy2.ops Toy2.sqrt 1 6 2 = .ok [3] := by
  decide +kernel

/-! ### the same, for the model of the real point classes and of `square_root_mod_prime`
`OnCurve.MatchesRec c C` = `OnCurve.Matches c C` (see C02) + cofactor 1 (every reduced pair accepted by `contains_point`
is a point of ⟨G⟩: the SEC 2 fact #E(𝔽_p) = n).  `RecoverOpsCorrect` is *proved* for `OnCurve.ops c`
(Proofs/EcdsaInstRecover.lean) and `SqrtSpec` for `NT.squareRootModPrime` (from `C15.sqrt_spec`, every odd prime —
including the Cipolla branch p ≡ 1 mod 8 used by P-224). -/
section OnCurve
open GroupInterface
variable {p : ℕ} [hp : Fact p.Prime] {a b : ℤ}

/-- **recovery on the real point model, any cofactor** — only `OnCurve.Matches` is needed (NOT #E(𝔽_p) = n): for an
honest signature the two points the code constructs from `r` are `±k•G`, members of ⟨G⟩ whatever the cofactor
(`OnCurve.lift_point`), and the extra `n * Q == INFINITY` test of `Public_key` passes because every candidate lies in
⟨G⟩.  Square root: nt's model of `square_root_mod_prime` (every odd prime, including the Cipolla branch used by P-224). -/
theorem recovery_honest (c : Affine.Crv) (C : Ctx p a b) (M : OnCurve.Matches c C)
    (d e k r s x0 : ℤ) (H : Honest (OnCurve.ops c) C.G OnCurve.xcOf d e k r s x0) :
    ∃ l, recoverPublicKeys (OnCurve.ops c) NT.squareRootModPrime r s e = .ok l ∧ l.length ≤ 2 ∧
      (∃ A ∈ l, OnCurve.Valid C A ∧ OnCurve.den C A = d • C.G) ∧
      ∀ A ∈ l, verifies (OnCurve.ops c) A e r s = .ok true := by
  have hsq : SqrtSpec NT.squareRootModPrime (OnCurve.ops c).p := by
    have : (OnCurve.ops c).p = (p : ℤ) := M.cp
    rw [this]; exact sqrtSpec_nt p hp.out M.hp2
  have RC := OnCurve.recoverOpsCorrect c C M
  obtain ⟨l, hl, hc⟩ := recovered_contains_Q RC _ hsq d e k r s x0 H
  exact ⟨l, hl, recovered_length_le_two _ _ r s e l hl, hc,
    fun A hA => (recovered_all_verify RC _ hsq d e k r s x0 H l hl A hA).2.2.2⟩

/-- the earlier formulation (hypothesis bundle with cofactor 1), kept for its users; the cofactor part is not used -/
theorem recovery_on_curve (c : Affine.Crv) (C : Ctx p a b) (M : OnCurve.MatchesRec c C)
    (d e k r s x0 : ℤ) (H : Honest (OnCurve.ops c) C.G OnCurve.xcOf d e k r s x0) :
    ∃ l, recoverPublicKeys (OnCurve.ops c) NT.squareRootModPrime r s e = .ok l ∧ l.length ≤ 2 ∧
      (∃ A ∈ l, OnCurve.Valid C A ∧ OnCurve.den C A = d • C.G) ∧
      ∀ A ∈ l, verifies (OnCurve.ops c) A e r s = .ok true :=
  recovery_honest c C M.toMatches d e k r s x0 H

/-! #### a closed instance on the real point model (kernel-evaluated; no hypothesis left)
Toy curve y² = x³ + x + 6 over 𝔽₁₁, G = (2,7), n = 13 (driver token `11,1,6,2,7,13,1,j`): secret d = 3 (Q = 3G = (8,3)),
e = 5, nonce k = 2 (2G = (5,2), x₀ = 5 < 13), signature (r, s) = (5, 10).  `Honest` holds, so `recovery_honest`
applies; and the model's answer, evaluated: two `PointJacobi` objects whose `x()`, `y()` are (8,3) = Q and (3,5). -/
example : ∃ C : Ctx 11 1 6, OnCurve.Matches OnCurve.toyCrv C ∧
    Honest (OnCurve.ops OnCurve.toyCrv) C.G OnCurve.xcOf 3 5 2 5 10 5 := OnCurve.toy_honest

set_option maxRecDepth 4000 in
example : sign (OnCurve.ops OnCurve.toyCrv) 3 5 2 = .ok (5, 10)
    ∧ (recoverPublicKeys (OnCurve.ops OnCurve.toyCrv) NT.squareRootModPrime 5 10 5).map
        (fun l => l.map (fun A => ((OnCurve.ops OnCurve.toyCrv).xOf A, (OnCurve.ops OnCurve.toyCrv).yOf A)))
      = .ok [(.ok 8, .ok 3), (.ok 3, .ok 5)]
    ∧ fromSecretExponent (OnCurve.ops OnCurve.toyCrv) 3 = .ok (.jac ⟨OnCurve.crvOf OnCurve.toyCrv, 8, 3, 1, some 13, false⟩) := by
  decide +kernel

end OnCurve

/-! ### the named curves
For EVERY row of the generated curve table (all 17 named curves, the cofactor-4 curve SECP112r2 included) the only
hypotheses are **p prime, n prime** — NOT #E(𝔽_p) = n: for an honest signature the constructed points are ±k•G
(`recovery_honest`), and `n • G = 0`, G on the curve, reduced coordinates are computed by the kernel on the extracted row
(`Named.checked_of_mem`, Proofs/NamedCurves.lean). -/
section Named
open GroupInterface

theorem recovery_named (row : Gen.CurveRow) (hrow : row ∈ Gen.curveTable) [Fact row.p.Prime] (hnp : row.n.Prime) :
    ∀ d e k r s x0 : ℤ,
      Honest (OnCurve.ops (Named.crvOf row)) (Named.baseCtx row (Named.checked_of_mem hrow)).G OnCurve.xcOf d e k r s x0 →
      ∃ l, recoverPublicKeys (OnCurve.ops (Named.crvOf row)) NT.squareRootModPrime r s e = .ok l ∧ l.length ≤ 2 ∧
        (∃ A ∈ l, OnCurve.Valid (Named.baseCtx row (Named.checked_of_mem hrow)) A ∧
          OnCurve.den (Named.baseCtx row (Named.checked_of_mem hrow)) A = d • (Named.baseCtx row (Named.checked_of_mem hrow)).G) ∧
        ∀ A ∈ l, verifies (OnCurve.ops (Named.crvOf row)) A e r s = .ok true :=
  fun d e k r s x0 H => recovery_honest _ _ (Named.matches_row (Named.checked_of_mem hrow) hnp) d e k r s x0 H

end Named

/-- the ECDSA model's `inverse_mod` (hand-written extended Euclid, proved to be the `ZMod` inverse) returns exactly
what nt's model of `numbertheory.inverse_mod` — regenerated from the source text (C15) — returns, for every `a` and
every positive modulus -/
theorem inverse_mod_model_agrees (a m : ℤ) (hm : 1 ≤ m) : inverseMod a m = NT.inverseMod a m :=
  inverseMod_eq_nt a m hm

end C14
