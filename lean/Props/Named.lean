import Proofs.NamedCurves
import Props.C01
import Props.C02
import Props.C03
import Props.C13b
import Props.C14
/-!
# Named — the ECDSA theorems instantiated on the 17 named curves of the generated table

`Gen.curveTable` is rewritten from `curves.py` / `ecdsa.py` on every run.  For every row `r` the kernel evaluates
(`Named.all_rows_checked`, `Proofs/NamedChecks.lean`): p, n odd, base point reduced and on the curve, discriminant ≠ 0 and
**`n • (Gx, Gy) = ∞`** (certified reference multiplication, proved equal to Mathlib's `•` with no 2-torsion hypothesis).
So the order of every base point is CHECKED, not assumed.  Remaining hypotheses of the statements below, all explicit:
`Nat.Prime r.p` (as the instance `Fact`, needed for `ZMod p` to be a field), `Nat.Prime r.n`, and — only for recovery —
the SEC 2 / FIPS fact `#E(𝔽_p) = n` (cofactor 1).  Which of the 34 primality hypotheses are themselves discharged by
certificates: `Props/NamedPrimes.lean`.

The model objects are `Ecdsa.OnCurve.ops (Named.crvOf r)` (= `Model/Curve.lean`, `ellipticcurve.py` as written, driven
against the real code by the correspondence runs of C01–C03/C06/C07), the group is Mathlib's
`WeierstrassCurve.Affine.Point` of y² = x³ + ax + b over `ZMod p`, `Named.baseCtx r _` bundles ⟦G⟧ = (Gx, Gy) and `n`.
-/
namespace Named
open Ecdsa GroupInterface Jac

variable {r : Gen.CurveRow} [Fact (Nat.Prime r.p)]

/-- **order of the base point, checked per run**: `n • ⟦G⟧ = 0` in Mathlib's group and ⟨G⟩ has no element of order 2
(N2T, the hypothesis of C06/C07, discharged) — for every row of the generated table, no hypothesis besides `p` prime -/
theorem order_of_G_checked (hr : r ∈ Gen.curveTable) :
    (r.n : ℤ) • (baseCtx r (checked_of_mem hr)).G = 0 ∧ NoOrder2 (baseCtx r (checked_of_mem hr)).H ∧
    (baseCtx r (checked_of_mem hr)).n = r.n ∧
    ∃ hns, (baseCtx r (checked_of_mem hr)).G = WeierstrassCurve.Affine.Point.some ((r.gx : ℤ) : ZMod r.p) ((r.gy : ℤ) : ZMod r.p) hns :=
  ⟨nG_eq_zero (checked_of_mem hr), (baseCtx r (checked_of_mem hr)).n2t, rfl, G_nonsingular (checked_of_mem hr), rfl⟩

/-- the standing hypotheses of the ECDSA-level theorems (`OnCurve.Matches`) for every named curve, from `n` prime -/
theorem matches_named (hr : r ∈ Gen.curveTable) (hn : Nat.Prime r.n) :
    OnCurve.Matches (crvOf r) (baseCtx r (checked_of_mem hr)) :=
  matches_row _ hn

/-- … and `MatchesRec` from `#E(𝔽_p) = n` -/
theorem matchesRec_named (hr : r ∈ Gen.curveTable) (hn : Nat.Prime r.n)
    (hcard : Nat.card (Grp (r.a : ZMod r.p) (r.b : ZMod r.p)) = r.n) :
    OnCurve.MatchesRec (crvOf r) (baseCtx r (checked_of_mem hr)) :=
  matchesRec_row _ hn hcard

/-- consequence for the model's OWN multiplication (`PointJacobi.__mul__` with the generator table): `n * G` is the
object INFINITY — a theorem (from `GroupInterface.mul`), not an evaluation -/
theorem model_n_times_G_is_infinity (hr : r ∈ Gen.curveTable) (hn : Nat.Prime r.n) :
    Curve.pjMul ⟨OnCurve.crvOf (crvOf r), r.gx, r.gy, 1, some r.n, true⟩ r.n = .ok .infinity := by
  have M := matches_named hr hn
  obtain ⟨R, e, hR⟩ := GroupInterface.mul M.hp2 (baseCtx r (checked_of_mem hr)) M.genRep (Or.inl rfl) (r.n : ℤ)
  change Curve.pjMul ⟨OnCurve.crvOf (crvOf r), (crvOf r).gx, (crvOf r).gy, 1, some (crvOf r).n, true⟩ r.n = _
  rw [e]
  rcases result_cases hR with ⟨h, _⟩ | ⟨J, _, _, hne⟩ | ⟨A, _, _, hne⟩
  · rw [h]
  · exact absurd (nG_eq_zero (checked_of_mem hr)) hne
  · exact absurd (nG_eq_zero (checked_of_mem hr)) hne

/-! ### headline statements, all 17 curves at once -/

/-- C02 on the named curves: `Public_key.verifies` returns a boolean and says `True` exactly by the FIPS 186-4 rule -/
theorem verifies_iff_fips (hr : r ∈ Gen.curveTable) (hn : Nat.Prime r.n) (Q : Curve.Pt)
    (hQ : OnCurve.Valid (baseCtx r (checked_of_mem hr)) Q) (e r' s : ℤ) :
    (verifies (OnCurve.ops (crvOf r)) Q e r' s = .ok true ∨ verifies (OnCurve.ops (crvOf r)) Q e r' s = .ok false) ∧
    (verifies (OnCurve.ops (crvOf r)) Q e r' s = .ok true ↔
      Fips r.n (baseCtx r (checked_of_mem hr)).G (OnCurve.den (baseCtx r (checked_of_mem hr)) Q) OnCurve.xcOf e r' s) :=
  C02.verifies_iff_fips_on_curve (crvOf r) _ (matches_named hr hn) Q hQ e r' s

/-- C03 on the named curves: `Private_key.sign` returns the standard pair `r = x(kG) mod n`, `s = k⁻¹(e + r d) mod n` -/
theorem sign_eq_standard (hr : r ∈ Gen.curveTable) (hn : Nat.Prime r.n) (d e k : ℤ) (hk : 1 ≤ k ∧ k < r.n) :
    ∃ x, OnCurve.xcOf (k • (baseCtx r (checked_of_mem hr)).G) = some x ∧
      sign (OnCurve.ops (crvOf r)) d e k =
        (let r' := x % (r.n : ℤ)
         let s := invZ r.n k * (e + r' * d) % (r.n : ℤ)
         if r' = 0 ∨ s = 0 then .error .rsZero else .ok (r', s)) :=
  C03.sign_eq_standard_on_curve (crvOf r) _ (matches_named hr hn) d e k hk

/-- C03: the public point of a secret `d ∈ [1, n−1]` denotes `d • G` -/
theorem pubkey_eq_dG (hr : r ∈ Gen.curveTable) (hn : Nat.Prime r.n) (d : ℤ) (hd : 1 ≤ d ∧ d < r.n) :
    ∃ A, fromSecretExponent (OnCurve.ops (crvOf r)) d = .ok A ∧ OnCurve.Valid (baseCtx r (checked_of_mem hr)) A ∧
      OnCurve.den (baseCtx r (checked_of_mem hr)) A = d • (baseCtx r (checked_of_mem hr)).G :=
  (C03.pubkey_eq_dG_on_curve (crvOf r) _ (matches_named hr hn) d).1 hd

/-- C01 on the named curves: whatever `sign_digest` returns verifies under the key of the same secret, for every
round-tripping encoder/decoder pair, nonce source and truncation flag -/
theorem sign_then_verify {β σ : Type} (hr : r ∈ Gen.curveTable) (hn : Nat.Prime r.n)
    (d : ℤ) (hd : 1 ≤ d ∧ d < r.n) (dg : Bytes) (k : Option ℤ) (rand : ℤ → Res ℤ)
    (enc : ℤ → ℤ → ℤ → Res β) (wrap : β → σ) (dec : σ → ℕ → Res (ℕ × ℕ)) (hcodec : Codec enc wrap dec r.n)
    (allow : Bool) (sig : β) (hsig : signDigest (OnCurve.ops (crvOf r)) d dg k rand enc allow = .ok sig) :
    ∃ Q, fromSecretExponent (OnCurve.ops (crvOf r)) d = .ok Q ∧
      verifyDigest (OnCurve.ops (crvOf r)) Q dec (wrap sig) dg allow = .ok true :=
  C01.sign_then_verify_on_curve (crvOf r) _ (matches_named hr hn) d hd dg k rand enc wrap dec hcodec allow sig hsig

/-- C13 (group half) on the named curves: `(r, n − s)` verifies iff `(r, s)` does -/
theorem verifies_neg_s (hr : r ∈ Gen.curveTable) (hn : Nat.Prime r.n) (Q : Curve.Pt)
    (hQ : OnCurve.Valid (baseCtx r (checked_of_mem hr)) Q) (e r' s : ℤ) :
    verifies (OnCurve.ops (crvOf r)) Q e r' ((r.n : ℤ) - s) = verifies (OnCurve.ops (crvOf r)) Q e r' s :=
  C13b.verifies_neg_s_on_curve (crvOf r) _ (matches_named hr hn) Q hQ e r' s

/-- C14 on the named curves with cofactor 1 (hypothesis #E(𝔽_p) = n): recovery from an honest signature returns at most
two keys, among them the signer's, all verifying -/
theorem recovery (hr : r ∈ Gen.curveTable) (hn : Nat.Prime r.n)
    (hcard : Nat.card (Grp (r.a : ZMod r.p) (r.b : ZMod r.p)) = r.n)
    (d e k r' s x0 : ℤ)
    (H : Honest (OnCurve.ops (crvOf r)) (baseCtx r (checked_of_mem hr)).G OnCurve.xcOf d e k r' s x0) :
    ∃ l, recoverPublicKeys (OnCurve.ops (crvOf r)) NT.squareRootModPrime r' s e = .ok l ∧ l.length ≤ 2 ∧
      (∃ A ∈ l, OnCurve.Valid (baseCtx r (checked_of_mem hr)) A ∧
        OnCurve.den (baseCtx r (checked_of_mem hr)) A = d • (baseCtx r (checked_of_mem hr)).G) ∧
      ∀ A ∈ l, verifies (OnCurve.ops (crvOf r)) A e r' s = .ok true :=
  C14.recovery_on_curve (crvOf r) _ (matchesRec_named hr hn hcard) d e k r' s x0 H

/-! ### per-curve corollaries -/

theorem mem_NIST192p : Gen.curve_NIST192p ∈ Gen.curveTable := by simp [Gen.curveTable]

/-- NIST192p: `OnCurve.Matches` from `p`, `n` prime only (order of G checked by kernel evaluation) -/
theorem matches_NIST192p [Fact (Nat.Prime Gen.curve_NIST192p.p)] (hn : Nat.Prime Gen.curve_NIST192p.n) :
    OnCurve.Matches (crvOf Gen.curve_NIST192p) (baseCtx Gen.curve_NIST192p (checked_of_mem mem_NIST192p)) :=
  matches_named mem_NIST192p hn

theorem mem_NIST224p : Gen.curve_NIST224p ∈ Gen.curveTable := by simp [Gen.curveTable]

/-- NIST224p: `OnCurve.Matches` from `p`, `n` prime only (order of G checked by kernel evaluation) -/
theorem matches_NIST224p [Fact (Nat.Prime Gen.curve_NIST224p.p)] (hn : Nat.Prime Gen.curve_NIST224p.n) :
    OnCurve.Matches (crvOf Gen.curve_NIST224p) (baseCtx Gen.curve_NIST224p (checked_of_mem mem_NIST224p)) :=
  matches_named mem_NIST224p hn

theorem mem_NIST256p : Gen.curve_NIST256p ∈ Gen.curveTable := by simp [Gen.curveTable]

/-- NIST256p: `OnCurve.Matches` from `p`, `n` prime only (order of G checked by kernel evaluation) -/
theorem matches_NIST256p [Fact (Nat.Prime Gen.curve_NIST256p.p)] (hn : Nat.Prime Gen.curve_NIST256p.n) :
    OnCurve.Matches (crvOf Gen.curve_NIST256p) (baseCtx Gen.curve_NIST256p (checked_of_mem mem_NIST256p)) :=
  matches_named mem_NIST256p hn

theorem mem_NIST384p : Gen.curve_NIST384p ∈ Gen.curveTable := by simp [Gen.curveTable]

/-- NIST384p: `OnCurve.Matches` from `p`, `n` prime only (order of G checked by kernel evaluation) -/
theorem matches_NIST384p [Fact (Nat.Prime Gen.curve_NIST384p.p)] (hn : Nat.Prime Gen.curve_NIST384p.n) :
    OnCurve.Matches (crvOf Gen.curve_NIST384p) (baseCtx Gen.curve_NIST384p (checked_of_mem mem_NIST384p)) :=
  matches_named mem_NIST384p hn

theorem mem_NIST521p : Gen.curve_NIST521p ∈ Gen.curveTable := by simp [Gen.curveTable]

/-- NIST521p: `OnCurve.Matches` from `p`, `n` prime only (order of G checked by kernel evaluation) -/
theorem matches_NIST521p [Fact (Nat.Prime Gen.curve_NIST521p.p)] (hn : Nat.Prime Gen.curve_NIST521p.n) :
    OnCurve.Matches (crvOf Gen.curve_NIST521p) (baseCtx Gen.curve_NIST521p (checked_of_mem mem_NIST521p)) :=
  matches_named mem_NIST521p hn

theorem mem_SECP256k1 : Gen.curve_SECP256k1 ∈ Gen.curveTable := by simp [Gen.curveTable]

/-- SECP256k1: `OnCurve.Matches` from `p`, `n` prime only (order of G checked by kernel evaluation) -/
theorem matches_SECP256k1 [Fact (Nat.Prime Gen.curve_SECP256k1.p)] (hn : Nat.Prime Gen.curve_SECP256k1.n) :
    OnCurve.Matches (crvOf Gen.curve_SECP256k1) (baseCtx Gen.curve_SECP256k1 (checked_of_mem mem_SECP256k1)) :=
  matches_named mem_SECP256k1 hn

theorem mem_BRAINPOOLP160r1 : Gen.curve_BRAINPOOLP160r1 ∈ Gen.curveTable := by simp [Gen.curveTable]

/-- BRAINPOOLP160r1: `OnCurve.Matches` from `p`, `n` prime only (order of G checked by kernel evaluation) -/
theorem matches_BRAINPOOLP160r1 [Fact (Nat.Prime Gen.curve_BRAINPOOLP160r1.p)] (hn : Nat.Prime Gen.curve_BRAINPOOLP160r1.n) :
    OnCurve.Matches (crvOf Gen.curve_BRAINPOOLP160r1) (baseCtx Gen.curve_BRAINPOOLP160r1 (checked_of_mem mem_BRAINPOOLP160r1)) :=
  matches_named mem_BRAINPOOLP160r1 hn

theorem mem_BRAINPOOLP192r1 : Gen.curve_BRAINPOOLP192r1 ∈ Gen.curveTable := by simp [Gen.curveTable]

/-- BRAINPOOLP192r1: `OnCurve.Matches` from `p`, `n` prime only (order of G checked by kernel evaluation) -/
theorem matches_BRAINPOOLP192r1 [Fact (Nat.Prime Gen.curve_BRAINPOOLP192r1.p)] (hn : Nat.Prime Gen.curve_BRAINPOOLP192r1.n) :
    OnCurve.Matches (crvOf Gen.curve_BRAINPOOLP192r1) (baseCtx Gen.curve_BRAINPOOLP192r1 (checked_of_mem mem_BRAINPOOLP192r1)) :=
  matches_named mem_BRAINPOOLP192r1 hn

theorem mem_BRAINPOOLP224r1 : Gen.curve_BRAINPOOLP224r1 ∈ Gen.curveTable := by simp [Gen.curveTable]

/-- BRAINPOOLP224r1: `OnCurve.Matches` from `p`, `n` prime only (order of G checked by kernel evaluation) -/
theorem matches_BRAINPOOLP224r1 [Fact (Nat.Prime Gen.curve_BRAINPOOLP224r1.p)] (hn : Nat.Prime Gen.curve_BRAINPOOLP224r1.n) :
    OnCurve.Matches (crvOf Gen.curve_BRAINPOOLP224r1) (baseCtx Gen.curve_BRAINPOOLP224r1 (checked_of_mem mem_BRAINPOOLP224r1)) :=
  matches_named mem_BRAINPOOLP224r1 hn

theorem mem_BRAINPOOLP256r1 : Gen.curve_BRAINPOOLP256r1 ∈ Gen.curveTable := by simp [Gen.curveTable]

/-- BRAINPOOLP256r1: `OnCurve.Matches` from `p`, `n` prime only (order of G checked by kernel evaluation) -/
theorem matches_BRAINPOOLP256r1 [Fact (Nat.Prime Gen.curve_BRAINPOOLP256r1.p)] (hn : Nat.Prime Gen.curve_BRAINPOOLP256r1.n) :
    OnCurve.Matches (crvOf Gen.curve_BRAINPOOLP256r1) (baseCtx Gen.curve_BRAINPOOLP256r1 (checked_of_mem mem_BRAINPOOLP256r1)) :=
  matches_named mem_BRAINPOOLP256r1 hn

theorem mem_BRAINPOOLP320r1 : Gen.curve_BRAINPOOLP320r1 ∈ Gen.curveTable := by simp [Gen.curveTable]

/-- BRAINPOOLP320r1: `OnCurve.Matches` from `p`, `n` prime only (order of G checked by kernel evaluation) -/
theorem matches_BRAINPOOLP320r1 [Fact (Nat.Prime Gen.curve_BRAINPOOLP320r1.p)] (hn : Nat.Prime Gen.curve_BRAINPOOLP320r1.n) :
    OnCurve.Matches (crvOf Gen.curve_BRAINPOOLP320r1) (baseCtx Gen.curve_BRAINPOOLP320r1 (checked_of_mem mem_BRAINPOOLP320r1)) :=
  matches_named mem_BRAINPOOLP320r1 hn

theorem mem_BRAINPOOLP384r1 : Gen.curve_BRAINPOOLP384r1 ∈ Gen.curveTable := by simp [Gen.curveTable]

/-- BRAINPOOLP384r1: `OnCurve.Matches` from `p`, `n` prime only (order of G checked by kernel evaluation) -/
theorem matches_BRAINPOOLP384r1 [Fact (Nat.Prime Gen.curve_BRAINPOOLP384r1.p)] (hn : Nat.Prime Gen.curve_BRAINPOOLP384r1.n) :
    OnCurve.Matches (crvOf Gen.curve_BRAINPOOLP384r1) (baseCtx Gen.curve_BRAINPOOLP384r1 (checked_of_mem mem_BRAINPOOLP384r1)) :=
  matches_named mem_BRAINPOOLP384r1 hn

theorem mem_BRAINPOOLP512r1 : Gen.curve_BRAINPOOLP512r1 ∈ Gen.curveTable := by simp [Gen.curveTable]

/-- BRAINPOOLP512r1: `OnCurve.Matches` from `p`, `n` prime only (order of G checked by kernel evaluation) -/
theorem matches_BRAINPOOLP512r1 [Fact (Nat.Prime Gen.curve_BRAINPOOLP512r1.p)] (hn : Nat.Prime Gen.curve_BRAINPOOLP512r1.n) :
    OnCurve.Matches (crvOf Gen.curve_BRAINPOOLP512r1) (baseCtx Gen.curve_BRAINPOOLP512r1 (checked_of_mem mem_BRAINPOOLP512r1)) :=
  matches_named mem_BRAINPOOLP512r1 hn

theorem mem_SECP112r1 : Gen.curve_SECP112r1 ∈ Gen.curveTable := by simp [Gen.curveTable]

/-- SECP112r1: `OnCurve.Matches` from `p`, `n` prime only (order of G checked by kernel evaluation) -/
theorem matches_SECP112r1 [Fact (Nat.Prime Gen.curve_SECP112r1.p)] (hn : Nat.Prime Gen.curve_SECP112r1.n) :
    OnCurve.Matches (crvOf Gen.curve_SECP112r1) (baseCtx Gen.curve_SECP112r1 (checked_of_mem mem_SECP112r1)) :=
  matches_named mem_SECP112r1 hn

theorem mem_SECP112r2 : Gen.curve_SECP112r2 ∈ Gen.curveTable := by simp [Gen.curveTable]

/-- SECP112r2: `OnCurve.Matches` from `p`, `n` prime only (order of G checked by kernel evaluation) -/
theorem matches_SECP112r2 [Fact (Nat.Prime Gen.curve_SECP112r2.p)] (hn : Nat.Prime Gen.curve_SECP112r2.n) :
    OnCurve.Matches (crvOf Gen.curve_SECP112r2) (baseCtx Gen.curve_SECP112r2 (checked_of_mem mem_SECP112r2)) :=
  matches_named mem_SECP112r2 hn

theorem mem_SECP128r1 : Gen.curve_SECP128r1 ∈ Gen.curveTable := by simp [Gen.curveTable]

/-- SECP128r1: `OnCurve.Matches` from `p`, `n` prime only (order of G checked by kernel evaluation) -/
theorem matches_SECP128r1 [Fact (Nat.Prime Gen.curve_SECP128r1.p)] (hn : Nat.Prime Gen.curve_SECP128r1.n) :
    OnCurve.Matches (crvOf Gen.curve_SECP128r1) (baseCtx Gen.curve_SECP128r1 (checked_of_mem mem_SECP128r1)) :=
  matches_named mem_SECP128r1 hn

theorem mem_SECP160r1 : Gen.curve_SECP160r1 ∈ Gen.curveTable := by simp [Gen.curveTable]

/-- SECP160r1: `OnCurve.Matches` from `p`, `n` prime only (order of G checked by kernel evaluation) -/
theorem matches_SECP160r1 [Fact (Nat.Prime Gen.curve_SECP160r1.p)] (hn : Nat.Prime Gen.curve_SECP160r1.n) :
    OnCurve.Matches (crvOf Gen.curve_SECP160r1) (baseCtx Gen.curve_SECP160r1 (checked_of_mem mem_SECP160r1)) :=
  matches_named mem_SECP160r1 hn

/-- non-vacuity: the table has 17 rows, all pass the kernel checks; e.g. on NIST256p `n • G = ∞` by evaluation while
`(n + 1) • G ≠ ∞` -/
example : Gen.curveTable.length = 17 ∧ (∀ r ∈ Gen.curveTable, rowChecks r = true) := ⟨table_length, all_rows_checked⟩
example : CertAff.mulIsZero Gen.curve_NIST256p.p Gen.curve_NIST256p.a (Gen.curve_NIST256p.n + 1) Gen.curve_NIST256p.gx
    Gen.curve_NIST256p.gy = false := by decide +kernel

end Named
