import Proofs.KeysTotal
/-!
# C10 — decoders of external data fail only with their documented exceptions (key loaders)

`f_total : ∀ bs, f bs = ok _ ∨ (f bs = error e ∧ e ∈ documented f)`; termination is the totality of the Lean
definitions (structural recursion, no fuel).  Documented for the key loaders: `UnexpectedDER`,
`MalformedPointError`, `UnknownCurveError`.

Proved elsewhere: `sigdecode_string / sigdecode_strings / sigdecode_der` (Props/C12), `verify / verify_digest` with
each decoder (Props/C02), the ECDH byte / DER / PEM loaders (Props/C05).
-/
namespace C10
open Keys KeysP

/-- the documented exceptions of the key loaders -/
def Documented (e : PyErr) : Prop := e = .unexpectedDER ∨ e = .malformedPoint ∨ e = .unknownCurve

/-- `VerifyingKey.from_string`: only `MalformedPointError`.  Hypothesis: `square_root_mod_prime` returns a root or
raises `SquareRootError` (C15; for `p ≡ 1 mod 8`, i.e. P-224, this is C15's partial branch). -/
theorem vk_from_string_total (E : Ext) (c : Curve) (hp : 0 < c.p) (hsqrt : SqrtSpec E.sqrtModP c.p) (bs : Bytes)
    (validate : Bool) :
    (∃ k, VK.fromString E c bs validate = .ok k) ∨ (VK.fromString E c bs validate = .error .malformedPoint) := by
  cases h : VK.fromString E c bs validate with
  | ok k => exact Or.inl ⟨k, rfl⟩
  | error e => right; rw [fromString_err E c hp hsqrt bs validate e h]

/-- `SigningKey.from_string`: only `MalformedPointError`.  Hypothesis: `d·G` is a point with reduced coordinates for
`1 ≤ d < n` (C07). -/
theorem sk_from_string_total (E : Ext) (c : Curve) (hpub : PubSpec E c) (bs : Bytes) :
    (∃ k, SK.fromString E c bs = .ok k) ∨ (SK.fromString E c bs = .error .malformedPoint) := by
  cases h : SK.fromString E c bs with
  | ok k => exact Or.inl ⟨k, rfl⟩
  | error e => right; rw [sk_fromString_err E c hpub bs e h]

end C10
