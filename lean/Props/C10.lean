import Proofs.KeysTotal
import Proofs.KeysPem
import Proofs.KeysInst
import Proofs.KeysInstPub
/-!
# C10 — decoders of external data fail only with their documented exceptions (key loaders)

`f_total : ∀ bs, f bs = ok _ ∨ (f bs = error e ∧ e ∈ documented f)`; termination is the totality of the Lean
definitions (structural recursion, no fuel).  Documented for the key loaders: `UnexpectedDER`,
`MalformedPointError`, `UnknownCurveError`.

Proved elsewhere: `sigdecode_string / sigdecode_strings / sigdecode_der` (Props/C12), `verify / verify_digest` with
each decoder (Props/C02), the ECDH byte / DER / PEM loaders (Props/C05).
-/
namespace C10
open Keys KeysP

theorem table_p_odd : ∀ c ∈ Gen.curveTable, c.p % 2 = 1 := by decide +kernel

/-- the documented exceptions of the key loaders: `KeysP.Documented e` is
`e = .unexpectedDER ∨ e = .malformedPoint ∨ e = .unknownCurve` -/
theorem documented_iff (e : PyErr) : Documented e ↔ (e = .unexpectedDER ∨ e = .malformedPoint ∨ e = .unknownCurve) :=
  Iff.rfl

/-- the hypotheses on the external functions, for every curve of the generated table: `square_root_mod_prime` returns a
root or raises `SquareRootError` (C15); `d·G` has reduced coordinates for `1 ≤ d < n` (C07).  `base64.b64decode` can only
fail with `binascii.Error` by its type (`Option`), which `unpem` maps to `UnexpectedDER` (F7). -/
def ExtOK (E : Ext) : Prop :=
  (∀ c ∈ Gen.curveTable, SqrtSpec E.sqrtModP c.p) ∧ (∀ c ∈ Gen.curveTable, PubSpec E c)

theorem total_of_err {α : Type} (r : Res α) (h : ∀ e, r = .error e → Documented e) :
    (∃ v, r = .ok v) ∨ (∃ e, r = .error e ∧ Documented e) := by
  cases hr : r with
  | ok v => exact Or.inl ⟨v, rfl⟩
  | error e => exact Or.inr ⟨e, rfl, h e hr⟩

/-- `VerifyingKey.from_string`: only `MalformedPointError`.  Hypothesis: `square_root_mod_prime` returns a root or
raises `SquareRootError` (C15; for `p ≡ 1 mod 8`, i.e. P-224, this is C15's partial branch). -/
theorem vk_from_string_total (E : Ext) (c : Curve) (hp : 0 < c.p) (hsqrt : SqrtSpec E.sqrtModP c.p) (bs : Bytes)
    (validate : Bool) :
    (∃ k, VK.fromString E c bs validate = .ok k) ∨ (VK.fromString E c bs validate = .error .malformedPoint) := by
  cases h : VK.fromString E c bs validate with
  | ok k => exact Or.inl ⟨k, rfl⟩
  | error e => right; rw [fromString_err E c hp hsqrt bs validate e h]

/-- `SigningKey.from_string`: only `MalformedPointError`.  Hypothesis: `d·G` is a point with reduced coordinates for
`1 ≤ d < n` (C07). -/
theorem sk_from_string_total (E : Ext) (c : Curve) (hpub : PubSpec E c) (bs : Bytes) :
    (∃ k, SK.fromString E c bs = .ok k) ∨ (SK.fromString E c bs = .error .malformedPoint) := by
  cases h : SK.fromString E c bs with
  | ok k => exact Or.inl ⟨k, rfl⟩
  | error e => right; rw [sk_fromString_err E c hpub bs e h]

/-- `VerifyingKey.from_der` -/
theorem vk_from_der_total (E : Ext) (hE : ExtOK E) (bs : Bytes) :
    (∃ k, VK.fromDer E bs = .ok k) ∨ (∃ e, VK.fromDer E bs = .error e ∧ Documented e) :=
  total_of_err _ (vk_fromDer_err E hE.1 bs)

/-- `VerifyingKey.from_pem` -/
theorem vk_from_pem_total (E : Ext) (hE : ExtOK E) (bs : Bytes) :
    (∃ k, VK.fromPem E bs = .ok k) ∨ (∃ e, VK.fromPem E bs = .error e ∧ Documented e) :=
  total_of_err _ (vk_fromPem_err E hE.1 bs)

/-- `SigningKey.from_der` (this is where F6 mattered: the `indexError` of the octet-string / constructed / bit-string
readers is gone from the model because it is gone from the code, and C11 proves the readers' only error is
`UnexpectedDER`) -/
theorem sk_from_der_total (E : Ext) (hE : ExtOK E) (bs : Bytes) :
    (∃ k, SK.fromDer E bs = .ok k) ∨ (∃ e, SK.fromDer E bs = .error e ∧ Documented e) :=
  total_of_err _ (sk_fromDer_err E hE.2 bs)

/-- `SigningKey.from_pem` (F7: no `binascii.Error`, no `ValueError` from a missing header) -/
theorem sk_from_pem_total (E : Ext) (hE : ExtOK E) (bs : Bytes) :
    (∃ k, SK.fromPem E bs = .ok k) ∨ (∃ e, SK.fromPem E bs = .error e ∧ Documented e) :=
  total_of_err _ (sk_fromPem_err E hE.2 bs)

/-- with `square_root_mod_prime` instantiated by its model (`NT.squareRootModPrime`, contract = `C15.sqrt_spec`), the
public-key loaders need only the primality of the table's field primes (SEC 2 / FIPS / RFC 5639 fact) -/
theorem vk_loaders_total_model (hprime : ∀ c ∈ Gen.curveTable, c.p.Prime) (bs : Bytes) :
    (∀ e, VK.fromDer KeysWire.modelExt bs = .error e → Documented e) ∧
    (∀ e, VK.fromPem KeysWire.modelExt bs = .error e → Documented e) ∧
    (∀ c ∈ Gen.curveTable, ∀ v e, VK.fromString KeysWire.modelExt c bs v = .error e → e = .malformedPoint) := by
  have hsq : ∀ c ∈ Gen.curveTable, SqrtSpec KeysWire.modelExt.sqrtModP c.p := by
    intro c hc
    have hodd := table_p_odd _ hc
    exact sqrtSpec_modelExt c.p (hprime c hc) (by omega)
  exact ⟨fun e h => vk_fromDer_err _ hsq bs e h, fun e h => vk_fromPem_err _ hsq bs e h,
    fun c hc v e h => fromString_err _ c (hprime c hc).pos (hsq c hc) bs v e h⟩

/-- **all six loaders on the composed model**, hypotheses: only `p` and `n` prime for the curves of the table (`ExtOK`
is discharged: square root by C15, `d·G` by C07 with the base-point order checked by the kernel) -/
theorem all_loaders_total_model (hprime : ∀ c ∈ Gen.curveTable, c.p.Prime ∧ c.n.Prime) :
    ExtOK KeysWire.modelExt ∧ ∀ bs : Bytes,
      (∀ e, VK.fromDer KeysWire.modelExt bs = .error e → Documented e) ∧
      (∀ e, VK.fromPem KeysWire.modelExt bs = .error e → Documented e) ∧
      (∀ e, SK.fromDer KeysWire.modelExt bs = .error e → Documented e) ∧
      (∀ e, SK.fromPem KeysWire.modelExt bs = .error e → Documented e) ∧
      (∀ c ∈ Gen.curveTable, ∀ v e, VK.fromString KeysWire.modelExt c bs v = .error e → e = .malformedPoint) ∧
      (∀ c ∈ Gen.curveTable, ∀ e, SK.fromString KeysWire.modelExt c bs = .error e → e = .malformedPoint) := by
  have hsq : ∀ c ∈ Gen.curveTable, SqrtSpec KeysWire.modelExt.sqrtModP c.p := by
    intro c hc
    have hodd := table_p_odd _ hc
    exact sqrtSpec_modelExt c.p (hprime c hc).1 (by omega)
  have hpub : ∀ c ∈ Gen.curveTable, PubSpec KeysWire.modelExt c := by
    intro c hc
    haveI := Fact.mk (hprime c hc).1
    exact pubSpec_model c hc (hprime c hc).2
  refine ⟨⟨hsq, hpub⟩, fun bs => ⟨fun e h => vk_fromDer_err _ hsq bs e h, fun e h => vk_fromPem_err _ hsq bs e h,
    fun e h => sk_fromDer_err _ hpub bs e h, fun e h => sk_fromPem_err _ hpub bs e h,
    fun c hc v e h => fromString_err _ c (hprime c hc).1.pos (hsq c hc) bs v e h,
    fun c hc e h => sk_fromString_err _ c (hpub c hc) bs e h⟩⟩

/-- in particular none of the internal exception classes escapes any of the six loaders -/
theorem no_internal_exception (E : Ext) (hE : ExtOK E) (bs : Bytes) (e : PyErr)
    (h : VK.fromDer E bs = .error e ∨ VK.fromPem E bs = .error e ∨ SK.fromDer E bs = .error e ∨ SK.fromPem E bs = .error e) :
    e ≠ .indexError ∧ e ≠ .typeError ∧ e ≠ .valueError ∧ e ≠ .binasciiError ∧ e ≠ .assertionError ∧ e ≠ .other
      ∧ e ≠ .runtimeError ∧ e ≠ .squareRoot ∧ e ≠ .jacobiError := by
  have hd : Documented e := by
    rcases h with h | h | h | h
    · exact vk_fromDer_err E hE.1 bs e h
    · exact vk_fromPem_err E hE.1 bs e h
    · exact sk_fromDer_err E hE.2 bs e h
    · exact sk_fromPem_err E hE.2 bs e h
  rcases hd with h | h | h <;> subst h <;> decide

/-- non-vacuity: the F6 witness `30 06 02 01 01 04 20 01` (declared octet-string length beyond the buffer) is
`UnexpectedDER` in the model (it was `IndexError` before a7b3e40), and a PEM without header is `UnexpectedDER` -/
def ext0 : Ext :=
  { subgroupOk := fun _ _ _ => true, sqrtModP := fun _ _ => .error .squareRoot,
    pubPoint := fun _ _ => none, b64decode := b64decodeCPython }

example : SK.fromDer ext0 [0x30, 0x06, 0x02, 0x01, 0x01, 0x04, 0x20, 0x01] = .error .unexpectedDER := by decide +kernel

example : SK.fromPem ext0 [110, 111, 32, 104, 101, 97, 100, 101, 114] = .error .unexpectedDER := by decide +kernel

end C10
