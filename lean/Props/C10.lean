import Proofs.KeysTotal
import Proofs.KeysPem
import Proofs.KeysInst
import Proofs.KeysInstPub
import Proofs.KeysEcdh
import Proofs.KeysEcdhWire
import Props.C12
import Props.C02
/-!
# C10 — decoders of external data fail only with their documented exceptions (key loaders)

`f_total : ∀ bs, f bs = ok _ ∨ (f bs = error e ∧ e ∈ documented f)`; termination is the totality of the Lean
definitions (structural recursion, no fuel).  Documented for the key loaders: `UnexpectedDER`,
`MalformedPointError`, `UnknownCurveError`.

The signature decoders, verification through each decoder and the ECDH loaders are composed below from `Props/C12`
(`sigdecode_*_errors`), `Props/C02` (`verify_digest_outcomes*`) and `Model/Ecdh.lean` with its key constructors
instantiated by the Keys model (`Proofs/KeysEcdh.lean`).
-/
namespace C10
open Keys KeysP

theorem table_p_odd : ∀ c ∈ Gen.curveTable, c.p % 2 = 1 := by decide +kernel

/-- the documented exceptions of the key loaders: `KeysP.Documented e` is
`e = .unexpectedDER ∨ e = .malformedPoint ∨ e = .unknownCurve` -/
theorem documented_iff (e : PyErr) : Documented e ↔ (e = .unexpectedDER ∨ e = .malformedPoint ∨ e = .unknownCurve) :=
  Iff.rfl

/-- the hypotheses on the external functions, for every curve of the generated table: `square_root_mod_prime` returns a
root or raises `SquareRootError` (C15); `d·G` has reduced coordinates for `1 ≤ d < n` (C07).  `base64.b64decode` can only
fail with `binascii.Error` by its type (`Option`), which `unpem` maps to `UnexpectedDER` (F7). -/
def ExtOK (E : Ext) : Prop :=
  (∀ c ∈ Gen.curveTable, SqrtSpec E.sqrtModP c.p) ∧ (∀ c ∈ Gen.curveTable, PubSpec E c)

theorem total_of_err {α : Type} (r : Res α) (h : ∀ e, r = .error e → Documented e) :
    (∃ v, r = .ok v) ∨ (∃ e, r = .error e ∧ Documented e) := by
  cases hr : r with
  | ok v => exact Or.inl ⟨v, rfl⟩
  | error e => exact Or.inr ⟨e, rfl, h e hr⟩

/-- `VerifyingKey.from_string`: only `MalformedPointError`.  Hypothesis: `square_root_mod_prime` returns a root or
raises `SquareRootError` (C15; for `p ≡ 1 mod 8`, i.e. P-224, this is C15's partial branch). -/
theorem vk_from_string_total (E : Ext) (c : Curve) (hp : 0 < c.p) (hsqrt : SqrtSpec E.sqrtModP c.p) (bs : Bytes)
    (validate : Bool) :
    (∃ k, VK.fromString E c bs validate = .ok k) ∨ (VK.fromString E c bs validate = .error .malformedPoint) := by
  cases h : VK.fromString E c bs validate with
  | ok k => exact Or.inl ⟨k, rfl⟩
  | error e => right; rw [fromString_err E c hp hsqrt bs validate e h]

/-- `SigningKey.from_string`: only `MalformedPointError`.  Hypothesis: `d·G` is a point with reduced coordinates for
`1 ≤ d < n` (C07). -/
theorem sk_from_string_total (E : Ext) (c : Curve) (hpub : PubSpec E c) (bs : Bytes) :
    (∃ k, SK.fromString E c bs = .ok k) ∨ (SK.fromString E c bs = .error .malformedPoint) := by
  cases h : SK.fromString E c bs with
  | ok k => exact Or.inl ⟨k, rfl⟩
  | error e => right; rw [sk_fromString_err E c hpub bs e h]

/-- `VerifyingKey.from_der` -/
theorem vk_from_der_total (E : Ext) (hE : ExtOK E) (bs : Bytes) :
    (∃ k, VK.fromDer E bs = .ok k) ∨ (∃ e, VK.fromDer E bs = .error e ∧ Documented e) :=
  total_of_err _ (vk_fromDer_err E hE.1 bs)

/-- `VerifyingKey.from_pem` -/
theorem vk_from_pem_total (E : Ext) (hE : ExtOK E) (bs : Bytes) :
    (∃ k, VK.fromPem E bs = .ok k) ∨ (∃ e, VK.fromPem E bs = .error e ∧ Documented e) :=
  total_of_err _ (vk_fromPem_err E hE.1 bs)

/-- `SigningKey.from_der` (this is where F6 mattered: the `indexError` of the octet-string / constructed / bit-string
readers is gone from the model because it is gone from the code, and C11 proves the readers' only error is
`UnexpectedDER`) -/
theorem sk_from_der_total (E : Ext) (hE : ExtOK E) (bs : Bytes) :
    (∃ k, SK.fromDer E bs = .ok k) ∨ (∃ e, SK.fromDer E bs = .error e ∧ Documented e) :=
  total_of_err _ (sk_fromDer_err E hE.2 bs)

/-- `SigningKey.from_pem` (F7: no `binascii.Error`, no `ValueError` from a missing header) -/
theorem sk_from_pem_total (E : Ext) (hE : ExtOK E) (bs : Bytes) :
    (∃ k, SK.fromPem E bs = .ok k) ∨ (∃ e, SK.fromPem E bs = .error e ∧ Documented e) :=
  total_of_err _ (sk_fromPem_err E hE.2 bs)

/-- with `square_root_mod_prime` instantiated by its model (`NT.squareRootModPrime`, contract = `C15.sqrt_spec`), the
public-key loaders need only the primality of the table's field primes (SEC 2 / FIPS / RFC 5639 fact) -/
theorem vk_loaders_total_model (hprime : ∀ c ∈ Gen.curveTable, c.p.Prime) (bs : Bytes) :
    (∀ e, VK.fromDer KeysWire.modelExt bs = .error e → Documented e) ∧
    (∀ e, VK.fromPem KeysWire.modelExt bs = .error e → Documented e) ∧
    (∀ c ∈ Gen.curveTable, ∀ v e, VK.fromString KeysWire.modelExt c bs v = .error e → e = .malformedPoint) := by
  have hsq : ∀ c ∈ Gen.curveTable, SqrtSpec KeysWire.modelExt.sqrtModP c.p := by
    intro c hc
    have hodd := table_p_odd _ hc
    exact sqrtSpec_modelExt c.p (hprime c hc) (by omega)
  exact ⟨fun e h => vk_fromDer_err _ hsq bs e h, fun e h => vk_fromPem_err _ hsq bs e h,
    fun c hc v e h => fromString_err _ c (hprime c hc).pos (hsq c hc) bs v e h⟩

/-- **all six loaders on the composed model**, hypotheses: only `p` and `n` prime for the curves of the table (`ExtOK`
is discharged: square root by C15, `d·G` by C07 with the base-point order checked by the kernel) -/
theorem all_loaders_total_model (hprime : ∀ c ∈ Gen.curveTable, c.p.Prime ∧ c.n.Prime) :
    ExtOK KeysWire.modelExt ∧ ∀ bs : Bytes,
      (∀ e, VK.fromDer KeysWire.modelExt bs = .error e → Documented e) ∧
      (∀ e, VK.fromPem KeysWire.modelExt bs = .error e → Documented e) ∧
      (∀ e, SK.fromDer KeysWire.modelExt bs = .error e → Documented e) ∧
      (∀ e, SK.fromPem KeysWire.modelExt bs = .error e → Documented e) ∧
      (∀ c ∈ Gen.curveTable, ∀ v e, VK.fromString KeysWire.modelExt c bs v = .error e → e = .malformedPoint) ∧
      (∀ c ∈ Gen.curveTable, ∀ e, SK.fromString KeysWire.modelExt c bs = .error e → e = .malformedPoint) := by
  have hsq : ∀ c ∈ Gen.curveTable, SqrtSpec KeysWire.modelExt.sqrtModP c.p := by
    intro c hc
    have hodd := table_p_odd _ hc
    exact sqrtSpec_modelExt c.p (hprime c hc).1 (by omega)
  have hpub : ∀ c ∈ Gen.curveTable, PubSpec KeysWire.modelExt c := by
    intro c hc
    haveI := Fact.mk (hprime c hc).1
    exact pubSpec_model c hc (hprime c hc).2
  refine ⟨⟨hsq, hpub⟩, fun bs => ⟨fun e h => vk_fromDer_err _ hsq bs e h, fun e h => vk_fromPem_err _ hsq bs e h,
    fun e h => sk_fromDer_err _ hpub bs e h, fun e h => sk_fromPem_err _ hpub bs e h,
    fun c hc v e h => fromString_err _ c (hprime c hc).1.pos (hsq c hc) bs v e h,
    fun c hc e h => sk_fromString_err _ c (hpub c hc) bs e h⟩⟩

/-- **the three private-key loaders need no hypothesis at all** (any `Ext`, any byte string): since the repair F14 an
INFINITY product `generator * d` is `MalformedPointError` as well, so whatever the point arithmetic does, `from_string`
fails only with `MalformedPointError` and `from_der` / `from_pem` only with the documented three -/
theorem sk_loaders_total_unconditional (E : Ext) (bs : Bytes) :
    (∀ c e, SK.fromString E c bs = .error e → e = .malformedPoint) ∧
    (∀ e, SK.fromDer E bs = .error e → Documented e) ∧
    (∀ e, SK.fromPem E bs = .error e → Documented e) :=
  ⟨fun c e h => sk_fromString_err' E c bs e h, fun e h => sk_fromDer_err' E bs e h, fun e h => sk_fromPem_err' E bs e h⟩

/-- in particular none of the internal exception classes escapes any of the six loaders -/
theorem no_internal_exception (E : Ext) (hE : ExtOK E) (bs : Bytes) (e : PyErr)
    (h : VK.fromDer E bs = .error e ∨ VK.fromPem E bs = .error e ∨ SK.fromDer E bs = .error e ∨ SK.fromPem E bs = .error e) :
    e ≠ .indexError ∧ e ≠ .typeError ∧ e ≠ .valueError ∧ e ≠ .binasciiError ∧ e ≠ .assertionError ∧ e ≠ .other
      ∧ e ≠ .runtimeError ∧ e ≠ .squareRoot ∧ e ≠ .jacobiError := by
  have hd : Documented e := by
    rcases h with h | h | h | h
    · exact vk_fromDer_err E hE.1 bs e h
    · exact vk_fromPem_err E hE.1 bs e h
    · exact sk_fromDer_err E hE.2 bs e h
    · exact sk_fromPem_err E hE.2 bs e h
  rcases hd with h | h | h <;> subst h <;> decide

/-- non-vacuity: the F6 witness `30 06 02 01 01 04 20 01` (declared octet-string length beyond the buffer) is
`UnexpectedDER` in the model (it was `IndexError` before a7b3e40), and a PEM without header is `UnexpectedDER` -/
def ext0 : Ext :=
  { subgroupOk := fun _ _ _ => true, sqrtModP := fun _ _ => .error .squareRoot,
    pubPoint := fun _ _ => none, b64decode := b64decodeCPython }

example : SK.fromDer ext0 [0x30, 0x06, 0x02, 0x01, 0x01, 0x04, 0x20, 0x01] = .error .unexpectedDER := by decide +kernel

example : SK.fromPem ext0 [110, 111, 32, 104, 101, 97, 100, 101, 114] = .error .unexpectedDER := by decide +kernel

/-- F14 witness: the point at infinity as a point object, and as the product `generator * d`, is `MalformedPointError` -/
example : fromPublicPointObj ext0 Gen.curve_NIST256p none true = .error .malformedPoint
    ∧ SK.fromSecretExponent ext0 Gen.curve_NIST256p 5 = .error .malformedPoint := by decide +kernel

/-! ## signature decoders (composition of `C12.sigdecode_*_errors`) -/

/-- `sigdecode_string`, `sigdecode_strings`, `sigdecode_der`: for every byte string / list of byte strings and every
order, the decoder returns a pair or raises `MalformedSignature` (raw forms) resp. `UnexpectedDER` (DER) — nothing else -/
theorem sig_decoders_total (sig : Bytes) (sigs : List Bytes) (n : Nat) :
    ((∃ rs, Util.sigdecodeString sig n = .ok rs) ∨ Util.sigdecodeString sig n = .error .malformedSignature) ∧
    ((∃ rs, Util.sigdecodeStrings sigs n = .ok rs) ∨ Util.sigdecodeStrings sigs n = .error .malformedSignature) ∧
    ((∃ rs, Util.sigdecodeDer sig n = .ok rs) ∨ Util.sigdecodeDer sig n = .error .unexpectedDER) := by
  refine ⟨?_, ?_, ?_⟩
  · cases h : Util.sigdecodeString sig n with
    | ok rs => exact Or.inl ⟨rs, rfl⟩
    | error e => right; rw [((C12.sigdecode_string_errors sig n).2 e h).1]
  · cases h : Util.sigdecodeStrings sigs n with
    | ok rs => exact Or.inl ⟨rs, rfl⟩
    | error e => right; rw [(C12.sigdecode_strings_errors sigs n).2 e h]
  · cases h : Util.sigdecodeDer sig n with
    | ok rs => exact Or.inl ⟨rs, rfl⟩
    | error e => right; rw [(C12.sigdecode_der_errors sig n).2 e h]

/-! ## verification through every decoder (composition of `C02.verify_digest_outcomes`) -/

section Verify
open Ecdsa
variable {P : Type} {𝔾 : Type} [AddCommGroup 𝔾]
variable {ops : PointOps P} {G : 𝔾} {den : P → 𝔾} {xc : 𝔾 → Option ℤ} {valid : P → Prop}

/-- the three outcomes of a verification call -/
def VerifyOutcome (r : Res Bool) : Prop := r = .ok true ∨ r = .error .badSignature ∨ r = .error .badDigest

/-- `verify_digest` and `verify` through `sigdecode_string`, `sigdecode_strings` and `sigdecode_der`: for every byte string
(list of byte strings) offered as a signature, every non-empty digest / every hash function with non-empty output and
both settings of `allow_truncate`, the call returns `True` or raises `BadSignatureError` / `BadDigestError` — never a
false value, never `MalformedSignature`, `UnexpectedDER`, `TypeError` (F4) or anything else.  `C` = the point layer is
correct (instantiated for the named curves below). -/
theorem verify_total_all_decoders (C : PointOpsCorrect ops G den xc valid) (Q : P) (hQ : valid Q)
    (sig : Bytes) (sigs : List Bytes) (dg : Bytes) (hne : dg ≠ []) (H : Bytes → Bytes) (hH : ∀ m, H m ≠ [])
    (data : Bytes) (allow : Bool) :
    VerifyOutcome (verifyDigest ops Q Util.sigdecodeString sig dg allow) ∧
    VerifyOutcome (verifyDigest ops Q Util.sigdecodeStrings sigs dg allow) ∧
    VerifyOutcome (verifyDigest ops Q Util.sigdecodeDer sig dg allow) ∧
    VerifyOutcome (verify ops Q H Util.sigdecodeString sig data allow) ∧
    VerifyOutcome (verify ops Q H Util.sigdecodeStrings sigs data allow) ∧
    VerifyOutcome (verify ops Q H Util.sigdecodeDer sig data allow) :=
  ⟨C02.verify_digest_outcomes_string C Q hQ sig dg hne allow,
   C02.verify_digest_outcomes_strings C Q hQ sigs dg hne allow,
   C02.verify_digest_outcomes_der C Q hQ sig dg hne allow,
   C02.verify_outcomes C Q hQ H hH _ sigdecodeString_errors sig data allow,
   C02.verify_outcomes C Q hQ H hH _ sigdecodeStrings_errors sigs data allow,
   C02.verify_outcomes C Q hQ H hH _ derErrorsCaught sig data allow⟩

/-- the same on the point-arithmetic model for every row of the generated curve table (all 17 curves; hypotheses: `p`,
`n` prime; the base-point order is checked by the kernel, `Proofs/NamedCurves`), for any key object `Q` that denotes an
element of ⟨G⟩ -/
theorem verify_total_all_decoders_named (r : Gen.CurveRow) (hr : r ∈ Gen.curveTable) [Fact r.p.Prime] (hn : r.n.Prime)
    (Q : Curve.Pt) (hQ : OnCurve.Valid (Named.baseCtx r (Named.checked_of_mem hr)) Q)
    (sig : Bytes) (sigs : List Bytes) (dg : Bytes) (hne : dg ≠ []) (H : Bytes → Bytes) (hH : ∀ m, H m ≠ [])
    (data : Bytes) (allow : Bool) :
    VerifyOutcome (verifyDigest (OnCurve.ops (Named.crvOf r)) Q Util.sigdecodeString sig dg allow) ∧
    VerifyOutcome (verifyDigest (OnCurve.ops (Named.crvOf r)) Q Util.sigdecodeStrings sigs dg allow) ∧
    VerifyOutcome (verifyDigest (OnCurve.ops (Named.crvOf r)) Q Util.sigdecodeDer sig dg allow) ∧
    VerifyOutcome (verify (OnCurve.ops (Named.crvOf r)) Q H Util.sigdecodeString sig data allow) ∧
    VerifyOutcome (verify (OnCurve.ops (Named.crvOf r)) Q H Util.sigdecodeStrings sigs data allow) ∧
    VerifyOutcome (verify (OnCurve.ops (Named.crvOf r)) Q H Util.sigdecodeDer sig data allow) :=
  verify_total_all_decoders
    (OnCurve.pointOpsCorrect (Named.crvOf r) _ (Named.matches_row (Named.checked_of_mem hr) hn)) Q hQ
    sig sigs dg hne H hH data allow

end Verify

/-! ## the ECDH loaders (`Model/Ecdh.lean` with the Keys model as key constructors) -/

/-- the documented failures of the ECDH loaders -/
theorem ecdh_documented_iff (e : PyErr) :
    EcdhDocumented e ↔ (e = .unexpectedDER ∨ e = .malformedPoint ∨ e = .unknownCurve) ∨ e = .invalidCurve := Iff.rfl

/-- `ECDH.load_private_key_bytes/_der/_pem` and `load_received_public_key_bytes/_der/_pem` on the state machine of
`Model/Ecdh.lean`, for ANY environment whose six key constructors are the Keys model's loaders (`LoadersAreKeys`; the
point operations and `generate` are arbitrary): each call returns, or raises `MalformedPointError` / `UnexpectedDER` /
`UnknownCurveError` / `InvalidCurveError`; the byte-string loaders need a curve (of the table) to be set, and
`load_private_key_bytes` without a curve raises `NoCurveError`.  (`load_received_public_key_bytes` without a curve is
`AttributeError` in code and model — an ECDH object without curve is outside the property, DESIGN §2 observations.) -/
theorem ecdh_loaders_total {Pt Ent : Type} (E : Ext) (hE : ExtOK E) (mkPt : Curve → Nat → Nat → Pt)
    (env : Ecdh.Env Curve Pt Ent) (hk : LoadersAreKeys E mkPt env) (s : Ecdh.State Curve Pt) (b : Bytes) :
    (∀ op ∈ [Ecdh.Op.loadPrivDer b, .loadPrivPem b, .loadPubDer b, .loadPubPem b],
      ∀ e, (Ecdh.step env s op).2 = .error e → EcdhDocumented e) ∧
    (∀ c, s.curve = some c → c ∈ Gen.curveTable → ∀ op ∈ [Ecdh.Op.loadPrivBytes b, .loadPubBytes b],
      ∀ e, (Ecdh.step env s op).2 = .error e → EcdhDocumented e) ∧
    (s.curve = none → (Ecdh.step env s (.loadPrivBytes b)).2 = .error .noCurve) := by
  refine ⟨?_, ?_, ?_⟩
  · intro op hop e h
    obtain ⟨h1, h2, h3, h4, _, _⟩ := ecdh_loaders_err E hE.1 hE.2 mkPt env hk s b e
    simp only [List.mem_cons, List.not_mem_nil, or_false] at hop
    rcases hop with rfl | rfl | rfl | rfl
    · exact h1 h
    · exact h2 h
    · exact h3 h
    · exact h4 h
  · intro c hc hmem op hop e h
    obtain ⟨_, _, _, _, h5, _⟩ := ecdh_loaders_err E hE.1 hE.2 mkPt env hk s b e
    simp only [List.mem_cons, List.not_mem_nil, or_false] at hop
    rcases hop with rfl | rfl
    · exact (h5 c hc hmem).1 h
    · exact (h5 c hc hmem).2 h
  · exact (ecdh_loaders_err E hE.1 hE.2 mkPt env hk s b .other).2.2.2.2.2

/-- the one state in which an ECDH loader of the model leaves the documented set — stated, not hidden:
`load_received_public_key_bytes` on an object WITHOUT a curve evaluates `None.verifying_key_length` → `AttributeError`,
for every byte string (code and model agree; the private twin raises the documented `NoCurveError`).  C10 is claimed for
ECDH objects with a curve set. -/
theorem ecdh_pub_bytes_without_curve {Pt Ent : Type} (env : Ecdh.Env Curve Pt Ent) (s : Ecdh.State Curve Pt) (b : Bytes)
    (h : s.curve = none) : Ecdh.step env s (.loadPubBytes b) = (s, .error .attributeError) := by
  simp only [Ecdh.step, h]

/-- the instantiation: an `Ecdh.Env` built from the composed Keys model (`KeysWire.modelExt`) for any point operations
satisfies `LoadersAreKeys`, and `ExtOK` holds for it given only `p`, `n` prime on the table — so `ecdh_loaders_total`
applies with no other hypothesis -/
theorem ecdh_loaders_total_model {Pt Ent : Type} (hprime : ∀ c ∈ Gen.curveTable, c.p.Prime ∧ c.n.Prime)
    (mkPt : Curve → Nat → Nat → Pt) (mul : Pt → Int → Res Pt) (isInf : Pt → Bool) (xOf : Pt → Res Int)
    (generate : Curve → Ent → Res (Ecdh.SKey Curve Pt)) :
    LoadersAreKeys KeysWire.modelExt mkPt (ecdhEnv KeysWire.modelExt mkPt mul isInf xOf generate) ∧
      ExtOK KeysWire.modelExt :=
  ⟨ecdhEnv_loaders _ _ _ _ _ _, (all_loaders_total_model hprime).1⟩

/-- **the environment the model driver runs** (`EcdhWire.env cs`, hist's `Model/EcdhWire.lean`: curve objects are indices
into the history's list `cs`, key constructors = `Model/Keys.lean` with `KeysWire.modelExt`, DER / PEM keys located in `cs`):
the six loaders fail only with the documented errors.  Its curve type is `Nat`, so it is not an instance of
`LoadersAreKeys` (curve type `Keys.Curve`); the statement is proved for it directly.  Hypotheses: the table's field primes
are prime, the history's curve objects are table rows and every table row is in the history (otherwise `locate` answers
the driver artefact `.other`). -/
theorem ecdh_loaders_total_driver (cs : Array EcdhWire.CParams) (hprime : ∀ c ∈ Gen.curveTable, c.p.Prime)
    (hrows : ∀ i, i < cs.size → cs[i]! ∈ Gen.curveTable) (hcov : CoversTable cs)
    (s : Ecdh.State Nat EcdhWire.WPt) (b : Bytes) :
    (∀ op ∈ [Ecdh.Op.loadPrivDer b, .loadPrivPem b, .loadPubDer b, .loadPubPem b],
      ∀ e, (Ecdh.step (EcdhWire.env cs) s op).2 = .error e → EcdhDocumented e) ∧
    (∀ c, s.curve = some c → ∀ e, (Ecdh.step (EcdhWire.env cs) s (.loadPrivBytes b)).2 = .error e → EcdhDocumented e) ∧
    (∀ c, s.curve = some c → c < cs.size →
      ∀ e, (Ecdh.step (EcdhWire.env cs) s (.loadPubBytes b)).2 = .error e → EcdhDocumented e) ∧
    (s.curve = none → (Ecdh.step (EcdhWire.env cs) s (.loadPrivBytes b)).2 = .error .noCurve) := by
  refine ⟨?_, ?_, ?_, ?_⟩
  · intro op hop e h
    obtain ⟨h1, h2, h3, h4, _, _⟩ := ecdh_driver_loaders_err cs hprime hrows hcov s b e
    simp only [List.mem_cons, List.not_mem_nil, or_false] at hop
    rcases hop with rfl | rfl | rfl | rfl
    · exact h1 h
    · exact h2 h
    · exact h3 h
    · exact h4 h
  · intro c hc e h
    exact ((ecdh_driver_loaders_err cs hprime hrows hcov s b e).2.2.2.2.1 c hc).1 h
  · intro c hc hlt e h
    exact ((ecdh_driver_loaders_err cs hprime hrows hcov s b e).2.2.2.2.1 c hc).2 hlt h
  · exact (ecdh_driver_loaders_err cs hprime hrows hcov s b .other).2.2.2.2.2

/-- non-vacuity: the history consisting of the whole generated table satisfies the two structural hypotheses -/
example : (∀ i, i < Gen.curveTable.toArray.size → Gen.curveTable.toArray[i]! ∈ Gen.curveTable) ∧
    CoversTable Gen.curveTable.toArray := by
  constructor
  · decide +kernel
  · unfold CoversTable; decide +kernel

end C10
