import Props.C05
import Props.C08
import Model.EcdhWire
import Props.NamedPrimes
/-!
# C05 (key-loader half) — `remote_validated` for the environment linked into the model driver

`Props/C05.lean` proves `remote_validated` for any environment whose public-key constructors validate
(`LoadersValidate env Valid`).  Here that hypothesis is **proved** for `EcdhWire.env` — the environment the
correspondence run compares with the real code, whose constructors are `Model/Keys.lean` with externals from the models —
using C08's acceptance theorems: a key that entered through `from_string` / `from_der` / `from_pem` has coordinates
below `p`, satisfies the curve equation (the generated `contains_point` text) and, for cofactor ≠ 1, passed the code's
subgroup test (K2: on SECP112r2 that test also passes for the points of order 2 and 2n).

Hypotheses left: the field primes of the curves in play are odd primes and the orders non-zero (for the 17 named curves
oddness and `n ≠ 0` are checked on the generated table by C08; primality is the SEC 2 / FIPS fact of `Props/NamedPrimes`).
-/
namespace C05k
open Ecdh Keys

/-- what the code's public-key validation establishes about the point a key holds -/
def Valid (vk : EcdhWire.VK) : Prop :=
  ∃ (c : Keys.Curve) (x y : Nat),
    vk.point = .jac { curve := EcdhWire.fpOf c, x := x, y := y, z := 1, order := some c.n, generator := false } ∧
    x < c.p ∧ y < c.p ∧ onCurve c x y = true ∧ (c.h ≠ 1 → KeysWire.subgroupOkModel c x y = true)

/-- the curves a key constructor can meet: the rows in play, and those rows of the generated table that a DER/PEM
key can be attached to in this history (the ones found in the curve list by name) -/
def CurvesOK (cs : Array EcdhWire.CParams) : Prop :=
  (∀ i, i < cs.size → (cs[i]!).p.Prime ∧ (cs[i]!).p % 2 = 1 ∧ (cs[i]!).n ≠ 0) ∧
  (∀ c ∈ Gen.curveTable, EcdhWire.indexOfCurve cs c ≠ none → c.p.Prime)

theorem valid_of_fromString (c : Keys.Curve) (hp : c.p.Prime) (hodd : c.p % 2 = 1) (hn : c.n ≠ 0) (b : Bytes) (k : Keys.VK)
    (i : Nat) (h : VK.fromString KeysWire.modelExt c b true = .ok k) : Valid (EcdhWire.ofKeysVK i k) := by
  have hp2 : c.p ≠ 2 := by intro h2; rw [h2] at hodd; cases hodd
  obtain ⟨hc, _, hx, hy, hon, hsub⟩ :=
    (C08.from_string_accepts_iff_partial KeysWire.modelExt c hp hodd hn (KeysP.sqrtSpec_modelExt c.p hp hp2) b k).1 h
  exact ⟨k.curve, k.x, k.y, rfl, by rw [hc]; exact hx, by rw [hc]; exact hy, by rw [hc]; exact hon,
    by rw [hc]; exact hsub⟩

/-- an accepted key carries the curve it was decoded for (no hypothesis) -/
theorem fromString_curve (E : Ext) (c : Keys.Curve) (s : Bytes) (v : Bool) (k : Keys.VK)
    (h : VK.fromString E c s v = .ok k) : k.curve = c := by
  unfold VK.fromString at h
  cases hd : decodePoint E c s v with
  | error e => simp [hd] at h
  | ok xy =>
    obtain ⟨x, y⟩ := xy
    simp only [hd] at h
    unfold fromPublicPoint at h
    split at h
    · cases h
    · split at h
      · cases h
      · split at h
        · cases h
        · split at h
          · cases h
          · cases h; rfl

theorem valid_of_fromDer (cs : Array EcdhWire.CParams)
    (htab : ∀ c ∈ Gen.curveTable, EcdhWire.indexOfCurve cs c ≠ none → c.p.Prime) (b : Bytes) (k : Keys.VK) (i : Nat)
    (hi : EcdhWire.indexOfCurve cs k.curve = some i)
    (h : VK.fromDer KeysWire.modelExt b = .ok k) : Valid (EcdhWire.ofKeysVK i k) := by
  obtain ⟨c, hc, pt, _, _, hfs⟩ := (C08.from_der_accepts_iff_partial KeysWire.modelExt b k).1 h
  -- the accepted key carries the curve of its OID
  have hodd := (C08.table_p_odd c hc).1
  have hkc : k.curve = c := fromString_curve KeysWire.modelExt c pt true k hfs
  have hp : c.p.Prime := htab c hc (by rw [← hkc, hi]; simp)
  exact valid_of_fromString c hp hodd (C08.table_p_odd c hc).2 pt k i hfs

theorem locate_ok {α β} {cs : Array EcdhWire.CParams} {r : Res α} {crv : α → Keys.Curve} {f : Nat → α → β} {v : β}
    (h : EcdhWire.locate cs r crv f = .ok v) : ∃ k i, r = .ok k ∧ EcdhWire.indexOfCurve cs (crv k) = some i ∧ v = f i k := by
  unfold EcdhWire.locate at h
  cases r with
  | error e => cases h
  | ok k =>
    cases hi : EcdhWire.indexOfCurve cs (crv k) with
    | none => simp [hi] at h
    | some i => simp only [hi, Except.ok.injEq] at h; exact ⟨k, i, rfl, hi, h.symm⟩

/-- **LoadersValidate for the driver's environment** -/
theorem driver_loaders_validate (cs : Array EcdhWire.CParams) (hcs : CurvesOK cs) :
    C05.LoadersValidate (EcdhWire.env cs) Valid := by
  refine ⟨?_, ?_, ?_⟩
  · intro c b vk h
    simp only [EcdhWire.env] at h
    by_cases hc : c < cs.size
    · simp only [hc, if_true] at h
      cases hk : VK.fromString KeysWire.modelExt cs[c]! b true with
      | error e => simp [hk, Except.map] at h
      | ok k =>
        simp only [hk, Except.map, Except.ok.injEq] at h
        subst h
        obtain ⟨hp, hodd, hn⟩ := hcs.1 c hc
        exact valid_of_fromString _ hp hodd hn b k c hk
    · simp [hc] at h
  · intro b vk h
    obtain ⟨k, i, hk, hi, rfl⟩ := locate_ok h
    exact valid_of_fromDer cs hcs.2 b k i hi hk
  · intro b vk h
    obtain ⟨k, i, hk, hi, rfl⟩ := locate_ok h
    rw [C08.from_pem_is_from_der_of_unpem] at hk
    cases hu : unpem KeysWire.modelExt b with
    | error e => simp [hu] at hk
    | ok d =>
      simp only [hu] at hk
      exact valid_of_fromDer cs hcs.2 d k i hi hk

/-- **remote_validated for the driver's environment**: over every history of calls, the remote key the ECDH object
holds is one it held initially, one passed in as an object, or a point that passed the code's validation -/
theorem remote_validated_driver (cs : Array EcdhWire.CParams) (hcs : CurvesOK cs)
    (s0 : State Nat EcdhWire.WPt) (ops : List (Op Nat EcdhWire.WPt Int)) (vk : EcdhWire.VK)
    (h : (run (EcdhWire.env cs) s0 ops).pub = some vk) :
    s0.pub = some vk ∨ Op.loadPub vk ∈ ops ∨ Valid vk :=
  C05.remote_validated (EcdhWire.env cs) Valid (driver_loaders_validate cs hcs) s0 ops vk h

/-- non-vacuity: a real curve list — a toy `Curve` object and the module-level NIST P-256 — satisfies `CurvesOK` with NO
hypothesis left (11 is prime; the field prime of P-256 carries the certificate of `Props/NamedPrimes`; the only row of the
generated table a DER/PEM key can be attached to in this list is P-256 itself) -/
def toyRow : Keys.Curve :=
  { name := "toy", p := 11, a := 1, b := 6, gx := 2, gy := 4, n := 13, h := 1, oid := [], opensslName := none }

example : Valid (EcdhWire.ofKeysVK 0 ⟨toyRow, 2, 4⟩) :=
  ⟨toyRow, 2, 4, rfl, by decide, by decide, by decide, fun h => absurd rfl h⟩

theorem toy_curves_ok : CurvesOK #[toyRow, Gen.curve_NIST256p] := by
  refine ⟨?_, ?_⟩
  · intro i hi
    have : i = 0 ∨ i = 1 := by simp at hi; omega
    rcases this with rfl | rfl
    · exact ⟨by decide, by decide, by decide⟩
    · exact ⟨NamedPrimes.prime_p_NIST256p, by decide +kernel, by decide +kernel⟩
  · intro c hc hne
    have : c = Gen.curve_NIST256p := by
      revert c
      decide +kernel
    rw [this]; exact NamedPrimes.prime_p_NIST256p

/-- hence, unconditionally: over every history on these two curve objects, a remote key held by the ECDH object was passed
in as an object or passed the code's validation -/
theorem remote_validated_toy_and_p256 (s0 : State Nat EcdhWire.WPt) (ops : List (Op Nat EcdhWire.WPt Int)) (vk : EcdhWire.VK)
    (h : (run (EcdhWire.env #[toyRow, Gen.curve_NIST256p]) s0 ops).pub = some vk) :
    s0.pub = some vk ∨ Op.loadPub vk ∈ ops ∨ Valid vk :=
  remote_validated_driver _ toy_curves_ok s0 ops vk h

end C05k
