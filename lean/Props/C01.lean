import Proofs.EcdsaInstLegacy
import Proofs.EcdsaCodec
import Proofs.EcdsaInstNamed
import Proofs.EcdsaInstToy
import Proofs.EcdsaInstCurve
import Proofs.EcdsaEntry
import Proofs.EcdsaKeys
import Proofs.EcdsaToy
/-!
# C01 — every signature the library makes verifies under the matching public key

For every secret `d` with public point `Q` denoting `d • G`, every digest / message, every nonce source, every
encoder/decoder pair that round-trips (`Codec`: the decoder returns `r` and `s` or `n − s` — the facts C12 / C13
prove about the six encoders of `util.py`), every entry point, and equal truncation flags on both sides:
if signing returns a signature, verification returns `True`.

Nonce sources: an explicit `k`, or `randrange(order, entropy)` (any function: `sign_number` asserts `1 ≤ k < n`),
or RFC 6979's `generate_k` (any function of the retry counter; the `RSZeroError` retry loop is modelled with fuel,
the theorem covers every run that returns).  Hash functions are arbitrary (`H`), of any output length.
-/
namespace C01
open Ecdsa

variable {P : Type} {𝔾 : Type} [AddCommGroup 𝔾]
variable {ops : PointOps P} {G : 𝔾} {den : P → 𝔾} {xc : 𝔾 → Option ℤ} {valid : P → Prop}

/-- integer level (`Private_key.sign` → `Public_key.verifies`), every nonce not divisible by `n`.
Algebra: `u₁ + u₂ d ≡ s⁻¹(e + r d) ≡ k (mod n)`, so `R = k • G`. -/
theorem sign_then_verifies (C : PointOpsCorrect ops G den xc valid) (d e k r s : ℤ) (hk : ¬ ops.order ∣ k)
    (hsig : sign ops d e k = .ok (r, s)) (Q : P) (hQ : valid Q) (hQd : den Q = d • G) :
    verifies ops Q e r s = .ok true :=
  sign_verifies C d e k r s hk hsig Q hQ hQd

/-- entry point `sign_number` (+ manual encoding): explicit nonce or `randrange` -/
theorem sign_number_then_verifies (C : PointOpsCorrect ops G den xc valid) (d e : ℤ) (k : Option ℤ) (rand : ℤ → Res ℤ)
    (r s : ℤ) (hsig : signNumber ops d e k rand = .ok (r, s)) (Q : P) (hQ : valid Q) (hQd : den Q = d • G) :
    verifies ops Q e r s = .ok true :=
  (signNumber_verifies C d e k rand r s hsig Q hQ hQd).1

/-- entry point `sign_digest` → `verify_digest` -/
theorem sign_then_verify {β σ : Type} (C : PointOpsCorrect ops G den xc valid) (d : ℤ) (Q : P) (hQ : valid Q)
    (hQd : den Q = d • G) (dg : Bytes) (k : Option ℤ) (rand : ℤ → Res ℤ)
    (enc : ℤ → ℤ → ℤ → Res β) (wrap : β → σ) (dec : σ → ℕ → Res (ℕ × ℕ)) (hcodec : Codec enc wrap dec ops.order)
    (allow : Bool) (sig : β) (hsig : signDigest ops d dg k rand enc allow = .ok sig) :
    verifyDigest ops Q dec (wrap sig) dg allow = .ok true :=
  signDigest_verifies C d Q hQ hQd dg k rand enc wrap dec hcodec allow sig hsig

/-- entry point `sign` (hashing) → `verify` -/
theorem sign_data_then_verify {β σ : Type} (C : PointOpsCorrect ops G den xc valid) (d : ℤ) (Q : P) (hQ : valid Q)
    (hQd : den Q = d • G) (H : Bytes → Bytes) (data : Bytes) (k : Option ℤ) (rand : ℤ → Res ℤ)
    (enc : ℤ → ℤ → ℤ → Res β) (wrap : β → σ) (dec : σ → ℕ → Res (ℕ × ℕ)) (hcodec : Codec enc wrap dec ops.order)
    (allow : Bool) (sig : β) (hsig : signData ops d H data k rand enc allow = .ok sig) :
    verify ops Q H dec (wrap sig) data allow = .ok true :=
  signDigest_verifies C d Q hQ hQd (H data) k rand enc wrap dec hcodec allow sig hsig

/-- entry point `sign_digest_deterministic` → `verify_digest` (every run of the retry loop that returns) -/
theorem sign_digest_deterministic_then_verify {β σ : Type} (C : PointOpsCorrect ops G den xc valid) (d : ℤ) (Q : P)
    (hQ : valid Q) (hQd : den Q = d • G) (dg : Bytes) (genK : ℕ → Res ℤ)
    (enc : ℤ → ℤ → ℤ → Res β) (wrap : β → σ) (dec : σ → ℕ → Res (ℕ × ℕ)) (hcodec : Codec enc wrap dec ops.order)
    (allow : Bool) (fuel : ℕ) (sig : β)
    (hsig : signDigestDeterministic ops d dg genK enc allow fuel 0 = some (.ok sig)) :
    verifyDigest ops Q dec (wrap sig) dg allow = .ok true :=
  signDigestDeterministic_verifies C d Q hQ hQd dg genK enc wrap dec hcodec allow fuel 0 sig hsig

/-- entry point `sign_deterministic` (hashing, always truncating) → `verify` with its default `allow_truncate=True` -/
theorem sign_deterministic_then_verify {β σ : Type} (C : PointOpsCorrect ops G den xc valid) (d : ℤ) (Q : P)
    (hQ : valid Q) (hQd : den Q = d • G) (H : Bytes → Bytes) (data : Bytes) (genK : Bytes → ℕ → Res ℤ)
    (enc : ℤ → ℤ → ℤ → Res β) (wrap : β → σ) (dec : σ → ℕ → Res (ℕ × ℕ)) (hcodec : Codec enc wrap dec ops.order)
    (fuel : ℕ) (sig : β) (hsig : signDeterministic ops d H data genK enc fuel = some (.ok sig)) :
    verify ops Q H dec (wrap sig) data true = .ok true :=
  signDigestDeterministic_verifies C d Q hQ hQd (H data) (genK (H data)) enc wrap dec hcodec true fuel 0 sig hsig

/-- **the six encoders of `util.py`** (`sigencode_string`, `_strings`, `_der` and their `_canonize` variants) with
their decoders are codec pairs in the sense required above, for every order `2 ≤ n` (DER: `n ≤ 256^126 = 2^1008`, the
real bound of `der.encode_length`; every curve order is below `2^521`).  From the round-trip theorems of C12 and
`C13.model_canonize`. -/
theorem six_encoders_are_codecs (n : ℤ) (hn : 2 ≤ n) (hbig : n ≤ 256 ^ 126) :
    Codec encString id Util.sigdecodeString n
    ∧ Codec encStrings (fun p : Bytes × Bytes => [p.1, p.2]) Util.sigdecodeStrings n
    ∧ Codec encDer id Util.sigdecodeDer n
    ∧ Codec encStringCanonize id Util.sigdecodeString n
    ∧ Codec encStringsCanonize (fun p : Bytes × Bytes => [p.1, p.2]) Util.sigdecodeStrings n
    ∧ Codec encDerCanonize id Util.sigdecodeDer n :=
  ⟨codec_string n hn, codec_strings n hn, codec_der n hn hbig, codec_string_canonize n hn,
   codec_strings_canonize n hn, codec_der_canonize n hn hbig⟩

/-- hence, concretely: `sign_digest` with any of the six encoders, then `verify_digest` with the matching decoder -/
theorem sign_then_verify_six_encoders (C : PointOpsCorrect ops G den xc valid) (hbig : ops.order ≤ 256 ^ 126)
    (d : ℤ) (Q : P) (hQ : valid Q) (hQd : den Q = d • G) (dg : Bytes) (k : Option ℤ) (rand : ℤ → Res ℤ) (allow : Bool) :
    (∀ sig, signDigest ops d dg k rand encString allow = .ok sig →
        verifyDigest ops Q Util.sigdecodeString sig dg allow = .ok true)
    ∧ (∀ sig, signDigest ops d dg k rand encStrings allow = .ok sig →
        verifyDigest ops Q Util.sigdecodeStrings [sig.1, sig.2] dg allow = .ok true)
    ∧ (∀ sig, signDigest ops d dg k rand encDer allow = .ok sig →
        verifyDigest ops Q Util.sigdecodeDer sig dg allow = .ok true)
    ∧ (∀ sig, signDigest ops d dg k rand encStringCanonize allow = .ok sig →
        verifyDigest ops Q Util.sigdecodeString sig dg allow = .ok true)
    ∧ (∀ sig, signDigest ops d dg k rand encStringsCanonize allow = .ok sig →
        verifyDigest ops Q Util.sigdecodeStrings [sig.1, sig.2] dg allow = .ok true)
    ∧ (∀ sig, signDigest ops d dg k rand encDerCanonize allow = .ok sig →
        verifyDigest ops Q Util.sigdecodeDer sig dg allow = .ok true) := by
  obtain ⟨c1, c2, c3, c4, c5, c6⟩ := six_encoders_are_codecs ops.order C.two_le hbig
  exact ⟨fun sig h => sign_then_verify C d Q hQ hQd dg k rand _ id _ c1 allow sig h,
    fun sig h => sign_then_verify C d Q hQ hQd dg k rand _ _ _ c2 allow sig h,
    fun sig h => sign_then_verify C d Q hQ hQd dg k rand _ id _ c3 allow sig h,
    fun sig h => sign_then_verify C d Q hQ hQd dg k rand _ id _ c4 allow sig h,
    fun sig h => sign_then_verify C d Q hQ hQd dg k rand _ _ _ c5 allow sig h,
    fun sig h => sign_then_verify C d Q hQ hQd dg k rand _ id _ c6 allow sig h⟩

/-- the public point made by `from_secret_exponent` is a legitimate `Q` for all of the above -/
theorem key_pair_ok (C : PointOpsCorrect ops G den xc valid) (d : ℤ) (hd : 1 ≤ d ∧ d < ops.order) :
    ∃ Q, fromSecretExponent ops d = .ok Q ∧ valid Q ∧ den Q = d • G :=
  (fromSecretExponent_spec C d).1 hd

/-! ### non-vacuity (toy group of order 7): d = 3, digest a0 (e = 5), k = 2, raw-string encoding -/
example : fromSecretExponent Toy.ops 3 = .ok (3 : ZMod 7)
    ∧ signDigest Toy.ops 3 [0xa0] (some 2) (fun _ => .error .other) encString true = .ok [2, 2]
    ∧ verifyDigest Toy.ops (3 : ZMod 7) Util.sigdecodeString [2, 2] [0xa0] true = .ok true
    -- the retry loop: digest 20 (e = 1), generate_k yields 2 (s = 0: RSZeroError, retry) then 3
    ∧ sign Toy.ops 3 1 2 = .error .rsZero
    ∧ signDigestDeterministic Toy.ops 3 [0x20] (fun i => .ok (i + 2 : ℕ)) encString true 5 0 = some (.ok [3, 1])
    ∧ verifyDigest Toy.ops (3 : ZMod 7) Util.sigdecodeString [3, 1] [0x20] true = .ok true := by
  decide +kernel

/-! ### the same, for the model of the real point classes
`Ecdsa.OnCurve.ops c` is what the model driver executes (`Model/EcdsaCurve.lean` over `Model/Curve.lean`: the
`PointJacobi` code as written).  `OnCurve.Matches c C`: odd prime field `p`, the curve parameters of `c`, a group
context `C` (Mathlib's curve group, base point `C.G` with `n • G = 0`, `n` an odd prime) and the generator object
denotes `C.G`; point objects are `OnCurve.Valid` (INFINITY or a `PointJacobi` denoting an element of ⟨G⟩, declared
order `n` or none).  The interface `PointOpsCorrect` is *proved* for it (Proofs/EcdsaInstCurve.lean, from C06/C07). -/
section OnCurve
open GroupInterface
variable {p : ℕ} [Fact p.Prime] {a b : ℤ}

theorem sign_then_verify_on_curve {β σ : Type} (c : Affine.Crv) (C : Ctx p a b) (M : OnCurve.Matches c C)
    (d : ℤ) (hd : 1 ≤ d ∧ d < c.n) (dg : Bytes) (k : Option ℤ) (rand : ℤ → Res ℤ)
    (enc : ℤ → ℤ → ℤ → Res β) (wrap : β → σ) (dec : σ → ℕ → Res (ℕ × ℕ)) (hcodec : Codec enc wrap dec c.n)
    (allow : Bool) (sig : β) (hsig : signDigest (OnCurve.ops c) d dg k rand enc allow = .ok sig) :
    ∃ Q, fromSecretExponent (OnCurve.ops c) d = .ok Q ∧
      verifyDigest (OnCurve.ops c) Q dec (wrap sig) dg allow = .ok true := by
  obtain ⟨Q, hQ, vQ, dQ⟩ := key_pair_ok (OnCurve.pointOpsCorrect c C M) d hd
  exact ⟨Q, hQ, sign_then_verify (OnCurve.pointOpsCorrect c C M) d Q vQ dQ dg k rand enc wrap dec hcodec allow sig hsig⟩

example : ∃ C : Ctx 11 1 6, OnCurve.Matches OnCurve.toyCrv C := OnCurve.toy_matches

end OnCurve

/-! ### the named curves
For each of the 16 named curves with cofactor 1 (rows of `Generated/Curves.lean`, re-extracted from the source on
every run) the only hypotheses left are the SEC 2 / FIPS 186 / RFC 5639 facts **p prime, n prime, #E(𝔽_p) = n**
(DESIGN §4); generator on the curve, reduced coordinates, Δ ≠ 0, h = 1 are computed by the kernel
(`OnCurve.rowCheck_named`), `n • G = 0` is Lagrange, ⟨G⟩ is the whole group. -/
section Named
open GroupInterface

theorem sign_then_verify_named (row : Gen.CurveRow) (hrow : row ∈ [Gen.curve_NIST192p, Gen.curve_NIST224p, Gen.curve_NIST256p, Gen.curve_NIST384p,
      Gen.curve_NIST521p, Gen.curve_SECP256k1, Gen.curve_BRAINPOOLP160r1, Gen.curve_BRAINPOOLP192r1,
      Gen.curve_BRAINPOOLP224r1, Gen.curve_BRAINPOOLP256r1, Gen.curve_BRAINPOOLP320r1, Gen.curve_BRAINPOOLP384r1,
      Gen.curve_BRAINPOOLP512r1, Gen.curve_SECP112r1, Gen.curve_SECP128r1, Gen.curve_SECP160r1])
    [Fact row.p.Prime] (hnp : row.n.Prime)
    (hcard : Nat.card (Jac.Grp ((row.a : ℤ) : ZMod row.p) ((row.b : ℤ) : ZMod row.p)) = row.n)
    {β σ : Type} (d : ℤ) (hd : 1 ≤ d ∧ d < row.n) (dg : Bytes) (k : Option ℤ) (rand : ℤ → Res ℤ)
    (enc : ℤ → ℤ → ℤ → Res β) (wrap : β → σ) (dec : σ → ℕ → Res (ℕ × ℕ)) (hcodec : Codec enc wrap dec row.n)
    (allow : Bool) (sig : β)
    (hsig : signDigest (OnCurve.ops (OnCurve.crvOfRow row)) d dg k rand enc allow = .ok sig) :
    ∃ Q, fromSecretExponent (OnCurve.ops (OnCurve.crvOfRow row)) d = .ok Q ∧
      verifyDigest (OnCurve.ops (OnCurve.crvOfRow row)) Q dec (wrap sig) dg allow = .ok true := by
  obtain ⟨C, M, hn⟩ := OnCurve.matchesRec_of_row row hnp hcard (OnCurve.rowCheck_named row hrow)
  exact sign_then_verify_on_curve _ C M.toMatches d hd dg k rand enc wrap dec hcodec allow sig hsig

end Named

/-! ### user-built curves whose generator is a legacy affine `Point` (no `mul_add`)
`Public_key.verifies` then computes `u1 * G + u2 * Q` with `Point.__mul__`, `PointJacobi.__mul__` and the mixed
`__add__` / `__radd__` dispatch; `from_public_point` converts the key with `PointJacobi.from_affine`.  The interface is
proved for this configuration too (Proofs/EcdsaInstLegacy.lean: `OnCurve.pointOpsCorrect_legacy`, point objects
`OnCurve.ValidL` = INFINITY, `PointJacobi` or `Point` values of ⟨G⟩). -/
section Legacy
open GroupInterface
variable {p : ℕ} [Fact p.Prime] {a b : ℤ}

theorem sign_then_verify_legacy {β σ : Type} (c : Affine.Crv) (C : Ctx p a b) (M : OnCurve.MatchesL c C)
    (d : ℤ) (hd : 1 ≤ d ∧ d < c.n) (dg : Bytes) (k : Option ℤ) (rand : ℤ → Res ℤ)
    (enc : ℤ → ℤ → ℤ → Res β) (wrap : β → σ) (dec : σ → ℕ → Res (ℕ × ℕ)) (hcodec : Codec enc wrap dec c.n)
    (allow : Bool) (sig : β) (hsig : signDigest (OnCurve.ops c) d dg k rand enc allow = .ok sig) :
    ∃ Q, fromSecretExponent (OnCurve.ops c) d = .ok Q ∧
      verifyDigest (OnCurve.ops c) Q dec (wrap sig) dg allow = .ok true := by
  obtain ⟨Q, hQ, vQ, dQ⟩ := key_pair_ok (OnCurve.pointOpsCorrect_legacy c C M) d hd
  exact ⟨Q, hQ, sign_then_verify (OnCurve.pointOpsCorrect_legacy c C M) d Q vQ dQ dg k rand enc wrap dec hcodec allow sig hsig⟩

example : ∃ C : Ctx 11 1 6, OnCurve.MatchesL OnCurve.toyCrvL C := OnCurve.toy_matchesL

end Legacy

/-! ### evaluated on the model of the REAL point classes (closed instance, no hypothesis; kernel evaluation through
`PointJacobi.__mul__` / `mul_add` / `x()` as written): toy curve y² = x³ + x + 6 over 𝔽₁₁, G = (2,7), n = 13,
driver token `11,1,6,2,7,13,1,j`; secret d = 3, public point Q = 3G = (8,3) -/
set_option maxRecDepth 4000 in
example :
    let Q : Curve.Pt := .jac ⟨OnCurve.crvOf OnCurve.toyCrv, 8, 3, 1, some 13, false⟩
    fromSecretExponent (OnCurve.ops OnCurve.toyCrv) 3 = .ok Q
    ∧ signDigest (OnCurve.ops OnCurve.toyCrv) 3 [0x50] (some 2) (fun _ => .error .other) encDer true = .ok [48, 6, 2, 1, 5, 2, 1, 10]
    ∧ verifyDigest (OnCurve.ops OnCurve.toyCrv) Q Util.sigdecodeDer [48, 6, 2, 1, 5, 2, 1, 10] [0x50] true = .ok true
    -- low-S encoder: s = 10 > 13 // 2 is reflected to 3, and still verifies
    ∧ signDigest (OnCurve.ops OnCurve.toyCrv) 3 [0x50] (some 2) (fun _ => .error .other) encStringCanonize true = .ok [5, 3]
    ∧ verifyDigest (OnCurve.ops OnCurve.toyCrv) Q Util.sigdecodeString [5, 3] [0x50] true = .ok true := by
  decide +kernel

end C01
