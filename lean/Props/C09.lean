import Proofs.KeysRoundTrip
import Proofs.KeysDerCanon
import Proofs.KeysB64
import Proofs.KeysCanon
import Proofs.KeysInstPub
import Proofs.KeysDerGen
/-!
# C09 — keys round-trip through every serialisation and emit exact standard DER

Part 1 (this section): facts about the *generated* tables (`Generated/Curves.lean`, rewritten from the working tree
on every run) by kernel evaluation, and the raw-string layer.
-/
namespace C09
open Keys KeysP Gen Asn1Spec

/-! ## the curve / OID tables of the working tree (`decide +kernel` on the generated definitions) -/

/-- the OIDs of the named curves are pairwise distinct (so `find_curve` is injective on them) -/
theorem oids_pairwise_distinct : (curveTable.map (·.oid)).Nodup := by decide +kernel

/-- curve names are pairwise distinct -/
theorem names_pairwise_distinct : (curveTable.map (·.name)).Nodup := by decide +kernel

/-- `find_curve(c.oid)` returns `c` for every curve of the table -/
theorem find_curve_table : ∀ c ∈ curveTable, findCurve c.oid = .ok c := by decide +kernel

/-- the curve OIDs are different from the algorithm OIDs the private-key loader accepts -/
theorem curve_oids_not_algorithm_oids :
    ∀ c ∈ curveTable, c.oid ≠ oid_ecPublicKey ∧ c.oid ≠ oid_ecDH ∧ c.oid ≠ oid_ecMQV := by decide +kernel

/-- every base point satisfies its curve equation (generated text of `contains_point`) -/
theorem generator_on_curve : ∀ c ∈ curveTable, onCurve c c.gx c.gy = true := by decide +kernel

/-- the discriminant `4a³ + 27b²` does not vanish mod `p` -/
theorem discriminant_nonzero : ∀ c ∈ curveTable, Int.fmod (4 * c.a ^ 3 + 27 * c.b ^ 2) c.p ≠ 0 := by decide +kernel

/-- `p` is odd, `n ≠ 0`, base point coordinates reduced, cofactor positive -/
theorem table_sanity : ∀ c ∈ curveTable, c.p % 2 = 1 ∧ c.n ≠ 0 ∧ c.gx < c.p ∧ c.gy < c.p ∧ 0 < c.h ∧ 1 < c.n := by
  decide +kernel

/-- the coordinate length is never 1 (so the compressed form is never shadowed by the raw form) -/
theorem table_orderlen_ne_one : ∀ c ∈ curveTable, Util.orderlen c.p ≠ 1 := by decide +kernel

/-- `baselen`, `verifying_key_length`, `signature_length` as `Curve.__init__` computed them in the working tree are
what the model computes (`orderlen`) -/
theorem derived_lengths :
    curveTable.map (fun (c : Curve) => (c.name, c.baselen, c.vkLen, 2 * c.baselen))
      = curveDerived.map (fun d => (d.name, d.baselen, d.vkLen, d.sigLen)) := by decide +kernel

/-- `encoded_oid` as the code computed it is the model's `encode_oid` of the arcs -/
theorem derived_encoded_oid :
    curveTable.map (fun (c : Curve) => c.encodedOid) = curveDerived.map (fun d => Except.ok d.encodedOid) := by decide +kernel

/-- the module constant `encoded_oid_ecPublicKey` is `encode_oid(*oid_ecPublicKey)` -/
theorem encoded_oid_ecPublicKey_eq : encodeOidList oid_ecPublicKey = .ok encoded_oid_ecPublicKey := by decide +kernel

/-! ## raw strings -/

/-- `VerifyingKey.to_string(enc)` is the SEC 1 encoding with fixed-length big-endian coordinates -/
theorem vk_to_string_fixedlen (k : VK) (hx : k.x < k.curve.p) (hy : k.y < k.curve.p) (enc : PointEnc) :
    k.toString enc = .ok (encBytes k enc) ∧
    (encBytes k enc).length = (match enc with
      | .raw => 2 * Util.orderlen k.curve.p
      | .compressed => Util.orderlen k.curve.p + 1
      | _ => 2 * Util.orderlen k.curve.p + 1) :=
  ⟨toString_ok k hx hy enc, encBytes_length k enc⟩

/-- `SigningKey.to_string()` is the scalar on exactly `orderlen n` bytes -/
theorem sk_to_string_fixedlen (k : SK) (h : k.d < k.curve.n) :
    k.toString = .ok (beFixed (Util.orderlen k.curve.n) k.d) ∧
      (beFixed (Util.orderlen k.curve.n) k.d).length = Util.orderlen k.curve.n ∧
      beVal (beFixed (Util.orderlen k.curve.n) k.d) = k.d :=
  ⟨sk_toString_ok k h, beFixed_length _ _, beVal_beFixed_of_lt _ _ (Nat.lt_trans h (lt_pow_orderlen _))⟩

/-- `from_string(to_string(vk, enc)) = vk` on every curve of the table, every point encoding.
Hypotheses: `p` prime (SEC 2 fact), the square-root contract (C15), the key is valid. -/
theorem vk_from_string_to_string (E : Ext) (k : VK) (hc : k.curve ∈ curveTable) (hp : k.curve.p.Prime)
    (hsqrt : SqrtSpec E.sqrtModP k.curve.p) (hv : ValidPoint E k.curve k.x k.y) (enc : PointEnc) :
    ∃ bs, k.toString enc = .ok bs ∧ VK.fromString E k.curve bs true = .ok k :=
  fromString_toString E k hp (table_sanity _ hc).1 (table_sanity _ hc).2.1 hsqrt hv enc
    (fun _ => table_orderlen_ne_one _ hc)

/-- `SigningKey.from_string(sk.to_string()) = sk` for every `d ∈ [1, n-1]` -/
theorem sk_from_string_to_string (E : Ext) (k : SK) (hw : SK.WF E k) :
    ∃ bs, k.toString = .ok bs ∧ SK.fromString E k.curve bs = .ok k :=
  sk_fromString_toString E k hw

/-! ## exact standard DER (byte equality with the abstract-syntax encoder of `Proofs/Asn1.lean`) -/

/-- the generated `oid_ecPublicKey` is RFC 5480's `id-ecPublicKey`; `encoded_oid_ecPublicKey` is its DER -/
theorem oid_ecPublicKey_is_rfc5480 :
    oid_ecPublicKey = id_ecPublicKey ∧ encoded_oid_ecPublicKey = Asn1.enc (.oid id_ecPublicKey) :=
  ⟨oid_ecPublicKey_spec, encoded_oid_ecPublicKey_spec⟩

/-- every curve's `encoded_oid` is the DER of its arcs -/
theorem encoded_oid_is_der : ∀ c ∈ curveTable, Curve.encodedOid c = .ok (Asn1.enc (.oid c.oid)) := table_encodedOid

/-- `VerifyingKey.to_der(enc)` = DER of `SubjectPublicKeyInfo { { id-ecPublicKey, namedCurve }, BIT STRING point }`
(RFC 5480) with the fixed-length SEC 1 point encoding; `enc = "raw"` raises `ValueError` -/
theorem vk_to_der_is_spki (k : VK) (hc : k.curve ∈ curveTable) (hx : k.x < k.curve.p) (hy : k.y < k.curve.p)
    (enc : PointEnc) :
    (enc ≠ .raw → k.toDer enc = .ok (spki k.curve.oid (encBytes k enc)).enc) ∧
    (enc = .raw → k.toDer enc = .error .valueError) :=
  ⟨vk_toDer_spki k hc hx hy enc, fun h => by subst h; rfl⟩

/-- `SigningKey.to_der(enc, "ssleay")` = DER of `ECPrivateKey { 1, OCTET STRING d (orderlen n bytes), [0] namedCurve,
[1] BIT STRING point }` (RFC 5915) -/
theorem sk_to_der_is_ecprivatekey (k : SK) (hc : k.curve ∈ curveTable) (hd : k.d < k.curve.n)
    (hvc : k.vk.curve = k.curve) (hx : k.vk.x < k.curve.p) (hy : k.vk.y < k.curve.p) (enc : PointEnc) (henc : enc ≠ .raw) :
    k.toDer enc .ssleay =
      .ok (ecPrivateKey (beFixed (Util.orderlen k.curve.n) k.d) k.curve.oid (encBytes k.vk enc)).enc :=
  sk_toDer_ssleay k hc hd hvc hx hy enc henc

/-- `SigningKey.to_der(enc, "pkcs8")` = DER of `OneAsymmetricKey { 1, { id-ecPublicKey, namedCurve }, OCTET STRING
(DER of that ECPrivateKey) }` (RFC 5958) -/
theorem sk_to_der_pkcs8_is_oneasymmetrickey (k : SK) (hc : k.curve ∈ curveTable) (hd : k.d < k.curve.n)
    (hvc : k.vk.curve = k.curve) (hx : k.vk.x < k.curve.p) (hy : k.vk.y < k.curve.p) (enc : PointEnc) (henc : enc ≠ .raw) :
    k.toDer enc .pkcs8 =
      .ok (oneAsymmetricKey (beFixed (Util.orderlen k.curve.n) k.d) k.curve.oid (encBytes k.vk enc)).enc :=
  sk_toDer_pkcs8 k hc hd hvc hx hy enc henc

/-! ## round trips through DER and PEM -/

/-- `VerifyingKey.from_der(vk.to_der(enc)) = vk`: every curve of the table, every valid key, every DER point encoding -/
theorem vk_from_der_to_der (E : Ext) (k : VK) (hc : k.curve ∈ curveTable) (hp : k.curve.p.Prime)
    (hsqrt : SqrtSpec E.sqrtModP k.curve.p) (hv : ValidPoint E k.curve k.x k.y) (enc : PointEnc) (henc : enc ≠ .raw) :
    ∃ bs, k.toDer enc = .ok bs ∧ VK.fromDer E bs = .ok k :=
  vk_fromDer_toDer E k hc hp (find_curve_table _ hc) (table_sanity _ hc).1 (table_sanity _ hc).2.1
    (table_orderlen_ne_one _ hc) hsqrt hv enc henc

/-- `SigningKey.from_der(sk.to_der(enc, fmt)) = sk`: every curve, every `d ∈ [1, n-1]`, both formats, every encoding -/
theorem sk_from_der_to_der (E : Ext) (k : SK) (hc : k.curve ∈ curveTable) (hw : SK.WF E k) (enc : PointEnc)
    (henc : enc ≠ .raw) (fmt : PrivFmt) :
    ∃ bs, k.toDer enc fmt = .ok bs ∧ SK.fromDer E bs = .ok k :=
  sk_fromDer_toDer E k hc (find_curve_table _ hc) hw enc henc fmt

/-- `der.unpem(der.topem(d, name)) = d` for a label without newline, given `b64decode(b64encode(d)) = d` (base64 is an
external function: the hypothesis is its contract; the text between the armour lines is proved to be exactly
`b64encode(d)`: `pemPayload_topem`) -/
theorem unpem_topem (E : Ext) (d name : Bytes) (hname : ∀ b ∈ name, b ≠ 10)
    (hb64 : E.b64decode (b64encode d) = some d) : unpem E (topem d name) = .ok d :=
  unpem_topem' E d name hname hb64

/-- `VerifyingKey.from_pem(vk.to_pem(enc)) = vk` -/
theorem vk_from_pem_to_pem (E : Ext) (k : VK) (hc : k.curve ∈ curveTable) (hp : k.curve.p.Prime)
    (hsqrt : SqrtSpec E.sqrtModP k.curve.p) (hv : ValidPoint E k.curve k.x k.y) (enc : PointEnc) (henc : enc ≠ .raw)
    (hb64 : ∀ d, E.b64decode (b64encode d) = some d) :
    ∃ pem, k.toPem enc = .ok pem ∧ VK.fromPem E pem = .ok k := by
  obtain ⟨bs, h1, h2⟩ := vk_from_der_to_der E k hc hp hsqrt hv enc henc
  exact vk_fromPem_toPem E k enc bs h1 h2 (hb64 bs)

/-- `SigningKey.from_pem(sk.to_pem(enc, fmt)) = sk` (the `EC PRIVATE KEY` header is not found inside a `PRIVATE KEY`
armour: `dropToSub_ec_in_p8`) -/
theorem sk_from_pem_to_pem (E : Ext) (k : SK) (hc : k.curve ∈ curveTable) (hw : SK.WF E k) (enc : PointEnc)
    (henc : enc ≠ .raw) (fmt : PrivFmt) (hb64 : ∀ d, E.b64decode (b64encode d) = some d) :
    ∃ pem, k.toPem enc fmt = .ok pem ∧ SK.fromPem E pem = .ok k := by
  obtain ⟨bs, h1, h2⟩ := sk_from_der_to_der E k hc hw enc henc fmt
  exact sk_fromPem_toPem E k enc fmt bs h1 h2 (hb64 bs)

/-- keys written by an independent (spec) encoder load to the same values: a spec-encoded SPKI loads as `from_string`
of its point bytes; spec-encoded ECPrivateKey and OneAsymmetricKey load as `from_string` of the scalar bytes — left-padded
with zeros to `baselen`, which does not change the scalar — independently of the public-point bytes they carry (so of
the point encoding chosen by the writer) -/
theorem loads_independent_encoding (E : Ext) (c : Curve) (hc : c ∈ curveTable) (skStr pt : Bytes)
    (hs : skStr.length ≤ 66) (hpt : pt.length ≤ 133) :
    SK.fromDer E (ecPrivateKey skStr c.oid pt).enc = SK.fromString E c (padLeft c skStr) ∧
    SK.fromDer E (oneAsymmetricKey skStr c.oid pt).enc = SK.fromString E c (padLeft c skStr) ∧
    beVal (padLeft c skStr) = beVal skStr ∧
    (pt.length ≠ c.vkLen → VK.fromDer E (spki c.oid pt).enc = VK.fromString E c pt true) :=
  ⟨(sk_fromDer_spec E c hc (find_curve_table _ hc) skStr pt hs hpt).1,
   (sk_fromDer_spec E c hc (find_curve_table _ hc) skStr pt hs hpt).2,
   (padLeft_spec c skStr).1,
   vk_fromDer_spec E c hc (find_curve_table _ hc) pt hpt⟩

/-- the other direction of the string round trip: an accepted byte string is exactly what `to_string` writes for the
accepted key in one of the four forms (one accepted encoding per key and form) -/
theorem vk_to_string_from_string (E : Ext) (c : Curve) (hc : c ∈ curveTable) (hp : c.p.Prime)
    (hsqrt : SqrtSpec E.sqrtModP c.p) (s : Bytes) (k : VK) (h : VK.fromString E c s true = .ok k) :
    ∃ enc, k.toString enc = .ok s := by
  obtain ⟨enc, he⟩ := fromString_ok_bytes E c hp (table_sanity _ hc).1 (table_sanity _ hc).2.1 hsqrt s k h
  obtain ⟨hcv, _, hv⟩ := (fromString_ok_iff E c hp (table_sanity _ hc).1 (table_sanity _ hc).2.1 hsqrt s k).mp h
  refine ⟨enc, ?_⟩
  rw [he]
  exact toString_ok k (by rw [hcv]; exact hv.1) (by rw [hcv]; exact hv.2.1) enc

/-- the driver's concrete model of CPython's lenient `base64.b64decode` inverts `b64encode` — so for that decoder the
PEM round trips need no base64 hypothesis -/
theorem b64decode_model_inverts_b64encode (d : Bytes) : b64decodeCPython (b64encode d) = some d :=
  b64decodeCPython_encode d

/-! ## everything together on the composed model

`KeysWire.modelExt` = the executable models of the other layers (square root: `NT.squareRootModPrime`; `n * point ==
INFINITY` and `generator * d`: `Curve.pjMul` on the generated kernels; base64: the model of CPython's decoder).  Their
contracts are theorems (C15 `sqrt_spec`; C07 `mul` via `GroupInterface`, base-point order checked by the kernel in
`Proofs/NamedCurves`; `b64decode_model_inverts_b64encode`), so the only hypotheses left are the SEC 2 / FIPS / RFC 5639
facts **p prime, n prime**. -/

/-- **every curve of the table × every d ∈ [1, n−1] × every point encoding × both private formats × raw string, DER,
PEM**: the key pair built from `d` exists, its public point is valid, and every serialisation of both keys loads back
to the same key -/
theorem all_round_trips_model (c : Curve) (hc : c ∈ curveTable) (hp : c.p.Prime) (hn : c.n.Prime) (d : Nat)
    (h1 : 1 ≤ d) (h2 : d < c.n) :
    ∃ k : SK, SK.fromSecretExponent KeysWire.modelExt c d = .ok k ∧ k.curve = c ∧ k.d = d ∧ k.vk.curve = c ∧
      ValidPoint KeysWire.modelExt c k.vk.x k.vk.y ∧
      (∃ bs, k.toString = .ok bs ∧ SK.fromString KeysWire.modelExt c bs = .ok k) ∧
      (∀ enc, ∃ bs, k.vk.toString enc = .ok bs ∧ VK.fromString KeysWire.modelExt c bs true = .ok k.vk) ∧
      (∀ enc, enc ≠ .raw →
        (∃ bs, k.vk.toDer enc = .ok bs ∧ VK.fromDer KeysWire.modelExt bs = .ok k.vk ∧
          ∃ pem, k.vk.toPem enc = .ok pem ∧ VK.fromPem KeysWire.modelExt pem = .ok k.vk) ∧
        (∀ fmt, ∃ bs, k.toDer enc fmt = .ok bs ∧ SK.fromDer KeysWire.modelExt bs = .ok k ∧
          ∃ pem, k.toPem enc fmt = .ok pem ∧ SK.fromPem KeysWire.modelExt pem = .ok k)) := by
  haveI := Fact.mk hp
  obtain ⟨x, y, hpub, hv⟩ := pubKey_model c hc hn d h1 h2
  have hodd := (table_sanity _ hc).1
  have hsq : SqrtSpec KeysWire.modelExt.sqrtModP c.p := sqrtSpec_modelExt c.p hp (by omega)
  have hb64 : ∀ bs, KeysWire.modelExt.b64decode (b64encode bs) = some bs := b64decodeCPython_encode
  let k : SK := ⟨c, d, ⟨c, x, y⟩⟩
  have hw : SK.WF KeysWire.modelExt k := ⟨h1, h2, rfl, hv.1, hv.2.1, hpub⟩
  have hv' : ValidPoint KeysWire.modelExt k.vk.curve k.vk.x k.vk.y := hv
  refine ⟨k, fromSecretExponent_ok _ k hw, rfl, rfl, rfl, hv, sk_from_string_to_string _ k hw, ?_, ?_⟩
  · intro enc
    exact vk_from_string_to_string _ k.vk hc hp hsq hv' enc
  · intro enc henc
    constructor
    · obtain ⟨bs, e1, e2⟩ := vk_from_der_to_der _ k.vk hc hp hsq hv' enc henc
      exact ⟨bs, e1, e2, vk_fromPem_toPem _ k.vk enc bs e1 e2 (hb64 bs)⟩
    · intro fmt
      obtain ⟨bs, e1, e2⟩ := sk_from_der_to_der _ k hc hw enc henc fmt
      exact ⟨bs, e1, e2, sk_fromPem_toPem _ k enc fmt bs e1 e2 (hb64 bs)⟩

/-! ### the PKCS#8 version field and the optional fields (RFC 5958 §2, RFC 5915 §3)

What the library WRITES for `format="pkcs8"` is `Asn1Spec.oneAsymmetricKey` = `oneAsymmetricKeyG` at **version 1 (v2)**
with the embedded ECPrivateKey carrying `[0] namedCurve` and `[1] publicKey` and **no** top-level optional field
(`pkcs8_written_form`).  RFC 5958 §2 ties v2 to the presence of the top-level `publicKey [1]`; without it a conforming
writer (OpenSSL) emits version 0.  So `sk_to_der_pkcs8_is_oneasymmetrickey` proves "canonical DER of the
OneAsymmetricKey syntax with version 1", and the version VALUE is a deviation from the RFC's rule (reported to the
coordinator; not a decoding problem: the loader accepts both).  What the library READS: -/

/-- the written form, in the general RFC shape -/
theorem pkcs8_written_form (d : Bytes) (curveOid : List Nat) (pt : Bytes) :
    oneAsymmetricKey d curveOid pt =
      oneAsymmetricKeyG 1 d curveOid [.ctx 0 (.oid curveOid), .ctx 1 (.bits 0 pt)] [] ∧
    ecPrivateKey d curveOid pt = ecPrivateKeyG d [.ctx 0 (.oid curveOid), .ctx 1 (.bits 0 pt)] :=
  ⟨rfl, rfl⟩

/-- **PKCS#8 files written by an independent encoder**: version 0 (RFC 5958 v1, what OpenSSL writes) AND version 1,
with any optional fields after `privateKey` (`[0] attributes`, `[1] publicKey`, …: `tail`) and any optional fields in the
embedded ECPrivateKey (`opts`: none, `[0] parameters`, `[1] publicKey`, both) load to the same key: `from_string` of the
left-padded scalar bytes on the curve named by the AlgorithmIdentifier -/
theorem loads_independent_encoding_pkcs8 (E : Ext) (c : Curve) (hc : c ∈ curveTable) (v : Nat) (hv : v = 0 ∨ v = 1)
    (d : Bytes) (opts tail : List Asn1) (hsize : (oneAsymmetricKeyG v d c.oid opts tail).enc.length < 65536) :
    SK.fromDer E (oneAsymmetricKeyG v d c.oid opts tail).enc = SK.fromString E c (padLeft c d) ∧
      beVal (padLeft c d) = beVal d :=
  ⟨sk_fromDer_pkcs8_general E c hc (find_curve_table _ hc) v hv d opts tail hsize, (padLeft_spec c d).1⟩

/-- in particular the version-0 and the version-1 rendering of the same key load to the same result -/
theorem pkcs8_version_irrelevant (E : Ext) (c : Curve) (hc : c ∈ curveTable) (d : Bytes) (opts tail : List Asn1)
    (h0 : (oneAsymmetricKeyG 0 d c.oid opts tail).enc.length < 65536)
    (h1 : (oneAsymmetricKeyG 1 d c.oid opts tail).enc.length < 65536) :
    SK.fromDer E (oneAsymmetricKeyG 0 d c.oid opts tail).enc = SK.fromDer E (oneAsymmetricKeyG 1 d c.oid opts tail).enc := by
  rw [(loads_independent_encoding_pkcs8 E c hc 0 (Or.inl rfl) d opts tail h0).1,
    (loads_independent_encoding_pkcs8 E c hc 1 (Or.inr rfl) d opts tail h1).1]

/-- **bare ECPrivateKey files**: `[0] namedCurve` present (the loader needs it), anything after it — with or without
`[1] publicKey` -/
theorem loads_independent_encoding_ecprivatekey (E : Ext) (c : Curve) (hc : c ∈ curveTable) (d : Bytes) (rest : List Asn1)
    (hsize : (ecPrivateKeyG d (.ctx 0 (.oid c.oid) :: rest)).enc.length < 65536) :
    SK.fromDer E (ecPrivateKeyG d (.ctx 0 (.oid c.oid) :: rest)).enc = SK.fromString E c (padLeft c d) :=
  sk_fromDer_ssleay_general E c hc (find_curve_table _ hc) d rest hsize

/-- non-vacuity: an OpenSSL-style PKCS#8 file (version 0, embedded ECPrivateKey without parameters, with publicKey) and
the version-1 file with a top-level `[0]` attributes field, for d = 1 on NIST P-256, both load to the key (d = 1, G) -/
example :
    let E : Ext := { subgroupOk := fun _ _ _ => true, sqrtModP := fun _ _ => .error .squareRoot,
                     pubPoint := fun c _ => some (c.gx, c.gy), b64decode := fun _ => none }
    let k : SK := ⟨curve_NIST256p, 1, ⟨curve_NIST256p, curve_NIST256p.gx, curve_NIST256p.gy⟩⟩
    SK.fromDer E (oneAsymmetricKeyG 0 (beFixed 32 1) curve_NIST256p.oid [.ctx 1 (.bits 0 (encBytes k.vk .uncompressed))] []).enc
      = .ok k ∧
    SK.fromDer E (oneAsymmetricKeyG 1 (beFixed 32 1) curve_NIST256p.oid [] [.ctx 0 (.seq [])]).enc = .ok k := by
  decide +kernel

/-- the loaded scalar: `from_string` of `baselen` bytes is `from_secret_exponent` of their big-endian value -/
theorem sk_from_string_value (E : Ext) (c : Curve) (s : Bytes) (h : s.length = c.baselen) :
    SK.fromString E c s = SK.fromSecretExponent E c (beVal s) := by
  have hl := orderlen_pos c.n
  unfold SK.fromString
  rw [if_neg (by omega)]
  have hne : s ≠ [] := by
    intro hh; subst hh; unfold Curve.baselen at h; simp at h; omega
  rw [stringToNumber_ok s hne]

/-- non-vacuity of the DER theorems: kernel evaluation of the model on a concrete NIST P-256 key (d = 1), both formats -/
example :
    let k : SK := ⟨curve_NIST256p, 1, ⟨curve_NIST256p, curve_NIST256p.gx, curve_NIST256p.gy⟩⟩
    k.toDer .compressed .pkcs8 = .ok (oneAsymmetricKey (beFixed 32 1) curve_NIST256p.oid (encBytes k.vk .compressed)).enc
    ∧ k.toDer .hybrid .ssleay = .ok (ecPrivateKey (beFixed 32 1) curve_NIST256p.oid (encBytes k.vk .hybrid)).enc := by
  decide +kernel

/-- non-vacuity: a well-formed signing key exists on NIST P-256 (d = 1, Q = G) for a suitable `pubPoint` -/
example : SK.WF { subgroupOk := fun _ _ _ => true, sqrtModP := fun _ _ => .error .squareRoot,
                  pubPoint := fun c _ => some (c.gx, c.gy), b64decode := fun _ => none }
    ⟨curve_NIST256p, 1, ⟨curve_NIST256p, curve_NIST256p.gx, curve_NIST256p.gy⟩⟩ := by
  unfold SK.WF; decide +kernel

end C09
