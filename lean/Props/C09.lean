import Proofs.KeysRoundTrip
/-!
# C09 — keys round-trip through every serialisation and emit exact standard DER

Part 1 (this section): facts about the *generated* tables (`Generated/Curves.lean`, rewritten from the working tree
on every run) by kernel evaluation, and the raw-string layer.
-/
namespace C09
open Keys KeysP Gen

/-! ## the curve / OID tables of the working tree (`decide +kernel` on the generated definitions) -/

/-- the OIDs of the named curves are pairwise distinct (so `find_curve` is injective on them) -/
theorem oids_pairwise_distinct : (curveTable.map (·.oid)).Nodup := by decide +kernel

/-- curve names are pairwise distinct -/
theorem names_pairwise_distinct : (curveTable.map (·.name)).Nodup := by decide +kernel

/-- `find_curve(c.oid)` returns `c` for every curve of the table -/
theorem find_curve_table : ∀ c ∈ curveTable, findCurve c.oid = .ok c := by decide +kernel

/-- the curve OIDs are different from the algorithm OIDs the private-key loader accepts -/
theorem curve_oids_not_algorithm_oids :
    ∀ c ∈ curveTable, c.oid ≠ oid_ecPublicKey ∧ c.oid ≠ oid_ecDH ∧ c.oid ≠ oid_ecMQV := by decide +kernel

/-- every base point satisfies its curve equation (generated text of `contains_point`) -/
theorem generator_on_curve : ∀ c ∈ curveTable, onCurve c c.gx c.gy = true := by decide +kernel

/-- the discriminant `4a³ + 27b²` does not vanish mod `p` -/
theorem discriminant_nonzero : ∀ c ∈ curveTable, Int.fmod (4 * c.a ^ 3 + 27 * c.b ^ 2) c.p ≠ 0 := by decide +kernel

/-- `p` is odd, `n ≠ 0`, base point coordinates reduced, cofactor positive -/
theorem table_sanity : ∀ c ∈ curveTable, c.p % 2 = 1 ∧ c.n ≠ 0 ∧ c.gx < c.p ∧ c.gy < c.p ∧ 0 < c.h ∧ 1 < c.n := by
  decide +kernel

/-- the coordinate length is never 1 (so the compressed form is never shadowed by the raw form) -/
theorem table_orderlen_ne_one : ∀ c ∈ curveTable, Util.orderlen c.p ≠ 1 := by decide +kernel

/-- `baselen`, `verifying_key_length`, `signature_length` as `Curve.__init__` computed them in the working tree are
what the model computes (`orderlen`) -/
theorem derived_lengths :
    curveTable.map (fun (c : Curve) => (c.name, c.baselen, c.vkLen, 2 * c.baselen))
      = curveDerived.map (fun d => (d.name, d.baselen, d.vkLen, d.sigLen)) := by decide +kernel

/-- `encoded_oid` as the code computed it is the model's `encode_oid` of the arcs -/
theorem derived_encoded_oid :
    curveTable.map (fun (c : Curve) => c.encodedOid) = curveDerived.map (fun d => Except.ok d.encodedOid) := by decide +kernel

/-- the module constant `encoded_oid_ecPublicKey` is `encode_oid(*oid_ecPublicKey)` -/
theorem encoded_oid_ecPublicKey_eq : encodeOidList oid_ecPublicKey = .ok encoded_oid_ecPublicKey := by decide +kernel

/-! ## raw strings -/

/-- `VerifyingKey.to_string(enc)` is the SEC 1 encoding with fixed-length big-endian coordinates -/
theorem vk_to_string_fixedlen (k : VK) (hx : k.x < k.curve.p) (hy : k.y < k.curve.p) (enc : PointEnc) :
    k.toString enc = .ok (encBytes k enc) ∧
    (encBytes k enc).length = (match enc with
      | .raw => 2 * Util.orderlen k.curve.p
      | .compressed => Util.orderlen k.curve.p + 1
      | _ => 2 * Util.orderlen k.curve.p + 1) :=
  ⟨toString_ok k hx hy enc, encBytes_length k enc⟩

/-- `SigningKey.to_string()` is the scalar on exactly `orderlen n` bytes -/
theorem sk_to_string_fixedlen (k : SK) (h : k.d < k.curve.n) :
    k.toString = .ok (beFixed (Util.orderlen k.curve.n) k.d) ∧
      (beFixed (Util.orderlen k.curve.n) k.d).length = Util.orderlen k.curve.n ∧
      beVal (beFixed (Util.orderlen k.curve.n) k.d) = k.d :=
  ⟨sk_toString_ok k h, beFixed_length _ _, beVal_beFixed_of_lt _ _ (Nat.lt_trans h (lt_pow_orderlen _))⟩

/-- `from_string(to_string(vk, enc)) = vk` on every curve of the table, every point encoding.
Hypotheses: `p` prime (SEC 2 fact), the square-root contract (C15), the key is valid. -/
theorem vk_from_string_to_string (E : Ext) (k : VK) (hc : k.curve ∈ curveTable) (hp : k.curve.p.Prime)
    (hsqrt : SqrtSpec E.sqrtModP k.curve.p) (hv : ValidPoint E k.curve k.x k.y) (enc : PointEnc) :
    ∃ bs, k.toString enc = .ok bs ∧ VK.fromString E k.curve bs true = .ok k :=
  fromString_toString E k hp (table_sanity _ hc).1 (table_sanity _ hc).2.1 hsqrt hv enc
    (fun _ => table_orderlen_ne_one _ hc)

/-- `SigningKey.from_string(sk.to_string()) = sk` for every `d ∈ [1, n-1]` -/
theorem sk_from_string_to_string (E : Ext) (k : SK) (hw : SK.WF E k) :
    ∃ bs, k.toString = .ok bs ∧ SK.fromString E k.curve bs = .ok k :=
  sk_fromString_toString E k hw

/-- non-vacuity: a well-formed signing key exists on NIST P-256 (d = 1, Q = G) for a suitable `pubPoint` -/
example : SK.WF { subgroupOk := fun _ _ _ => true, sqrtModP := fun _ _ => .error .squareRoot,
                  pubPoint := fun c _ => some (c.gx, c.gy), b64decode := fun _ => none }
    ⟨curve_NIST256p, 1, ⟨curve_NIST256p, curve_NIST256p.gx, curve_NIST256p.gy⟩⟩ := by
  unfold SK.WF; decide +kernel

end C09
