import Props.C04
import Props.C06
import Props.C07
import Props.C13
import Props.C15
import Props.C16
import Props.C17
import Props.C20
