import Props.C13
