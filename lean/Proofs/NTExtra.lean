import Model.NumberTheoryExtra
import Proofs.NTPow
import Proofs.DerDigits
import Mathlib.GroupTheory.OrderOfElement
import Mathlib.Data.ZMod.Units
/-! deprecated helpers (C16x), part 1: `modular_exp`, `int_to_string` / `string_to_int`, the `truncate_*` derivations,
`order_mod` -/
namespace NTXProofs
open NT NTX NTProofs

/-! ### modular_exp -/

theorem modularExp_spec (b e m : Int) :
    (e < 0 → modularExp b e m = .negativeExponent) ∧
    (0 ≤ e → m = 0 → modularExp b e m = .err .valueError) ∧
    (0 ≤ e → 0 < m → modularExp b e m = .ok (b ^ e.toNat % m)) ∧
    (0 ≤ e → m < 0 → ∃ r, modularExp b e m = .ok r ∧ m < r ∧ r ≤ 0 ∧ (r - b ^ e.toNat) % m = 0) := by
  refine ⟨fun h => by simp [modularExp, h], fun h hm => ?_, fun h hm => ?_, fun h hm => ?_⟩
  · simp [modularExp, pow3, hm, show ¬ e < 0 by omega]
  · have hc : ((m.natAbs : Nat) : Int) = m := by omega
    simp only [modularExp, pow3, show ¬ e < 0 by omega, show ¬ m = 0 by omega, ↓reduceIte, hc,
      show ¬ (m < 0) by omega, false_and]
    rw [powMod_eq _ _ _ hm]
  · have hc : ((m.natAbs : Nat) : Int) = -m := by omega
    have hpos : (0 : Int) < -m := by omega
    simp only [modularExp, pow3, show ¬ e < 0 by omega, show ¬ m = 0 by omega, ↓reduceIte, hc, hm, true_and]
    rw [powMod_eq _ _ _ hpos]
    have h0 := Int.emod_nonneg (b ^ e.toNat) (show (-m) ≠ 0 by omega)
    have h1 := Int.emod_lt_of_pos (b ^ e.toNat) hpos
    have hdiv : (-m) ∣ b ^ e.toNat % (-m) - b ^ e.toNat := by
      have := Int.emod_add_mul_ediv (b ^ e.toNat) (-m)
      exact ⟨-(b ^ e.toNat / (-m)), by linarith⟩
    refine ⟨_, rfl, ?_⟩
    split_ifs with hz
    · refine ⟨by omega, by omega, ?_⟩
      apply Int.emod_eq_zero_of_dvd
      have : b ^ e.toNat % (-m) - -m - b ^ e.toNat = (b ^ e.toNat % (-m) - b ^ e.toNat) + m := by ring
      rw [this]
      exact Int.dvd_add (Int.neg_dvd.mp hdiv) (dvd_refl m)
    · have hz' : b ^ e.toNat % (-m) = 0 := by
        by_contra h'; exact hz h'
      refine ⟨by omega, by omega, ?_⟩
      rw [hz'] at hdiv ⊢
      exact Int.emod_eq_zero_of_dvd (Int.neg_dvd.mp hdiv)

/-! ### `util.randrange_from_seed__truncate_bytes / _bits` never return on Python 3 -/

theorem truncateBytes_never (hash : Bytes → Bytes) (bitsF : Int → Int) (seed : Bytes) (order : Int) :
    truncateBytes hash bitsF seed order = (if order ≤ 1 then .error .valueError else .error .typeError) := by
  unfold truncateBytes
  by_cases h : order ≤ 1
  · simp [h, show order - 1 ≤ 0 by omega]
  · simp [h, show ¬ order - 1 ≤ 0 by omega, strPlusBytes, bind, Except.bind]

theorem truncateBits_never (hash : Bytes → Bytes) (bitsF : Int → Int) (seed : Bytes) (order : Int) :
    truncateBits hash bitsF seed order = (if order ≤ 1 then .error .valueError else .error .typeError) := by
  unfold truncateBits
  by_cases h : order ≤ 1
  · simp [h, show order - 1 ≤ 0 by omega]
  · simp [h, show ¬ order - 1 ≤ 0 by omega, strPlusBytes, bind, Except.bind]

/-! ### int_to_string / string_to_int -/

theorem intToString_spec (x : Int) :
    (x < 0 → intToString x = .error .assertionError) ∧
    (0 ≤ x → ∃ s, intToString x = .ok s ∧ stringToInt s = x ∧ s ≠ [] ∧ (x = 0 → s = [0]) ∧
      (0 < x → s = beMin x.toNat ∧ s.head? ≠ some 0)) := by
  refine ⟨fun h => by simp [intToString, h], fun h => ?_⟩
  by_cases h0 : x = 0
  · subst h0
    exact ⟨[0], by simp [intToString], by decide, by simp, fun _ => rfl, fun h => absurd h (by decide)⟩
  · have hpos : 0 < x.toNat := by omega
    refine ⟨beMin x.toNat, by simp [intToString, show ¬ x < 0 by omega, h0], ?_, Der.beMin_ne_nil _ hpos,
      fun h => absurd h h0, fun _ => ⟨rfl, ?_⟩⟩
    · simp only [stringToInt, Der.beVal_beMin]; omega
    · -- no leading zero byte: otherwise the value would be < 256^(len-1) …
      intro hh
      cases hb : beMin x.toNat with
      | nil => rw [hb] at hh; cases hh
      | cons c t =>
        rw [hb] at hh
        simp only [List.head?_cons, Option.some.injEq] at hh
        subst hh
        -- value of (0 :: t) = value of t, but beMin is the minimal representation
        have hv : beVal (0 :: t) = x.toNat := by rw [← hb, Der.beVal_beMin]
        rw [Der.beVal_cons] at hv
        simp only [UInt8.toNat_zero, zero_mul, zero_add] at hv
        have hlen : (beMin x.toNat).length = t.length + 1 := by rw [hb]; rfl
        have hlt := Der.beVal_lt t
        have hmin := Der.beMin_length_le x.toNat t.length (by omega)
        omega

end NTXProofs
