import Proofs.MulAdd
import Proofs.MulTable
import Proofs.LegacyMul
/-!
# Proofs.MulAll — `P * k` (both paths) and `P.mul_add(a, Q, b)` for fresh objects, all integers

`MulOK P g`: the stored object `P` denotes `g`, its declared order (if any) annihilates `g`, and a generator point
declares a positive order (otherwise `_maybe_precompute` raises AssertionError / builds a one-entry table).
-/
namespace Jac
open WeierstrassCurve WeierstrassCurve.Jacobian Curve

variable {p : ℕ} [hp : Fact p.Prime] {a b : ℤ} {H : AddSubgroup (Grp (a : ZMod p) (b : ZMod p))}

def MulOK (p : ℕ) [Fact p.Prime] (a b : ℤ) (H : AddSubgroup (Grp (a : ZMod p) (b : ZMod p)))
    (P : PJ) (g : Grp (a : ZMod p) (b : ZMod p)) : Prop :=
  PJRep p a b H P g ∧ (∀ n, truthy P.order = some n → n • g = 0) ∧
    (P.generator = true → ∃ o, truthy P.order = some o ∧ 0 < o)

/-- the early exits of `__mul__` do not look at the table -/
theorem pjMulWith_zero_one {pre : List (ℤ × ℤ)} {P : PJ} {g} (hP : PJRep p a b H P g) (k : ℤ)
    (hk : k = 0 ∨ k = 1) : ∃ R, pjMulWith pre P k = .ok R ∧ PtRep p a b H R (k • g) := by
  unfold pjMulWith
  rcases hk with rfl | rfl
  · exact ⟨.infinity, by simp, by simp [PtRep]⟩
  · exact ⟨.jac P, by simp [hP.y_ne], by simpa [PtRep] using hP⟩

/-- **`P * k`** on a fresh object: NAF path or generator-table path, every integer k -/
theorem pjMul_correct (hp2 : p ≠ 2) (hH : NoOrder2 H) {P : PJ} {g} (hP : MulOK p a b H P g) (k : ℤ) :
    ∃ R, pjMul P k = .ok R ∧ PtRep p a b H R (k • g) := by
  unfold pjMul
  obtain ⟨rP, ho, hg⟩ := hP
  cases hgen : P.generator with
  | false => exact pjMul_naf_correct hp2 hH rP hgen ho k
  | true =>
    by_cases hk : k = 0 ∨ k = 1
    · exact pjMulWith_zero_one rP k hk
    · obtain ⟨o, hto, hpos⟩ := hg hgen
      simp only [not_or] at hk
      exact pjMul_table_correct hp2 hH rP hto hpos (ho o hto) hgen k hk.1 hk.2

/-- what `mul_add` needs from an operand with a fresh table state -/
theorem mulEnv_fresh (hp2 : p ≠ 2) (hH : NoOrder2 H) {P : PJ} {g} (hP : MulOK p a b H P g) :
    MulEnv p a b H [] P g := by
  obtain ⟨rP, ho, hg⟩ := hP
  cases hgen : P.generator with
  | false =>
    refine ⟨[], by simp [maybePrecompute, hgen], ?_⟩
    intro S rS oS gS k
    exact pjMul_naf_correct hp2 hH rS (gS.trans hgen) (fun n hn => ho n (oS ▸ hn)) k
  | true =>
    obtain ⟨o, hto, hpos⟩ := hg hgen
    obtain ⟨table, et, hT, hlen⟩ := precomputeTable_correct hH rP hto hpos
    refine ⟨table, by simp [maybePrecompute, hgen, et], ?_⟩
    intro S rS oS gS k
    by_cases hk : k = 0 ∨ k = 1
    · exact pjMulWith_zero_one rS k hk
    · simp only [not_or] at hk
      exact pjMulWith_table_correct hp2 hH rS (oS ▸ hto) hpos (ho o hto) hT hlen k hk.1 hk.2

/-- multiplication hypotheses for the second operand of `mul_add` -/
def PtMulOK (p : ℕ) [Fact p.Prime] (a b : ℤ) (H : AddSubgroup (Grp (a : ZMod p) (b : ZMod p))) :
    Pt → Grp (a : ZMod p) (b : ZMod p) → Prop
  | .infinity, h => h = 0
  | .jac Q, h => MulOK p a b H Q h
  | .aff A, h => AffRep p a b H A h ∧ ∀ n, truthy A.order = some n → n • h = 0

theorem PtMulOK.rep {other : Pt} {h} (hO : PtMulOK p a b H other h) : PtRep p a b H other h := by
  cases other with
  | infinity => exact hO
  | jac Q => exact hO.1
  | aff A => exact hO.1

/-- `other * k` for any point value -/
theorem ptMul_correct (hp2 : p ≠ 2) (hH : NoOrder2 H) {other : Pt} {h} (hO : PtMulOK p a b H other h)
    (k : ℤ) : ∃ R, ptMulWith [] other k = .ok R ∧ PtRep p a b H R (k • h) := by
  cases other with
  | infinity =>
    have : h = 0 := hO
    exact ⟨.infinity, rfl, by simp [PtRep, this]⟩
  | jac Q => exact pjMul_correct hp2 hH hO k
  | aff A => exact affMul_correct hp2 hH hO.1 hO.2 k

/-- **`P.mul_add(a, Q, b)`** on fresh objects: all integers a, b; Q = INFINITY, a `PointJacobi` (with or without
table) or a legacy affine point; including Q = ±P (the theorem does not care how ⟦Q⟧ relates to ⟦P⟧) -/
theorem pjMulAdd_correct (hp2 : p ≠ 2) (hH : NoOrder2 H) {P : PJ} {other : Pt} {g h}
    (hP : MulOK p a b H P g) (hO : PtMulOK p a b H other h)
    (ho : ∀ n, truthy P.order = some n → n • h = 0) (sm om : ℤ) :
    ∃ R, pjMulAdd P sm other om = .ok R ∧ PtRep p a b H R (sm • g + om • h) := by
  unfold pjMulAdd
  refine pjMulAddWith_correct hp2 hH hP.1 hO.rep (fun n hn => ⟨hP.2.1 n hn, ho n hn⟩)
    (fun k => pjMul_correct hp2 hH hP k) (fun k => ptMul_correct hp2 hH hO k) (mulEnv_fresh hp2 hH hP)
    ?_ sm om
  intro Q rQ hQ
  rcases hQ with rfl | ⟨A, rfl, rfl⟩
  · exact mulEnv_fresh hp2 hH hO
  · exact mulEnv_fresh hp2 hH ⟨rQ, hO.2, by simp [pjFromAffine]⟩

end Jac
