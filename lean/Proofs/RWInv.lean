import Model.RWSem
/-! # Proofs.RWInv — the counting invariant of the generated RWLock programs and its preservation -/
set_option linter.unusedVariables false
namespace RW

/-- the programs translated from the current `_rwlock.py` -/
abbrev GP : Progs := Gen.RW.progs

/-- the linear invariant (aₖ = `s.cnt .reader k`, bₖ = `s.cnt .writer k`) -/
def RInv (s : CS) : Prop :=
  s.sh.RQ = s.cnt .reader 1 + s.cnt .reader 2 + s.cnt .reader 3 + s.cnt .reader 4 + s.cnt .reader 5 + s.cnt .reader 6 + s.cnt .reader 7 ∧
  s.sh.RM = s.cnt .reader 3 + s.cnt .reader 4 + s.cnt .reader 5 + s.cnt .reader 9 + s.cnt .reader 10 + s.cnt .reader 11 ∧
  s.sh.WM = s.cnt .writer 1 + s.cnt .writer 2 + s.cnt .writer 3 + s.cnt .writer 7 + s.cnt .writer 8 + s.cnt .writer 9 ∧
  s.sh.rc = ((s.cnt .reader 4 + s.cnt .reader 5 + s.cnt .reader 6 + s.cnt .reader 7 + s.cnt .reader 8 + s.cnt .reader 9 : Nat) : Int) ∧
  s.sh.wc = ((s.cnt .writer 2 + s.cnt .writer 3 + s.cnt .writer 4 + s.cnt .writer 5 + s.cnt .writer 6 + s.cnt .writer 7 : Nat) : Int) ∧
  s.sh.NR = s.cnt .reader 2 + s.cnt .reader 3 + s.cnt .reader 4 + s.cnt .reader 5 + s.cnt .reader 6
            + min 1 (s.cnt .writer 3 + s.cnt .writer 4 + s.cnt .writer 5 + s.cnt .writer 6 + s.cnt .writer 7 + s.cnt .writer 8) ∧
  s.sh.NW = s.cnt .writer 5
            + min 1 (s.cnt .reader 5 + s.cnt .reader 6 + s.cnt .reader 7 + s.cnt .reader 8 + s.cnt .reader 9 + s.cnt .reader 10) ∧
  s.sh.RQ ≤ 1 ∧ s.sh.RM ≤ 1 ∧ s.sh.WM ≤ 1 ∧ s.sh.NR ≤ 1 ∧ s.sh.NW ≤ 1

/-! inversion lemmas (generic in the programs) -/

theorem cstep_ok {P : Progs} {l : Lbl} {s s' : CS} (h : cstep P l s = .ok s') :
    s.cnt l.r l.k ≠ 0 ∧ ∃ ins sh', (P.round l.r)[l.k]? = some ins ∧ exec ins s.sh = .ok sh' ∧
      s' = ⟨sh', move s.cnt (l.r, l.k) (dest P l.r l.k l.nxt)⟩ := by
  unfold cstep at h
  split at h
  · cases h
  · rename_i hc
    refine ⟨hc, ?_⟩
    split at h
    · cases h
    · rename_i ins hins
      split at h
      · rename_i sh' hex
        injection h with h
        exact ⟨ins, sh', hins, hex, h.symm⟩
      · cases h
      · cases h

theorem doAct_ok (a : Act) (sh sh' : Shared) : doAct a sh = .ok sh' ↔
    match a with
    | .acq m => sh.mtx m = 0 ∧ sh' = sh.setM m 1
    | .rel m => sh.mtx m ≠ 0 ∧ sh' = sh.setM m 0 := by
  cases a <;> simp only [doAct] <;> split <;> simp_all [eq_comm]

theorem exec_ok (ins : Instr) (sh sh' : Shared) : exec ins sh = .ok sh' ↔
    match ins with
    | .acq m => sh.mtx m = 0 ∧ sh' = sh.setM m 1
    | .rel m => sh.mtx m ≠ 0 ∧ sh' = sh.setM m 0
    | .inc c => sh' = sh.setC c (sh.ctr c + 1)
    | .dec c => sh' = sh.setC c (sh.ctr c - 1)
    | .ifeq c k (.acq m) => (sh.ctr c = k ∧ sh.mtx m = 0 ∧ sh' = sh.setM m 1) ∨ (sh.ctr c ≠ k ∧ sh' = sh)
    | .ifeq c k (.rel m) => (sh.ctr c = k ∧ sh.mtx m ≠ 0 ∧ sh' = sh.setM m 0) ∨ (sh.ctr c ≠ k ∧ sh' = sh) := by
  cases ins with
  | acq m => exact doAct_ok (.acq m) sh sh'
  | rel m => exact doAct_ok (.rel m) sh sh'
  | inc c => simp [exec, eq_comm]
  | dec c => simp [exec, eq_comm]
  | ifeq c k a =>
    cases a <;> simp only [exec] <;> split <;> simp_all [doAct_ok, eq_comm]

/-- closes `RInv s'` for an explicit successor -/
macro "rw_fin" : tactic => `(tactic| (
  simp only [RInv, move, Shared.setC, Shared.setM, Shared.ctr, Shared.mtx, Prod.mk.injEq, Option.some.injEq, reduceCtorEq,
    false_and, and_false, true_and, and_true, ite_true, ite_false, Nat.reduceEqDiff, Nat.add_zero,
    Option.map_none, Option.map_some, ne_eq, implies_true, and_self] at * <;>
  omega))


theorem cstep_ok' {P : Progs} {r k nxt} {s s' : CS} (h : cstep P ⟨r, k, nxt⟩ s = .ok s') :
    s.cnt r k ≠ 0 ∧ ∃ ins sh', (P.round r)[k]? = some ins ∧ exec ins s.sh = .ok sh' ∧
      s' = ⟨sh', move s.cnt (r, k) (dest P r k nxt)⟩ := cstep_ok h

set_option hygiene false in
macro "rw_close" : tactic => `(tactic| first
  | (subst hex; rw_fin)
  | (obtain ⟨h1, hex⟩ := hex; subst hex; rw_fin)
  | (rcases hex with ⟨h0, h1, hex⟩ | ⟨h0, hex⟩ <;> subst hex <;> rw_fin))

/- one transition of the counting abstraction of the generated programs preserves `RInv`
(`hs : cstep GP ⟨r, k, nxt⟩ s = .ok s'` with literal `r`, `k`): look up the instruction in the GENERATED list,
invert `exec`, compute the destination, unfold the invariant and call `omega`. -/
set_option hygiene false in
macro "rw_case " hs:ident nxt:ident : tactic => `(tactic| (
  obtain ⟨hc, ins, sh', hins, hex, hs'⟩ := cstep_ok' $hs
  subst hs'
  clear $hs
  simp only [GP, Gen.RW.progs, Progs.round, Progs.acq, Progs.rel, Gen.RW.reader_acquire, Gen.RW.reader_release,
    Gen.RW.writer_acquire, Gen.RW.writer_release, List.cons_append, List.nil_append, List.getElem?_cons_succ,
    List.getElem?_cons_zero, List.getElem?_nil, Option.some.injEq, reduceCtorEq] at hins
  subst hins
  simp only [exec_ok] at hex
  simp +decide only [dest, ite_true, ite_false]
  first
    | rw_close
    | (rcases $nxt:ident with _ | _ | _ <;> rw_close)))

theorem rinv_r0 (s s' : CS) (nxt : Option Role) (h : RInv s) (hs : cstep GP ⟨.reader, 0, nxt⟩ s = .ok s') : RInv s' := by
  rw_case hs nxt
theorem rinv_r1 (s s' : CS) (nxt : Option Role) (h : RInv s) (hs : cstep GP ⟨.reader, 1, nxt⟩ s = .ok s') : RInv s' := by
  rw_case hs nxt
theorem rinv_r2 (s s' : CS) (nxt : Option Role) (h : RInv s) (hs : cstep GP ⟨.reader, 2, nxt⟩ s = .ok s') : RInv s' := by
  rw_case hs nxt
theorem rinv_r3 (s s' : CS) (nxt : Option Role) (h : RInv s) (hs : cstep GP ⟨.reader, 3, nxt⟩ s = .ok s') : RInv s' := by
  rw_case hs nxt
theorem rinv_r4 (s s' : CS) (nxt : Option Role) (h : RInv s) (hs : cstep GP ⟨.reader, 4, nxt⟩ s = .ok s') : RInv s' := by
  rw_case hs nxt
theorem rinv_r5 (s s' : CS) (nxt : Option Role) (h : RInv s) (hs : cstep GP ⟨.reader, 5, nxt⟩ s = .ok s') : RInv s' := by
  rw_case hs nxt
theorem rinv_r6 (s s' : CS) (nxt : Option Role) (h : RInv s) (hs : cstep GP ⟨.reader, 6, nxt⟩ s = .ok s') : RInv s' := by
  rw_case hs nxt
theorem rinv_r7 (s s' : CS) (nxt : Option Role) (h : RInv s) (hs : cstep GP ⟨.reader, 7, nxt⟩ s = .ok s') : RInv s' := by
  rw_case hs nxt
theorem rinv_r8 (s s' : CS) (nxt : Option Role) (h : RInv s) (hs : cstep GP ⟨.reader, 8, nxt⟩ s = .ok s') : RInv s' := by
  rw_case hs nxt
theorem rinv_r9 (s s' : CS) (nxt : Option Role) (h : RInv s) (hs : cstep GP ⟨.reader, 9, nxt⟩ s = .ok s') : RInv s' := by
  rw_case hs nxt
theorem rinv_r10 (s s' : CS) (nxt : Option Role) (h : RInv s) (hs : cstep GP ⟨.reader, 10, nxt⟩ s = .ok s') : RInv s' := by
  rw_case hs nxt
theorem rinv_r11 (s s' : CS) (nxt : Option Role) (h : RInv s) (hs : cstep GP ⟨.reader, 11, nxt⟩ s = .ok s') : RInv s' := by
  rw_case hs nxt
theorem rinv_w0 (s s' : CS) (nxt : Option Role) (h : RInv s) (hs : cstep GP ⟨.writer, 0, nxt⟩ s = .ok s') : RInv s' := by
  rw_case hs nxt
theorem rinv_w1 (s s' : CS) (nxt : Option Role) (h : RInv s) (hs : cstep GP ⟨.writer, 1, nxt⟩ s = .ok s') : RInv s' := by
  rw_case hs nxt
theorem rinv_w2 (s s' : CS) (nxt : Option Role) (h : RInv s) (hs : cstep GP ⟨.writer, 2, nxt⟩ s = .ok s') : RInv s' := by
  rw_case hs nxt
theorem rinv_w3 (s s' : CS) (nxt : Option Role) (h : RInv s) (hs : cstep GP ⟨.writer, 3, nxt⟩ s = .ok s') : RInv s' := by
  rw_case hs nxt
theorem rinv_w4 (s s' : CS) (nxt : Option Role) (h : RInv s) (hs : cstep GP ⟨.writer, 4, nxt⟩ s = .ok s') : RInv s' := by
  rw_case hs nxt
theorem rinv_w5 (s s' : CS) (nxt : Option Role) (h : RInv s) (hs : cstep GP ⟨.writer, 5, nxt⟩ s = .ok s') : RInv s' := by
  rw_case hs nxt
theorem rinv_w6 (s s' : CS) (nxt : Option Role) (h : RInv s) (hs : cstep GP ⟨.writer, 6, nxt⟩ s = .ok s') : RInv s' := by
  rw_case hs nxt
theorem rinv_w7 (s s' : CS) (nxt : Option Role) (h : RInv s) (hs : cstep GP ⟨.writer, 7, nxt⟩ s = .ok s') : RInv s' := by
  rw_case hs nxt
theorem rinv_w8 (s s' : CS) (nxt : Option Role) (h : RInv s) (hs : cstep GP ⟨.writer, 8, nxt⟩ s = .ok s') : RInv s' := by
  rw_case hs nxt
theorem rinv_w9 (s s' : CS) (nxt : Option Role) (h : RInv s) (hs : cstep GP ⟨.writer, 9, nxt⟩ s = .ok s') : RInv s' := by
  rw_case hs nxt

/-- no instruction beyond the end of a round -/
theorem round_len_reader : (GP.round .reader).length = 12 := by decide
theorem round_len_writer : (GP.round .writer).length = 10 := by decide

/-- **every** transition of the counting abstraction of the generated programs preserves the invariant -/
theorem rinv_cstep (l : Lbl) (s s' : CS) (h : RInv s) (hs : cstep GP l s = .ok s') : RInv s' := by
  obtain ⟨r, k, nxt⟩ := l
  have hlen : k < (GP.round r).length := by
    obtain ⟨_, ins, _, hins, _⟩ := cstep_ok' hs
    exact (List.getElem?_eq_some_iff.mp hins).1
  cases r
  · rw [round_len_reader] at hlen
    rcases k with _|_|_|_|_|_|_|_|_|_|_|_|k
    · exact rinv_r0 s s' nxt h hs
    · exact rinv_r1 s s' nxt h hs
    · exact rinv_r2 s s' nxt h hs
    · exact rinv_r3 s s' nxt h hs
    · exact rinv_r4 s s' nxt h hs
    · exact rinv_r5 s s' nxt h hs
    · exact rinv_r6 s s' nxt h hs
    · exact rinv_r7 s s' nxt h hs
    · exact rinv_r8 s s' nxt h hs
    · exact rinv_r9 s s' nxt h hs
    · exact rinv_r10 s s' nxt h hs
    · exact rinv_r11 s s' nxt h hs
    · omega
  · rw [round_len_writer] at hlen
    rcases k with _|_|_|_|_|_|_|_|_|_|k
    · exact rinv_w0 s s' nxt h hs
    · exact rinv_w1 s s' nxt h hs
    · exact rinv_w2 s s' nxt h hs
    · exact rinv_w3 s s' nxt h hs
    · exact rinv_w4 s s' nxt h hs
    · exact rinv_w5 s s' nxt h hs
    · exact rinv_w6 s s' nxt h hs
    · exact rinv_w7 s s' nxt h hs
    · exact rinv_w8 s s' nxt h hs
    · exact rinv_w9 s s' nxt h hs
    · omega

end RW
