import Model.NumberTheoryExtra
import Proofs.NTInv
import Mathlib.GroupTheory.OrderOfElement
import Mathlib.FieldTheory.Finite.Basic
import Mathlib.Data.ZMod.Basic
/-! deprecated helpers (C16x), part 2: `order_mod` against `orderOf` in `ZMod m` -/
namespace NTXProofs
open NT NTX NTProofs

variable {M : ℕ}

theorem cast_pow_emod (hM : 0 < M) (x : ℤ) (j : ℕ) : (((x ^ j % (M : ℤ) : ℤ)) : ZMod M) = (x : ZMod M) ^ j := by
  rw [ZMod.intCast_mod, Int.cast_pow]

theorem emod_eq_one_iff (hM : 2 ≤ M) (y : ℤ) : y % (M : ℤ) = 1 ↔ (y : ZMod M) = 1 := by
  have : (y : ZMod M) = 1 ↔ (y : ZMod M) = ((1 : ℤ) : ZMod M) := by simp
  rw [this, ZMod.intCast_eq_intCast_iff', Int.emod_eq_of_lt (show (0 : ℤ) ≤ 1 by decide) (by omega)]

/-- the loop from a reduced state `z = x^j % m`, `j ≥ 2`: it returns the least `d ≥ 2` with `x^d ≡ 1` -/
theorem orderLoop_reduced (hM : 2 ≤ M) (x : ℤ) (d : ℕ) (hd2 : 2 ≤ d) (hd : (x : ZMod M) ^ d = 1)
    (hmin : ∀ i, 2 ≤ i → i < d → (x : ZMod M) ^ i ≠ 1) :
    ∀ (fuel j : ℕ), 2 ≤ j → j ≤ d → d - j < fuel →
      orderLoop x M fuel (x ^ j % (M : ℤ)) j = .ok (d : ℤ) := by
  intro fuel
  induction fuel with
  | zero => intro j _ _ h; omega
  | succ f ih =>
    intro j hj2 hjd hf
    unfold orderLoop
    by_cases h1 : x ^ j % (M : ℤ) = 1
    · have : (x : ZMod M) ^ j = 1 := by
        rw [← cast_pow_emod (by omega), h1]; simp
      have hjd' : j = d := by
        by_contra hne
        exact hmin j hj2 (by omega) this
      rw [if_neg (by simpa using h1), hjd']
    · have hne : (x : ZMod M) ^ j ≠ 1 := by
        intro h; apply h1
        rw [emod_eq_one_iff hM, Int.cast_pow]; exact h
      have hlt : j < d := by
        rcases Nat.lt_or_ge j d with h | h
        · exact h
        · exact absurd (show (x : ZMod M) ^ j = 1 by rw [show j = d by omega]; exact hd) hne
      rw [if_pos h1]
      have hz : pmod (x ^ j % (M : ℤ) * x) M = x ^ (j + 1) % (M : ℤ) := by
        rw [pmod_eq_emod (by omega), pow_succ, Int.mul_emod, Int.emod_emod_of_dvd _ (dvd_refl _), ← Int.mul_emod]
      rw [hz]
      have := ih (j + 1) (by omega) (by omega) (by omega)
      push_cast at this ⊢
      exact this

/-- **`order_mod(x, m)` for `m ≥ 2`, `gcd(x, m) = 1`**: the order of `x` in `(ℤ/m)ˣ` — except that an UNREDUCED argument
`x ≡ 1 (mod m)`, `x ≠ 1` (e.g. `order_mod(8, 7)`) yields 2 instead of 1, because the loop tests the raw `x` first -/
theorem orderMod_coprime (hM : 2 ≤ M) (x : ℤ) (hg : Int.gcd x M = 1) :
    orderMod x M = .ok (if x ≠ 1 ∧ x % (M : ℤ) = 1 then 2 else (orderOf (x : ZMod M) : ℤ)) := by
  haveI : NeZero M := ⟨by omega⟩
  have hMpos : (0 : ℤ) < M := by omega
  unfold orderMod
  rw [if_neg (by omega), if_neg (by simp [gcd2, hg])]
  -- x is a unit: it has finite order
  have hfin : IsOfFinOrder (x : ZMod M) := by
    rw [isOfFinOrder_iff_pow_eq_one]
    refine ⟨M.totient, Nat.totient_pos.mpr (by omega), ?_⟩
    have hc : Nat.Coprime x.natAbs M := by simpa [Int.gcd] using hg
    have hu : IsUnit (x : ZMod M) := by
      have := (ZMod.isUnit_iff_coprime x.natAbs M).mpr hc
      rcases Int.natAbs_eq x with h | h
      · rw [h]; simpa using this
      · rw [h]; simpa using this.neg
    obtain ⟨u, hu⟩ := hu
    rw [← hu, ← Units.val_pow_eq_pow_val, ZMod.pow_totient]; rfl
  have hopos := hfin.orderOf_pos
  have hole : orderOf (x : ZMod M) ≤ M := by
    have := orderOf_le_card_univ (x := (x : ZMod M)); rwa [ZMod.card] at this
  by_cases hx1 : x = 1
  · subst hx1
    simp [orderLoop]
  · unfold orderLoop
    rw [if_pos hx1]
    have hz : pmod (x * x) (M : ℤ) = x ^ 2 % (M : ℤ) := by rw [pmod_eq_emod hMpos, pow_two]
    rw [hz]
    by_cases hu1 : x % (M : ℤ) = 1
    · -- unreduced 1: answer 2
      have hX : (x : ZMod M) = 1 := (emod_eq_one_iff hM x).mp hu1
      have := orderLoop_reduced hM x 2 (le_refl _) (by rw [hX]; simp) (fun i h1 h2 => by omega) (M : ℤ).natAbs 2
        (le_refl _) (le_refl _) (by simp; omega)
      have e2 : ((1 : ℤ) + 1) = ((2 : ℕ) : ℤ) := by norm_num
      rw [e2, this]; simp [hx1, hu1]
    · have hX : (x : ZMod M) ≠ 1 := fun h => hu1 ((emod_eq_one_iff hM x).mpr h)
      have ho2 : 2 ≤ orderOf (x : ZMod M) := by
        have : orderOf (x : ZMod M) ≠ 1 := fun h => hX (orderOf_eq_one_iff.mp h)
        omega
      have := orderLoop_reduced hM x (orderOf (x : ZMod M)) ho2 (pow_orderOf_eq_one _)
        (fun i h1 h2 hi => by
          have := Nat.le_of_dvd (by omega) (orderOf_dvd_of_pow_eq_one hi); omega)
        (M : ℤ).natAbs 2 (le_refl _) ho2 (by simp; omega)
      have e2 : ((1 : ℤ) + 1) = ((2 : ℕ) : ℤ) := by norm_num
      rw [e2, this]; simp [hu1]

theorem orderMod_other (x m : ℤ) :
    (m ≤ 1 → orderMod x m = .ok 0) ∧ (2 ≤ m → Int.gcd x m ≠ 1 → orderMod x m = .error .assertionError) := by
  constructor
  · intro h; simp [orderMod, h]
  · intro h hg
    have : ¬ gcd2 x m = 1 := by simpa [gcd2] using hg
    simp [orderMod, show ¬ m ≤ 1 by omega, this]

end NTXProofs
