import Proofs.KeysTie
/-!
# Proofs.KeysTie2 — the model functions restated with the generated slices
-/
namespace KeysTie
open Keys Gen.KeysT

/-- the length dispatch of `VerifyingKey.from_string` -/
theorem decodePoint_source (E : Ext) (c : Curve) (s : Bytes) (validate : Bool) :
    decodePoint E c s validate =
      if from_string_raw s.length c.vkLen then
        (fromRawEncoding c s).map fun (x, y) => ((x : Int), (y : Int))
      else if from_string_prefixed s.length c.vkLen then
        if s.take 1 = [0x06] ∨ s.take 1 = [0x07] then
          (fromHybrid c s validate).map fun (x, y) => ((x : Int), (y : Int))
        else if s.take 1 = [0x04] then
          (fromRawEncoding c (s.drop 1)).map fun (x, y) => ((x : Int), (y : Int))
        else .error .malformedPoint
      else if from_string_compressed s.length c.vkLen then fromCompressed E c s
      else .error .malformedPoint := by
  unfold decodePoint
  simp only [from_string_raw_nat, from_string_prefixed_nat, from_string_compressed_nat, decide_eq_true_eq]
  try congr

/-- `_from_raw_encoding`: the three asserts and the split position -/
theorem fromRawEncoding_source (c : Curve) (s : Bytes) :
    fromRawEncoding c s =
      if ¬ raw_len_ok s.length c.vkLen then .error .assertionError
      else
        let xs := s.take (raw_split_x c.vkLen).toNat
        let ys := s.drop (raw_split_y c.vkLen).toNat
        if ¬ raw_xs_ok xs.length c.vkLen then .error .assertionError
        else if ¬ raw_ys_ok ys.length c.vkLen then .error .assertionError
        else (Util.stringToNumber xs).bind fun x => (Util.stringToNumber ys).bind fun y => .ok (x, y) := by
  unfold fromRawEncoding
  simp only [raw_len_ok_nat, raw_split_x_nat, raw_split_y_nat, raw_xs_ok_nat, raw_ys_ok_nat, decide_eq_true_eq]
  congr

/-- `_from_compressed`: alpha, the parity test and `p - beta` -/
theorem fromCompressed_source (E : Ext) (c : Curve) (s : Bytes) :
    fromCompressed E c s =
      if s.take 1 ≠ [0x02] ∧ s.take 1 ≠ [0x03] then .error .malformedPoint
      else
        let isEven : Bool := s.take 1 = [0x02]
        match Util.stringToNumber (s.drop 1) with
        | .error e => .error e
        | .ok x =>
          if c.p = 0 then .error .valueError
          else
          match E.sqrtModP (compressed_alpha x c.p c.a c.b) c.p with
          | .error .squareRoot => .error .malformedPoint
          | .error e => .error e
          | .ok beta =>
            let y : Int := if isEven = compressed_beta_odd beta then compressed_y_flip c.p beta else beta
            .ok ((x : Int), y) := rfl

theorem alphaOf_source (c : Curve) (x : Nat) : alphaOf c x = compressed_alpha x c.p c.a c.b := rfl

/-- `_from_hybrid`: the parity / prefix consistency test -/
theorem fromHybrid_source (c : Curve) (s : Bytes) (validate : Bool) :
    fromHybrid c s validate =
      if s.take 1 ≠ [0x06] ∧ s.take 1 ≠ [0x07] then .error .assertionError
      else
        match fromRawEncoding c (s.drop 1) with
        | .error e => .error e
        | .ok (x, y) =>
          if validate ∧ ((hybrid_y_odd y ∧ s.take 1 ≠ [0x07]) ∨ (¬ hybrid_y_odd2 y ∧ s.take 1 ≠ [0x06])) then .error .malformedPoint
          else .ok (x, y) := by
  unfold fromHybrid
  simp only [hybrid_y_odd_nat, hybrid_y_odd2_nat, decide_eq_true_eq]
  congr

/-- the encoders' parity tests -/
theorem encoders_source (k : VK) :
    (k.compressedEncode = (Util.numberToString k.x k.curve.p).bind fun xs =>
      if compressed_encode_y_odd k.y then .ok (0x03 :: xs) else .ok (0x02 :: xs)) ∧
    (k.hybridEncode = k.rawEncode.bind fun raw =>
      if hybrid_encode_y_odd k.y then .ok (0x07 :: raw) else .ok (0x06 :: raw)) := by
  constructor
  · unfold VK.compressedEncode; simp only [compressed_encode_y_odd_nat, decide_eq_true_eq]; congr
  · unfold VK.hybridEncode; simp only [hybrid_encode_y_odd_nat, decide_eq_true_eq]; congr

/-- `SigningKey.from_string`: the length test -/
theorem skFromString_source (E : Ext) (c : Curve) (s : Bytes) :
    SK.fromString E c s =
      if sk_len_bad s.length c.baselen then .error .malformedPoint
      else
        match Util.stringToNumber s with
        | .error e => .error e
        | .ok secexp => SK.fromSecretExponent E c secexp := by
  unfold SK.fromString
  simp only [sk_len_bad_nat, decide_eq_true_eq]
  congr

/-- `SigningKey.from_secret_exponent`: the range test (slice of gen_ecdsa.py) -/
theorem skFromSecretExponent_source (E : Ext) (c : Curve) (secexp : Int) :
    SK.fromSecretExponent E c secexp =
      if Gen.Ecdsa.secexp_bad secexp c.n then .error .malformedPoint
      else
        match E.pubPoint c secexp.toNat with
        | none => .error .malformedPoint
        | some (x, y) =>
          match fromPublicPoint E c x y false with
          | .error e => .error e
          | .ok vk => .ok ⟨c, secexp.toNat, vk⟩ := by
  unfold SK.fromSecretExponent Gen.Ecdsa.secexp_bad
  simp only [Bool.and_eq_false_iff, decide_eq_false_iff_not, Bool.not_eq_eq_eq_not, Bool.not_true]
  by_cases a : 1 ≤ secexp <;> by_cases b : secexp < (c.n : Int) <;> simp [a, b] <;> rfl

/-- `Public_key.__init__` as reached from `from_public_point`: range tests and the order test (slices of gen_ecdsa.py) -/
theorem fromPublicPoint_source (E : Ext) (c : Curve) (x y : Int) (validate : Bool) :
    fromPublicPoint E c x y validate =
      if Gen.Ecdsa.pubkey_x_out x c.p ∨ Gen.Ecdsa.pubkey_y_out y c.p then .error .malformedPoint
      else if validate ∧ ¬ onCurve c x y then .error .malformedPoint
      else if Gen.Ecdsa.pubkey_no_order c.n then .error .malformedPoint
      else if validate ∧ c.h ≠ 1 ∧ ¬ E.subgroupOk c x.toNat y.toNat then .error .malformedPoint
      else .ok ⟨c, x.toNat, y.toNat⟩ := by
  unfold fromPublicPoint Gen.Ecdsa.pubkey_x_out Gen.Ecdsa.pubkey_y_out Gen.Ecdsa.pubkey_no_order
  by_cases a1 : 0 ≤ x <;> by_cases a2 : x < (c.p : Int) <;> by_cases b1 : 0 ≤ y <;> by_cases b2 : y < (c.p : Int) <;>
    by_cases n0 : c.n = 0 <;> simp [a1, a2, b1, b2, n0]

end KeysTie
