import Model.NumberTheoryExtra
import Proofs.NTInv
import Proofs.NTGcd
import Mathlib.Data.Nat.GCD.Basic
import Mathlib.Tactic.Linarith
/-! deprecated helpers (C16x), part 4: `largest_factor_relatively_prime` -/
namespace NTXProofs
open NT NTX NTProofs

/-- the inner loop divides out `d` completely (for `a ≥ 1`, `d ≥ 2`) -/
theorem lfrpInner_spec (d : ℕ) (hd : 2 ≤ d) : ∀ (fuel a : ℕ), 1 ≤ a → a < fuel →
    ∃ (k a' : ℕ), lfrpInner d fuel a = some (a' : ℤ) ∧ a = d ^ k * a' ∧ 1 ≤ a' ∧ ¬ d ∣ a' := by
  intro fuel
  induction fuel with
  | zero => intro a _ h; omega
  | succ f ih =>
    intro a ha hf
    unfold lfrpInner
    have hdpos : (0 : ℤ) < d := by omega
    rw [pmod_eq_emod hdpos, pdiv_eq_ediv hdpos]
    by_cases hr : (a : ℤ) % d > 0
    · rw [if_pos hr]
      refine ⟨0, a, rfl, by simp, ha, ?_⟩
      intro hdiv
      have : (a : ℤ) % d = 0 := by exact_mod_cast Nat.mod_eq_zero_of_dvd hdiv
      omega
    · rw [if_neg hr]
      have hmod : a % d = 0 := by
        have : (a : ℤ) % d = 0 := by have := Int.emod_nonneg (a : ℤ) (show (d : ℤ) ≠ 0 by omega); omega
        exact_mod_cast this
      have hdiv : d ∣ a := Nat.dvd_of_mod_eq_zero hmod
      obtain ⟨q, hq⟩ := hdiv
      have hq1 : 1 ≤ q := by
        rcases Nat.eq_zero_or_pos q with h | h
        · subst h; omega
        · exact h
      have hqlt : q < a := by rw [hq]; nlinarith
      have hcast : (a : ℤ) / d = (q : ℤ) := by
        rw [hq]; push_cast; exact Int.mul_ediv_cancel_left _ (by omega)
      rw [hcast]
      obtain ⟨k, a', h1, h2, h3, h4⟩ := ih q hq1 (by omega)
      exact ⟨k + 1, a', h1, by rw [hq, h2, pow_succ]; ring, h3, h4⟩

/-- for `a = 0` no budget suffices: the real loop never ends -/
theorem lfrpInner_zero (d : ℤ) (hd : 1 ≤ d) : ∀ fuel, lfrpInner d fuel 0 = none := by
  intro fuel
  induction fuel with
  | zero => rfl
  | succ f ih =>
    unfold lfrpInner
    have : ¬ pmod 0 d > 0 := by simp [pmod]
    rw [if_neg this]
    have : pdiv 0 d = 0 := by simp [pdiv]
    rw [this]; exact ih

theorem lfrpOuter_spec : ∀ (fuel a b : ℕ), 1 ≤ a → Nat.gcd a b < fuel →
    ∃ r : ℕ, lfrpOuter fuel a b = .ok (r : ℤ) ∧ 1 ≤ r ∧ r ∣ a ∧ Nat.Coprime r b ∧
      ∀ e : ℕ, e ∣ a → Nat.Coprime e b → e ∣ r := by
  intro fuel
  induction fuel with
  | zero => intro a b _ h; omega
  | succ f ih =>
    intro a b ha hf
    unfold lfrpOuter
    simp only [gcd2_nat]
    by_cases hd : Nat.gcd a b ≤ 1
    · rw [if_pos (by exact_mod_cast hd)]
      have hg : Nat.gcd a b = 1 := by
        have := Nat.gcd_pos_of_pos_left b (show 0 < a by omega); omega
      exact ⟨a, rfl, ha, dvd_refl _, hg, fun e he _ => he⟩
    · rw [if_neg (by exact_mod_cast hd)]
      set d := Nat.gcd a b with hdef
      have hd2 : 2 ≤ d := by omega
      obtain ⟨k, a', h1, h2, h3, h4⟩ := lfrpInner_spec d hd2 ((a : ℤ).natAbs + 1) a ha (by simp)
      rw [h1]
      simp only []
      have hda : d ∣ a := Nat.gcd_dvd_left a b
      have hdb : d ∣ b := Nat.gcd_dvd_right a b
      have hlt : Nat.gcd a' d < d := by
        have hle := Nat.le_of_dvd (by omega) (Nat.gcd_dvd_right a' d)
        rcases Nat.lt_or_ge (Nat.gcd a' d) d with h | h
        · exact h
        · exfalso
          have : Nat.gcd a' d = d := by omega
          exact h4 (this ▸ Nat.gcd_dvd_left a' d)
      obtain ⟨r, hr, r1, r2, r3, r4⟩ := ih a' d h3 (by omega)
      refine ⟨r, hr, r1, ?_, ?_, ?_⟩
      · exact Dvd.dvd.trans r2 ⟨d ^ k, by rw [h2]; ring⟩
      · -- gcd(r, b) | gcd(a, b) = d and | r, so | gcd(r, d) = 1
        have hra : r ∣ a := Dvd.dvd.trans r2 ⟨d ^ k, by rw [h2]; ring⟩
        have h' : Nat.gcd r b ∣ d := Nat.dvd_gcd (Dvd.dvd.trans (Nat.gcd_dvd_left r b) hra) (Nat.gcd_dvd_right r b)
        have h'' : Nat.gcd r b ∣ Nat.gcd r d := Nat.dvd_gcd (Nat.gcd_dvd_left r b) h'
        rw [r3] at h''
        exact Nat.dvd_one.mp h''
      · intro e hea heb
        have hed : Nat.Coprime e d := Nat.Coprime.coprime_dvd_right hdb heb
        have hea' : e ∣ a' := by
          rw [h2] at hea
          exact (Nat.Coprime.dvd_mul_left (Nat.Coprime.pow_right k hed)).mp hea
        exact r4 e hea' hed

/-- **`largest_factor_relatively_prime(a, b)`** for `a ≥ 1`, `b ≥ 0`: the largest divisor of `a` coprime to `b` (every other
such divisor divides it) -/
theorem lfrp_spec (a b : ℕ) (ha : 1 ≤ a) :
    ∃ r : ℕ, largestFactorRelativelyPrime a b = .ok (r : ℤ) ∧ 1 ≤ r ∧ r ∣ a ∧ Nat.Coprime r b ∧
      ∀ e : ℕ, e ∣ a → Nat.Coprime e b → e ∣ r := by
  unfold largestFactorRelativelyPrime
  apply lfrpOuter_spec _ a b ha
  have := Nat.le_of_dvd (by omega) (Nat.gcd_dvd_left a b)
  simp; omega

theorem lfrpOuter_zero_small (f : ℕ) (b : ℤ) (h : b.natAbs ≤ 1) : lfrpOuter (f + 1) 0 b = .ok 0 := by
  unfold lfrpOuter
  have : gcd2 0 b = (b.natAbs : ℤ) := by simp [gcd2]
  rw [this, if_pos (by exact_mod_cast h)]

theorem lfrpOuter_zero_big (f : ℕ) (b : ℤ) (h : 2 ≤ b.natAbs) : lfrpOuter (f + 1) 0 b = .error .other := by
  unfold lfrpOuter
  have : gcd2 0 b = (b.natAbs : ℤ) := by simp [gcd2]
  rw [this, if_neg (by omega), lfrpInner_zero _ (by omega)]

/-- `a = 0`: returns 0 when `|b| ≤ 1`, never returns otherwise (the inner loop has no exit: no budget suffices) -/
theorem lfrp_zero (b : ℤ) :
    (b.natAbs ≤ 1 → largestFactorRelativelyPrime 0 b = .ok 0) ∧
    (2 ≤ b.natAbs → largestFactorRelativelyPrime 0 b = .error .other ∧ ∀ fuel, lfrpInner (b.natAbs : ℤ) fuel 0 = none) :=
  ⟨fun h => lfrpOuter_zero_small _ b h, fun h => ⟨lfrpOuter_zero_big _ b h, lfrpInner_zero _ (by omega)⟩⟩

end NTXProofs
