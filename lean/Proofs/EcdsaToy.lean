import Proofs.EcdsaGroup
/-!
# Proofs.EcdsaToy — a concrete instance of `PointOpsCorrect` (non-vacuity of the ECDSA theorems)

The cyclic group `ZMod 7` with generator 1 stands for a curve group of prime order 7; a point object *is* its
group element; the "x-coordinate" of `R ≠ 0` is `min(R, 7 − R) ∈ {1, 2, 3}` (so `x(−R) = x(R)` and every
x-coordinate has exactly the two preimages `±R`, as on a curve), the field size is 4.
-/
namespace Ecdsa.Toy

def xval (A : ZMod 7) : ℤ := min (A.val : ℤ) (7 - (A.val : ℤ))
def xc (A : ZMod 7) : Option ℤ := if A = 0 then none else some (xval A)

def ops : PointOps (ZMod 7) where
  order := 7
  p := 4
  a := 0
  b := 0
  cofactorIsOne := true
  genHasMulAdd := true
  mulG k := .ok (k : ZMod 7)
  mulAddG u1 Q u2 := .ok ((u1 : ZMod 7) + (u2 : ZMod 7) * Q)
  mul k Q := .ok ((k : ZMod 7) * Q)
  add A B := .ok (A + B)
  isInfinity A := decide (A = 0)
  xOf A := if A = 0 then .error .typeError else .ok (xval A)
  yOf A := if A = 0 then .error .typeError else .ok 0
  scale A := .ok A
  containsPoint _ _ := true
  mkPoint x _ := (x : ZMod 7)
  fromAffine A := A
  isInfObj A := decide (A = 0)

theorem correct : PointOpsCorrect ops (1 : ZMod 7) id xc (fun _ => True) where
  n_prime := by decide
  nG := by decide
  G_ne := by decide
  xc_none := by decide
  xc_neg := by decide
  xc_range := by
    intro R x h
    revert x
    revert R
    decide
  mulG k := ⟨(k : ZMod 7), rfl, trivial, by simp⟩
  mulAddG _ u1 Q u2 _ := ⟨_, rfl, trivial, by simp⟩
  mul k Q _ := ⟨_, rfl, trivial, by simp⟩
  add A B _ _ := ⟨_, rfl, trivial, rfl⟩
  isInf A _ := by simp [ops]
  xOf A _ h := ⟨xval A, by simp [ops, show A ≠ 0 from h], by simp [xc, show A ≠ 0 from h]⟩
  yOf A _ h := ⟨0, by simp [ops, show A ≠ 0 from h], by decide, by decide⟩
  scale A _ := ⟨A, rfl, trivial, rfl⟩
  fromAffine A _ := ⟨trivial, rfl⟩
  isInfObj A _ h := by simp [ops, show A ≠ 0 from h]

end Ecdsa.Toy
