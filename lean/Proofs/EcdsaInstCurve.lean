import Proofs.GroupInterface
import Proofs.EcdsaGroup
import Proofs.EcdsaInstOrd
/-!
# Proofs.EcdsaInstCurve — `PointOpsCorrect` holds for the model of the real point classes

The interface of the ECDSA layer (`Ecdsa.PointOpsCorrect`, Proofs/EcdsaGroup.lean) is discharged for
`Ecdsa.OnCurve.ops c` (= `Model/Curve.lean`: `PointJacobi.__mul__`, `mul_add`, `__add__`, `__eq__`, `x()`, `y()`,
`scale()` as written) from the point-layer theorems packaged in `Proofs/GroupInterface.lean` (C06/C07).
Group: Mathlib's `WeierstrassCurve.Affine.Point` of `y² = x³ + ax + b` over `ZMod p`; base point `C.G`, `n • G = 0`,
`n` an odd prime; point objects: INFINITY and `PointJacobi` values denoting elements of ⟨G⟩ with declared order `n`
or none (what the library's curves, keys and results carry).  The generator object is a `PointJacobi` (all library
curves); a user-built curve whose generator is a legacy `Point` is not covered by this instance.
-/
namespace Ecdsa.OnCurve
open Curve Jac GroupInterface WeierstrassCurve

variable {p : ℕ} [hp : Fact p.Prime] {a b : ℤ}

/-- the curve description `c` (as sent to the driver / read from a `curves.Curve`) matches the group context `C` -/
structure Matches (c : Affine.Crv) (C : Ctx p a b) : Prop where
  hp2 : p ≠ 2
  cp : c.p = p
  ca : c.a = a
  cb : c.b = b
  cn : c.n = C.n
  n_prime : Nat.Prime c.n.toNat
  jac : c.jac = true
  /-- the generator object denotes the base point -/
  genRep : PJRep p a b C.H ⟨crvOf c, c.gx, c.gy, 1, some c.n, true⟩ C.G

/-- denotation of a point value: the element it represents (0 if it represents none) -/
noncomputable def den (C : Ctx p a b) (A : Pt) : Grp (a : ZMod p) (b : ZMod p) :=
  open Classical in if h : ∃ g, PtRep p a b C.H A g then Classical.choose h else 0

/-- representation invariant: no legacy point, declared order n or none, denotes an element of ⟨G⟩ -/
def Valid (C : Ctx p a b) (A : Pt) : Prop := OrdInv C.n A ∧ ∃ g, PtRep p a b C.H A g

/-- affine x-coordinate of a group element as an integer of [0, p) -/
noncomputable def xcOf : Grp (a : ZMod p) (b : ZMod p) → Option ℤ
  | .zero => none
  | .some x _ _ => some (ZMod.val x : ℤ)

theorem ptRep_unique {C : Ctx p a b} {A : Pt} {g g'} (h : PtRep p a b C.H A g) (h' : PtRep p a b C.H A g') : g = g' := by
  cases A with
  | infinity => exact (show g = 0 from h).trans (show g' = 0 from h').symm
  | jac J =>
    obtain ⟨x, y, ex, ey, _, _, hn, hg⟩ := pjXY_correct (show PJRep p a b C.H J g from h)
    obtain ⟨x', y', ex', ey', _, _, hn', hg'⟩ := pjXY_correct (show PJRep p a b C.H J g' from h')
    rw [ex] at ex'; rw [ey] at ey'
    injection ex' with ex'; injection ey' with ey'
    subst ex'; subst ey'
    rw [hg, hg']
  | aff Af =>
    obtain ⟨_, _, _, _, hn, e⟩ := (show AffRep p a b C.H Af g from h)
    obtain ⟨_, _, _, _, hn', e'⟩ := (show AffRep p a b C.H Af g' from h')
    rw [← e, ← e']

theorem den_eq {C : Ctx p a b} {A : Pt} {g} (h : PtRep p a b C.H A g) : den C A = g := by
  unfold den
  have hex : ∃ g, PtRep p a b C.H A g := ⟨g, h⟩
  rw [dif_pos hex]
  exact ptRep_unique (Classical.choose_spec hex) h

theorem valid_rep {C : Ctx p a b} {A : Pt} (h : Valid C A) : PtRep p a b C.H A (den C A) := by
  obtain ⟨g, hg⟩ := h.2
  rw [den_eq hg]; exact hg

theorem ordOK_of {C : Ctx p a b} {J : PJ} (h : OrdInv C.n (.jac J)) : OrderOK C J := h

theorem ptMulOK_of {C : Ctx p a b} {A : Pt} (h : Valid C A) : PtMulOK p a b C.H A (den C A) := by
  have hr := valid_rep h
  cases A with
  | infinity => exact hr
  | jac J => exact mulOK_of C hr (ordOK_of h.1)
  | aff _ => exact absurd h.1 (by simp [OrdInv])

theorem xcOf_xOf {g : Grp (a : ZMod p) (b : ZMod p)} (hg : g ≠ 0) : xcOf g = some (GroupInterface.xOf g) := by
  cases g with
  | zero => exact absurd rfl hg
  | some x y h => rfl

theorem ptIsInf_eq (A : Pt) : ptIsInf A = ptEq A .infinity := by
  cases A <;> rfl

/-- **the instance** -/
theorem pointOpsCorrect (c : Affine.Crv) (C : Ctx p a b) (M : Matches c C) :
    PointOpsCorrect (ops c) C.G (den C) (xcOf (p := p) (a := a) (b := b)) (Valid C) where
  n_prime := M.n_prime
  nG := by show c.n • C.G = 0; rw [M.cn]; exact C.hn
  G_ne := good_ne_zero M.genRep.2.2
  xc_none R := by
    cases R with
    | zero => exact ⟨fun _ => rfl, fun _ => rfl⟩
    | some x y h => exact ⟨fun h => (by cases h), fun h => absurd h (Affine.Point.some_ne_zero _)⟩
  xc_neg R := by
    cases R with
    | zero => rfl
    | some x y h => rfl
  xc_range R x h := by
    cases R with
    | zero => cases h
    | some x' y' h' =>
      injection h with h; subst h
      refine ⟨by positivity, ?_⟩
      show ((ZMod.val x' : ℕ) : ℤ) < c.p
      rw [M.cp]
      exact_mod_cast ZMod.val_lt x'
  mulG k := by
    have hgen : genOf c = .jac ⟨crvOf c, c.gx, c.gy, 1, some c.n, true⟩ := by simp [genOf, M.jac]
    have hord : OrdInv C.n (.jac ⟨crvOf c, c.gx, c.gy, 1, some c.n, true⟩) := Or.inl (by rw [M.cn])
    obtain ⟨R, hR, rR⟩ := GroupInterface.mul M.hp2 C M.genRep (ordOK_of hord) k
    refine ⟨R, ?_, ⟨pjMulWith_ord hord hR, _, rR⟩, den_eq rR⟩
    show ptMulWith [] (genOf c) k = .ok R
    rw [hgen]; exact hR
  mulAddG _ u1 Q u2 hQ := by
    have hgen : genOf c = .jac ⟨crvOf c, c.gx, c.gy, 1, some c.n, true⟩ := by simp [genOf, M.jac]
    have hord : OrdInv C.n (.jac ⟨crvOf c, c.gx, c.gy, 1, some c.n, true⟩) := Or.inl (by rw [M.cn])
    have hmul := mulOK_of C M.genRep (ordOK_of hord)
    have hQm := ptMulOK_of hQ
    obtain ⟨R, hR, rR⟩ := pjMulAdd_correct M.hp2 C.n2t hmul hQm
      ((ordOK_of hord).annihilates (PtRep.mem (valid_rep hQ))) u1 u2
    refine ⟨R, ?_, ⟨pjMulAddWith_ord hord hQ.1 hR, _, rR⟩, den_eq rR⟩
    show (match genOf c with | .jac G => pjMulAdd G u1 Q u2 | _ => .error .attributeError) = .ok R
    rw [hgen]; exact hR
  mul k Q hQ := by
    obtain ⟨R, hR, rR⟩ := ptMul_correct M.hp2 C.n2t (ptMulOK_of hQ) k
    exact ⟨R, hR, ⟨ptMulWith_ord hQ.1 hR, _, rR⟩, den_eq rR⟩
  add A B hA hB := by
    obtain ⟨R, hR, rR⟩ := GroupInterface.add M.hp2 C (valid_rep hA) (valid_rep hB)
    exact ⟨R, hR, ⟨ptAdd_ord hA.1 hB.1 hR, _, rR⟩, den_eq rR⟩
  isInf A hA := by
    show ptIsInf A = true ↔ _
    rw [ptIsInf_eq]
    exact eq_infinity_iff C (valid_rep hA)
  xOf A hA hne := by
    rcases result_cases (valid_rep hA) with ⟨_, h0⟩ | ⟨J, rfl, hJ, _⟩ | ⟨Af, rfl, _, _⟩
    · exact absurd h0 hne
    · exact ⟨_, xOf_spec hJ, xcOf_xOf hne⟩
    · exact absurd hA.1 (by simp [OrdInv])
  yOf A hA hne := by
    rcases result_cases (valid_rep hA) with ⟨_, h0⟩ | ⟨J, rfl, hJ, _⟩ | ⟨Af, rfl, _, _⟩
    · exact absurd h0 hne
    · obtain ⟨x, y, _, ey, _, _, y0, y1, _⟩ := GroupInterface.xy hJ
      exact ⟨y, ey, y0, by show y < c.p; rw [M.cp]; exact y1⟩
    · exact absurd hA.1 (by simp [OrdInv])
  isInfObj A hA hne := by
    rcases result_cases (valid_rep hA) with ⟨_, h0⟩ | ⟨J, rfl, _, _⟩ | ⟨Af, rfl, _, _⟩
    · exact absurd h0 hne
    · rfl
    · rfl
  fromAffine A hA := by
    cases A with
    | infinity => exact ⟨hA, rfl⟩
    | jac J => exact ⟨hA, rfl⟩
    | aff _ => exact absurd hA.1 (by simp [OrdInv])
  scale A hA := by
    cases A with
    | infinity => exact ⟨.infinity, rfl, hA, rfl⟩
    | aff _ => exact absurd hA.1 (by simp [OrdInv])
    | jac J =>
      have hJ : PJRep p a b C.H J (den C (.jac J)) := valid_rep hA
      obtain ⟨S, hS, rS, _, _, so, sg⟩ := GroupInterface.scale hJ
      refine ⟨.jac S, ?_, ⟨?_, _, rS⟩, den_eq (A := .jac S) rS⟩
      · show (do let S ← pjScale J; Except.ok (Pt.jac S)) = _
        rw [hS]; rfl
      · rcases hA.1 with h | ⟨h, hg⟩
        · left; rw [so, h]
        · right; exact ⟨by rw [so, h], by rw [sg, hg]⟩

end Ecdsa.OnCurve
