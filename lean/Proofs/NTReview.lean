import Proofs.NTFact
import Proofs.NTNext
import Proofs.NTGcd
import Mathlib.Tactic.Linarith
/-! additions after the independent review: bounded soundness hypotheses, a bound on `next_prime`, `gcd`/`lcm` on arbitrary
integers -/
namespace NTProofs
open NT Gen.NT

/-! ### every base of a factorisation is at most the number -/

theorem le_prod_of_mem : ∀ (fs : List (Int × Int)), (∀ g ∈ fs, 2 ≤ g.1 ∧ 1 ≤ g.2) → ∀ f ∈ fs,
    f.1 ≤ (fs.map (fun f => f.1 ^ f.2.toNat)).prod ∧ 1 ≤ (fs.map (fun f => f.1 ^ f.2.toNat)).prod := by
  intro fs
  induction fs with
  | nil => intro _ f hf; cases hf
  | cons g r ih =>
    intro h f hf
    simp only [List.map_cons, List.prod_cons]
    have hg := h g (by simp)
    have hgpow : g.1 ≤ g.1 ^ g.2.toNat := by
      have : g.2.toNat = (g.2.toNat - 1) + 1 := by omega
      rw [this, pow_succ]
      have : 1 ≤ g.1 ^ (g.2.toNat - 1) := one_le_pow₀ (by omega)
      nlinarith
    have hr1 : 1 ≤ (r.map (fun f => f.1 ^ f.2.toNat)).prod := by
      cases r with
      | nil => simp
      | cons x xs => exact (ih (fun g' hg' => h g' (by simp [hg'])) x (by simp)).2
    constructor
    · rcases List.mem_cons.mp hf with rfl | hmem
      · nlinarith
      · have := (ih (fun g' hg' => h g' (by simp [hg'])) f hmem).1
        nlinarith
    · nlinarith

/-- **all bases prime, with soundness of `is_prime` assumed only up to `n`** (the only number it is applied to is a cofactor
`≤ n`): satisfiable — e.g. by ψ below 2⁶⁴, or unconditionally below 4096 -/
theorem factorization_all_prime_bounded (lg : Int → Int) (n : Int) (hn : 2 ≤ n)
    (hsound : ∀ m, 1229 < m → m ≤ n → isPrime lg m = .ok true → m.toNat.Prime) :
    ∃ fs, factorization lg n = .ok fs ∧
        (fs.map (fun f => f.1 ^ f.2.toNat)).prod = n ∧ (fs.map Prod.fst).Pairwise (· < ·) ∧
        (∀ f ∈ fs, 1 ≤ f.2) ∧ (∀ f ∈ fs, 2 ≤ f.1) ∧ ∀ f ∈ fs, f.1.toNat.Prime := by
  obtain ⟨fs, h1, h2, h3, h4, h5, h6⟩ := (factorization_spec lg n).2 hn
  refine ⟨fs, h1, h2, h3, h4, h5, fun f hf => ?_⟩
  rcases h6 f hf with h | ⟨h, _, hp, _⟩
  · exact h
  · have hle := (le_prod_of_mem fs (fun g hg => ⟨h5 g hg, h4 g hg⟩) f hf).1
    rw [h2] at hle
    exact hsound _ h hle hp

/-! ### `next_prime` stays below `2·(n + 2)` (Bertrand) -/

theorem nextPrime_spec_bound (lg : Int → Int) (start : Nat) (hs : 2 ≤ start) :
    ∃ r : Nat, nextPrime lg start = .ok (r : Int) ∧ start < r ∧ r ≤ 2 * (start + 2) ∧ isPrime lg r = .ok true ∧
      ∀ q : Nat, start < q → q < r → ¬ q.Prime := by
  obtain ⟨c, hc⟩ : ∃ c : Nat, orOne ((start : Int) + 1) = c ∧ c % 2 = 1 ∧ start + 1 ≤ c ∧ c ≤ start + 2 := by
    unfold orOne
    rw [pmod_eq_emod (by decide)]
    by_cases h : ((start : Int) + 1) % 2 = 0
    · exact ⟨start + 2, by rw [if_pos h]; push_cast; ring, by omega, by omega, by omega⟩
    · exact ⟨start + 1, by rw [if_neg h]; push_cast; ring, by omega, by omega, by omega⟩
  obtain ⟨hc0, hc1, hc2, hc3⟩ := hc
  obtain ⟨q, hq, hq1, hq2⟩ := Nat.exists_prime_lt_and_le_two_mul c (by omega)
  have hqodd : q % 2 = 1 := by
    rcases hq.eq_two_or_odd with h | h
    · omega
    · exact h
  obtain ⟨r, h1, h2, h3, h4, h5⟩ := nextPrimeLoop_spec lg q hq (c + 2) c (by omega) (by omega) (by omega)
  refine ⟨r, ?_, by omega, by omega, h4, ?_⟩
  · unfold nextPrime
    rw [if_neg (by omega), hc0]
    simp only [Int.toNat_natCast]
    exact h1
  · intro m hm1 hm2 hmp
    by_cases hpar : m % 2 = 0
    · have := (Nat.Prime.eq_one_or_self_of_dvd hmp 2 (by omega)); omega
    · have := h5 m (by omega) hm2 (by omega)
      rw [isPrime_complete lg m hmp] at this; cases this

/-! ### `gcd` / `lcm` on arbitrary integers: what the code returns -/

theorem gcd2_eq (a b : Int) : gcd2 a b = (Nat.gcd a.natAbs b.natAbs : Nat) := rfl

/-- `lcm2(a, b)`: 0 if an argument is 0, otherwise `(a*b) // gcd` — magnitude lcm(|a|, |b|), sign of `a·b` -/
theorem lcm2_int (a b : Int) :
    ∃ v : Int, NT.lcm2 a b = .ok v ∧ v.natAbs = Nat.lcm a.natAbs b.natAbs ∧ (0 < a * b → 0 < v) ∧ (a * b < 0 → v < 0) ∧
      (a * b = 0 → v = 0) := by
  unfold NT.lcm2 Gen.NT.lcm2
  by_cases ha : a = 0
  · subst ha; exact ⟨0, by simp, by simp, by simp, by simp, by simp⟩
  by_cases hb : b = 0
  · subst hb; exact ⟨0, by simp [ha], by simp, by simp, by simp, by simp⟩
  have hgpos : 0 < Nat.gcd a.natAbs b.natAbs := Nat.gcd_pos_of_pos_left _ (Int.natAbs_pos.mpr ha)
  have hg : ¬ gcd2 a b = 0 := by rw [gcd2_eq]; omega
  simp only [ha, hb, decide_false, Bool.or_self, Bool.false_eq_true, ↓reduceIte, hg]
  have hdvd : gcd2 a b ∣ a * b := by
    rw [gcd2_eq]
    exact Dvd.dvd.mul_right (Int.natCast_dvd.mpr (Nat.gcd_dvd_left _ _)) b
  obtain ⟨k, hk⟩ := hdvd
  have hgp : (0 : Int) < gcd2 a b := by rw [gcd2_eq]; omega
  have hdiv : Int.fdiv (a * b) (gcd2 a b) = k := by
    rw [Int.fdiv_eq_ediv_of_nonneg _ (le_of_lt hgp), hk, Int.mul_ediv_cancel_left _ (ne_of_gt hgp)]
  rw [hdiv]
  refine ⟨k, rfl, ?_, ?_, ?_, ?_⟩
  · have h1 : (a * b).natAbs = (gcd2 a b).natAbs * k.natAbs := by rw [hk, Int.natAbs_mul]
    rw [Int.natAbs_mul, gcd2_eq, Int.natAbs_natCast] at h1
    have h2 := Nat.gcd_mul_lcm a.natAbs b.natAbs
    have : Nat.gcd a.natAbs b.natAbs * k.natAbs = Nat.gcd a.natAbs b.natAbs * Nat.lcm a.natAbs b.natAbs := by
      rw [← h1, h2]
    exact Nat.eq_of_mul_eq_mul_left hgpos this
  · intro h; rw [hk] at h
    by_contra hk0
    have : gcd2 a b * k ≤ 0 := by nlinarith
    omega
  · intro h; rw [hk] at h; nlinarith
  · intro h
    rcases mul_eq_zero.mp h with h | h
    · exact absurd h ha
    · exact absurd h hb

end NTProofs
