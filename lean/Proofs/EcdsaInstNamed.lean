import Proofs.EcdsaInstCard
import Generated.Curves
/-!
# Proofs.EcdsaInstNamed — the 16 named cofactor-1 curves satisfy `OnCurve.MatchesRec`
under exactly three hypotheses each: **p prime, n prime, #E(𝔽_p) = n**.  Everything else is computed by the kernel on
the rows of `Generated/Curves.lean` (re-extracted from `curves.py` / `ecdsa.py` on every run): reduced generator
coordinates, G on the curve with y ≠ 0, 4a³ + 27b² ≢ 0, h = 1, n odd.  (SECP112r2 has h = 4 and is not in this list.)
-/
namespace Ecdsa.OnCurve
open Curve Jac GroupInterface WeierstrassCurve

/-- the curve description the driver receives for a row of the curve table (generator: `PointJacobi`) -/
def crvOfRow (row : Gen.CurveRow) : Affine.Crv := ⟨row.p, row.a, row.b, row.gx, row.gy, row.n, row.h, true⟩

/-- the computed facts -/
def rowCheck (row : Gen.CurveRow) : Bool :=
  decide (row.gx < row.p) && decide (row.gy < row.p) && decide (row.p ≠ 2)
    && decide ((((row.gy : ℤ) ^ 2 - ((row.gx : ℤ) ^ 3 + row.a * row.gx + row.b)) % (row.p : ℤ)) = 0)
    && decide (((row.gy : ℤ) % (row.p : ℤ)) ≠ 0)
    && decide (((4 * row.a ^ 3 + 27 * row.b ^ 2) % (row.p : ℤ)) ≠ 0)
    && decide (row.h = 1) && decide (row.n % 2 = 1)

theorem shortW_Δ {F : Type} [Field F] (a b : F) : (shortW a b).toAffine.Δ = -16 * (4 * a ^ 3 + 27 * b ^ 2) := by
  simp only [shortW, Jacobian.toAffine, WeierstrassCurve.Δ, WeierstrassCurve.b₂, WeierstrassCurve.b₄,
    WeierstrassCurve.b₆, WeierstrassCurve.b₈]
  ring

theorem matchesRec_of_row (row : Gen.CurveRow) [hp : Fact row.p.Prime] (hnp : row.n.Prime)
    (hcard : Nat.card (Grp ((row.a : ℤ) : ZMod row.p) ((row.b : ℤ) : ZMod row.p)) = row.n)
    (hchk : rowCheck row = true) :
    ∃ C : Ctx row.p row.a row.b, MatchesRec (crvOfRow row) C ∧ C.n = row.n := by
  simp only [rowCheck, Bool.and_eq_true, decide_eq_true_eq] at hchk
  obtain ⟨⟨⟨⟨⟨⟨⟨hgx, hgy⟩, hp2⟩, he⟩, hy0⟩, hd⟩, _⟩, hodd⟩ := hchk
  have h2 : (2 : ZMod row.p) ≠ 0 := two_ne_zero_of hp2
  refine matchesRec_of_card hp2 (crvOfRow row) rfl rfl rfl rfl row.n rfl hnp hodd hcard ?_
    ⟨by simp [crvOfRow], by simpa [crvOfRow] using hgx⟩ ⟨by simp [crvOfRow], by simpa [crvOfRow] using hgy⟩ ?_ ?_
  · rw [shortW_Δ]
    have h16 : (-16 : ZMod row.p) ≠ 0 := by
      have : (-16 : ZMod row.p) = -(2 * 2 * 2 * 2) := by norm_num
      rw [this]; exact neg_ne_zero.mpr (mul_ne_zero (mul_ne_zero (mul_ne_zero h2 h2) h2) h2)
    refine mul_ne_zero h16 ?_
    intro h
    apply hd
    apply Int.emod_eq_zero_of_dvd
    rw [← ZMod.intCast_zmod_eq_zero_iff_dvd]
    push_cast
    exact h
  · have := (ZMod.intCast_zmod_eq_zero_iff_dvd _ row.p).mpr (Int.dvd_of_emod_eq_zero he)
    push_cast at this
    simp only [crvOfRow]
    push_cast
    linear_combination this
  · intro h
    apply hy0
    apply Int.emod_eq_zero_of_dvd
    rw [← ZMod.intCast_zmod_eq_zero_iff_dvd]
    simpa [crvOfRow] using h

/-- the computed facts hold for the 16 named curves with cofactor 1 (kernel evaluation on the extracted rows) -/
theorem rowCheck_named : ∀ row ∈ [Gen.curve_NIST192p, Gen.curve_NIST224p, Gen.curve_NIST256p, Gen.curve_NIST384p,
    Gen.curve_NIST521p, Gen.curve_SECP256k1, Gen.curve_BRAINPOOLP160r1, Gen.curve_BRAINPOOLP192r1,
    Gen.curve_BRAINPOOLP224r1, Gen.curve_BRAINPOOLP256r1, Gen.curve_BRAINPOOLP320r1, Gen.curve_BRAINPOOLP384r1,
    Gen.curve_BRAINPOOLP512r1, Gen.curve_SECP112r1, Gen.curve_SECP128r1, Gen.curve_SECP160r1], rowCheck row = true := by
  decide +kernel

end Ecdsa.OnCurve

namespace Ecdsa.OnCurve
open Curve Jac GroupInterface WeierstrassCurve

/-- any cofactor: `Matches` from p odd prime, n odd prime, the generator on the curve (computed) and **n • G = 0**
(the SEC 2 fact "G has order n"; for h = 1 it follows from #E = n, see `matchesRec_of_card`) -/
theorem matches_of_order {p : ℕ} [hp : Fact p.Prime] {a b : ℤ} (hp2 : p ≠ 2) (c : Affine.Crv) (cp : c.p = p) (ca : c.a = a)
    (cb : c.b = b) (cj : c.jac = true) (n : ℕ) (cn : c.n = n) (hnp : n.Prime) (hodd : n % 2 = 1)
    (hgx : 0 ≤ c.gx ∧ c.gx < p) (hgy : 0 ≤ c.gy ∧ c.gy < p)
    (he : ((c.gy : ℤ) : ZMod p) ^ 2 = (c.gx : ZMod p) ^ 3 + a * c.gx + b) (hy0 : ((c.gy : ℤ) : ZMod p) ≠ 0)
    (hnG : (n : ℤ) • (Affine.Point.some _ _ (nonsingular_of hp2 he hy0) : Grp (a : ZMod p) (b : ZMod p)) = 0) :
    ∃ C : Ctx p a b, Matches c C ∧ C.n = n := by
  let C : Ctx p a b := ⟨_, n, hnG, by omega, by have := hnp.pos; omega⟩
  have hcv : OnCurve p a b (crvOf c) := ⟨cp, ca, cb⟩
  have h0 := pjRep_of_affine hp2 (crvOf c) hcv c.gx c.gy hgx hgy he hy0 (some c.n) true
  obtain ⟨h1, h2, h3⟩ := h0
  exact ⟨C, ⟨hp2, cp, ca, cb, cn, by rw [cn]; simpa using hnp, cj, ⟨h1, h2, ⟨C.G_mem, h3.2⟩⟩⟩, rfl⟩

end Ecdsa.OnCurve
