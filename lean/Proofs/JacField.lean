import Proofs.JacBase
/-!
# Proofs.JacField — the five formula variants of `ellipticcurve.py`, read in a field, versus Mathlib

Each generic branch equals a unit multiple of Mathlib's `WeierstrassCurve.Jacobian.addXYZ`
(units −2, −Z₁⁻¹, −2·Z₁, −2·Z₁·Z₂) and both doubling variants *equal* `dblXYZ`.
The cofactors of `linear_combination` were computed with sympy in the design round.
The definitions below are the `% p`-free readings of `Gen.k_*` (Proofs/JacCast.lean proves that the generated integer
kernels, cast to `ZMod p`, are exactly these).
-/
namespace Jac
open WeierstrassCurve WeierstrassCurve.Jacobian

variable {F : Type*} [Field F]

/-- `_add_with_z_1`, generic branch -/
def addZ1F (X1 Y1 X2 Y2 : F) : Fin 3 → F :=
  let H := X2 - X1
  let HH := H * H
  let I := 4 * HH
  let J := H * I
  let r := 2 * (Y2 - Y1)
  let V := X1 * I
  let X3 := r ^ 2 - J - 2 * V
  let Y3 := r * (V - X3) - 2 * Y1 * J
  let Z3 := 2 * H
  ![X3, Y3, Z3]

/-- `_add_with_z_eq`, generic branch -/
def addZeqF (X1 Y1 Z1 X2 Y2 : F) : Fin 3 → F :=
  let A := (X2 - X1) ^ 2
  let B := X1 * A
  let C := X2 * A
  let D := (Y2 - Y1) ^ 2
  let X3 := D - B - C
  let Y3 := (Y2 - Y1) * (B - X3) - Y1 * (C - B)
  let Z3 := Z1 * (X2 - X1)
  ![X3, Y3, Z3]

/-- `_add_with_z2_1`, generic branch -/
def addZ21F (X1 Y1 Z1 X2 Y2 : F) : Fin 3 → F :=
  let Z1Z1 := Z1 * Z1
  let U2 := X2 * Z1Z1
  let S2 := Y2 * Z1 * Z1Z1
  let H := U2 - X1
  let HH := H * H
  let I := 4 * HH
  let J := H * I
  let r := 2 * (S2 - Y1)
  let V := X1 * I
  let X3 := r * r - J - 2 * V
  let Y3 := r * (V - X3) - 2 * Y1 * J
  let Z3 := (Z1 + H) ^ 2 - Z1Z1 - HH
  ![X3, Y3, Z3]

/-- `_add_with_z_ne`, generic branch -/
def addNeF (X1 Y1 Z1 X2 Y2 Z2 : F) : Fin 3 → F :=
  let Z1Z1 := Z1 * Z1
  let Z2Z2 := Z2 * Z2
  let U1 := X1 * Z2Z2
  let U2 := X2 * Z1Z1
  let S1 := Y1 * Z2 * Z2Z2
  let S2 := Y2 * Z1 * Z1Z1
  let H := U2 - U1
  let I := 4 * H * H
  let J := H * I
  let r := 2 * (S2 - S1)
  let V := U1 * I
  let X3 := r * r - J - 2 * V
  let Y3 := r * (V - X3) - 2 * S1 * J
  let Z3 := ((Z1 + Z2) ^ 2 - Z1Z1 - Z2Z2) * H
  ![X3, Y3, Z3]

/-- `_double`, generic branch -/
def dblF (a X1 Y1 Z1 : F) : Fin 3 → F :=
  let XX := X1 * X1
  let YY := Y1 * Y1
  let YYYY := YY * YY
  let ZZ := Z1 * Z1
  let S := 2 * ((X1 + YY) ^ 2 - XX - YYYY)
  let M := 3 * XX + a * ZZ * ZZ
  let T := M * M - 2 * S
  let Y3 := M * (S - T) - 8 * YYYY
  let Z3 := (Y1 + Z1) ^ 2 - YY - ZZ
  ![T, Y3, Z3]

/-- `_double_with_z_1`, generic branch -/
def dblZ1F (a X1 Y1 : F) : Fin 3 → F :=
  let XX := X1 * X1
  let YY := Y1 * Y1
  let YYYY := YY * YY
  let S := 2 * ((X1 + YY) ^ 2 - XX - YYYY)
  let M := 3 * XX + a
  let T := M * M - 2 * S
  let Y3 := M * (S - T) - 8 * YYYY
  let Z3 := 2 * Y1
  ![T, Y3, Z3]

section
variable (a b X1 Y1 Z1 X2 Y2 Z2 : F)

theorem addZ1F_eq_smul (hP : (shortW a b).Equation ![X1, Y1, 1])
    (hQ : (shortW a b).Equation ![X2, Y2, 1]) :
    addZ1F X1 Y1 X2 Y2 = (-2 : F) • (shortW a b).addXYZ ![X1, Y1, 1] ![X2, Y2, 1] := by
  have eP := eqn_short a b X1 Y1 1 hP
  have eQ := eqn_short a b X2 Y2 1 hQ
  ext i; fin_cases i
  · simp only [addZ1F, addXYZ, addX, smul_fin3, shortW, Matrix.cons_val_zero, Matrix.cons_val_one,
      Matrix.cons_val_two, Matrix.head_cons, Matrix.tail_cons, Fin.zero_eta]
    linear_combination 4 * eP + 4 * eQ
  · simp only [addZ1F, addXYZ, addY, negY, negAddY, addX, addZ, smul_fin3, shortW,
      Matrix.cons_val_zero, Matrix.cons_val_one, Matrix.cons_val_two, Matrix.head_cons,
      Matrix.tail_cons, Fin.mk_one]
    linear_combination (8 * Y1 - 8 * Y2) * eP + (8 * Y1 - 8 * Y2) * eQ
  · simp [addZ1F, addXYZ, addZ, smul_fin3, shortW]; ring

theorem addZ21F_eq_smul (hP : (shortW a b).Equation ![X1, Y1, Z1])
    (hQ : (shortW a b).Equation ![X2, Y2, 1]) :
    addZ21F X1 Y1 Z1 X2 Y2 = (-2 * Z1) • (shortW a b).addXYZ ![X1, Y1, Z1] ![X2, Y2, 1] := by
  have eP := eqn_short a b X1 Y1 Z1 hP
  have eQ := eqn_short a b X2 Y2 1 hQ
  ext i; fin_cases i
  · simp only [addZ21F, addXYZ, addX, smul_fin3, shortW, Matrix.cons_val_zero, Matrix.cons_val_one,
      Matrix.cons_val_two, Matrix.head_cons, Matrix.tail_cons, Fin.zero_eta]
    linear_combination 4 * eP + (4 * Z1 ^ 6) * eQ
  · simp only [addZ21F, addXYZ, addY, negY, negAddY, addX, addZ, smul_fin3, shortW,
      Matrix.cons_val_zero, Matrix.cons_val_one, Matrix.cons_val_two, Matrix.head_cons,
      Matrix.tail_cons, Fin.mk_one]
    linear_combination (8 * Y1 - 8 * Y2 * Z1 ^ 3) * eP + (8 * Y1 * Z1 ^ 6 - 8 * Y2 * Z1 ^ 9) * eQ
  · simp [addZ21F, addXYZ, addZ, smul_fin3, shortW]; ring

theorem addZeqF_eq_smul (hZ : Z1 ≠ 0) (hP : (shortW a b).Equation ![X1, Y1, Z1])
    (hQ : (shortW a b).Equation ![X2, Y2, Z1]) :
    addZeqF X1 Y1 Z1 X2 Y2 = (-Z1⁻¹) • (shortW a b).addXYZ ![X1, Y1, Z1] ![X2, Y2, Z1] := by
  have eP := eqn_short a b X1 Y1 Z1 hP
  have eQ := eqn_short a b X2 Y2 Z1 hQ
  ext i; fin_cases i
  · simp only [addZeqF, addXYZ, addX, smul_fin3, shortW, Matrix.cons_val_zero, Matrix.cons_val_one,
      Matrix.cons_val_two, Matrix.head_cons, Matrix.tail_cons, Fin.zero_eta]
    field_simp
    linear_combination eP + eQ
  · simp only [addZeqF, addXYZ, addY, negY, negAddY, addX, addZ, smul_fin3, shortW,
      Matrix.cons_val_zero, Matrix.cons_val_one, Matrix.cons_val_two, Matrix.head_cons,
      Matrix.tail_cons, Fin.mk_one]
    field_simp
    linear_combination (Y1 - Y2) * eP + (Y1 - Y2) * eQ
  · simp [addZeqF, addXYZ, addZ, smul_fin3, shortW]; field_simp; ring

theorem addNeF_eq_smul (hP : (shortW a b).Equation ![X1, Y1, Z1])
    (hQ : (shortW a b).Equation ![X2, Y2, Z2]) :
    addNeF X1 Y1 Z1 X2 Y2 Z2 =
      (-2 * Z1 * Z2) • (shortW a b).addXYZ ![X1, Y1, Z1] ![X2, Y2, Z2] := by
  have eP := eqn_short a b X1 Y1 Z1 hP
  have eQ := eqn_short a b X2 Y2 Z2 hQ
  ext i; fin_cases i
  · simp only [addNeF, addXYZ, addX, smul_fin3, shortW, Matrix.cons_val_zero, Matrix.cons_val_one,
      Matrix.cons_val_two, Matrix.head_cons, Matrix.tail_cons, Fin.zero_eta]
    linear_combination (4 * Z2 ^ 6) * eP + (4 * Z1 ^ 6) * eQ
  · simp only [addNeF, addXYZ, addY, negY, negAddY, addX, addZ, smul_fin3, shortW,
      Matrix.cons_val_zero, Matrix.cons_val_one,
      Matrix.cons_val_two, Matrix.head_cons, Matrix.tail_cons, Fin.mk_one]
    linear_combination (8 * Y1 * Z2 ^ 9 - 8 * Y2 * Z1 ^ 3 * Z2 ^ 6) * eP
      + (8 * Y1 * Z1 ^ 6 * Z2 ^ 3 - 8 * Y2 * Z1 ^ 9) * eQ
  · simp [addNeF, addXYZ, addZ, smul_fin3, shortW]; ring

theorem dblF_eq : dblF a X1 Y1 Z1 = (shortW a b).dblXYZ ![X1, Y1, Z1] := by
  ext i
  fin_cases i <;>
  simp [dblF, dblXYZ, dblX, dblY, dblZ, negDblY, dblU_eq, negY, shortW] <;> ring

theorem dblZ1F_eq : dblZ1F a X1 Y1 = (shortW a b).dblXYZ ![X1, Y1, 1] := by
  ext i
  fin_cases i <;>
  simp [dblZ1F, dblXYZ, dblX, dblY, dblZ, negDblY, dblU_eq, negY, shortW] <;> ring

end
end Jac
