import Proofs.KeysTie2
/-!
# Proofs.KeysTie3 — DER loaders, `point_is_valid`, `Curve.__init__` lengths, PEM line length
-/
namespace KeysTie
open Keys Gen.KeysT

/-- `VerifyingKey.from_der`: the "raw length is refused" test -/
theorem vkFromDer_source (E : Ext) (str : Bytes) :
    VK.fromDer E str = (do
      let (s1, empty) ← Der.removeSequence str
      if empty ≠ [] then .error .unexpectedDER
      else do
        let (s2, pointStrBitstring) ← Der.removeSequence s1
        let (oidPk, rest) ← Der.removeObject s2
        let (oidCurve, empty) ← Der.removeObject rest
        if empty ≠ [] then .error .unexpectedDER
        else if oidPk ≠ Gen.oid_ecPublicKey then .error .unexpectedDER
        else do
          let curve ← findCurve oidCurve
          let (pointStr, _, empty) ← Der.removeBitstring pointStrBitstring (.some 0)
          if empty ≠ [] then .error .unexpectedDER
          else if vk_der_raw_len pointStr.length curve.vkLen then .error .unexpectedDER
          else VK.fromString E curve pointStr true) := by
  unfold VK.fromDer
  simp only [vk_der_raw_len_nat, decide_eq_true_eq]

/-- the ECPrivateKey part of `SigningKey.from_der`: version test, tag test, the left padding -/
theorem ecPrivateKeyTail_source (E : Ext) (version : Nat) (s : Bytes) (curve : Option Curve) :
    SK.ecPrivateKeyTail E version s curve =
      (if sk_der_version_bad version then .error .unexpectedDER
      else do
        let (privkeyStr, s) ← Der.removeOctetString s
        let curve ← (match curve with
          | some c => (.ok c : Res Curve)
          | none => do
            let (tag, curveOidStr, _) ← Der.removeConstructed s
            if sk_der_tag_bad tag then .error .unexpectedDER
            else do
              let (curveOid, empty) ← Der.removeObject curveOidStr
              if empty ≠ [] then .error .unexpectedDER
              else findCurve curveOid)
        let privkeyStr :=
          if sk_der_short privkeyStr.length curve.baselen then List.replicate (sk_der_pad privkeyStr.length curve.baselen).toNat 0 ++ privkeyStr
          else privkeyStr
        SK.fromString E curve privkeyStr) := by
  unfold SK.ecPrivateKeyTail
  simp only [sk_der_version_bad_nat, sk_der_tag_bad_nat, sk_der_short_nat, sk_der_pad_nat, decide_eq_true_eq]
  rfl

/-- `SigningKey.from_der`: the PKCS#8 version test -/
theorem skFromDer_source (E : Ext) (str : Bytes) :
    SK.fromDer E str = (do
      let (s, empty) ← Der.removeSequence str
      if empty ≠ [] then .error .unexpectedDER
      else do
        let (version, s) ← Der.removeInteger s
        if isSequence s then
          if sk_der_pkcs8_version_bad version then .error .unexpectedDER
          else do
            let (sequence, s) ← Der.removeSequence s
            let (algorithmOid, algorithmIdentifier) ← Der.removeObject sequence
            let (curveOid, empty) ← Der.removeObject algorithmIdentifier
            let curve ← findCurve curveOid
            if algorithmOid ≠ Gen.oid_ecPublicKey ∧ algorithmOid ≠ Gen.oid_ecDH ∧ algorithmOid ≠ Gen.oid_ecMQV then
              .error .unexpectedDER
            else if empty ≠ [] then .error .unexpectedDER
            else do
              let (s, _) ← Der.removeOctetString s
              let (s, empty) ← Der.removeSequence s
              if empty ≠ [] then .error .unexpectedDER
              else do
                let (version, s) ← Der.removeInteger s
                SK.ecPrivateKeyTail E version s (some curve)
        else SK.ecPrivateKeyTail E version s none) := by
  unfold SK.fromDer
  simp only [sk_der_pkcs8_version_bad_nat, decide_eq_true_eq]

/-- `ecdsa.point_is_valid`: the range tests -/
theorem pointIsValid_source (E : Ext) (c : Curve) (x y : Int) :
    pointIsValid E c x y =
      if piv_x_out x c.p ∨ piv_y_out y c.p then false
      else if ¬ onCurve c x y then false
      else if c.h ≠ 1 ∧ ¬ E.subgroupOk c x.toNat y.toNat then false
      else true := by
  unfold pointIsValid piv_x_out piv_y_out
  by_cases a1 : 0 ≤ x <;> by_cases a2 : x < (c.p : Int) <;> by_cases b1 : 0 ≤ y <;> by_cases b2 : y < (c.p : Int) <;>
    simp [a1, a2, b1, b2]

/-- `util.orderlen` on Python integers (only used on `x ≥ 0`) -/
def orderlenInt (x : Int) : Int := (Util.orderlen x.toNat : Nat)

/-- `Curve.__init__`: `baselen`, `verifying_key_length`, `signature_length` -/
theorem curve_lengths_source (c : Curve) :
    (c.baselen : Int) = curve_baselen c.n orderlenInt ∧
    (c.vkLen : Int) = curve_vkl c.p orderlenInt ∧
    ((2 * c.baselen : Nat) : Int) = curve_siglen c.baselen := by
  refine ⟨rfl, ?_, ?_⟩
  · unfold Curve.vkLen curve_vkl orderlenInt; simp
  · unfold curve_siglen; simp

/-- `der.topem`: lines of 64 characters -/
theorem chunk64_source (s : Bytes) :
    chunk64 s = if s = [] then [] else s.take pem_line_len.toNat ++ [10] ++ chunk64 (s.drop pem_line_step.toNat) := by
  rw [chunk64]; rfl

end KeysTie
