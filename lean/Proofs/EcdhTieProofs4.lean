import Proofs.EcdhTieProofs3
/-! # Proofs.EcdhTieProofs4 — `ECDH.__init__` -/
namespace EcdhTie
open Ecdh Gen.Ecdh
variable {Crv Pt Ent : Type} [DecidableEq Crv]

def ofSk : Option (SKey Crv Pt) → Val Crv Pt
  | some k => .sk k
  | none => .none

def ofVk : Option (VKey Crv Pt) → Val Crv Pt
  | some k => .vk k
  | none => .none

/-- `ECDH(curve, private_key, public_key)`: run the generated `__init__` on a blank object; an exception leaves no object -/
def initSource (env : Env Crv Pt Ent) (c : Option Crv) (sk : Option (SKey Crv Pt)) (vk : Option (VKey Crv Pt)) : Res (State Crv Pt) :=
  let r := run env none 40 ⟨none, none, none⟩ [] (.m "__init__" [ofCrv c, ofSk sk, ofVk vk])
  match r.2.2 with
  | .ok _ => .ok r.1
  | .error e => .error e

attribute [ecdh_run] initSource ofSk ofVk

theorem init_source (env : Env Crv Pt Ent) (c : Option Crv) (sk : Option (SKey Crv Pt)) (vk : Option (VKey Crv Pt)) :
    Ecdh.init c sk vk = initSource env c sk vk := by
  cases c with
  | none =>
    cases sk with
    | none => cases vk <;> simp [ecdh_run]
    | some sk =>
      cases vk with
      | none => simp [ecdh_run]
      | some vk => by_cases h : sk.curve = vk.curve <;> simp [h, ecdh_run]
  | some c =>
    cases sk with
    | none =>
      cases vk with
      | none => simp [ecdh_run]
      | some vk => by_cases h : c = vk.curve <;> simp [h, ecdh_run]
    | some sk =>
      by_cases h1 : c = sk.curve
      · cases vk with
        | none => simp [h1, ecdh_run]
        | some vk => by_cases h2 : sk.curve = vk.curve <;> simp [h1, h2, ecdh_run]
      · cases vk <;> simp [h1, ecdh_run]

end EcdhTie
