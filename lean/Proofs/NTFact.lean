import Model.NumberTheory
import Proofs.NTTable
import Proofs.NTInv
import Mathlib.Data.Nat.Prime.Basic
import Mathlib.Tactic.Ring
import Mathlib.Tactic.Linarith
/-! `factorization` (C16): trial division by the prime table, then by the odd numbers from 1231 -/
namespace NTProofs
open NT Gen.NT

/-! ## arithmetic helpers: prime divisors of a positive integer -/

/-- every integer `n ≥ 2` has a prime divisor `≤ n` -/
theorem exists_prime_dvd {n : Int} (hn : 2 ≤ n) : ∃ q : Nat, q.Prime ∧ (q : Int) ∣ n ∧ (q : Int) ≤ n := by
  refine ⟨n.toNat.minFac, Nat.minFac_prime (by omega), ?_, ?_⟩
  · have h := Nat.minFac_dvd n.toNat
    have : ((n.toNat.minFac : Nat) : Int) ∣ ((n.toNat : Nat) : Int) := Int.natCast_dvd_natCast.mpr h
    rwa [Int.toNat_of_nonneg (by omega)] at this
  · have h := Nat.minFac_le (n := n.toNat) (by omega)
    omega

/-- `n ≥ 1` without prime divisors is `1` -/
theorem eq_one_of_no_prime {n : Int} (hn : 1 ≤ n) (h : ∀ q : Nat, q.Prime → ¬ (q : Int) ∣ n) : n = 1 := by
  by_contra hne
  obtain ⟨q, hq, hd, _⟩ := exists_prime_dvd (n := n) (by omega)
  exact h q hq hd

/-- `2 ≤ n < d²` and every prime divisor of `n` is `≥ d`: `n` is prime -/
theorem prime_of_lt_sq {n d : Int} (hn : 2 ≤ n) (hd : 0 ≤ d) (h : ∀ q : Nat, q.Prime → (q : Int) ∣ n → d ≤ q)
    (hlt : n < d * d) : n.toNat.Prime := by
  by_contra hnp
  have h2 : 2 ≤ n.toNat := by omega
  have hsq := Nat.minFac_sq_le_self (by omega) hnp
  have hp := Nat.minFac_prime (n := n.toNat) (by omega)
  have hdv : ((n.toNat.minFac : Nat) : Int) ∣ n := by
    have : ((n.toNat.minFac : Nat) : Int) ∣ ((n.toNat : Nat) : Int) := Int.natCast_dvd_natCast.mpr (Nat.minFac_dvd _)
    rwa [Int.toNat_of_nonneg (by omega)] at this
  have hge := h _ hp hdv
  have hsq' : ((n.toNat.minFac : Nat) : Int) * (n.toNat.minFac : Nat) ≤ n := by
    have : ((n.toNat.minFac ^ 2 : Nat) : Int) ≤ (n.toNat : Int) := by exact_mod_cast hsq
    rw [Int.toNat_of_nonneg (by omega)] at this
    push_cast at this; nlinarith
  nlinarith

/-- a divisor `d ≥ 2` of `n` that is below-or-equal every prime divisor of `n` is prime -/
theorem prime_of_least {n d : Int} (hd : 2 ≤ d) (hdn : d ∣ n) (h : ∀ q : Nat, q.Prime → (q : Int) ∣ n → d ≤ q) :
    d.toNat.Prime := by
  obtain ⟨q, hq, hqd, hle⟩ := exists_prime_dvd hd
  have := h q hq (Dvd.dvd.trans hqd hdn)
  have : d = q := by omega
  rw [this]; simpa using hq

/-! ## the inner loops: divide out `d` completely -/

theorem factInner1_spec (d : Int) (hd : 2 ≤ d) :
    ∀ (fuel : Nat) (n count : Int), 1 ≤ n → d ∣ n → n < fuel →
      ∃ (n' : Int) (k : Nat), factInner1 d fuel n count = .ok (n', count + k) ∧ n = d ^ (k + 1) * n' ∧ 1 ≤ n' ∧ ¬ d ∣ n' := by
  intro fuel
  induction fuel with
  | zero => intro n count h1 _ hlt; exfalso; simp at hlt; omega
  | succ f ih =>
    intro n count h1 hdn hlt
    have hdpos : 0 < d := by omega
    obtain ⟨m, rfl⟩ := hdn
    have hm : 1 ≤ m := by
      by_contra hm
      have : m ≤ 0 := by omega
      nlinarith
    have hle : d ≤ d * m := by nlinarith
    unfold factInner1
    rw [if_pos hle, if_neg (by omega), pdiv_eq_ediv hdpos, Int.mul_ediv_cancel_left m (by omega)]
    dsimp only
    rw [pmod_eq_emod hdpos]
    by_cases hr : m % d = 0
    · have hdm : d ∣ m := Int.dvd_of_emod_eq_zero hr
      simp only [hr, ne_eq, not_true_eq_false, ↓reduceIte]
      obtain ⟨n', k, he, hn, h1', hnd⟩ := ih m (count + 1) hm hdm (by push_cast at hlt; nlinarith)
      refine ⟨n', k + 1, ?_, ?_, h1', hnd⟩
      · rw [he]; push_cast; congr 2; ring
      · rw [hn]; ring
    · simp only [ne_eq, hr, not_false_eq_true, ↓reduceIte]
      refine ⟨m, 0, by simp, by ring, hm, fun h => hr (Int.emod_eq_zero_of_dvd h)⟩

theorem factInner2_spec (d : Int) (hd : 2 ≤ d) :
    ∀ (fuel : Nat) (n count : Int), 1 ≤ n → n < fuel →
      ∃ (n' : Int) (k : Nat), factInner2 d fuel n count = .ok (n', count + k) ∧ n = d ^ k * n' ∧ 1 ≤ n' ∧ ¬ d ∣ n' := by
  intro fuel
  induction fuel with
  | zero => intro n count h1 hlt; exfalso; simp at hlt; omega
  | succ f ih =>
    intro n count h1 hlt
    have hdpos : 0 < d := by omega
    unfold factInner2
    by_cases hle : d ≤ n
    · rw [if_pos hle, if_neg (by omega), pdiv_eq_ediv hdpos, pmod_eq_emod hdpos]
      by_cases hr : n % d = 0
      · obtain ⟨m, rfl⟩ := Int.dvd_of_emod_eq_zero hr
        have hm : 1 ≤ m := by
          by_contra hm
          have : m ≤ 0 := by omega
          nlinarith
        simp only [hr, ne_eq, not_true_eq_false, ↓reduceIte]
        rw [Int.mul_ediv_cancel_left m (by omega)]
        obtain ⟨n', k, he, hn, h1', hnd⟩ := ih m (count + 1) hm (by push_cast at hlt; nlinarith)
        refine ⟨n', k + 1, ?_, ?_, h1', hnd⟩
        · rw [he]; push_cast; congr 2; ring
        · rw [hn]; ring
      · simp only [ne_eq, hr, not_false_eq_true, ↓reduceIte]
        refine ⟨n, 0, by simp, by ring, h1, fun h => hr (Int.emod_eq_zero_of_dvd h)⟩
    · rw [if_neg hle]
      refine ⟨n, 0, by simp, by ring, h1, fun h => ?_⟩
      have := Int.le_of_dvd (by omega) h
      omega

/-! ## the result list -/

/-- the number a factor list stands for -/
def fprod (l : List (Int × Int)) : Int := (l.map (fun f => f.1 ^ f.2.toNat)).prod

/-- strictly ascending prime bases, exponents `≥ 1` -/
structure Good (res : List (Int × Int)) : Prop where
  sorted : (res.map Prod.fst).Pairwise (· < ·)
  exp : ∀ f ∈ res, 1 ≤ f.2
  prime : ∀ f ∈ res, 2 ≤ f.1 ∧ f.1.toNat.Prime

theorem Good.nil : Good [] := ⟨by simp, by simp, by simp⟩

theorem fprod_snoc (res : List (Int × Int)) (d c : Int) : fprod (res ++ [(d, c)]) = fprod res * d ^ c.toNat := by
  simp [fprod]

theorem sorted_snoc {res : List (Int × Int)} {d c : Int} (h : (res.map Prod.fst).Pairwise (· < ·))
    (hlt : ∀ f ∈ res, f.1 < d) : ((res ++ [(d, c)]).map Prod.fst).Pairwise (· < ·) := by
  rw [List.map_append, List.pairwise_append]
  refine ⟨h, by simp, ?_⟩
  intro a ha b hb
  simp only [List.map_cons, List.map_nil, List.mem_singleton] at hb
  obtain ⟨f, hf, rfl⟩ := List.mem_map.mp ha
  rw [hb]; exact hlt f hf

theorem Good.snoc {res : List (Int × Int)} {d c : Int} (h : Good res) (hlt : ∀ f ∈ res, f.1 < d)
    (hd : 2 ≤ d) (hp : d.toNat.Prime) (hc : 1 ≤ c) : Good (res ++ [(d, c)]) := by
  refine ⟨sorted_snoc h.sorted hlt, ?_, ?_⟩
  · intro f hf
    rcases List.mem_append.mp hf with hf | hf
    · exact h.exp f hf
    · simp only [List.mem_singleton] at hf; subst hf; exact hc
  · intro f hf
    rcases List.mem_append.mp hf with hf | hf
    · exact h.prime f hf
    · simp only [List.mem_singleton] at hf; subst hf; exact ⟨hd, hp⟩

/-! ## phase 1: the prime table -/

theorem factSmall_spec :
    ∀ (ds : List Int) (n : Int) (res : List (Int × Int)), ds.Pairwise (· < ·) →
      (∀ d ∈ ds, 2 ≤ d ∧ d ≤ 1229 ∧ d.toNat.Prime) → 1 ≤ n →
      (∀ q : Nat, q.Prime → (q : Int) ∣ n → (q : Int) ≤ 1229 → (q : Int) ∈ ds) →
      Good res → (∀ f ∈ res, f.1 ≤ 1229 ∧ ∀ d ∈ ds, f.1 < d) →
      ∃ (n' : Int) (res' : List (Int × Int)), factSmall ds n res = .ok (n', res') ∧
        fprod res' * n' = fprod res * n ∧ 1 ≤ n' ∧ Good res' ∧ (∀ f ∈ res', f.1 ≤ 1229) ∧
        (∀ q : Nat, q.Prime → (q : Int) ∣ n' → 1229 < (q : Int)) := by
  intro ds
  induction ds with
  | nil =>
    intro n res _ _ h1 hq hg hres
    refine ⟨n, res, rfl, rfl, h1, hg, fun f hf => (hres f hf).1, fun q hp hd => ?_⟩
    by_contra hle
    have := hq q hp hd (by omega)
    simp at this
  | cons d ds ih =>
    intro n res hs hds h1 hq hg hres
    obtain ⟨hd2, hd1229, hdp⟩ := hds d (by simp)
    have hdpos : 0 < d := by omega
    have hs' : ds.Pairwise (· < ·) := (List.pairwise_cons.mp hs).2
    have hdlt : ∀ e ∈ ds, d < e := (List.pairwise_cons.mp hs).1
    have hds' : ∀ e ∈ ds, 2 ≤ e ∧ e ≤ 1229 ∧ e.toNat.Prime := fun e he => hds e (by simp [he])
    unfold factSmall
    by_cases hgt : d > n
    · rw [if_pos hgt]
      -- no prime divides `n`: it would be in the list, hence `≥ d > n`
      have hn1 : n = 1 := by
        apply eq_one_of_no_prime h1
        intro q hp hdv
        have hqn : (q : Int) ≤ n := Int.le_of_dvd (by omega) hdv
        have hm := hq q hp hdv (by omega)
        rcases List.mem_cons.mp hm with h | h
        · omega
        · have := hdlt _ h; omega
      refine ⟨n, res, rfl, rfl, h1, hg, fun f hf => (hres f hf).1, fun q hp hd => ?_⟩
      rw [hn1] at hd
      have := Int.le_of_dvd (by omega) hd
      have := hp.two_le
      omega
    · rw [if_neg hgt, if_neg (by omega), pmod_eq_emod hdpos]
      by_cases hr : n % d = 0
      · rw [if_pos hr]
        have hdn : d ∣ n := Int.dvd_of_emod_eq_zero hr
        obtain ⟨n', k, he, hn, h1', hnd⟩ := factInner1_spec d hd2 (n.natAbs + 1) n 1 h1 hdn (by omega)
        rw [he]
        have hgood : Good (res ++ [(d, 1 + (k : Int))]) :=
          hg.snoc (fun f hf => (hres f hf).2 d (by simp)) hd2 hdp (by omega)
        obtain ⟨n'', res'', he2, hprod, h1'', hg'', hle'', hq''⟩ :=
          ih n' (res ++ [(d, 1 + (k : Int))]) hs' hds' h1'
            (fun q hp hdv hle => by
              have hdvn : (q : Int) ∣ n := by rw [hn]; exact Dvd.dvd.mul_left hdv _
              rcases List.mem_cons.mp (hq q hp hdvn hle) with h | h
              · exact absurd (h ▸ hdv) hnd
              · exact h)
            hgood
            (fun f hf => by
              rcases List.mem_append.mp hf with hf | hf
              · exact ⟨(hres f hf).1, fun e he => (hres f hf).2 e (by simp [he])⟩
              · simp only [List.mem_singleton] at hf; subst hf
                exact ⟨hd1229, hdlt⟩)
        refine ⟨n'', res'', ?_, ?_, h1'', hg'', hle'', hq''⟩
        · exact he2
        · rw [hprod, fprod_snoc, hn]
          have : (1 + (k : Int)).toNat = k + 1 := by omega
          rw [this]; ring
      · rw [if_neg hr]
        have hnd : ¬ d ∣ n := fun h => hr (Int.emod_eq_zero_of_dvd h)
        exact ih n res hs' hds' h1
          (fun q hp hdv hle => by
            rcases List.mem_cons.mp (hq q hp hdv hle) with h | h
            · exact absurd (h ▸ hdv) hnd
            · exact h)
          hg (fun f hf => ⟨(hres f hf).1, fun e he => (hres f hf).2 e (by simp [he])⟩)

/-! ## phase 2: the odd numbers from 1231 -/

theorem factOdd_spec :
    ∀ (fuel : Nat) (d n : Int) (res : List (Int × Int)), d % 2 = 1 → 1229 ≤ d → 1 ≤ n →
      (∀ q : Nat, q.Prime → (q : Int) ∣ n → d < (q : Int)) →
      Good res → (∀ f ∈ res, f.1 ≤ d) → 1 ≤ fuel → n < fuel + d →
      ∃ (n' : Int) (res' : List (Int × Int)), factOdd fuel d n res = .ok (n', res') ∧
        fprod res' * n' = fprod res * n ∧ Good res' ∧
        (n' = 1 ∨ (2 ≤ n' ∧ n'.toNat.Prime ∧ ∀ f ∈ res', f.1 < n')) := by
  intro fuel
  induction fuel with
  | zero => intro d n res _ _ _ _ _ _ h; omega
  | succ fuel ih =>
    intro d n res hodd hd h1 hq hg hres _ hfuel
    -- every prime divisor of `n` is at least the next candidate `d + 2`
    have hq2 : ∀ q : Nat, q.Prime → (q : Int) ∣ n → d + 2 ≤ (q : Int) := by
      intro q hp hdv
      have h := hq q hp hdv
      by_contra hlt
      have hqe : (q : Int) = d + 1 := by omega
      rcases hp.eq_one_or_self_of_dvd 2 (by omega) with h2 | h2 <;> omega
    have hdpos : 0 < d + 2 := by omega
    unfold factOdd
    dsimp only
    rw [if_neg (by omega), pdiv_eq_ediv hdpos, pmod_eq_emod hdpos]
    by_cases hex : n / (d + 2) < d + 2
    · rw [if_pos hex]
      have hlt : n < (d + 2) * (d + 2) := by
        have := Int.lt_mul_ediv_self_add hdpos (x := n)
        nlinarith
      refine ⟨n, res, rfl, rfl, hg, ?_⟩
      by_cases hn1 : n = 1
      · exact Or.inl hn1
      · right
        have hn2 : 2 ≤ n := by omega
        refine ⟨hn2, prime_of_lt_sq hn2 (by omega) hq2 hlt, fun f hf => ?_⟩
        obtain ⟨q, hp, hdv, hle⟩ := exists_prime_dvd hn2
        have := hq2 q hp hdv
        have := hres f hf
        omega
    · rw [if_neg hex]
      have hge : (d + 2) * (d + 2) ≤ n := by
        have := Int.mul_ediv_self_le (x := n) (k := d + 2) (by omega)
        nlinarith
      by_cases hr : n % (d + 2) = 0
      · rw [if_pos hr]
        obtain ⟨m, rfl⟩ := Int.dvd_of_emod_eq_zero hr
        have hm : 1 ≤ m := by
          by_contra hm
          have : m ≤ 0 := by omega
          nlinarith
        rw [Int.mul_ediv_cancel_left m (by omega)]
        have hdprime : (d + 2).toNat.Prime := prime_of_least (by omega) (Dvd.intro m rfl) hq2
        obtain ⟨n', k, he, hn, h1', hnd⟩ :=
          factInner2_spec (d + 2) (by omega) (((d + 2) * m).natAbs + 1) m 1 hm (by
            have : m ≤ (d + 2) * m := by nlinarith
            omega)
        rw [he]
        have hn'le : n' ≤ m := by
          rw [hn]
          have : 1 ≤ (d + 2) ^ k := one_le_pow₀ (by omega)
          nlinarith
        have hmle : m ≤ (d + 2) * m := by nlinarith
        obtain ⟨n'', res'', he2, hprod, hg'', hfin⟩ :=
          ih (d + 2) n' (res ++ [(d + 2, 1 + (k : Int))]) (by omega) (by omega) h1'
            (fun q hp hdv => by
              have hdvn : (q : Int) ∣ (d + 2) * m := by
                rw [hn]; exact Dvd.dvd.mul_left (Dvd.dvd.mul_left hdv _) _
              have h := hq2 q hp hdvn
              rcases lt_or_eq_of_le h with h | h
              · exact h
              · exact absurd (h ▸ hdv) hnd)
            (hg.snoc (fun f hf => by have := hres f hf; omega) (by omega) hdprime (by omega))
            (fun f hf => by
              rcases List.mem_append.mp hf with hf | hf
              · have := hres f hf; omega
              · simp only [List.mem_singleton] at hf; subst hf; exact le_refl _)
            (by
              have : d + 2 ≤ (d + 2) * (d + 2) := by nlinarith
              omega)
            (by push_cast at hfuel ⊢; omega)
        refine ⟨n'', res'', he2, ?_, hg'', hfin⟩
        rw [hprod, fprod_snoc, hn]
        have : (1 + (k : Int)).toNat = k + 1 := by omega
        rw [this]; ring
      · rw [if_neg hr]
        have hnd : ¬ (d + 2) ∣ n := fun h => hr (Int.emod_eq_zero_of_dvd h)
        exact ih (d + 2) n res (by omega) (by omega) h1
          (fun q hp hdv => by
            have h := hq2 q hp hdv
            rcases lt_or_eq_of_le h with h | h
            · exact h
            · exact absurd (h ▸ hdv) hnd)
          hg (fun f hf => by have := hres f hf; omega)
          (by
            have : d + 2 ≤ (d + 2) * (d + 2) := by nlinarith
            omega)
          (by push_cast at hfuel ⊢; omega)

/-! ## `factorization` -/

theorem lastSmall_eq : lastSmall = .ok 1229 := by
  unfold lastSmall; rw [smallprimes_getLast]

theorem factorization_struct (lg : Int → Int) (hip : ∀ m, 1229 < m → ∃ b, isPrime lg m = .ok b)
    (n : Int) (hn : 2 ≤ n) :
    ∃ fs, factorization lg n = .ok fs ∧ fprod fs = n ∧
      (Good fs ∨ ∃ init n', fs = init ++ [(n', 1)] ∧ Good init ∧ (∀ f ∈ init, f.1 ≤ 1229) ∧ 1229 < n' ∧
        isPrime lg n' = .ok true) := by
  obtain ⟨n1, res1, he1, hprod1, h1, hg1, hle1, hq1⟩ :=
    factSmall_spec smallprimes n [] smallprimes_sorted
      (fun d hd => by
        obtain ⟨h0, hp, hle⟩ := (mem_smallprimes d).mp hd
        have := hp.two_le
        exact ⟨by omega, hle, hp⟩)
      (by omega)
      (fun q hp _ hle => (mem_smallprimes q).mpr ⟨by omega, by simpa using hp, hle⟩)
      Good.nil (by simp)
  have hprod1' : fprod res1 * n1 = n := by simpa [fprod] using hprod1
  unfold factorization
  rw [if_neg (by omega), he1, lastSmall_eq]
  simp only [bind, Except.bind]
  by_cases hbig : n1 > 1229
  · rw [if_pos hbig]
    obtain ⟨b, hb⟩ := hip n1 hbig
    rw [hb]
    cases b with
    | true =>
      simp only [↓reduceIte]
      refine ⟨_, rfl, ?_, Or.inr ⟨res1, n1, rfl, hg1, hle1, hbig, hb⟩⟩
      rw [fprod_snoc]; simpa using hprod1'
    | false =>
      simp only [Bool.false_eq_true, ↓reduceIte]
      obtain ⟨n2, res2, he2, hprod2, hg2, hfin⟩ :=
        factOdd_spec (n1.natAbs + 1) 1229 n1 res1 (by decide) (le_refl _) h1
          (fun q hp hdv => hq1 q hp hdv) hg1 hle1 (by omega) (by omega)
      rw [he2]
      rcases hfin with h | ⟨h2, hp, hlt⟩
      · subst h
        refine ⟨_, rfl, ?_, Or.inl ?_⟩
        · simp only [gt_iff_lt, lt_self_iff_false, ↓reduceIte]
          rw [← hprod1', ← hprod2]; ring
        · simpa using hg2
      · refine ⟨_, rfl, ?_, Or.inl ?_⟩
        · rw [if_pos (by omega), fprod_snoc, ← hprod1', ← hprod2]; simp
        · rw [if_pos (by omega)]
          exact hg2.snoc hlt h2 hp (le_refl _)
  · rw [if_neg hbig]
    have hn1 : n1 = 1 := by
      apply eq_one_of_no_prime h1
      intro q hp hdv
      have := hq1 q hp hdv
      have := Int.le_of_dvd (by omega) hdv
      omega
    refine ⟨_, rfl, ?_, Or.inl hg1⟩
    rw [← hprod1', hn1]; ring

/-! ## `is_prime` never raises above the table -/

theorem splitTwos_some : ∀ (fuel : Nat) (s r : Int), 0 < r → r < fuel → ∃ p, splitTwos fuel s r = some p := by
  intro fuel
  induction fuel with
  | zero => intro s r h0 h; simp at h; omega
  | succ f ih =>
    intro s r h0 h
    unfold splitTwos
    rw [pmod_eq_emod (by decide), pdiv_eq_ediv (by decide)]
    by_cases hr : r % 2 = 0
    · rw [if_pos hr]; exact ih _ _ (by omega) (by push_cast at h; omega)
    · rw [if_neg hr]; exact ⟨_, rfl⟩

theorem mrBases_ok (n s r : Int) : ∀ (cnt i : Nat), i + cnt ≤ 201 → ∃ b, mrBases n s r cnt i = .ok b := by
  intro cnt
  induction cnt with
  | zero => intro i _; exact ⟨true, rfl⟩
  | succ c ih =>
    intro i hi
    unfold mrBases
    have hlt : i < smallprimes.length := by rw [smallprimes_length]; omega
    rw [List.getElem?_eq_getElem hlt]
    dsimp only
    by_cases hb : mrBase n s r smallprimes[i] = true
    · rw [if_pos hb]; exact ih (i + 1) (by omega)
    · rw [if_neg hb]; exact ⟨false, rfl⟩

theorem mrRoundsGo_le (nbits B : Int) : ∀ (l : List (Int × Int)) (t : Int), (∀ p ∈ l, p.2 ≤ B) → t ≤ B →
    mrRoundsGo nbits l t ≤ B := by
  intro l
  induction l with
  | nil => intro t _ ht; exact ht
  | cons p l ih =>
    intro t hl ht
    obtain ⟨k, tt⟩ := p
    unfold mrRoundsGo
    by_cases h : nbits < k
    · rw [if_pos h]; exact ht
    · rw [if_neg h]; exact ih tt (fun p hp => hl p (by simp [hp])) (hl (k, tt) (by simp))

theorem mrRounds_le (nbits : Int) : mrRounds nbits ≤ 40 := by
  unfold mrRounds
  apply mrRoundsGo_le
  · decide
  · decide

/-- `is_prime(m)` returns a boolean for every `m` above the table, whatever `math.log` returned -/
theorem isPrime_total (lg : Int → Int) (m : Int) (hm : 1229 < m) : ∃ b, isPrime lg m = .ok b := by
  unfold isPrime
  rw [lastSmall_eq]
  simp only [bind, Except.bind]
  rw [if_neg (by omega)]
  by_cases hg : gcd2 m mr_gcd_const ≠ 1
  · rw [if_pos hg]; exact ⟨false, rfl⟩
  · rw [if_neg hg]
    obtain ⟨⟨s, r⟩, hp⟩ := splitTwos_some (m.natAbs + 1) 0 (m - 1) (by omega) (by omega)
    rw [hp]
    apply mrBases_ok
    have := mrRounds_le (mr_n_bits (lg m))
    omega

/-! ## the specification of `factorization` -/

/-- `factorization(n)` for every integer `n` and every behaviour of `math.log`: `[]` below 2; otherwise a list
`[(p₁,e₁),…]` with `∏ pᵢ^eᵢ = n`, strictly ascending bases `≥ 2`, exponents `≥ 1`, and every base prime —
except that the last entry, when it is the cofactor `(n', 1)`, `n' > 1229`, appended by the shortcut
`if is_prime(n): result.append((n, 1))`, is only as prime as the Miller–Rabin test `is_prime` says. -/
theorem factorization_spec (lg : Int → Int) (n : Int) :
    (n < 2 → factorization lg n = .ok []) ∧
    (2 ≤ n → ∃ fs, factorization lg n = .ok fs ∧
        (fs.map (fun f => f.1 ^ f.2.toNat)).prod = n ∧
        (fs.map Prod.fst).Pairwise (· < ·) ∧
        (∀ f ∈ fs, 1 ≤ f.2) ∧
        (∀ f ∈ fs, 2 ≤ f.1) ∧
        (∀ f ∈ fs, f.1.toNat.Prime ∨
          (1229 < f.1 ∧ f.2 = 1 ∧ isPrime lg f.1 = .ok true ∧ f = fs.getLast?.getD f))) := by
  refine ⟨fun h => by unfold factorization; rw [if_pos h], fun hn => ?_⟩
  obtain ⟨fs, he, hprod, hcase⟩ := factorization_struct lg (isPrime_total lg) n hn
  refine ⟨fs, he, hprod, ?_⟩
  rcases hcase with hg | ⟨init, n', rfl, hg, hle, hbig, hpr⟩
  · exact ⟨hg.sorted, hg.exp, fun f hf => (hg.prime f hf).1, fun f hf => Or.inl (hg.prime f hf).2⟩
  · refine ⟨sorted_snoc hg.sorted (fun f hf => by have := hle f hf; omega), ?_, ?_, ?_⟩
    · intro f hf
      rcases List.mem_append.mp hf with hf | hf
      · exact hg.exp f hf
      · simp only [List.mem_singleton] at hf; subst hf; exact le_refl _
    · intro f hf
      rcases List.mem_append.mp hf with hf | hf
      · exact (hg.prime f hf).1
      · simp only [List.mem_singleton] at hf; subst hf; show 2 ≤ n'; omega
    · intro f hf
      rcases List.mem_append.mp hf with hf | hf
      · exact Or.inl (hg.prime f hf).2
      · simp only [List.mem_singleton] at hf; subst hf
        exact Or.inr ⟨hbig, rfl, hpr, by simp⟩

/-- the same without any reference to `is_prime`: product, order, exponents -/
theorem factorization_spec_basic (lg : Int → Int) (n : Int) (hn : 2 ≤ n) :
    ∃ fs, factorization lg n = .ok fs ∧ (fs.map (fun f => f.1 ^ f.2.toNat)).prod = n ∧
      (fs.map Prod.fst).Pairwise (· < ·) ∧ (∀ f ∈ fs, 1 ≤ f.2 ∧ 2 ≤ f.1) := by
  obtain ⟨fs, he, hp, hs, he1, h2, _⟩ := (factorization_spec lg n).2 hn
  exact ⟨fs, he, hp, hs, fun f hf => ⟨he1 f hf, h2 f hf⟩⟩

/-- when `is_prime` is right about the cofactor (it answers `true` only for primes), every base is prime -/
theorem factorization_all_prime (lg : Int → Int) (n : Int) (hn : 2 ≤ n)
    (hsound : ∀ m, 1229 < m → isPrime lg m = .ok true → m.toNat.Prime) :
    ∃ fs, factorization lg n = .ok fs ∧ ∀ f ∈ fs, f.1.toNat.Prime := by
  obtain ⟨fs, he, _, _, _, _, hp⟩ := (factorization_spec lg n).2 hn
  refine ⟨fs, he, fun f hf => ?_⟩
  rcases hp f hf with h | ⟨h1, _, h3, _⟩
  · exact h
  · exact hsound _ h1 h3

/-! non-vacuity: both phases, the shortcut, and the trivial range -/
example : factorization (fun _ => 0) 360 = .ok [(2, 3), (3, 2), (5, 1)] := by decide +kernel
example : factorization (fun _ => 0) (1231 * 1231) = .ok [(1231, 2)] := by decide +kernel
example : factorization (fun _ => 20) (2 * 1231 * 1237) = .ok [(2, 1), (1231, 1), (1237, 1)] := by decide +kernel
example : factorization (fun _ => 10) (4 * 1231) = .ok [(2, 2), (1231, 1)] := by decide +kernel
example : factorization (fun _ => 0) 1 = .ok [] := by decide +kernel
example : factorization (fun _ => 0) (-7) = .ok [] := by decide +kernel

end NTProofs
