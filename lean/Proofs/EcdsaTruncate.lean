import Proofs.EcdsaBits
/-!
# Proofs.EcdsaTruncate — `_truncate_and_convert_digest`
-/
namespace Ecdsa

/-- the integer FIPS 186-4 §6.4 / SEC 1 §4.1.3 derive from a digest: its leftmost `min(8·len, bitlen n)` bits -/
def leftmostBits (dg : Bytes) (blen : Nat) : Nat := bitsToNat ((bytesToBits dg).take (min (8 * dg.length) blen))

theorem leftmostBits_eq (dg : Bytes) (blen : Nat) :
    leftmostBits dg blen = beVal dg / 2 ^ (8 * dg.length - min (8 * dg.length) blen) := by
  unfold leftmostBits
  rw [bitsToNat_take _ _ (by rw [bytesToBits_length]; exact Nat.min_le_left _ _), bitsToNat_bytesToBits, bytesToBits_length]

theorem orderlen_pos (n : Nat) : 1 ≤ Util.orderlen n := by
  unfold Util.orderlen hexLen
  split
  · decide
  · rename_i h
    have : 1 ≤ hexDigits n := by
      cases n with
      | zero => exact absurd rfl h
      | succ k => rw [hexDigits]; omega
    omega

/-- truncation allowed, for any `baselen ≥ 1` that keeps at least `bit_length(order)` bits:
the byte cropping followed by the shift is one shift — the leftmost `min(8·len, bitlen)` bits -/
theorem truncate_allow_gen (dg : Bytes) (hne : dg ≠ []) (bl : Nat) (order : Int) (hbl : 1 ≤ bl)
    (hb : (bitLen order).toNat ≤ 8 * bl) :
    truncateAndConvertDigest dg bl order true = .ok ((leftmostBits dg (bitLen order).toNat : Nat) : Int) := by
  have hbpos : 0 ≤ bitLen order := by unfold bitLen; split <;> omega
  have htake : dg.take bl ≠ [] := by
    cases dg with
    | nil => exact absurd rfl hne
    | cons b t => cases bl with
      | zero => omega
      | succ k => simp
  have hsn : Util.stringToNumber (dg.take bl) = .ok (beVal (dg.take bl)) := by
    unfold Util.stringToNumber
    have : (dg.take bl).isEmpty = false := by
      cases h : dg.take bl with
      | nil => exact absurd h htake
      | cons _ _ => rfl
    simp [this]
  unfold truncateAndConvertDigest
  simp only [Bool.not_true, Bool.false_eq_true, if_false, hsn, bind, Except.bind]
  congr 1
  rw [Int.shiftRight_eq_div_pow, leftmostBits_eq]
  simp only [Gen.Ecdsa.truncate_shift, Gen.Ecdsa.truncate_length]
  generalize hB : (bitLen order).toNat = B at *
  have hBo : bitLen order = (B : Int) := by omega
  rw [hBo]
  rcases Nat.lt_or_ge bl dg.length with hlt | hge
  · -- the digest is longer than baselen bytes: crop, then shift
    have hlen : (dg.take bl).length = bl := by simp; omega
    rw [hlen, beVal_take dg bl (le_of_lt hlt)]
    have hsh : (max (0 : Int) ((bl : Int) * 8 - (B : Int))).toNat = 8 * bl - B := by omega
    rw [hsh, show min (8 * dg.length) B = B by omega]
    rw [← Int.natCast_div, Nat.div_div_eq_div_mul]
    congr 2
    rw [show (256 : Nat) = 2 ^ 8 by norm_num, ← pow_mul, ← pow_add]
    congr 1; omega
  · have hlen : dg.take bl = dg := List.take_of_length_le hge
    rw [hlen]
    have hsh : (max (0 : Int) ((dg.length : Int) * 8 - (B : Int))).toNat = 8 * dg.length - min (8 * dg.length) B := by omega
    rw [hsh, ← Int.natCast_div]

/-- **C03, truncation allowed** (for `curve.baselen = orderlen(curve.order)`, as `curves.Curve` sets it) -/
theorem truncate_allow (dg : Bytes) (hne : dg ≠ []) (n : Nat) :
    truncateAndConvertDigest dg (Util.orderlen n) (n : Int) true = .ok ((leftmostBits dg (bitLen (n : Int)).toNat : Nat) : Int) :=
  truncate_allow_gen dg hne _ _ (orderlen_pos n) (bitLen_le_baselen n)

/-- truncation not allowed: a digest longer (in bytes) than the order is rejected, otherwise the integer is the
digest itself -/
theorem truncate_noallow (dg : Bytes) (hne : dg ≠ []) (bl : Nat) (order : Int) :
    truncateAndConvertDigest dg bl order false =
      if dg.length > bl then .error .badDigest else .ok (beVal dg : Int) := by
  have hsn : Util.stringToNumber dg = .ok (beVal dg) := by
    unfold Util.stringToNumber
    have : dg.isEmpty = false := by cases dg with
      | nil => exact absurd rfl hne
      | cons _ _ => rfl
    simp [this]
  unfold truncateAndConvertDigest
  simp only [Bool.not_false, if_true, Gen.Ecdsa.truncate_too_long, hsn, bind, Except.bind]
  by_cases h : dg.length > bl
  · have : ((dg.length : Int) > (bl : Int)) := by exact_mod_cast h
    simp [h, this]
  · have : ¬ ((dg.length : Int) > (bl : Int)) := by exact_mod_cast h
    simp [h, this]

/-- the excluded input: an EMPTY digest makes `int(b"", 16)` raise `ValueError`, with either flag -/
theorem truncate_empty (bl : Nat) (order : Int) (allow : Bool) :
    truncateAndConvertDigest [] bl order allow = .error .valueError := by
  cases allow <;> simp [truncateAndConvertDigest, Gen.Ecdsa.truncate_too_long, Util.stringToNumber, bind, Except.bind]

/-- when the digest has no more bits than the order, the leftmost-bits integer is the digest itself -/
theorem leftmostBits_short (dg : Bytes) (blen : Nat) (h : 8 * dg.length ≤ blen) : leftmostBits dg blen = beVal dg := by
  rw [leftmostBits_eq, Nat.min_eq_left h]; simp

end Ecdsa
