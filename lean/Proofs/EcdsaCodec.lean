import Props.C12
import Props.C13
import Proofs.EcdsaEntry
import Proofs.EcdsaDecode
/-!
# Proofs.EcdsaCodec — the six signature encoders of `util.py` with their decoders satisfy `Ecdsa.Codec`
(from the round-trip theorems of C12 and the low-S theorem of C13), and `sigdecode_der` fails only with `UnexpectedDER`.
-/
namespace Ecdsa

theorem derErrorsCaught : DecodeErrorsCaught Util.sigdecodeDer :=
  fun sig n e h => Or.inl ((C12.sigdecode_der_errors sig n).2 e h)

private theorem toNat_lt {x n : ℤ} (h0 : 0 ≤ x) (h : x < n) : x.toNat < n.toNat := by omega

theorem codec_string (n : ℤ) (hn : 2 ≤ n) : Codec encString id Util.sigdecodeString n := by
  intro r s sig r0 r1 s0 s1 h
  obtain ⟨e, he, -, -, hd⟩ := C12.sigdecode_sigencode_string n.toNat r.toNat s.toNat (by omega)
    (toNat_lt r0 r1) (toNat_lt (by omega) s1)
  have : encString r s n = Util.sigencodeString r.toNat s.toNat n.toNat := by
    unfold encString encInt; rw [if_neg (by omega)]
  rw [this, he] at h
  injection h with h; subst h
  exact ⟨s.toNat, hd, Or.inl (Int.toNat_of_nonneg (by omega))⟩

theorem codec_strings (n : ℤ) (hn : 2 ≤ n) :
    Codec encStrings (fun p : Bytes × Bytes => [p.1, p.2]) Util.sigdecodeStrings n := by
  intro r s sig r0 r1 s0 s1 h
  obtain ⟨a, b, he, -, -, -, -, hd⟩ := C12.sigdecode_sigencode_strings n.toNat r.toNat s.toNat (by omega)
    (toNat_lt r0 r1) (toNat_lt (by omega) s1)
  have : encStrings r s n = Util.sigencodeStrings r.toNat s.toNat n.toNat := by
    unfold encStrings encInt; rw [if_neg (by omega)]
  rw [this, he] at h
  injection h with h; subst h
  exact ⟨s.toNat, hd, Or.inl (Int.toNat_of_nonneg (by omega))⟩

theorem codec_der (n : ℤ) (hn : 2 ≤ n) (hbig : n ≤ 256 ^ 126) : Codec encDer id Util.sigdecodeDer n := by
  intro r s sig r0 r1 s0 s1 h
  have hb : n.toNat ≤ 256 ^ 126 := by
    have : ((n.toNat : ℕ) : ℤ) ≤ ((256 ^ 126 : ℕ) : ℤ) := by
      rw [Int.toNat_of_nonneg (by omega)]; exact_mod_cast hbig
    exact_mod_cast this
  obtain ⟨e, he, hd⟩ := C12.sigdecode_sigencode_der n.toNat r.toNat s.toNat (by omega) hb
    (toNat_lt r0 r1) (toNat_lt (by omega) s1)
  have : encDer r s n = Util.sigencodeDer r.toNat s.toNat n.toNat := by
    unfold encDer encInt; rw [if_neg (by omega)]
  rw [this, he] at h
  injection h with h; subst h
  exact ⟨s.toNat, hd, Or.inl (Int.toNat_of_nonneg (by omega))⟩

/-- exact read-back of the plain raw-string encoding -/
theorem string_roundtrip (n r s : ℤ) (hn : 2 ≤ n) (r0 : 0 ≤ r) (r1 : r < n) (s0 : 0 ≤ s) (s1 : s < n) (sig : Bytes)
    (h : encString r s n = .ok sig) : Util.sigdecodeString sig n.toNat = .ok (r.toNat, s.toNat) := by
  obtain ⟨e, he, -, -, hd⟩ := C12.sigdecode_sigencode_string n.toNat r.toNat s.toNat (by omega)
    (toNat_lt r0 r1) (toNat_lt s0 s1)
  have : encString r s n = Util.sigencodeString r.toNat s.toNat n.toNat := by
    unfold encString encInt; rw [if_neg (by omega)]
  rw [this, he] at h
  injection h with h; subst h; exact hd

/-- exact read-back of the plain DER encoding -/
theorem der_roundtrip (n r s : ℤ) (hn : 2 ≤ n) (hbig : n ≤ 256 ^ 126) (r0 : 0 ≤ r) (r1 : r < n) (s0 : 0 ≤ s) (s1 : s < n)
    (sig : Bytes) (h : encDer r s n = .ok sig) : Util.sigdecodeDer sig n.toNat = .ok (r.toNat, s.toNat) := by
  have hb : n.toNat ≤ 256 ^ 126 := by
    have : ((n.toNat : ℕ) : ℤ) ≤ ((256 ^ 126 : ℕ) : ℤ) := by
      rw [Int.toNat_of_nonneg (by omega)]; exact_mod_cast hbig
    exact_mod_cast this
  obtain ⟨e, he, hd⟩ := C12.sigdecode_sigencode_der n.toNat r.toNat s.toNat (by omega) hb (toNat_lt r0 r1) (toNat_lt s0 s1)
  have : encDer r s n = Util.sigencodeDer r.toNat s.toNat n.toNat := by
    unfold encDer encInt; rw [if_neg (by omega)]
  rw [this, he] at h
  injection h with h; subst h; exact hd

/-- the reflected `s` is again in `[1, n−1]` -/
private theorem min_range {s n : ℤ} (s0 : 1 ≤ s) (s1 : s < n) : 1 ≤ min s (n - s) ∧ min s (n - s) < n := by omega

theorem codec_string_canonize (n : ℤ) (hn : 2 ≤ n) : Codec encStringCanonize id Util.sigdecodeString n := by
  intro r s sig r0 r1 s0 s1 h
  obtain ⟨m0, m1⟩ := min_range s0 s1
  obtain ⟨e, he, -, -, hd⟩ := C12.sigdecode_sigencode_string n.toNat r.toNat (min s (n - s)).toNat (by omega)
    (toNat_lt r0 r1) (toNat_lt (by omega) m1)
  have : encStringCanonize r s n = Util.sigencodeString r.toNat (min s (n - s)).toNat n.toNat := by
    unfold encStringCanonize; rw [if_neg (by omega)]
    exact (C13.model_canonize r.toNat s n s0 s1).1
  rw [this, he] at h
  injection h with h; subst h
  refine ⟨(min s (n - s)).toNat, hd, ?_⟩
  rw [Int.toNat_of_nonneg (by omega)]
  omega

theorem codec_strings_canonize (n : ℤ) (hn : 2 ≤ n) :
    Codec encStringsCanonize (fun p : Bytes × Bytes => [p.1, p.2]) Util.sigdecodeStrings n := by
  intro r s sig r0 r1 s0 s1 h
  obtain ⟨m0, m1⟩ := min_range s0 s1
  obtain ⟨a, b, he, -, -, -, -, hd⟩ := C12.sigdecode_sigencode_strings n.toNat r.toNat (min s (n - s)).toNat (by omega)
    (toNat_lt r0 r1) (toNat_lt (by omega) m1)
  have : encStringsCanonize r s n = Util.sigencodeStrings r.toNat (min s (n - s)).toNat n.toNat := by
    unfold encStringsCanonize; rw [if_neg (by omega)]
    exact (C13.model_canonize r.toNat s n s0 s1).2.1
  rw [this, he] at h
  injection h with h; subst h
  refine ⟨(min s (n - s)).toNat, hd, ?_⟩
  rw [Int.toNat_of_nonneg (by omega)]
  omega

theorem codec_der_canonize (n : ℤ) (hn : 2 ≤ n) (hbig : n ≤ 256 ^ 126) : Codec encDerCanonize id Util.sigdecodeDer n := by
  intro r s sig r0 r1 s0 s1 h
  obtain ⟨m0, m1⟩ := min_range s0 s1
  have hb : n.toNat ≤ 256 ^ 126 := by
    have : ((n.toNat : ℕ) : ℤ) ≤ ((256 ^ 126 : ℕ) : ℤ) := by
      rw [Int.toNat_of_nonneg (by omega)]; exact_mod_cast hbig
    exact_mod_cast this
  obtain ⟨e, he, hd⟩ := C12.sigdecode_sigencode_der n.toNat r.toNat (min s (n - s)).toNat (by omega) hb
    (toNat_lt r0 r1) (toNat_lt (by omega) m1)
  have : encDerCanonize r s n = Util.sigencodeDer r.toNat (min s (n - s)).toNat n.toNat := by
    unfold encDerCanonize; rw [if_neg (by omega)]
    exact (C13.model_canonize r.toNat s n s0 s1).2.2
  rw [this, he] at h
  injection h with h; subst h
  refine ⟨(min s (n - s)).toNat, hd, ?_⟩
  rw [Int.toNat_of_nonneg (by omega)]
  omega

end Ecdsa
