import Proofs.NTSmallCheck
namespace NTSmall
set_option maxRecDepth 1000000 in
theorem agree_A : agree 1230 2700 = true := by decide +kernel
end NTSmall
