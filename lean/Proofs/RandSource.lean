import Generated.RandSlices
import Proofs.RandBasic
/-!
# Proofs.RandSource — the model makes the integer decisions of the source text

`Gen.Rand.*` (Generated/RandSlices.lean) is re-translated from `util.py` / `keys.py` on every run; these
lemmas restate the model's loop bodies with the generated slices in place of the hand-written tests.
-/
namespace Rand

/-- `util.bit_length` as a function on Python integers (only used on `x ≥ 0`) -/
def bitLengthInt (x : Int) : Int := (bitLength1 x.toNat : Nat)

theorem src_upper2 (order : Int) : Gen.Rand.randrange_upper_2 order bitLengthInt = (upper2 order : Nat) := rfl

theorem src_upper256 (order : Int) : Gen.Rand.randrange_upper_256 (upper2 order : Nat) = (upper256 order : Nat) := by
  unfold Gen.Rand.randrange_upper_256 upper256
  rw [Int.fdiv_eq_ediv_of_nonneg _ (by omega)]
  omega

theorem src_precondition (order : Int) : (order > 1) ↔ Gen.Rand.randrange_precondition order = 1 := by
  unfold Gen.Rand.randrange_precondition
  split <;> simp_all

theorem src_accept (r : Nat) (order : Int) :
    (0 < r + 1 ∧ ((r + 1 : Nat) : Int) < order) ↔ Gen.Rand.randrange_accept (Gen.Rand.randrange_rand_num r) order = 1 := by
  unfold Gen.Rand.randrange_accept Gen.Rand.randrange_rand_num
  split <;> rename_i h <;> simp only [Bool.and_eq_true, decide_eq_true_eq] at h
  · constructor
    · intro _; rfl
    · intro _; constructor <;> omega
  · constructor
    · intro hh; exfalso; apply h; constructor <;> omega
    · intro hh; cases hh

/-- one iteration of `randrange`, with the source's own request size, `+ 1` and acceptance test -/
theorem oneDraw_source (order : Int) (c : Bytes) :
    oneDraw order c =
      (intBase2 ((entropyToBits c).take (Gen.Rand.randrange_upper_2 order bitLengthInt).toNat)).bind fun top =>
        if Gen.Rand.randrange_accept (Gen.Rand.randrange_rand_num top) order = 1
        then .ok (some (Gen.Rand.randrange_rand_num top).toNat) else .ok none := by
  unfold oneDraw
  rw [src_upper2]
  simp only [bind, Except.bind, Int.toNat_natCast]
  split
  · rfl
  · rename_i top _
    by_cases h : 0 < top + 1 ∧ ((top + 1 : Nat) : Int) < order
    · rw [if_pos h, if_pos ((src_accept top order).1 h)]
      simp [Gen.Rand.randrange_rand_num]
    · rw [if_neg h, if_neg (fun hh => h ((src_accept top order).2 hh))]

theorem randrange_source (ent : Entropy) (order : Int) (hist : List Nat) (fuel : Nat) :
    randrange ent order hist fuel =
      if Gen.Rand.randrange_precondition order = 1 then randrangeLoop ent order fuel hist else some (.error .assertionError) := by
  unfold randrange
  by_cases h : order > 1
  · rw [if_pos h, if_pos ((src_precondition order).1 h)]
  · rw [if_neg h, if_neg (fun hh => h ((src_precondition order).2 hh))]

theorem src_lsbOfOnes (n : Nat) : (lsbOfOnes n : Int) = Gen.Rand.lsb_of_ones n := by
  unfold lsbOfOnes Gen.Rand.lsb_of_ones
  rw [Nat.shiftLeft_eq, Int.toNat_natCast]
  have h1 : 1 ≤ 2 ^ n := Nat.one_le_two_pow
  have h2 : ((1 * 2 ^ n - 1 : Nat) : Int) = ((1 * 2 ^ n : Nat) : Int) - 1 := by omega
  rw [h2]; push_cast; rfl

theorem src_bitsAndBytes (bits : Nat) :
    bitsAndBytes bits = (bits, (Gen.Rand.bits_and_bytes_bytes bits).toNat, (Gen.Rand.bits_and_bytes_extrabits bits).toNat) := by
  unfold bitsAndBytes Gen.Rand.bits_and_bytes_bytes Gen.Rand.bits_and_bytes_extrabits
  rw [Int.fdiv_eq_ediv_of_nonneg _ (by omega), Int.fmod_eq_emod_of_nonneg _ (by omega)]
  congr 2 <;> omega

theorem src_trytryagain_accept (v : Nat) (order : Int) :
    (1 ≤ v + 1 ∧ ((v + 1 : Nat) : Int) < order) ↔ Gen.Rand.trytryagain_accept (Gen.Rand.trytryagain_guess v) order = 1 := by
  unfold Gen.Rand.trytryagain_accept Gen.Rand.trytryagain_guess
  split <;> rename_i h <;> simp only [Bool.and_eq_true, decide_eq_true_eq] at h
  · constructor
    · intro _; rfl
    · intro _; constructor <;> omega
  · constructor
    · intro hh; exfalso; apply h; constructor <;> omega
    · intro hh; cases hh

theorem src_trytryagain_precondition (order : Int) : (order > 1) ↔ Gen.Rand.trytryagain_precondition order = 1 := by
  unfold Gen.Rand.trytryagain_precondition
  split <;> simp_all

theorem src_overshoot (b : Nat) (order : Nat) :
    pmod (b : Int) ((order : Int) - 1) + 1 = Gen.Rand.overshoot_number b order ∧
    ∀ number : Int, (1 ≤ number ∧ number < order) ↔ Gen.Rand.overshoot_assert number order = 1 := by
  refine ⟨rfl, ?_⟩
  intro number
  unfold Gen.Rand.overshoot_assert
  split <;> rename_i h <;> simp only [Bool.and_eq_true, decide_eq_true_eq] at h
  · exact ⟨fun _ => rfl, fun _ => h⟩
  · exact ⟨fun hh => absurd hh h, fun hh => by cases hh⟩

theorem src_sign_number_assert (k order : Int) : (1 ≤ k ∧ k < order) ↔ Gen.Rand.sign_number_assert k order = 1 := by
  unfold Gen.Rand.sign_number_assert
  split <;> rename_i h <;> simp only [Bool.and_eq_true, decide_eq_true_eq] at h
  · exact ⟨fun _ => rfl, fun _ => h⟩
  · exact ⟨fun hh => absurd hh h, fun hh => by cases hh⟩

end Rand
