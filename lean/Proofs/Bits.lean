import Model.Rand
import Model.Rfc6979
/-!
# Proofs.Bits — bit strings (most significant bit first) as the specification vocabulary of C04 and C17

`natBits w v` is the `w`-bit string of `v`, `bitsOfBytes s` the bit string of a byte string (8 bits per
byte), `Rand.bitsVal` the integer a bit string denotes.  Main facts: `bitsVal_bitsOfBytes`
(`= beVal`), `bitsVal_take` ("the leftmost m bits as an integer" is a division by a power of two).
-/
namespace Bits
open Rand

-- decidable equality of results, for `decide`d non-vacuity examples
deriving instance DecidableEq for Except

/-- the `w`-bit big-endian bit string of `v` (the low `w` bits of `v` if it is larger) -/
def natBits : Nat → Nat → List Bool
  | 0, _ => []
  | w+1, v => natBits w (v / 2) ++ [decide (v % 2 = 1)]

/-- the bit string of a byte string: 8 bits per byte, most significant first -/
def bitsOfBytes (s : Bytes) : List Bool := s.flatMap fun b => natBits 8 b.toNat

@[simp] theorem natBits_length (w v : Nat) : (natBits w v).length = w := by
  induction w generalizing v with
  | zero => rfl
  | succ w ih => simp [natBits, ih]

theorem bitsVal_foldl (l : List Bool) (acc : Nat) :
    l.foldl (fun a b => 2 * a + b.toNat) acc = acc * 2 ^ l.length + bitsVal l := by
  induction l generalizing acc with
  | nil => simp [bitsVal]
  | cons b t ih =>
    simp only [List.foldl_cons, List.length_cons, bitsVal]
    rw [ih, ih (2 * 0 + b.toNat)]
    rw [Nat.pow_succ]
    have : (2 * acc + b.toNat) * 2 ^ t.length = acc * (2 ^ t.length * 2) + (2 * 0 + b.toNat) * 2 ^ t.length := by
      rw [Nat.add_mul, Nat.add_mul]; simp only [Nat.mul_zero, Nat.zero_mul, Nat.zero_add]
      rw [Nat.mul_comm 2 acc, Nat.mul_assoc, Nat.mul_comm 2]
    omega

@[simp] theorem bitsVal_nil : bitsVal [] = 0 := rfl

theorem bitsVal_append (a b : List Bool) : bitsVal (a ++ b) = bitsVal a * 2 ^ b.length + bitsVal b := by
  unfold bitsVal
  rw [List.foldl_append, bitsVal_foldl]
  rfl

theorem bitsVal_singleton (b : Bool) : bitsVal [b] = b.toNat := by simp [bitsVal]

theorem bitsVal_cons (b : Bool) (t : List Bool) : bitsVal (b :: t) = b.toNat * 2 ^ t.length + bitsVal t := by
  have := bitsVal_append [b] t
  rwa [bitsVal_singleton] at this

theorem bitsVal_lt (l : List Bool) : bitsVal l < 2 ^ l.length := by
  induction l with
  | nil => simp
  | cons b t ih =>
    rw [bitsVal_cons, List.length_cons, Nat.pow_succ]
    have : b.toNat ≤ 1 := by cases b <;> simp
    have : b.toNat * 2 ^ t.length ≤ 1 * 2 ^ t.length := Nat.mul_le_mul_right _ this
    omega

theorem bitsVal_natBits (w v : Nat) : bitsVal (natBits w v) = v % 2 ^ w := by
  induction w generalizing v with
  | zero => simp [natBits, Nat.mod_one]
  | succ w ih =>
    rw [natBits, bitsVal_append, ih, bitsVal_singleton]
    simp only [List.length_singleton, Nat.pow_one]
    have h2 : v % 2 ^ (w + 1) = 2 * (v / 2 % 2 ^ w) + v % 2 := by
      rw [Nat.pow_succ, Nat.mul_comm (2 ^ w) 2, Nat.mod_mul]
      omega
    rw [h2]
    rcases Nat.mod_two_eq_zero_or_one v with h | h <;> simp [h] <;> omega

theorem natBits_zero (w : Nat) : natBits w 0 = List.replicate w false := by
  induction w with
  | zero => rfl
  | succ w ih => simp [natBits, ih, List.replicate_succ']

/-- "leftmost `m` bits as an integer" -/
theorem bitsVal_take (l : List Bool) (m : Nat) : bitsVal (l.take m) = bitsVal l / 2 ^ (l.length - m) := by
  have h := bitsVal_append (l.take m) (l.drop m)
  rw [List.take_append_drop] at h
  have hlt := bitsVal_lt (l.drop m)
  rw [List.length_drop] at h hlt
  rw [h, Nat.mul_comm, Nat.mul_add_div (Nat.two_pow_pos _), Nat.div_eq_of_lt hlt, Nat.add_zero]

theorem beVal_foldl (s : Bytes) (acc : Nat) :
    s.foldl (fun acc b => acc * 256 + b.toNat) acc = acc * 256 ^ s.length + beVal s := by
  induction s generalizing acc with
  | nil => simp [beVal]
  | cons b t ih =>
    simp only [List.foldl_cons, List.length_cons, beVal]
    rw [ih, ih (0 * 256 + b.toNat), Nat.pow_succ, Nat.add_mul]
    simp only [Nat.zero_mul, Nat.zero_add]
    rw [Nat.mul_assoc, Nat.mul_comm 256]
    omega

theorem beVal_cons (b : UInt8) (t : Bytes) : beVal (b :: t) = b.toNat * 256 ^ t.length + beVal t := by
  simp only [beVal, List.foldl_cons]
  rw [beVal_foldl]; simp [beVal]

@[simp] theorem beVal_nil : beVal [] = 0 := rfl

theorem beVal_append (a b : Bytes) : beVal (a ++ b) = beVal a * 256 ^ b.length + beVal b := by
  unfold beVal
  rw [List.foldl_append, beVal_foldl]
  rfl

theorem beVal_lt (s : Bytes) : beVal s < 256 ^ s.length := by
  induction s with
  | nil => simp
  | cons b t ih =>
    rw [beVal_cons, List.length_cons, Nat.pow_succ]
    have : b.toNat < 256 := b.toNat_lt
    have hp : 0 < 256 ^ t.length := Nat.pow_pos (by decide)
    calc b.toNat * 256 ^ t.length + beVal t < b.toNat * 256 ^ t.length + 256 ^ t.length := by omega
      _ = (b.toNat + 1) * 256 ^ t.length := by rw [Nat.add_mul, Nat.one_mul]
      _ ≤ 256 * 256 ^ t.length := Nat.mul_le_mul_right _ (by omega)
      _ = 256 ^ t.length * 256 := Nat.mul_comm _ _

@[simp] theorem bitsOfBytes_length (s : Bytes) : (bitsOfBytes s).length = 8 * s.length := by
  induction s with
  | nil => rfl
  | cons b t ih => simp [bitsOfBytes, List.flatMap_cons] at ih ⊢; omega

theorem bitsOfBytes_cons (b : UInt8) (t : Bytes) : bitsOfBytes (b :: t) = natBits 8 b.toNat ++ bitsOfBytes t := by
  simp [bitsOfBytes, List.flatMap_cons]

theorem pow256 (n : Nat) : 256 ^ n = 2 ^ (8 * n) := by
  rw [Nat.pow_mul]

/-- the bit string of a byte string denotes its big-endian value -/
theorem bitsVal_bitsOfBytes (s : Bytes) : bitsVal (bitsOfBytes s) = beVal s := by
  induction s with
  | nil => rfl
  | cons b t ih =>
    rw [bitsOfBytes_cons, bitsVal_append, ih, beVal_cons, bitsVal_natBits, bitsOfBytes_length, pow256]
    have : b.toNat < 256 := b.toNat_lt
    rw [Nat.mod_eq_of_lt (by simpa using this)]

end Bits
