import Proofs.NTJacobi
import Mathlib.Tactic.Linarith
/-! the recursion depth of `jacobi` is logarithmic: `2·⌊log₂ n⌋ + 3` nested calls always suffice (C15; the Python
function is recursive, so this bounds the interpreter stack it needs) -/
namespace NTProofs
open NT NumberTheorySymbols

theorem jacobiF_eq_log : ∀ (f : Nat) (a : Int) (n : Nat), 3 ≤ n → n % 2 = 1 → (a % (n : Int)) * n < 2 ^ f →
    jacobiF (f + 1) a n = .ok J(a | n) := by
  intro f
  induction f using Nat.strong_induction_on with
  | _ f ih =>
    intro a n hn3 hodd hlt
    have hnpos : (0 : Int) < n := by omega
    unfold jacobiF
    have hA1 : Gen.NT.jacobi_assert1 a n = true := by simp [Gen.NT.jacobi_assert1]; omega
    have hA2 : Gen.NT.jacobi_assert2 a n = true := by
      simp only [Gen.NT.jacobi_assert2, decide_eq_true_eq, Int.fmod_eq_emod_of_nonneg (n : Int) (show (0 : Int) ≤ 2 by decide)]
      omega
    simp only [hA1, hA2, Bool.not_true, Bool.false_eq_true, ↓reduceIte, jacobi_pre_eq,
      Int.fmod_eq_emod_of_nonneg a (le_of_lt hnpos)]
    have hmod : J(a | n) = J(a % n | n) := jacobiSym.mod_left a n
    have h0 : 0 ≤ a % n := Int.emod_nonneg a (by omega)
    have hl : a % n < n := Int.emod_lt_of_pos a hnpos
    rw [hmod]
    generalize a % (n : Int) = a' at h0 hl hlt
    by_cases c0 : a' = 0
    · subst c0; simp only [↓reduceIte]; rw [jacobiSym.zero_left (by omega)]
    by_cases c1 : a' = 1
    · subst c1; simp only [show ¬ ((1 : Int) = 0) by decide, ↓reduceIte]; rw [jacobiSym.one_left]
    simp only [c0, c1, ↓reduceIte]
    obtain ⟨k, m, hs, ham, hm2, hm0⟩ := jacobiStrip_spec (a'.natAbs + 1) a' 0 (by omega) (by omega)
    rw [hs]
    simp only [jacobi_post_eq, zero_add]
    have hJ := jacobi_two_pow_mul k m n hodd
    rw [ham, hJ]
    have hk2 : ((k : Int) % 2 = 0) ↔ (k % 2 = 0) := by omega
    have hn8a : ((n : Int) % 8 = 1) ↔ (n % 8 = 1) := by omega
    have hn8b : ((n : Int) % 8 = 7) ↔ (n % 8 = 7) := by omega
    simp only [hk2, hn8a, hn8b]
    by_cases cm : m = 1
    · subst cm; simp [jacobiSym.one_left]
    simp only [cm, ↓reduceIte]
    -- m ≥ 3, odd, m < n
    have hmle : m ≤ a' := by
      have : (1 : Int) ≤ 2 ^ k := one_le_pow₀ (by decide)
      rw [ham]; nlinarith
    obtain ⟨M, rfl⟩ : ∃ M : Nat, m = M := ⟨m.toNat, by omega⟩
    have hM3 : 3 ≤ M := by omega
    have hModd : M % 2 = 1 := by omega
    -- the product (reduced first argument) · (modulus) at least halves in the recursive call
    have hfpos : 1 ≤ f := by
      rcases Nat.eq_zero_or_pos f with h | h
      · subst h; simp at hlt; nlinarith
      · exact h
    obtain ⟨g, rfl⟩ : ∃ g, f = g + 1 := ⟨f - 1, by omega⟩
    have hMn : (M : Int) < n := by omega
    have hhalf : 2 * ((n : Int) % M) < n := by
      have hMpos : (0 : Int) < M := by omega
      have h1 := Int.emod_lt_of_pos (n : Int) hMpos
      have h2 := Int.emod_add_mul_ediv (n : Int) M
      have h3 : 1 ≤ (n : Int) / M := Int.le_ediv_of_mul_le hMpos (by omega)
      nlinarith
    have hprod : (Int.fmod n M % (M : Int)) * M < 2 ^ g := by
      rw [Int.fmod_eq_emod_of_nonneg _ (by omega), Int.emod_emod_of_dvd _ (dvd_refl _)]
      have hnn := Int.emod_nonneg (n : Int) (show (M : Int) ≠ 0 by omega)
      have : (2 : Int) ^ (g + 1) = 2 * 2 ^ g := by ring
      rw [this] at hlt
      nlinarith
    have hrec := ih g (by omega) (Int.fmod n M) M hM3 hModd hprod
    rw [hrec, Int.fmod_eq_emod_of_nonneg _ (by omega), ← jacobiSym.mod_left]
    have hqr := jacobiSym.quadratic_reciprocity_if (a := M) (b := n) hModd hodd
    have hn4 : ((n : Int) % 4 = 3) ↔ (n % 4 = 3) := by omega
    have hM4 : ((M : Int) % 4 = 3) ↔ (M % 4 = 3) := by omega
    simp only [hn4, hM4, Except.map]
    rw [← hqr]
    congr 1
    by_cases q : M % 4 = 3 ∧ n % 4 = 3
    · have q' : n % 4 = 3 ∧ M % 4 = 3 := ⟨q.2, q.1⟩
      simp only [q, q', and_self, ↓reduceIte]; ring
    · have q' : ¬ (n % 4 = 3 ∧ M % 4 = 3) := fun h => q ⟨h.2, h.1⟩
      simp only [q, q', ↓reduceIte]


/-- **recursion depth**: the budget `2·⌊log₂ n⌋ + 3` (number of nested `jacobi` calls) is never exhausted -/
theorem jacobi_depth (a : Int) (n : Nat) (hn3 : 3 ≤ n) (hodd : n % 2 = 1) :
    jacobiF (2 * Nat.log2 n + 3) a n = .ok J(a | n) := by
  apply jacobiF_eq_log (2 * Nat.log2 n + 2) a n hn3 hodd
  have hnpos : (0 : Int) < n := by omega
  have h0 := Int.emod_nonneg a (show (n : Int) ≠ 0 by omega)
  have h1 := Int.emod_lt_of_pos a hnpos
  have hlt : n < 2 ^ (Nat.log2 n + 1) := by
    rw [Nat.log2_eq_log_two]; exact Nat.lt_pow_succ_log_self (by decide) n
  have hlt' : (n : Int) < 2 ^ (Nat.log2 n + 1) := by exact_mod_cast hlt
  have : (2 : Int) ^ (2 * Nat.log2 n + 2) = 2 ^ (Nat.log2 n + 1) * 2 ^ (Nat.log2 n + 1) := by
    rw [← pow_add]; congr 1; omega
  rw [this]
  nlinarith

end NTProofs
