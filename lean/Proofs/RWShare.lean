import Proofs.RWTerm
/-! # Proofs.RWShare — readers share: with readers inside and no writer around, a further reader runs through
`reader_acquire` without waiting and without anybody leaving -/
set_option linter.unusedVariables false
namespace RW

/-- run instructions one after another on the shared state (`none`: one of them blocks or raises) -/
def execAll : List Instr → Shared → Option Shared
  | [], sh => some sh
  | i :: rest, sh =>
    match exec i sh with
    | .ok sh' => execAll rest sh'
    | _ => none

/-- a thread that can execute its next `n` instructions in a row (staying inside its round) does so when scheduled
`n` times in a row; nobody else changes -/
theorem solo_run {P : Progs} (i : Nat) : ∀ (n : Nat) (c : Cfg) (rounds : List Role) (pc : Nat) (r : Role) (rest : List Role)
    (sh' : Shared), c.thr[i]? = some ⟨rounds, pc⟩ → rounds = r :: rest → pc + n < (P.round r).length →
    execAll (((P.round r).drop pc).take n) c.sh = some sh' →
    ∃ c', runSched P c (List.replicate n i) = .ok c' ∧ c'.sh = sh' ∧ c'.thr = c.thr.set i ⟨rounds, pc + n⟩
  | 0, c, rounds, pc, r, rest, sh', ht, hr, hlen, hex => by
    simp only [List.take_zero, execAll, Option.some.injEq] at hex
    refine ⟨c, rfl, hex, ?_⟩
    obtain ⟨hlt, hget⟩ := List.getElem?_eq_some_iff.mp ht
    simp only [Nat.add_zero]
    rw [← hget, List.set_getElem_self]
  | n + 1, c, rounds, pc, r, rest, sh', ht, hr, hlen, hex => by
    have hpc : pc < (P.round r).length := by omega
    have hdrop : (P.round r).drop pc = (P.round r)[pc] :: (P.round r).drop (pc + 1) := List.drop_eq_getElem_cons hpc
    rw [hdrop, List.take_succ_cons] at hex
    simp only [execAll] at hex
    cases hex1 : exec (P.round r)[pc] c.sh with
    | ok sh1 =>
      rw [hex1] at hex
      simp only at hex
      have hins : (P.round r)[pc]? = some (P.round r)[pc] := List.getElem?_eq_getElem hpc
      have hadv : advance P ⟨rounds, pc⟩ = ⟨rounds, pc + 1⟩ := by
        unfold advance; subst hr
        have : pc + 1 < (P.round r).length := by omega
        simp [this]
      have hstep : tstep P c i = .ok ⟨sh1, c.thr.set i ⟨rounds, pc + 1⟩⟩ := by
        unfold tstep
        subst hr
        simp only [ht, hins, hex1, hadv]
      have hlt : i < c.thr.length := (List.getElem?_eq_some_iff.mp ht).1
      obtain ⟨c', hrun, hsh, hthr⟩ := solo_run i n ⟨sh1, c.thr.set i ⟨rounds, pc + 1⟩⟩ rounds (pc + 1) r rest sh'
        (by simp [hlt]) hr (by omega) hex
      refine ⟨c', ?_, hsh, ?_⟩
      · simp only [List.replicate_succ, runSched, hstep]; exact hrun
      · rw [hthr]; simp only [List.set_set]; congr 2; omega
    | blocked => rw [hex1] at hex; simp at hex
    | err => rw [hex1] at hex; simp at hex

/-- all other threads are between rounds / finished, or inside as readers -/
def OthersQuietOrReading (c : Cfg) (i : Nat) : Prop :=
  ∀ j t, j ≠ i → c.thr[j]? = some t → t.idle = true ∨ t.insideAs GP .reader = true

theorem cnt_zero_of_quiet {c : Cfg} {i : Nat} {rest : List Role} (hi : c.thr[i]? = some ⟨.reader :: rest, 0⟩)
    (hq : OthersQuietOrReading c i) (r : Role) (k : Nat) (hk : k ≠ 0) (hrk : (r, k) ≠ (.reader, 8)) :
    cntAt c.thr r k = 0 := by
  unfold cntAt
  rw [List.countP_eq_zero]
  intro t ht
  simp only [decide_eq_true_eq]
  obtain ⟨j, hj⟩ := List.getElem?_of_mem ht
  by_cases hji : j = i
  · subst hji
    rw [hi] at hj
    injection hj with hj
    subst hj
    simp only [Thread.pt, Option.some.injEq, Prod.mk.injEq, not_and]
    intro _ h0; exact hk h0.symm
  · rcases hq j t hji hj with h1 | h1
    · obtain ⟨rounds, pc⟩ := t
      cases rounds with
      | nil => simp [Thread.pt]
      | cons r' rest' =>
        simp only [Thread.idle, List.isEmpty_cons, Bool.or_false, decide_eq_true_eq] at h1
        simp only [Thread.pt, Option.some.injEq, Prod.mk.injEq, not_and]
        intro _ h0; exact hk (by omega)
    · rw [insideAs_reader] at h1
      rw [h1]
      intro h2
      exact hrk (Option.some.inj h2).symm

theorem racq_prog : (GP.round .reader).take 8 =
    [.acq .RQ, .acq .NR, .acq .RM, .inc .rc, .ifeq .rc 1 (.acq .NW), .rel .RM, .rel .NR, .rel .RQ] := by decide

/-- **readers share**: thread `i` is about to start a reader round; every other thread is idle or inside as a reader.
Then thread `i`, scheduled 8 times in a row, completes `reader_acquire` — no step blocks — and is inside, while every
other thread is exactly where it was (in particular the readers that were inside are still inside). -/
theorem readers_shared_thr {rs : List (List Role)} {c : Cfg} (h : Reach GP rs c) (i : Nat) (rest : List Role)
    (hi : c.thr[i]? = some ⟨.reader :: rest, 0⟩) (hq : OthersQuietOrReading c i) :
    ∃ c', runSched GP c (List.replicate 8 i) = .ok c' ∧ c'.thr = c.thr.set i ⟨.reader :: rest, 8⟩ := by
  have hinv := reach_rinv h
  have z : ∀ r k, k ≠ 0 → (r, k) ≠ (Role.reader, 8) → (abs c).cnt r k = 0 := fun r k hk hrk =>
    cnt_zero_of_quiet hi hq r k hk hrk
  have r1 := z .reader 1 (by decide) (by decide); have r2 := z .reader 2 (by decide) (by decide)
  have r3 := z .reader 3 (by decide) (by decide); have r4 := z .reader 4 (by decide) (by decide)
  have r5 := z .reader 5 (by decide) (by decide); have r6 := z .reader 6 (by decide) (by decide)
  have r7 := z .reader 7 (by decide) (by decide); have r9 := z .reader 9 (by decide) (by decide)
  have r10 := z .reader 10 (by decide) (by decide); have r11 := z .reader 11 (by decide) (by decide)
  have w1 := z .writer 1 (by decide) (by decide); have w2 := z .writer 2 (by decide) (by decide)
  have w3 := z .writer 3 (by decide) (by decide); have w4 := z .writer 4 (by decide) (by decide)
  have w5 := z .writer 5 (by decide) (by decide); have w6 := z .writer 6 (by decide) (by decide)
  have w7 := z .writer 7 (by decide) (by decide); have w8 := z .writer 8 (by decide) (by decide)
  have w9 := z .writer 9 (by decide) (by decide)
  clear z
  obtain ⟨sh, thr⟩ := c
  obtain ⟨RQ, NR, NW, RM, WM, rc, wc⟩ := sh
  simp only [RInv, abs] at hinv r1 r2 r3 r4 r5 r6 r7 r9 r10 r11 w1 w2 w3 w4 w5 w6 w7 w8 w9
  have hRQ : RQ = 0 := by omega
  have hNR : NR = 0 := by omega
  have hRM : RM = 0 := by omega
  have hWM : WM = 0 := by omega
  have hwc : wc = 0 := by omega
  have hrc : 0 ≤ rc := by omega
  have hNW : (rc = 0 → NW = 0) := by omega
  subst hRQ hNR hRM hWM hwc
  have hex : ∃ sh', execAll (((GP.round .reader).drop 0).take 8) ⟨0, 0, NW, 0, 0, rc, 0⟩ = some sh' := by
    rw [List.drop_zero, racq_prog]
    by_cases h0 : rc = 0
    · have := hNW h0; subst h0; subst this
      exact ⟨⟨0, 0, 1, 0, 0, 1, 0⟩, by decide⟩
    · have h1 : ¬ (rc + 1 = 1) := by omega
      refine ⟨⟨0, 0, NW, 0, 0, rc + 1, 0⟩, ?_⟩
      simp [execAll, exec, doAct, Shared.mtx, Shared.setM, Shared.ctr, Shared.setC, h1]
  obtain ⟨sh', hex⟩ := hex
  obtain ⟨c', hrun, _, hthr⟩ := solo_run (P := GP) i 8 ⟨⟨0, 0, NW, 0, 0, rc, 0⟩, thr⟩ (.reader :: rest) 0 .reader rest sh'
    hi rfl (by rw [round_len_reader]; omega) hex
  exact ⟨c', hrun, by simpa using hthr⟩

/-! ### reusable, operationally: from an all-idle reachable configuration any thread runs its next complete round alone -/

theorem solo_round {rs : List (List Role)} {c : Cfg} (h : Reach GP rs c) (hidle : ∀ t ∈ c.thr, t.idle = true)
    (i : Nat) (r : Role) (rest : List Role) (hi : c.thr[i]? = some ⟨r :: rest, 0⟩) :
    ∃ c', runSched GP c (List.replicate (GP.round r).length i) = .ok c' ∧ c'.sh = c.sh ∧
      c'.thr = c.thr.set i ⟨rest, 0⟩ := by
  have hsh := reusable_thr h hidle
  obtain ⟨sh, thr⟩ := c
  simp only at hsh hi; subst hsh
  have hlt : i < thr.length := (List.getElem?_eq_some_iff.mp hi).1
  cases r with
  | reader =>
    obtain ⟨c1, hrun, hsh1, hthr1⟩ := solo_run (P := GP) i 11 ⟨⟨0, 0, 0, 0, 0, 0, 0⟩, thr⟩ (.reader :: rest) 0 .reader rest
      ⟨0, 0, 0, 1, 0, 0, 0⟩ hi rfl (by rw [round_len_reader]; omega)
      (show execAll (((GP.round .reader).drop 0).take 11) ⟨0, 0, 0, 0, 0, 0, 0⟩ = some _ by decide)
    obtain ⟨sh1, thr1⟩ := c1
    simp only at hsh1 hthr1; subst hsh1; subst hthr1
    have hstep : tstep GP ⟨⟨0, 0, 0, 1, 0, 0, 0⟩, thr.set i ⟨.reader :: rest, 0 + 11⟩⟩ i =
        .ok ⟨⟨0, 0, 0, 0, 0, 0, 0⟩, thr.set i ⟨rest, 0⟩⟩ := by
      unfold tstep
      simp only [List.getElem?_set_self hlt, List.set_set]
      rfl
    refine ⟨⟨⟨0, 0, 0, 0, 0, 0, 0⟩, thr.set i ⟨rest, 0⟩⟩, ?_, rfl, rfl⟩
    rw [round_len_reader, show (12 : Nat) = 11 + 1 from rfl, List.replicate_succ', runSched_append _ _ _ _ hrun]
    simp only [runSched, hstep]
  | writer =>
    obtain ⟨c1, hrun, hsh1, hthr1⟩ := solo_run (P := GP) i 9 ⟨⟨0, 0, 0, 0, 0, 0, 0⟩, thr⟩ (.writer :: rest) 0 .writer rest
      ⟨0, 0, 0, 0, 1, 0, 0⟩ hi rfl (by rw [round_len_writer]; omega)
      (show execAll (((GP.round .writer).drop 0).take 9) ⟨0, 0, 0, 0, 0, 0, 0⟩ = some _ by decide)
    obtain ⟨sh1, thr1⟩ := c1
    simp only at hsh1 hthr1; subst hsh1; subst hthr1
    have hstep : tstep GP ⟨⟨0, 0, 0, 0, 1, 0, 0⟩, thr.set i ⟨.writer :: rest, 0 + 9⟩⟩ i =
        .ok ⟨⟨0, 0, 0, 0, 0, 0, 0⟩, thr.set i ⟨rest, 0⟩⟩ := by
      unfold tstep
      simp only [List.getElem?_set_self hlt, List.set_set]
      rfl
    refine ⟨⟨⟨0, 0, 0, 0, 0, 0, 0⟩, thr.set i ⟨rest, 0⟩⟩, ?_, rfl, rfl⟩
    rw [round_len_writer, show (10 : Nat) = 9 + 1 from rfl, List.replicate_succ', runSched_append _ _ _ _ hrun]
    simp only [runSched, hstep]

end RW
