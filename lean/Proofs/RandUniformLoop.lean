import Proofs.RandUniform
import Proofs.RandLoop
/-!
# Proofs.RandUniformLoop — exact uniformity of the value returned by the WHOLE rejection loop of `randrange`

Counting form (no measure theory): among all sequences of `k` chunks of the requested length — i.e. under `k`
independent uniform chunks — the number of sequences on which `randrange` returns `t` (within these `k` draws) is
`loopCount order k`, a number that does not depend on `t ∈ [1, order − 1]`.
-/
namespace Rand
open Bits

/-- the value the loop returns on a scripted chunk sequence: `oneDraw` of the first chunk that is not rejected -/
def drawSeq (order : Int) : List Bytes → Option Nat
  | [] => none
  | c :: rest =>
    match oneDraw order c with
    | .ok (some v) => some v
    | .ok none => drawSeq order rest
    | .error _ => none

/-- "the call returned the value `t`" -/
def returnsValue (r : Option (Res (Nat × List Nat))) (t : Nat) : Bool :=
  match r with
  | some (.ok (v, _)) => v == t
  | _ => false

theorem chunkEntropy_snoc (cs : List Bytes) (hist : List Nat) (u : Nat) :
    chunkEntropy cs (hist ++ [u]) = match cs[hist.length]? with | some c => .ok c | none => .error .indexError := by
  unfold chunkEntropy
  simp
  cases cs[hist.length]? <;> rfl

/-- the model's loop on the chunk-replaying source is `drawSeq` on the chunks not yet handed out -/
theorem randrangeLoop_chunkEntropy (cs : List Bytes) (order : Int) (t : Nat) (fuel : Nat) :
    ∀ (hist : List Nat), cs.length - hist.length ≤ fuel →
      returnsValue (randrangeLoop (chunkEntropy cs) order fuel hist) t = (drawSeq order (cs.drop hist.length) == some t) := by
  induction fuel with
  | zero =>
    intro hist hf
    have : cs.drop hist.length = [] := List.drop_eq_nil_of_le (by omega)
    simp [randrangeLoop, returnsValue, this, drawSeq]
  | succ f ih =>
    intro hist hf
    unfold randrangeLoop
    simp only
    rw [chunkEntropy_snoc]
    cases hc : cs[hist.length]? with
    | none =>
      have : cs.drop hist.length = [] := List.drop_eq_nil_of_le (by
        rcases Nat.lt_or_ge hist.length cs.length with h | h
        · rw [List.getElem?_eq_getElem h] at hc; cases hc
        · exact h)
      simp [returnsValue, this, drawSeq]
    | some c =>
      have hlt : hist.length < cs.length := by
        rcases Nat.lt_or_ge hist.length cs.length with h | h
        · exact h
        · rw [List.getElem?_eq_none h] at hc; cases hc
      have hdrop : cs.drop hist.length = c :: cs.drop (hist.length + 1) := by
        rw [List.drop_eq_getElem_cons hlt]
        rw [List.getElem?_eq_getElem hlt] at hc
        cases hc; rfl
      rw [hdrop, drawSeq]
      simp only
      cases hd : oneDraw order c with
      | error e => simp [returnsValue]
      | ok o =>
        cases o with
        | some v => simp [returnsValue]
        | none =>
          simp only
          have := ih (hist ++ [upper256 order]) (by simp; omega)
          simpa using this

theorem randrange_chunkEntropy (cs : List Bytes) (order : Int) (ho : 1 < order) (t : Nat) (fuel : Nat) (hf : cs.length ≤ fuel) :
    returnsValue (randrange (chunkEntropy cs) order [] fuel) t = (drawSeq order cs == some t) := by
  unfold randrange
  rw [if_pos ho]
  have := randrangeLoop_chunkEntropy cs order t fuel [] (by simpa using hf)
  simpa using this

/-! ### all sequences of `k` chunks of length `l` -/

def allSeqs (l : Nat) : Nat → List (List Bytes)
  | 0 => [[]]
  | k+1 => (allChunks l).flatMap fun c => (allSeqs l k).map (c :: ·)

theorem length_flatMap_map {α β : Type} (l : List α) (S : List β) (f : α → β → β) :
    (l.flatMap fun c => S.map (f c)).length = l.length * S.length := by
  induction l with
  | nil => simp
  | cons a t ih => simp [List.flatMap_cons, ih, Nat.succ_mul, Nat.add_comm]

theorem allSeqs_length (l k : Nat) : (allSeqs l k).length = (256 ^ l) ^ k := by
  induction k with
  | zero => simp [allSeqs]
  | succ k ih => rw [allSeqs, length_flatMap_map, ih, allChunks_length, Nat.pow_succ, Nat.mul_comm]

theorem mem_allSeqs (l k : Nat) (cs : List Bytes) : cs ∈ allSeqs l k ↔ cs.length = k ∧ ∀ c ∈ cs, c.length = l := by
  induction k generalizing cs with
  | zero =>
    simp only [allSeqs, List.mem_singleton]
    constructor
    · rintro rfl; simp
    · rintro ⟨h, _⟩; exact List.length_eq_zero_iff.1 h
  | succ k ih =>
    simp only [allSeqs, List.mem_flatMap, List.mem_map]
    constructor
    · rintro ⟨c, hc, s, hs, rfl⟩
      have := (ih s).1 hs
      refine ⟨by simp [this.1], ?_⟩
      intro c' hc'
      rcases List.mem_cons.1 hc' with rfl | h
      · exact (mem_allChunks l _).1 hc
      · exact this.2 c' h
    · rintro ⟨hlen, hall⟩
      cases cs with
      | nil => simp at hlen
      | cons c s =>
        refine ⟨c, (mem_allChunks l c).2 (hall c (by simp)), s, (ih s).2 ⟨by simpa using hlen, fun c' h => hall c' (by simp [h])⟩, rfl⟩

/-! ### the count -/

/-- number of chunks of the requested length that one iteration rejects -/
def rejected (order : Int) : Nat :=
  ((allChunks (upper256 order)).filter (fun c => decide (oneDraw order c = .ok none))).length

/-- number of `k`-chunk sequences on which the loop returns a given target — defined without reference to the target -/
def loopCount (order : Int) : Nat → Nat
  | 0 => 0
  | k+1 => perTarget order * (256 ^ upper256 order) ^ k + rejected order * loopCount order k

theorem count_step (order : Int) (t : Nat) (S : List (List Bytes)) (l : List Bytes) :
    ((l.flatMap fun c => S.map (c :: ·)).filter (fun cs => drawSeq order cs == some t)).length =
      (l.filter (fun c => decide (oneDraw order c = .ok (some t)))).length * S.length +
      (l.filter (fun c => decide (oneDraw order c = .ok none))).length * (S.filter (fun cs => drawSeq order cs == some t)).length := by
  induction l with
  | nil => simp
  | cons c l ih =>
    rw [List.flatMap_cons, List.filter_append, List.length_append, ih, List.filter_map, List.length_map]
    have hhead : (S.filter ((fun cs => drawSeq order cs == some t) ∘ (c :: ·))).length =
        (if oneDraw order c = .ok (some t) then S.length else 0) +
        (if oneDraw order c = .ok none then (S.filter (fun cs => drawSeq order cs == some t)).length else 0) := by
      cases hd : oneDraw order c with
      | error e => simp [Function.comp_def, drawSeq, hd]
      | ok o =>
        cases o with
        | none => simp [Function.comp_def, drawSeq, hd]
        | some v =>
          by_cases hv : v = t
          · subst hv; simp [Function.comp_def, drawSeq, hd]
          · simp [Function.comp_def, drawSeq, hd, hv]
    rw [hhead]
    simp only [List.filter_cons]
    by_cases h1 : oneDraw order c = .ok (some t)
    · have h2 : ¬ oneDraw order c = .ok none := by rw [h1]; simp
      simp only [h1, decide_true, if_true, List.length_cons]
      rw [Nat.succ_mul]; simp; omega
    · by_cases h2 : oneDraw order c = .ok none
      · simp only [h2, decide_true, if_true, List.length_cons]
        rw [Nat.succ_mul]; simp; omega
      · simp only [h1, h2, decide_false, if_false]; simp

/-- **uniformity of the loop**: for every target `t ∈ [1, order − 1]` and every `k`, exactly `loopCount order k` of
the `(256^len)^k` sequences of `k` chunks make the loop return `t` -/
theorem count_loop (order : Int) (t : Nat) (h1 : 1 ≤ t) (h2 : (t : Int) < order) (k : Nat) :
    ((allSeqs (upper256 order) k).filter (fun cs => drawSeq order cs == some t)).length = loopCount order k := by
  induction k with
  | zero => simp [allSeqs, drawSeq, loopCount]
  | succ k ih =>
    rw [allSeqs, count_step, ih, loopCount, count_target order t h1 h2, allSeqs_length]
    rfl

end Rand
