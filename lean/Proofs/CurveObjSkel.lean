/-!
# Proofs.CurveObjSkel — source skeletons of the point-object layer of `ellipticcurve.py` that `Model/Curve.lean` follows

The control skeleton (statements in source order: early exits, tests, which kernel / method is called with which
arguments, loop headers, stores; docstrings, comments and exception messages dropped) of every method of `CurveFp`,
`PointJacobi` and the legacy `Point` that the hand-written model transcribes, AS TRANSCRIBED.
`harness/translate/gen_curveobj.py` re-extracts the same skeletons from the working tree on every run
(`Generated/CurveObjGuards.lean`); `C06t.Tie.skel_*` / `C07t.Tie.skel_*` (Proofs/CurveObjTie.lean) prove the two equal, so
a change of the source's control flow, call arguments or constants that the model does not follow breaks a proof.
Update an entry ONLY together with the model function it describes.
-/
namespace Curve.Skel

def CurveFp_eq : List String := [
  "if isinstance(other, CurveFp)",
  ".return self.__p == other.__p and self.__a == other.__a and (self.__b == other.__b)",
  "return NotImplemented"
]

def CurveFp_ne : List String := [
  "return not self == other"
]

def CurveFp_contains_point : List String := [
  "return (y * y - ((x * x + self.__a) * x + self.__b)) % self.__p == 0"
]

def PJ_init : List String := [
  "self.__curve = curve",
  "if GMPY",
  ".self.__coords = (mpz(x), mpz(y), mpz(z))",
  ".self.__order = order and mpz(order)",
  "else",
  ".self.__coords = (x, y, z)",
  ".self.__order = order",
  "self.__generator = generator",
  "self.__precompute = []"
]

def PJ_maybe_precompute : List String := [
  "if not self.__generator or self.__precompute",
  ".return ",
  "order = self.__order",
  "assert order",
  "precompute = []",
  "i = 1",
  "order *= 2",
  "(coord_x, coord_y, coord_z) = self.__coords",
  "doubler = PointJacobi(self.__curve, coord_x, coord_y, coord_z, order)",
  "order *= 2",
  "call precompute.append((doubler.x(), doubler.y()))",
  "while i < order",
  ".i *= 2",
  ".doubler = doubler.double().scale()",
  ".call precompute.append((doubler.x(), doubler.y()))",
  "self.__precompute = precompute"
]

def PJ_eq : List String := [
  "(x1, y1, z1) = self.__coords",
  "if other is INFINITY",
  ".return not y1 or not z1",
  "if isinstance(other, Point)",
  ".(x2, y2, z2) = (other.x(), other.y(), 1)",
  "else",
  ".if isinstance(other, PointJacobi)",
  "..(x2, y2, z2) = other.__coords",
  ".else",
  "..return NotImplemented",
  "if self.__curve != other.curve()",
  ".return False",
  "if not y1 or not z1 or (not y2) or (not z2)",
  ".return (not y1 or not z1) and (not y2 or not z2)",
  "p = self.__curve.p()",
  "zz1 = z1 * z1 % p",
  "zz2 = z2 * z2 % p",
  "return (x1 * zz2 - x2 * zz1) % p == 0 and (y1 * zz2 * z2 - y2 * zz1 * z1) % p == 0"
]

def PJ_ne : List String := [
  "return not self == other"
]

def PJ_x : List String := [
  "(x, _, z) = self.__coords",
  "if z == 1",
  ".return x",
  "p = self.__curve.p()",
  "z = numbertheory.inverse_mod(z, p)",
  "return x * z ** 2 % p"
]

def PJ_y : List String := [
  "(_, y, z) = self.__coords",
  "if z == 1",
  ".return y",
  "p = self.__curve.p()",
  "z = numbertheory.inverse_mod(z, p)",
  "return y * z ** 3 % p"
]

def PJ_scale : List String := [
  "(x, y, z) = self.__coords",
  "if z == 1",
  ".return self",
  "p = self.__curve.p()",
  "z_inv = numbertheory.inverse_mod(z, p)",
  "zz_inv = z_inv * z_inv % p",
  "x = x * zz_inv % p",
  "y = y * zz_inv * z_inv % p",
  "self.__coords = (x, y, 1)",
  "return self"
]

def PJ_to_affine : List String := [
  "(_, y, z) = self.__coords",
  "if not y or not z",
  ".return INFINITY",
  "call self.scale()",
  "(x, y, z) = self.__coords",
  "return Point(self.__curve, x, y, self.__order)"
]

def PJ_from_affine : List String := [
  "return PointJacobi(point.curve(), point.x(), point.y(), 1, point.order(), generator)"
]

def PJ_double : List String := [
  "(X1, Y1, Z1) = self.__coords",
  "if not Y1",
  ".return INFINITY",
  "(p, a) = (self.__curve.p(), self.__curve.a())",
  "(X3, Y3, Z3) = self._double(X1, Y1, Z1, p, a)",
  "if not Y3 or not Z3",
  ".return INFINITY",
  "return PointJacobi(self.__curve, X3, Y3, Z3, self.__order)"
]

def PJ_radd : List String := [
  "return self + other"
]

def PJ_add : List String := [
  "if self == INFINITY",
  ".return other",
  "if other == INFINITY",
  ".return self",
  "if isinstance(other, Point)",
  ".other = PointJacobi.from_affine(other)",
  "if self.__curve != other.__curve",
  ".raise ValueError",
  "p = self.__curve.p()",
  "(X1, Y1, Z1) = self.__coords",
  "(X2, Y2, Z2) = other.__coords",
  "(X3, Y3, Z3) = self._add(X1, Y1, Z1, X2, Y2, Z2, p)",
  "if not Y3 or not Z3",
  ".return INFINITY",
  "return PointJacobi(self.__curve, X3, Y3, Z3, self.__order)"
]

def PJ_rmul : List String := [
  "return self * other"
]

def PJ_mul_precompute : List String := [
  "(X3, Y3, Z3, p) = (0, 0, 1, self.__curve.p())",
  "_add = self._add",
  "for (X2, Y2) in self.__precompute",
  ".if other % 2",
  "..if other % 4 >= 2",
  "...other = (other + 1) // 2",
  "...(X3, Y3, Z3) = _add(X3, Y3, Z3, X2, -Y2, 1, p)",
  "..else",
  "...other = (other - 1) // 2",
  "...(X3, Y3, Z3) = _add(X3, Y3, Z3, X2, Y2, 1, p)",
  ".else",
  "..other //= 2",
  "if not Y3 or not Z3",
  ".return INFINITY",
  "return PointJacobi(self.__curve, X3, Y3, Z3, self.__order)"
]

def PJ_naf : List String := [
  "ret = []",
  "while mult",
  ".if mult % 2",
  "..nd = mult % 4",
  "..if nd >= 2",
  "...nd -= 4",
  "..call ret.append(nd)",
  "..mult -= nd",
  ".else",
  "..call ret.append(0)",
  ".mult //= 2",
  "return ret"
]

def PJ_mul : List String := [
  "if not self.__coords[1] or not other",
  ".return INFINITY",
  "if other == 1",
  ".return self",
  "if self.__order",
  ".other = other % (self.__order * 2)",
  "call self._maybe_precompute()",
  "if self.__precompute",
  ".return self._mul_precompute(other)",
  "self = self.scale()",
  "(X2, Y2, _) = self.__coords",
  "(X3, Y3, Z3) = (0, 0, 1)",
  "(p, a) = (self.__curve.p(), self.__curve.a())",
  "_double = self._double",
  "_add = self._add",
  "for i in reversed(self._naf(other))",
  ".(X3, Y3, Z3) = _double(X3, Y3, Z3, p, a)",
  ".if i < 0",
  "..(X3, Y3, Z3) = _add(X3, Y3, Z3, X2, -Y2, 1, p)",
  ".else",
  "..if i > 0",
  "...(X3, Y3, Z3) = _add(X3, Y3, Z3, X2, Y2, 1, p)",
  "if not Y3 or not Z3",
  ".return INFINITY",
  "return PointJacobi(self.__curve, X3, Y3, Z3, self.__order)"
]

def PJ_mul_add : List String := [
  "if other == INFINITY or other_mul == 0",
  ".return self * self_mul",
  "if self_mul == 0",
  ".return other * other_mul",
  "if not isinstance(other, PointJacobi)",
  ".other = PointJacobi.from_affine(other)",
  "call self._maybe_precompute()",
  "call other._maybe_precompute()",
  "if self.__precompute and other.__precompute",
  ".return self * self_mul + other * other_mul",
  "if self.__order",
  ".self_mul = self_mul % self.__order",
  ".other_mul = other_mul % self.__order",
  "(X3, Y3, Z3) = (0, 0, 1)",
  "(p, a) = (self.__curve.p(), self.__curve.a())",
  "call self.scale()",
  "(X1, Y1, Z1) = self.__coords",
  "call other.scale()",
  "(X2, Y2, Z2) = other.__coords",
  "_double = self._double",
  "_add = self._add",
  "(mAmB_X, mAmB_Y, mAmB_Z) = _add(X1, -Y1, Z1, X2, -Y2, Z2, p)",
  "(pAmB_X, pAmB_Y, pAmB_Z) = _add(X1, Y1, Z1, X2, -Y2, Z2, p)",
  "(mApB_X, mApB_Y, mApB_Z) = _add(X1, -Y1, Z1, X2, Y2, Z2, p)",
  "(pApB_X, pApB_Y, pApB_Z) = _add(X1, Y1, Z1, X2, Y2, Z2, p)",
  "if not pApB_Y or not pApB_Z",
  ".return self * self_mul + other * other_mul",
  "self_naf = list(reversed(self._naf(int(self_mul))))",
  "other_naf = list(reversed(self._naf(int(other_mul))))",
  "if len(self_naf) < len(other_naf)",
  ".self_naf = [0] * (len(other_naf) - len(self_naf)) + self_naf",
  "else",
  ".if len(self_naf) > len(other_naf)",
  "..other_naf = [0] * (len(self_naf) - len(other_naf)) + other_naf",
  "for (A, B) in zip(self_naf, other_naf)",
  ".(X3, Y3, Z3) = _double(X3, Y3, Z3, p, a)",
  ".if A == 0",
  "..if B == 0",
  "...pass",
  "..else",
  "...if B < 0",
  "....(X3, Y3, Z3) = _add(X3, Y3, Z3, X2, -Y2, Z2, p)",
  "...else",
  "....assert B > 0",
  "....(X3, Y3, Z3) = _add(X3, Y3, Z3, X2, Y2, Z2, p)",
  ".else",
  "..if A < 0",
  "...if B == 0",
  "....(X3, Y3, Z3) = _add(X3, Y3, Z3, X1, -Y1, Z1, p)",
  "...else",
  "....if B < 0",
  ".....(X3, Y3, Z3) = _add(X3, Y3, Z3, mAmB_X, mAmB_Y, mAmB_Z, p)",
  "....else",
  ".....assert B > 0",
  ".....(X3, Y3, Z3) = _add(X3, Y3, Z3, mApB_X, mApB_Y, mApB_Z, p)",
  "..else",
  "...assert A > 0",
  "...if B == 0",
  "....(X3, Y3, Z3) = _add(X3, Y3, Z3, X1, Y1, Z1, p)",
  "...else",
  "....if B < 0",
  ".....(X3, Y3, Z3) = _add(X3, Y3, Z3, pAmB_X, pAmB_Y, pAmB_Z, p)",
  "....else",
  ".....assert B > 0",
  ".....(X3, Y3, Z3) = _add(X3, Y3, Z3, pApB_X, pApB_Y, pApB_Z, p)",
  "if not Y3 or not Z3",
  ".return INFINITY",
  "return PointJacobi(self.__curve, X3, Y3, Z3, self.__order)"
]

def PJ_neg : List String := [
  "(x, y, z) = self.__coords",
  "return PointJacobi(self.__curve, x, -y % self.__curve.p(), z, self.__order)"
]

def Point_init : List String := [
  "self.__curve = curve",
  "if GMPY",
  ".self.__x = x and mpz(x)",
  ".self.__y = y and mpz(y)",
  ".self.__order = order and mpz(order)",
  "else",
  ".self.__x = x",
  ".self.__y = y",
  ".self.__order = order",
  "if self.__curve",
  ".assert self.__curve.contains_point(x, y)",
  "if curve and curve.cofactor() != 1 and order",
  ".assert self * order == INFINITY"
]

def Point_eq : List String := [
  "if isinstance(other, Point)",
  ".return self.__curve == other.__curve and self.__x == other.__x and (self.__y == other.__y)",
  "return NotImplemented"
]

def Point_ne : List String := [
  "return not self == other"
]

def Point_neg : List String := [
  "if self == INFINITY",
  ".return INFINITY",
  "return Point(self.__curve, self.__x, self.__curve.p() - self.__y)"
]

def Point_add : List String := [
  "if not isinstance(other, Point)",
  ".return NotImplemented",
  "if other == INFINITY",
  ".return self",
  "if self == INFINITY",
  ".return other",
  "assert self.__curve == other.__curve",
  "if self.__x == other.__x",
  ".if (self.__y + other.__y) % self.__curve.p() == 0",
  "..return INFINITY",
  ".else",
  "..return self.double()",
  "p = self.__curve.p()",
  "l = (other.__y - self.__y) * numbertheory.inverse_mod(other.__x - self.__x, p) % p",
  "x3 = (l * l - self.__x - other.__x) % p",
  "y3 = (l * (self.__x - x3) - self.__y) % p",
  "return Point(self.__curve, x3, y3)"
]

def Point_mul : List String := [
  "def leftmost_bit(x)",
  ".assert x > 0",
  ".result = 1",
  ".while result <= x",
  "..result = 2 * result",
  ".return result // 2",
  "e = other",
  "if e == 0 or (self.__order and e % self.__order == 0)",
  ".return INFINITY",
  "if self == INFINITY",
  ".return INFINITY",
  "if e < 0",
  ".return -self * -e",
  "e3 = 3 * e",
  "negative_self = Point(self.__curve, self.__x, -self.__y % self.__curve.p(), self.__order)",
  "i = leftmost_bit(e3) // 2",
  "result = self",
  "while i > 1",
  ".result = result.double()",
  ".if e3 & i != 0 and e & i == 0",
  "..result = result + self",
  ".if e3 & i == 0 and e & i != 0",
  "..result = result + negative_self",
  ".i = i // 2",
  "return result"
]

def Point_rmul : List String := [
  "return self * other"
]

def Point_double : List String := [
  "if self == INFINITY",
  ".return INFINITY",
  "p = self.__curve.p()",
  "a = self.__curve.a()",
  "l = (3 * self.__x * self.__x + a) * numbertheory.inverse_mod(2 * self.__y, p) % p",
  "x3 = (l * l - 2 * self.__x) % p",
  "y3 = (l * (self.__x - x3) - self.__y) % p",
  "return Point(self.__curve, x3, y3)"
]

/-! ### the seven kernels (translated whole by gen_kernels.py; skeleton recorded for `C06t.Tie.skel_kernels`) -/

def K_double_with_z_1 : List String := [
  "(XX, YY) = (X1 * X1 % p, Y1 * Y1 % p)",
  "if not YY",
  ".return (0, 0, 1)",
  "YYYY = YY * YY % p",
  "S = 2 * ((X1 + YY) ** 2 - XX - YYYY) % p",
  "M = 3 * XX + a",
  "T = (M * M - 2 * S) % p",
  "Y3 = (M * (S - T) - 8 * YYYY) % p",
  "Z3 = 2 * Y1 % p",
  "return (T, Y3, Z3)"
]

def K_double : List String := [
  "if Z1 == 1",
  ".return self._double_with_z_1(X1, Y1, p, a)",
  "if not Y1 or not Z1",
  ".return (0, 0, 1)",
  "(XX, YY) = (X1 * X1 % p, Y1 * Y1 % p)",
  "if not YY",
  ".return (0, 0, 1)",
  "YYYY = YY * YY % p",
  "ZZ = Z1 * Z1 % p",
  "S = 2 * ((X1 + YY) ** 2 - XX - YYYY) % p",
  "M = (3 * XX + a * ZZ * ZZ) % p",
  "T = (M * M - 2 * S) % p",
  "Y3 = (M * (S - T) - 8 * YYYY) % p",
  "Z3 = ((Y1 + Z1) ** 2 - YY - ZZ) % p",
  "return (T, Y3, Z3)"
]

def K_add_with_z_1 : List String := [
  "H = X2 - X1",
  "HH = H * H",
  "I = 4 * HH % p",
  "J = H * I",
  "r = 2 * (Y2 - Y1)",
  "if not H % p and (not r % p)",
  ".return self._double_with_z_1(X1, Y1, p, self.__curve.a())",
  "V = X1 * I",
  "X3 = (r ** 2 - J - 2 * V) % p",
  "Y3 = (r * (V - X3) - 2 * Y1 * J) % p",
  "Z3 = 2 * H % p",
  "return (X3, Y3, Z3)"
]

def K_add_with_z_eq : List String := [
  "A = (X2 - X1) ** 2 % p",
  "B = X1 * A % p",
  "C = X2 * A",
  "D = (Y2 - Y1) ** 2 % p",
  "if not A and (not D)",
  ".return self._double(X1, Y1, Z1, p, self.__curve.a())",
  "X3 = (D - B - C) % p",
  "Y3 = ((Y2 - Y1) * (B - X3) - Y1 * (C - B)) % p",
  "Z3 = Z1 * (X2 - X1) % p",
  "return (X3, Y3, Z3)"
]

def K_add_with_z2_1 : List String := [
  "Z1Z1 = Z1 * Z1 % p",
  "(U2, S2) = (X2 * Z1Z1 % p, Y2 * Z1 * Z1Z1 % p)",
  "H = (U2 - X1) % p",
  "HH = H * H % p",
  "I = 4 * HH % p",
  "J = H * I",
  "r = 2 * (S2 - Y1) % p",
  "if not r and (not H)",
  ".return self._double_with_z_1(X2, Y2, p, self.__curve.a())",
  "V = X1 * I",
  "X3 = (r * r - J - 2 * V) % p",
  "Y3 = (r * (V - X3) - 2 * Y1 * J) % p",
  "Z3 = ((Z1 + H) ** 2 - Z1Z1 - HH) % p",
  "return (X3, Y3, Z3)"
]

def K_add_with_z_ne : List String := [
  "Z1Z1 = Z1 * Z1 % p",
  "Z2Z2 = Z2 * Z2 % p",
  "U1 = X1 * Z2Z2 % p",
  "U2 = X2 * Z1Z1 % p",
  "S1 = Y1 * Z2 * Z2Z2 % p",
  "S2 = Y2 * Z1 * Z1Z1 % p",
  "H = U2 - U1",
  "I = 4 * H * H % p",
  "J = H * I % p",
  "r = 2 * (S2 - S1) % p",
  "if not H and (not r)",
  ".return self._double(X1, Y1, Z1, p, self.__curve.a())",
  "V = U1 * I",
  "X3 = (r * r - J - 2 * V) % p",
  "Y3 = (r * (V - X3) - 2 * S1 * J) % p",
  "Z3 = ((Z1 + Z2) ** 2 - Z1Z1 - Z2Z2) * H % p",
  "return (X3, Y3, Z3)"
]

def K_add : List String := [
  "if not Y1 or not Z1",
  ".return (X2, Y2 % p, Z2)",
  "if not Y2 or not Z2",
  ".return (X1, Y1, Z1)",
  "if Z1 == Z2",
  ".if Z1 == 1",
  "..return self._add_with_z_1(X1, Y1, X2, Y2, p)",
  ".return self._add_with_z_eq(X1, Y1, Z1, X2, Y2, p)",
  "if Z1 == 1",
  ".return self._add_with_z2_1(X2, Y2, Z2, X1, Y1, p)",
  "if Z2 == 1",
  ".return self._add_with_z2_1(X1, Y1, Z1, X2, Y2, p)",
  "return self._add_with_z_ne(X1, Y1, Z1, X2, Y2, Z2, p)"
]

end Curve.Skel
