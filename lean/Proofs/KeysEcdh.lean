import Model.Ecdh
import Proofs.KeysPem
import Model.KeysWire
/-!
# Proofs.KeysEcdh — the key constructors of `Model/Ecdh.lean`'s `Env` instantiated with the loaders of `Model/Keys.lean`,
and totality of the six ECDH loaders

`Ecdh.Env` leaves `SigningKey.from_string/from_der/from_pem` and `VerifyingKey.from_string/from_der/from_pem` as
parameters.  `LoadersAreKeys E mkPt env` says that these six fields of `env` are the loaders of the Keys model (the
stored point being `mkPt curve x y`, whatever the point type of the environment is); `ecdhEnv` is such an environment
for any choice of the remaining fields (point operations, `generate`), and `ecdhEnv_loaders` is the instantiation
lemma.
-/
namespace KeysP
open Keys

variable {Pt Ent : Type}

def toVKey (mkPt : Curve → Nat → Nat → Pt) (k : Keys.VK) : Ecdh.VKey Curve Pt := ⟨k.curve, mkPt k.curve k.x k.y⟩
def toSKey (mkPt : Curve → Nat → Nat → Pt) (k : Keys.SK) : Ecdh.SKey Curve Pt := ⟨k.curve, k.d, toVKey mkPt k.vk⟩

/-- the six key-constructor fields of `env` are the Keys model's loaders -/
structure LoadersAreKeys (E : Ext) (mkPt : Curve → Nat → Nat → Pt) (env : Ecdh.Env Curve Pt Ent) : Prop where
  skFromString : ∀ c b, env.skFromString c b = (SK.fromString E c b).map (toSKey mkPt)
  skFromDer : ∀ b, env.skFromDer b = (SK.fromDer E b).map (toSKey mkPt)
  skFromPem : ∀ b, env.skFromPem b = (SK.fromPem E b).map (toSKey mkPt)
  vkFromString : ∀ c b, env.vkFromString c b = (VK.fromString E c b true).map (toVKey mkPt)
  vkFromDer : ∀ b, env.vkFromDer b = (VK.fromDer E b).map (toVKey mkPt)
  vkFromPem : ∀ b, env.vkFromPem b = (VK.fromPem E b).map (toVKey mkPt)

/-- an `Env` built on the Keys model; the point operations and `generate` are whatever the caller supplies -/
def ecdhEnv (E : Ext) (mkPt : Curve → Nat → Nat → Pt) (mul : Pt → Int → Res Pt) (isInf : Pt → Bool) (xOf : Pt → Res Int)
    (generate : Curve → Ent → Res (Ecdh.SKey Curve Pt)) : Ecdh.Env Curve Pt Ent where
  fieldP c := c.p
  mul := mul
  isInf := isInf
  xOf := xOf
  generate := generate
  skFromString c b := (SK.fromString E c b).map (toSKey mkPt)
  skFromDer b := (SK.fromDer E b).map (toSKey mkPt)
  skFromPem b := (SK.fromPem E b).map (toSKey mkPt)
  vkFromString c b := (VK.fromString E c b true).map (toVKey mkPt)
  vkFromDer b := (VK.fromDer E b).map (toVKey mkPt)
  vkFromPem b := (VK.fromPem E b).map (toVKey mkPt)

theorem ecdhEnv_loaders (E : Ext) (mkPt : Curve → Nat → Nat → Pt) (mul : Pt → Int → Res Pt) (isInf : Pt → Bool)
    (xOf : Pt → Res Int) (generate : Curve → Ent → Res (Ecdh.SKey Curve Pt)) :
    LoadersAreKeys E mkPt (ecdhEnv E mkPt mul isInf xOf generate) :=
  ⟨fun _ _ => rfl, fun _ => rfl, fun _ => rfl, fun _ _ => rfl, fun _ => rfl, fun _ => rfl⟩

/-- the environment the model driver runs (`ecdh_load` lines of the correspondence) is such an environment -/
theorem wireEnv_loaders (E : Ext) : LoadersAreKeys E (fun _ x y => (x, y)) (KeysWire.ecdhEnv E) :=
  ⟨fun _ _ => rfl, fun _ => rfl, fun _ => rfl, fun _ _ => rfl, fun _ => rfl, fun _ => rfl⟩

/-- documented failures of the ECDH loaders: those of the key loaders, plus `InvalidCurveError` -/
def EcdhDocumented (e : PyErr) : Prop := Documented e ∨ e = .invalidCurve

theorem loadPrivate_err (s : Ecdh.State Curve Pt) (sk : Ecdh.SKey Curve Pt) (e : PyErr)
    (h : (Ecdh.loadPrivate s sk).2 = .error e) : e = .invalidCurve := by
  unfold Ecdh.loadPrivate at h
  cases hc : s.curve with
  | none =>
    simp only [hc] at h
    split at h
    · injection h with h; exact h.symm
    · cases h
  | some c =>
    simp only [hc] at h
    split at h
    · injection h with h; exact h.symm
    · cases h

theorem loadPublic_err (s : Ecdh.State Curve Pt) (vk : Ecdh.VKey Curve Pt) (e : PyErr)
    (h : (Ecdh.loadPublic s vk).2 = .error e) : e = .invalidCurve := by
  unfold Ecdh.loadPublic at h
  cases hc : s.curve with
  | none =>
    simp only [hc] at h
    split at h
    · injection h with h; exact h.symm
    · cases h
  | some c =>
    simp only [hc] at h
    split at h
    · injection h with h; exact h.symm
    · cases h

/-- a constructor that fails only with documented errors, followed by the object loader -/
theorem viaLoader_err {K K' : Type} (s : Ecdh.State Curve Pt) (r : Res K') (f : K' → K)
    (load : Ecdh.State Curve Pt → K → Ecdh.State Curve Pt × Res (Ecdh.Out Curve Pt))
    (hr : ∀ e, r = .error e → Documented e) (hl : ∀ s k e, (load s k).2 = .error e → e = .invalidCurve) (e : PyErr)
    (h : (Ecdh.viaLoader s (r.map f) load).2 = .error e) : EcdhDocumented e := by
  cases r with
  | error e' =>
    simp only [Ecdh.viaLoader, Except.map] at h
    injection h with h; subst h
    exact Or.inl (hr _ rfl)
  | ok k =>
    simp only [Ecdh.viaLoader, Except.map] at h
    exact Or.inr (hl _ _ _ h)

/-- **the six ECDH loaders**: every failure is `UnexpectedDER`, `MalformedPointError`, `UnknownCurveError` or
`InvalidCurveError` — for the byte-string loaders when a curve of the table is set, for the DER / PEM loaders in
every state; `load_private_key_bytes` without a curve is `NoCurveError` -/
theorem ecdh_loaders_err (E : Ext) (hsq : ∀ c ∈ Gen.curveTable, SqrtSpec E.sqrtModP c.p)
    (hpub : ∀ c ∈ Gen.curveTable, PubSpec E c) (mkPt : Curve → Nat → Nat → Pt) (env : Ecdh.Env Curve Pt Ent)
    (hk : LoadersAreKeys E mkPt env) (s : Ecdh.State Curve Pt) (b : Bytes) (e : PyErr) :
    ((Ecdh.step env s (.loadPrivDer b)).2 = .error e → EcdhDocumented e) ∧
    ((Ecdh.step env s (.loadPrivPem b)).2 = .error e → EcdhDocumented e) ∧
    ((Ecdh.step env s (.loadPubDer b)).2 = .error e → EcdhDocumented e) ∧
    ((Ecdh.step env s (.loadPubPem b)).2 = .error e → EcdhDocumented e) ∧
    (∀ c, s.curve = some c → c ∈ Gen.curveTable →
      ((Ecdh.step env s (.loadPrivBytes b)).2 = .error e → EcdhDocumented e) ∧
      ((Ecdh.step env s (.loadPubBytes b)).2 = .error e → EcdhDocumented e)) ∧
    (s.curve = none → (Ecdh.step env s (.loadPrivBytes b)).2 = .error .noCurve) := by
  refine ⟨?_, ?_, ?_, ?_, ?_, ?_⟩
  · intro h
    simp only [Ecdh.step, hk.skFromDer] at h
    exact viaLoader_err s _ _ _ (fun e he => sk_fromDer_err E hpub b e he) loadPrivate_err e h
  · intro h
    simp only [Ecdh.step, hk.skFromPem] at h
    exact viaLoader_err s _ _ _ (fun e he => sk_fromPem_err E hpub b e he) loadPrivate_err e h
  · intro h
    simp only [Ecdh.step, hk.vkFromDer] at h
    exact viaLoader_err s _ _ _ (fun e he => vk_fromDer_err E hsq b e he) loadPublic_err e h
  · intro h
    simp only [Ecdh.step, hk.vkFromPem] at h
    exact viaLoader_err s _ _ _ (fun e he => vk_fromPem_err E hsq b e he) loadPublic_err e h
  · intro c hc hmem
    constructor
    · intro h
      simp only [Ecdh.step, hc, hk.skFromString] at h
      exact viaLoader_err s _ _ _
        (fun e he => Or.inr (Or.inl (sk_fromString_err E c (hpub c hmem) b e he))) loadPrivate_err e h
    · intro h
      simp only [Ecdh.step, hc, hk.vkFromString] at h
      have hp : 0 < c.p := table_p_pos c hmem
      exact viaLoader_err s _ _ _
        (fun e he => Or.inr (Or.inl (fromString_err E c hp (hsq c hmem) b true e he))) loadPublic_err e h
  · intro hc
    simp only [Ecdh.step, hc]

end KeysP
