import Proofs.Legacy
import Proofs.MulNaf
/-!
# Proofs.GroupObj0 — the object layer INCLUDING identity-valued `PointJacobi` objects

`PJRep` (Proofs/GroupObj.lean) describes the objects the library itself produces: a stored `PointJacobi` is never an
identity (results that are 0 are the INFINITY singleton).  The constructor, however, accepts `PointJacobi(c, 0, 0, 1)`,
`(x, y, 0)`, `(x, 0, z)` and the code treats them as the point at infinity ("Y = 0 or Z = 0").  `PJRep0` admits these
objects (reduced coordinates, `Rep` instead of `Good`); the theorems below extend `==` (after fix F13), `+`, `double`,
unary minus, `scale`, `to_affine` and `*` to them, so that C06's "including the identity" holds at object level for every
way the identity can be held, not only for INFINITY.
-/
namespace Jac
open WeierstrassCurve WeierstrassCurve.Jacobian Curve

variable {p : ℕ} [hp : Fact p.Prime] {a b : ℤ} {H : AddSubgroup (Grp (a : ZMod p) (b : ZMod p))}

/-- a stored `PointJacobi` value with reduced coordinates denoting `g`, the identity allowed (Y = 0 or Z = 0) -/
def PJRep0 (p : ℕ) [Fact p.Prime] (a b : ℤ) (H : AddSubgroup (Grp (a : ZMod p) (b : ZMod p)))
    (P : PJ) (g : Grp (a : ZMod p) (b : ZMod p)) : Prop :=
  OnCurve p a b P.curve ∧ InRange3 p (P.x, P.y, P.z) ∧
    Rep (a : ZMod p) (b : ZMod p) H (cast3 p (P.x, P.y, P.z)) g

/-- any point value denoting `g`, identity-valued `PointJacobi` objects included -/
def PtRep0 (p : ℕ) [Fact p.Prime] (a b : ℤ) (H : AddSubgroup (Grp (a : ZMod p) (b : ZMod p))) :
    Pt → Grp (a : ZMod p) (b : ZMod p) → Prop
  | .infinity, g => g = 0
  | .jac P, g => PJRep0 p a b H P g
  | .aff A, g => AffRep p a b H A g

theorem PJRep.rep0 {P : PJ} {g} (h : PJRep p a b H P g) : PJRep0 p a b H P g := ⟨h.1, h.2.1, h.2.2.rep⟩

theorem PtRep.rep0 {R : Pt} {g} (h : PtRep p a b H R g) : PtRep0 p a b H R g := by
  cases R with
  | infinity => exact h
  | jac P => exact PJRep.rep0 h
  | aff A => exact h

theorem PJRep0.irep {P : PJ} {g} (h : PJRep0 p a b H P g) : IRep p a b H (P.x, P.y, P.z) g :=
  ⟨h.2.1.2.1.zt, h.2.1.2.2.zt, h.2.2⟩

/-- an identity-valued object (the integer test the code makes) denotes 0; any other object is a `PJRep` -/
theorem PJRep0.cases {P : PJ} {g} (h : PJRep0 p a b H P g) :
    ((P.y = 0 ∨ P.z = 0) ∧ g = 0) ∨ (P.y ≠ 0 ∧ P.z ≠ 0 ∧ PJRep p a b H P g) := by
  by_cases hy : P.y = 0
  · exact Or.inl ⟨Or.inl hy, h.irep.eq_zero (Or.inl hy)⟩
  · by_cases hz : P.z = 0
    · exact Or.inl ⟨Or.inr hz, h.irep.eq_zero (Or.inr hz)⟩
    · exact Or.inr ⟨hy, hz, h.1, h.2.1, h.irep.good hy hz⟩

theorem PJRep0.mem {P : PJ} {g} (h : PJRep0 p a b H P g) : g ∈ H := h.2.2.1

/-- the identity-valued object built from reduced coordinates with Y = 0 or Z = 0 -/
theorem pjRep0_zero {P : PJ} (hc : OnCurve p a b P.curve) (hr : InRange3 p (P.x, P.y, P.z))
    (h0 : P.y = 0 ∨ P.z = 0) : PJRep0 p a b H P 0 :=
  ⟨hc, hr, rep_zero_of H (by rcases h0 with h0 | h0 <;> simp [cast3, h0])⟩

theorem PtRep0.cases {R : Pt} {g} (h : PtRep0 p a b H R g) :
    (g = 0 ∧ ptIsInf R = true) ∨ PtRep p a b H R g := by
  cases R with
  | infinity => exact Or.inr h
  | aff A => exact Or.inr h
  | jac P =>
    rcases PJRep0.cases h with ⟨h0, hg⟩ | ⟨_, _, hr⟩
    · refine Or.inl ⟨hg, ?_⟩
      rcases h0 with h0 | h0 <;> simp [ptIsInf, pjEqInf, h0]
    · exact Or.inr hr

theorem pjEqInf_iff0 {P : PJ} {g} (h : PJRep0 p a b H P g) : pjEqInf P = true ↔ g = 0 := by
  rcases h.cases with ⟨h0, hg⟩ | ⟨hy, hz, hr⟩
  · rcases h0 with h0 | h0 <;> simp [pjEqInf, h0, hg]
  · simp [pjEqInf, hy, hz, good_ne_zero hr.2.2]

/-- **`PointJacobi.__eq__` (after F13) on ALL objects**: identity-valued objects equal each other and INFINITY and
nothing else; otherwise equality of the denoted elements -/
theorem pjEq_iff0 (hH : NoOrder2 H) {P : PJ} {other : Pt} {g h}
    (hP : PJRep0 p a b H P g) (hQ : PtRep0 p a b H other h) : pjEq P other = true ↔ g = h := by
  rcases hP.cases with ⟨h0, rfl⟩ | ⟨hy, hz, hr⟩
  · -- `self` is identity-valued
    have hid : (P.y == 0 || P.z == 0) = true := by rcases h0 with h0 | h0 <;> simp [h0]
    cases other with
    | infinity =>
      have : h = 0 := hQ
      simp [pjEq, pjEqInf, hid, this]
    | jac Q =>
      have hc := hP.1.eqv (show OnCurve p a b Q.curve from hQ.1)
      rw [show pjEq P (.jac Q) = eqCoords P.curve.p P.x P.y P.z Q.x Q.y Q.z by simp [pjEq, hc]]
      have e : eqCoords P.curve.p P.x P.y P.z Q.x Q.y Q.z = pjEqInf Q := by
        simp only [Bool.or_eq_true, beq_iff_eq] at hid
        unfold eqCoords pjEqInf
        rcases hid with hid | hid <;> simp [hid]
      rw [e, pjEqInf_iff0 hQ]
      exact eq_comm
    | aff A =>
      have hc := hP.1.eqv (show OnCurve p a b A.curve from hQ.1)
      have hy2 := AffRep.y_ne hH hQ
      rw [show pjEq P (.aff A) = eqCoords P.curve.p P.x P.y P.z A.x A.y 1 by simp [pjEq, hc]]
      have e : eqCoords P.curve.p P.x P.y P.z A.x A.y 1 = false := by
        simp only [Bool.or_eq_true, beq_iff_eq] at hid
        unfold eqCoords
        rcases hid with hid | hid <;> simp [hid, hy2]
      rw [e]
      simp only [Bool.false_eq_true, false_iff]
      exact fun e0 => AffRep.ne_zero hQ e0.symm
  · -- `self` is a proper point
    rcases hQ.cases with ⟨rfl, hi⟩ | hQ'
    · have hg : g ≠ 0 := good_ne_zero hr.2.2
      cases other with
      | infinity => simp [pjEq, pjEqInf, hy, hz, hg]
      | aff A => simp [ptIsInf] at hi
      | jac Q =>
        have hc := hr.1.eqv (show OnCurve p a b Q.curve from hQ.1)
        simp only [ptIsInf, pjEqInf, Bool.or_eq_true, beq_iff_eq] at hi
        have : pjEq P (.jac Q) = false := by
          simp only [pjEq, hc, Bool.not_true, Bool.false_eq_true, if_false]
          unfold eqCoords
          rcases hi with hi | hi <;> simp [hi, hy, hz]
        simp [this, hg]
    · exact pjEq_iff hH hr hQ'

/-- **`P + Q` on ALL objects**: an identity-valued operand is passed over, the other operand is returned as it is -/
theorem pjAdd_correct0 (hp2 : p ≠ 2) (hH : NoOrder2 H) {P : PJ} {other : Pt} {g h}
    (hP : PJRep0 p a b H P g) (hQ : PtRep0 p a b H other h) :
    ∃ R, pjAdd P other = .ok R ∧ PtRep0 p a b H R (g + h) := by
  rcases hP.cases with ⟨h0, rfl⟩ | ⟨hy, hz, hr⟩
  · have hid : pjEqInf P = true := by rcases h0 with h0 | h0 <;> simp [pjEqInf, h0]
    exact ⟨other, by simp [pjAdd, pjEq, hid], by rwa [zero_add]⟩
  · rcases hQ.cases with ⟨rfl, hi⟩ | hQ'
    · refine ⟨.jac P, ?_, by rw [add_zero]; exact hr.rep0⟩
      have hn : pjEqInf P = false := pjEqInf_false hr
      cases other with
      | infinity => simp [pjAdd, pjEq, hn]
      | aff A => simp [ptIsInf] at hi
      | jac Q =>
        simp only [ptIsInf] at hi
        simp [pjAdd, pjEq, hn, hi]
    · obtain ⟨R, e, hR⟩ := pjAdd_correct hp2 hH hr hQ'
      exact ⟨R, e, hR.rep0⟩

/-- **`double()` on ALL objects** -/
theorem pjDouble_correct0 (hH : NoOrder2 H) {P : PJ} {g} (hP : PJRep0 p a b H P g) :
    PtRep p a b H (pjDouble P) (g + g) := by
  unfold pjDouble
  split_ifs with h0
  · simp only [beq_iff_eq] at h0
    rw [hP.irep.eq_zero (Or.inl h0), add_zero]; rfl
  · rw [hP.1.1, hP.1.2.1]
    exact coordsOut_rep hP.1 _ (k_double_correct hH hP.irep) (k_double_inRange _ _ _ _)

/-- **`-P` on ALL objects** -/
theorem pjNeg_correct0 {P : PJ} {g} (hP : PJRep0 p a b H P g) : PJRep0 p a b H (pjNeg P) (-g) := by
  refine ⟨hP.1, ⟨hP.2.1.1, ?_, hP.2.1.2.2⟩, ?_⟩
  · simp only [pjNeg, pmod, hP.1.1]; exact inRange_fmod _
  · have := rep_neg hP.2.2
    simp only [pjNeg, pmod, hP.1.1]
    convert this using 2
    simp [cast3]

/-- **`scale()` on ALL objects**: never raises (`inverse_mod(0, p)` is 0), Z becomes 1, same element -/
theorem pjScale_correct0 {P : PJ} {g} (hP : PJRep0 p a b H P g) :
    ∃ S, pjScale P = .ok S ∧ PJRep0 p a b H S g ∧ S.z = 1 ∧ S.curve = P.curve ∧ S.order = P.order ∧
      S.generator = P.generator := by
  rcases hP.cases with ⟨h0, rfl⟩ | ⟨_, _, hr⟩
  · by_cases hz1 : P.z = 1
    · exact ⟨P, by simp [pjScale, hz1], hP, hz1, rfl, rfl, rfl⟩
    · -- the inverse exists (or Z = 0 and `inverse_mod` returns 0); the new Y is 0 in both cases
      have hinv : ∃ zi, inverseMod P.z P.curve.p = .ok zi ∧ (P.y = 0 ∨ zi = 0) := by
        by_cases hz : P.z = 0
        · exact ⟨0, by simp [hz, inverseMod], Or.inr rfl⟩
        · have hy : P.y = 0 := h0.resolve_right hz
          have hzf : (P.z : ZMod p) ≠ 0 := hP.2.1.2.2.zt.ne hz
          obtain ⟨zi, hzi, _⟩ := InvMod.inverseMod_prime_cast p P.z hzf
          exact ⟨zi, by rw [hP.1.1]; exact hzi, Or.inl hy⟩
      obtain ⟨zi, hzi, hy0⟩ := hinv
      refine ⟨⟨P.curve, pmod (P.x * pmod (zi * zi) P.curve.p) P.curve.p,
        pmod (P.y * pmod (zi * zi) P.curve.p * zi) P.curve.p, 1, P.order, P.generator⟩,
        by simp only [pjScale, hz1, if_false, hzi]; rfl, ?_, rfl, rfl, rfl, rfl⟩
      have hY : pmod (P.y * pmod (zi * zi) P.curve.p * zi) P.curve.p = 0 := by
        rcases hy0 with h | h <;> simp [h, pmod]
      refine pjRep0_zero hP.1 ?_ (Or.inl hY)
      rw [hP.1.1]
      exact ⟨inRange_fmod _, by rw [← hP.1.1, hY]; exact inRange_zero, inRange_one⟩
  · obtain ⟨S, e, hS, r⟩ := pjScale_correct hr
    exact ⟨S, e, hS.rep0, r⟩

/-- **`to_affine()` on ALL objects**: INFINITY for an identity-valued object -/
theorem pjToAffine_correct0 {P : PJ} {g} (hP : PJRep0 p a b H P g) :
    ∃ R, pjToAffine P = .ok R ∧ PtRep p a b H R g := by
  rcases hP.cases with ⟨h0, rfl⟩ | ⟨_, _, hr⟩
  · refine ⟨.infinity, ?_, rfl⟩
    rcases h0 with h0 | h0 <;> simp [pjToAffine, h0]
  · obtain ⟨A, e, hA, _⟩ := pjToAffine_correct hr
    exact ⟨.aff A, e, hA⟩

/-- `+` on any two point values, identity-valued objects included -/
theorem ptAdd_correct0 (hp2 : p ≠ 2) (hH : NoOrder2 H) {A B : Pt} {g h}
    (hA : PtRep0 p a b H A g) (hB : PtRep0 p a b H B h) :
    ∃ R, ptAdd A B = .ok R ∧ PtRep0 p a b H R (g + h) := by
  cases A with
  | jac P => exact pjAdd_correct0 hp2 hH hA hB
  | infinity =>
    have : g = 0 := hA
    subst this
    cases B with
    | infinity => exact ⟨.infinity, rfl, by simpa [PtRep0] using hB⟩
    | aff Q => exact ⟨.aff Q, rfl, by rwa [zero_add]⟩
    | jac Q =>
      obtain ⟨R, e, hR⟩ := pjAdd_correct0 hp2 hH hB (show PtRep0 p a b H .infinity 0 from rfl)
      exact ⟨R, e, by rwa [add_comm] at hR⟩
  | aff P =>
    cases B with
    | jac Q =>
      obtain ⟨R, e, hR⟩ := pjAdd_correct0 hp2 hH hB (show PtRep0 p a b H (.aff P) g from hA)
      exact ⟨R, e, by rwa [add_comm] at hR⟩
    | infinity =>
      obtain ⟨R, e, hR⟩ := ptAdd_correct hp2 hH (show PtRep p a b H (.aff P) g from hA)
        (show PtRep p a b H .infinity h from hB)
      exact ⟨R, e, hR.rep0⟩
    | aff Q =>
      obtain ⟨R, e, hR⟩ := ptAdd_correct hp2 hH (show PtRep p a b H (.aff P) g from hA)
        (show PtRep p a b H (.aff Q) h from hB)
      exact ⟨R, e, hR.rep0⟩

/-- `==` on any two point values, identity-valued objects included -/
theorem ptEq_iff0 (hH : NoOrder2 H) {A B : Pt} {g h}
    (hA : PtRep0 p a b H A g) (hB : PtRep0 p a b H B h) : ptEq A B = true ↔ g = h := by
  cases A with
  | jac P => exact pjEq_iff0 hH hA hB
  | infinity =>
    have : g = 0 := hA
    subst this
    cases B with
    | infinity => have : h = 0 := hB; simp [ptEq, this]
    | aff Q => simp only [ptEq, Bool.false_eq_true, false_iff]; exact fun e => AffRep.ne_zero hB e.symm
    | jac Q =>
      rw [show ptEq .infinity (.jac Q) = pjEq Q .infinity from rfl,
        pjEq_iff0 hH hB (show PtRep0 p a b H .infinity 0 from rfl)]
      exact eq_comm
  | aff P =>
    cases B with
    | jac Q =>
      rw [show ptEq (.aff P) (.jac Q) = pjEq Q (.aff P) from rfl,
        pjEq_iff0 hH hB (show PtRep0 p a b H (.aff P) g from hA)]
      exact eq_comm
    | infinity => exact ptEq_iff hH (show PtRep p a b H (.aff P) g from hA) (show PtRep p a b H .infinity h from hB)
    | aff Q => exact ptEq_iff hH (show PtRep p a b H (.aff P) g from hA) (show PtRep p a b H (.aff Q) h from hB)

/-- **`P * k` on ALL objects without a table** (NAF path): an identity-valued object gives INFINITY (k = 1: itself).
(A generator-flagged identity-valued object with Z = 0 raises AttributeError in `_maybe_precompute`: outside.) -/
theorem pjMul_naf_correct0 (hp2 : p ≠ 2) (hH : NoOrder2 H) {P : PJ} {g} (hP : PJRep0 p a b H P g)
    (hgen : P.generator = false) (ho : ∀ n, truthy P.order = some n → n • g = 0) (k : ℤ) :
    ∃ R, pjMulWith [] P k = .ok R ∧ PtRep0 p a b H R (k • g) := by
  unfold pjMulWith
  by_cases hy : P.y = 0
  · have : g = 0 := hP.irep.eq_zero (Or.inl hy)
    exact ⟨.infinity, by simp [hy], by simp [PtRep0, this]⟩
  by_cases hk0 : k = 0
  · subst hk0; exact ⟨.infinity, by simp, by simp [PtRep0]⟩
  by_cases hk1 : k = 1
  · subst hk1
    exact ⟨.jac P, by simp [hy], by simpa [PtRep0] using hP⟩
  have h0 : (P.y == 0 || k == 0) = false := by simp [hy, hk0]
  have h1 : (k == 1) = false := by simp [hk1]
  obtain ⟨S, hS, rS, zS, cS, oS, _⟩ := pjScale_correct0 hP
  simp only [h0, h1, Bool.false_eq_true, if_false, maybePrecompute, hgen, Bool.not_false, Bool.true_or,
    if_true, ok_bind, List.isEmpty_nil, Bool.not_true, hS]
  refine ⟨_, rfl, ?_⟩
  rw [← reduce_smul ho k]
  have hQ : IRep p a b H (S.x, S.y, 1) g := zS ▸ rS.irep
  have hl := Naf.evalNaf_naf_rel (AccRep p a b H) (mulNafStep p a S.x S.y) g (0, 0, 1)
    (fun t h d ht _ => mulNafStep_rep hp2 hH hQ rS.2.1.1 t h d ht) accRep_sentinel
    (match truthy P.order with
      | some o => pmod k (o * 2)
      | none => k)
  rw [rS.1.1, rS.1.2.1]
  exact (coordsOut_rep rS.1 _ hl.1 hl.2).rep0

end Jac
