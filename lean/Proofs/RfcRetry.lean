import Model.Rfc6979
/-!
# Proofs.RfcRetry — the retry loop of `sign_digest_deterministic`, and independence of all results from the fuel
-/
namespace Rfc
open Rfc6979

/-- a successful run of the retry loop: `m` nonces gave `RSZeroError`, the next one signed -/
theorem signDetLoop_ok {σ : Type} {genK : Int → Option (Res Nat)} {sign : Nat → Res σ} {fuel : Nat} {r0 : Int} {sig : σ}
    (h : signDetLoop genK sign fuel r0 = some (.ok sig)) :
    ∃ (m : Nat) (k : Nat), (∀ i : Nat, i < m → ∃ ki, genK (r0 + i) = some (.ok ki) ∧ sign ki = .error .rsZero) ∧
      genK (r0 + m) = some (.ok k) ∧ sign k = .ok sig := by
  induction fuel generalizing r0 with
  | zero => simp [signDetLoop] at h
  | succ f ih =>
    unfold signDetLoop at h
    split at h
    · cases h
    · cases h
    · rename_i k hk
      split at h
      · rename_i hs
        obtain ⟨m, k', hrej, hgen, hsig⟩ := ih h
        refine ⟨m + 1, k', ?_, ?_, hsig⟩
        · intro i hi
          cases i with
          | zero => exact ⟨k, by simpa using hk, hs⟩
          | succ i =>
            obtain ⟨ki, h1, h2⟩ := hrej i (by omega)
            refine ⟨ki, ?_, h2⟩
            rw [← h1]; congr 1; push_cast; omega
        · rw [← hgen]; congr 1; push_cast; omega
      · rename_i hns
        simp only [Option.some.injEq] at h
        exact ⟨0, k, fun i hi => absurd hi (by omega), by simpa using hk, h⟩

/-! ### fuel independence -/

theorem hLoop_mono (hmac : Bytes → Bytes → Bytes) (order qlen rolen : Nat) (fuel : Nat) :
    ∀ (K V : Bytes) (retry : Int) (r : Res Nat), hLoop hmac order qlen rolen fuel K V retry = some r →
      hLoop hmac order qlen rolen (fuel + 1) K V retry = some r := by
  induction fuel with
  | zero => intro K V retry r h; simp [hLoop] at h
  | succ f ih =>
    intro K V retry r h
    rw [hLoop] at h
    rw [hLoop]
    split
    · rename_i hn; rw [hn] at h; exact h
    · rename_i v t hs
      rw [hs] at h
      simp only at h ⊢
      split
      · rename_i e he; rw [he] at h; exact h
      · rename_i secret hb
        rw [hb] at h
        simp only at h ⊢
        split
        · rename_i hacc
          rw [if_pos hacc] at h
          split
          · rename_i hr; rw [if_pos hr] at h; exact h
          · rename_i hr; rw [if_neg hr] at h; exact ih _ _ _ _ h
        · rename_i hacc
          rw [if_neg hacc] at h
          exact ih _ _ _ _ h

theorem hLoop_mono_le (hmac : Bytes → Bytes → Bytes) (order qlen rolen : Nat) {a b : Nat} (hab : a ≤ b)
    (K V : Bytes) (retry : Int) (r : Res Nat) (h : hLoop hmac order qlen rolen a K V retry = some r) :
    hLoop hmac order qlen rolen b K V retry = some r := by
  induction hab with
  | refl => exact h
  | step _ ih => exact hLoop_mono _ _ _ _ _ _ _ _ _ ih

theorem generateK_mono_le (hmac : Bytes → Bytes → Bytes) (holen order secexp : Nat) (data : Bytes) (retry : Int) (extra : Bytes)
    {a b : Nat} (hab : a ≤ b) (r : Res Nat) (h : generateK hmac holen order secexp data retry extra a = some r) :
    generateK hmac holen order secexp data retry extra b = some r := by
  unfold generateK at h ⊢
  simp only at h ⊢
  split
  · rename_i e he; rw [he] at h; exact h
  · rename_i bx0 he
    rw [he] at h
    simp only at h ⊢
    split
    · rename_i e he1; rw [he1] at h; exact h
    · rename_i bx1 he1
      rw [he1] at h
      exact hLoop_mono_le _ _ _ _ hab _ _ _ _ h

theorem signDetLoop_mono {σ : Type} {genK genK' : Int → Option (Res Nat)} {sign : Nat → Res σ}
    (hg : ∀ retry r, genK retry = some r → genK' retry = some r) (fuel : Nat) :
    ∀ (fuel' : Nat) (r0 : Int) (r : Res σ), fuel ≤ fuel' → signDetLoop genK sign fuel r0 = some r →
      signDetLoop genK' sign fuel' r0 = some r := by
  induction fuel with
  | zero => intro fuel' r0 r _ h; simp [signDetLoop] at h
  | succ f ih =>
    intro fuel' r0 r hle h
    obtain ⟨f', rfl⟩ : ∃ f', fuel' = f' + 1 := ⟨fuel' - 1, by omega⟩
    rw [signDetLoop] at h
    rw [signDetLoop]
    cases hk : genK r0 with
    | none => rw [hk] at h; cases h
    | some rk =>
      rw [hk] at h
      rw [hg r0 rk hk]
      cases rk with
      | error e => exact h
      | ok k =>
        simp only at h ⊢
        split
        · rename_i hs
          rw [hs] at h
          exact ih f' _ _ (by omega) h
        · rename_i hns
          split at h
          · rename_i hs; exact absurd hs (by intro hh; exact hns hh)
          · exact h

end Rfc
