import Proofs.JacField
import Mathlib.Data.ZMod.Basic
import Mathlib.Algebra.Field.ZMod
import Generated.Kernels
/-!
# Proofs.JacCast — from the generated integer kernels (`Gen.k_*`, Python `%` = `Int.fmod`) to the field `ZMod p`
-/
namespace Jac
open WeierstrassCurve WeierstrassCurve.Jacobian

set_option linter.unusedSectionVars false
variable {p : ℕ} [hp : Fact p.Prime]

/-- the triple of residues of an integer triple -/
def cast3 (p : ℕ) (t : ℤ × ℤ × ℤ) : Fin 3 → ZMod p := ![(t.1 : ZMod p), (t.2.1 : ZMod p), (t.2.2 : ZMod p)]

theorem fmod_eq_emod (x : ℤ) : Int.fmod x (p : ℤ) = x % (p : ℤ) :=
  Int.fmod_eq_emod_of_nonneg _ (Int.natCast_nonneg p)

@[simp] theorem cast_fmod (x : ℤ) : ((Int.fmod x (p : ℤ) : ℤ) : ZMod p) = (x : ZMod p) := by
  rw [fmod_eq_emod, ZMod.intCast_mod]

theorem fmod_eq_zero_iff (x : ℤ) : Int.fmod x (p : ℤ) = 0 ↔ (x : ZMod p) = 0 := by
  rw [fmod_eq_emod, ZMod.intCast_zmod_eq_zero_iff_dvd, Int.dvd_iff_emod_eq_zero]

theorem fmod_eq_fmod_iff (x y : ℤ) : Int.fmod x (p : ℤ) = Int.fmod y (p : ℤ) ↔ (x : ZMod p) = (y : ZMod p) := by
  rw [fmod_eq_emod, fmod_eq_emod, ZMod.intCast_eq_intCast_iff]; rfl

theorem fmod_nonneg (x : ℤ) : 0 ≤ Int.fmod x (p : ℤ) := by
  rw [fmod_eq_emod]; exact Int.emod_nonneg _ (by exact_mod_cast hp.out.ne_zero)

theorem fmod_lt (x : ℤ) : Int.fmod x (p : ℤ) < p := by
  rw [fmod_eq_emod]; exact Int.emod_lt_of_pos _ (by exact_mod_cast hp.out.pos)

/-- the integer zero test `not x` agrees with the field: true for every |x| < p -/
def ZT (p : ℕ) (x : ℤ) : Prop := (x : ZMod p) = 0 → x = 0

theorem zt_of_range {x : ℤ} (h1 : -(p : ℤ) < x) (h2 : x < p) : ZT p x := by
  intro h
  rw [ZMod.intCast_zmod_eq_zero_iff_dvd] at h
  obtain ⟨k, rfl⟩ := h
  have : k = 0 := by
    by_contra hk
    rcases lt_or_gt_of_ne hk with hk | hk
    · have : (p : ℤ) * k ≤ (p : ℤ) * (-1) := Int.mul_le_mul_of_nonneg_left (by omega) (Int.natCast_nonneg p)
      omega
    · have : (p : ℤ) * 1 ≤ (p : ℤ) * k := Int.mul_le_mul_of_nonneg_left (by omega) (Int.natCast_nonneg p)
      omega
  simp [this]

theorem zt_fmod (x : ℤ) : ZT p (Int.fmod x (p : ℤ)) :=
  zt_of_range (by
    have := fmod_nonneg (p := p) x
    have : (0 : ℤ) < p := by exact_mod_cast hp.out.pos
    omega) (fmod_lt x)

theorem zt_neg {x : ℤ} (h : ZT p x) : ZT p (-x) := by
  intro h0; simp only [Int.cast_neg, neg_eq_zero] at h0; simp [h h0]

theorem ZT.ne {x : ℤ} (h : ZT p x) (hx : x ≠ 0) : (x : ZMod p) ≠ 0 := fun h0 => hx (h h0)


theorem two_ne_zero_of (hp2 : p ≠ 2) : (2 : ZMod p) ≠ 0 := by
  intro h
  have : ((2 : ℕ) : ZMod p) = 0 := by exact_mod_cast h
  rw [ZMod.natCast_eq_zero_iff] at this
  exact hp2 ((Nat.prime_dvd_prime_iff_eq hp.out Nat.prime_two).mp this)

/-- push casts through the integer text of a kernel -/
macro "kcast" loc:(Lean.Parser.Tactic.location)? : tactic => `(tactic|
  simp only [cast3, cast_fmod, Int.cast_sub, Int.cast_mul, Int.cast_pow, Int.cast_add, Int.cast_ofNat,
    Int.cast_neg, Int.cast_one, Int.cast_zero] $[$loc]?)

theorem k_add_with_z_ne_cases (h2 : (2 : ZMod p) ≠ 0) (X1 Y1 Z1 X2 Y2 Z2 a : ℤ) :
    (((X2 : ZMod p) * Z1 ^ 2 = X1 * Z2 ^ 2 ∧ (Y2 : ZMod p) * Z1 ^ 3 = Y1 * Z2 ^ 3) ∧
        Gen.k_add_with_z_ne X1 Y1 Z1 X2 Y2 Z2 p a = Gen.k_double X1 Y1 Z1 p a) ∨
    (¬((X2 : ZMod p) * Z1 ^ 2 = X1 * Z2 ^ 2 ∧ (Y2 : ZMod p) * Z1 ^ 3 = Y1 * Z2 ^ 3) ∧
        cast3 p (Gen.k_add_with_z_ne X1 Y1 Z1 X2 Y2 Z2 p a) = addNeF (X1 : ZMod p) Y1 Z1 X2 Y2 Z2 ∧
        ZT p (Gen.k_add_with_z_ne X1 Y1 Z1 X2 Y2 Z2 p a).2.1 ∧
        ZT p (Gen.k_add_with_z_ne X1 Y1 Z1 X2 Y2 Z2 p a).2.2) := by
  unfold Gen.k_add_with_z_ne
  simp only []
  split_ifs with h
  · left
    simp only [Bool.and_eq_true, decide_eq_true_eq, sub_eq_zero, fmod_eq_fmod_iff, fmod_eq_zero_iff] at h
    obtain ⟨hH, hr⟩ := h
    refine ⟨⟨?_, ?_⟩, rfl⟩
    · kcast at hH; linear_combination hH
    · kcast at hr
      rcases mul_eq_zero.mp hr with h | h
      · exact absurd h h2
      · linear_combination h
  · right
    simp only [Bool.and_eq_true, decide_eq_true_eq, sub_eq_zero, fmod_eq_fmod_iff, fmod_eq_zero_iff] at h
    refine ⟨?_, ?_, zt_fmod _, zt_fmod _⟩
    · rintro ⟨ex, ey⟩
      apply h
      constructor
      · kcast; linear_combination ex
      · kcast; linear_combination 2 * ey
    · kcast; simp only [addNeF]

theorem k_add_with_z_1_cases (h2 : (2 : ZMod p) ≠ 0) (X1 Y1 X2 Y2 a : ℤ) :
    (((X2 : ZMod p) = X1 ∧ (Y2 : ZMod p) = Y1) ∧
        Gen.k_add_with_z_1 X1 Y1 X2 Y2 p a = Gen.k_double_with_z_1 X1 Y1 p a) ∨
    (¬((X2 : ZMod p) = X1 ∧ (Y2 : ZMod p) = Y1) ∧
        cast3 p (Gen.k_add_with_z_1 X1 Y1 X2 Y2 p a) = addZ1F (X1 : ZMod p) Y1 X2 Y2 ∧
        ZT p (Gen.k_add_with_z_1 X1 Y1 X2 Y2 p a).2.1 ∧
        ZT p (Gen.k_add_with_z_1 X1 Y1 X2 Y2 p a).2.2) := by
  unfold Gen.k_add_with_z_1
  simp only []
  split_ifs with h
  · left
    simp only [Bool.and_eq_true, decide_eq_true_eq, fmod_eq_zero_iff] at h
    obtain ⟨hH, hr⟩ := h
    refine ⟨⟨?_, ?_⟩, rfl⟩
    · kcast at hH; linear_combination hH
    · kcast at hr
      rcases mul_eq_zero.mp hr with h | h
      · exact absurd h h2
      · linear_combination h
  · right
    simp only [Bool.and_eq_true, decide_eq_true_eq, fmod_eq_zero_iff] at h
    refine ⟨?_, ?_, zt_fmod _, zt_fmod _⟩
    · rintro ⟨ex, ey⟩
      apply h
      constructor
      · kcast; linear_combination ex
      · kcast; linear_combination 2 * ey
    · kcast; simp only [addZ1F]

theorem k_add_with_z_eq_cases (X1 Y1 Z1 X2 Y2 a : ℤ) :
    (((X2 : ZMod p) = X1 ∧ (Y2 : ZMod p) = Y1) ∧
        Gen.k_add_with_z_eq X1 Y1 Z1 X2 Y2 p a = Gen.k_double X1 Y1 Z1 p a) ∨
    (¬((X2 : ZMod p) = X1 ∧ (Y2 : ZMod p) = Y1) ∧
        cast3 p (Gen.k_add_with_z_eq X1 Y1 Z1 X2 Y2 p a) = addZeqF (X1 : ZMod p) Y1 Z1 X2 Y2 ∧
        ZT p (Gen.k_add_with_z_eq X1 Y1 Z1 X2 Y2 p a).2.1 ∧
        ZT p (Gen.k_add_with_z_eq X1 Y1 Z1 X2 Y2 p a).2.2) := by
  unfold Gen.k_add_with_z_eq
  simp only []
  split_ifs with h
  · left
    simp only [Bool.and_eq_true, decide_eq_true_eq, fmod_eq_zero_iff] at h
    obtain ⟨hA, hD⟩ := h
    refine ⟨⟨?_, ?_⟩, rfl⟩
    · kcast at hA; exact sub_eq_zero.mp (pow_eq_zero_iff (by norm_num) |>.mp hA)
    · kcast at hD; exact sub_eq_zero.mp (pow_eq_zero_iff (by norm_num) |>.mp hD)
  · right
    simp only [Bool.and_eq_true, decide_eq_true_eq, fmod_eq_zero_iff] at h
    refine ⟨?_, ?_, zt_fmod _, zt_fmod _⟩
    · rintro ⟨ex, ey⟩
      apply h
      constructor
      · kcast; rw [ex]; ring
      · kcast; rw [ey]; ring
    · kcast; simp only [addZeqF]

theorem k_add_with_z2_1_cases (h2 : (2 : ZMod p) ≠ 0) (X1 Y1 Z1 X2 Y2 a : ℤ) :
    (((X2 : ZMod p) * Z1 ^ 2 = X1 ∧ (Y2 : ZMod p) * Z1 ^ 3 = Y1) ∧
        Gen.k_add_with_z2_1 X1 Y1 Z1 X2 Y2 p a = Gen.k_double_with_z_1 X2 Y2 p a) ∨
    (¬((X2 : ZMod p) * Z1 ^ 2 = X1 ∧ (Y2 : ZMod p) * Z1 ^ 3 = Y1) ∧
        cast3 p (Gen.k_add_with_z2_1 X1 Y1 Z1 X2 Y2 p a) = addZ21F (X1 : ZMod p) Y1 Z1 X2 Y2 ∧
        ZT p (Gen.k_add_with_z2_1 X1 Y1 Z1 X2 Y2 p a).2.1 ∧
        ZT p (Gen.k_add_with_z2_1 X1 Y1 Z1 X2 Y2 p a).2.2) := by
  unfold Gen.k_add_with_z2_1
  simp only []
  split_ifs with h
  · left
    simp only [Bool.and_eq_true, decide_eq_true_eq, fmod_eq_zero_iff] at h
    obtain ⟨hr, hH⟩ := h
    refine ⟨⟨?_, ?_⟩, rfl⟩
    · kcast at hH; linear_combination hH
    · kcast at hr
      rcases mul_eq_zero.mp hr with h | h
      · exact absurd h h2
      · linear_combination h
  · right
    simp only [Bool.and_eq_true, decide_eq_true_eq, fmod_eq_zero_iff] at h
    refine ⟨?_, ?_, zt_fmod _, zt_fmod _⟩
    · rintro ⟨ex, ey⟩
      apply h
      constructor
      · kcast; linear_combination 2 * ey
      · kcast; linear_combination ex
    · kcast; simp only [addZ21F]

theorem k_double_with_z_1_cases (X1 Y1 a : ℤ) :
    ((Y1 : ZMod p) = 0 ∧ Gen.k_double_with_z_1 X1 Y1 p a = (0, 0, 1)) ∨
    ((Y1 : ZMod p) ≠ 0 ∧
        cast3 p (Gen.k_double_with_z_1 X1 Y1 p a) = dblZ1F (a : ZMod p) X1 Y1 ∧
        ZT p (Gen.k_double_with_z_1 X1 Y1 p a).2.1 ∧
        ZT p (Gen.k_double_with_z_1 X1 Y1 p a).2.2) := by
  unfold Gen.k_double_with_z_1
  simp only []
  split_ifs with h
  · left
    simp only [decide_eq_true_eq, fmod_eq_zero_iff] at h
    kcast at h
    exact ⟨mul_self_eq_zero.mp h, rfl⟩
  · right
    simp only [decide_eq_true_eq, fmod_eq_zero_iff] at h
    kcast at h
    refine ⟨fun h0 => h (by rw [h0]; ring), ?_, zt_fmod _, zt_fmod _⟩
    kcast; simp only [dblZ1F]

theorem k_double_z1 (X1 Y1 a : ℤ) (q : ℤ) : Gen.k_double X1 Y1 1 q a = Gen.k_double_with_z_1 X1 Y1 q a := by
  unfold Gen.k_double; simp

theorem k_double_cases (X1 Y1 Z1 a : ℤ) (hZ : Z1 ≠ 1) :
    ((Y1 = 0 ∨ Z1 = 0 ∨ (Y1 : ZMod p) = 0) ∧ Gen.k_double X1 Y1 Z1 p a = (0, 0, 1)) ∨
    (Y1 ≠ 0 ∧ Z1 ≠ 0 ∧ (Y1 : ZMod p) ≠ 0 ∧
        cast3 p (Gen.k_double X1 Y1 Z1 p a) = dblF (a : ZMod p) X1 Y1 Z1 ∧
        ZT p (Gen.k_double X1 Y1 Z1 p a).2.1 ∧
        ZT p (Gen.k_double X1 Y1 Z1 p a).2.2) := by
  unfold Gen.k_double
  simp only []
  rw [if_neg (by simpa using hZ)]
  split_ifs with h h'
  · left
    simp only [Bool.or_eq_true, decide_eq_true_eq] at h
    exact ⟨by tauto, rfl⟩
  · left
    simp only [decide_eq_true_eq, fmod_eq_zero_iff] at h'
    kcast at h'
    exact ⟨Or.inr (Or.inr (mul_self_eq_zero.mp h')), rfl⟩
  · right
    simp only [Bool.or_eq_true, decide_eq_true_eq, not_or] at h
    simp only [decide_eq_true_eq, fmod_eq_zero_iff] at h'
    kcast at h'
    refine ⟨h.1, h.2, fun h0 => h' (by rw [h0]; ring), ?_, zt_fmod _, zt_fmod _⟩
    kcast; simp only [dblF]

end Jac
