import Model.NumberTheory
import Mathlib.Data.Nat.GCD.Basic
import Mathlib.Data.Int.GCD
import Mathlib.Tactic.Ring
/-! gcd / lcm of any number of natural arguments (C16) -/
namespace NTProofs
open NT

/-- gcd of a list of naturals (0 for the empty list) -/
def gcdList (l : List Nat) : Nat := l.foldr Nat.gcd 0
/-- lcm of a list of naturals (1 for the empty list) -/
def lcmList (l : List Nat) : Nat := l.foldr Nat.lcm 1

theorem gcdList_dvd (l : List Nat) : ∀ x ∈ l, gcdList l ∣ x := by
  induction l with
  | nil => intro x hx; cases hx
  | cons a r ih =>
    intro x hx
    simp only [gcdList, List.foldr_cons] at *
    rcases List.mem_cons.mp hx with rfl | h
    · exact Nat.gcd_dvd_left _ _
    · exact Nat.dvd_trans (Nat.gcd_dvd_right _ _) (ih x h)

theorem dvd_gcdList (l : List Nat) (d : Nat) (h : ∀ x ∈ l, d ∣ x) : d ∣ gcdList l := by
  induction l with
  | nil => simp [gcdList]
  | cons a r ih =>
    simp only [gcdList, List.foldr_cons]
    exact Nat.dvd_gcd (h a (by simp)) (ih fun x hx => h x (by simp [hx]))

theorem dvd_lcmList (l : List Nat) : ∀ x ∈ l, x ∣ lcmList l := by
  induction l with
  | nil => intro x hx; cases hx
  | cons a r ih =>
    intro x hx
    simp only [lcmList, List.foldr_cons] at *
    rcases List.mem_cons.mp hx with rfl | h
    · exact Nat.dvd_lcm_left _ _
    · exact Nat.dvd_trans (ih x h) (Nat.dvd_lcm_right _ _)

theorem lcmList_dvd (l : List Nat) (m : Nat) (h : ∀ x ∈ l, x ∣ m) : lcmList l ∣ m := by
  induction l with
  | nil => simp [lcmList]
  | cons a r ih =>
    simp only [lcmList, List.foldr_cons]
    exact Nat.lcm_dvd (h a (by simp)) (ih fun x hx => h x (by simp [hx]))

theorem gcd2_nat (a b : Nat) : gcd2 a b = (Nat.gcd a b : Nat) := by
  simp [gcd2, Int.gcd_natCast_natCast]

theorem lcm2_nat (a b : Nat) : lcm2 a b = .ok ((Nat.lcm a b : Nat) : Int) := by
  unfold lcm2 Gen.NT.lcm2
  by_cases ha : a = 0
  · subst ha; simp
  by_cases hb : b = 0
  · subst hb; simp
  have ha' : ¬ ((a : Int) = 0) := by exact_mod_cast ha
  have hb' : ¬ ((b : Int) = 0) := by exact_mod_cast hb
  have hg : ¬ ((Nat.gcd a b : Nat) : Int) = 0 := by
    have := Nat.gcd_pos_of_pos_left b (Nat.pos_of_ne_zero ha); omega
  simp only [ha', hb', decide_false, Bool.or_self, Bool.false_eq_true, ↓reduceIte, gcd2_nat, hg]
  rw [Int.fdiv_eq_ediv_of_nonneg _ (Int.natCast_nonneg _)]
  rw [Nat.lcm]; push_cast; rfl

theorem foldl_gcd2 (r : List Nat) (x : Nat) :
    (r.map (Nat.cast : Nat → Int)).foldl gcd2 (x : Int) = ((Nat.gcd x (gcdList r) : Nat) : Int) := by
  induction r generalizing x with
  | nil => simp [gcdList]
  | cons a r ih =>
    simp only [List.map_cons, List.foldl_cons, gcd2_nat, ih, gcdList, List.foldr_cons, Nat.gcd_assoc]

theorem foldl_lcm2 (r : List Nat) (x : Nat) :
    (r.map (Nat.cast : Nat → Int)).foldlM lcm2 (x : Int) = .ok ((Nat.lcm x (lcmList r) : Nat) : Int) := by
  induction r generalizing x with
  | nil => simp [lcmList, pure, Except.pure]
  | cons a r ih =>
    simp only [List.map_cons, List.foldlM_cons, lcm2_nat, bind, Except.bind, ih, lcmList, List.foldr_cons, Nat.lcm_assoc]

/-- both calling conventions return the gcd of the list -/
theorem gcd_both (l : List Nat) (hl : l ≠ []) :
    NT.gcd (.sep (l.map Nat.cast)) = .ok ((gcdList l : Nat) : Int) ∧
    NT.gcd (.iter (l.map Nat.cast)) = .ok ((gcdList l : Nat) : Int) := by
  match l, hl with
  | [x], _ => simp [NT.gcd, dispatch, reduce1, gcdList]
  | x :: y :: r, _ =>
    have := foldl_gcd2 (y :: r) x
    simp only [List.map_cons] at this
    simp only [NT.gcd, dispatch, reduce1, List.map_cons, this, gcdList, List.foldr_cons, and_self]

theorem lcm_both (l : List Nat) (hl : l ≠ []) :
    NT.lcm (.sep (l.map Nat.cast)) = .ok ((lcmList l : Nat) : Int) ∧
    NT.lcm (.iter (l.map Nat.cast)) = .ok ((lcmList l : Nat) : Int) := by
  match l, hl with
  | [x], _ => simp [NT.lcm, reduce1E, lcmList, pure, Except.pure]
  | x :: y :: r, _ =>
    have := foldl_lcm2 (y :: r) x
    simp only [List.map_cons] at this
    simp only [NT.lcm, reduce1E, List.map_cons, this, lcmList, List.foldr_cons, and_self]

end NTProofs
