import Proofs.NTSmall16.C00
import Proofs.NTSmall16.C01
import Proofs.NTSmall16.C02
import Proofs.NTSmall16.C03
import Proofs.NTSmall16.C04
import Proofs.NTSmall16.C05
import Proofs.NTSmall16.C06
import Proofs.NTSmall16.C07
import Proofs.NTSmall16.C08
import Proofs.NTSmall16.C09
import Proofs.NTSmall16.C10
import Proofs.NTSmall16.C11
import Proofs.NTSmall16.C12
import Proofs.NTSmall16.C13
import Proofs.NTSmall16.C14
import Proofs.NTSmall16.C15
import Proofs.NTSmall16.C16
import Proofs.NTSmall16.C17
import Proofs.NTSmall16.C18
import Proofs.NTSmall16.C19
import Proofs.NTSmall16.C20
import Proofs.NTSmall16.C21
import Proofs.NTSmall16.C22
import Proofs.NTSmall16.C23
import Proofs.NTSmall16.C24
import Proofs.NTSmall16.C25
import Proofs.NTSmall16.C26
import Proofs.NTSmall16.C27
import Proofs.NTSmall16.C28
import Proofs.NTSmall16.C29
import Proofs.NTSmall16.C30
import Proofs.NTSmall16.C31
import Proofs.NTSmall16.C32
import Proofs.NTSmall16.C33
import Proofs.NTSmall16.C34
import Proofs.NTSmall16.C35
import Proofs.NTSmall16.C36
import Proofs.NTSmall16.C37
import Proofs.NTSmall16.C38
import Proofs.NTSmall16.C39
import Proofs.NTSmall16.C40
import Proofs.NTSmall16.C41
import Proofs.NTSmall16.C42
import Proofs.NTSmall16.C43
import Proofs.NTSmall16.C44
import Proofs.NTSmall16.C45
import Proofs.NTSmall16.C46
import Proofs.NTSmall16.C47
import Proofs.NTSmallExact
/-! `is_prime` is EXACT below 65536 = 2^16 — unconditionally (kernel evaluation of the model on (4096, 65536) in 48 chunks,
`Proofs/NTSmall16/C*`; below 4096: `Proofs/NTSmallExact`) -/
namespace NTSmall
open NT NTProofs

theorem goodC_all : GoodC 4096 65536 := (((((((((((((((((((((((((((((((((((((((((((((((goodC_00).trans goodC_01).trans goodC_02).trans goodC_03).trans goodC_04).trans goodC_05).trans goodC_06).trans goodC_07).trans goodC_08).trans goodC_09).trans goodC_10).trans goodC_11).trans goodC_12).trans goodC_13).trans goodC_14).trans goodC_15).trans goodC_16).trans goodC_17).trans goodC_18).trans goodC_19).trans goodC_20).trans goodC_21).trans goodC_22).trans goodC_23).trans goodC_24).trans goodC_25).trans goodC_26).trans goodC_27).trans goodC_28).trans goodC_29).trans goodC_30).trans goodC_31).trans goodC_32).trans goodC_33).trans goodC_34).trans goodC_35).trans goodC_36).trans goodC_37).trans goodC_38).trans goodC_39).trans goodC_40).trans goodC_41).trans goodC_42).trans goodC_43).trans goodC_44).trans goodC_45).trans goodC_46).trans goodC_47

theorem prime_lt_256 (q : Nat) (hq : q.Prime) (h : q < 256) :
    q ∈ [2, 3, 5, 7, 11, 13, 17, 19, 23, 29, 31, 37, 41, 43, 47, 53, 59, 61, 67, 71, 73, 79, 83, 89, 97, 101, 103, 107, 109, 113, 127, 131, 137, 139, 149, 151, 157, 163, 167, 173, 179, 181, 191, 193, 197, 199, 211, 223, 227, 229, 233, 239, 241, 251] := by
  have h2 := hq.two_le
  interval_cases q <;> first | decide | (exfalso; revert hq; norm_num)

theorem tdC_iff (n : Nat) (hn : n < 65536) : tdC n = true ↔ n.Prime := by
  constructor
  · intro h
    simp only [tdC, Bool.and_eq_true, decide_eq_true_eq, List.all_eq_true, Bool.or_eq_true, bne_iff_ne, ne_eq,
      beq_iff_eq] at h
    obtain ⟨h2, hall⟩ := h
    by_contra hnp
    have hq : (n.minFac).Prime := Nat.minFac_prime (by omega)
    have hsq : n.minFac * n.minFac ≤ n := by
      have := Nat.minFac_sq_le_self (by omega) hnp; simpa [sq] using this
    have hlt : n.minFac < 256 := by
      by_contra hge
      have := Nat.mul_le_mul (Nat.le_of_not_lt hge) (Nat.le_of_not_lt hge)
      omega
    rcases hall _ (prime_lt_256 _ hq hlt) with h | h
    · exact h (Nat.mod_eq_zero_of_dvd (Nat.minFac_dvd n))
    · exact hnp (h ▸ hq)
  · intro hp
    simp only [tdC, Bool.and_eq_true, decide_eq_true_eq, List.all_eq_true, Bool.or_eq_true, bne_iff_ne, ne_eq,
      beq_iff_eq]
    refine ⟨hp.two_le, fun d hd => ?_⟩
    by_cases hdv : n % d = 0
    · right
      rcases (Nat.dvd_prime hp).mp (Nat.dvd_of_mod_eq_zero hdv) with h | h
      · subst h; exact absurd hd (by decide)
      · exact h.symm
    · left; exact hdv

/-- **exact below 65536**, for every `lg` whose value is below 99 on the range (so that 40 rounds are run) -/
theorem isPrime_exact_below_65536 (lg : Int → Int) (n : Int) (hn : n < 65536) (hlg : lg n < 99) :
    ∃ b, isPrime lg n = .ok b ∧ (b = true ↔ 0 ≤ n ∧ n.toNat.Prime) := by
  by_cases hs : n < 4096
  · exact isPrime_exact_below_4096 lg n hs hlg
  · obtain ⟨N, rfl⟩ : ∃ N : Nat, n = N := ⟨n.toNat, by omega⟩
    have hc : isPrime lg N = isPrime (fun _ => 0) N := by
      apply isPrime_congr; rw [rounds_40 _ hlg, rounds_40 0 (by decide)]
    have hv : isPrime (fun _ => 0) (N : Int) = .ok (tdC N) := goodC_all N (by omega) (by omega)
    refine ⟨tdC N, hc.trans hv, ?_⟩
    rw [tdC_iff N (by omega)]
    simp

end NTSmall
