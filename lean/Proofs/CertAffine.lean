import Proofs.JacField
import Proofs.JacCast
import Mathlib.Data.Nat.Log
/-!
# Proofs.CertAffine — a certified reference scalar multiplication, used to CHECK `n • ⟦G⟧ = 0` on the named curves

Jacobian double-and-add over ℤ mod p with Mathlib's case distinction (`P ≈ Q` → `dblXYZ`, else `addXYZ`; `Z = 0` is the
only identity) — NOT the library's reading "Y = 0 or Z = 0 is the identity" — so it is equal to Mathlib's `+` / `•` on
`WeierstrassCurve.Affine.Point` with **no** hypothesis about points of order two (no N2T).  Structural recursion only,
so `decide +kernel` evaluates it on the generated curve constants (`Proofs/NamedCurves*.lean`).  It is a reference
computation, not a model of `ellipticcurve.py`; the formulas are the field-level `Jac.addNeF` / `Jac.dblF`
(= `_add_with_z_ne` / `_double`, already proved to be unit multiples of Mathlib's `addXYZ` / `dblXYZ`).
-/
namespace CertAff
open WeierstrassCurve WeierstrassCurve.Jacobian Jac

abbrev T3 := Int × Int × Int

/-- `Jac.dblF` over ℤ, reduced mod p -/
def dbl (p a : Int) (P : T3) : T3 :=
  let X1 := P.1; let Y1 := P.2.1; let Z1 := P.2.2
  let XX := X1 * X1 % p
  let YY := Y1 * Y1 % p
  let YYYY := YY * YY % p
  let ZZ := Z1 * Z1 % p
  let S := 2 * ((X1 + YY) ^ 2 - XX - YYYY) % p
  let M := (3 * XX + a * ZZ * ZZ) % p
  let T := (M * M - 2 * S) % p
  let Y3 := (M * (S - T) - 8 * YYYY) % p
  let Z3 := ((Y1 + Z1) ^ 2 - YY - ZZ) % p
  (T, Y3, Z3)

/-- `Jac.addNeF` over ℤ, reduced mod p -/
def addNe (p : Int) (P Q : T3) : T3 :=
  let X1 := P.1; let Y1 := P.2.1; let Z1 := P.2.2
  let X2 := Q.1; let Y2 := Q.2.1; let Z2 := Q.2.2
  let Z1Z1 := Z1 * Z1 % p
  let Z2Z2 := Z2 * Z2 % p
  let U1 := X1 * Z2Z2 % p
  let U2 := X2 * Z1Z1 % p
  let S1 := Y1 * Z2 * Z2Z2 % p
  let S2 := Y2 * Z1 * Z1Z1 % p
  let H := (U2 - U1) % p
  let I := 4 * H * H % p
  let J := H * I % p
  let r := 2 * (S2 - S1) % p
  let V := U1 * I % p
  let X3 := (r * r - J - 2 * V) % p
  let Y3 := (r * (V - X3) - 2 * S1 * J) % p
  let Z3 := ((Z1 + Z2) ^ 2 - Z1Z1 - Z2Z2) * H % p
  (X3, Y3, Z3)

/-- `P ≈ Q` for triples with Z ≠ 0, cross-multiplied -/
def equivB (p : Int) (P Q : T3) : Bool :=
  (P.1 * Q.2.2 ^ 2 - Q.1 * P.2.2 ^ 2) % p == 0 && (P.2.1 * Q.2.2 ^ 3 - Q.2.1 * P.2.2 ^ 3) % p == 0

def add (p a : Int) (P Q : T3) : T3 :=
  if P.2.2 % p = 0 then Q
  else if Q.2.2 % p = 0 then P
  else if equivB p P Q then dbl p a P
  else addNe p P Q

def mulAux (p a : Int) (P : T3) : Nat → Nat → T3
  | 0, _ => (1, 1, 0)
  | fuel+1, k =>
    if k = 0 then (1, 1, 0)
    else
      let d := dbl p a (mulAux p a P fuel (k / 2))
      if k % 2 = 1 then add p a d P else d

/-- `k • P` (as a Jacobian triple) -/
def mul (p a : Int) (k : Nat) (P : T3) : T3 := mulAux p a P (k.log2 + 1) k

/-- the check: `k • (x, y)` is the point at infinity -/
def mulIsZero (p a : Int) (k : Nat) (x y : Int) : Bool := (mul p a k (x, y, 1)).2.2 % p == 0


/-! ### correctness against Mathlib's group law -/

variable {p : ℕ} [hp : Fact p.Prime] {a b : ℤ}

/-- the triple is a nonsingular Jacobian representative (in MATHLIB's sense: only Z = 0 is the identity) of `g` -/
def Rep3 (p : ℕ) [Fact p.Prime] (a b : ℤ) (t : T3) (g : Grp (a : ZMod p) (b : ZMod p)) : Prop :=
  (shortW (a : ZMod p) (b : ZMod p)).Nonsingular (cast3 p t) ∧
    Point.toAffine (shortW (a : ZMod p) (b : ZMod p)) (cast3 p t) = g

theorem cast_dbl (t : T3) :
    cast3 p (dbl p a t) = dblF (a : ZMod p) (t.1 : ZMod p) (t.2.1 : ZMod p) (t.2.2 : ZMod p) := by
  ext i; fin_cases i <;> simp [cast3, dbl, dblF, ZMod.intCast_mod] <;> ring

theorem cast_addNe (P Q : T3) :
    cast3 p (addNe p P Q) =
      addNeF (P.1 : ZMod p) (P.2.1 : ZMod p) (P.2.2 : ZMod p) (Q.1 : ZMod p) (Q.2.1 : ZMod p) (Q.2.2 : ZMod p) := by
  ext i; fin_cases i <;> simp [cast3, addNe, addNeF, ZMod.intCast_mod] <;> ring

theorem cast3_eq (t : T3) : cast3 p t = ![(t.1 : ZMod p), (t.2.1 : ZMod p), (t.2.2 : ZMod p)] := rfl

theorem rep3_zero : Rep3 p a b (1, 1, 0) 0 := by
  have : cast3 p (1, 1, 0) = ![1, 1, 0] := by simp [cast3]
  unfold Rep3; rw [this]
  exact ⟨nonsingular_zero, Point.toAffine_zero⟩

theorem dbl_rep {t : T3} {g} (h : Rep3 p a b t g) : Rep3 p a b (dbl p a t) (g + g) := by
  obtain ⟨nP, rfl⟩ := h
  have e : cast3 p (dbl p a t) = (shortW (a : ZMod p) (b : ZMod p)).add (cast3 p t) (cast3 p t) := by
    rw [cast_dbl, dblF_eq (b := (b : ZMod p)), add_of_equiv (Setoid.refl _), cast3_eq]
  unfold Rep3
  rw [e]
  exact ⟨nonsingular_add nP nP, Point.toAffine_add nP nP⟩

theorem emod_zero_iff (x : ℤ) : x % (p : ℤ) = 0 ↔ (x : ZMod p) = 0 := by
  rw [ZMod.intCast_zmod_eq_zero_iff_dvd, Int.dvd_iff_emod_eq_zero]

theorem add_rep (hp2 : p ≠ 2) {P Q : T3} {g h} (hP : Rep3 p a b P g) (hQ : Rep3 p a b Q h) :
    Rep3 p a b (add p a P Q) (g + h) := by
  obtain ⟨nP, rfl⟩ := hP
  obtain ⟨nQ, rfl⟩ := hQ
  unfold add
  by_cases z1 : P.2.2 % (p : ℤ) = 0
  · rw [if_pos z1]
    have : (cast3 p P) 2 = 0 := (emod_zero_iff _).mp z1
    rw [Point.toAffine_of_Z_eq_zero this, zero_add]
    exact ⟨nQ, rfl⟩
  rw [if_neg z1]
  by_cases z2 : Q.2.2 % (p : ℤ) = 0
  · rw [if_pos z2]
    have : (cast3 p Q) 2 = 0 := (emod_zero_iff _).mp z2
    rw [Point.toAffine_of_Z_eq_zero this, add_zero]
    exact ⟨nP, rfl⟩
  rw [if_neg z2]
  have zP : (cast3 p P) 2 ≠ 0 := fun h0 => z1 ((emod_zero_iff _).mpr h0)
  have zQ : (cast3 p Q) 2 ≠ 0 := fun h0 => z2 ((emod_zero_iff _).mpr h0)
  have hcross : equivB p P Q = true ↔ cast3 p P ≈ cast3 p Q := by
    rw [equiv_iff_cross zP zQ]
    simp only [equivB, Bool.and_eq_true, beq_iff_eq, emod_zero_iff]
    simp only [cast3, Matrix.cons_val_zero, Matrix.cons_val_one, Matrix.cons_val_two, Matrix.head_cons,
      Matrix.tail_cons, Int.cast_sub, Int.cast_mul, Int.cast_pow, sub_eq_zero]
  by_cases he : equivB p P Q = true
  · rw [if_pos he]
    have heq := hcross.mp he
    have e : cast3 p (dbl p a P) = (shortW (a : ZMod p) (b : ZMod p)).add (cast3 p P) (cast3 p Q) := by
      rw [cast_dbl, dblF_eq (b := (b : ZMod p)), add_of_equiv heq, cast3_eq]
    unfold Rep3
    rw [e]
    exact ⟨nonsingular_add nP nQ, Point.toAffine_add nP nQ⟩
  · rw [if_neg he]
    have hne : ¬ cast3 p P ≈ cast3 p Q := fun h0 => he (hcross.mpr h0)
    have eP := ((nonsingular_iff _).mp nP).1
    have eQ := ((nonsingular_iff _).mp nQ).1
    rw [cast3_eq] at eP eQ
    have h2 : (2 : ZMod p) ≠ 0 := by
      intro h0
      have : ((2 : ℕ) : ZMod p) = 0 := by exact_mod_cast h0
      rw [ZMod.natCast_eq_zero_iff] at this
      have := Nat.le_of_dvd (by decide) this
      have := hp.out.two_le
      omega
    have hu : IsUnit (-2 * (P.2.2 : ZMod p) * (Q.2.2 : ZMod p)) :=
      IsUnit.mk0 _ (mul_ne_zero (mul_ne_zero (neg_ne_zero.mpr h2) zP) zQ)
    have e : cast3 p (addNe p P Q) =
        (-2 * (P.2.2 : ZMod p) * (Q.2.2 : ZMod p)) •
          (shortW (a : ZMod p) (b : ZMod p)).add (cast3 p P) (cast3 p Q) := by
      rw [cast_addNe, addNeF_eq_smul (a := (a : ZMod p)) (b := (b : ZMod p)) _ _ _ _ _ _ eP eQ, add_of_not_equiv hne,
        cast3_eq, cast3_eq]
    unfold Rep3
    rw [e, nonsingular_smul _ hu, Point.toAffine_smul _ hu]
    exact ⟨nonsingular_add nP nQ, Point.toAffine_add nP nQ⟩

theorem mulAux_rep (hp2 : p ≠ 2) {P : T3} {g} (hP : Rep3 p a b P g) : ∀ (fuel k : ℕ), k < 2 ^ fuel →
    Rep3 p a b (mulAux p a P fuel k) (k • g) := by
  intro fuel
  induction fuel with
  | zero =>
    intro k hk
    have : k = 0 := by simpa using hk
    subst this; rw [zero_smul]; exact rep3_zero
  | succ f ih =>
    intro k hk
    unfold mulAux
    by_cases h0 : k = 0
    · subst h0; rw [if_pos rfl, zero_smul]; exact rep3_zero
    · rw [if_neg h0]
      have hk2 : k / 2 < 2 ^ f := by rw [pow_succ] at hk; omega
      have hd := dbl_rep (ih (k / 2) hk2)
      by_cases hodd : k % 2 = 1
      · simp only [hodd, if_true]
        have := add_rep hp2 hd hP
        have e : k • g = (k / 2) • g + (k / 2) • g + g := by
          conv_lhs => rw [← Nat.div_add_mod k 2, hodd]
          rw [add_smul, mul_smul, two_smul, one_smul]
        rw [e]; exact this
      · have hev : k % 2 = 0 := by omega
        simp only [hev, show ¬ (0 = 1) by decide, if_false]
        have e : k • g = (k / 2) • g + (k / 2) • g := by
          conv_lhs => rw [← Nat.div_add_mod k 2, hev]
          rw [add_zero, mul_smul, two_smul]
        rw [e]; exact hd

/-- **soundness of the check**: if the reference multiplication says `k • (x, y) = ∞` then `k • ⟦(x, y)⟧ = 0` in
Mathlib's group -/
theorem mulIsZero_sound (hp2 : p ≠ 2) (x y : ℤ)
    (hns : (shortW (a : ZMod p) (b : ZMod p)).toAffine.Nonsingular (x : ZMod p) (y : ZMod p)) (k : ℕ)
    (h : mulIsZero p a k x y = true) :
    k • (Affine.Point.some _ _ hns : Grp (a : ZMod p) (b : ZMod p)) = 0 := by
  have hc : cast3 p (x, y, 1) = ![(x : ZMod p), (y : ZMod p), 1] := by simp [cast3]
  have hns3 : (shortW (a : ZMod p) (b : ZMod p)).Nonsingular ![(x : ZMod p), (y : ZMod p), 1] :=
    (nonsingular_some _ _).mpr hns
  have hP : Rep3 p a b (x, y, 1) (Affine.Point.some _ _ hns) := by
    unfold Rep3; rw [hc]; exact ⟨hns3, Point.toAffine_some hns3⟩
  have hlt : k < 2 ^ (k.log2 + 1) := by
    rw [Nat.log2_eq_log_two]; exact Nat.lt_pow_succ_log_self (by decide) k
  obtain ⟨_, hval⟩ := mulAux_rep hp2 hP (k.log2 + 1) k hlt
  rw [← hval]
  apply Point.toAffine_of_Z_eq_zero
  simp only [mulIsZero, beq_iff_eq, mul] at h
  exact (emod_zero_iff _).mp h

end CertAff
