import Proofs.GroupObj
import Proofs.Naf
/-!
# Proofs.MulTable — the generator table (`_maybe_precompute`) and `_mul_precompute`

* `precomputeTable_correct`: entry `j` of the table is the canonical affine pair of `2^j • g`; the table has `m + 1`
  entries with `m` minimal such that `4·o ≤ 2^m`;
* `mulPrecompute_correct`: the right-to-left signed-digit loop over such a table computes `k • g` for
  `0 ≤ k < 2^(L-1)`;
* `pjMul_table_correct`, `pjMulWith_table_correct`: `__mul__` of a generator point (fresh object / table already built).
-/
namespace Jac
open WeierstrassCurve WeierstrassCurve.Jacobian Curve

variable {p : ℕ} [hp : Fact p.Prime] {a b : ℤ} {H : AddSubgroup (Grp (a : ZMod p) (b : ZMod p))}

/-! ### N2T: doubling never reaches the identity -/

theorem NoOrder2.two_pow_smul_ne_zero (hH : NoOrder2 H) {g : Grp (a : ZMod p) (b : ZMod p)} (hg : g ∈ H)
    (hg0 : g ≠ 0) (j : ℕ) : (2 : ℤ) ^ j • g ≠ 0 := by
  induction j with
  | zero => simpa using hg0
  | succ j ih =>
    intro h
    apply ih
    apply hH _ (H.zsmul_mem hg _)
    rw [← h, pow_succ, mul_comm, mul_smul, two_smul]

theorem two_pow_succ_smul (g : Grp (a : ZMod p) (b : ZMod p)) (j : ℕ) :
    (2 : ℤ) ^ (j + 1) • g = (2 : ℤ) ^ j • g + (2 : ℤ) ^ j • g := by
  rw [pow_succ, mul_comm, mul_smul, two_smul]

/-! ### table entries -/

/-- a table entry `(x, y)` is the canonical affine pair of `t ∈ H` -/
def EntryRep (p : ℕ) [Fact p.Prime] (a b : ℤ) (H : AddSubgroup (Grp (a : ZMod p) (b : ZMod p)))
    (e : ℤ × ℤ) (t : Grp (a : ZMod p) (b : ZMod p)) : Prop :=
  InRange p e.1 ∧ InRange p e.2 ∧ t ∈ H ∧
    ∃ hn : (shortW (a : ZMod p) (b : ZMod p)).toAffine.Nonsingular (e.1 : ZMod p) (e.2 : ZMod p),
      Affine.Point.some _ _ hn = t

/-- `(x(), y())` of a stored point is its table entry -/
theorem entryRep_of_pj {P : PJ} {g} (hP : PJRep p a b H P g) :
    ∃ x y, pjX P = .ok x ∧ pjY P = .ok y ∧ EntryRep p a b H (x, y) g := by
  obtain ⟨x, y, hx, hy, rx, ry, hn, e⟩ := pjXY_correct hP
  exact ⟨x, y, hx, hy, rx, ry, hP.mem, hn, e.symm⟩

/-- `double()` of a stored point whose double is not the identity is a stored point -/
theorem pjDouble_jac (hH : NoOrder2 H) {P : PJ} {g} (hP : PJRep p a b H P g) (hne : g + g ≠ 0) :
    ∃ D, pjDouble P = .jac D ∧ PJRep p a b H D (g + g) := by
  have h := pjDouble_correct hH hP
  cases hD : pjDouble P with
  | infinity => rw [hD] at h; exact absurd h hne
  | jac D => rw [hD] at h; exact ⟨D, rfl, h⟩
  | aff A =>
    exfalso
    unfold pjDouble coordsOut at hD
    split_ifs at hD

/-- invariant of the `while i < order:` loop of `_maybe_precompute` -/
theorem tableLoop_correct (hH : NoOrder2 H) {g : Grp (a : ZMod p) (b : ZMod p)} (hg : g ∈ H) (hg0 : g ≠ 0)
    (bound : ℤ) (n : ℕ) :
    ∀ (i : ℤ) (hi : 0 < i) (doubler : PJ) (acc : List (ℤ × ℤ)) (j : ℕ), (bound - i).toNat = n → i = 2 ^ j →
      PJRep p a b H doubler ((2 : ℤ) ^ j • g) → acc.length = j + 1 →
      (∀ r (hr : r < acc.length), EntryRep p a b H acc[r] ((2 : ℤ) ^ r • g)) →
      ∃ table, tableLoop bound i hi doubler acc = .ok table ∧
        (∀ r (hr : r < table.length), EntryRep p a b H table[r] ((2 : ℤ) ^ r • g)) ∧
        ∃ m : ℕ, table.length = m + 1 ∧ bound ≤ 2 ^ m ∧ j ≤ m ∧ (j < m → 2 ^ (m - 1) < bound) := by
  induction n using Nat.strong_induction_on with
  | _ n ih =>
    intro i hi doubler acc j hn hij hD hlen hE
    rw [tableLoop]
    by_cases hlt : i < bound
    · simp only [hlt, dite_true]
      have hne : (2 : ℤ) ^ j • g + (2 : ℤ) ^ j • g ≠ 0 := by
        rw [← two_pow_succ_smul]; exact hH.two_pow_smul_ne_zero hg hg0 _
      obtain ⟨D, hDe, rD⟩ := pjDouble_jac hH hD hne
      obtain ⟨S, hS, rS, -⟩ := pjScale_correct rD
      obtain ⟨x, y, hx, hy, rE⟩ := entryRep_of_pj rS
      rw [← two_pow_succ_smul] at rS rE
      simp only [hDe, hS, hx, hy, ok_bind]
      obtain ⟨table, ht, hT, m, hm, hb, hjm, hmin⟩ :=
        ih (bound - i * 2).toNat (by omega) (i * 2) (by omega) S (acc ++ [(x, y)]) (j + 1) rfl
          (by rw [hij, pow_succ]) rS (by simp [hlen]) (by
            intro r hr
            by_cases hr' : r < acc.length
            · rw [List.getElem_append_left hr']; exact hE r hr'
            · have : r = j + 1 := by simp at hr; omega
              subst this
              rw [List.getElem_append_right (by omega)]
              simpa [hlen] using rE)
      refine ⟨table, ht, hT, m, hm, hb, by omega, fun _ => ?_⟩
      rcases Nat.lt_or_ge (j + 1) m with h | h
      · exact hmin h
      · have : m - 1 = j := by omega
        rw [this, ← hij]; exact hlt
    · simp only [hlt, dite_false]
      exact ⟨acc, rfl, hE, j, hlen, by rw [← hij]; omega, le_refl _, fun h => absurd h (lt_irrefl _)⟩

/-- **`table_correct`** with minimality: the table `_maybe_precompute` builds for a generator point of declared order
`o > 0` has `m + 1` entries, `m` the least exponent with `4·o ≤ 2^m`, and entry `j` is the canonical affine pair of
`2^j • g` -/
theorem precomputeTable_correct_min (hH : NoOrder2 H) {P : PJ} {g} (hP : PJRep p a b H P g) {o : ℤ}
    (ho : truthy P.order = some o) (hpos : 0 < o) :
    ∃ table, precomputeTable P = .ok table ∧
      (∀ j (hj : j < table.length), EntryRep p a b H table[j] ((2 : ℤ) ^ j • g)) ∧
      ∃ m : ℕ, table.length = m + 1 ∧ 4 * o ≤ 2 ^ m ∧ 2 ^ (m - 1) < 4 * o := by
  have hd : PJRep p a b H ⟨P.curve, P.x, P.y, P.z, some (o * 2), false⟩ g := ⟨hP.1, hP.2.1, hP.2.2⟩
  obtain ⟨x, y, hx, hy, rE⟩ := entryRep_of_pj hd
  obtain ⟨table, ht, hT, m, hm, hb, -, hmin⟩ :=
    tableLoop_correct hH hP.mem (good_ne_zero hP.2.2) (o * 2 * 2) _ 1 (by decide)
      ⟨P.curve, P.x, P.y, P.z, some (o * 2), false⟩ [(x, y)] 0 rfl (by simp) (by simpa using hd) rfl (by
        intro r hr
        have : r = 0 := by simpa using hr
        subst this
        simpa using rE)
  refine ⟨table, ?_, hT, m, hm, by omega, ?_⟩
  · simp only [precomputeTable, ho, hx, hy, ok_bind]
    exact ht
  · have hm0 : 0 < m := by
      rcases m with _ | m
      · simp at hb; omega
      · omega
    have := hmin hm0
    omega

/-- **`table_correct`** -/
theorem precomputeTable_correct (hH : NoOrder2 H) {P : PJ} {g} (hP : PJRep p a b H P g) {o : ℤ}
    (ho : truthy P.order = some o) (hpos : 0 < o) :
    ∃ table, precomputeTable P = .ok table ∧
      (∀ j (hj : j < table.length), EntryRep p a b H table[j] ((2 : ℤ) ^ j • g)) ∧
      ∃ m : ℕ, table.length = m + 1 ∧ 4 * o ≤ 2 ^ m := by
  obtain ⟨table, ht, hT, m, hm, hb, -⟩ := precomputeTable_correct_min hH hP ho hpos
  exact ⟨table, ht, hT, m, hm, hb⟩

/-! ### `_mul_precompute` -/

/-- under N2T a table entry is a proper representation `(x, y, 1)` -/
theorem EntryRep.good (hH : NoOrder2 H) {e : ℤ × ℤ} {t} (h : EntryRep p a b H e t) :
    Good (a : ZMod p) (b : ZMod p) H (cast3 p (e.1, e.2, 1)) t :=
  AffRep.good hH (A := ⟨⟨p, a, b, none⟩, e.1, e.2, none⟩) ⟨⟨rfl, rfl, rfl⟩, h.1, h.2.1, h.2.2.1, h.2.2.2⟩

theorem EntryRep.irep (hH : NoOrder2 H) {e : ℤ × ℤ} {t} (h : EntryRep p a b H e t) :
    IRep p a b H (e.1, e.2, 1) t := ⟨h.2.1.zt, zt_one, (h.good hH).rep⟩

theorem EntryRep.irep_neg (hH : NoOrder2 H) {e : ℤ × ℤ} {t} (h : EntryRep p a b H e t) :
    IRep p a b H (e.1, -e.2, 1) (-t) := by
  refine ⟨zt_neg h.2.1.zt, zt_one, ?_⟩
  have := (good_neg (h.good hH)).rep
  convert this using 2
  simp [cast3]

/-- one iteration of the loop of `_mul_precompute` on represented values -/
theorem mulPrecomputeStep_rel (hp2 : p ≠ 2) (hH : NoOrder2 H) (st : ℤ × ℤ × ℤ × ℤ) (e : ℤ × ℤ)
    (h t : Grp (a : ZMod p) (b : ZMod p)) (hs : IRep p a b H st.2 h ∧ InRange3 p st.2)
    (ht : EntryRep p a b H e t) :
    IRep p a b H (mulPrecomputeStep p a st e).2 (h + (Naf.recStep st.1).1 • t) ∧
      InRange3 p (mulPrecomputeStep p a st e).2 := by
  rw [Naf.mulPrecomputeStep_snd]
  split_ifs with h1 h2
  · rw [h1, neg_smul, one_smul]
    exact ⟨k_add_correct hp2 hH hs.1 (ht.irep_neg hH), k_add_inRange _ _ hs.2 ht.1 inRange_one⟩
  · rw [h2, one_smul]
    exact ⟨k_add_correct hp2 hH hs.1 (ht.irep hH), k_add_inRange _ _ hs.2 ht.1 inRange_one⟩
  · have h0 : (Naf.recStep st.1).1 = 0 := by
      rcases (Naf.recStep_spec st.1).2.1 with h | h | h
      · exact absurd h h1
      · exact h
      · exact absurd h h2
    rw [h0, zero_smul, add_zero]
    exact hs

/-- `_mul_precompute` over a table of the canonical pairs of `2^j • g`, on any curve object with the parameters
(p, a, b) -/
theorem mulPrecompute_correct_of (hp2 : p ≠ 2) (hH : NoOrder2 H) {P : PJ} (hc : OnCurve p a b P.curve)
    {g : Grp (a : ZMod p) (b : ZMod p)} {table : List (ℤ × ℤ)}
    (hT : ∀ j (hj : j < table.length), EntryRep p a b H table[j] ((2 : ℤ) ^ j • g)) {k : ℤ} (h0 : 0 ≤ k)
    (hk : k < 2 ^ (table.length - 1)) (hL : 1 ≤ table.length) :
    PtRep p a b H (mulPrecompute P table k) (k • g) := by
  have := Naf.mulPrecompute_rel (fun acc h => IRep p a b H acc h ∧ InRange3 p acc) (EntryRep p a b H)
    (mulPrecomputeStep p a) g (Naf.mulPrecomputeStep_fst p a) (mulPrecomputeStep_rel hp2 hH) table hT k (0, 0, 1)
    ⟨irep_sentinel, inRange_zero, inRange_zero, inRange_one⟩ h0 hk hL
  unfold mulPrecompute
  simp only [hc.1, hc.2.1]
  exact coordsOut_rep hc _ this.2.1 this.2.2

/-- **`_mul_precompute`** -/
theorem mulPrecompute_correct (hp2 : p ≠ 2) (hH : NoOrder2 H) {P : PJ} {g} (hP : PJRep p a b H P g)
    {table : List (ℤ × ℤ)}
    (hT : ∀ j (hj : j < table.length), EntryRep p a b H table[j] ((2 : ℤ) ^ j • g)) {k : ℤ} (h0 : 0 ≤ k)
    (hk : k < 2 ^ (table.length - 1)) (hL : 1 ≤ table.length) :
    PtRep p a b H (mulPrecompute P table k) (k • g) :=
  mulPrecompute_correct_of hp2 hH hP.1 hT h0 hk hL

/-! ### `__mul__` of a generator point -/

/-- reducing the scalar modulo `2·o` does not change the multiple when `o • g = 0` -/
theorem pmod_two_order_smul {G : Type*} [AddCommGroup G] {g : G} {o : ℤ} (hog : o • g = 0) (k : ℤ) :
    pmod k (o * 2) • g = k • g := by
  unfold pmod
  rw [Int.fmod_def, sub_smul, mul_assoc, mul_smul, smul_comm, hog, smul_zero, sub_zero]

omit hp in
theorem pmod_two_order_range {o : ℤ} (hpos : 0 < o) (k : ℤ) : 0 ≤ pmod k (o * 2) ∧ pmod k (o * 2) < 2 * o := by
  unfold pmod
  rw [Int.fmod_eq_emod_of_nonneg _ (by omega)]
  constructor
  · exact Int.emod_nonneg _ (by omega)
  · have := Int.emod_lt_of_pos k (show 0 < o * 2 by omega)
    omega

/-- `__mul__` once `_maybe_precompute` has produced (or kept) a correct table -/
theorem pjMulWith_of_table (hp2 : p ≠ 2) (hH : NoOrder2 H) {P : PJ} {g} (hP : PJRep p a b H P g) {o : ℤ}
    (ho : truthy P.order = some o) (hpos : 0 < o) (hog : o • g = 0) {pre table : List (ℤ × ℤ)}
    (hmp : maybePrecompute P pre = .ok table)
    (hT : ∀ j (hj : j < table.length), EntryRep p a b H table[j] ((2 : ℤ) ^ j • g))
    (hlen : ∃ m : ℕ, table.length = m + 1 ∧ 4 * o ≤ 2 ^ m) (k : ℤ) (hk0 : k ≠ 0) (hk1 : k ≠ 1) :
    ∃ R, pjMulWith pre P k = .ok R ∧ PtRep p a b H R (k • g) := by
  obtain ⟨m, hm, hb⟩ := hlen
  have hy : (P.y == 0 || k == 0) = false := by simp [hP.y_ne, hk0]
  have h1 : (k == 1) = false := by simp [hk1]
  have hne : (!table.isEmpty) = true := by
    cases table with
    | nil => simp at hm
    | cons _ _ => rfl
  obtain ⟨hk'0, hk'1⟩ := pmod_two_order_range hpos k
  refine ⟨mulPrecompute P table (pmod k (o * 2)), ?_, ?_⟩
  · simp only [pjMulWith, hy, h1, ho, hmp, ok_bind, hne, Bool.false_eq_true, if_false, if_true]
  · rw [← pmod_two_order_smul hog k]
    refine mulPrecompute_correct hp2 hH hP hT hk'0 ?_ (by omega)
    rw [hm, Nat.add_sub_cancel]
    omega

/-- **`__mul__` of a generator point, table already built** (`pre` is the list `_maybe_precompute` left in the object) -/
theorem pjMulWith_table_correct (hp2 : p ≠ 2) (hH : NoOrder2 H) {P : PJ} {g} (hP : PJRep p a b H P g) {o : ℤ}
    (ho : truthy P.order = some o) (hpos : 0 < o) (hog : o • g = 0) {pre : List (ℤ × ℤ)}
    (hT : ∀ j (hj : j < pre.length), EntryRep p a b H pre[j] ((2 : ℤ) ^ j • g))
    (hlen : ∃ m : ℕ, pre.length = m + 1 ∧ 4 * o ≤ 2 ^ m) (k : ℤ) (hk0 : k ≠ 0) (hk1 : k ≠ 1) :
    ∃ R, pjMulWith pre P k = .ok R ∧ PtRep p a b H R (k • g) := by
  refine pjMulWith_of_table hp2 hH hP ho hpos hog ?_ hT hlen k hk0 hk1
  obtain ⟨m, hm, -⟩ := hlen
  cases pre with
  | nil => simp at hm
  | cons _ _ => simp [maybePrecompute]

/-- **`__mul__` of a generator point, fresh object**: the table is built, then `_mul_precompute` runs over it -/
theorem pjMul_table_correct (hp2 : p ≠ 2) (hH : NoOrder2 H) {P : PJ} {g} (hP : PJRep p a b H P g) {o : ℤ}
    (ho : truthy P.order = some o) (hpos : 0 < o) (hog : o • g = 0) (hgen : P.generator = true) (k : ℤ)
    (hk0 : k ≠ 0) (hk1 : k ≠ 1) : ∃ R, pjMulWith [] P k = .ok R ∧ PtRep p a b H R (k • g) := by
  obtain ⟨table, ht, hT, hlen⟩ := precomputeTable_correct hH hP ho hpos
  exact pjMulWith_of_table hp2 hH hP ho hpos hog (by simpa [maybePrecompute, hgen] using ht) hT hlen k hk0 hk1

/-- `P * k` on a fresh generator object -/
theorem pjMul_generator_correct (hp2 : p ≠ 2) (hH : NoOrder2 H) {P : PJ} {g} (hP : PJRep p a b H P g) {o : ℤ}
    (ho : truthy P.order = some o) (hpos : 0 < o) (hog : o • g = 0) (hgen : P.generator = true) (k : ℤ)
    (hk0 : k ≠ 0) (hk1 : k ≠ 1) : ∃ R, pjMul P k = .ok R ∧ PtRep p a b H R (k • g) :=
  pjMul_table_correct hp2 hH hP ho hpos hog hgen k hk0 hk1

/-! ### concrete instances of the integer side -/

example : pmod 17 (5 * 2) • (1 : ZMod 5) = (17 : ℤ) • (1 : ZMod 5) := pmod_two_order_smul (by decide) 17
example : 0 ≤ pmod (-3) (5 * 2) ∧ pmod (-3) (5 * 2) < 2 * 5 := pmod_two_order_range (by decide) (-3)
example : pmod (-3) (5 * 2) = 7 := by decide
-- declared order 7: the table has the entries 2^0 … 2^5 (4·7 = 28 ≤ 32, 16 < 28) and every reduced scalar k < 14 is
-- consumed by its 6 iterations
example : (4 : ℤ) * 7 ≤ 2 ^ 5 ∧ (2 : ℤ) ^ (5 - 1) < 4 * 7 := by decide
example : Naf.nafVal (Naf.recDigits 6 13) = 13 ∧ Naf.recRem 6 13 = 0 :=
  Naf.recDigits_sum_table 7 13 5 6 (by decide) (by decide) (by decide) (by decide)

end Jac
