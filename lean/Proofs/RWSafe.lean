import Proofs.RWSim
/-! # Proofs.RWSafe — consequences of the invariant: exclusion, reuse, no `RuntimeError` from `release` -/
set_option linter.unusedVariables false
namespace RW

theorem countP_le_one_unique {α : Type} (p : α → Bool) :
    ∀ (l : List α) (i j : Nat) (a b : α), l.countP p ≤ 1 → l[i]? = some a → l[j]? = some b →
      p a = true → p b = true → i = j
  | [], i, j, a, b, _, hi, _, _, _ => by simp at hi
  | x :: l, 0, 0, a, b, _, _, _, _, _ => rfl
  | x :: l, 0, j + 1, a, b, h, hi, hj, ha, hb => by
    simp only [List.getElem?_cons_zero, Option.some.injEq] at hi
    simp only [List.getElem?_cons_succ] at hj
    subst hi
    have : 0 < l.countP p := List.countP_pos_iff.mpr ⟨b, List.mem_of_getElem? hj, hb⟩
    simp only [List.countP_cons, ha, if_true] at h
    omega
  | x :: l, i + 1, 0, a, b, h, hi, hj, ha, hb => by
    simp only [List.getElem?_cons_zero, Option.some.injEq] at hj
    simp only [List.getElem?_cons_succ] at hi
    subst hj
    have : 0 < l.countP p := List.countP_pos_iff.mpr ⟨a, List.mem_of_getElem? hi, ha⟩
    simp only [List.countP_cons, hb, if_true] at h
    omega
  | x :: l, i + 1, j + 1, a, b, h, hi, hj, ha, hb => by
    simp only [List.getElem?_cons_succ] at hi hj
    have h' : l.countP p ≤ 1 := by
      simp only [List.countP_cons] at h
      split at h <;> omega
    have := countP_le_one_unique p l i j a b h' hi hj ha hb
    omega

theorem acq_len_reader : (GP.acq .reader).length = 8 := by decide
theorem acq_len_writer : (GP.acq .writer).length = 5 := by decide

theorem insideAs_writer (t : Thread) : t.insideAs GP .writer = true ↔ t.pt = some (.writer, 5) := by
  simp [Thread.insideAs, acq_len_writer]
theorem insideAs_reader (t : Thread) : t.insideAs GP .reader = true ↔ t.pt = some (.reader, 8) := by
  simp [Thread.insideAs, acq_len_reader]

/-- counting level: at most one writer inside, and then no reader inside -/
theorem rinv_exclusive (s : CS) (h : RInv s) : s.cnt .writer 5 ≤ 1 ∧ (1 ≤ s.cnt .writer 5 → s.cnt .reader 8 = 0) := by
  simp only [RInv] at h; omega

/-- counting level: nobody holds anything ⇒ every mutex is free and both counters are 0 -/
theorem rinv_reusable (s : CS) (h : RInv s) (hr : ∀ k, s.cnt .reader (k + 1) = 0) (hw : ∀ k, s.cnt .writer (k + 1) = 0) :
    s.sh = ⟨0, 0, 0, 0, 0, 0, 0⟩ := by
  obtain ⟨sh, cnt⟩ := s
  obtain ⟨RQ, NR, NW, RM, WM, rc, wc⟩ := sh
  simp only at hr hw
  have r1 := hr 0; have r2 := hr 1; have r3 := hr 2; have r4 := hr 3; have r5 := hr 4; have r6 := hr 5
  have r7 := hr 6; have r8 := hr 7; have r9 := hr 8; have r10 := hr 9; have r11 := hr 10
  have w1 := hw 0; have w2 := hw 1; have w3 := hw 2; have w4 := hw 3; have w5 := hw 4; have w6 := hw 5
  have w7 := hw 6; have w8 := hw 7; have w9 := hw 8
  simp only [Nat.zero_add, Nat.reduceAdd] at r1 r2 r3 r4 r5 r6 r7 r8 r9 r10 r11 w1 w2 w3 w4 w5 w6 w7 w8 w9
  simp only [RInv] at h
  simp only [Shared.mk.injEq]
  omega

/-- counting level: the critical sections of a light-switch are exclusive — at most one thread is between `acq RM` and
`rel RM` (reader points 3, 4, 5 and 9, 10, 11: about to execute `inc rc` / `dec rc`, the `ifeq rc …` test, or the `rel RM`),
and then `RM` is held; the same for `wc` / `WM` (writer points 1, 2, 3 and 7, 8, 9).  These are the only instructions that
read or write the counter, hence `self.__counter += 1` (load, add, store) and the test that follows are free of data races
and may be modelled as atomic instructions. -/
theorem rinv_counter_exclusive (s : CS) (h : RInv s) :
    (s.cnt .reader 3 + s.cnt .reader 4 + s.cnt .reader 5 + s.cnt .reader 9 + s.cnt .reader 10 + s.cnt .reader 11 ≤ 1 ∧
      (1 ≤ s.cnt .reader 3 + s.cnt .reader 4 + s.cnt .reader 5 + s.cnt .reader 9 + s.cnt .reader 10 + s.cnt .reader 11 →
        s.sh.RM = 1)) ∧
    (s.cnt .writer 1 + s.cnt .writer 2 + s.cnt .writer 3 + s.cnt .writer 7 + s.cnt .writer 8 + s.cnt .writer 9 ≤ 1 ∧
      (1 ≤ s.cnt .writer 1 + s.cnt .writer 2 + s.cnt .writer 3 + s.cnt .writer 7 + s.cnt .writer 8 + s.cnt .writer 9 →
        s.sh.WM = 1)) := by
  simp only [RInv] at h; omega

/-! ### thread level -/

theorem writers_exclusive_thr {rs : List (List Role)} {c : Cfg} (h : Reach GP rs c) (i j : Nat) (ti tj : Thread)
    (hi : c.thr[i]? = some ti) (hj : c.thr[j]? = some tj) (hw : ti.insideAs GP .writer = true) :
    (tj.insideAs GP .writer = true → i = j) ∧ tj.insideAs GP .reader = false := by
  have hinv := rinv_exclusive _ (reach_rinv h)
  simp only [abs] at hinv
  rw [insideAs_writer] at hw
  have hpos : cntAt c.thr .writer 5 ≠ 0 := cntAt_ne_zero hi hw
  constructor
  · intro hw'
    rw [insideAs_writer] at hw'
    exact countP_le_one_unique _ c.thr i j ti tj hinv.1 hi hj (by simp [hw]) (by simp [hw'])
  · cases hr : tj.insideAs GP .reader with
    | false => rfl
    | true =>
      rw [insideAs_reader] at hr
      have := cntAt_ne_zero hj hr
      omega

theorem idle_cnt_zero {thr : List Thread} (h : ∀ t ∈ thr, t.idle = true) (r : Role) (k : Nat) :
    cntAt thr r (k + 1) = 0 := by
  unfold cntAt
  rw [List.countP_eq_zero]
  intro t ht
  have := h t ht
  obtain ⟨rounds, pc⟩ := t
  cases rounds with
  | nil => simp [Thread.pt]
  | cons r' rest =>
    simp only [Thread.idle, List.isEmpty_cons, Bool.or_false, decide_eq_true_eq] at this
    simp only [Thread.pt, decide_eq_true_eq, Option.some.injEq, Prod.mk.injEq, not_and]
    intro _; omega

theorem reusable_thr {rs : List (List Role)} {c : Cfg} (h : Reach GP rs c) (hidle : ∀ t ∈ c.thr, t.idle = true) :
    c.sh = ⟨0, 0, 0, 0, 0, 0, 0⟩ :=
  rinv_reusable (abs c) (reach_rinv h) (idle_cnt_zero hidle .reader) (idle_cnt_zero hidle .writer)

/-! ### `release` never raises: no reachable step has outcome `err` -/

theorem cstep_err {P : Progs} {r k nxt} {s : CS} (h : cstep P ⟨r, k, nxt⟩ s = .err) :
    s.cnt r k ≠ 0 ∧ ∃ ins, (P.round r)[k]? = some ins ∧ exec ins s.sh = .err := by
  unfold cstep at h
  split at h
  · cases h
  · rename_i hc
    refine ⟨hc, ?_⟩
    split at h
    · cases h
    · rename_i ins hins
      split at h
      · cases h
      · cases h
      · rename_i hex
        exact ⟨ins, hins, hex⟩

theorem exec_err (ins : Instr) (sh : Shared) : exec ins sh = .err ↔
    match ins with
    | .rel m => sh.mtx m = 0
    | .ifeq c k (.rel m) => sh.ctr c = k ∧ sh.mtx m = 0
    | _ => False := by
  cases ins with
  | acq m => simp only [exec, doAct]; split <;> simp
  | rel m => simp only [exec, doAct]; split <;> simp_all
  | inc c => simp [exec]
  | dec c => simp [exec]
  | ifeq c k a =>
    cases a <;> simp only [exec, doAct] <;> split <;> (try split) <;> simp_all

set_option hygiene false in
macro "rw_noerr " hs:ident : tactic => `(tactic| (
  intro $hs:ident
  obtain ⟨hc, ins, hins, hex⟩ := cstep_err $hs
  clear $hs
  simp only [GP, Gen.RW.progs, Progs.round, Progs.acq, Progs.rel, Gen.RW.reader_acquire, Gen.RW.reader_release,
    Gen.RW.writer_acquire, Gen.RW.writer_release, List.cons_append, List.nil_append, List.getElem?_cons_succ,
    List.getElem?_cons_zero, List.getElem?_nil, Option.some.injEq, reduceCtorEq] at hins
  subst hins
  simp only [exec_err] at hex
  try (
    simp only [RInv, Shared.ctr, Shared.mtx] at *
    omega)))

theorem noerr_r0 (s : CS) (nxt : Option Role) (h : RInv s) : cstep GP ⟨.reader, 0, nxt⟩ s ≠ .err := by
  rw_noerr hs
theorem noerr_r1 (s : CS) (nxt : Option Role) (h : RInv s) : cstep GP ⟨.reader, 1, nxt⟩ s ≠ .err := by
  rw_noerr hs
theorem noerr_r2 (s : CS) (nxt : Option Role) (h : RInv s) : cstep GP ⟨.reader, 2, nxt⟩ s ≠ .err := by
  rw_noerr hs
theorem noerr_r3 (s : CS) (nxt : Option Role) (h : RInv s) : cstep GP ⟨.reader, 3, nxt⟩ s ≠ .err := by
  rw_noerr hs
theorem noerr_r4 (s : CS) (nxt : Option Role) (h : RInv s) : cstep GP ⟨.reader, 4, nxt⟩ s ≠ .err := by
  rw_noerr hs
theorem noerr_r5 (s : CS) (nxt : Option Role) (h : RInv s) : cstep GP ⟨.reader, 5, nxt⟩ s ≠ .err := by
  rw_noerr hs
theorem noerr_r6 (s : CS) (nxt : Option Role) (h : RInv s) : cstep GP ⟨.reader, 6, nxt⟩ s ≠ .err := by
  rw_noerr hs
theorem noerr_r7 (s : CS) (nxt : Option Role) (h : RInv s) : cstep GP ⟨.reader, 7, nxt⟩ s ≠ .err := by
  rw_noerr hs
theorem noerr_r8 (s : CS) (nxt : Option Role) (h : RInv s) : cstep GP ⟨.reader, 8, nxt⟩ s ≠ .err := by
  rw_noerr hs
theorem noerr_r9 (s : CS) (nxt : Option Role) (h : RInv s) : cstep GP ⟨.reader, 9, nxt⟩ s ≠ .err := by
  rw_noerr hs
theorem noerr_r10 (s : CS) (nxt : Option Role) (h : RInv s) : cstep GP ⟨.reader, 10, nxt⟩ s ≠ .err := by
  rw_noerr hs
theorem noerr_r11 (s : CS) (nxt : Option Role) (h : RInv s) : cstep GP ⟨.reader, 11, nxt⟩ s ≠ .err := by
  rw_noerr hs
theorem noerr_w0 (s : CS) (nxt : Option Role) (h : RInv s) : cstep GP ⟨.writer, 0, nxt⟩ s ≠ .err := by
  rw_noerr hs
theorem noerr_w1 (s : CS) (nxt : Option Role) (h : RInv s) : cstep GP ⟨.writer, 1, nxt⟩ s ≠ .err := by
  rw_noerr hs
theorem noerr_w2 (s : CS) (nxt : Option Role) (h : RInv s) : cstep GP ⟨.writer, 2, nxt⟩ s ≠ .err := by
  rw_noerr hs
theorem noerr_w3 (s : CS) (nxt : Option Role) (h : RInv s) : cstep GP ⟨.writer, 3, nxt⟩ s ≠ .err := by
  rw_noerr hs
theorem noerr_w4 (s : CS) (nxt : Option Role) (h : RInv s) : cstep GP ⟨.writer, 4, nxt⟩ s ≠ .err := by
  rw_noerr hs
theorem noerr_w5 (s : CS) (nxt : Option Role) (h : RInv s) : cstep GP ⟨.writer, 5, nxt⟩ s ≠ .err := by
  rw_noerr hs
theorem noerr_w6 (s : CS) (nxt : Option Role) (h : RInv s) : cstep GP ⟨.writer, 6, nxt⟩ s ≠ .err := by
  rw_noerr hs
theorem noerr_w7 (s : CS) (nxt : Option Role) (h : RInv s) : cstep GP ⟨.writer, 7, nxt⟩ s ≠ .err := by
  rw_noerr hs
theorem noerr_w8 (s : CS) (nxt : Option Role) (h : RInv s) : cstep GP ⟨.writer, 8, nxt⟩ s ≠ .err := by
  rw_noerr hs
theorem noerr_w9 (s : CS) (nxt : Option Role) (h : RInv s) : cstep GP ⟨.writer, 9, nxt⟩ s ≠ .err := by
  rw_noerr hs

/-- counting level: no transition of the generated programs releases a free mutex -/
theorem rinv_no_err (l : Lbl) (s : CS) (h : RInv s) : cstep GP l s ≠ .err := by
  obtain ⟨r, k, nxt⟩ := l
  intro hs
  have hlen : k < (GP.round r).length := by
    obtain ⟨_, ins, hins, _⟩ := cstep_err hs
    exact (List.getElem?_eq_some_iff.mp hins).1
  cases r
  · rw [round_len_reader] at hlen
    rcases k with _|_|_|_|_|_|_|_|_|_|_|_|k
    · exact noerr_r0 s nxt h hs
    · exact noerr_r1 s nxt h hs
    · exact noerr_r2 s nxt h hs
    · exact noerr_r3 s nxt h hs
    · exact noerr_r4 s nxt h hs
    · exact noerr_r5 s nxt h hs
    · exact noerr_r6 s nxt h hs
    · exact noerr_r7 s nxt h hs
    · exact noerr_r8 s nxt h hs
    · exact noerr_r9 s nxt h hs
    · exact noerr_r10 s nxt h hs
    · exact noerr_r11 s nxt h hs
    · omega
  · rw [round_len_writer] at hlen
    rcases k with _|_|_|_|_|_|_|_|_|_|k
    · exact noerr_w0 s nxt h hs
    · exact noerr_w1 s nxt h hs
    · exact noerr_w2 s nxt h hs
    · exact noerr_w3 s nxt h hs
    · exact noerr_w4 s nxt h hs
    · exact noerr_w5 s nxt h hs
    · exact noerr_w6 s nxt h hs
    · exact noerr_w7 s nxt h hs
    · exact noerr_w8 s nxt h hs
    · exact noerr_w9 s nxt h hs
    · omega

theorem no_err_thr {rs : List (List Role)} {c : Cfg} (h : Reach GP rs c) (i : Nat) : ¬ (∃ x : Unit, tstep GP c i = .err) := by
  rintro ⟨_, he⟩
  cases ht : c.thr[i]? with
  | none => simp [tstep, ht] at he
  | some t =>
    cases hr : t.rounds with
    | nil => simp [tstep, ht, hr] at he
    | cons r rest =>
      have := sim_step GP c i t r rest ht hr
      rw [he] at this
      exact rinv_no_err _ _ (reach_rinv h) this

end RW
