import Proofs.DerEnc
import Proofs.DerOid
import Proofs.DerBits
/-!
# Proofs.DerSpec — an independent specification of DER (ITU-T X.690) as PREDICATES on octet strings, and the proof
that the readers of `Model/Der.lean` accept exactly what it describes and the encoders produce exactly that.

Nothing in namespace `X690` mentions an encoder (`encodeX`, `hexBytes`, `beMin`, `b128Digits`, …) or a reader of the
model: the predicates are written from the text of X.690 (07/2002 numbering):

* §8.1.3 length octets, definite form: short form = one octet, bit 8 = 0, bits 7–1 = the length (0…127);
  long form = initial octet with bit 8 = 1 and bits 7–1 = k (the number of subsequent octets), then k octets holding
  the length as an unsigned binary integer; §8.1.3.5 c: the initial octet `0xFF` shall not be used (k ≤ 126);
  §10.1 (DER): the definite form with the MINIMUM number of octets — short form whenever the length is ≤ 127,
  no leading zero octet in the long form;
* §8.3 INTEGER: contents = two's-complement binary, one or more octets, bits of the first octet and bit 8 of the second
  not all zero and not all ones (§8.3.2); a non-negative value has bit 8 of the first octet = 0;
* §8.19 OBJECT IDENTIFIER: contents = concatenation of sub-identifiers; each a series of octets, bit 8 = 1 on all but
  the last, bits 7–1 concatenated = the value, fewest octets: leading octet ≠ `0x80` (§8.19.2); first sub-identifier
  = 40·X + Y with X ∈ {0, 1, 2} and Y ≤ 39 when X < 2 (§8.19.4);
* §8.6 BIT STRING (primitive): initial octet = number of unused bits 0…7 (0 for an empty string), §11.2.1 (DER): the
  unused bits are zero;
* §8.7 OCTET STRING (primitive, tag 4), §8.9 SEQUENCE (constructed, identifier `0x30`), §8.1.2 identifier octet of a
  context-specific constructed type with tag number ≤ 30: `10 1 ttttt` = `0xA0 + t`.

The code deviates from the letter of X.690 in two unreachable corners, made explicit by the parameter `K` of
`IsLengthOctets` and by `ctxTagBound`: `read_length` also accepts the reserved initial octet `0xFF` (k = 127, a length
≥ 256^126) and `remove_constructed` reads identifier `0xBF` (X.690: "tag number follows in later octets") as tag 31.
`readLength_iff` etc. are stated with the bound the code has (127 / 31); `IsLengthOctets_126_of_lt` shows the X.690
bound holds for every length below 256^126.  Core Lean only.
-/
set_option linter.unusedSimpArgs false

namespace X690

/-- unsigned big-endian value of an octet string -/
def value : Bytes → Nat
  | [] => 0
  | b :: t => b.toNat * 256 ^ t.length + value t

/-- §8.1.3 + §10.1: `lo` are the DER length octets of the length `n` (`K` = largest number of subsequent octets
allowed: 126 in X.690) -/
def IsLengthOctets (K : Nat) (lo : Bytes) (n : Nat) : Prop :=
  (n < 128 ∧ lo = [UInt8.ofNat n]) ∨
  (128 ≤ n ∧ ∃ ds : Bytes, lo = UInt8.ofNat (128 + ds.length) :: ds ∧ ds.length ≤ K ∧ value ds = n
    ∧ ∃ d t, ds = d :: t ∧ d ≠ 0)

/-- a tag-length-value triple in DER followed by `rest`: identifier octet, DER length octets of the contents, contents -/
def IsTLV (K : Nat) (tag : UInt8) (s content rest : Bytes) : Prop :=
  ∃ lo, s = tag :: (lo ++ content ++ rest) ∧ IsLengthOctets K lo content.length

/-- §8.3: `c` are the contents octets of the non-negative INTEGER `v` -/
def IsIntegerContent (c : Bytes) (v : Nat) : Prop :=
  ∃ b t, c = b :: t ∧ b.toNat < 128 ∧ value c = v ∧ (∀ b2 t2, t = b2 :: t2 → ¬ (b = 0 ∧ b2.toNat < 128))

/-- value of a sub-identifier: bits 7–1 of the octets, concatenated -/
def value128 : Bytes → Nat
  | [] => 0
  | d :: t => (d.toNat % 128) * 128 ^ t.length + value128 t

/-- §8.19.2: `o` is the sub-identifier with value `n` -/
def IsSubId (o : Bytes) (n : Nat) : Prop :=
  ∃ hi last, o = hi ++ [last] ∧ (∀ d ∈ hi, 128 ≤ d.toNat) ∧ last.toNat < 128 ∧ value128 o = n
    ∧ (∀ d t, o = d :: t → d ≠ 0x80)

/-- a concatenation of sub-identifiers -/
def IsSubIds : Bytes → List Nat → Prop
  | c, [] => c = []
  | c, n :: ns => ∃ o c', c = o ++ c' ∧ IsSubId o n ∧ IsSubIds c' ns

/-- §8.19.4: contents octets of the OBJECT IDENTIFIER `arcs` -/
def IsOidContent (c : Bytes) (arcs : List Nat) : Prop :=
  ∃ x y rest, arcs = x :: y :: rest ∧ x ≤ 2 ∧ (x < 2 → y ≤ 39) ∧ IsSubIds c ((40 * x + y) :: rest)

/-- §8.6.2 + §11.2.1: contents octets of the BIT STRING `data` with `u` unused bits -/
def IsBitStringContent (c data : Bytes) (u : Nat) : Prop :=
  c = UInt8.ofNat u :: data ∧ u ≤ 7 ∧ (data = [] → u = 0) ∧ (∀ last, data.getLast? = some last → last.toNat % 2 ^ u = 0)

/-- §8.1.2: identifier octet of a context-specific (class bits `10`), constructed (bit 6 = 1) type with tag number `t` -/
def ctxConstructedId (t : Nat) : UInt8 := UInt8.ofNat (2 * 64 + 32 + t)

/-- X.690 allows tag numbers 0…30 in a single identifier octet; the code also reads `0xBF` as tag 31 -/
def ctxTagBound : Nat := 31

def IsDerInteger (s : Bytes) (v : Nat) (rest : Bytes) : Prop := ∃ c, IsTLV 127 0x02 s c rest ∧ IsIntegerContent c v
def IsDerOctetString (s body rest : Bytes) : Prop := IsTLV 127 0x04 s body rest
def IsDerSequence (s body rest : Bytes) : Prop := IsTLV 127 0x30 s body rest
def IsDerConstructed (s : Bytes) (t : Nat) (body rest : Bytes) : Prop :=
  t ≤ ctxTagBound ∧ IsTLV 127 (ctxConstructedId t) s body rest
def IsDerOid (s : Bytes) (arcs : List Nat) (rest : Bytes) : Prop := ∃ c, IsTLV 127 0x06 s c rest ∧ IsOidContent c arcs
def IsDerBitString (s data : Bytes) (u : Nat) (rest : Bytes) : Prop :=
  ∃ c, IsTLV 127 0x03 s c rest ∧ IsBitStringContent c data u

end X690

namespace Der
open X690

/-! ### values -/

theorem value_eq_beVal (s : Bytes) : value s = beVal s := by
  induction s with
  | nil => rfl
  | cons b t ih => rw [value, beVal_cons, ih]

theorem b128Fold_eq (acc : Nat) (s : Bytes) : b128Fold acc s = acc * 128 ^ s.length + value128 s := by
  induction s generalizing acc with
  | nil => simp [b128Fold_nil, value128]
  | cons d t ih =>
    have hb : ∀ b : UInt8, (b &&& 0x7F).toNat = b.toNat % 128 := by apply forall_u8; decide +kernel
    rw [b128Fold_cons, ih, value128, hb, List.length_cons, Nat.pow_succ, Nat.add_mul]
    simp only [Nat.mul_assoc, Nat.add_assoc, Nat.mul_comm 128]

theorem value128_eq_b128Val (s : Bytes) : value128 s = b128Val s := by
  have := b128Fold_eq 0 s
  simp only [Nat.zero_mul, Nat.zero_add] at this
  exact this.symm

/-! ### §8.1.3 length octets -/

theorem or80_eq (k : Nat) (h : k < 128) : 0x80 ||| k = 128 + k := by
  have : ∀ k : Fin 128, 0x80 ||| k.val = 128 + k.val := by decide +kernel
  exact this ⟨k, h⟩

theorem noLead0_of_head {d : UInt8} {t : Bytes} (h : d ≠ 0) : NoLead0 (d :: t) := by
  intro b t' hb; simp only [List.cons.injEq] at hb; rw [← hb.1]; exact h

/-- the specification determines the octets: they are the ones `encode_length` produces -/
theorem encodeLength_of_spec {K : Nat} {lo : Bytes} {n : Nat} (hK : K ≤ 127) (h : IsLengthOctets K lo n) :
    lo = encodeLength n ∧ n < 256 ^ 127 := by
  rcases h with ⟨h1, h2⟩ | ⟨h1, ds, h2, h3, h4, d, t, h5, h6⟩
  · exact ⟨by rw [h2, encodeLength_short n h1], Nat.lt_of_lt_of_le h1 pow127_ge⟩
  · have hno : NoLead0 ds := by rw [h5]; exact noLead0_of_head h6
    have hne : ds ≠ [] := by rw [h5]; simp
    rw [value_eq_beVal] at h4
    have hhex : hexBytes n = ds := by rw [← h4]; exact hexBytes_beVal ds hno hne
    have hlt : n < 256 ^ 127 := by
      rw [← h4]
      exact Nat.lt_of_lt_of_le (beVal_lt ds) (Nat.pow_le_pow_right (by decide) (by omega))
    refine ⟨?_, hlt⟩
    rw [encodeLength_long n h1, hhex, h2, or80_eq _ (by omega)]

/-- `encode_length` produces the DER length octets (with X.690's bound 126 for every length below 256^126) -/
theorem encodeLength_spec (n : Nat) (h : n < 256 ^ 127) : IsLengthOctets 127 (encodeLength n) n := by
  by_cases h1 : n < 128
  · exact Or.inl ⟨h1, encodeLength_short n h1⟩
  · right
    have hge : 128 ≤ n := by omega
    have hlen := hexBytes_length_le n 127 (by decide) h
    have hpos := hexBytes_pos n (by omega)
    have hne := hexBytes_ne_nil n
    refine ⟨hge, hexBytes n, ?_, hlen, ?_, ?_⟩
    · rw [encodeLength_long n hge, or80_eq _ (by omega)]
    · rw [value_eq_beVal, beVal_hexBytes]
    · match hm : hexBytes n, hne with
      | d :: t, _ =>
        refine ⟨d, t, rfl, ?_⟩
        have := beMin_noLead0 n
        rw [← hpos, hm] at this
        exact this d t rfl

theorem IsLengthOctets_126_of_lt {lo : Bytes} {n : Nat} (h : IsLengthOctets 127 lo n) (hn : n < 256 ^ 126) :
    IsLengthOctets 126 lo n := by
  rcases h with h | ⟨h1, ds, h2, h3, h4, d, t, h5, h6⟩
  · exact Or.inl h
  · refine Or.inr ⟨h1, ds, h2, ?_, h4, d, t, h5, h6⟩
    apply Nat.le_of_not_lt; intro hc
    have h127 : ds.length = 127 := by omega
    rw [value_eq_beVal, h5] at h4
    have := beVal_ge d t h6
    have ht : t.length = 126 := by rw [h5] at h127; simpa using h127
    rw [ht, h4] at this
    omega

/-- `read_length` accepts exactly a prefix that is a DER length field, and reports its value and size -/
theorem readLength_iff (s : Bytes) (n k : Nat) :
    readLength s = .ok (n, k) ↔ ∃ lo rest, s = lo ++ rest ∧ k = lo.length ∧ IsLengthOctets 127 lo n := by
  constructor
  · intro h
    obtain ⟨hl, hk, rest, hs⟩ := readLength_ok h
    exact ⟨encodeLength n, rest, hs, hk, encodeLength_spec n hl⟩
  · intro ⟨lo, rest, hs, hk, hsp⟩
    obtain ⟨rfl, hl⟩ := encodeLength_of_spec (Nat.le_refl _) hsp
    rw [hs, hk]
    exact readLength_encodeLength n hl rest

/-! ### TLV -/

theorem tlv_of_spec {tag : UInt8} {s content rest : Bytes} (h : IsTLV 127 tag s content rest) :
    s = tag :: (encodeLength content.length ++ content ++ rest) ∧ content.length < 256 ^ 127 := by
  obtain ⟨lo, hs, hsp⟩ := h
  obtain ⟨rfl, hl⟩ := encodeLength_of_spec (Nat.le_refl _) hsp
  exact ⟨hs, hl⟩

theorem tlv_spec (tag : UInt8) (content rest : Bytes) (h : content.length < 256 ^ 127) :
    IsTLV 127 tag (tag :: (encodeLength content.length ++ content ++ rest)) content rest :=
  ⟨encodeLength content.length, rfl, encodeLength_spec _ h⟩

/-! ### §8.7 OCTET STRING, §8.9 SEQUENCE, context-specific constructed -/

theorem removeOctetString_iff (s body rest : Bytes) :
    removeOctetString s = .ok (body, rest) ↔ IsDerOctetString s body rest := by
  constructor
  · intro h
    obtain ⟨hs, hl⟩ := removeOctetString_ok h
    rw [hs]; exact tlv_spec 0x04 body rest hl
  · intro h
    obtain ⟨hs, hl⟩ := tlv_of_spec h
    rw [hs]
    have := removeOctetString_encode body rest hl
    simpa [encodeOctetString] using this

theorem removeSequence_iff (s body rest : Bytes) :
    removeSequence s = .ok (body, rest) ↔ IsDerSequence s body rest := by
  constructor
  · intro h
    obtain ⟨hs, hl⟩ := removeSequence_ok h
    rw [hs]
    have := tlv_spec 0x30 body rest hl
    simpa [encodeSequence, IsDerSequence] using this
  · intro h
    obtain ⟨hs, hl⟩ := tlv_of_spec h
    rw [hs]
    have := removeSequence_encode [body] rest (by simpa using hl)
    simpa [encodeSequence] using this

theorem removeConstructed_iff (s : Bytes) (t : Nat) (body rest : Bytes) :
    removeConstructed s = .ok (t, body, rest) ↔ IsDerConstructed s t body rest := by
  unfold IsDerConstructed ctxTagBound ctxConstructedId
  constructor
  · intro h
    obtain ⟨hs, ht, hl⟩ := removeConstructed_ok h
    refine ⟨by omega, ?_⟩
    rw [hs]
    have := tlv_spec (UInt8.ofNat (0xA0 + t)) body rest hl
    simpa [encodeConstructed] using this
  · intro ⟨ht, h⟩
    obtain ⟨hs, hl⟩ := tlv_of_spec h
    rw [hs]
    have := removeConstructed_encode t body rest (by omega) hl
    simpa [encodeConstructed] using this

/-! ### §8.3 INTEGER -/

theorem integerContent_iff (c : Bytes) (v : Nat) : IsIntegerContent c v ↔ c = intBody v := by
  constructor
  · intro ⟨b, t, hc, hb, hv, hmin⟩
    rw [value_eq_beVal] at hv
    have hok : IntBodyOK c := by
      refine ⟨b, t, hc, ?_, ?_⟩
      · rw [u8_lt_iff]; exact hb
      · intro hb0 b2 t2 ht hlt
        exact hmin b2 t2 ht ⟨hb0, by rw [u8_lt_iff] at hlt; exact hlt⟩
    rw [← hv]; exact (intBody_beVal hok).symm
  · intro hc
    obtain ⟨⟨b, t, hb, h1, h2⟩, hv⟩ := intBody_ok v
    rw [hc]
    refine ⟨b, t, hb, ?_, ?_, ?_⟩
    · rw [u8_lt_iff] at h1; exact h1
    · rw [value_eq_beVal]; exact hv
    · intro b2 t2 ht ⟨hb0, hlt⟩
      exact h2 hb0 b2 t2 ht (by rw [u8_lt_iff]; exact hlt)

theorem removeInteger_iff (s : Bytes) (v : Nat) (rest : Bytes) :
    removeInteger s = .ok (v, rest) ↔ IsDerInteger s v rest := by
  constructor
  · intro h
    obtain ⟨hs, hl⟩ := removeInteger_ok h
    refine ⟨intBody v, ?_, (integerContent_iff _ _).mpr rfl⟩
    rw [hs]
    have := tlv_spec 0x02 (intBody v) rest hl
    simpa [encodeInteger] using this
  · intro ⟨c, htlv, hc⟩
    have hc' := (integerContent_iff c v).mp hc
    subst hc'
    obtain ⟨hs, hl⟩ := tlv_of_spec htlv
    rw [hs]
    have := removeInteger_encode v rest hl
    simpa [encodeInteger] using this

/-! ### §8.19 OBJECT IDENTIFIER -/

theorem u8_bit8 : ∀ d : UInt8, (d &&& 0x80 ≠ 0 ↔ 128 ≤ d.toNat) ∧ (d &&& 0x80 = 0 ↔ d.toNat < 128) := by
  apply forall_u8; decide +kernel

theorem value128_snoc (s : Bytes) (d : UInt8) : value128 (s ++ [d]) = value128 s * 128 + d.toNat % 128 := by
  have hb : ∀ b : UInt8, (b &&& 0x7F).toNat = b.toNat % 128 := by apply forall_u8; decide +kernel
  rw [value128_eq_b128Val, value128_eq_b128Val, b128Val_snoc, hb]

theorem subId_iff (o : Bytes) (n : Nat) : IsSubId o n ↔ o = encodeNumber n := by
  constructor
  · intro ⟨hi, last, ho, hhi, hlast, hv, hlead⟩
    subst ho
    rw [value128_snoc] at hv
    have hmod : last.toNat % 128 = last.toNat := Nat.mod_eq_of_lt hlast
    rw [hmod] at hv
    have h1 : n / 128 = b128Val hi := by rw [← value128_eq_b128Val]; omega
    have h2 : n % 128 = last.toNat := by omega
    have hc : AllCont hi := fun d hd => (u8_bit8 d).1.mpr (hhi d hd)
    have hl80 : NoLead80 hi := by
      intro d t hd; subst hd
      exact hlead d (t ++ [last]) (by simp)
    rw [encodeNumber_eq, h1, h2, b128Digits_b128Val hi hc hl80, UInt8.ofNat_toNat]
  · intro ho
    subst ho
    rw [encodeNumber_eq]
    have hk := u8_cont ⟨n % 128, by omega⟩
    simp only at hk
    refine ⟨b128Digits (n / 128), UInt8.ofNat (n % 128), rfl, ?_, ?_, ?_, ?_⟩
    · intro d hd; exact (u8_bit8 d).1.mp (allCont_b128Digits _ d hd)
    · rw [u8_ofNat_toNat _ (by omega)]; omega
    · rw [value128_snoc, value128_eq_b128Val, b128Val_b128Digits, u8_ofNat_toNat _ (by omega)]
      omega
    · intro d t hdt
      by_cases hq : n / 128 = 0
      · rw [hq, b128Digits_zero] at hdt
        simp only [List.nil_append, List.cons.injEq] at hdt
        rw [← hdt.1]; exact hk.2.2.2.2.2.2
      · have hne := b128Digits_ne_nil (n / 128) (by omega)
        match hm : b128Digits (n / 128), hne with
        | d' :: t', _ =>
          rw [hm] at hdt
          simp only [List.cons_append, List.cons.injEq] at hdt
          rw [← hdt.1]
          exact noLead80_b128Digits (n / 128) d' t' hm

theorem subIds_iff (c : Bytes) (ns : List Nat) : IsSubIds c ns ↔ c = encNums ns := by
  induction ns generalizing c with
  | nil => simp [IsSubIds, encNums_nil]
  | cons n ns ih =>
    simp only [IsSubIds, encNums_cons]
    constructor
    · intro ⟨o, c', hc, ho, hc'⟩
      rw [hc, (subId_iff o n).mp ho, (ih c').mp hc']
    · intro hc
      exact ⟨encodeNumber n, encNums ns, hc, (subId_iff _ _).mpr rfl, (ih _).mpr rfl⟩

theorem oidContent_iff (c : Bytes) (arcs : List Nat) :
    IsOidContent c arcs ↔ ∃ x y rest, arcs = x :: y :: rest ∧ OidDomain x y ∧ c = oidBody x y rest := by
  unfold IsOidContent OidDomain
  constructor
  · intro ⟨x, y, rest, ha, hx, hy, hc⟩
    refine ⟨x, y, rest, ha, ?_, ?_⟩
    · by_cases h : x < 2
      · exact Or.inl ⟨h, hy h⟩
      · exact Or.inr (by omega)
    · rw [oidBody_eq]; exact (subIds_iff _ _).mp hc
  · intro ⟨x, y, rest, ha, hd, hc⟩
    refine ⟨x, y, rest, ha, by omega, by omega, ?_⟩
    rw [hc, oidBody_eq]; exact (subIds_iff _ _).mpr rfl

theorem removeObject_iff (s : Bytes) (arcs : List Nat) (rest : Bytes) :
    removeObject s = .ok (arcs, rest) ↔ IsDerOid s arcs rest := by
  constructor
  · intro h
    obtain ⟨x, y, ps, ha, hd, hl, hs⟩ := removeObject_ok h
    refine ⟨oidBody x y ps, ?_, (oidContent_iff _ _).mpr ⟨x, y, ps, ha, hd, rfl⟩⟩
    rw [hs]
    have := tlv_spec 0x06 (oidBody x y ps) rest hl
    simpa using this
  · intro ⟨c, htlv, hc⟩
    obtain ⟨x, y, ps, ha, hd, hcb⟩ := (oidContent_iff c arcs).mp hc
    subst hcb
    obtain ⟨hs, hl⟩ := tlv_of_spec htlv
    rw [hs, ha]
    have := removeObject_encode x y ps rest hd hl
    simpa using this

/-! ### §8.6 BIT STRING -/

theorem bitStringContent_iff (c data : Bytes) (u : Nat) :
    IsBitStringContent c data u ↔ c = UInt8.ofNat u :: data ∧ u ≤ 7 ∧ bitsPadOK data u = true := by
  unfold IsBitStringContent bitsPadOK padBits
  constructor
  · intro ⟨hc, hu, he, hp⟩
    refine ⟨hc, hu, ?_⟩
    by_cases h0 : u = 0
    · simp [h0]
    · cases hl : data.getLast? with
      | none =>
        have : data = [] := by simpa using hl
        exact absurd (he this) h0
      | some last =>
        have := hp last hl
        simp [h0, Nat.and_two_pow_sub_one_eq_mod, this]
  · intro ⟨hc, hu, hp⟩
    refine ⟨hc, hu, ?_, ?_⟩
    · intro hd; subst hd
      by_cases h0 : u = 0
      · exact h0
      · simp [h0] at hp
    · intro last hl
      by_cases h0 : u = 0
      · subst h0; simp [Nat.mod_one]
      · simp [h0, hl, Nat.and_two_pow_sub_one_eq_mod] at hp
        exact hp

theorem removeBitstring_none_iff (s data : Bytes) (u : Nat) (rest : Bytes) :
    removeBitstring s .none = .ok (data, some u, rest) ↔ IsDerBitString s data u rest := by
  constructor
  · intro h
    obtain ⟨u', ho, hu, hp, hl, hs⟩ := removeBitstring_none_ok h
    cases ho
    refine ⟨UInt8.ofNat u :: data, ?_, (bitStringContent_iff _ _ _).mpr ⟨rfl, hu, hp⟩⟩
    rw [hs, encodeBits_eq_raw]
    have := tlv_spec 0x03 (UInt8.ofNat u :: data) rest (by simpa using hl)
    simpa [encodeBitsRaw] using this
  · intro ⟨c, htlv, hc⟩
    obtain ⟨hcb, hu, hp⟩ := (bitStringContent_iff c data u).mp hc
    subst hcb
    obtain ⟨hs, hl⟩ := tlv_of_spec htlv
    rw [hs]
    have := removeBitstring_none_encode data rest u hu hp (by simpa using hl)
    rw [encodeBits_eq_raw] at this
    simpa [encodeBitsRaw] using this

theorem removeBitstring_some_iff (s data : Bytes) (k : Int) (rest : Bytes) :
    removeBitstring s (.some k) = .ok (data, none, rest) ↔ 0 ≤ k ∧ IsDerBitString s data k.toNat rest := by
  constructor
  · intro h
    obtain ⟨_, h0, h7, hp, hl, hs⟩ := removeBitstring_some_ok h
    refine ⟨h0, UInt8.ofNat k.toNat :: data, ?_, (bitStringContent_iff _ _ _).mpr ⟨rfl, by omega, hp⟩⟩
    rw [hs, encodeBits_eq_raw]
    have := tlv_spec 0x03 (UInt8.ofNat k.toNat :: data) rest (by simpa using hl)
    simpa [encodeBitsRaw] using this
  · intro ⟨h0, c, htlv, hc⟩
    obtain ⟨hcb, hu, hp⟩ := (bitStringContent_iff c data k.toNat).mp hc
    subst hcb
    obtain ⟨hs, hl⟩ := tlv_of_spec htlv
    rw [hs]
    have := removeBitstring_some_encode data rest k.toNat hu hp (by simpa using hl)
    rw [encodeBits_eq_raw, show ((k.toNat : Nat) : Int) = k by omega] at this
    simpa [encodeBitsRaw] using this

/-- the legacy reader: a DER TLV with tag 3 and NON-EMPTY contents, returned undecoded -/
theorem removeBitstring_legacy_iff (s b rest : Bytes) :
    removeBitstring s .legacy = .ok (b, none, rest) ↔ b ≠ [] ∧ IsTLV 127 0x03 s b rest := by
  constructor
  · intro h
    obtain ⟨_, hb, hl, hs⟩ := removeBitstring_legacy_ok h
    refine ⟨hb, ?_⟩
    rw [hs]
    have := tlv_spec 0x03 b rest hl
    simpa [encodeBitsRaw] using this
  · intro ⟨hb, htlv⟩
    obtain ⟨hs, hl⟩ := tlv_of_spec htlv
    rw [hs]
    have := removeBitstring_legacy_encode b rest hb hl
    simpa [encodeBitsRaw] using this

end Der
