import Proofs.GroupObj
import Proofs.Naf
/-!
# Proofs.MulNaf — `PointJacobi.__mul__`, NAF path (no table): `P * k` denotes `k • ⟦P⟧` for every integer k
-/
namespace Jac
open WeierstrassCurve WeierstrassCurve.Jacobian Curve

variable {p : ℕ} [hp : Fact p.Prime] {a b : ℤ} {H : AddSubgroup (Grp (a : ZMod p) (b : ZMod p))}

/-- the accumulator relation of all the loops: represents `h`, coordinates in [0, p) -/
def AccRep (p : ℕ) [Fact p.Prime] (a b : ℤ) (H : AddSubgroup (Grp (a : ZMod p) (b : ZMod p)))
    (t : ℤ × ℤ × ℤ) (h : Grp (a : ZMod p) (b : ZMod p)) : Prop :=
  IRep p a b H t h ∧ InRange3 p t

theorem accRep_sentinel : AccRep p a b H (0, 0, 1) 0 :=
  ⟨irep_sentinel, inRange_zero, inRange_zero, inRange_one⟩

/-- the negated operand `(X2, -Y2, Z2)` the loops pass to `_add` -/
theorem irep_neg {X Y Z : ℤ} {g} (h : IRep p a b H (X, Y, Z) g) : IRep p a b H (X, -Y, Z) (-g) := by
  refine ⟨zt_neg h.1, h.2.1, ?_⟩
  have := rep_neg h.2.2
  convert this using 2
  simp [cast3]

theorem accRep_double (hH : NoOrder2 H) {t : ℤ × ℤ × ℤ} {h} (ht : AccRep p a b H t h) :
    AccRep p a b H (Gen.k_double t.1 t.2.1 t.2.2 p a) (h + h) :=
  ⟨k_double_correct hH ht.1, k_double_inRange _ _ _ _⟩

theorem accRep_add (hp2 : p ≠ 2) (hH : NoOrder2 H) {t : ℤ × ℤ × ℤ} {h} (ht : AccRep p a b H t h)
    {X2 Y2 Z2 : ℤ} {g} (hQ : IRep p a b H (X2, Y2, Z2) g) (hx : InRange p X2) (hz : InRange p Z2) :
    AccRep p a b H (Gen.k_add t.1 t.2.1 t.2.2 X2 Y2 Z2 p a) (h + g) :=
  ⟨k_add_correct hp2 hH ht.1 hQ, k_add_inRange _ _ ht.2 hx hz⟩

/-- one iteration of the NAF loop of `__mul__` -/
theorem mulNafStep_rep (hp2 : p ≠ 2) (hH : NoOrder2 H) {X2 Y2 : ℤ} {g}
    (hQ : IRep p a b H (X2, Y2, 1) g) (hx : InRange p X2) (t : ℤ × ℤ × ℤ) (h) (d : ℤ)
    (ht : AccRep p a b H t h) :
    AccRep p a b H (mulNafStep p a X2 Y2 t d)
      ((h + h) + (if d < 0 then -g else if d > 0 then g else 0)) := by
  unfold mulNafStep
  have hd := accRep_double hH ht
  simp only []
  split_ifs with h1 h2
  · exact accRep_add hp2 hH hd (irep_neg hQ) hx inRange_one
  · exact accRep_add hp2 hH hd hQ hx inRange_one
  · rw [add_zero]; exact hd

omit hp in
/-- reduction of the scalar modulo (a multiple of) an annihilating order -/
theorem smul_pmod {G : Type*} [AddCommGroup G] {g : G} {o : ℤ} (hog : o • g = 0) (k m : ℤ) (hm : o ∣ m) :
    pmod k m • g = k • g := by
  have h := (InvMod.pmod_modEq k m).symm.dvd
  obtain ⟨c, hc⟩ := hm
  obtain ⟨d, hd⟩ := h
  have : pmod k m = k + (c * d) * o := by rw [hc] at hd ⊢; linear_combination hd
  rw [this, add_smul, mul_smul, hog, smul_zero, add_zero]

/-- the reduction `other % (2 * order)` of `__mul__` -/
theorem reduce_smul {g : Grp (a : ZMod p) (b : ZMod p)} {ord : Option ℤ}
    (ho : ∀ n, truthy ord = some n → n • g = 0) (k : ℤ) :
    (match truthy ord with
      | some o => pmod k (o * 2)
      | none => k) • g = k • g := by
  cases h : truthy ord with
  | none => rfl
  | some o => exact smul_pmod (ho o h) k (o * 2) (dvd_mul_right o 2)

/-- the NAF loop on a scaled point -/
theorem nafLoop_rep (hp2 : p ≠ 2) (hH : NoOrder2 H) {S : PJ} {g} (hS : PJRep p a b H S g) (hz : S.z = 1)
    (k : ℤ) :
    AccRep p a b H ((naf k).reverse.foldl (mulNafStep p a S.x S.y) (0, 0, 1)) (k • g) := by
  have hQ : IRep p a b H (S.x, S.y, 1) g := hz ▸ hS.irep
  exact Naf.evalNaf_naf_rel (AccRep p a b H) (mulNafStep p a S.x S.y) g (0, 0, 1)
    (fun t h d ht _ => mulNafStep_rep hp2 hH hQ hS.2.1.1 t h d ht) accRep_sentinel k

/-- **`P * k` through the NAF path** (no generator table): for every integer k -/
theorem pjMul_naf_correct (hp2 : p ≠ 2) (hH : NoOrder2 H) {P : PJ} {g} (hP : PJRep p a b H P g)
    (hgen : P.generator = false) (ho : ∀ n, truthy P.order = some n → n • g = 0) (k : ℤ) :
    ∃ R, pjMulWith [] P k = .ok R ∧ PtRep p a b H R (k • g) := by
  unfold pjMulWith
  by_cases hk0 : k = 0
  · subst hk0; exact ⟨.infinity, by simp, by simp [PtRep]⟩
  by_cases hk1 : k = 1
  · subst hk1
    refine ⟨.jac P, ?_, by simpa [PtRep] using hP⟩
    simp [hP.y_ne]
  have h0 : (P.y == 0 || k == 0) = false := by simp [hP.y_ne, hk0]
  have h1 : (k == 1) = false := by simp [hk1]
  obtain ⟨S, hS, rS, zS, cS, oS, _⟩ := pjScale_correct hP
  simp only [h0, h1, Bool.false_eq_true, if_false, maybePrecompute, hgen, Bool.not_false, Bool.true_or,
    if_true, ok_bind, List.isEmpty_nil, Bool.not_true, hS]
  refine ⟨_, rfl, ?_⟩
  rw [← reduce_smul ho k]
  have hl := nafLoop_rep hp2 hH rS zS (match truthy P.order with
      | some o => pmod k (o * 2)
      | none => k)
  rw [rS.1.1, rS.1.2.1]
  exact coordsOut_rep rS.1 _ hl.1 hl.2

end Jac
