import Generated.RfcSlices
import Model.Rfc6979
import Proofs.RandSource
/-!
# Proofs.RfcSource — the model of rfc6979.py / the retry loop makes the integer decisions of the source text

`Gen.Rfc.*` (Generated/RfcSlices.lean) is re-translated from `rfc6979.py` / `keys.py` on every run.
-/
namespace Rfc
open Rfc6979 Rand

theorem indicator_iff {p : Prop} [Decidable p] : ((if decide p then (1 : Int) else 0) = 1) ↔ p := by
  by_cases h : p <;> simp [h]

/-- `bits2int` with the source's `l = len(data) * 8`, test `l > qlen` and shift -/
theorem bits2int_source (data : Bytes) (qlen : Nat) :
    bits2int data qlen =
      if data.isEmpty then .error .valueError
      else .ok (Gen.Rfc.bits2int_core (beVal data) (Gen.Rfc.bits2int_l data.length) qlen).toNat := by
  unfold bits2int Gen.Rfc.bits2int_core Gen.Rfc.bits2int_l
  split
  · rfl
  · simp only [decide_eq_true_eq]
    by_cases h : data.length * 8 > qlen
    · have h' : ((data.length : Int) * 8 > (qlen : Int)) := by omega
      rw [if_pos h, if_pos h']
      congr 1
      rw [Nat.shiftRight_eq_div_pow, Int.fdiv_eq_ediv_of_nonneg _ (Int.le_of_lt (Int.pow_pos (by decide)))]
      have e : ((data.length : Int) * 8 - qlen).toNat = data.length * 8 - qlen := by omega
      rw [e]
      have : ((beVal data : Int) / (2 : Int) ^ (data.length * 8 - qlen)) = ((beVal data / 2 ^ (data.length * 8 - qlen) : Nat) : Int) := by
        push_cast; rfl
      rw [this, Int.toNat_natCast]
    · have h' : ¬ ((data.length : Int) * 8 > (qlen : Int)) := by omega
      rw [if_neg h, if_neg h', Int.toNat_natCast]

/-- `bits2octets` with the source's conditional subtraction -/
theorem bits2octets_source (data : Bytes) (order : Nat) :
    bits2octets data order =
      (bits2int data (Gen.Rfc.generate_k_qlen order bitLengthInt).toNat).bind fun z1 =>
        Gen.Rfc.bits2octets_core (z1 : Int) (order : Int) (fun z o => Util.numberToStringCrop z.toNat o.toNat) := by
  unfold bits2octets Gen.Rfc.bits2octets_core Gen.Rfc.generate_k_qlen bitLengthInt
  simp only [bind, Except.bind, Int.toNat_natCast, decide_eq_true_eq]
  split
  · rfl
  · rename_i z1 _
    by_cases h : (z1 : Int) - (order : Int) < 0
    · rw [if_pos h, if_pos h, Int.toNat_natCast]
    · rw [if_neg h, if_neg h]

theorem sizes_source (order : Nat) :
    (bitLength1 order : Int) = Gen.Rfc.generate_k_qlen order bitLengthInt ∧
    (((bitLength1 order + 7) / 8 : Nat) : Int) = Gen.Rfc.generate_k_rolen (bitLength1 order : Nat) := by
  refine ⟨rfl, ?_⟩
  unfold Gen.Rfc.generate_k_rolen
  rw [Int.fdiv_eq_ediv_of_nonneg _ (by omega)]
  omega

/-- step H2 with the source's loop test -/
theorem h2Loop_source (hmac : Bytes → Bytes → Bytes) (k : Bytes) (rolen fuel : Nat) (v t : Bytes) :
    h2Loop hmac k rolen (fuel + 1) v t =
      if Gen.Rfc.generate_k_h2_continue t.length rolen = 1 then h2Loop hmac k rolen fuel (hmac k v) (t ++ hmac k v)
      else some (v, t) := by
  rw [h2Loop]
  unfold Gen.Rfc.generate_k_h2_continue
  by_cases h : t.length < rolen
  · have h' : ((t.length : Int) < (rolen : Int)) := by omega
    rw [if_pos h, if_pos (indicator_iff.2 h')]
  · have h' : ¬ ((t.length : Int) < (rolen : Int)) := by omega
    rw [if_neg h, if_neg (fun hh => h' (indicator_iff.1 hh))]

/-- step H with the source's range test, `retry_gen <= 0` test and `retry_gen -= 1` -/
theorem hLoop_source (hmac : Bytes → Bytes → Bytes) (order qlen rolen fuel : Nat) (k v : Bytes) (retry : Int) :
    hLoop hmac order qlen rolen (fuel + 1) k v retry =
      match h2Loop hmac k rolen rolen v [] with
      | none => none
      | some (v, t) =>
        match bits2int t qlen with
        | .error e => some (.error e)
        | .ok secret =>
          if Gen.Rfc.generate_k_accept secret order = 1 then
            if Gen.Rfc.generate_k_return_now retry = 1 then some (.ok secret)
            else hLoop hmac order qlen rolen fuel (hmac k (v ++ [0])) (hmac (hmac k (v ++ [0])) v) (Gen.Rfc.generate_k_retry_next retry)
          else hLoop hmac order qlen rolen fuel (hmac k (v ++ [0])) (hmac (hmac k (v ++ [0])) v) retry := by
  rw [hLoop]
  cases h2Loop hmac k rolen rolen v [] with
  | none => rfl
  | some p =>
    obtain ⟨v', t⟩ := p
    simp only
    cases bits2int t qlen with
    | error e => rfl
    | ok secret =>
      simp only
      unfold Gen.Rfc.generate_k_accept Gen.Rfc.generate_k_return_now Gen.Rfc.generate_k_retry_next
      simp only [Bool.and_eq_true, decide_eq_true_eq]
      by_cases h : 1 ≤ secret ∧ secret < order
      · have h' : (1 : Int) ≤ (secret : Int) ∧ (secret : Int) < (order : Int) := by omega
        rw [if_pos h, if_pos h', if_pos rfl]
        by_cases hr : retry ≤ 0
        · rw [if_pos hr, if_pos hr, if_pos rfl]
        · rw [if_neg hr, if_neg hr, if_neg (by decide)]
      · have h' : ¬ ((1 : Int) ≤ (secret : Int) ∧ (secret : Int) < (order : Int)) := by omega
        rw [if_neg h, if_neg h', if_neg (by decide)]

/-- the retry loop with the source's `retry_gen = 0` and `retry_gen += 1` -/
theorem signDet_source {σ : Type} (hmac : Bytes → Bytes → Bytes) (holen order secexp : Nat) (digest extra : Bytes)
    (sign : Nat → Res σ) (kfuel fuel : Nat) :
    signDigestDeterministic hmac holen order secexp digest extra sign kfuel fuel =
      signDetLoop (fun retry => generateK hmac holen order secexp digest retry extra kfuel) sign fuel Gen.Rfc.retry_init ∧
    ∀ (genK : Int → Option (Res Nat)) (f : Nat) (retry : Int), signDetLoop genK sign (f + 1) retry =
      match genK retry with
      | none => none
      | some (.error e) => some (.error e)
      | some (.ok k) =>
        match sign k with
        | .error .rsZero => signDetLoop genK sign f (Gen.Rfc.retry_next retry)
        | r => some r := by
  refine ⟨rfl, ?_⟩
  intro genK f retry
  rw [signDetLoop]
  rfl

end Rfc
