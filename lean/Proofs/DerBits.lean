import Proofs.DerTlv
/-!
# Proofs.DerBits — BIT STRING, all three calling conventions of `encode_bitstring` / `remove_bitstring`
(`unused` an integer, `None`, or not given).
-/
set_option linter.unusedSimpArgs false
namespace Der

/-- the padding condition of DER: no unused bits, or a last byte whose `unused` low bits are zero -/
def bitsPadOK (data : Bytes) (u : Nat) : Bool :=
  u == 0 || (match data.getLast? with | none => false | some last => !padBits last u)

theorem padCheck_eq (data : Bytes) (u : Nat) (E : PyErr) :
    padCheck data u E = if bitsPadOK data u then .ok () else .error E := by
  unfold padCheck bitsPadOK
  by_cases hu : u = 0
  · subst hu; simp
  · have : (u == 0) = false := by simpa using hu
    rw [if_pos hu, this]
    cases data.getLast? with
    | none => simp
    | some last => cases hp : padBits last u <;> simp [hp]

/-- `03 len unused data…` -/
def encodeBits (data : Bytes) (u : Nat) : Bytes :=
  [0x03] ++ encodeLength (data.length + 1) ++ [UInt8.ofNat u] ++ data

/-- `03 len s…` (the conventions where the caller supplies the unused-bits byte inside `s`) -/
def encodeBitsRaw (s : Bytes) : Bytes := [0x03] ++ encodeLength s.length ++ s

theorem encodeBits_eq_raw (data : Bytes) (u : Nat) : encodeBits data u = encodeBitsRaw (UInt8.ofNat u :: data) := by
  simp [encodeBits, encodeBitsRaw]

/-! ### the encoder -/

theorem encodeBitstring_some (data : Bytes) (k : Int) :
    encodeBitstring data (.some k) =
      if ¬ (0 ≤ k ∧ k ≤ 7) then .error .valueError
      else if bitsPadOK data k.toNat then
        (match encodeLengthPy (data.length + 1) with
          | .ok l => .ok ([0x03] ++ l ++ [UInt8.ofNat k.toNat] ++ data)
          | .error e => .error e)
      else .error .valueError := by
  unfold encodeBitstring
  simp only
  split
  · rfl
  · rename_i hk
    have hk' : 0 ≤ k ∧ k ≤ 7 := by simpa using hk
    rw [padCheck_eq]
    have hb : int2byte k = .ok (UInt8.ofNat k.toNat) := by
      unfold int2byte; rw [if_pos (by omega)]
    split
    · simp only [bind, Except.bind, hb]
      cases encodeLengthPy (data.length + 1) <;> rfl
    · rfl

theorem encodeBitstring_some_eq (data : Bytes) (u : Nat) (hu : u ≤ 7) (hp : bitsPadOK data u = true)
    (hl : data.length + 1 < 256 ^ 127) : encodeBitstring data (.some (u : Int)) = .ok (encodeBits data u) := by
  rw [encodeBitstring_some, if_neg (by omega)]
  simp only [Int.toNat_natCast, hp, if_true, encodeLengthPy_eq _ hl]
  rfl

theorem encodeBitstring_some_ok {data e : Bytes} {k : Int} (h : encodeBitstring data (.some k) = .ok e) :
    0 ≤ k ∧ k ≤ 7 ∧ bitsPadOK data k.toNat = true ∧ e = encodeBits data k.toNat := by
  rw [encodeBitstring_some] at h
  split at h
  · cases h
  · rename_i hk
    have hk' : 0 ≤ k ∧ k ≤ 7 := by simpa using hk
    split at h
    · rename_i hp
      split at h
      · rename_i l hl
        rw [encodeLengthPy_ok hl] at h
        simp only [Except.ok.injEq] at h
        exact ⟨hk'.1, hk'.2, hp, h.symm⟩
      · cases h
    · cases h

theorem encodeBitstring_some_err {data : Bytes} {k : Int} {e : PyErr} (h : encodeBitstring data (.some k) = .error e) :
    e = .valueError ∨ (e = .other ∧ 256 ^ 127 ≤ data.length + 1) := by
  rw [encodeBitstring_some] at h
  split at h
  · cases h; exact Or.inl rfl
  · split at h
    · split at h
      · cases h
      · rename_i e' he; cases h; exact Or.inr (encodeLengthPy_err he)
    · cases h; exact Or.inl rfl

theorem encodeBitstring_legacy (s : Bytes) :
    encodeBitstring s .legacy = (match encodeLengthPy s.length with
      | .ok l => .ok ([0x03] ++ l ++ s) | .error e => .error e) := by
  unfold encodeBitstring; simp only [bind, Except.bind]
  cases encodeLengthPy s.length <;> rfl

theorem encodeBitstring_none (s : Bytes) : encodeBitstring s .none = encodeBitstring s .legacy := rfl

theorem encodeBitstring_legacy_eq (s : Bytes) (hl : s.length < 256 ^ 127) :
    encodeBitstring s .legacy = .ok (encodeBitsRaw s) := by
  rw [encodeBitstring_legacy, encodeLengthPy_eq _ hl]; rfl

theorem encodeBitstring_legacy_ok {s e : Bytes} (h : encodeBitstring s .legacy = .ok e) : e = encodeBitsRaw s := by
  rw [encodeBitstring_legacy] at h
  split at h
  · rename_i l hl
    rw [encodeLengthPy_ok hl] at h
    simp only [Except.ok.injEq] at h
    exact h.symm
  · cases h

/-! ### the reader -/

theorem removeBitstring_tlv (body rest : Bytes) (expect : Unused) (hl : body.length < 256 ^ 127) :
    removeBitstring (0x03 :: (encodeLength body.length ++ body ++ rest)) expect =
      if body.length = 0 then .error .unexpectedDER else bitsTail body rest expect := by
  unfold removeBitstring
  simp only [List.drop_succ_cons, List.drop_zero, List.append_assoc]
  rw [if_neg (by simp), readLength_encodeLength _ hl]
  simp only [bind, Except.bind]
  have := tooLong_enc 0x03 body rest
  rw [List.append_assoc] at this
  rw [this]
  simp only [Bool.false_eq_true, if_false]
  rw [drop_hdr, drop_hdr_add]
  simp only [List.take_left', List.drop_left']

theorem removeBitstring_cases (s : Bytes) (expect : Unused) :
    (∃ body rest0, s = 0x03 :: (encodeLength body.length ++ body ++ rest0) ∧ body.length < 256 ^ 127)
    ∨ removeBitstring s expect = .error .unexpectedDER := by
  match s with
  | [] => right; rfl
  | t :: s' =>
    by_cases ht : t = 0x03
    · subst ht
      rcases tlv_cases 0x03 s' with h | h | ⟨length, llen, h1, h2⟩
      · left; exact h
      · right; unfold removeBitstring; simp only [bind, Except.bind, h]; simp
      · right; unfold removeBitstring; simp only [bind, Except.bind, h1, h2]; simp
    · right; unfold removeBitstring; simp [ht]

theorem bitsTail_legacy (body rest : Bytes) : bitsTail body rest .legacy = .ok (body, none, rest) := rfl

theorem bitsTail_none (u : UInt8) (data rest : Bytes) :
    bitsTail (u :: data) rest .none =
      if ¬ u.toNat ≤ 7 then .error .unexpectedDER
      else if bitsPadOK data u.toNat then .ok (data, some u.toNat, rest) else .error .unexpectedDER := by
  unfold bitsTail
  simp only [idx_zero_cons, bind, Except.bind, List.drop_succ_cons, List.drop_zero, padCheck_eq]
  split
  · rfl
  · cases hp : bitsPadOK data u.toNat <;> simp [hp]

theorem bitsTail_some (u : UInt8) (data rest : Bytes) (k : Int) :
    bitsTail (u :: data) rest (.some k) =
      if ¬ u.toNat ≤ 7 then .error .unexpectedDER
      else if k ≠ (u.toNat : Int) then .error .unexpectedDER
      else if bitsPadOK data u.toNat then .ok (data, none, rest) else .error .unexpectedDER := by
  unfold bitsTail
  simp only [idx_zero_cons, bind, Except.bind, List.drop_succ_cons, List.drop_zero, padCheck_eq]
  split
  · rfl
  · by_cases hk : k = (u.toNat : Int)
    · cases hp : bitsPadOK data u.toNat <;> simp [hp, hk]
    · simp [hk]

/-! ### round trips -/

theorem removeBitstring_legacy_encode (s rest : Bytes) (hs : s ≠ []) (hl : s.length < 256 ^ 127) :
    removeBitstring (encodeBitsRaw s ++ rest) .legacy = .ok (s, none, rest) := by
  have := removeBitstring_tlv s rest .legacy hl
  unfold encodeBitsRaw
  simp only [List.cons_append, List.nil_append, List.append_assoc] at this ⊢
  rw [this, if_neg (by intro h; exact hs (List.length_eq_zero_iff.mp h)), bitsTail_legacy]

theorem removeBitstring_none_encode (data rest : Bytes) (u : Nat) (hu : u ≤ 7) (hp : bitsPadOK data u = true)
    (hl : data.length + 1 < 256 ^ 127) :
    removeBitstring (encodeBits data u ++ rest) .none = .ok (data, some u, rest) := by
  have := removeBitstring_tlv (UInt8.ofNat u :: data) rest .none hl
  rw [encodeBits_eq_raw]; unfold encodeBitsRaw
  simp only [List.cons_append, List.nil_append, List.append_assoc] at this ⊢
  have hu' : (UInt8.ofNat u).toNat = u := u8_ofNat_toNat u (by omega)
  rw [this, if_neg (by simp), bitsTail_none, hu', if_neg (by omega), if_pos hp]

theorem removeBitstring_some_encode (data rest : Bytes) (u : Nat) (hu : u ≤ 7) (hp : bitsPadOK data u = true)
    (hl : data.length + 1 < 256 ^ 127) :
    removeBitstring (encodeBits data u ++ rest) (.some (u : Int)) = .ok (data, none, rest) := by
  have := removeBitstring_tlv (UInt8.ofNat u :: data) rest (.some (u : Int)) hl
  rw [encodeBits_eq_raw]; unfold encodeBitsRaw
  simp only [List.cons_append, List.nil_append, List.append_assoc] at this ⊢
  have hu' : (UInt8.ofNat u).toNat = u := u8_ofNat_toNat u (by omega)
  rw [this, if_neg (by simp), bitsTail_some, hu', if_neg (by omega), if_neg (by simp), if_pos hp]

/-! ### accepted ⇒ canonical -/

theorem removeBitstring_legacy_ok {s b rest : Bytes} {o : Option Nat}
    (h : removeBitstring s .legacy = .ok (b, o, rest)) :
    o = none ∧ b ≠ [] ∧ b.length < 256 ^ 127 ∧ s = encodeBitsRaw b ++ rest := by
  rcases removeBitstring_cases s .legacy with ⟨body, rest0, rfl, hl⟩ | hc
  · rw [removeBitstring_tlv body rest0 .legacy hl] at h
    split at h
    · cases h
    · rename_i hne
      rw [bitsTail_legacy] at h
      simp only [Except.ok.injEq, Prod.mk.injEq] at h
      obtain ⟨rfl, rfl, rfl⟩ := h
      refine ⟨rfl, ?_, hl, by simp [encodeBitsRaw]⟩
      intro h0; subst h0; exact hne rfl
  · rw [hc] at h; cases h

theorem removeBitstring_none_ok {s data rest : Bytes} {o : Option Nat}
    (h : removeBitstring s .none = .ok (data, o, rest)) :
    ∃ u, o = some u ∧ u ≤ 7 ∧ bitsPadOK data u = true ∧ data.length + 1 < 256 ^ 127
      ∧ s = encodeBits data u ++ rest := by
  rcases removeBitstring_cases s .none with ⟨body, rest0, rfl, hl⟩ | hc
  · rw [removeBitstring_tlv body rest0 .none hl] at h
    split at h
    · cases h
    · rename_i hne
      match body, hne, hl, h with
      | ub :: d, _, hl, h =>
        rw [bitsTail_none] at h
        split at h
        · cases h
        · rename_i hu
          split at h
          · rename_i hp
            simp only [Except.ok.injEq, Prod.mk.injEq] at h
            obtain ⟨rfl, rfl, rfl⟩ := h
            refine ⟨ub.toNat, rfl, by omega, hp, hl, ?_⟩
            rw [encodeBits_eq_raw, UInt8.ofNat_toNat]; simp [encodeBitsRaw]
          · cases h
  · rw [hc] at h; cases h

theorem removeBitstring_some_ok {s data rest : Bytes} {o : Option Nat} {k : Int}
    (h : removeBitstring s (.some k) = .ok (data, o, rest)) :
    o = none ∧ 0 ≤ k ∧ k ≤ 7 ∧ bitsPadOK data k.toNat = true ∧ data.length + 1 < 256 ^ 127
      ∧ s = encodeBits data k.toNat ++ rest := by
  rcases removeBitstring_cases s (.some k) with ⟨body, rest0, rfl, hl⟩ | hc
  · rw [removeBitstring_tlv body rest0 (.some k) hl] at h
    split at h
    · cases h
    · rename_i hne
      match body, hne, hl, h with
      | ub :: d, _, hl, h =>
        rw [bitsTail_some] at h
        split at h
        · cases h
        · rename_i hu
          split at h
          · cases h
          · rename_i hk
            have hk' : k = (ub.toNat : Int) := by simpa using hk
            split at h
            · rename_i hp
              simp only [Except.ok.injEq, Prod.mk.injEq] at h
              obtain ⟨rfl, rfl, rfl⟩ := h
              subst hk'
              simp only [Int.toNat_natCast]
              refine ⟨by first | rfl | trivial, by omega, by omega, hp, hl, ?_⟩
              rw [encodeBits_eq_raw, UInt8.ofNat_toNat]; simp [encodeBitsRaw]
            · cases h
  · rw [hc] at h; cases h

/-- every convention: only `UnexpectedDER` (in particular `str_idx_as_int(body, 0)` never raises) -/
theorem removeBitstring_err {s : Bytes} {expect : Unused} {e : PyErr}
    (h : removeBitstring s expect = .error e) : e = .unexpectedDER := by
  rcases removeBitstring_cases s expect with ⟨body, rest0, rfl, hl⟩ | hc
  · rw [removeBitstring_tlv body rest0 expect hl] at h
    split at h
    · cases h; rfl
    · rename_i hne
      match body, hne, hl, h with
      | ub :: d, _, hl, h =>
        cases expect with
        | legacy => rw [bitsTail_legacy] at h; cases h
        | none =>
          rw [bitsTail_none] at h
          split at h
          · cases h; rfl
          · split at h
            · cases h
            · cases h; rfl
        | some k =>
          rw [bitsTail_some] at h
          split at h
          · cases h; rfl
          · split at h
            · cases h; rfl
            · split at h
              · cases h
              · cases h; rfl
  · rw [hc] at h; cases h; rfl

end Der
