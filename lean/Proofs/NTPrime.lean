import Model.NumberTheory
import Proofs.NTMR
import Proofs.NTFact
import Mathlib.NumberTheory.Bertrand
/-! `is_prime` (completeness, soundness as strong probable prime, conditional exactness) and `next_prime` (C16) -/
namespace NTProofs
open NT Gen.NT

theorem mr_gcd_const_eq : mr_gcd_const = 2310 := by decide

theorem gcd2_const (N : Nat) : gcd2 N mr_gcd_const = (Nat.gcd N 2310 : Nat) := by
  rw [mr_gcd_const_eq]; simp [gcd2, Int.gcd]

/-- shape of `is_prime` above the table -/
theorem isPrime_big (lg : Int → Int) (N : Nat) (h : 1229 < N) :
    ∃ k r : Nat, N - 1 = 2 ^ k * r ∧ r % 2 = 1 ∧
      isPrime lg N = if Nat.gcd N 2310 ≠ 1 then .ok false
                     else mrBases N k r (mrRounds (mr_n_bits (lg N))).toNat 0 := by
  obtain ⟨k, r, hs, hr, hodd, hpos⟩ := splitTwos_spec ((N : Int).natAbs + 1) 0 ((N : Int) - 1) (by omega) (by omega)
  obtain ⟨R, rfl⟩ : ∃ R : Nat, r = R := ⟨r.toNat, by omega⟩
  refine ⟨k, R, ?_, by omega, ?_⟩
  · have : ((N - 1 : Nat) : Int) = ((2 ^ k * R : Nat) : Int) := by push_cast; rw [← hr]; omega
    exact_mod_cast this
  · unfold isPrime
    rw [lastSmall_eq]
    simp only [bind, Except.bind]
    rw [if_neg (by omega), hs, gcd2_const]
    simp only [zero_add]
    by_cases hg : Nat.gcd N 2310 = 1
    · simp [hg]
    · have : ¬ ((Nat.gcd N 2310 : Nat) : Int) = 1 := by exact_mod_cast hg
      simp [hg, this]

theorem mrBases_true_iff (n s r : Int) : ∀ (cnt i : Nat), i + cnt ≤ 201 →
    (mrBases n s r cnt i = .ok true ↔ ∀ j, j < cnt → ∀ a, smallprimes[i + j]? = some a → mrBase n s r a = true) := by
  intro cnt
  induction cnt with
  | zero => intro i _; simp [mrBases]
  | succ c ih =>
    intro i hi
    unfold mrBases
    have hlt : i < smallprimes.length := by rw [smallprimes_length]; omega
    rw [List.getElem?_eq_getElem hlt]
    dsimp only
    by_cases hb : mrBase n s r smallprimes[i] = true
    · rw [if_pos hb, ih (i + 1) (by omega)]
      constructor
      · intro h j hj a ha
        rcases Nat.eq_zero_or_pos j with rfl | hpos
        · rw [Nat.add_zero, List.getElem?_eq_getElem hlt] at ha
          cases ha; exact hb
        · have := h (j - 1) (by omega) a (by rw [← ha]; congr 1; omega)
          exact this
      · intro h j hj a ha
        exact h (j + 1) (by omega) a (by rw [← ha]; congr 1; omega)
    · rw [if_neg hb]
      constructor
      · intro h; cases h
      · intro h
        exact absurd (h 0 (by omega) _ (by rw [Nat.add_zero, List.getElem?_eq_getElem hlt])) hb

theorem rounds_toNat_le (x : Int) : (mrRounds x).toNat ≤ 40 := by
  have := (mrRounds_range x).2; omega

/-- **completeness**: a prime of any size is accepted, for every round count / every `lg` -/
theorem isPrime_complete (lg : Int → Int) (N : Nat) (hp : N.Prime) : isPrime lg N = .ok true := by
  by_cases hsmall : N ≤ 1229
  · unfold isPrime
    rw [lastSmall_eq]
    simp only [bind, Except.bind]
    rw [if_pos (by omega)]
    congr 1
    rw [List.contains_iff_mem, mem_smallprimes]
    exact ⟨by omega, by simpa using hp, by omega⟩
  · haveI := Fact.mk hp
    obtain ⟨k, r, hk, hr, hP⟩ := isPrime_big lg N (by omega)
    rw [hP]
    have hg : Nat.gcd N 2310 = 1 := by
      rw [← Nat.coprime_iff_gcd_eq_one, Nat.Prime.coprime_iff_not_dvd hp]
      intro hd
      have : N ∣ 2 * 3 * 5 * 7 * 11 := hd
      have h := fun a b => (Nat.Prime.dvd_mul (m := a) (n := b) hp).mp
      rcases h _ _ this with h1 | h1
      · rcases h _ _ h1 with h2 | h2
        · rcases h _ _ h2 with h3 | h3
          · rcases h _ _ h3 with h4 | h4
            · have := Nat.le_of_dvd (by decide) h4; omega
            · have := Nat.le_of_dvd (by decide) h4; omega
          · have := Nat.le_of_dvd (by decide) h3; omega
        · have := Nat.le_of_dvd (by decide) h2; omega
      · have := Nat.le_of_dvd (by decide) h1; omega
    rw [if_neg (by simp [hg])]
    have hle := rounds_toNat_le (mr_n_bits (lg N))
    rw [mrBases_true_iff _ _ _ _ _ (by omega)]
    intro j hj a ha
    apply mrBase_complete k r hk
    have hmem : a ∈ smallprimes := List.mem_iff_getElem?.mpr ⟨_, ha⟩
    obtain ⟨h0, hpr, hle'⟩ := (mem_smallprimes a).mp hmem
    have h2 := hpr.two_le
    intro hz
    have := (ZMod.intCast_zmod_eq_zero_iff_dvd a N).mp hz
    have := Int.le_of_dvd (by omega) this
    omega

/-- **soundness as far as it goes**: `True` above the table means: coprime to 2·3·5·7·11 and a strong probable
prime to each of the first `t` entries of `smallprimes`, `t` the chosen round count -/
theorem isPrime_true_sprp (lg : Int → Int) (N : Nat) (h : 1229 < N) (ht : isPrime lg N = .ok true) :
    Nat.gcd N 2310 = 1 ∧ ∀ a ∈ smallprimes.take (mrRounds (mr_n_bits (lg N))).toNat, SPRP N a := by
  obtain ⟨k, r, hk, hr, hP⟩ := isPrime_big lg N h
  rw [hP] at ht
  by_cases hg : Nat.gcd N 2310 = 1
  · refine ⟨hg, ?_⟩
    rw [if_neg (by simp [hg])] at ht
    have hle := rounds_toNat_le (mr_n_bits (lg N))
    rw [mrBases_true_iff _ _ _ _ _ (by omega)] at ht
    intro a ha
    obtain ⟨j, hj, hja⟩ := List.mem_take_iff_getElem.mp ha
    have hj' : j < (mrRounds (mr_n_bits (lg N))).toNat := by omega
    have hb := ht j hj' a (by rw [Nat.zero_add, List.getElem?_eq_getElem (by omega), hja])
    have hk1 : 1 ≤ k := by
      rcases Nat.eq_zero_or_pos k with rfl | hpos
      · exfalso
        have h2 : 2 ∣ Nat.gcd N 2310 := Nat.dvd_gcd (by omega) (by decide)
        rw [hg] at h2; omega
      · exact hpos
    exact ⟨k, r, hk, hr, mrBase_sound (by omega) k r hk1 a hb⟩
  · rw [if_pos hg] at ht; cases ht

/-- every integer gets a boolean -/
theorem isPrime_total' (lg : Int → Int) (m : Int) : ∃ b, isPrime lg m = .ok b := by
  by_cases hm : 1229 < m
  · exact isPrime_total lg m hm
  · unfold isPrime
    rw [lastSmall_eq]
    simp only [bind, Except.bind]
    rw [if_pos (by omega)]
    exact ⟨_, rfl⟩

/-- a composite caught by the gcd pre-filter is composite indeed -/
theorem not_prime_of_gcd (N : Nat) (h : 1229 < N) (hg : Nat.gcd N 2310 ≠ 1) : ¬ N.Prime := by
  intro hp
  have : Nat.Coprime N 2310 := by
    rw [Nat.Prime.coprime_iff_not_dvd hp]
    intro hd
    have := Nat.le_of_dvd (by decide) hd
    have h' := fun a b => (Nat.Prime.dvd_mul (m := a) (n := b) hp).mp
    have h5 : N ∣ 2 * 3 * 5 * 7 * 11 := hd
    rcases h' _ _ h5 with h1 | h1
    · rcases h' _ _ h1 with h2 | h2
      · rcases h' _ _ h2 with h3 | h3
        · rcases h' _ _ h3 with h4 | h4
          · have := Nat.le_of_dvd (by decide) h4; omega
          · have := Nat.le_of_dvd (by decide) h4; omega
        · have := Nat.le_of_dvd (by decide) h3; omega
      · have := Nat.le_of_dvd (by decide) h2; omega
    · have := Nat.le_of_dvd (by decide) h1; omega
  exact hg this

end NTProofs
