import Proofs.EcdsaRecover
/-!
# Proofs.EcdsaRecover2 — the three claims of C14 from the structure theorem
-/
namespace Ecdsa

variable {P : Type} {𝔾 : Type} [AddCommGroup 𝔾]
variable {ops : PointOps P} {G : 𝔾} {den : P → 𝔾} {xc : 𝔾 → Option ℤ} {valid : P → Prop}

/-- the signing equation: `s·k ≡ e + r·d (mod n)` for whatever `sign` returns -/
theorem sign_equation (C : PointOpsCorrect ops G den xc valid) (d e k r s : ℤ) (hk : ¬ ops.order ∣ k)
    (hsig : sign ops d e k = .ok (r, s)) : s * k ≡ e + r * d [ZMOD ops.order] := by
  have hn := C.n_pos
  obtain ⟨x, hx, hspec⟩ := sign_spec C d e k hk
  rw [hspec] at hsig
  split at hsig
  · cases hsig
  · injection hsig with hsig
    injection hsig with hr hs
    have hk1 : 1 ≤ k % ops.order := by
      have := Int.emod_nonneg k hn.ne'
      have : k % ops.order ≠ 0 := fun h => hk (Int.dvd_of_emod_eq_zero h)
      omega
    obtain ⟨-, -, -, hkinv⟩ := inverseMod_eq_invZ C.n_prime hk1 (Int.emod_lt_of_pos _ hn)
    rw [← hs]
    unfold stdS
    rw [hr]
    have e1 : invZ ops.order (k % ops.order) * (e + r * d) % ops.order * k
        ≡ invZ ops.order (k % ops.order) * (e + r * d) * (k % ops.order) [ZMOD ops.order] :=
      (Int.mod_modEq _ _).mul (Int.mod_modEq _ _).symm
    have e2 : invZ ops.order (k % ops.order) * (e + r * d) * (k % ops.order)
        = (k % ops.order * invZ ops.order (k % ops.order)) * (e + r * d) := by ring
    rw [e2] at e1
    have e3 := hkinv.mul_right (e + r * d)
    rw [one_mul] at e3
    exact e1.trans e3

/-- the candidate built from the true nonce point is the signer's key: `r⁻¹(s•(k•G) − e•G) = d•G` -/
theorem candidate_is_key {G : 𝔾} {n : ℤ} (hn : n • G = 0) (d k e r s ri : ℤ)
    (hsk : s * k ≡ e + r * d [ZMOD n]) (hri : r * ri ≡ 1 [ZMOD n]) :
    ri • (s • (k • G) + ((-e) % n) • G) = d • G := by
  rw [zsmul_congr_mod hn (Int.mod_modEq (-e) n), ← mul_smul, ← add_smul, ← mul_smul]
  apply zsmul_congr_mod hn
  calc ri * (s * k + -e) ≡ ri * ((e + r * d) + -e) [ZMOD n] := (hsk.add_right _).mul_left _
    _ = (r * ri) * d := by ring
    _ ≡ 1 * d [ZMOD n] := hri.mul_right _
    _ = d := by ring

theorem mapM_length {α β : Type} (f : α → Res β) (l : List α) (l' : List β) (h : l.mapM f = .ok l') :
    l'.length = l.length := by
  induction l generalizing l' with
  | nil => simp [List.mapM_nil, pure, Except.pure] at h; subst h; rfl
  | cons a t ih =>
    rw [List.mapM_cons] at h
    simp only [bind, Except.bind, pure, Except.pure] at h
    cases ha : f a with
    | error e => rw [ha] at h; cases h
    | ok b =>
      rw [ha] at h
      simp only at h
      cases ht : t.mapM f with
      | error e => rw [ht] at h; cases h
      | ok t' =>
        rw [ht] at h
        simp only at h
        injection h with h
        subst h
        simp [ih t' ht]

/-- **at most two keys**, for every input on which recovery returns at all -/
theorem recover_length_le_two (ops : PointOps P) (sqrt : ℤ → ℤ → Res ℤ) (r s e : ℤ) (l : List P)
    (h : recoverPublicKeys ops sqrt r s e = .ok l) : l.length ≤ 2 := by
  unfold recoverPublicKeys at h
  simp only [bind, Except.bind] at h
  split at h
  · cases h
  · split at h
    · cases h
    · split at h
      · cases h
      · split at h
        · cases h
        · have := mapM_length _ _ _ h
          rw [this]
          exact le_trans (List.length_filter_le _ _) (by simp)

/-- **contains Q**: on an honest signature the returned list contains a point object denoting `d • G` -/
theorem recover_contains (C : RecoverOpsCorrect ops G den xc valid) (sqrt : ℤ → ℤ → Res ℤ) (hsq : SqrtSpec sqrt ops.p)
    (d e k r s x0 : ℤ) (H : Honest ops G xc d e k r s x0) :
    ∃ l, recoverPublicKeys ops sqrt r s e = .ok l ∧ ∃ A ∈ l, valid A ∧ den A = d • G := by
  obtain ⟨Q1, Q2, T, hT, v1, v2, d1, d2, hrec⟩ := recover_structure C sqrt hsq d e k r s x0 H
  obtain ⟨r1, r2, -, -⟩ := sign_range C.toPointOpsCorrect d e k r s H.hk H.hsig
  obtain ⟨-, -, -, hri⟩ := inverseMod_eq_invZ C.n_prime r1 r2
  have hsk := sign_equation C.toPointOpsCorrect d e k r s H.hk H.hsig
  have hdG : d • G ≠ 0 := fun h => H.hd ((C.smul_eq_zero_iff d).mp h)
  have key := candidate_is_key C.nG d k e r s (invZ ops.order r) hsk hri
  refine ⟨_, hrec, ?_⟩
  rcases hT with h | h
  · refine ⟨Q1, ?_, v1, by rw [d1, h, key]⟩
    rw [List.mem_filter]
    refine ⟨by simp, ?_⟩
    have : ¬ ops.isInfinity Q1 = true := fun hi => hdG (by rw [← key, ← h, ← d1]; exact (C.isInf Q1 v1).mp hi)
    simpa using this
  · refine ⟨Q2, ?_, v2, by rw [d2, h, neg_neg, key]⟩
    rw [List.mem_filter]
    refine ⟨by simp, ?_⟩
    have : ¬ ops.isInfinity Q2 = true := fun hi => hdG (by
      rw [← key]; have := (C.isInf Q2 v2).mp hi; rw [d2, h, neg_neg] at this; exact this)
    simpa using this

/-- **all verify**: every key returned for an honest signature verifies it -/
theorem recover_all_verify (C : RecoverOpsCorrect ops G den xc valid) (sqrt : ℤ → ℤ → Res ℤ) (hsq : SqrtSpec sqrt ops.p)
    (d e k r s x0 : ℤ) (H : Honest ops G xc d e k r s x0) (l : List P)
    (hl : recoverPublicKeys ops sqrt r s e = .ok l) :
    ∀ A ∈ l, valid A ∧ den A ≠ 0 ∧ ops.order • den A = 0 ∧ verifies ops A e r s = .ok true := by
  have hn := C.n_pos
  obtain ⟨Q1, Q2, T, hT, v1, v2, d1, d2, hrec⟩ := recover_structure C sqrt hsq d e k r s x0 H
  rw [hrec] at hl; injection hl with hl; subst hl
  obtain ⟨r1, r2, s1, s2⟩ := sign_range C.toPointOpsCorrect d e k r s H.hk H.hsig
  obtain ⟨-, -, -, hri⟩ := inverseMod_eq_invZ C.n_prime r1 r2
  obtain ⟨-, -, -, hsi⟩ := inverseMod_eq_invZ C.n_prime s1 s2
  have hkG : k • G ≠ 0 := fun h => H.hk ((C.smul_eq_zero_iff k).mp h)
  have hrx : x0 % ops.order = r := by
    obtain ⟨x, hx, hspec⟩ := sign_spec C.toPointOpsCorrect d e k H.hk
    rw [H.hx0] at hx; cases hx
    have h := H.hsig
    rw [hspec] at h
    split at h
    · cases h
    · injection h with h
      exact congrArg Prod.fst h
  -- a candidate built from T' ∈ {±k•G} verifies
  have main : ∀ (A : P) (T' : 𝔾), valid A → (T' = k • G ∨ T' = -(k • G)) →
      den A = invZ ops.order r • (s • T' + ((-e) % ops.order) • G) → ¬ ops.isInfinity A = true →
      valid A ∧ den A ≠ 0 ∧ ops.order • den A = 0 ∧ verifies ops A e r s = .ok true := by
    intro A T' vA hT' dA hinf
    have hnT : ops.order • T' = 0 := by
      rcases hT' with h | h <;> rw [h]
      · rw [smul_comm, C.nG, smul_zero]
      · rw [smul_neg, smul_comm, C.nG, smul_zero, neg_zero]
    have hT0 : T' ≠ 0 := by
      rcases hT' with h | h <;> rw [h]
      · exact hkG
      · exact neg_ne_zero.mpr hkG
    have hxT : xc T' = some x0 := by
      rcases hT' with h | h <;> rw [h]
      · exact H.hx0
      · rw [C.xc_neg]; exact H.hx0
    have hA0 : den A ≠ 0 := fun h0 => hinf ((C.isInf A vA).mpr h0)
    have hAn : ops.order • den A = 0 := by
      rw [dA, smul_comm, smul_add, smul_comm _ s, smul_comm _ ((-e) % ops.order), hnT, C.nG]; simp
    refine ⟨vA, hA0, hAn, ?_⟩
    obtain ⟨b, hb, hiff⟩ := verifies_spec C.toPointOpsCorrect A vA e r s
    have hR : ((e * invZ ops.order s) % ops.order) • G + ((r * invZ ops.order s) % ops.order) • den A = T' := by
      rw [dA]
      exact recover_core C.nG hnT e r s (invZ ops.order s) (invZ ops.order r)
        (by rw [mul_comm]; exact hsi) (by rw [mul_comm]; exact hri)
    have hf : Fips ops.order G (den A) xc e r s :=
      ⟨r1, by omega, s1, by omega, by rw [hR]; exact hT0, x0, by rw [hR]; exact hxT, hrx⟩
    rw [hb, hiff.mpr hf]
  intro A hA
  rw [List.mem_filter] at hA
  obtain ⟨hmem, hinf⟩ := hA
  have hinf' : ¬ ops.isInfinity A = true := by simpa using hinf
  rcases List.mem_cons.mp hmem with h | h
  · subst h; exact main _ T v1 hT d1 hinf'
  · have h := List.mem_singleton.mp h
    subst h
    refine main _ (-T) v2 ?_ d2 hinf'
    rcases hT with h' | h'
    · right; rw [h']
    · left; rw [h', neg_neg]

/-- **The wrappers** `VerifyingKey.from_public_key_recovery_with_digest` (and, with `dg = H data`,
`from_public_key_recovery`): when the offered signature decodes to an honest `(r, s)` for the integer `e` the digest
converts to (same truncation flag as the signer), the returned keys are exactly the keys of `recover_public_keys`;
they contain the signer's key, are at most two, and each verifies that signature over that digest through
`verify_digest` with the same decoder and truncation flag. -/
theorem recovery_wrapper {σ : Type} (C : RecoverOpsCorrect ops G den xc valid) (sqrt : ℤ → ℤ → Res ℤ)
    (hsq : SqrtSpec sqrt ops.p) (d e k r s x0 : ℤ) (H : Honest ops G xc d e k r s x0)
    (dec : σ → ℕ → Res (ℕ × ℕ)) (sig : σ) (dg : Bytes) (allow : Bool)
    (hdec : dec sig ops.order.toNat = .ok (r.toNat, s.toNat))
    (htr : truncateAndConvertDigest dg (baselen ops) ops.order allow = .ok e) :
    ∃ l, fromPublicKeyRecoveryWithDigest ops sqrt dec sig dg allow = .ok l ∧ l.length ≤ 2 ∧
      (∃ A ∈ l, valid A ∧ den A = d • G) ∧ ∀ A ∈ l, verifyDigest ops A dec sig dg allow = .ok true := by
  obtain ⟨r1, r2, s1, s2⟩ := sign_range C.toPointOpsCorrect d e k r s H.hk H.hsig
  have hr : ((r.toNat : ℕ) : ℤ) = r := Int.toNat_of_nonneg (by omega)
  have hs : ((s.toNat : ℕ) : ℤ) = s := Int.toNat_of_nonneg (by omega)
  obtain ⟨l, hl, A, hA, vA, dA⟩ := recover_contains C sqrt hsq d e k r s x0 H
  have hall := recover_all_verify C sqrt hsq d e k r s x0 H l hl
  refine ⟨l.map ops.fromAffine, ?_, ?_, ⟨ops.fromAffine A, List.mem_map_of_mem hA, ?_⟩, ?_⟩
  · unfold fromPublicKeyRecoveryWithDigest
    simp only [hdec, htr, bind, Except.bind, hr, hs, hl]
    exact mapM_fromPublicPoint C l (fun B hB => ⟨(hall B hB).1, (hall B hB).2.1, (hall B hB).2.2.1⟩)
  · rw [List.length_map]; exact recover_length_le_two ops sqrt r s e l hl
  · obtain ⟨vF, dF⟩ := C.fromAffine A vA
    exact ⟨vF, by rw [dF, dA]⟩
  · intro B' hB'
    obtain ⟨B, hB, rfl⟩ := List.mem_map.mp hB'
    obtain ⟨vB, nB, oB, hvB⟩ := hall B hB
    obtain ⟨vF, dF⟩ := C.fromAffine B vB
    -- the converted object denotes the same element, hence verifies the same signature
    have hv : verifies ops (ops.fromAffine B) e r s = .ok true := by
      obtain ⟨b1, h1, i1⟩ := verifies_spec C.toPointOpsCorrect B vB e r s
      obtain ⟨b2, h2, i2⟩ := verifies_spec C.toPointOpsCorrect (ops.fromAffine B) vF e r s
      rw [dF] at i2
      rw [h1] at hvB; injection hvB with hb1
      rw [h2]; congr 1
      exact i2.mpr (i1.mp hb1)
    unfold verifyDigest
    simp only [htr, hdec, mapDecodeError, bind, Except.bind, hr, hs, hv]
    rfl

end Ecdsa
