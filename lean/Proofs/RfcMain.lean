import Proofs.RfcSpec
/-!
# Proofs.RfcMain — `Model.Rfc6979` computes the RFC 6979 candidate stream of `Proofs.RfcSpec`
-/
namespace Rfc
open Bits Rand

theorem bits2int_model (data : Bytes) (ql : Nat) (h : data ≠ []) :
    Rfc6979.bits2int data ql = .ok (bitsVal ((bitsOfBytes data).take ql)) := by
  have hne : data.isEmpty = false := by cases data <;> simp_all
  unfold Rfc6979.bits2int
  rw [bitsVal_take, bitsVal_bitsOfBytes, bitsOfBytes_length]
  simp only [hne, Bool.false_eq_true, if_false]
  split
  · rw [Nat.shiftRight_eq_div_pow]; congr 3; omega
  · rename_i hle
    have : 8 * data.length - ql = 0 := by omega
    rw [this]; simp

theorem bits2int_lt (q : Nat) (b : List Bool) : bits2int q b < 2 ^ qlen q := by
  unfold bits2int
  have h := bitsVal_lt (b.take (qlen q))
  have hl : (b.take (qlen q)).length ≤ qlen q := by simp [List.length_take]; omega
  exact Nat.lt_of_lt_of_le h (Nat.pow_le_pow_right (by decide) hl)

theorem rolen_eq_orderlen (q : Nat) : rolen q = Util.orderlen q := by
  rw [orderlen_eq]; rfl

/-- `z1 < 2^qlen ≤ 2q`: one conditional subtraction is `mod q` -/
theorem bits2int_lt_two_q (q : Nat) (hq : 1 ≤ q) (b : List Bool) : bits2int q b < 2 * q := by
  have h := bits2int_lt q b
  have ⟨h1, _⟩ := qlen_spec q hq
  have hpos : 1 ≤ qlen q := by unfold qlen bitLength1; split <;> omega
  have : 2 ^ qlen q = 2 * 2 ^ (qlen q - 1) := by
    have e : qlen q = (qlen q - 1) + 1 := by omega
    conv => lhs; rw [e, Nat.pow_succ]
    omega
  omega

theorem bits2octets_model (data : Bytes) (q : Nat) (hd : data ≠ []) (hq : 1 ≤ q) :
    Rfc6979.bits2octets data q = .ok (bits2octets q (bitsOfBytes data)) := by
  unfold Rfc6979.bits2octets
  rw [bits2int_model data _ hd]
  simp only [bind, Except.bind]
  have hz := bits2int_lt_two_q q hq (bitsOfBytes data)
  unfold bits2int qlen at hz
  generalize hzz : bitsVal (List.take (bitLength1 q) (bitsOfBytes data)) = z at *
  have hmod : (if ((z : Int) - (q : Int)) < 0 then (z : Int) else (z : Int) - (q : Int)).toNat = z % q := by
    split
    · rename_i hlt
      have : z < q := by omega
      rw [Nat.mod_eq_of_lt this]; simp
    · rename_i hge
      have hge' : q ≤ z := by omega
      have : z % q = z - q := by
        rw [Nat.mod_eq_sub_mod hge', Nat.mod_eq_of_lt (by omega)]
      omega
  rw [hmod]
  have hlt : z % q < 256 ^ Util.orderlen q := Nat.lt_trans (Nat.mod_lt _ (by omega)) (lt_pow_orderlen q)
  rw [numberToStringCrop_of_lt hlt]
  unfold bits2octets bits2int qlen
  rw [int2octets_eq_beFixed, rolen_eq_orderlen, hzz]

/-! ### step h.2 -/

theorem h2Loop_genT (hmac : Bytes → Bytes → Bytes) (K : Bytes) (hlen rol : Nat)
    (hlenH : ∀ k m, (hmac k m).length = hlen) (r : Nat) :
    ∀ (fuel : Nat) (v t : Bytes), rol ≤ t.length + r * hlen → (0 < r → t.length + (r - 1) * hlen < rol) → r ≤ fuel →
      Rfc6979.h2Loop hmac K rol fuel v t = some ((genT hmac K r v).1, t ++ (genT hmac K r v).2) := by
  induction r with
  | zero =>
    intro fuel v t h1 _ _
    have : ¬ t.length < rol := by omega
    cases fuel <;> simp [Rfc6979.h2Loop, this, genT]
  | succ r ih =>
    intro fuel v t h1 h2 h3
    have hlt : t.length < rol := by
      have := h2 (by omega)
      simp only [Nat.add_sub_cancel] at this
      omega
    obtain ⟨f, rfl⟩ : ∃ f, fuel = f + 1 := ⟨fuel - 1, by omega⟩
    rw [Rfc6979.h2Loop, if_pos hlt]
    simp only
    rw [ih f (hmac K v) (t ++ hmac K v)]
    · simp [genT, List.append_assoc]
    · rw [List.length_append, hlenH]; rw [Nat.succ_mul] at h1; omega
    · intro hr
      rw [List.length_append, hlenH]
      have := h2 (by omega)
      simp only [Nat.add_sub_cancel] at this
      obtain ⟨r', rfl⟩ : ∃ r', r = r' + 1 := ⟨r - 1, by omega⟩
      simp only [Nat.add_sub_cancel]
      rw [Nat.succ_mul] at this
      omega
    · omega

theorem genT_length (hmac : Bytes → Bytes → Bytes) (K : Bytes) (hlen : Nat)
    (hlenH : ∀ k m, (hmac k m).length = hlen) (r : Nat) (v : Bytes) : (genT hmac K r v).2.length = r * hlen := by
  induction r generalizing v with
  | zero => simp [genT]
  | succ r ih => simp [genT, ih, hlenH, Nat.succ_mul, Nat.add_comm]

theorem qlen_pos (q : Nat) : 1 ≤ qlen q := by unfold qlen bitLength1; split <;> omega

theorem h2Loop_blocks (hmac : Bytes → Bytes → Bytes) (K v : Bytes) (hlen q : Nat) (hh : 0 < hlen)
    (hlenH : ∀ k m, (hmac k m).length = hlen) :
    Rfc6979.h2Loop hmac K (rolen q) (rolen q) v [] = some (genT hmac K (blocks hlen q) v) ∧ 0 < blocks hlen q := by
  have ⟨b1, b2⟩ := blocks_spec hlen q hh
  have hq := qlen_pos q
  have hbpos : 0 < blocks hlen q := by
    rcases Nat.eq_zero_or_pos (blocks hlen q) with h | h
    · rw [h] at b1; omega
    · exact h
  refine ⟨?_, hbpos⟩
  have key := h2Loop_genT hmac K hlen (rolen q) hlenH (blocks hlen q) (rolen q) v []
  simp only [List.length_nil, Nat.zero_add, List.nil_append] at key
  rw [key]
  · have e : 8 * hlen * blocks hlen q = 8 * (blocks hlen q * hlen) := by
      rw [Nat.mul_assoc, Nat.mul_comm hlen]
    unfold rolen; omega
  · intro _
    have := b2 hbpos
    have e : 8 * hlen * (blocks hlen q - 1) = 8 * ((blocks hlen q - 1) * hlen) := by
      rw [Nat.mul_assoc, Nat.mul_comm hlen]
    unfold rolen; omega
  · have := b2 hbpos
    have hle : blocks hlen q - 1 ≤ hlen * (blocks hlen q - 1) := Nat.le_mul_of_pos_left _ hh
    have e : 8 * hlen * (blocks hlen q - 1) = 8 * (hlen * (blocks hlen q - 1)) := Nat.mul_assoc _ _ _
    unfold rolen; omega

/-! ### the outer loop -/

/-- number of acceptable candidates among the first `j` of the stream started at `kv` -/
def countAcc (hmac : Bytes → Bytes → Bytes) (hlen q : Nat) : Nat → Bytes × Bytes → Nat
  | 0, _ => 0
  | j+1, kv => (if acceptable q (candidate hmac hlen q kv).1 then 1 else 0) + countAcc hmac hlen q j (candidate hmac hlen q kv).2

theorem countAcc_eq_filter (hmac : Bytes → Bytes → Bytes) (hlen q : Nat) (j : Nat) (kv : Bytes × Bytes) :
    countAcc hmac hlen q j kv = ((List.range j).filter (fun i => decide (acceptable q (candAt hmac hlen q i kv)))).length := by
  induction j generalizing kv with
  | zero => rfl
  | succ j ih =>
    rw [countAcc, ih, List.range_succ_eq_map, List.filter_cons]
    have hm : (List.filter (fun i => decide (acceptable q (candAt hmac hlen q i kv))) (List.map Nat.succ (List.range j))).length
        = (List.filter (fun i => decide (acceptable q (candAt hmac hlen q i (candidate hmac hlen q kv).2))) (List.range j)).length := by
      rw [List.filter_map, List.length_map]; rfl
    by_cases hc : acceptable q (candidate hmac hlen q kv).1
    · have hd : decide (acceptable q (candAt hmac hlen q 0 kv)) = true := decide_eq_true hc
      rw [if_pos hc, if_pos hd, List.length_cons, hm]; omega
    · have hd : ¬ decide (acceptable q (candAt hmac hlen q 0 kv)) = true := fun h => hc (of_decide_eq_true h)
      rw [if_neg hc, if_neg hd, hm]; omega

theorem hLoop_spec (hmac : Bytes → Bytes → Bytes) (hlen q : Nat) (hh : 0 < hlen)
    (hlenH : ∀ k m, (hmac k m).length = hlen) (fuel : Nat) :
    ∀ (K V : Bytes) (retry : Int) (s : Nat),
      Rfc6979.hLoop hmac q (qlen q) (rolen q) fuel K V retry = some (.ok s) →
      ∃ j, candAt hmac hlen q j (K, V) = s ∧ acceptable q s ∧ countAcc hmac hlen q j (K, V) = retry.toNat := by
  induction fuel with
  | zero => intro K V retry s h; simp [Rfc6979.hLoop] at h
  | succ f ih =>
    intro K V retry s h
    unfold Rfc6979.hLoop at h
    have ⟨hT, hbpos⟩ := h2Loop_blocks hmac K V hlen q hh hlenH
    rw [hT] at h
    simp only at h
    have hTne : (genT hmac K (blocks hlen q) V).2 ≠ [] := by
      intro he
      have := genT_length hmac K hlen hlenH (blocks hlen q) V
      rw [he] at this
      simp only [List.length_nil] at this
      have : 0 < blocks hlen q * hlen := Nat.mul_pos hbpos hh
      omega
    rw [bits2int_model _ _ hTne] at h
    simp only at h
    have hcand : (candidate hmac hlen q (K, V)).1 = bitsVal (List.take (qlen q) (bitsOfBytes (genT hmac K (blocks hlen q) V).2)) := rfl
    have hnext : (candidate hmac hlen q (K, V)).2 =
        (hmac K ((genT hmac K (blocks hlen q) V).1 ++ [0]),
         hmac (hmac K ((genT hmac K (blocks hlen q) V).1 ++ [0])) (genT hmac K (blocks hlen q) V).1) := rfl
    rw [← hcand] at h
    split at h
    · rename_i hacc
      split at h
      · rename_i hr
        simp only [Option.some.injEq, Except.ok.injEq] at h
        subst h
        refine ⟨0, rfl, hacc, ?_⟩
        simp only [countAcc]; omega
      · rename_i hr
        obtain ⟨j, hj, hacc', hcnt⟩ := ih _ _ _ _ h
        refine ⟨j + 1, hj, hacc', ?_⟩
        show (if acceptable q (candidate hmac hlen q (K, V)).1 then 1 else 0) + countAcc hmac hlen q j (candidate hmac hlen q (K, V)).2 = _
        have hacc2 : acceptable q (candidate hmac hlen q (K, V)).1 := hacc
        rw [if_pos hacc2, hnext, hcnt]; omega
    · rename_i hacc
      obtain ⟨j, hj, hacc', hcnt⟩ := ih _ _ _ _ h
      refine ⟨j + 1, hj, hacc', ?_⟩
      show (if acceptable q (candidate hmac hlen q (K, V)).1 then 1 else 0) + countAcc hmac hlen q j (candidate hmac hlen q (K, V)).2 = _
      have hacc2 : ¬ acceptable q (candidate hmac hlen q (K, V)).1 := hacc
      rw [if_neg hacc2, hnext, hcnt]; omega

/-- the model's state after steps b–g is the specification's -/
theorem initKV_model (hmac : Bytes → Bytes → Bytes) (hlen q x : Nat) (h1 extra : Bytes) :
    Rfc6979.initKV hmac hlen (int2octets (rolen q) x ++ bits2octets q (bitsOfBytes h1) ++ extra)
      = initKV hmac hlen q x h1 extra := rfl

theorem generateK_spec (hmac : Bytes → Bytes → Bytes) (hlen : Nat) (hh : 0 < hlen)
    (hlenH : ∀ k m, (hmac k m).length = hlen) (q x : Nat) (h1 extra : Bytes) (retry : Int) (fuel : Nat) (s : Nat)
    (h : Rfc6979.generateK hmac hlen q x h1 retry extra fuel = some (.ok s)) :
    IsNthAcceptable q (stream hmac hlen q x h1 extra) retry.toNat s ∧ x < 256 ^ rolen q ∧ h1 ≠ [] := by
  unfold Rfc6979.generateK at h
  simp only at h
  split at h
  · cases h
  · rename_i bx0 hx
    have ⟨hbx0, hxlt⟩ := numberToString_ok hx
    split at h
    · cases h
    · rename_i bx1 hb
      have hne : h1 ≠ [] := by
        intro he; subst he
        simp [Rfc6979.bits2octets, Rfc6979.bits2int, bind, Except.bind] at hb
      -- q ≥ 1, otherwise no candidate is ever accepted
      have hkv : ∀ kv : Bytes × Bytes, Rfc6979.hLoop hmac q (qlen q) (rolen q) fuel kv.1 kv.2 retry = some (.ok s) →
          IsNthAcceptable q (fun i => candAt hmac hlen q i kv) retry.toNat s := by
        intro kv hk
        obtain ⟨j, hj, hacc, hcnt⟩ := hLoop_spec hmac hlen q hh hlenH fuel kv.1 kv.2 retry s hk
        exact ⟨j, hj, hacc, by rw [← countAcc_eq_filter]; exact hcnt⟩
      have hres := hkv _ h
      have hq : 1 ≤ q := by
        obtain ⟨_, _, hacc, _⟩ := hres
        unfold acceptable at hacc; omega
      rw [bits2octets_model h1 q hne hq] at hb
      simp only [Except.ok.injEq] at hb
      refine ⟨?_, by rw [rolen_eq_orderlen]; exact hxlt, hne⟩
      unfold stream
      rw [← initKV_model, int2octets_eq_beFixed, rolen_eq_orderlen, ← hbx0, hb]
      exact hres

end Rfc

namespace Rfc
open Bits Rand

/-- converse of `hLoop_spec`: if the `j`-th candidate is acceptable and exactly `retry` acceptable ones precede it, the loop returns it -/
theorem hLoop_complete (hmac : Bytes → Bytes → Bytes) (hlen q : Nat) (hh : 0 < hlen)
    (hlenH : ∀ k m, (hmac k m).length = hlen) (j : Nat) :
    ∀ (fuel : Nat) (K V : Bytes) (retry : Int) (s : Nat), j < fuel →
      candAt hmac hlen q j (K, V) = s → acceptable q s → countAcc hmac hlen q j (K, V) = retry.toNat →
      Rfc6979.hLoop hmac q (qlen q) (rolen q) fuel K V retry = some (.ok s) := by
  induction j with
  | zero =>
    intro fuel K V retry s hf hs hacc hcnt
    obtain ⟨f, rfl⟩ : ∃ f, fuel = f + 1 := ⟨fuel - 1, by omega⟩
    unfold Rfc6979.hLoop
    have ⟨hT, hbpos⟩ := h2Loop_blocks hmac K V hlen q hh hlenH
    rw [hT]
    simp only
    have hTne : (genT hmac K (blocks hlen q) V).2 ≠ [] := by
      intro he
      have := genT_length hmac K hlen hlenH (blocks hlen q) V
      rw [he] at this
      simp only [List.length_nil] at this
      have : 0 < blocks hlen q * hlen := Nat.mul_pos hbpos hh
      omega
    rw [bits2int_model _ _ hTne]
    simp only
    have hcand : bitsVal (List.take (qlen q) (bitsOfBytes (genT hmac K (blocks hlen q) V).2)) = s := hs
    rw [hcand]
    have hacc' : 1 ≤ s ∧ s < q := hacc
    simp only [countAcc] at hcnt
    rw [if_pos hacc', if_pos (by omega)]
  | succ j ih =>
    intro fuel K V retry s hf hs hacc hcnt
    obtain ⟨f, rfl⟩ : ∃ f, fuel = f + 1 := ⟨fuel - 1, by omega⟩
    unfold Rfc6979.hLoop
    have ⟨hT, hbpos⟩ := h2Loop_blocks hmac K V hlen q hh hlenH
    rw [hT]
    simp only
    have hTne : (genT hmac K (blocks hlen q) V).2 ≠ [] := by
      intro he
      have := genT_length hmac K hlen hlenH (blocks hlen q) V
      rw [he] at this
      simp only [List.length_nil] at this
      have : 0 < blocks hlen q * hlen := Nat.mul_pos hbpos hh
      omega
    rw [bits2int_model _ _ hTne]
    simp only
    have hcnt' : (if acceptable q (candidate hmac hlen q (K, V)).1 then 1 else 0) +
        countAcc hmac hlen q j (candidate hmac hlen q (K, V)).2 = retry.toNat := hcnt
    have hs' : candAt hmac hlen q j (candidate hmac hlen q (K, V)).2 = s := hs
    by_cases hc0 : acceptable q (candidate hmac hlen q (K, V)).1
    · have hc0' : 1 ≤ bitsVal (List.take (qlen q) (bitsOfBytes (genT hmac K (blocks hlen q) V).2)) ∧
          bitsVal (List.take (qlen q) (bitsOfBytes (genT hmac K (blocks hlen q) V).2)) < q := hc0
      rw [if_pos hc0] at hcnt'
      rw [if_pos hc0', if_neg (by omega)]
      exact ih f (candidate hmac hlen q (K, V)).2.1 (candidate hmac hlen q (K, V)).2.2 (retry - 1) s (by omega) hs' hacc
        (by show countAcc hmac hlen q j (candidate hmac hlen q (K, V)).2 = _; omega)
    · have hc0' : ¬ (1 ≤ bitsVal (List.take (qlen q) (bitsOfBytes (genT hmac K (blocks hlen q) V).2)) ∧
          bitsVal (List.take (qlen q) (bitsOfBytes (genT hmac K (blocks hlen q) V).2)) < q) := hc0
      rw [if_neg hc0] at hcnt'
      rw [if_neg hc0']
      exact ih f (candidate hmac hlen q (K, V)).2.1 (candidate hmac hlen q (K, V)).2.2 retry s (by omega) hs' hacc
        (by show countAcc hmac hlen q j (candidate hmac hlen q (K, V)).2 = _; omega)

theorem generateK_complete (hmac : Bytes → Bytes → Bytes) (hlen : Nat) (hh : 0 < hlen)
    (hlenH : ∀ k m, (hmac k m).length = hlen) (q x : Nat) (h1 extra : Bytes) (retry : Int) (fuel j s : Nat)
    (hx : x < 256 ^ rolen q) (hne : h1 ≠ []) (hj : j < fuel)
    (hs : stream hmac hlen q x h1 extra j = s) (hacc : acceptable q s)
    (hcnt : ((List.range j).filter (fun i => decide (acceptable q (stream hmac hlen q x h1 extra i)))).length = retry.toNat) :
    Rfc6979.generateK hmac hlen q x h1 retry extra fuel = some (.ok s) := by
  have hq : 1 ≤ q := by unfold acceptable at hacc; omega
  unfold Rfc6979.generateK
  simp only
  rw [rolen_eq_orderlen] at hx
  rw [numberToString_of_lt hx, bits2octets_model h1 q hne hq]
  simp only
  have hkv : Rfc6979.initKV hmac hlen (beFixed (Util.orderlen q) x ++ bits2octets q (bitsOfBytes h1) ++ extra)
      = initKV hmac hlen q x h1 extra := by
    rw [← initKV_model, int2octets_eq_beFixed, rolen_eq_orderlen]
  rw [hkv]
  unfold stream at hs hcnt
  generalize initKV hmac hlen q x h1 extra = kv at *
  obtain ⟨K, V⟩ := kv
  exact hLoop_complete hmac hlen q hh hlenH j fuel K V retry s hj hs hacc (by rw [countAcc_eq_filter]; exact hcnt)

end Rfc
