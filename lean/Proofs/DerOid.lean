import Proofs.DerNum
import Proofs.DerTlv
/-!
# Proofs.DerOid — OBJECT IDENTIFIER: `remove_object` inverts `encode_oid`, accepts only its output, fails only
with `UnexpectedDER` (the fuel of the `while body:` loop never runs out, `numbers.pop(0)` never fails).
-/
set_option linter.unusedSimpArgs false
namespace Der

def encNums (ns : List Nat) : Bytes := (ns.map encodeNumber).flatten

theorem encNums_nil : encNums [] = [] := rfl
theorem encNums_cons (n : Nat) (ns : List Nat) : encNums (n :: ns) = encodeNumber n ++ encNums ns := rfl

theorem oidBody_eq (first second : Nat) (pieces : List Nat) :
    oidBody first second pieces = encNums ((40 * first + second) :: pieces) := rfl

theorem isEmpty_false_of_ne {s : Bytes} (h : s ≠ []) : s.isEmpty = false := by
  cases s with
  | nil => exact absurd rfl h
  | cons => rfl

theorem readNumbers_encode (ns : List Nat) (fuel : Nat) (hf : (encNums ns).length ≤ fuel) :
    readNumbers fuel (encNums ns) = .ok ns := by
  induction ns generalizing fuel with
  | nil => cases fuel <;> simp [readNumbers, encNums_nil]
  | cons n ns ih =>
    rw [encNums_cons] at hf ⊢
    have hpos := encodeNumber_length_pos n
    simp only [List.length_append] at hf
    obtain ⟨f, rfl⟩ : ∃ f, fuel = f + 1 := ⟨fuel - 1, by omega⟩
    have hne : (encodeNumber n ++ encNums ns).isEmpty = false :=
      isEmpty_false_of_ne (by simp [encodeNumber_ne_nil n])
    simp only [readNumbers, hne, Bool.false_eq_true, if_false, readNumber_encode, bind, Except.bind,
      List.drop_left', ih f (by omega)]

theorem readNumbers_ok {fuel : Nat} {body : Bytes} {ns : List Nat} (h : readNumbers fuel body = .ok ns) :
    body = encNums ns := by
  induction fuel generalizing body ns with
  | zero =>
    simp only [readNumbers] at h
    split at h
    · rename_i he; cases h; rw [encNums_nil]; simpa using he
    · cases h
  | succ f ih =>
    simp only [readNumbers] at h
    split at h
    · rename_i he; cases h; rw [encNums_nil]; simpa using he
    · simp only [bind, Except.bind] at h
      split at h
      · cases h
      · rename_i v hv
        obtain ⟨n, ll⟩ := v
        simp only at h
        split at h
        · cases h
        · rename_i ns' hns
          simp only [Except.ok.injEq] at h
          subst h
          obtain ⟨rest, hs, hll⟩ := readNumber_ok hv
          have := ih hns
          rw [hs, hll, List.drop_left'] at this
          rw [encNums_cons, ← this, ← hs]
          rfl

theorem readNumbers_err {fuel : Nat} {body : Bytes} {e : PyErr} (hf : body.length ≤ fuel)
    (h : readNumbers fuel body = .error e) : e = .unexpectedDER := by
  induction fuel generalizing body with
  | zero =>
    have : body = [] := List.length_eq_zero_iff.mp (by omega)
    subst this; simp [readNumbers] at h
  | succ f ih =>
    simp only [readNumbers] at h
    split at h
    · cases h
    · rename_i hne
      simp only [bind, Except.bind] at h
      split at h
      · rename_i e' he
        cases h
        exact readNumber_err he
      · rename_i v hv
        obtain ⟨n, ll⟩ := v
        simp only at h
        split at h
        · rename_i e' he
          cases h
          obtain ⟨rest, hs, hll⟩ := readNumber_ok hv
          have hpos := encodeNumber_length_pos n
          refine ih ?_ he
          simp only [List.length_drop]; omega
        · cases h

/-- the first two arcs as `remove_object` splits them off the first sub-identifier -/
theorem arcs_split (first second : Nat) (h : OidDomain first second) :
    (if 40 * first + second < 80 then (40 * first + second) / 40 else 2) = first
    ∧ (40 * first + second) - 40 * (if 40 * first + second < 80 then (40 * first + second) / 40 else 2) = second := by
  unfold OidDomain at h
  rcases h with ⟨h1, h2⟩ | h
  · rw [if_pos (by omega)]; omega
  · subst h; rw [if_neg (by omega)]; omega

theorem arcs_join (n0 : Nat) :
    OidDomain (if n0 < 80 then n0 / 40 else 2) (n0 - 40 * (if n0 < 80 then n0 / 40 else 2))
    ∧ 40 * (if n0 < 80 then n0 / 40 else 2) + (n0 - 40 * (if n0 < 80 then n0 / 40 else 2)) = n0 := by
  unfold OidDomain
  split
  · refine ⟨Or.inl ⟨by omega, by omega⟩, by omega⟩
  · exact ⟨Or.inr rfl, by omega⟩

/-- the checks `remove_object` makes on the content octets -/
def objCheck (body rest : Bytes) : Res (List Nat × Bytes) :=
  if body.isEmpty then .error .unexpectedDER
  else
    match readNumbers body.length body with
    | .error e => .error e
    | .ok [] => .error .indexError
    | .ok (n0 :: tail) =>
      let first := if n0 < 80 then n0 / 40 else 2
      let second := n0 - 40 * first
      .ok (first :: second :: tail, rest)

theorem removeObject_tlv (body rest : Bytes) (hl : body.length < 256 ^ 127) :
    removeObject (0x06 :: (encodeLength body.length ++ body ++ rest)) = objCheck body rest := by
  unfold removeObject objCheck
  simp only [List.drop_succ_cons, List.drop_zero, List.append_assoc]
  rw [if_neg (by simp), readLength_encodeLength _ hl]
  simp only [bind, Except.bind]
  rw [drop_hdr, drop_hdr_add]
  simp only [List.take_left', List.drop_left']
  by_cases he : body.isEmpty
  · simp [he]
  · simp only [he, Bool.false_eq_true, if_false, ne_eq, not_true_eq_false]
    cases readNumbers body.length body with
    | error e => rfl
    | ok ns =>
      cases ns with
      | nil => rfl
      | cons n0 tail => rfl

/-- either the input is a TLV with tag 6 whose (non-empty) content fits, or the reader fails with `UnexpectedDER` -/
theorem removeObject_cases (s : Bytes) :
    (∃ body rest0, s = 0x06 :: (encodeLength body.length ++ body ++ rest0) ∧ body.length < 256 ^ 127)
    ∨ removeObject s = .error .unexpectedDER := by
  match s with
  | [] => right; rfl
  | t :: s' =>
    by_cases ht : t = 0x06
    · subst ht
      cases hrl : readLength ((0x06 :: s').drop 1) with
      | error e =>
        right; unfold removeObject; simp only [bind, Except.bind, hrl, readLength_err hrl]; simp
      | ok v =>
        obtain ⟨length, llen⟩ := v
        have hrl' := hrl
        simp only [List.drop_succ_cons, List.drop_zero] at hrl'
        obtain ⟨hlt, hk, r, hs⟩ := readLength_ok hrl'
        subst hk hs
        by_cases hfit : length ≤ r.length
        · left
          refine ⟨r.take length, r.drop length, ?_, ?_⟩
          · rw [List.length_take, Nat.min_eq_left hfit, List.append_assoc, List.take_append_drop]
          · rw [List.length_take, Nat.min_eq_left hfit]; exact hlt
        · right
          unfold removeObject
          simp only [bind, Except.bind, hrl]
          rw [drop_hdr]
          have hlen : (r.take length).length ≠ length := by
            rw [List.length_take]; omega
          by_cases he : (r.take length).isEmpty
          · simp [he]
          · simp only [he, Bool.false_eq_true, if_false, ne_eq, hlen, not_false_eq_true, if_true]
            split <;> rfl
    · right; unfold removeObject; simp [ht]

theorem removeObject_encode (first second : Nat) (pieces : List Nat) (rest : Bytes)
    (hd : OidDomain first second) (hl : (oidBody first second pieces).length < 256 ^ 127) :
    removeObject ([0x06] ++ encodeLength (oidBody first second pieces).length ++ oidBody first second pieces ++ rest)
      = .ok (first :: second :: pieces, rest) := by
  have := removeObject_tlv (oidBody first second pieces) rest hl
  simp only [List.cons_append, List.nil_append, List.append_assoc] at this ⊢
  rw [this]
  unfold objCheck
  have hne : (oidBody first second pieces).isEmpty = false := by
    apply isEmpty_false_of_ne
    rw [oidBody_eq, encNums_cons]; simp [encodeNumber_ne_nil]
  rw [hne, oidBody_eq, readNumbers_encode _ _ (Nat.le_refl _)]
  simp only [Bool.false_eq_true, if_false]
  obtain ⟨h1, h2⟩ := arcs_split first second hd
  rw [h1] at h2 ⊢
  rw [h2]

theorem removeObject_ok {s rest : Bytes} {arcs : List Nat} (h : removeObject s = .ok (arcs, rest)) :
    ∃ first second pieces, arcs = first :: second :: pieces ∧ OidDomain first second
      ∧ (oidBody first second pieces).length < 256 ^ 127
      ∧ s = [0x06] ++ encodeLength (oidBody first second pieces).length ++ oidBody first second pieces ++ rest := by
  rcases removeObject_cases s with ⟨body, rest0, rfl, hl⟩ | hc
  · rw [removeObject_tlv body rest0 hl] at h
    unfold objCheck at h
    split at h
    · cases h
    · split at h
      · cases h
      · cases h
      · rename_i n0 tail hrn
        simp only [Except.ok.injEq, Prod.mk.injEq] at h
        obtain ⟨rfl, rfl⟩ := h
        have hb := readNumbers_ok hrn
        obtain ⟨hdom, hjoin⟩ := arcs_join n0
        refine ⟨_, _, tail, rfl, hdom, ?_, ?_⟩
        · rw [oidBody_eq, hjoin, ← hb]; exact hl
        · rw [oidBody_eq, hjoin, ← hb]; simp
  · rw [hc] at h; cases h

theorem removeObject_err {s : Bytes} {e : PyErr} (h : removeObject s = .error e) : e = .unexpectedDER := by
  rcases removeObject_cases s with ⟨body, rest0, rfl, hl⟩ | hc
  · rw [removeObject_tlv body rest0 hl] at h
    unfold objCheck at h
    split at h
    · cases h; rfl
    · rename_i hne
      split at h
      · rename_i e' he; cases h; exact readNumbers_err (Nat.le_refl _) he
      · rename_i hrn
        have hb := readNumbers_ok hrn
        rw [encNums_nil] at hb
        subst hb; simp at hne
      · cases h
  · rw [hc] at h; cases h; rfl

/-! ### `encode_oid` -/

theorem encodeOid_ok {first second : Nat} {pieces : List Nat} {e : Bytes} (h : encodeOid first second pieces = .ok e) :
    OidDomain first second
    ∧ e = [0x06] ++ encodeLength (oidBody first second pieces).length ++ oidBody first second pieces := by
  unfold encodeOid at h
  split at h
  · rename_i hd
    simp only [bind, Except.bind] at h
    split at h
    · cases h
    · rename_i l hl
      rw [encodeLengthPy_ok hl] at h
      simp only [Except.ok.injEq] at h
      exact ⟨hd, h.symm⟩
  · cases h

theorem encodeOid_eq (first second : Nat) (pieces : List Nat) (hd : OidDomain first second)
    (hl : (oidBody first second pieces).length < 256 ^ 127) :
    encodeOid first second pieces
      = .ok ([0x06] ++ encodeLength (oidBody first second pieces).length ++ oidBody first second pieces) := by
  unfold encodeOid
  rw [if_pos hd]
  simp only [bind, Except.bind]
  rw [encodeLengthPy_eq _ hl]

theorem encodeOidPy_nat (first second : Nat) (pieces : List Nat) :
    encodeOidPy (first : Int) (second : Int) pieces = encodeOid first second pieces := by
  unfold encodeOidPy
  by_cases hd : OidDomain first second
  · rw [if_pos]
    · simp
    · unfold OidDomain at hd; omega
  · rw [if_neg]
    · unfold encodeOid; rw [if_neg hd]
    · unfold OidDomain at hd; omega

/-- `encode_oid` with a negative first or second arc fails its `assert` -/
theorem encodeOidPy_neg (first second : Int) (pieces : List Nat) (h : first < 0 ∨ second < 0) :
    encodeOidPy first second pieces = .error .assertionError := by
  unfold encodeOidPy; rw [if_neg (by omega)]

end Der
