import Proofs.CertAffine
import Generated.Curves
/-!
# Proofs.NamedChecks — kernel evaluation on the GENERATED curve table (`Gen.curveTable`, rewritten from `curves.py` /
`ecdsa.py` on every run): for each of the 17 rows p, n odd, base point reduced and on the curve, 4a³ + 27b² ≢ 0 mod p,
and **n • (Gx, Gy) = ∞** by the certified reference multiplication `CertAff.mul` (≈ 35 s for the whole table).
-/
namespace Named

/-- everything about a row that kernel evaluation decides -/
def rowChecks (r : Gen.CurveRow) : Bool :=
  decide (2 < r.p) && r.p % 2 == 1 && decide (1 < r.n) && r.n % 2 == 1 &&
  decide (r.gx < r.p) && decide (0 < r.gy) && decide (r.gy < r.p) &&
  ((r.gy : Int) * r.gy - ((r.gx : Int) ^ 3 + r.a * r.gx + r.b)) % (r.p : Int) == 0 &&
  (4 * r.a ^ 3 + 27 * r.b ^ 2) % (r.p : Int) != 0 &&
  CertAff.mulIsZero r.p r.a r.n r.gx r.gy

set_option maxRecDepth 100000 in
/-- all 17 rows pass; in particular `n • G = ∞` on every curve -/
theorem all_rows_checked : ∀ r ∈ Gen.curveTable, rowChecks r = true := by decide +kernel

theorem table_length : Gen.curveTable.length = 17 := by decide +kernel

end Named
