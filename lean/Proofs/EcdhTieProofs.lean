import Proofs.EcdhTie
/-!
# Proofs.EcdhTieProofs — `Ecdh.step` / `Ecdh.init` are the execution of the generated programs
-/
namespace EcdhTie
open Ecdh Gen.Ecdh

attribute [ecdh_run] callPublic stepSource opCall ofCrv toOut run_method run_cons run_nil run_ifDo run_ifRaise run_falsy run_truthy
  run_ne run_eq run_notEq3 run_selfAttr run_attr run_var run_noneLit run_infinity run_setSelf run_setLocal run_ret
  run_exprStmt run_mcall0 run_mul run_selfCall0 run_selfCall1 run_call1 run_call2 run_callKw run_call1Kw
  andThen_ok andThen_error methods m_init m_get_shared_secret m_set_curve m_generate_private_key m_load_private_key
  m_load_private_key_bytes m_load_private_key_der m_load_private_key_pem m_get_public_key m_load_received_public_key
  m_load_received_public_key_bytes m_load_received_public_key_der m_load_received_public_key_pem
  m_generate_sharedsecret_bytes m_generate_sharedsecret bindParams getSelf setSelf getAttr lookupVar truthy eqV
  callMethod0 callExt mulV excOf Except.map Except.bind bind
  step viaLoader loadPrivate loadPublic getSharedSecret secretBytes Ecdh.init

variable {Crv Pt Ent : Type} [DecidableEq Crv]

theorem loadPrivate_source (env : Env Crv Pt Ent) (ent : Option Ent) (s : State Crv Pt) (sk : SKey Crv Pt) :
    (let r := callPublic env ent s "load_private_key" [.sk sk]; (r.1, r.2.bind toOut)) = loadPrivate s sk := by
  obtain ⟨c, p, q⟩ := s
  cases c with
  | none => simp [ecdh_run]
  | some c => by_cases h : c = sk.curve <;> simp [h, ecdh_run]

end EcdhTie

namespace EcdhTie
open Ecdh Gen.Ecdh
variable {Crv Pt Ent : Type} [DecidableEq Crv]

theorem loadPublic_source (env : Env Crv Pt Ent) (ent : Option Ent) (s : State Crv Pt) (vk : VKey Crv Pt) :
    (let r := callPublic env ent s "load_received_public_key" [.vk vk]; (r.1, r.2.bind toOut)) = loadPublic s vk := by
  obtain ⟨c, p, q⟩ := s
  cases c with
  | none => simp [ecdh_run]
  | some c => by_cases h : c = vk.curve <;> simp [h, ecdh_run]

/-- the shared-secret computation: guards in source order, the multiplication, the INFINITY test, `.x()` -/
theorem getSharedSecret_source (env : Env Crv Pt Ent) (s : State Crv Pt) :
    stepSource env s .secret = step env s .secret := by
  obtain ⟨c, p, q⟩ := s
  cases p with
  | none => simp [ecdh_run]
  | some sk =>
    cases q with
    | none => simp [ecdh_run]
    | some vk =>
      cases c with
      | none => simp [ecdh_run]
      | some c =>
        by_cases h1 : sk.curve = c
        · by_cases h2 : c = vk.curve
          · cases hm : env.mul vk.point sk.d with
            | error e => simp [h1, h2, hm, ecdh_run]
            | ok R =>
              cases hi : env.isInf R with
              | true => simp [h1, h2, hm, hi, ecdh_run]
              | false =>
                cases hx : env.xOf R with
                | error e => simp [h1, h2, hm, hi, hx, ecdh_run]
                | ok v => simp [h1, h2, hm, hi, hx, ecdh_run]
          · simp [h1, h2, ecdh_run]
        · simp [h1, ecdh_run]

end EcdhTie
