import Model.PointObj
import Mathlib.Algebra.Group.Basic
/-!
# Proofs.PointObjAbs — the abstract machine of C19: a heap of *values*

An abstract object is the group element it denotes plus its immutable attributes (declared order, generator
flag); keys are the same reference structures as in `Model/PointObj.lean`.  There is **no hidden state**: no
coordinate triple, no table.  The abstract operations are the value semantics with object identity
(which object is returned, what is allocated), written in the shape of the concrete ones so that the
refinement proof (`Proofs/PointObjSim.lean`) can follow the code.

`G` is any commutative group with decidable equality, `ax`/`ay` give the affine coordinates of a non-zero
element, `c` is the curve all objects of the heap live on.
-/
namespace PointObj
open Curve

structure ASpec (G : Type) where
  ax : G → Int
  ay : G → Int
  c : CurveFp

inductive AObj (G : Type)
  | pj (g : G) (order : Option Int) (gen : Bool)
  | aff (g : G) (order : Option Int)
  | infc
  | key (gen point : Ref)
  | skey (d : Int) (vk : Nat)

abbrev AHeap (G : Type) := List (AObj G)

/-- a point operand as the abstract machine sees it -/
inductive AVal (G : Type)
  | inf
  | jac (g : G) (order : Option Int) (gen : Bool)
  | aff (g : G) (order : Option Int)

def AM (G : Type) (α : Type) := AHeap G → Res α × AHeap G

namespace AM
variable {G : Type}
def pure {α} (a : α) : AM G α := fun h => (.ok a, h)
def bind {α β} (m : AM G α) (f : α → AM G β) : AM G β := fun h =>
  match m h with
  | (.ok a, h') => f a h'
  | (.error e, h') => (.error e, h')
instance : Monad (AM G) where
  pure := AM.pure
  bind := AM.bind
def raise {α} (e : PyErr) : AM G α := fun h => (.error e, h)
def lift {α} : Res α → AM G α
  | .ok a => AM.pure a
  | .error e => raise e
def getHeap : AM G (AHeap G) := fun h => (.ok h, h)
def setCell (i : Nat) (o : AObj G) : AM G Unit := fun h => (.ok (), h.set i o)
def alloc (o : AObj G) : AM G Ref := fun h => (.ok (.obj h.length), h ++ [o])
end AM
open AM

section
variable {G : Type} [AddCommGroup G] [DecidableEq G] (sp : ASpec G)

def aptOf (h : AHeap G) : Ref → Option (AVal G)
  | .inf => some .inf
  | .obj i => match h[i]? with
    | some (.pj g o gen) => some (.jac g o gen)
    | some (.aff g o) => some (.aff g o)
    | some .infc => some .inf
    | _ => none

def aisInfCopy (h : AHeap G) : Ref → Bool
  | .inf => false
  | .obj i => match h[i]? with
    | some .infc => true
    | _ => false

def agetPt (r : Ref) : AM G (AVal G) := fun h =>
  match aptOf h r with
  | some v => (.ok v, h)
  | none => (.error .other, h)

/-- is the cell a `PointJacobi`? (the abstract counterpart of `getPJ`) -/
def agetPJ (r : Ref) : AM G (Option (G × Option Int × Bool)) := fun h =>
  match r with
  | .inf => (.ok none, h)
  | .obj i => match h[i]? with
    | some (.pj g o gen) => (.ok (some (g, o, gen)), h)
    | _ => (.ok none, h)

/-- the abstract counterpart of `updPJ`: look at the value and attributes of the `PointJacobi` in cell `i`;
nothing is stored — a value has no hidden state -/
def aupdPJ {α} (i : Nat) (f : G → Option Int → Bool → Res α) : AM G α := fun h =>
  match h[i]? with
  | some (.pj g o gen) =>
    match f g o gen with
    | .ok a => (.ok a, h)
    | .error e => (.error e, h)
  | _ => (.error .other, h)

/-- a freshly computed value becomes a `PointJacobi` object, or is INFINITY -/
def aallocPJ (g : G) (order : Option Int) : AM G Ref :=
  if g = 0 then AM.pure .inf else alloc (.pj g order false)

def areadX (r : Ref) : AM G (Option Int) := do
  match ← agetPt r with
  | .inf => AM.pure none
  | .jac g _ _ => AM.pure (some (sp.ax g))
  | .aff g _ => AM.pure (some (sp.ax g))

def areadY (r : Ref) : AM G (Option Int) := do
  match ← agetPt r with
  | .inf => AM.pure none
  | .jac g _ _ => AM.pure (some (sp.ay g))
  | .aff g _ => AM.pure (some (sp.ay g))

def areadOrder (r : Ref) : AM G (Option Int) := do
  match ← agetPt r with
  | .inf => AM.pure none
  | .jac _ o _ => AM.pure o
  | .aff _ o => AM.pure o

/-- `scale()`: nothing happens to the value; the same object is returned -/
def ascaleObj (r : Ref) : AM G Ref := do
  match r, ← agetPJ r with
  | .obj i, some _ => do
    let _ ← aupdPJ i (fun _ _ _ => .ok ())
    AM.pure r
  | _, _ => do let _ ← agetPt r; raise .attributeError

def atoAffineObj (r : Ref) : AM G Ref := do
  match r, ← agetPJ r with
  | .obj i, some _ => do
    let (g, o) ← aupdPJ i (fun g o _ => .ok (g, o))
    alloc (.aff g o)
  | _, _ => do let _ ← agetPt r; raise .attributeError

def afromAffineObj (r : Ref) (gen : Bool) : AM G Ref := do
  match ← agetPt r with
  | .inf => raise .other
  | .jac g o _ => alloc (.pj g o gen)
  | .aff g o => alloc (.pj g o gen)

/-- `-P` for a `PointJacobi` (legacy points: outside the refinement, see `Covered`) -/
def anegObj (r : Ref) : AM G Ref := do
  match ← agetPt r with
  | .inf => AM.pure .inf
  | .jac g o _ => alloc (.pj (-g) o false)
  | .aff _ _ => raise .other

def adoubleObj (r : Ref) : AM G Ref := do
  match ← agetPt r with
  | .inf => AM.pure .inf
  | .jac g o _ => aallocPJ (g + g) o
  | .aff _ _ => raise .other

def apjAddObj (r : Ref) (g : G) (o : Option Int) (s : Ref) : AM G Ref := do
  match ← agetPt s with
  | .inf => AM.pure r
  | .jac h _ _ => aallocPJ (g + h) o
  | .aff h _ => aallocPJ (g + h) o

def aaddObj (r s : Ref) : AM G Ref := do
  match ← agetPt r, ← agetPt s with
  | .jac g o _, _ => apjAddObj r g o s
  | .inf, .inf => AM.pure r
  | .inf, .aff _ _ => AM.pure s
  | .inf, .jac h o _ => apjAddObj s h o r
  | .aff _ _, .jac h o _ => apjAddObj s h o r
  | .aff _ _, .inf => AM.pure r
  | .aff _ _, .aff _ _ => raise .other

/-- does `_maybe_precompute` succeed on an object with these attributes? -/
def genOK (o : Option Int) (gen : Bool) : Bool := !gen || (truthy o).isSome

/-- abstract result of `PointJacobi.__mul__` -/
inductive AMulRes (G : Type)
  | inf
  | self
  | fresh (g : G) (order : Option Int)

def amulState (k : Int) (g : G) (o : Option Int) (gen : Bool) : Res (AMulRes G) :=
  if k == 0 then .ok .inf
  else if k == 1 then .ok .self
  else if !(genOK o gen) then .error .assertionError
  else .ok (.fresh (k • g) o)

def amulObj (r : Ref) (k : Int) : AM G Ref := do
  match r, ← agetPt r with
  | _, .inf => AM.pure .inf
  | _, .aff _ _ => raise .other
  | .obj i, .jac _ _ _ => do
    match ← aupdPJ i (amulState k) with
    | .inf => AM.pure .inf
    | .self => AM.pure r
    | .fresh g o => aallocPJ g o
  | .inf, .jac _ _ _ => raise .other

/-- abstract `self * self_mul + other * other_mul` -/
def amulMulAdd (i j : Nat) (sm om : Int) : AM G Ref := do
  let r1 ← amulObj (.obj i) sm
  let r2 ← amulObj (.obj j) om
  aaddObj r1 r2

/-- abstract `_maybe_precompute()`: succeeds iff the attributes allow it; reports whether a table exists afterwards
(= the generator flag) -/
def aprecompute (_g : G) (o : Option Int) (gen : Bool) : Res Bool :=
  if genOK o gen then .ok gen else .error .assertionError

def amulAddMain (i j : Nat) (sm om : Int) : AM G Ref := do
  let tP ← aupdPJ i aprecompute
  let tQ ← aupdPJ j aprecompute
  if tP && tQ then amulMulAdd i j sm om
  else do
    let ord ← aupdPJ i (fun _ o _ => .ok o)
    let (sm, om) := match truthy ord with
      | some n => (pmod sm n, pmod om n)
      | none => (sm, om)
    let (g, og) ← aupdPJ i (fun g o _ => .ok (g, o))
    let (h, _) ← aupdPJ j (fun g o _ => .ok (g, o))
    if g + h = 0 then amulMulAdd i j sm om
    else aallocPJ (sm • g + om • h) og

def amulAddObj (r : Ref) (sm : Int) (s : Ref) (om : Int) : AM G Ref := do
  match r, ← agetPJ r with
  | .obj i, some _ => do
    let other ← agetPt s
    if (match other with | .inf => true | _ => false) || om == 0 then amulObj r sm
    else if sm == 0 then amulObj s om
    else
      match s, other with
      | .obj j, .jac _ _ _ => amulAddMain i j sm om
      | _, .aff g o => do
        match ← alloc (.pj g o false) with
        | .obj j => amulAddMain i j sm om
        | .inf => raise .other
      | _, _ => raise .other
  | _, _ => do let _ ← agetPt r; raise .attributeError

def aeqObj (r s : Ref) : AM G Bool := do
  let a ← agetPt r
  let b ← agetPt s
  let h ← getHeap
  let den : AVal G → G := fun v => match v with
    | .inf => 0
    | .jac g _ _ => g
    | .aff g _ => g
  match a, b with
  | .jac _ _ _, .inf => if aisInfCopy h s then AM.pure false else AM.pure (decide (den a = den b))
  | .inf, .jac _ _ _ => if aisInfCopy h r then AM.pure false else AM.pure (decide (den a = den b))
  | _, _ => AM.pure (decide (den a = den b))

def acopyPoint (r : Ref) : AM G Ref := do
  match r with
  | .inf => alloc .infc
  | .obj i =>
    let h ← getHeap
    match h[i]? with
    | some (.pj g o gen) => alloc (.pj g o gen)
    | some (.aff g o) => alloc (.aff g o)
    | some .infc => alloc .infc
    | _ => raise .other

def acopyKey (k : Nat) : AM G Nat := do
  let h ← getHeap
  match h[k]? with
  | some (.key g q) => do
    let g' ← acopyPoint g
    let q' ← if q = g then AM.pure g' else acopyPoint q
    match ← alloc (.key g' q') with
    | .obj n => AM.pure n
    | .inf => raise .other
  | _ => raise .other

def apickleObj (r : Ref) : AM G Ref := do
  match r with
  | .inf => acopyPoint r
  | .obj i =>
    let h ← getHeap
    match h[i]? with
    | some (.pj _ _ _) => acopyPoint r
    | some (.aff _ _) => acopyPoint r
    | some .infc => acopyPoint r
    | some (.key _ _) => do let n ← acopyKey i; AM.pure (.obj n)
    | some (.skey d vk) => do let n ← acopyKey vk; alloc (.skey d n)
    | none => raise .other

def agetKey (k : Nat) : AM G (Ref × Ref) := fun h =>
  match h[k]? with
  | some (.key g q) => (.ok (g, q), h)
  | _ => (.error .other, h)

def amkKeyObj (g r : Ref) : AM G Ref := do
  let q ← (match ← agetPt r with
    | .jac _ _ _ => (AM.pure r : AM G Ref)
    | .aff _ _ => afromAffineObj r false
    | .inf => raise .malformedPoint)
  let some x ← areadX sp q | raise .other
  let some y ← areadY sp q | raise .other
  let .jac _ go _ ← agetPt g | raise .other
  let p := sp.c.p
  if Gen.Ecdsa.pubkey_x_out x p || Gen.Ecdsa.pubkey_y_out y p then raise .malformedPoint
  else if (match go with | some n => Gen.Ecdsa.pubkey_no_order n | none => true) then raise .malformedPoint
  else alloc (.key g q)

def akeyPrecomputeObj (k : Nat) (lazy : Bool) : AM G Unit := do
  let (g, q) ← agetKey k
  let q' ← afromAffineObj q true
  setCell k (.key g q')
  if lazy then AM.pure () else do let _ ← amulObj q' 2; AM.pure ()

def akeySerObj (k : Nat) (enc : Nat) : AM G Bytes := do
  let (_, q) ← agetKey k
  let .jac _ _ _ ← agetPt q | raise .other
  let order := sp.c.p.toNat
  let some x ← areadX sp q | raise .other
  let xs ← lift (toStr order x)
  let some y ← areadY sp q | raise .other
  if enc = 2 then AM.pure ((if y % 2 = 1 then [3] else [2]) ++ xs)
  else do
    let ys ← lift (toStr order y)
    if enc = 0 then AM.pure (xs ++ ys)
    else if enc = 1 then AM.pure ([4] ++ xs ++ ys)
    else AM.pure ((if y % 2 = 1 then [7] else [6]) ++ xs ++ ys)

def akeyVerifyObj (k : Nat) (hash r s : Int) : AM G Bool := do
  let (g, q) ← agetKey k
  let .jac _ go _ ← agetPt g | raise .other
  let some n := go | raise .typeError
  if Gen.Ecdsa.verifies_r_out r n then AM.pure false
  else if Gen.Ecdsa.verifies_s_out s n then AM.pure false
  else do
    let c ← lift (inverseMod s n)
    let u1 := Gen.Ecdsa.verifies_u1 hash c n
    let u2 := Gen.Ecdsa.verifies_u2 r c n
    let xy ← amulAddObj g u1 q u2
    let v ← agetPt xy
    if (match v with | .inf => true | _ => false) then AM.pure false
    else do
      let some x ← areadX sp xy | raise .typeError
      AM.pure (Gen.Ecdsa.verifies_ret (Gen.Ecdsa.verifies_v x n) r)

def akeyEqObj (k1 k2 : Nat) : AM G Bool := do
  let (_, q1) ← agetKey k1
  let (_, q2) ← agetKey k2
  aeqObj q1 q2

def amkSKeyObj (g : Ref) (d : Int) : AM G Ref := do
  let .jac _ go _ ← agetPt g | raise .other
  let some n := go | raise .typeError
  if Gen.Ecdsa.secexp_bad d n then raise .malformedPoint
  else do
    let pt ← amulObj g d
    let pt ← (match ← agetPt pt with
      | .jac _ _ _ => ascaleObj pt
      | _ => (AM.pure pt : AM G Ref))
    match ← amkKeyObj sp g pt with
    | .obj vk => alloc (.skey d vk)
    | .inf => raise .other

def askSignObj (sk : Nat) (hash randomK : Int) : AM G (Int × Int) := do
  let h ← getHeap
  let some (.skey d vk) := h[sk]? | raise .other
  let (g, _) ← agetKey vk
  let .jac _ go _ ← agetPt g | raise .other
  let some n := go | raise .typeError
  let k := Gen.Ecdsa.sign_k randomK n
  let ks := Gen.Ecdsa.sign_ks k n
  let kt := Gen.Ecdsa.sign_kt ks n
  let p1 ← if Gen.Ecdsa.sign_use_kt ks n bitLen then amulObj g kt else amulObj g ks
  let some x ← areadX sp p1 | raise .typeError
  let r := Gen.Ecdsa.sign_r x n
  if Gen.Ecdsa.sign_r_zero r then raise .rsZero
  else do
    let kinv ← lift (inverseMod k n)
    let s := Gen.Ecdsa.sign_s kinv hash d r n
    if Gen.Ecdsa.sign_s_zero s then raise .rsZero else AM.pure (r, s)

def arun {α} (m : AM G α) (f : α → Out) (h : AHeap G) : AHeap G × Out :=
  match m h with
  | (.ok a, h') => (h', f a)
  | (.error e, h') => (h', .err e)

/-- one public operation on the heap of values (arithmetic whose operands are all legacy `Point`s is answered `.other`:
it is outside the refinement — those objects are immutable, no hidden state is involved) -/
def astep (h : AHeap G) : Op → AHeap G × Out
  | .x r => arun (areadX sp r) .optInt h
  | .y r => arun (areadY sp r) .optInt h
  | .order r => arun (areadOrder r) .optInt h
  | .scale r => arun (ascaleObj r) .ref h
  | .toAffine r => arun (atoAffineObj r) .ref h
  | .fromAffine r g => arun (afromAffineObj r g) .ref h
  | .neg r => arun (anegObj r) .ref h
  | .double r => arun (adoubleObj r) .ref h
  | .add r s => arun (aaddObj r s) .ref h
  | .mul r k => arun (amulObj r k) .ref h
  | .eq r s => arun (aeqObj r s) .bool h
  | .pickle r => arun (apickleObj r) .ref h
  | .copy r => arun (acopyPoint r) .ref h
  | .mkKey g r => arun (amkKeyObj sp g r) .ref h
  | .keyPoint k => arun (do let (_, q) ← agetKey k; AM.pure q) .ref h
  | .keyPrecompute k l => arun (akeyPrecomputeObj k l) (fun _ => .none) h
  | .keySer k e => arun (akeySerObj sp k e) .bytes h
  | .keyEq a b => arun (akeyEqObj a b) .bool h
  | .mkSKey g d => arun (amkSKeyObj sp g d) .ref h
  | .skSign sk e k => arun (askSignObj sp sk e k) (fun p => .pair p.1 p.2) h
  | .skVerifyingKey sk => arun (do
      let h ← getHeap
      match h[sk]? with
      | some (.skey _ vk) => AM.pure (Ref.obj vk)
      | _ => raise .other) .ref h
  | .mulAdd r a s b => arun (amulAddObj r a s b) .ref h
  | .keyVerify k e r s => arun (akeyVerifyObj sp k e r s) .bool h

def aoutputs (h : AHeap G) : List Op → List Out
  | [] => []
  | op :: ops => (astep sp h op).2 :: aoutputs (astep sp h op).1 ops

def arunOps (h : AHeap G) : List Op → AHeap G
  | [] => h
  | op :: ops => arunOps (astep sp h op).1 ops

end
end PointObj
