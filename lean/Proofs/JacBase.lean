import Mathlib.AlgebraicGeometry.EllipticCurve.Jacobian.Point
import Mathlib.Tactic.LinearCombination
import Mathlib.Tactic.FieldSimp
/-!
# Proofs.JacBase — the denotation layer of C06/C07 (field level)

`shortW a b` is the short Weierstrass curve y² = x³ + ax + b as a Mathlib `WeierstrassCurve.Jacobian`;
`Grp a b` its group of nonsingular affine points (Mathlib's `AddCommGroup` instance — the textbook chord-and-tangent law).

The code's own reading of a Jacobian triple: **Y = 0 or Z = 0 is the identity** (the open known finding K1: a genuine
point with y = 0, i.e. of order 2, is read as the identity).  `Rep H P g` says "the triple `P` is a representation, in the
code's reading, of the group element `g`, and g lies in the subgroup H".  Theorems are proved for subgroups `H` without
an element of order 2 (`NoOrder2 H`, the hypothesis called N2T in DESIGN.md): H = the whole group when x³+ax+b has no
root, H = ⟨G⟩ of odd order on SECP112r2.
-/
namespace Jac
open WeierstrassCurve WeierstrassCurve.Jacobian

variable {F : Type*} [Field F] [DecidableEq F]

/-- the curve y² = x³ + a x + b -/
def shortW (a b : F) : WeierstrassCurve.Jacobian F := ⟨0, 0, 0, a, b⟩

/-- the textbook group: nonsingular affine points of `shortW a b` with Mathlib's chord-and-tangent addition -/
abbrev Grp (a b : F) := (shortW a b).toAffine.Point

/-- N2T: the subgroup contains no element of order two -/
def NoOrder2 {a b : F} (H : AddSubgroup (Grp a b)) : Prop := ∀ g ∈ H, g + g = 0 → g = 0

/-- `P` represents `g ∈ H` in the code's reading of triples -/
def Rep (a b : F) (H : AddSubgroup (Grp a b)) (P : Fin 3 → F) (g : Grp a b) : Prop :=
  g ∈ H ∧ (((P 1 = 0 ∨ P 2 = 0) ∧ g = 0) ∨
    (P 1 ≠ 0 ∧ P 2 ≠ 0 ∧ (shortW a b).Nonsingular P ∧ Point.toAffine (shortW a b) P = g))

/-- a proper (non-identity) representation -/
def Good (a b : F) (H : AddSubgroup (Grp a b)) (P : Fin 3 → F) (g : Grp a b) : Prop :=
  g ∈ H ∧ P 1 ≠ 0 ∧ P 2 ≠ 0 ∧ (shortW a b).Nonsingular P ∧ Point.toAffine (shortW a b) P = g

theorem Good.rep {a b : F} {H : AddSubgroup (Grp a b)} {P : Fin 3 → F} {g : Grp a b}
    (h : Good a b H P g) : Rep a b H P g := ⟨h.1, Or.inr h.2⟩

theorem rep_zero_of {a b : F} (H : AddSubgroup (Grp a b)) {P : Fin 3 → F} (h : P 1 = 0 ∨ P 2 = 0) :
    Rep a b H P 0 := ⟨H.zero_mem, Or.inl ⟨h, rfl⟩⟩

theorem Rep.cases {a b : F} {H : AddSubgroup (Grp a b)} {P : Fin 3 → F} {g : Grp a b}
    (h : Rep a b H P g) : ((P 1 = 0 ∨ P 2 = 0) ∧ g = 0) ∨ Good a b H P g := by
  rcases h with ⟨hm, h | h⟩
  · exact Or.inl h
  · exact Or.inr ⟨hm, h⟩

theorem Rep.good {a b : F} {H : AddSubgroup (Grp a b)} {P : Fin 3 → F} {g : Grp a b}
    (h : Rep a b H P g) (h1 : P 1 ≠ 0) (h2 : P 2 ≠ 0) : Good a b H P g := by
  rcases h.cases with ⟨h0, _⟩ | h
  · rcases h0 with h0 | h0
    · exact absurd h0 h1
    · exact absurd h0 h2
  · exact h

theorem Rep.eq_zero {a b : F} {H : AddSubgroup (Grp a b)} {P : Fin 3 → F} {g : Grp a b}
    (h : Rep a b H P g) (h0 : P 1 = 0 ∨ P 2 = 0) : g = 0 := by
  rcases h.cases with ⟨_, hg⟩ | h
  · exact hg
  · rcases h0 with h0 | h0
    · exact absurd h0 h.2.1
    · exact absurd h0 h.2.2.1

omit [DecidableEq F] in
theorem eqn_short (a b X Y Z : F) (h : (shortW a b).Equation ![X, Y, Z]) :
    Y ^ 2 - (X ^ 3 + a * X * Z ^ 4 + b * Z ^ 6) = 0 := by
  have e := (equation_iff _).mp h
  simp only [shortW, Matrix.cons_val_zero, Matrix.cons_val_one, Matrix.cons_val_two,
    Matrix.head_cons, Matrix.tail_cons] at e
  linear_combination e

/-- a nonsingular triple with Z ≠ 0 and Y = 0 denotes an element of order two -/
theorem toAffine_order_two {a b : F} {P : Fin 3 → F} (hP : (shortW a b).Nonsingular P) (hz : P 2 ≠ 0)
    (hy : P 1 = 0) :
    Point.toAffine (shortW a b) P + Point.toAffine (shortW a b) P = 0 ∧ Point.toAffine (shortW a b) P ≠ 0 := by
  rw [Point.toAffine_of_Z_ne_zero hP hz]
  constructor
  · apply Affine.Point.add_of_Y_eq rfl
    simp [Affine.negY, shortW, hy]
  · exact Affine.Point.some_ne_zero _

/-- under N2T every nonsingular triple whose point lies in H is a representation of that point -/
theorem rep_of_nonsingular {a b : F} {H : AddSubgroup (Grp a b)} (hH : NoOrder2 H) {P : Fin 3 → F}
    (hP : (shortW a b).Nonsingular P) (hm : Point.toAffine (shortW a b) P ∈ H) :
    Rep a b H P (Point.toAffine (shortW a b) P) := by
  refine ⟨hm, ?_⟩
  by_cases hz : P 2 = 0
  · exact Or.inl ⟨Or.inr hz, Point.toAffine_of_Z_eq_zero hz⟩
  · by_cases hy : P 1 = 0
    · have h2 := toAffine_order_two hP hz hy
      exact absurd (hH _ hm h2.1) h2.2
    · exact Or.inr ⟨hy, hz, hP, rfl⟩

/-- generic branch: a unit multiple of Mathlib's `addXYZ` of two inequivalent representatives -/
theorem rep_add_generic {a b : F} {H : AddSubgroup (Grp a b)} (hH : NoOrder2 H) {P Q R : Fin 3 → F}
    {g h : Grp a b} (hP : Good a b H P g) (hQ : Good a b H Q h) (hne : ¬ P ≈ Q) {u : F} (hu : IsUnit u)
    (hR : R = u • (shortW a b).addXYZ P Q) : Rep a b H R (g + h) := by
  obtain ⟨hg, _, _, nP, rfl⟩ := hP
  obtain ⟨hh, _, _, nQ, rfl⟩ := hQ
  have hns : (shortW a b).Nonsingular R := by
    rw [hR, nonsingular_smul _ hu, ← add_of_not_equiv hne]; exact nonsingular_add nP nQ
  have hval : Point.toAffine (shortW a b) R
      = Point.toAffine (shortW a b) P + Point.toAffine (shortW a b) Q := by
    rw [hR, Point.toAffine_smul _ hu, ← add_of_not_equiv hne, Point.toAffine_add nP nQ]
  rw [← hval]
  exact rep_of_nonsingular hH hns (hval ▸ H.add_mem hg hh)

/-- same-point branch: Mathlib's `dblXYZ` of a representative equivalent to the other operand -/
theorem rep_add_same {a b : F} {H : AddSubgroup (Grp a b)} (hH : NoOrder2 H) {P Q R : Fin 3 → F}
    {g h : Grp a b} (hP : Good a b H P g) (hQ : Good a b H Q h) (heq : P ≈ Q)
    (hR : R = (shortW a b).dblXYZ P) : Rep a b H R (g + h) := by
  obtain ⟨hg, _, _, nP, rfl⟩ := hP
  obtain ⟨hh, _, _, nQ, rfl⟩ := hQ
  have hns : (shortW a b).Nonsingular R := by
    rw [hR, ← add_of_equiv heq]; exact nonsingular_add nP nQ
  have hval : Point.toAffine (shortW a b) R
      = Point.toAffine (shortW a b) P + Point.toAffine (shortW a b) Q := by
    rw [hR, ← add_of_equiv heq, Point.toAffine_add nP nQ]
  rw [← hval]
  exact rep_of_nonsingular hH hns (hval ▸ H.add_mem hg hh)

/-- doubling: `dblXYZ` of a representative -/
theorem rep_double {a b : F} {H : AddSubgroup (Grp a b)} (hH : NoOrder2 H) {P R : Fin 3 → F}
    {g : Grp a b} (hP : Good a b H P g) (hR : R = (shortW a b).dblXYZ P) : Rep a b H R (g + g) :=
  rep_add_same hH hP hP (Setoid.refl P) hR

/-- two proper representations are equivalent triples iff they denote the same element -/
theorem good_equiv_iff {a b : F} {H : AddSubgroup (Grp a b)} {P Q : Fin 3 → F} {g h : Grp a b}
    (hP : Good a b H P g) (hQ : Good a b H Q h) : P ≈ Q ↔ g = h := by
  obtain ⟨_, _, zP, nP, rfl⟩ := hP
  obtain ⟨_, _, zQ, nQ, rfl⟩ := hQ
  constructor
  · exact Point.toAffine_of_equiv
  · intro e
    rw [Point.toAffine_of_Z_ne_zero nP zP, Point.toAffine_of_Z_ne_zero nQ zQ,
      Affine.Point.some.injEq] at e
    obtain ⟨ex, ey⟩ := e
    apply equiv_of_X_eq_of_Y_eq zP zQ
    · have h1 : P 2 ^ 2 ≠ 0 := pow_ne_zero _ zP
      have h2 : Q 2 ^ 2 ≠ 0 := pow_ne_zero _ zQ
      field_simp at ex
      linear_combination ex
    · have h1 : P 2 ^ 3 ≠ 0 := pow_ne_zero _ zP
      have h2 : Q 2 ^ 3 ≠ 0 := pow_ne_zero _ zQ
      field_simp at ey
      linear_combination ey

omit [DecidableEq F] in
/-- cross-multiplied characterisation of equivalence for triples with Z ≠ 0 -/
theorem equiv_iff_cross {P Q : Fin 3 → F} (zP : P 2 ≠ 0) (zQ : Q 2 ≠ 0) :
    P ≈ Q ↔ (P 0 * Q 2 ^ 2 = Q 0 * P 2 ^ 2 ∧ P 1 * Q 2 ^ 3 = Q 1 * P 2 ^ 3) :=
  ⟨fun h => ⟨X_eq_of_equiv h, Y_eq_of_equiv h⟩, fun h => equiv_of_X_eq_of_Y_eq zP zQ h.1 h.2⟩

/-- negation of a representation (`W.neg P = (X, −Y, Z)` on a short curve) -/
theorem good_neg {a b : F} {H : AddSubgroup (Grp a b)} {P : Fin 3 → F} {g : Grp a b}
    (hP : Good a b H P g) : Good a b H ![P 0, -P 1, P 2] (-g) := by
  obtain ⟨hg, yP, zP, nP, rfl⟩ := hP
  have hneg : (shortW a b).neg P = ![P 0, -P 1, P 2] := by
    simp [Jacobian.neg, negY, shortW]
  refine ⟨H.neg_mem hg, ?_, ?_, ?_, ?_⟩
  · simpa using yP
  · simpa using zP
  · rw [← hneg]; exact nonsingular_neg nP
  · rw [← hneg]; exact Point.toAffine_neg nP

theorem rep_neg {a b : F} {H : AddSubgroup (Grp a b)} {P : Fin 3 → F} {g : Grp a b}
    (hP : Rep a b H P g) : Rep a b H ![P 0, -P 1, P 2] (-g) := by
  rcases hP.cases with ⟨h0, rfl⟩ | h
  · rw [neg_zero]; apply rep_zero_of
    rcases h0 with h0 | h0
    · left; simp [h0]
    · right; simpa using h0
  · exact (good_neg h).rep

/-- a representation only depends on the triple as a function -/
theorem Rep.congr {a b : F} {H : AddSubgroup (Grp a b)} {P Q : Fin 3 → F} {g : Grp a b}
    (h : Rep a b H P g) (e : P = Q) : Rep a b H Q g := e ▸ h

/-- rescaling a proper representation by a unit -/
theorem good_smul {a b : F} {H : AddSubgroup (Grp a b)} {P : Fin 3 → F} {g : Grp a b}
    (hP : Good a b H P g) {u : F} (hu : u ≠ 0) : Good a b H ![u ^ 2 * P 0, u ^ 3 * P 1, u * P 2] g := by
  obtain ⟨hg, yP, zP, nP, rfl⟩ := hP
  have hs : u • P = ![u ^ 2 * P 0, u ^ 3 * P 1, u * P 2] := smul_fin3 P u
  refine ⟨?_, ?_, ?_, ?_, ?_⟩
  · exact hg
  · simpa using ⟨hu, yP⟩
  · simpa using ⟨hu, zP⟩
  · rw [← hs]; exact (nonsingular_smul _ hu.isUnit).mpr nP
  · rw [← hs]; exact Point.toAffine_smul _ hu.isUnit

/-- an affine point on the curve, as the triple (x, y, 1) -/
theorem good_of_affine {a b : F} {H : AddSubgroup (Grp a b)} {x y : F}
    (h : (shortW a b).toAffine.Nonsingular x y) (hm : Affine.Point.some x y h ∈ H) (hy : y ≠ 0) :
    Good a b H ![x, y, 1] (Affine.Point.some x y h) := by
  have hn : (shortW a b).Nonsingular ![x, y, 1] := (nonsingular_some ..).mpr h
  refine ⟨hm, by simpa using hy, by simp, hn, ?_⟩
  rw [Point.toAffine_some hn]

end Jac
