import Proofs.PointObjKeys
/-!
# Proofs.PointObjMulAdd — `mul_add` and `Public_key.verifies` refine their abstract counterparts

`mul_add` is the operation with the most hidden-state traffic: it fills the tables of both operands, rescales both in
place, may fall back on `self * a + other * b` (which may return one of the operands itself), and the two operands may be
the same object.  The proof threads one stable fact through the steps: the cells `i`, `j` hold `PointJacobi` objects in
the abstract heap, which only ever grows.
-/
set_option linter.unusedSectionVars false
namespace PointObj
open Curve

variable {G : Type} [AddCommGroup G] [DecidableEq G]
variable {sp : ASpec G} {HS : PJ → List (Int × Int) → G → Prop} {HA : AffPt → G → Prop}

/-- cell `i` of the abstract heap is a `PointJacobi` -/
def IsPJ (ah : AHeap G) (i : Nat) : Prop := ∃ g o gen, ah[i]? = some (.pj g o gen)

theorem IsPJ.append {ah : AHeap G} {i : Nat} (h : IsPJ ah i) (l : AHeap G) : IsPJ (ah ++ l) i := by
  obtain ⟨g, o, gen, e⟩ := h
  refine ⟨g, o, gen, ?_⟩
  have hlt : i < ah.length := by
    rcases Nat.lt_or_ge i ah.length with hlt | hge
    · exact hlt
    · rw [List.getElem?_eq_none hge] at e; cases e
  rw [List.getElem?_append_left hlt]; exact e

theorem IsPJ.aptOf {ah : AHeap G} {i : Nat} (h : IsPJ ah i) : ∃ g o gen, aptOf ah (.obj i) = some (.jac g o gen) := by
  obtain ⟨g, o, gen, e⟩ := h
  exact ⟨g, o, gen, by simp [PointObj.aptOf, e]⟩

theorem IsPJ.notAff {ah : AHeap G} {i : Nat} (h : IsPJ ah i) : NotAff ah (.obj i) := by
  obtain ⟨g, o, gen, e⟩ := h.aptOf
  intro g' o' hc; rw [e] at hc; cases hc

/-- continuing after a step, with the post-heaps of that step at hand -/
theorem Outcome.bind' {α β α' β'} {R : α → β → Prop} {R' : α' → β' → Prop} {m : M α} {am : AM G β}
    {f : α → M α'} {af : β → AM G β'} {h : Heap} {ah : AHeap G}
    (ho : Outcome HS HA R (m h) (am ah))
    (h2 : ∀ a b h' ah', m h = (.ok a, h') → am ah = (.ok b, ah') → R a b → Inv HS HA h' ah' →
      Outcome HS HA R' (f a h') (af b ah')) :
    Outcome HS HA R' (M.bind m f h) (AM.bind am af ah) := by
  unfold M.bind AM.bind
  rcases hm : m h with ⟨_ | a, h'⟩ <;> rcases ham : am ah with ⟨_ | b, ah'⟩ <;> simp only [hm, ham, Outcome] at ho ⊢ <;>
    first | exact ho | exact h2 a b h' ah' hm ham ho.1 ho.2

theorem aupdPJ_heap {α} {i : Nat} {f : G → Option Int → Bool → Res α} {ah ah' : AHeap G} {r : Res α}
    (e : aupdPJ i f ah = (r, ah')) : ah' = ah := by
  unfold aupdPJ at e
  split at e
  · split at e <;> (cases e; rfl)
  · cases e; rfl

/-- what `amulObj` on a `PointJacobi` cell returns and how the heap grows -/
theorem amulObj_post {ah ah' : AHeap G} {i : Nat} {k : Int} {r : Ref} (hp : IsPJ ah i)
    (e : amulObj (G := G) (.obj i) k ah = (.ok r, ah')) :
    (ah' = ah ∧ (r = .inf ∨ r = .obj i)) ∨ (∃ g o, r = .obj ah.length ∧ ah' = ah ++ [.pj g o false]) := by
  obtain ⟨g, o, gen, hc⟩ := hp
  have hap : aptOf ah (.obj i) = some (.jac g o gen) := by simp [aptOf, hc]
  unfold amulObj at e
  simp only [AM.bind_eq, agetPt_bind_run, hap] at e
  unfold AM.bind aupdPJ at e
  simp only [hc] at e
  cases hs : amulState k g o gen with
  | error err => simp [hs] at e
  | ok res =>
    simp only [hs] at e
    cases res with
    | inf => simp only [AM.pure, Prod.mk.injEq, Except.ok.injEq] at e; exact Or.inl ⟨e.2.symm, Or.inl e.1.symm⟩
    | self => simp only [AM.pure, Prod.mk.injEq, Except.ok.injEq] at e; exact Or.inl ⟨e.2.symm, Or.inr e.1.symm⟩
    | fresh g' o' =>
      simp only [aallocPJ] at e
      split at e
      · simp only [AM.pure, Prod.mk.injEq, Except.ok.injEq] at e; exact Or.inl ⟨e.2.symm, Or.inl e.1.symm⟩
      · simp only [AM.alloc, Prod.mk.injEq, Except.ok.injEq] at e
        exact Or.inr ⟨g', o', e.1.symm, e.2.symm⟩

/-- the result of `amulObj` is never a legacy point, and `PointJacobi` cells stay what they are -/
theorem amulObj_facts {ah ah' : AHeap G} {i : Nat} {k : Int} {r : Ref} (hp : IsPJ ah i)
    (e : amulObj (G := G) (.obj i) k ah = (.ok r, ah')) :
    (∀ j, IsPJ ah j → IsPJ ah' j) ∧ NotAff ah' r ∧ (∀ l, NotAff ah' r → NotAff (ah' ++ l) r) := by
  rcases amulObj_post hp e with ⟨rfl, hr⟩ | ⟨g, o, rfl, rfl⟩
  · refine ⟨fun j hj => hj, ?_, ?_⟩
    · rcases hr with rfl | rfl
      · intro g o hc; simp [aptOf] at hc
      · exact hp.notAff
    · intro l _
      rcases hr with rfl | rfl
      · intro g o hc; simp [aptOf] at hc
      · exact (hp.append l).notAff
  · have hnew : IsPJ (ah ++ [AObj.pj g o false]) ah.length := ⟨g, o, false, by simp⟩
    exact ⟨fun j hj => hj.append _, hnew.notAff, fun l _ => (hnew.append l).notAff⟩

theorem mulObj_pj (hyp : RepIndep sp HS HA) {h : Heap} {ah : AHeap G} (hi : Inv HS HA h ah) {i : Nat} (hp : IsPJ ah i)
    (k : Int) : Outcome HS HA (fun a b => a = b) (mulObj (.obj i) k h) (amulObj (G := G) (.obj i) k ah) :=
  mulObj_sim hyp (.obj i) k h ah hi hp.notAff

/-- `self * a + other * b` on two `PointJacobi` cells (possibly the same one) -/
theorem mulMulAdd_sim (hyp : RepIndep sp HS HA) {h : Heap} {ah : AHeap G} (hi : Inv HS HA h ah) {i j : Nat}
    (hpi : IsPJ ah i) (hpj : IsPJ ah j) (sm om : Int) :
    Outcome HS HA (fun a b => a = b) (mulMulAdd i j sm om h) (amulMulAdd (G := G) i j sm om ah) := by
  unfold mulMulAdd amulMulAdd
  simp only [M.bind_eq, AM.bind_eq]
  refine Outcome.bind' (mulObj_pj hyp hi hpi sm) ?_
  rintro r1 _ h1 ah1 _ e1 rfl hi1
  obtain ⟨keep1, na1, grow1⟩ := amulObj_facts hpi e1
  refine Outcome.bind' (mulObj_pj hyp hi1 (keep1 j hpj) om) ?_
  rintro r2 _ h2 ah2 _ e2 rfl hi2
  obtain ⟨_, na2, _⟩ := amulObj_facts (keep1 j hpj) e2
  -- `r1` is still not a legacy point in the grown heap
  have na1' : NotAff ah2 r1 := by
    rcases amulObj_post (keep1 j hpj) e2 with ⟨rfl, _⟩ | ⟨g, o, _, rfl⟩
    · exact na1
    · exact grow1 _ na1
  refine addObj_sim hyp r1 r2 h2 ah2 hi2 ?_
  rintro ⟨⟨g, o, hc⟩, _⟩
  exact na1' g o hc

/-- `_maybe_precompute` on the state vs. on the attributes: the table afterwards is non-empty iff the flag is set -/
theorem precomputeState_sim (hyp : RepIndep sp HS HA) (o : PJObj) (g : G) (hs : HS o.val o.table g) :
    StateSim HS (fun (t : List (Int × Int)) (b : Bool) => t.isEmpty = !b) o g (precomputeState o)
      (aprecompute g o.val.order o.val.generator) := by
  unfold precomputeState aprecompute
  by_cases hgo : GenOK o.val
  · obtain ⟨t', et, hst, hemp⟩ := hyp.hs_precompute hs hgo
    simp only [(genOK_iff o.val).2 hgo, if_true, et, bind, Except.bind, StateSim]
    exact ⟨hemp, hst, trivial, trivial⟩
  · have hb : genOK o.val.order o.val.generator = false := by
      rcases hc : genOK o.val.order o.val.generator with _ | _
      · rfl
      · exact absurd ((genOK_iff o.val).1 hc) hgo
    have hgen : o.val.generator = true ∧ truthy o.val.order = none := by
      unfold GenOK at hgo
      by_cases hg : o.val.generator = true
      · refine ⟨hg, ?_⟩
        cases ho : truthy o.val.order with
        | none => rfl
        | some n => exact absurd (fun _ => ⟨n, ho⟩) hgo
      · exact absurd (fun h => absurd h hg) hgo
    have ht : o.table = [] := by
      by_contra hne
      exact hgo (hyp.hs_table hs hne).2
    simp only [hb, Bool.false_eq_true, if_false, ht, maybePrecompute_noorder hgen.1 hgen.2, bind, Except.bind, StateSim]

theorem scaleRead_sim (hyp : RepIndep sp HS HA) (o : PJObj) (g : G) (hs : HS o.val o.table g) :
    StateSim HS (fun (S : PJ) (b : G × Option Int) => ∃ t, HS S t b.1 ∧ S.z = 1 ∧ S.order = b.2) o g (scaleState o)
      (.ok (g, o.val.order)) := by
  obtain ⟨S, e, h1, h2, h3, h4⟩ := scaleState_ok hyp hs
  simp only [e, StateSim]
  exact ⟨⟨o.table, h1, h2, h3⟩, h1, h3, h4⟩

/-- `mul_add` on two `PointJacobi` cells after the early exits -/
theorem mulAddMain_sim (hyp : RepIndep sp HS HA) {h : Heap} {ah : AHeap G} (hi : Inv HS HA h ah) {i j : Nat}
    (hpi : IsPJ ah i) (hpj : IsPJ ah j) (sm om : Int) :
    Outcome HS HA (fun a b => a = b) (mulAddMain i j sm om h) (amulAddMain (G := G) i j sm om ah) := by
  unfold mulAddMain amulAddMain maybePrecomputeObj
  simp only [M.bind_eq, AM.bind_eq]
  refine Outcome.bind' (updPJ_sim (R := fun (t : List (Int × Int)) (b : Bool) => t.isEmpty = !b) i
    (fun o g hs => precomputeState_sim hyp o g hs) h ah hi) ?_
  rintro tP bP h1 ah1 _ e1 hP hi1
  have ea1 := aupdPJ_heap e1
  subst ah1
  refine Outcome.bind' (updPJ_sim (R := fun (t : List (Int × Int)) (b : Bool) => t.isEmpty = !b) j
    (fun o g hs => precomputeState_sim hyp o g hs) h1 ah hi1) ?_
  rintro tQ bQ h2 ah2 _ e2 hQ hi2
  have ea2 := aupdPJ_heap e2
  subst ah2
  have hcond : (!tP.isEmpty && !tQ.isEmpty) = (bP && bQ) := by rw [hP, hQ]; simp
  rw [hcond]
  by_cases hb : (bP && bQ) = true
  · simp only [hb, if_true]
    exact mulMulAdd_sim hyp hi2 hpi hpj sm om
  · simp only [hb, Bool.false_eq_true, if_false]
    refine Outcome.bind' (updPJ_sim (R := fun (a b : Option Int) => a = b) i (af := fun _ o _ => .ok o)
      (f := fun o => .ok (o, o.val.order)) (fun o g hs => ⟨rfl, hs, rfl, rfl⟩) h2 ah hi2) ?_
    rintro ord _ h3 ah3 _ e3 rfl hi3
    have ea3 := aupdPJ_heap e3
    subst ah3
    refine Outcome.bind' (updPJ_sim (R := fun (S : PJ) (b : G × Option Int) => ∃ t, HS S t b.1 ∧ S.z = 1 ∧ S.order = b.2) i
      (af := fun g o _ => .ok (g, o)) (fun o g hs => scaleRead_sim hyp o g hs) h3 ah hi3) ?_
    rintro SP ⟨g, og⟩ h4 ah4 _ e4 ⟨tp, hsP, hzP, hoP⟩ hi4
    have ea4 := aupdPJ_heap e4
    subst ah4
    refine Outcome.bind' (updPJ_sim (R := fun (S : PJ) (b : G × Option Int) => ∃ t, HS S t b.1 ∧ S.z = 1 ∧ S.order = b.2) j
      (af := fun g o _ => .ok (g, o)) (fun o g hs => scaleRead_sim hyp o g hs) h4 ah hi4) ?_
    rintro SQ ⟨g', og'⟩ h5 ah5 _ e5 ⟨tq, hsQ, hzQ, _⟩ hi5
    have ea5 := aupdPJ_heap e5
    subst ah5
    dsimp only at hsP hsQ hoP ⊢
    rw [hyp.hs_sumInf hsP hsQ hzP hzQ]
    by_cases hz : g + g' = 0
    · simp only [hz, decide_true, if_true]
      exact mulMulAdd_sim hyp hi5 hpi hpj _ _
    · simp only [hz, decide_false, Bool.false_eq_true, if_false]
      have := hyp.hs_mulAddLoop (match truthy ord with | some n => (pmod sm n, pmod om n) | none => (sm, om)).1
        (match truthy ord with | some n => (pmod sm n, pmod om n) | none => (sm, om)).2 hsP hsQ hzP hzQ hz
      rw [hoP] at this
      exact allocPt_sim this h5 ah hi5

theorem getPJ_bind_run {α} (h : Heap) (r : Ref) (f : Option PJObj → M α) :
    M.bind (getPJ r) f h = f (match cell h r with | some (.pj o) => some o | _ => none) h := by
  unfold M.bind getPJ
  rcases cell h r with _ | o
  · rfl
  · cases o <;> rfl

theorem agetPJ_bind_run {α} (ah : AHeap G) (r : Ref) (f : Option (G × Option Int × Bool) → AM G α) :
    AM.bind (agetPJ r) f ah = f (match r with
      | .inf => none
      | .obj i => match ah[i]? with
        | some (.pj g o gen) => some (g, o, gen)
        | _ => none) ah := by
  unfold AM.bind agetPJ
  cases r with
  | inf => rfl
  | obj i =>
    dsimp only
    generalize ah[i]? = c
    cases c with
    | none => rfl
    | some o => cases o <;> rfl

/-- the multiplier pattern for which `mul_add` is covered: `other * other_mul` on a legacy point is not -/
def MulAddOK (ah : AHeap G) (sm : Int) (s : Ref) : Prop := sm = 0 → NotAff ah s

theorem mulAddObj_sim (hyp : RepIndep sp HS HA) (r : Ref) (sm : Int) (s : Ref) (om : Int) :
    SimOn (HS := HS) (HA := HA) (fun ah => MulAddOK ah sm s) (fun a b => a = b) (mulAddObj r sm s om)
      (amulAddObj (G := G) r sm s om) := by
  intro h ah hi hpre
  unfold mulAddObj amulAddObj
  simp only [M.bind_eq, AM.bind_eq]
  rw [getPJ_bind_run, agetPJ_bind_run]
  have hfail : ∀ e, Outcome HS HA (fun (a b : Ref) => a = b)
      (M.bind (getPt r) (fun _ => M.raise e) h) (AM.bind (agetPt (G := G) r) (fun _ => AM.raise e) ah) :=
    fun e => getPt_raise_sim r e h ah hi
  cases r with
  | inf => exact hfail _
  | obj i =>
    simp only [cell]
    rcases hi.get i with ⟨c1, c2⟩ | ⟨o, a, c1, c2, hr⟩
    · simp only [c1, c2]; exact hfail _
    · simp only [c1, c2]
      cases hr with
      | aff ha => exact hfail _
      | infc => exact hfail _
      | key g q => exact hfail _
      | skey d vk => exact hfail _
      | @pj o g hs =>
        have hpi : IsPJ ah i := ⟨_, _, _, c2⟩
        dsimp only
        rw [getPt_bind_run, agetPt_bind_run]
        rcases ptOf_rel hi s with ⟨p1, p2⟩ | ⟨v, b, p1, p2, hv⟩
        · simp only [p1, p2]; sim_same hi
        · simp only [p1, p2]
          cases hv with
          | inf =>
            simp only [ptIsInf, Bool.true_or, if_true]
            exact mulObj_pj hyp hi hpi sm
          | @jac Q t' g' hsQ =>
            have hq : ptIsInf (.jac Q) = false := (pjEq_inf_false hyp hsQ).2
            -- `s` is a heap cell holding a `PointJacobi`
            obtain ⟨j, rfl⟩ : ∃ j, s = .obj j := by
              cases s with
              | inf => simp [aptOf] at p2
              | obj j => exact ⟨j, rfl⟩
            have hpj : IsPJ ah j := by
              unfold aptOf at p2
              rcases hc : ah[j]? with _ | c
              · simp [hc] at p2
              · cases c <;> simp [hc] at p2
                exact ⟨_, _, _, hc⟩
            simp only [hq, Bool.false_or]
            by_cases h0 : (om == 0) = true
            · simp only [h0, if_true]; exact mulObj_pj hyp hi hpi sm
            · simp only [h0, Bool.false_eq_true, if_false]
              by_cases h1 : (sm == 0) = true
              · simp only [h1, if_true]; exact mulObj_pj hyp hi hpj om
              · simp only [h1, Bool.false_eq_true, if_false]
                exact mulAddMain_sim hyp hi hpi hpj sm om
          | @aff A g' ha =>
            simp only [ptIsInf, Bool.false_or]
            by_cases h0 : (om == 0) = true
            · simp only [h0, if_true]; exact mulObj_pj hyp hi hpi sm
            · simp only [h0, Bool.false_eq_true, if_false]
              by_cases h1 : (sm == 0) = true
              · exact absurd p2 (hpre (by simpa using h1) _ _)
              · simp only [h1, Bool.false_eq_true, if_false]
                have hs' : HS (pjFromAffine A) [] g' := hyp.ha_fromAffine false ha
                have hr' : Rel HS HA (.pj ⟨pjFromAffine A, []⟩) (.pj g' A.order false) := Rel.pj (o := ⟨pjFromAffine A, []⟩) hs'
                have hi' := hi.append hr'
                have hlen := hi.length
                -- both sides allocate the converted operand in the next cell
                show Outcome HS HA (fun a b => a = b)
                  (mulAddMain i h.length sm om (h ++ [.pj ⟨pjFromAffine A, []⟩]))
                  (amulAddMain (G := G) i ah.length sm om (ah ++ [.pj g' A.order false]))
                rw [hlen]
                exact mulAddMain_sim hyp hi' (hpi.append _) ⟨g', A.order, false, by simp⟩ sm om

/-- the tail of `verifies` once `u1*G + u2*Q` is there -/
theorem verify_tail_sim (hyp : RepIndep sp HS HA) (xy : Ref) (n r : Int) :
    SimEq HS HA
      (do
        let v ← getPt xy
        if ptIsInf v then M.pure false
        else do
          let some x ← readX xy | M.raise .typeError
          M.pure (Gen.Ecdsa.verifies_ret (Gen.Ecdsa.verifies_v x n) r) : M Bool)
      (do
        let v ← agetPt xy
        if (match v with | .inf => true | _ => false) then AM.pure false
        else do
          let some x ← areadX sp xy | AM.raise .typeError
          AM.pure (Gen.Ecdsa.verifies_ret (Gen.Ecdsa.verifies_v x n) r) : AM G Bool) := by
  have rest : SimEq HS HA
      (do
        let some x ← readX xy | M.raise .typeError
        M.pure (Gen.Ecdsa.verifies_ret (Gen.Ecdsa.verifies_v x n) r) : M Bool)
      (do
        let some x ← areadX sp xy | AM.raise .typeError
        AM.pure (Gen.Ecdsa.verifies_ret (Gen.Ecdsa.verifies_v x n) r) : AM G Bool) := by
    refine Sim.bind (readX_sim hyp xy) ?_
    rintro x _ rfl
    cases x with
    | none => exact Sim.raise _
    | some x => exact Sim.pure rfl
  refine Sim.bind (getPt_sim xy) ?_
  intro a b hab
  cases hab with
  | inf => exact Sim.pure rfl
  | jac hs =>
    simp only [(pjEq_inf_false hyp hs).2, ptIsInf, Bool.false_eq_true, if_false]
    exact rest
  | aff ha =>
    simp only [ptIsInf, Bool.false_eq_true, if_false]
    exact rest

/-- the key's point is a `PointJacobi` object (always so for keys built by the library) -/
def KeyPointOK (ah : AHeap G) (k : Nat) : Prop := ∀ g q, ah[k]? = some (.key g q) → NotAff ah q

theorem keyVerifyObj_sim (hyp : RepIndep sp HS HA) (k : Nat) (hash r s : Int) :
    SimOn (HS := HS) (HA := HA) (fun ah => KeyPointOK ah k) (fun a b => a = b) (keyVerifyObj k hash r s)
      (akeyVerifyObj sp k hash r s) := by
  intro h ah hi hpre
  unfold keyVerifyObj akeyVerifyObj
  simp only [M.bind_eq, AM.bind_eq]
  rw [getKey_bind_run, agetKey_bind_run]
  have hraise : ∀ e, Outcome HS HA (fun (a b : Bool) => a = b) (M.raise e h) (AM.raise (G := G) e ah) :=
    fun e => ⟨rfl, hi⟩
  have hpure : ∀ x : Bool, Outcome HS HA (fun (a b : Bool) => a = b) (M.pure x h) (AM.pure (G := G) x ah) :=
    fun x => ⟨rfl, hi⟩
  rcases hi.get k with ⟨k1, k2⟩ | ⟨o, a, k1, k2, hr⟩
  · simp only [k1, k2]; sim_same hi
  · simp only [k1, k2]
    cases hr with
    | pj hs => exact hraise _
    | aff ha => exact hraise _
    | infc => exact hraise _
    | skey d vk => exact hraise _
    | key g q =>
      dsimp only
      rw [getPt_bind_run, agetPt_bind_run]
      rcases ptOf_rel hi g with ⟨p1, p2⟩ | ⟨v, b, p1, p2, hv⟩
      · simp only [p1, p2]; sim_same hi
      · simp only [p1, p2]
        cases hv with
        | inf => exact hraise _
        | aff ha => exact hraise _
        | @jac P t gg hs =>
          dsimp only
          cases hn : P.order with
          | none => exact hraise _
          | some n =>
            dsimp only
            by_cases hr1 : Gen.Ecdsa.verifies_r_out r n = true
            · simp only [hr1, if_true]; exact hpure _
            · simp only [hr1, Bool.false_eq_true, if_false]
              by_cases hs1 : Gen.Ecdsa.verifies_s_out s n = true
              · simp only [hs1, if_true]; exact hpure _
              · simp only [hs1, Bool.false_eq_true, if_false]
                -- `lift` does not touch the heaps: case on the value
                cases hinv : inverseMod s n with
                | error e => exact hraise e
                | ok c =>
                  simp only [M.lift_ok, AM.lift, M.pure_bind, AM.pure_bind]
                  have hq : MulAddOK ah (Gen.Ecdsa.verifies_u1 hash c n) q := fun _ => hpre g q k2
                  exact Outcome.bind (mulAddObj_sim hyp g _ q _ h ah hi hq)
                    (by rintro xy _ rfl; exact verify_tail_sim hyp xy n r)

end PointObj
