import Proofs.NTCip1
import Mathlib.RingTheory.AdjoinRoot
import Mathlib.Algebra.Polynomial.Div
import Mathlib.Data.ZMod.Basic
/-!
# NTCipPoly — the list helpers as operations of `𝔽_p[x]/(f)` (instance of `NTCip1` with `K = AdjoinRoot f`)

`toPoly p l` is the polynomial over `ZMod p` whose coefficient list is `l`.  For `f = toPoly p polymod` monic the
helpers return the *canonical representative*: `toPoly (mul m1 m2) = (toPoly m1 * toPoly m2) %ₘ f` etc.
-/
namespace NTCip
open NT NTProofs Polynomial

/-- the polynomial over `ZMod p` with coefficient list `l` (increasing powers) -/
noncomputable def toPoly (p : ℕ) (l : List ℤ) : (ZMod p)[X] := evalL l (X : (ZMod p)[X])

theorem evalL_map {K L : Type*} [CommRing K] [CommRing L] (φ : K →+* L) (t : K) :
    ∀ l : List ℤ, φ (evalL l t) = evalL l (φ t)
  | [] => by simp [evalL]
  | c :: cs => by simp [evalL, evalL_map φ t cs]

theorem evalL_append {K : Type*} [CommRing K] (t : K) : ∀ xs ys : List ℤ,
    evalL (xs ++ ys) t = evalL xs t + t ^ xs.length * evalL ys t
  | [], ys => by simp [evalL]
  | x :: xs, ys => by
    simp only [List.cons_append, evalL, evalL_append t xs ys, List.length_cons]; ring

variable {p : ℕ}

/-- `toPoly` really has the coefficients of the list -/
theorem coeff_toPoly : ∀ (l : List ℤ) (i : ℕ), (toPoly p l).coeff i = ((l.getD i 0 : ℤ) : ZMod p)
  | [], i => by simp [toPoly, evalL]
  | c :: cs, 0 => by
    simp only [toPoly, evalL, coeff_add, coeff_X_mul_zero, add_zero, List.getD_cons_zero]
    rw [← C_eq_intCast, coeff_C_zero]
  | c :: cs, i+1 => by
    have := coeff_toPoly cs i
    simp only [toPoly, evalL] at this ⊢
    rw [coeff_add, coeff_X_mul, this, ← C_eq_intCast, coeff_C_succ]
    simp

theorem degree_toPoly_lt (l : List ℤ) : (toPoly p l).degree < l.length := by
  rw [degree_lt_iff_coeff_zero]
  intro m hm
  rw [coeff_toPoly, List.getD_eq_getElem?_getD, List.getElem?_eq_none hm]; simp

theorem toPoly_monic [Nontrivial (ZMod p)] (polymod : List ℤ) (hmonic : polymod.getLast? = some 1) :
    (toPoly p polymod).Monic ∧ (toPoly p polymod).degree = ((polymod.length - 1 : ℕ) : WithBot ℕ) := by
  obtain ⟨ini, rfl⟩ := List.getLast?_eq_some_iff.mp hmonic
  have e : toPoly p (ini ++ [1]) = X ^ ini.length + toPoly p ini := by
    simp only [toPoly, evalL_append, evalL]; simp; ring
  rw [e]
  refine ⟨monic_X_pow_add (degree_toPoly_lt ini), ?_⟩
  rw [degree_add_eq_left_of_degree_lt (by rw [degree_X_pow]; exact degree_toPoly_lt ini), degree_X_pow]; simp

section
variable [Fact (1 < p)]

omit [Fact (1 < p)] in
theorem adjoinRoot_setup (polymod : List ℤ) :
    (((p : ℕ) : ℤ) : AdjoinRoot (toPoly p polymod)) = 0 ∧
    (∀ l : List ℤ, evalL l (AdjoinRoot.root (toPoly p polymod)) = AdjoinRoot.mk (toPoly p polymod) (toPoly p l)) := by
  constructor
  · rw [Int.cast_natCast, ← map_natCast (AdjoinRoot.of (toPoly p polymod)), ZMod.natCast_self, map_zero]
  · intro l
    have := evalL_map (AdjoinRoot.mk (toPoly p polymod)) X l
    rw [AdjoinRoot.mk_X] at this
    exact this.symm

omit [Fact (1 < p)] in
theorem eq_modByMonic_of_mk_eq (f g r : (ZMod p)[X]) (hf : f.Monic) (hdeg : r.degree < f.degree)
    (h : AdjoinRoot.mk f r = AdjoinRoot.mk f g) : r = g %ₘ f := by
  obtain ⟨c, hc⟩ := AdjoinRoot.mk_eq_mk.mp h
  exact ((div_modByMonic_unique (-c) r hf ⟨by linear_combination hc, hdeg⟩).2).symm

theorem degree_toPoly_lt_of_length {polymod q : List ℤ} (hmonic : polymod.getLast? = some 1)
    (hq : q.length ≤ polymod.length - 1) : (toPoly p q).degree < (toPoly p polymod).degree := by
  rw [(toPoly_monic polymod hmonic).2]
  exact lt_of_lt_of_le (degree_toPoly_lt q) (by exact_mod_cast hq)

/-- `polynomial_reduce_mod` returns the canonical representative of `poly` modulo `f = polymod` over `𝔽_p` -/
theorem polyReduceMod_modByMonic (poly polymod : List ℤ) (hmonic : polymod.getLast? = some 1)
    (hlen : 2 ≤ polymod.length) :
    ∃ q, polyReduceMod poly polymod p = .ok q ∧ toPoly p q = toPoly p poly %ₘ toPoly p polymod ∧
      q.length < polymod.length ∧ (InRange p poly → InRange p q) := by
  have hp1 : 1 < p := Fact.out
  obtain ⟨hpK, hmk⟩ := adjoinRoot_setup (p := p) polymod
  obtain ⟨q, hq, hev, hl, hr⟩ := polyReduceMod_spec hpK (by omega) _ poly polymod hmonic hlen
    (by rw [hmk, AdjoinRoot.mk_self])
  refine ⟨q, hq, ?_, by omega, hr (by omega)⟩
  rw [hmk, hmk] at hev
  exact eq_modByMonic_of_mk_eq _ _ _ (toPoly_monic polymod hmonic).1 (degree_toPoly_lt_of_length hmonic (by omega)) hev

/-- `polynomial_multiply_mod` returns the canonical representative of the product in `𝔽_p[x]/(f)` -/
theorem polyMulMod_modByMonic (m1 m2 polymod : List ℤ) (hmonic : polymod.getLast? = some 1)
    (hlen : 2 ≤ polymod.length) :
    ∃ q, polyMulMod m1 m2 polymod p = .ok q ∧
      toPoly p q = (toPoly p m1 * toPoly p m2) %ₘ toPoly p polymod ∧
      q.length < polymod.length ∧ InRange p q := by
  have hp1 : 1 < p := Fact.out
  obtain ⟨hpK, hmk⟩ := adjoinRoot_setup (p := p) polymod
  obtain ⟨q, hq, hev, hl, hr⟩ := polyMulMod_spec hpK (by omega) _ m1 m2 polymod hmonic hlen
    (by rw [hmk, AdjoinRoot.mk_self])
  refine ⟨q, hq, ?_, by omega, hr (by omega)⟩
  rw [hmk, hmk, hmk, ← map_mul] at hev
  exact eq_modByMonic_of_mk_eq _ _ _ (toPoly_monic polymod hmonic).1 (degree_toPoly_lt_of_length hmonic (by omega)) hev

/-- `polynomial_exp_mod` (reduced `base`, `0 ≤ e < p`) returns the canonical representative of the power -/
theorem polyExpMod_modByMonic (base polymod : List ℤ) (e : ℤ) (hmonic : polymod.getLast? = some 1)
    (hlen : 2 ≤ polymod.length) (he0 : 0 ≤ e) (hep : e < p) (hbase : Reduced p polymod base) :
    ∃ q, polyExpMod base e polymod p = .ok q ∧
      toPoly p q = (toPoly p base ^ e.toNat) %ₘ toPoly p polymod ∧
      q.length < polymod.length ∧ InRange p q := by
  have hp1 : 1 < p := Fact.out
  obtain ⟨hpK, hmk⟩ := adjoinRoot_setup (p := p) polymod
  obtain ⟨q, hq, hev, hl, hr⟩ := polyExpMod_reduced hpK (by omega) _ polymod hmonic hlen
    (by rw [hmk, AdjoinRoot.mk_self]) base e he0 hep hbase
  refine ⟨q, hq, ?_, hl, hr⟩
  rw [hmk, hmk, ← map_pow] at hev
  exact eq_modByMonic_of_mk_eq _ _ _ (toPoly_monic polymod hmonic).1 (degree_toPoly_lt_of_length hmonic (by omega)) hev

end

/-- non-vacuity: `x⁹ mod (x² − 6x + 2)` over `𝔽₁₇` -/
example : polyExpMod [0, 1] 9 [2, -6, 1] 17 = .ok [6, 0] := by decide +kernel
example : polyMulMod [3, 4] [5, 6] [2, -6, 1] 17 = .ok [1, 12] := by decide +kernel

end NTCip
