import Model.NumberTheory
import Proofs.NTPow
import Proofs.NTTable
import Mathlib.FieldTheory.Finite.Basic
import Mathlib.Data.ZMod.Basic
/-! Miller–Rabin part of `is_prime` (C16): totality, completeness on primes, soundness as "strong probable prime" -/
namespace NTProofs
open NT

/-- `n` is a strong probable prime to base `a` -/
def SPRP (n : Nat) (a : Int) : Prop :=
  ∃ s r : Nat, n - 1 = 2 ^ s * r ∧ r % 2 = 1 ∧
    ((a : ZMod n) ^ r = 1 ∨ ∃ j, j < s ∧ (a : ZMod n) ^ (2 ^ j * r) = -1)

theorem splitTwos_spec : ∀ (fuel : Nat) (s0 r0 : Int), 0 < r0 → r0 < fuel →
    ∃ (k : Nat) (r : Int), splitTwos fuel s0 r0 = some (s0 + k, r) ∧ r0 = 2 ^ k * r ∧ r % 2 = 1 ∧ 0 < r := by
  intro fuel
  induction fuel with
  | zero => intro s0 r0 h0 h1; simp at h1; omega
  | succ f ih =>
    intro s0 r0 h0 h1
    unfold splitTwos
    simp only [pmod_eq_emod (show (0 : Int) < 2 by decide), pdiv_eq_ediv (show (0 : Int) < 2 by decide)]
    by_cases hc : r0 % 2 = 0
    · simp only [hc, ↓reduceIte]
      obtain ⟨k, r, h1', h2, h3, h4⟩ := ih (s0 + 1) (r0 / 2) (by omega) (by push_cast at h1; omega)
      refine ⟨k + 1, r, ?_, ?_, h3, h4⟩
      · rw [h1']; congr 2; push_cast; ring
      · rw [pow_succ, mul_assoc, mul_comm 2 r, ← mul_assoc, ← h2]; omega
    · simp only [hc, ↓reduceIte]
      exact ⟨0, r0, by simp, by simp, by omega, h0⟩

theorem mrRoundsGo_range (nb lo hi : Int) : ∀ (l : List (Int × Int)) (t : Int), lo ≤ t → t ≤ hi →
    (∀ x ∈ l, lo ≤ x.2 ∧ x.2 ≤ hi) → lo ≤ mrRoundsGo nb l t ∧ mrRoundsGo nb l t ≤ hi := by
  intro l
  induction l with
  | nil => intro t h1 h2 _; exact ⟨h1, h2⟩
  | cons x r ih =>
    intro t h1 h2 hx
    obtain ⟨k, tt⟩ := x
    unfold mrRoundsGo
    split
    · exact ⟨h1, h2⟩
    · have := hx (k, tt) (by simp)
      exact ih tt this.1 this.2 (fun y hy => hx y (by simp [hy]))

/-- the round count is always between 2 and 40 (generated table) -/
theorem mrRounds_range (nb : Int) : 2 ≤ mrRounds nb ∧ mrRounds nb ≤ 40 :=
  mrRoundsGo_range nb 2 40 _ _ (by decide) (by decide) (by decide)

theorem mrRoundsGo_ge (nb m : Int) : ∀ (l : List (Int × Int)) (t : Int), m ≤ t →
    (∀ x ∈ l, x.1 ≤ nb → m ≤ x.2) → m ≤ mrRoundsGo nb l t := by
  intro l
  induction l with
  | nil => intro t h1 _; exact h1
  | cons x r ih =>
    intro t h1 hx
    obtain ⟨k, tt⟩ := x
    unfold mrRoundsGo
    split
    · exact h1
    · have := hx (k, tt) (by simp) (by simp; omega)
      exact ih tt this (fun y hy => hx y (by simp [hy]))

/-- below 300 bits at least 12 rounds are run -/
theorem mrRounds_ge_12 (nb : Int) (h : nb < 300) : 12 ≤ mrRounds nb := by
  apply mrRoundsGo_ge nb 12 _ _ (by decide)
  intro x hx hle
  simp only [Gen.NT.mr_table, List.mem_cons, List.mem_nil_iff, or_false] at hx
  rcases hx with h|h|h|h|h|h|h|h|h|h|h|h <;> subst h <;> simp at hle ⊢ <;> omega

section base
variable {n : ℕ}

theorem cast_powMod' (hn : 0 < n) (a : Int) (e : Nat) : ((powMod a e n : Int) : ZMod n) = (a : ZMod n) ^ e := by
  rw [powMod_eq _ _ _ (by exact_mod_cast hn), ZMod.intCast_mod, Int.cast_pow]

theorem powMod_range' (hn : 0 < n) (a : Int) (e : Nat) : 0 ≤ powMod a e n ∧ powMod a e n < n := by
  have hp0 : (0 : Int) < n := by exact_mod_cast hn
  rw [powMod_eq _ _ _ hp0]
  exact ⟨Int.emod_nonneg _ (by omega), Int.emod_lt_of_pos _ hp0⟩

theorem cast_eq_one_iff (hn : 2 ≤ n) {y : Int} (h0 : 0 ≤ y) (h1 : y < n) : (y : ZMod n) = 1 ↔ y = 1 := by
  constructor
  · intro h
    have : (y : ZMod n) = ((1 : Int) : ZMod n) := by simpa using h
    have := (ZMod.intCast_eq_intCast_iff' y 1 n).mp this
    rwa [Int.emod_eq_of_lt h0 h1, Int.emod_eq_of_lt (by decide) (by omega)] at this
  · rintro rfl; simp

theorem cast_eq_neg_one_iff (hn : 2 ≤ n) {y : Int} (h0 : 0 ≤ y) (h1 : y < n) : (y : ZMod n) = -1 ↔ y = n - 1 := by
  constructor
  · intro h
    have : (y : ZMod n) = (((n : Int) - 1 : Int) : ZMod n) := by simpa using h
    have := (ZMod.intCast_eq_intCast_iff' y (n - 1) n).mp this
    rwa [Int.emod_eq_of_lt h0 h1, Int.emod_eq_of_lt (by omega) (by omega)] at this
  · rintro rfl; simp

theorem mrInner_zero (n s j y : Int) : mrInner n s 0 j y = decide (y = n - 1) := by
  simp [mrInner, Gen.NT.mr_final_fail]

theorem mrInner_succ (n s : Int) (f : Nat) (j y : Int) :
    mrInner n s (f + 1) j y =
      if j ≤ s - 1 ∧ y ≠ n - 1 then (if powMod y 2 n = 1 then false else mrInner n s f (j + 1) (powMod y 2 n))
      else decide (y = n - 1) := by
  rw [mrInner]
  simp only [Gen.NT.mr_loop_cond, Gen.NT.mr_final_fail, Bool.and_eq_true, decide_eq_true_eq, ne_eq, decide_not,
    Bool.not_not, Bool.not_eq_true', decide_eq_false_iff_not]

theorem mrBase_eq (n s r a : Int) :
    mrBase n s r a =
      if powMod a r.toNat n ≠ 1 ∧ powMod a r.toNat n ≠ n - 1 then mrInner n s s.toNat 1 (powMod a r.toNat n) else true := by
  simp only [mrBase, Gen.NT.mr_enter, Bool.and_eq_true, decide_eq_true_eq]

/-- soundness of the squaring loop: `true` means some `y^(2^i) = -1` with `i` squarings available -/
theorem mrInner_sound (hn : 2 ≤ n) (s : Int) : ∀ (fuel : Nat) (j y : Int), 0 ≤ y → y < n → j + fuel = s + 1 → j ≤ s →
    mrInner n s fuel j y = true → ∃ i : Nat, (j : Int) + i ≤ s ∧ (y : ZMod n) ^ (2 ^ i) = -1 := by
  intro fuel
  induction fuel with
  | zero => intro j y h0 h1 hj hjs h; push_cast at hj; omega
  | succ f ih =>
    intro j y h0 h1 hj hjs h
    rw [mrInner_succ] at h
    by_cases hc : j ≤ s - 1 ∧ y ≠ n - 1
    · rw [if_pos hc] at h
      have hr := powMod_range' (by omega : 0 < n) y 2
      by_cases h1' : powMod y 2 n = 1
      · simp [h1'] at h
      · rw [if_neg h1'] at h
        obtain ⟨i, hi1, hi2⟩ := ih (j + 1) _ hr.1 hr.2 (by push_cast at hj ⊢; omega) (by omega) h
        refine ⟨i + 1, by push_cast; omega, ?_⟩
        rw [cast_powMod' (by omega)] at hi2
        rw [← hi2, ← pow_mul]; congr 1; ring
    · rw [if_neg hc] at h
      have hyn : y = n - 1 := by simpa using h
      exact ⟨0, by simpa using hjs, by simpa using (cast_eq_neg_one_iff hn h0 h1).mpr hyn⟩

/-- completeness of the squaring loop in a field -/
theorem mrInner_complete [hp : Fact n.Prime] (s : Int) : ∀ (fuel : Nat) (j y : Int), 0 ≤ y → y < n →
    j + fuel = s + 1 → (y : ZMod n) ^ (2 ^ fuel) = 1 → (y : ZMod n) ≠ 1 → mrInner n s fuel j y = true := by
  have hn : 2 ≤ n := hp.out.two_le
  intro fuel
  induction fuel with
  | zero => intro j y h0 h1 hj hy hy1; simp at hy; exact absurd hy hy1
  | succ f ih =>
    intro j y h0 h1 hj hy hy1
    rw [mrInner_succ]
    by_cases hyn : y = n - 1
    · rw [if_neg (by simp [hyn])]; simp [hyn]
    · have hYn : (y : ZMod n) ≠ -1 := fun h => hyn ((cast_eq_neg_one_iff hn h0 h1).mp h)
      have hsq : (y : ZMod n) * (y : ZMod n) ≠ 1 := by
        intro h; rcases mul_self_eq_one_iff.mp h with h | h
        · exact hy1 h
        · exact hYn h
      have hf : f ≠ 0 := by
        rintro rfl
        apply hsq; simpa [pow_succ] using hy
      have hj' : j ≤ s - 1 := by push_cast at hj; omega
      have hr := powMod_range' (by omega : 0 < n) y 2
      have hcast := cast_powMod' (n := n) (by omega) y 2
      have hne1 : powMod y 2 n ≠ 1 := by
        intro h
        rw [h] at hcast
        apply hsq; rw [← pow_two, ← hcast]; simp
      rw [if_pos ⟨hj', hyn⟩, if_neg hne1]
      apply ih (j + 1) _ hr.1 hr.2 (by push_cast at hj ⊢; omega)
      · rw [hcast, ← pow_mul, ← pow_succ']; exact hy
      · rw [hcast, pow_two]; exact hsq

/-- what `true` from one base means -/
theorem mrBase_sound (hn : 2 ≤ n) (k : Nat) (r : Nat) (hs : 1 ≤ k) (a : Int)
    (h : mrBase n k r a = true) :
    (a : ZMod n) ^ r = 1 ∨ ∃ j, j < k ∧ (a : ZMod n) ^ (2 ^ j * r) = -1 := by
  rw [mrBase_eq] at h
  simp only [Int.toNat_natCast] at h
  have hr := powMod_range' (by omega : 0 < n) a r
  have hcast := cast_powMod' (n := n) (by omega) a r
  by_cases h1 : powMod a r n = 1
  · left; rw [← hcast, h1]; simp
  by_cases h2 : powMod a r n = n - 1
  · right; exact ⟨0, by omega, by rw [pow_zero, one_mul, ← hcast, h2]; simp⟩
  · rw [if_pos ⟨h1, h2⟩] at h
    obtain ⟨i, hi1, hi2⟩ := mrInner_sound hn k k 1 _ hr.1 hr.2 (by ring) (by omega) h
    right
    refine ⟨i, by omega, ?_⟩
    rw [hcast, ← pow_mul, mul_comm] at hi2; exact hi2

/-- a prime passes every base that it does not divide -/
theorem mrBase_complete [hp : Fact n.Prime] (k : Nat) (r : Nat) (hk : n - 1 = 2 ^ k * r) (a : Int)
    (ha : (a : ZMod n) ≠ 0) : mrBase n k r a = true := by
  have hn : 2 ≤ n := hp.out.two_le
  rw [mrBase_eq]
  simp only [Int.toNat_natCast]
  have hr := powMod_range' (by omega : 0 < n) a r
  have hcast := cast_powMod' (n := n) (by omega) a r
  by_cases hc : powMod a r n ≠ 1 ∧ powMod a r n ≠ n - 1
  · rw [if_pos hc]
    apply mrInner_complete k k 1 _ hr.1 hr.2 (by ring)
    · rw [hcast, ← pow_mul, mul_comm, ← hk]; exact ZMod.pow_card_sub_one_eq_one ha
    · intro h; exact hc.1 ((cast_eq_one_iff hn hr.1 hr.2).mp h)
  · rw [if_neg hc]

end base

end NTProofs
