import Model.NumberTheory
import Proofs.NTInv
import Mathlib.Data.Int.ModEq
import Mathlib.Data.Nat.Log
import Mathlib.Tactic.Ring
/-! `pow(b, e, m)` for `m > 0`: square-and-multiply equals `b ^ e % m` -/
namespace NTProofs
open NT

theorem powAux_spec (m : Int) (hm : 0 < m) :
    ∀ (fuel : Nat) (b : Int) (e : Nat) (acc : Int), e < 2 ^ fuel →
      powAux m fuel b e acc ≡ acc * b ^ e [ZMOD m] := by
  intro fuel
  induction fuel with
  | zero =>
    intro b e acc he
    have : e = 0 := by simpa using he
    subst this; simp [powAux, Int.ModEq]
  | succ f ih =>
    intro b e acc he
    unfold powAux
    by_cases h0 : e = 0
    · subst h0; simp [Int.ModEq]
    · simp only [h0, ↓reduceIte]
      have he2 : e / 2 < 2 ^ f := by
        rw [pow_succ] at he; omega
      refine (ih _ _ _ he2).trans ?_
      simp only [pmod_eq_emod hm]
      have hbb : (b * b % m) ^ (e / 2) ≡ (b * b) ^ (e / 2) [ZMOD m] := (Int.mod_modEq _ _).pow _
      have hpow : b ^ e = (b * b) ^ (e / 2) * b ^ (e % 2) := by
        rw [← pow_two, ← pow_mul, ← pow_add, Nat.div_add_mod]
      rw [hpow]
      by_cases hodd : e % 2 = 1
      · simp only [hodd, ↓reduceIte, pow_one]
        have : acc * b % m ≡ acc * b [ZMOD m] := Int.mod_modEq _ _
        calc acc * b % m * (b * b % m) ^ (e / 2) ≡ acc * b * (b * b) ^ (e / 2) [ZMOD m] := this.mul hbb
          _ = acc * ((b * b) ^ (e / 2) * b) := by ring
      · have : e % 2 = 0 := by omega
        simp only [this, pow_zero, mul_one]
        simp only [show ¬ (0 = 1) by decide, ↓reduceIte]
        exact Int.ModEq.mul_left _ hbb

theorem powAux_range (m : Int) (hm : 0 < m) :
    ∀ (fuel : Nat) (b : Int) (e : Nat) (acc : Int), 0 ≤ acc → acc < m →
      0 ≤ powAux m fuel b e acc ∧ powAux m fuel b e acc < m := by
  intro fuel
  induction fuel with
  | zero => intro b e acc h0 h1; simp [powAux, h0, h1]
  | succ f ih =>
    intro b e acc h0 h1
    unfold powAux
    by_cases he : e = 0
    · simp [he, h0, h1]
    · simp only [he, ↓reduceIte]
      apply ih
      · split
        · rw [pmod_eq_emod hm]; exact Int.emod_nonneg _ (by omega)
        · exact h0
      · split
        · rw [pmod_eq_emod hm]; exact Int.emod_lt_of_pos _ hm
        · exact h1

/-- `pow(b, e, m)` is `b ^ e % m` (Euclidean remainder, in `[0, m)`) for every base and exponent -/
theorem powMod_eq (b : Int) (e : Nat) (m : Int) (hm : 0 < m) : powMod b e m = b ^ e % m := by
  unfold powMod
  have hlt : e < 2 ^ (e.log2 + 1) := by
    rw [Nat.log2_eq_log_two]; exact Nat.lt_pow_succ_log_self (by decide) e
  have h1 := powAux_spec m hm (e.log2 + 1) (pmod b m) e (pmod 1 m) hlt
  have hr := powAux_range m hm (e.log2 + 1) (pmod b m) e (pmod 1 m)
    (by rw [pmod_eq_emod hm]; exact Int.emod_nonneg _ (by omega))
    (by rw [pmod_eq_emod hm]; exact Int.emod_lt_of_pos _ hm)
  have h2 : pmod 1 m * pmod b m ^ e ≡ b ^ e [ZMOD m] := by
    rw [pmod_eq_emod hm, pmod_eq_emod hm]
    have := ((Int.mod_modEq 1 m).mul ((Int.mod_modEq b m).pow e)); simpa using this
  have h3 := h1.trans h2
  unfold Int.ModEq at h3
  rw [← h3, Int.emod_eq_of_lt hr.1 hr.2]

end NTProofs
