import Proofs.Bits
import Proofs.RandBasic
/-!
# Proofs.RandSeed — the PRNG is the concatenation of the hash blocks; the seed helpers are in range and
depend on the hash only through those blocks
-/
namespace Rand
open Bits

/-- the first `k` blocks of the PRNG stream: `H("prng-0-seed") ‖ … ‖ H("prng-(k-1)-seed")` -/
def prngBlocks (H : Bytes → Bytes) (seedStr : Bytes) (k : Nat) : Bytes :=
  ((List.range k).map fun i => H (prngInput i seedStr)).flatten

theorem prngBlocks_succ (H : Bytes → Bytes) (seedStr : Bytes) (k : Nat) :
    prngBlocks H seedStr (k + 1) = prngBlocks H seedStr k ++ H (prngInput k seedStr) := by
  simp [prngBlocks, List.range_succ]

/-- state invariant: the blocks hashed so far are exactly the bytes already handed out followed by the unread buffer -/
def PrngInv (H : Bytes → Bytes) (seedStr : Bytes) (consumed : Bytes) (st : PrngState) : Prop :=
  prngBlocks H seedStr st.counter = consumed ++ st.buf

theorem prngInv_init (H : Bytes → Bytes) (seedStr : Bytes) : PrngInv H seedStr [] prngInit := by
  simp [PrngInv, prngInit, prngBlocks]

theorem prngNext_inv {H : Bytes → Bytes} {seedStr : Bytes} {fuel : Nat} {st st' : PrngState} {b : UInt8} {consumed : Bytes}
    (hinv : PrngInv H seedStr consumed st) (h : prngNext H seedStr fuel st = some (b, st')) :
    PrngInv H seedStr (consumed ++ [b]) st' := by
  induction fuel generalizing st with
  | zero => simp [prngNext] at h
  | succ f ih =>
    unfold prngNext at h
    split at h
    · rename_i b' rest hbuf
      simp only [Option.some.injEq, Prod.mk.injEq] at h
      obtain ⟨rfl, rfl⟩ := h
      unfold PrngInv at hinv ⊢
      simp only [hinv, hbuf, List.append_assoc, List.singleton_append]
    · rename_i hbuf
      apply ih _ h
      unfold PrngInv at hinv ⊢
      simp only [prngBlocks_succ, hinv, hbuf, List.append_nil]

theorem prngRead_inv {H : Bytes → Bytes} {seedStr : Bytes} {fuel n : Nat} {st st' : PrngState} {bs consumed : Bytes}
    (hinv : PrngInv H seedStr consumed st) (h : prngRead H seedStr fuel n st = some (bs, st')) :
    PrngInv H seedStr (consumed ++ bs) st' ∧ bs.length = n := by
  induction n generalizing st consumed bs with
  | zero =>
    simp only [prngRead, Option.some.injEq, Prod.mk.injEq] at h
    obtain ⟨rfl, rfl⟩ := h
    simpa using hinv
  | succ n ih =>
    unfold prngRead at h
    split at h
    · cases h
    · rename_i b st1 hnext
      split at h
      · cases h
      · rename_i bs' st2 hread
        simp only [Option.some.injEq, Prod.mk.injEq] at h
        obtain ⟨rfl, rfl⟩ := h
        have := ih (prngNext_inv hinv hnext) hread
        simp only [List.append_assoc, List.singleton_append] at this
        exact ⟨this.1, by simp [this.2]⟩

/-! ### dependence on the hash only through the blocks -/

theorem prngNext_congr {H₁ H₂ : Bytes → Bytes} {seedStr : Bytes} (hH : ∀ i, H₁ (prngInput i seedStr) = H₂ (prngInput i seedStr))
    (fuel : Nat) (st : PrngState) : prngNext H₁ seedStr fuel st = prngNext H₂ seedStr fuel st := by
  induction fuel generalizing st with
  | zero => rfl
  | succ f ih =>
    unfold prngNext
    split
    · rfl
    · rw [hH, ih]

theorem prngRead_congr {H₁ H₂ : Bytes → Bytes} {seedStr : Bytes} (hH : ∀ i, H₁ (prngInput i seedStr) = H₂ (prngInput i seedStr))
    (fuel n : Nat) (st : PrngState) : prngRead H₁ seedStr fuel n st = prngRead H₂ seedStr fuel n st := by
  induction n generalizing st with
  | zero => rfl
  | succ n ih =>
    unfold prngRead
    rw [prngNext_congr hH]
    split
    · rfl
    · rw [ih]

theorem trytryagainStep_congr {H₁ H₂ : Bytes → Bytes} {seedStr : Bytes} (hH : ∀ i, H₁ (prngInput i seedStr) = H₂ (prngInput i seedStr))
    (order : Int) (bits pfuel : Nat) (st : PrngState) :
    trytryagainStep H₁ seedStr order bits pfuel st = trytryagainStep H₂ seedStr order bits pfuel st := by
  unfold trytryagainStep
  simp only [prngRead_congr hH]

theorem trytryagainLoop_congr {H₁ H₂ : Bytes → Bytes} {seedStr : Bytes} (hH : ∀ i, H₁ (prngInput i seedStr) = H₂ (prngInput i seedStr))
    (order : Int) (bits pfuel fuel : Nat) (st : PrngState) :
    trytryagainLoop H₁ seedStr order bits pfuel fuel st = trytryagainLoop H₂ seedStr order bits pfuel fuel st := by
  induction fuel generalizing st with
  | zero => rfl
  | succ f ih =>
    unfold trytryagainLoop
    rw [trytryagainStep_congr hH]
    split <;> first | rfl | apply ih

/-! ### range -/

theorem trytryagainStep_range {H : Bytes → Bytes} {seedStr : Bytes} {order : Int} {bits pfuel : Nat} {st st' : PrngState} {g : Nat}
    (h : trytryagainStep H seedStr order bits pfuel st = some (.ok (some g, st'))) : 1 ≤ g ∧ (g : Int) < order := by
  unfold trytryagainStep at h
  simp only [bitsAndBytes] at h
  split at h
  · cases h
  · split at h
    · cases h
    · split at h
      · cases h
      · split at h
        · rename_i hc
          simp only [Option.some.injEq, Except.ok.injEq, Prod.mk.injEq] at h
          obtain ⟨⟨rfl⟩, _⟩ := h
          exact ⟨by omega, hc.2⟩
        · simp at h

theorem trytryagainLoop_range {H : Bytes → Bytes} {seedStr : Bytes} {order : Int} {bits pfuel fuel : Nat} {st : PrngState} {g : Nat}
    (h : trytryagainLoop H seedStr order bits pfuel fuel st = some (.ok g)) : 1 ≤ g ∧ (g : Int) < order := by
  induction fuel generalizing st with
  | zero => simp [trytryagainLoop] at h
  | succ f ih =>
    unfold trytryagainLoop at h
    split at h
    · cases h
    · cases h
    · rename_i g' st' hs
      simp only [Option.some.injEq, Except.ok.injEq] at h
      subst h
      exact trytryagainStep_range hs
    · exact ih h

theorem hexLen_pos (n : Nat) : 1 ≤ hexLen n := by
  unfold hexLen; split
  · omega
  · cases n with
    | zero => contradiction
    | succ k => rw [hexDigits]; omega

theorem orderlen_pos (n : Nat) : 1 ≤ Util.orderlen n := by
  unfold Util.orderlen; have := hexLen_pos n; omega

end Rand

namespace Rand

/-- with a hash that never returns the empty string (SHA-256 returns 32 bytes) two steps of fuel always yield a byte -/
theorem prngNext_some (H : Bytes → Bytes) (seedStr : Bytes) (hH : ∀ x, H x ≠ []) (fuel : Nat) (hf : 2 ≤ fuel) (st : PrngState) :
    ∃ b st', prngNext H seedStr fuel st = some (b, st') := by
  obtain ⟨f, rfl⟩ : ∃ f, fuel = f + 2 := ⟨fuel - 2, by omega⟩
  unfold prngNext
  cases hb : st.buf with
  | cons b rest => exact ⟨b, _, rfl⟩
  | nil =>
    simp only
    unfold prngNext
    cases hh : H (prngInput st.counter seedStr) with
    | nil => exact absurd hh (hH _)
    | cons b rest => exact ⟨b, _, rfl⟩

theorem prngRead_some (H : Bytes → Bytes) (seedStr : Bytes) (hH : ∀ x, H x ≠ []) (fuel : Nat) (hf : 2 ≤ fuel) (n : Nat) :
    ∀ st, ∃ bs st', prngRead H seedStr fuel n st = some (bs, st') := by
  induction n with
  | zero => intro st; exact ⟨[], st, rfl⟩
  | succ n ih =>
    intro st
    obtain ⟨b, st1, h1⟩ := prngNext_some H seedStr hH fuel hf st
    obtain ⟨bs, st2, h2⟩ := ih st1
    exact ⟨b :: bs, st2, by rw [prngRead, h1]; simp only [h2]⟩

end Rand
