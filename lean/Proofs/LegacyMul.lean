import Proofs.Legacy
import Proofs.Naf
import Mathlib.Data.Nat.Bitwise
import Mathlib.Tactic.Module
/-!
# Proofs.LegacyMul — the legacy `Point.__mul__` (X9.62 D.3.2: the "3e" signed binary method)

`affMul A e` returns a point value denoting `e • g` for every integer `e`, when `A` denotes `g` and the stored order
(if truthy) annihilates `g`.

Loop invariant (`affMulLoop_correct`): before the iteration with `i = 2^j` the accumulator denotes
`(e3 / (2 i) − e / (2 i)) • g`; the loop stops at `i = 1` with `(e3 / 2 − e / 2) • g`, which is `e • g` for `e3 = 3 e`.
-/
namespace Jac
open WeierstrassCurve WeierstrassCurve.Jacobian Curve

/-! ### integer facts -/

/-- the bit test of the loop: `x & 2^j != 0` iff bit `j` of `x` is set -/
theorem and_two_pow_ne_zero (x j : ℕ) : ((x &&& 2 ^ j) != 0) = decide (x / 2 ^ j % 2 = 1) := by
  rw [Nat.and_two_pow, ← Nat.testBit_eq_decide_div_mod_eq]
  have h : 0 < 2 ^ j := Nat.two_pow_pos j
  cases x.testBit j <;> simp

theorem and_two_pow_eq_zero (x j : ℕ) : ((x &&& 2 ^ j) == 0) = decide (x / 2 ^ j % 2 = 0) := by
  have e : ((x &&& 2 ^ j) == 0) = !((x &&& 2 ^ j) != 0) := by simp [bne]
  rw [e, and_two_pow_ne_zero]
  have h2 : x / 2 ^ j % 2 = 0 ∨ x / 2 ^ j % 2 = 1 := by omega
  rcases h2 with h2 | h2 <;> simp [h2]

example : ((21 &&& 2 ^ 2) != 0) = true ∧ ((21 &&& 2 ^ 3) == 0) = true := by decide

/-- one step of the invariant: `x / 2^j = 2 * (x / 2^(j+1)) + bit_j x` -/
theorem div_two_pow_step (x j : ℕ) : x / 2 ^ j = 2 * (x / (2 * 2 ^ j)) + x / 2 ^ j % 2 := by
  rw [mul_comm 2 (2 ^ j), ← Nat.div_div_eq_div_mul]; omega

/-- the end of the loop: `3e/2 − e/2 = e` -/
theorem three_halves (n : ℕ) : (((3 * n / 2 : ℕ) : ℤ) - ((n / 2 : ℕ) : ℤ)) = n := by omega

/-- the start of the loop: with `2^J ≤ 3e < 2^(J+1)`, `3e / 2^J = 1` and `e / 2^J = 0` -/
theorem start_quot {n J : ℕ} (h1 : 2 ^ J ≤ 3 * n) (h2 : 3 * n < 2 ^ (J + 1)) :
    3 * n / 2 ^ J = 1 ∧ n / 2 ^ J = 0 := by
  have hpos : 0 < 2 ^ J := Nat.two_pow_pos J
  rw [pow_succ] at h2
  constructor
  · apply Nat.div_eq_of_lt_le <;> omega
  · apply Nat.div_eq_of_lt; omega

example : 3 * 7 / 2 ^ 4 = 1 ∧ 7 / 2 ^ 4 = 0 := start_quot (n := 7) (J := 4) (by decide) (by decide)

variable {p : ℕ} [hp : Fact p.Prime] {a b : ℤ} {H : AddSubgroup (Grp (a : ZMod p) (b : ZMod p))}

theorem PtRep.congr {R : Pt} {g g' : Grp (a : ZMod p) (b : ZMod p)} (h : PtRep p a b H R g)
    (e : g = g') : PtRep p a b H R g' := e ▸ h

/-! ### the loop -/

/-- **the `while i > 1:` loop** started at `i = 2^j` with an accumulator denoting `(e3 / 2^(j+1) − e / 2^(j+1)) • g` ends
with a point value denoting `(e3 / 2 − e / 2) • g` -/
theorem affMulLoop_correct (hp2 : p ≠ 2) (hH : NoOrder2 H) {self negSelf : Pt} {g}
    (hs : PtRep p a b H self g) (hn : PtRep p a b H negSelf (-g)) (e e3 : ℕ) :
    ∀ (j : ℕ) (result : Pt),
      PtRep p a b H result ((((e3 / (2 * 2 ^ j) : ℕ) : ℤ) - ((e / (2 * 2 ^ j) : ℕ) : ℤ)) • g) →
      ∃ R, affMulLoop self negSelf e e3 (2 ^ j) result = .ok R ∧
        PtRep p a b H R ((((e3 / 2 : ℕ) : ℤ) - ((e / 2 : ℕ) : ℤ)) • g) := by
  intro j
  induction j with
  | zero =>
    intro result hr
    rw [affMulLoop]
    simp only [pow_zero, gt_iff_lt, lt_self_iff_false, dite_false]
    exact ⟨_, rfl, by simpa using hr⟩
  | succ j ih =>
    intro result hr
    have hi : 2 ^ (j + 1) > 1 := Nat.one_lt_two_pow (by omega)
    rw [affMulLoop]
    simp only [hi, dite_true]
    obtain ⟨r1, e1, h1⟩ := ptDouble_correct hp2 hH hr
    simp only [e1, ok_bind, and_two_pow_ne_zero, and_two_pow_eq_zero]
    have hhalf : 2 ^ (j + 1) / 2 = 2 ^ j := by rw [pow_succ]; omega
    rw [hhalf]
    have s3 := div_two_pow_step e3 (j + 1)
    have s1 := div_two_pow_step e (j + 1)
    set c3 := e3 / (2 * 2 ^ (j + 1)) with hc3
    set c1 := e / (2 * 2 ^ (j + 1)) with hc1
    set q3 := e3 / 2 ^ (j + 1) with hq3
    set q1 := e / 2 ^ (j + 1) with hq1
    have hq3' : e3 / (2 * 2 ^ j) = q3 := by rw [hq3, pow_succ, mul_comm]
    have hq1' : e / (2 * 2 ^ j) = q1 := by rw [hq1, pow_succ, mul_comm]
    have b3 : q3 % 2 = 0 ∨ q3 % 2 = 1 := by omega
    have b1 : q1 % 2 = 0 ∨ q1 % 2 = 1 := by omega
    rcases b3 with b3 | b3 <;> rcases b1 with b1 | b1
    · -- both bits 0
      simp only [b3, b1, zero_ne_one, decide_false, decide_true, Bool.false_and, Bool.and_false,
        Bool.false_eq_true, if_false, pure, Except.pure, ok_bind]
      apply ih; rw [hq3', hq1']
      refine h1.congr ?_
      rw [s3, s1, b3, b1]; push_cast; module
    · -- e3: 0, e: 1  → add −self
      obtain ⟨r2, e2, h2⟩ := ptAdd_correct hp2 hH h1 hn
      simp only [b3, b1, zero_ne_one, one_ne_zero, decide_false, decide_true,
        Bool.and_self, Bool.false_eq_true, if_false, if_true, pure, Except.pure, ok_bind, e2]
      apply ih; rw [hq3', hq1']
      refine h2.congr ?_
      rw [s3, s1, b3, b1]; push_cast; module
    · -- e3: 1, e: 0  → add self
      obtain ⟨r2, e2, h2⟩ := ptAdd_correct hp2 hH h1 hs
      simp only [b3, b1, zero_ne_one, one_ne_zero, decide_false, decide_true,
        Bool.and_self, Bool.false_eq_true, if_false, if_true, pure, Except.pure, ok_bind, e2]
      apply ih; rw [hq3', hq1']
      refine h2.congr ?_
      rw [s3, s1, b3, b1]; push_cast; module
    · -- both bits 1
      simp only [b3, b1, one_ne_zero, decide_false, decide_true, Bool.false_and, Bool.and_false,
        Bool.false_eq_true, if_false, pure, Except.pure, ok_bind]
      apply ih; rw [hq3', hq1']
      refine h1.congr ?_
      rw [s3, s1, b3, b1]; push_cast; module

/-! ### `Point.__mul__` -/

/-- the positive case, after the early exits -/
theorem affMulPos_correct (hp2 : p ≠ 2) (hH : NoOrder2 H) {A : AffPt} {g} (hA : AffRep p a b H A g)
    {e : ℤ} (he : 0 < e) : ∃ R, affMulPos A e = .ok R ∧ PtRep p a b H R (e • g) := by
  have hA0 := hA
  obtain ⟨hc, hx, hy, hm, hn, rfl⟩ := hA
  -- `negative_self`
  have hmem := H.neg_mem hm
  have hneg := Affine.Point.neg_some hn
  rw [hneg] at hmem
  obtain ⟨hmk, hrep⟩ := mkPoint_rep (x := A.x) (y := pmod (-A.y) p) hc hx (inRange_fmod _) _ rfl
    (by simp [pmod, Affine.negY, shortW]) hmem A.order
  rw [← hneg] at hrep
  -- the exponent
  obtain ⟨n, rfl⟩ : ∃ n : ℕ, e = n := ⟨e.toNat, (Int.toNat_of_nonneg he.le).symm⟩
  have hn0 : 0 < n := by exact_mod_cast he
  have h3 : (3 * (n : ℤ)).toNat = 3 * n := by omega
  obtain ⟨J, hJ, hJ1, hJ2⟩ := Naf.leftmostBit_spec (3 * n) (by omega)
  have hJpos : J ≠ 0 := by
    rintro rfl
    simp at hJ2; omega
  obtain ⟨j, rfl⟩ : ∃ j, J = j + 1 := ⟨J - 1, by omega⟩
  have hi : leftmostBit (3 * n) / 2 = 2 ^ j := by rw [hJ, pow_succ]; omega
  obtain ⟨q3, q1⟩ := start_quot hJ1 hJ2
  have hstart : PtRep p a b H (.aff A)
      ((((3 * n / (2 * 2 ^ j) : ℕ) : ℤ) - ((n / (2 * 2 ^ j) : ℕ) : ℤ)) •
        Affine.Point.some (A.x : ZMod p) (A.y : ZMod p) hn) := by
    have q3' : 3 * n / (2 * 2 ^ j) = 1 := by rw [mul_comm 2, ← pow_succ]; exact q3
    have q1' : n / (2 * 2 ^ j) = 0 := by rw [mul_comm 2, ← pow_succ]; exact q1
    rw [q3', q1']
    simp only [Nat.cast_one, Nat.cast_zero, sub_zero, one_smul]
    exact hA0
  obtain ⟨R, hR, hRrep⟩ := affMulLoop_correct hp2 hH (self := .aff A) (negSelf := .aff ⟨A.curve, A.x, pmod (-A.y) p, A.order⟩)
    hA0 hrep n (3 * n) j (.aff A) hstart
  refine ⟨R, ?_, hRrep.congr (by rw [three_halves])⟩
  simp only [affMulPos, hc.1, hmk, ok_bind, h3, Int.toNat_natCast, hi, hR]

/-- the part of `Point.__mul__` after the two early exits -/
theorem affMul_tail (hp2 : p ≠ 2) (hH : NoOrder2 H) {A : AffPt} {g} (hA : AffRep p a b H A g)
    {e : ℤ} (h0 : e ≠ 0) :
    ∃ R, (if e < 0 then (do let N ← affNeg A; affMulPos N (-e)) else affMulPos A e) = .ok R ∧
      PtRep p a b H R (e • g) := by
  by_cases hneg : e < 0
  · simp only [hneg, if_true]
    obtain ⟨N, hN, hNrep, _⟩ := affNeg_correct hH hA
    obtain ⟨R, hR, hRrep⟩ := affMulPos_correct hp2 hH hNrep (e := -e) (by omega)
    exact ⟨R, by simp only [hN, ok_bind, hR], hRrep.congr (by simp)⟩
  · simp only [hneg, if_false]
    exact affMulPos_correct hp2 hH hA (e := e) (by omega)

/-- **`Point.__mul__`**: `self * e` denotes `e • g` for every integer `e` -/
theorem affMul_correct (hp2 : p ≠ 2) (hH : NoOrder2 H) {A : AffPt} {g} (hA : AffRep p a b H A g)
    (ho : ∀ n, truthy A.order = some n → n • g = 0) (e : ℤ) :
    ∃ R, affMul A e = .ok R ∧ PtRep p a b H R (e • g) := by
  by_cases h0 : e = 0
  · subst h0
    exact ⟨.infinity, by simp [affMul], by simp [PtRep]⟩
  have hb : (e == 0) = false := by simpa using h0
  cases hto : truthy A.order with
  | none =>
    simp only [affMul, hto, hb, Bool.or_false, Bool.false_eq_true, if_false]
    exact affMul_tail hp2 hH hA h0
  | some o =>
    by_cases hm : pmod e o = 0
    · have hb2 : (pmod e o == 0) = true := by simpa using hm
      refine ⟨.infinity, by simp only [affMul, hto, hb, hb2, Bool.or_true, if_true], ?_⟩
      simp only [PtRep]
      obtain ⟨k, rfl⟩ := Int.dvd_of_fmod_eq_zero hm
      rw [mul_comm, mul_smul, ho o hto, smul_zero]
    · have hb2 : (pmod e o == 0) = false := by simpa using hm
      simp only [affMul, hto, hb, hb2, Bool.or_false, Bool.false_eq_true, if_false]
      exact affMul_tail hp2 hH hA h0

end Jac
