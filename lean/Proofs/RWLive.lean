import Proofs.RWSafe
/-! # Proofs.RWLive — deadlock freedom of the generated programs at the counting level

`Enabled s r k`: some thread is at program point `(r, k)` and its instruction can execute (`cstep … = .ok _`).
Paper argument, mirrored by the staged `omega` calls below: a holder of a light-switch mutex is never blocked except at
the two conditional acquires; whoever blocks those is inside or about to release; once nobody holds `RM` / `WM` the
remaining waiters (`a0`, `a1`, `a2`, `a8`, `b0`, `b4`, `b6`) face free mutexes. -/
set_option linter.unusedVariables false
namespace RW

/-- the instruction can execute now -/
def guard (ins : Instr) (sh : Shared) : Prop :=
  match ins with
  | .acq m => sh.mtx m = 0
  | .rel m => sh.mtx m ≠ 0
  | .inc _ => True
  | .dec _ => True
  | .ifeq c k (.acq m) => sh.ctr c = k → sh.mtx m = 0
  | .ifeq c k (.rel m) => sh.ctr c = k → sh.mtx m ≠ 0

theorem exec_isOk (ins : Instr) (sh : Shared) : (∃ sh', exec ins sh = .ok sh') ↔ guard ins sh := by
  cases ins with
  | acq m => simp only [exec, doAct, guard]; split <;> simp_all
  | rel m => simp only [exec, doAct, guard]; split <;> simp_all
  | inc c => simp [exec, guard]
  | dec c => simp [exec, guard]
  | ifeq c k a =>
    cases a <;> simp only [exec, doAct, guard] <;> split <;> (try split) <;> simp_all

def Enabled (P : Progs) (s : CS) (r : Role) (k : Nat) : Prop := ∃ nxt s', cstep P ⟨r, k, nxt⟩ s = .ok s'

theorem enabled_iff (P : Progs) (s : CS) (r : Role) (k : Nat) :
    Enabled P s r k ↔ s.cnt r k ≠ 0 ∧ ∃ ins, (P.round r)[k]? = some ins ∧ guard ins s.sh := by
  constructor
  · rintro ⟨nxt, s', h⟩
    obtain ⟨hc, ins, sh', hins, hex, _⟩ := cstep_ok' h
    exact ⟨hc, ins, hins, (exec_isOk ins s.sh).mp ⟨sh', hex⟩⟩
  · rintro ⟨hc, ins, hins, hg⟩
    obtain ⟨sh', hex⟩ := (exec_isOk ins s.sh).mpr hg
    refine ⟨none, ⟨sh', move s.cnt (r, k) (dest P r k none)⟩, ?_⟩
    simp [cstep, hc, hins, hex]

/-- `¬ Enabled GP s r k` for a literal program point, as arithmetic -/
macro "rw_dis " f:ident : tactic => `(tactic| (
  rw [enabled_iff] at $f:ident
  simp only [GP, Gen.RW.progs, Progs.round, Progs.acq, Progs.rel, Gen.RW.reader_acquire, Gen.RW.reader_release,
    Gen.RW.writer_acquire, Gen.RW.writer_release, List.cons_append, List.nil_append, List.getElem?_cons_succ,
    List.getElem?_cons_zero, Option.some.injEq, exists_eq_left', guard, Shared.mtx, Shared.ctr, and_true] at $f:ident))

/- from "nobody at `(r, k)` can move" (and what is known so far) conclude that nobody is at `(r, k)` -/
set_option hygiene false in
macro "rw_stage " z:ident " : " r:term ", " k:num : tactic => `(tactic| (
  have $z:ident : s.cnt $r $k = 0 := by
    have fk := f $r $k
    rw_dis fk
    omega))

/-- **deadlock freedom, counting level**: if some thread has not finished, some thread can take a step -/
theorem rinv_progress (s : CS) (h : RInv s)
    (hex : ∃ r k, s.cnt r k ≠ 0 ∧ k < (GP.round r).length) : ∃ r k, Enabled GP s r k := by
  apply Classical.byContradiction
  intro hno
  have f : ∀ r k, ¬ Enabled GP s r k := fun r k he => hno ⟨r, k, he⟩
  clear hno
  simp only [RInv] at h
  -- 1. points whose instruction is never blocked (increments, decrements, releases)
  rw_stage za3 : .reader, 3
  rw_stage za5 : .reader, 5
  rw_stage za6 : .reader, 6
  rw_stage za7 : .reader, 7
  rw_stage za9 : .reader, 9
  rw_stage za10 : .reader, 10
  rw_stage za11 : .reader, 11
  rw_stage zb1 : .writer, 1
  rw_stage zb3 : .writer, 3
  rw_stage zb5 : .writer, 5
  rw_stage zb7 : .writer, 7
  rw_stage zb8 : .writer, 8
  rw_stage zb9 : .writer, 9
  -- 2. the holder of RM at the conditional acquire of NW: rc = 1 means nobody is inside, so NW is free
  rw_stage za4 : .reader, 4
  -- now RM is free
  rw_stage za2 : .reader, 2
  rw_stage za8 : .reader, 8
  -- 3. the holder of WM at the conditional acquire of NR: wc = 1 means no other writer, and no reader holds NR
  rw_stage zb2 : .writer, 2
  -- now WM is free
  rw_stage zb0 : .writer, 0
  rw_stage zb6 : .writer, 6
  -- 4. NW, NR, RQ are free
  rw_stage zb4 : .writer, 4
  rw_stage za1 : .reader, 1
  rw_stage za0 : .reader, 0
  obtain ⟨r, k, hc, hk⟩ := hex
  cases r
  · rw [round_len_reader] at hk
    rcases k with _|_|_|_|_|_|_|_|_|_|_|_|k <;> first | contradiction | omega
  · rw [round_len_writer] at hk
    rcases k with _|_|_|_|_|_|_|_|_|_|k <;> first | contradiction | omega

end RW
