import Proofs.Bits
import Proofs.RfcNum
/-!
# Proofs.RfcSpec — RFC 6979 §2.3, §3.2 (steps a–h) and §3.6, transcribed over bit strings

Independent of the code's tricks (`hexlify`, `>>`, `"%0*x"`, byte-length loop bound): `bits2int` is "the
leftmost qlen bits, as an integer", `int2octets` is the list of base-256 digits, `rlen = 8·⌈qlen/8⌉`,
step h.2 appends HMAC blocks "while tlen < qlen", the candidates `T₀, T₁, …` are defined by recursion on
the state `(K, V)`.  `hmac` and its output length `hlen` (bytes) are parameters.
-/
namespace Rfc
open Bits Rand

/-- binary length of `q` (for `q ≥ 1`: the `qlen` with `2^(qlen−1) ≤ q < 2^qlen`, see `qlen_spec`) -/
def qlen (q : Nat) : Nat := bitLength1 q

theorem qlen_spec (q : Nat) (hq : 1 ≤ q) : 2 ^ (qlen q - 1) ≤ q ∧ q < 2 ^ qlen q := by
  unfold qlen; rw [bitLength1_eq q hq]
  exact ⟨two_pow_le_bitLength q hq, lt_two_pow_bitLength q⟩

/-- `rlen / 8 = ⌈qlen/8⌉` -/
def rolen (q : Nat) : Nat := (qlen q + 7) / 8

/-- §2.3.2 on a bit string: the leftmost `qlen` bits (all of them if there are fewer), as an integer -/
def bits2int (q : Nat) (b : List Bool) : Nat := bitsVal (b.take (qlen q))

/-- §2.3.4: `int2octets(bits2int(b) mod q)` -/
def bits2octets (q : Nat) (b : List Bool) : Bytes := int2octets (rolen q) (bits2int q b % q)

/-- §3.2 steps b–g (with the §3.6 additional input `extra` appended; empty = plain §3.2) -/
def initKV (hmac : Bytes → Bytes → Bytes) (hlen : Nat) (q x : Nat) (h1 extra : Bytes) : Bytes × Bytes :=
  let seed := int2octets (rolen q) x ++ bits2octets q (bitsOfBytes h1) ++ extra
  let V := List.replicate hlen (1 : UInt8)          -- b
  let K := List.replicate hlen (0 : UInt8)          -- c
  let K := hmac K (V ++ [0] ++ seed)                -- d
  let V := hmac K V                                 -- e
  let K := hmac K (V ++ [1] ++ seed)                -- f
  let V := hmac K V                                 -- g
  (K, V)

/-- step h.2 unrolled `m` times: `V ← HMAC_K(V); T ← T ‖ V`; returns the last `V` and `T` -/
def genT (hmac : Bytes → Bytes → Bytes) (K : Bytes) : Nat → Bytes → Bytes × Bytes
  | 0, V => (V, [])
  | m+1, V =>
    let V' := hmac K V
    let r := genT hmac K m V'
    (r.1, V' ++ r.2)

/-- number of rounds of "while tlen < qlen" when every block has `8·hlen` bits: `⌈qlen / (8·hlen)⌉` -/
def blocks (hlen q : Nat) : Nat := (qlen q + 8 * hlen - 1) / (8 * hlen)

theorem blocks_spec (hlen q : Nat) (hh : 0 < hlen) :
    qlen q ≤ 8 * hlen * blocks hlen q ∧ (0 < blocks hlen q → 8 * hlen * (blocks hlen q - 1) < qlen q) := by
  unfold blocks
  have hd := Nat.div_add_mod (qlen q + 8 * hlen - 1) (8 * hlen)
  have hm := Nat.mod_lt (qlen q + 8 * hlen - 1) (show 0 < 8 * hlen by omega)
  generalize (qlen q + 8 * hlen - 1) / (8 * hlen) = m at *
  generalize (qlen q + 8 * hlen - 1) % (8 * hlen) = r at *
  constructor
  · omega
  · intro hpos
    obtain ⟨m', rfl⟩ : ∃ m', m = m' + 1 := ⟨m - 1, by omega⟩
    simp only [Nat.add_sub_cancel]
    rw [Nat.mul_succ] at hd
    omega

/-- one round of step h: the candidate `k = bits2int(T)` and the state for the next round (h.3, second half) -/
def candidate (hmac : Bytes → Bytes → Bytes) (hlen q : Nat) (kv : Bytes × Bytes) : Nat × (Bytes × Bytes) :=
  let r := genT hmac kv.1 (blocks hlen q) kv.2
  let k := bits2int q (bitsOfBytes r.2)
  let K' := hmac kv.1 (r.1 ++ [0])
  let V' := hmac K' r.1
  (k, (K', V'))

/-- the candidate stream `T₀, T₁, …` started in state `kv` -/
def candAt (hmac : Bytes → Bytes → Bytes) (hlen q : Nat) : Nat → Bytes × Bytes → Nat
  | 0, kv => (candidate hmac hlen q kv).1
  | i+1, kv => candAt hmac hlen q i (candidate hmac hlen q kv).2

/-- "k is in the [1, q−1] range" -/
def acceptable (q k : Nat) : Prop := 1 ≤ k ∧ k < q

instance (q k : Nat) : Decidable (acceptable q k) := by unfold acceptable; infer_instance

/-- the RFC's candidate stream for (q, x, h1, extra) -/
def stream (hmac : Bytes → Bytes → Bytes) (hlen : Nat) (q x : Nat) (h1 extra : Bytes) (i : Nat) : Nat :=
  candAt hmac hlen q i (initKV hmac hlen q x h1 extra)

/-- `k` is the `(r+1)`-th acceptable element of the stream `s`: it is `s j` for the `j` with exactly `r`
acceptable elements before it -/
def IsNthAcceptable (q : Nat) (s : Nat → Nat) (r : Nat) (k : Nat) : Prop :=
  ∃ j, s j = k ∧ acceptable q k ∧ ((List.range j).filter (fun i => decide (acceptable q (s i)))).length = r

end Rfc
