import Model.Ecdsa
import Mathlib.Tactic.Ring
import Mathlib.Tactic.Linarith
import Mathlib.Algebra.Order.Ring.Nat
/-!
# Proofs.EcdsaBits — bit-string reading of a digest, and `_truncate_and_convert_digest` = "leftmost bits"
-/
namespace Ecdsa

/-- the 8 bits of a byte, most significant first -/
def byteBits (b : UInt8) : List Bool := (List.range 8).map (fun i => b.toNat.testBit (7 - i))
/-- a byte string as a bit string (big-endian, as in FIPS 186-4 / SEC 1 "octet string to bit string") -/
def bytesToBits (s : Bytes) : List Bool := s.flatMap byteBits
/-- a bit string as an integer, most significant bit first -/
def bitsToNat (l : List Bool) : Nat := l.foldl (fun acc b => 2 * acc + b.toNat) 0

theorem bitsToNat_foldl (l : List Bool) (a : Nat) :
    l.foldl (fun acc b => 2 * acc + b.toNat) a = a * 2 ^ l.length + bitsToNat l := by
  induction l generalizing a with
  | nil => simp [bitsToNat]
  | cons b t ih =>
    simp only [List.foldl_cons, bitsToNat, List.length_cons]
    rw [ih, ih (2 * 0 + b.toNat)]
    ring

theorem bitsToNat_append (l1 l2 : List Bool) : bitsToNat (l1 ++ l2) = bitsToNat l1 * 2 ^ l2.length + bitsToNat l2 := by
  unfold bitsToNat; rw [List.foldl_append, bitsToNat_foldl]; rfl

theorem bitsToNat_cons (b : Bool) (t : List Bool) : bitsToNat (b :: t) = b.toNat * 2 ^ t.length + bitsToNat t := by
  unfold bitsToNat; rw [List.foldl_cons, bitsToNat_foldl]; simp [bitsToNat]

theorem bitsToNat_lt (l : List Bool) : bitsToNat l < 2 ^ l.length := by
  induction l with
  | nil => simp [bitsToNat]
  | cons b t ih =>
    rw [bitsToNat_cons, List.length_cons, pow_succ]
    have : b.toNat ≤ 1 := by cases b <;> simp
    nlinarith [Nat.pow_pos (n := t.length) (show 0 < 2 by decide)]

/-- the leftmost `m` bits of a bit string are the integer divided by `2^(length − m)` -/
theorem bitsToNat_take (l : List Bool) (m : Nat) (hm : m ≤ l.length) :
    bitsToNat (l.take m) = bitsToNat l / 2 ^ (l.length - m) := by
  conv_rhs => rw [← List.take_append_drop m l, bitsToNat_append]
  have hlen : (l.drop m).length = l.length - m := by simp
  have hlt := bitsToNat_lt (l.drop m)
  rw [List.length_append, List.length_take, List.length_drop, Nat.min_eq_left hm,
    show m + (l.length - m) - m = l.length - m by omega]
  rw [hlen] at hlt
  rw [Nat.add_comm, Nat.add_mul_div_right _ _ (Nat.pow_pos (by decide)), Nat.div_eq_of_lt hlt, Nat.zero_add]

theorem byteBits_length (b : UInt8) : (byteBits b).length = 8 := by simp [byteBits]

theorem natBits_val : ∀ n : Fin 256, bitsToNat ((List.range 8).map (fun i => n.val.testBit (7 - i))) = n.val := by
  decide +kernel

theorem byteBits_val (b : UInt8) : bitsToNat (byteBits b) = b.toNat := natBits_val ⟨b.toNat, b.toNat_lt⟩

theorem bytesToBits_length (s : Bytes) : (bytesToBits s).length = 8 * s.length := by
  induction s with
  | nil => rfl
  | cons b t ih => simp only [bytesToBits, List.flatMap_cons, List.length_append, byteBits_length, List.length_cons] at *; omega

theorem beVal_foldl (s : Bytes) (a : Nat) :
    s.foldl (fun acc b => acc * 256 + b.toNat) a = a * 256 ^ s.length + beVal s := by
  induction s generalizing a with
  | nil => simp [beVal]
  | cons b t ih =>
    simp only [List.foldl_cons, beVal, List.length_cons]
    rw [ih, ih (0 * 256 + b.toNat)]
    ring

theorem beVal_cons (b : UInt8) (t : Bytes) : beVal (b :: t) = b.toNat * 256 ^ t.length + beVal t := by
  unfold beVal; rw [List.foldl_cons, beVal_foldl]; simp [beVal]

theorem beVal_append (s t : Bytes) : beVal (s ++ t) = beVal s * 256 ^ t.length + beVal t := by
  unfold beVal; rw [List.foldl_append, beVal_foldl]; rfl

theorem beVal_lt (s : Bytes) : beVal s < 256 ^ s.length := by
  induction s with
  | nil => simp [beVal]
  | cons b t ih =>
    rw [beVal_cons, List.length_cons, pow_succ]
    have := b.toNat_lt
    nlinarith [Nat.pow_pos (n := t.length) (show 0 < 256 by decide)]

/-- the integer of a byte string is the integer of its bit string -/
theorem bitsToNat_bytesToBits (s : Bytes) : bitsToNat (bytesToBits s) = beVal s := by
  induction s with
  | nil => rfl
  | cons b t ih =>
    have : bytesToBits (b :: t) = byteBits b ++ bytesToBits t := by simp [bytesToBits]
    rw [this, bitsToNat_append, ih, byteBits_val, bytesToBits_length, beVal_cons, pow_mul]
    norm_num

/-- the first `k` bytes: divide by `256^(length − k)` -/
theorem beVal_take (s : Bytes) (k : Nat) (hk : k ≤ s.length) : beVal (s.take k) = beVal s / 256 ^ (s.length - k) := by
  conv_rhs => rw [← List.take_append_drop k s, beVal_append]
  have hlt := beVal_lt (s.drop k)
  have hlen : (s.drop k).length = s.length - k := by simp
  rw [hlen] at hlt
  rw [List.length_append, List.length_take, List.length_drop, Nat.min_eq_left hk,
    show k + (s.length - k) - k = s.length - k by omega,
    Nat.add_comm, Nat.add_mul_div_right _ _ (Nat.pow_pos (by decide)), Nat.div_eq_of_lt hlt, Nat.zero_add]

/-- `bit_length` of a halved number -/
theorem bitLength_half (m : Nat) : bitLength m ≤ bitLength (m / 2) + 1 := by
  cases m with
  | zero => simp [bitLength]
  | succ k => rw [bitLength]

theorem bitLength_le_hex (m : Nat) : bitLength m ≤ 4 * hexDigits m := by
  induction m using Nat.strongRecOn with
  | _ m ih =>
    cases m with
    | zero => simp [bitLength]
    | succ k =>
      rw [hexDigits]
      have h1 := bitLength_half (k + 1)
      have h2 := bitLength_half ((k + 1) / 2)
      have h3 := bitLength_half ((k + 1) / 2 / 2)
      have h4 := bitLength_half ((k + 1) / 2 / 2 / 2)
      have e : (k + 1) / 2 / 2 / 2 / 2 = (k + 1) / 16 := by omega
      rw [e] at h4
      have := ih ((k + 1) / 16) (by omega)
      omega

/-- `bit_length(order) ≤ 8 * orderlen(order)`: the byte cropping never removes wanted bits -/
theorem bitLen_le_baselen (n : Nat) : (bitLen (n : Int)).toNat ≤ 8 * Util.orderlen n := by
  unfold bitLen Util.orderlen hexLen
  by_cases h : n = 0
  · subst h; simp
  · have := bitLength_le_hex n
    have hn : (n : Int) ≠ 0 := by exact_mod_cast h
    simp only [hn, h, if_false, Int.natAbs_natCast, Int.toNat_natCast]
    omega

end Ecdsa
