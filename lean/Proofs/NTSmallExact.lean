import Proofs.NTSmallExactA
import Proofs.NTSmallExactB
import Proofs.NTPrime
import Mathlib.Tactic.IntervalCases
/-! `is_prime` is EXACT below 4096 — unconditionally (kernel evaluation of the model above the table, `Proofs/NTSmallExact{A,B}`) -/
namespace NTSmall
open NT NTProofs

theorem prime_lt_64 (q : Nat) (hq : q.Prime) (h : q < 64) :
    q ∈ [2, 3, 5, 7, 11, 13, 17, 19, 23, 29, 31, 37, 41, 43, 47, 53, 59, 61] := by
  have h2 := hq.two_le
  interval_cases q <;> first | decide | (exfalso; revert hq; norm_num)

theorem tdB_iff (n : Nat) (hn : n < 4096) : tdB n = true ↔ n.Prime := by
  constructor
  · intro h
    simp only [tdB, Bool.and_eq_true, decide_eq_true_eq, List.all_eq_true, Bool.or_eq_true, bne_iff_ne, ne_eq,
      beq_iff_eq] at h
    obtain ⟨h2, hall⟩ := h
    by_contra hnp
    have hq : (n.minFac).Prime := Nat.minFac_prime (by omega)
    have hsq : n.minFac * n.minFac ≤ n := by
      have := Nat.minFac_sq_le_self (by omega) hnp; simpa [sq] using this
    have hlt : n.minFac < 64 := by
      by_contra hge
      have := Nat.mul_le_mul (Nat.le_of_not_lt hge) (Nat.le_of_not_lt hge)
      omega
    rcases hall _ (prime_lt_64 _ hq hlt) with h | h
    · exact h (Nat.mod_eq_zero_of_dvd (Nat.minFac_dvd n))
    · exact hnp (h ▸ hq)
  · intro hp
    simp only [tdB, Bool.and_eq_true, decide_eq_true_eq, List.all_eq_true, Bool.or_eq_true, bne_iff_ne, ne_eq,
      beq_iff_eq]
    refine ⟨hp.two_le, fun d hd => ?_⟩
    by_cases hdv : n % d = 0
    · right
      rcases (Nat.dvd_prime hp).mp (Nat.dvd_of_mod_eq_zero hdv) with h | h
      · subst h; exact absurd hd (by decide)
      · exact h.symm
    · left; exact hdv

theorem agree_mem {lo hi : Nat} (h : agree lo hi = true) (n : Nat) (h1 : lo ≤ n) (h2 : n < hi) :
    isPrime (fun _ => 0) (n : Int) = .ok (tdB n) := by
  simp only [agree, List.all_eq_true, List.mem_range] at h
  have := h (n - lo) (by omega)
  rw [show lo + (n - lo) = n by omega] at this
  unfold okIs at this
  split at this
  · rename_i v hv; rw [hv]; simp at this; rw [this]
  · cases this

/-- `is_prime` only looks at `lg` through the chosen round count -/
theorem isPrime_congr (lg lg' : Int → Int) (n : Int)
    (h : mrRounds (Gen.NT.mr_n_bits (lg n)) = mrRounds (Gen.NT.mr_n_bits (lg' n))) : isPrime lg n = isPrime lg' n := by
  unfold isPrime; rw [h]

theorem rounds_40 (x : Int) (h : x < 99) : mrRounds (Gen.NT.mr_n_bits x) = 40 := by
  simp only [mrRounds, mrRoundsGo, Gen.NT.mr_table, Gen.NT.mr_default_t, Gen.NT.mr_n_bits]
  rw [if_pos (by omega)]

/-- **exact below 4096**, for every `lg` whose value is below 99 on the range (so that 40 rounds are run) -/
theorem isPrime_exact_below_4096 (lg : Int → Int) (n : Int) (hn : n < 4096) (hlg : lg n < 99) :
    ∃ b, isPrime lg n = .ok b ∧ (b = true ↔ 0 ≤ n ∧ n.toNat.Prime) := by
  by_cases hs : n ≤ 1229
  · obtain ⟨b, hb⟩ := isPrime_total' lg n
    refine ⟨b, hb, ?_⟩
    -- the table part (any lg)
    have : isPrime lg n = .ok (Gen.NT.smallprimes.contains n) := by
      unfold isPrime; rw [lastSmall_eq]; simp only [bind, Except.bind]; rw [if_pos hs]
    rw [this] at hb; cases hb
    rw [List.contains_iff_mem, mem_smallprimes]
    exact ⟨fun ⟨a, b, _⟩ => ⟨a, b⟩, fun ⟨a, b⟩ => ⟨a, b, hs⟩⟩
  · obtain ⟨N, rfl⟩ : ∃ N : Nat, n = N := ⟨n.toNat, by omega⟩
    have hc : isPrime lg N = isPrime (fun _ => 0) N := by
      apply isPrime_congr; rw [rounds_40 _ hlg, rounds_40 0 (by decide)]
    have hv : isPrime (fun _ => 0) (N : Int) = .ok (tdB N) := by
      by_cases h27 : N < 2700
      · exact agree_mem agree_A N (by omega) h27
      · exact agree_mem agree_B N (by omega) (by omega)
    refine ⟨tdB N, hc.trans hv, ?_⟩
    rw [tdB_iff N (by omega)]
    simp

end NTSmall
