import Model.Curve
import Mathlib.Algebra.Group.Basic
import Mathlib.Algebra.Module.Basic
import Mathlib.Tactic.Ring
import Mathlib.Tactic.Abel
import Mathlib.Tactic.Module
import Mathlib.Tactic.Linarith
import Mathlib.Tactic.LinearCombination
import Mathlib.Tactic.Positivity

/-!
# Proofs.Naf — signed-digit recodings of `ellipticcurve.py` and the double-and-add invariants

Everything is for EVERY integer (no bounds) unless a hypothesis says otherwise.

* `naf_sum`, `naf_digits`, `naf_nonadjacent`: `Curve.naf` (`PointJacobi._naf`);
* `evalNaf_rel`, `evalNaf_eq`: left-to-right double-and-add (`__mul__`), relational form;
* `padNafs_spec`, `fold2_rel`, `mulAdd_rel`: the two-scalar loop of `mul_add`;
* `recStep`, `mulPrecomputeStep_fst`, `rec_invariant`, `recDigits_sum`, `recFold_rel`: the recoding of
  `_mul_precompute` (right-to-left, with the table of `2^i • g`);
* `leftmostBit_spec`: `leftmost_bit`.
-/

namespace Naf

/-- value of a little-endian signed-digit string -/
def nafVal : List ℤ → ℤ
  | [] => 0
  | d :: ds => d + 2 * nafVal ds

@[simp] theorem nafVal_nil : nafVal [] = 0 := rfl
@[simp] theorem nafVal_cons (d : ℤ) (ds : List ℤ) : nafVal (d :: ds) = d + 2 * nafVal ds := rfl

theorem nafVal_eq_foldr (ds : List ℤ) : nafVal ds = ds.foldr (fun d acc => d + 2 * acc) 0 := by
  induction ds with
  | nil => rfl
  | cons d ds ih => simp [ih]

theorem nafVal_append (l₁ l₂ : List ℤ) :
    nafVal (l₁ ++ l₂) = nafVal l₁ + 2 ^ l₁.length * nafVal l₂ := by
  induction l₁ with
  | nil => simp
  | cons d ds ih => simp only [List.cons_append, nafVal_cons, ih, List.length_cons, pow_succ]; ring

theorem nafVal_replicate_zero (n : ℕ) : nafVal (List.replicate n 0) = 0 := by
  induction n with
  | zero => rfl
  | succ n ih => simp [List.replicate_succ, ih]

theorem nafVal_append_zeros (l : List ℤ) (n : ℕ) : nafVal (l ++ List.replicate n 0) = nafVal l := by
  rw [nafVal_append, nafVal_replicate_zero]; ring

/-! ### 1–2. `_naf` -/

/-- one iteration of `_naf`: value, digit set, and "a non-zero digit leaves an even rest" -/
theorem nafStep_spec (m : ℤ) :
    (Curve.nafStep m).1 + 2 * (Curve.nafStep m).2 = m ∧
    ((Curve.nafStep m).1 = -1 ∨ (Curve.nafStep m).1 = 0 ∨ (Curve.nafStep m).1 = 1) ∧
    ((Curve.nafStep m).1 ≠ 0 → (Curve.nafStep m).2 % 2 = 0) := by
  unfold Curve.nafStep pmod pdiv
  simp only [Curve.fmod2, Curve.fmod4, Curve.fdiv2]
  split_ifs <;> (refine ⟨?_, ?_, ?_⟩ <;> omega)

theorem nafStep_fst_of_even (m : ℤ) (h : m % 2 = 0) : (Curve.nafStep m).1 = 0 := by
  unfold Curve.nafStep pmod pdiv
  simp only [Curve.fmod2, Curve.fmod4, Curve.fdiv2]
  split_ifs <;> simp only <;> omega

theorem naf_zero : Curve.naf 0 = [] := by rw [Curve.naf]; simp

theorem naf_of_ne_zero {k : ℤ} (h : k ≠ 0) :
    Curve.naf k = (Curve.nafStep k).1 :: Curve.naf (Curve.nafStep k).2 := by
  rw [Curve.naf]; simp [h]

/-- `_naf(k)` is a signed-digit expansion of `k`, for every integer `k` -/
theorem naf_sum (k : ℤ) : nafVal (Curve.naf k) = k := by
  fun_induction Curve.naf k with
  | case1 => rfl
  | case2 m hm ih => rw [nafVal_cons, ih]; exact (nafStep_spec m).1

theorem naf_sum_foldr (k : ℤ) : (Curve.naf k).foldr (fun d acc => d + 2 * acc) 0 = k := by
  rw [← nafVal_eq_foldr, naf_sum]

example : nafVal (Curve.naf (-7)) = -7 := naf_sum _
example : Curve.naf (-7) = [1, 0, 0, -1] := by simp [Curve.naf, Curve.nafStep, pmod, pdiv]
example : Curve.naf 0 = [] := naf_zero

/-- the digits of `_naf(k)` are in `{-1, 0, 1}` -/
theorem naf_digits (k : ℤ) : ∀ d ∈ Curve.naf k, d = -1 ∨ d = 0 ∨ d = 1 := by
  fun_induction Curve.naf k with
  | case1 => simp
  | case2 m hm ih =>
    intro d hd
    rcases List.mem_cons.1 hd with rfl | hd
    · exact (nafStep_spec m).2.1
    · exact ih d hd

example : ∀ d ∈ Curve.naf 1234567, d = -1 ∨ d = 0 ∨ d = 1 := naf_digits _

/-- non-adjacency: of two consecutive digits of `_naf(k)` at least one is zero -/
theorem naf_nonadjacent (k : ℤ) : List.IsChain (fun d e => d = 0 ∨ e = 0) (Curve.naf k) := by
  fun_induction Curve.naf k with
  | case1 => exact List.isChain_nil
  | case2 m hm ih =>
    by_cases h2 : (Curve.nafStep m).2 = 0
    · rw [h2, naf_zero]; exact List.isChain_singleton _
    · rw [naf_of_ne_zero h2] at ih ⊢
      refine List.isChain_cons_cons.2 ⟨?_, ih⟩
      by_cases h1 : (Curve.nafStep m).1 = 0
      · exact Or.inl h1
      · exact Or.inr (nafStep_fst_of_even _ ((nafStep_spec m).2.2 h1))

example : List.IsChain (fun d e => d = 0 ∨ e = 0) (Curve.naf (-1000003)) := naf_nonadjacent _

/-- the last (most significant) digit of `_naf(k)` is non-zero: the expansion has no leading zeros -/
theorem naf_getLast_ne_zero (k : ℤ) : ∀ d ∈ (Curve.naf k).getLast?, d ≠ 0 := by
  fun_induction Curve.naf k with
  | case1 => simp
  | case2 m hm ih =>
    by_cases h2 : (Curve.nafStep m).2 = 0
    · rw [h2, naf_zero]
      have := (nafStep_spec m).1
      simp only [List.getLast?_singleton, Option.mem_def, Option.some.injEq, forall_eq']
      omega
    · rw [naf_of_ne_zero h2] at ih ⊢
      rwa [List.getLast?_cons_cons]

/-! ### 3. left-to-right double-and-add (`__mul__`) -/

section Group
variable {G : Type*} [AddCommGroup G]

/-- one iteration of `for i in reversed(self._naf(other))` on group elements -/
def step (g : G) (acc : G) (d : ℤ) : G :=
  (acc + acc) + (if d < 0 then -g else if d > 0 then g else 0)

/-- for a digit, the three-way branch of the loops is multiplication by the digit -/
theorem digit_smul (g : G) (d : ℤ) (hd : d = -1 ∨ d = 0 ∨ d = 1) :
    (if d < 0 then -g else if d > 0 then g else 0) = d • g := by
  rcases hd with rfl | rfl | rfl <;> simp

/-- Relational double-and-add invariant: `R s h` reads "the concrete state `s` represents the group element `h`".
If the concrete step `f` tracks `h ↦ 2h + (±g | 0)` on digits, then folding `f` over the digits of `ds`
from the most significant end yields a representation of `nafVal ds • g`. -/
theorem evalNaf_rel {S : Type*} (R : S → G → Prop) (f : S → ℤ → S) (g : G) (s0 : S)
    (hf : ∀ s h d, R s h → (d = -1 ∨ d = 0 ∨ d = 1) →
      R (f s d) ((h + h) + (if d < 0 then -g else if d > 0 then g else 0)))
    (h0 : R s0 0) (ds : List ℤ) (hd : ∀ d ∈ ds, d = -1 ∨ d = 0 ∨ d = 1) :
    R (ds.reverse.foldl f s0) (nafVal ds • g) := by
  induction ds with
  | nil => simpa using h0
  | cons d ds ih =>
    have ih' := ih (fun x hx => hd x (List.mem_cons_of_mem _ hx))
    have hdd := hd d List.mem_cons_self
    have := hf _ _ d ih' hdd
    rw [digit_smul g d hdd] at this
    rw [List.reverse_cons, List.foldl_append, List.foldl_cons, List.foldl_nil, nafVal_cons]
    convert this using 1
    module

/-- the invariant on group elements themselves -/
theorem evalNaf_eq (g : G) (ds : List ℤ) (hd : ∀ d ∈ ds, d = -1 ∨ d = 0 ∨ d = 1) :
    ds.reverse.foldl (step g) 0 = nafVal ds • g :=
  evalNaf_rel (fun s h => s = h) (step g) g 0 (fun s h d hs _ => by subst hs; rfl) rfl ds hd

/-- `__mul__`'s loop computes `k • g`, for every integer `k` -/
theorem evalNaf_naf (g : G) (k : ℤ) : (Curve.naf k).reverse.foldl (step g) 0 = k • g := by
  rw [evalNaf_eq g _ (naf_digits k), naf_sum]

/-- relational form for `_naf(k)` -/
theorem evalNaf_naf_rel {S : Type*} (R : S → G → Prop) (f : S → ℤ → S) (g : G) (s0 : S)
    (hf : ∀ s h d, R s h → (d = -1 ∨ d = 0 ∨ d = 1) →
      R (f s d) ((h + h) + (if d < 0 then -g else if d > 0 then g else 0)))
    (h0 : R s0 0) (k : ℤ) : R ((Curve.naf k).reverse.foldl f s0) (k • g) := by
  have := evalNaf_rel R f g s0 hf h0 (Curve.naf k) (naf_digits k)
  rwa [naf_sum] at this

example : (Curve.naf (-7)).reverse.foldl (step (5 : ℤ)) 0 = (-7 : ℤ) • (5 : ℤ) := evalNaf_naf _ _
example : [1, 0, 0, -1].reverse.foldl (step (5 : ℤ)) 0 = -35 := by decide

/-! ### 4. the two-scalar loop of `mul_add` -/

/-- `padNafs` on the reversed (most significant first) strings: equal lengths, values and digit sets kept -/
theorem padNafs_spec (sa sb : List ℤ) :
    let r := Curve.padNafs sa.reverse sb.reverse
    r.1.length = r.2.length ∧ nafVal r.1.reverse = nafVal sa ∧ nafVal r.2.reverse = nafVal sb ∧
    ((∀ d ∈ sa, d = -1 ∨ d = 0 ∨ d = 1) → ∀ d ∈ r.1, d = -1 ∨ d = 0 ∨ d = 1) ∧
    ((∀ d ∈ sb, d = -1 ∨ d = 0 ∨ d = 1) → ∀ d ∈ r.2, d = -1 ∨ d = 0 ∨ d = 1) := by
  have hz : ∀ (l : List ℤ) (n : ℕ), (∀ d ∈ l, d = -1 ∨ d = 0 ∨ d = 1) →
      ∀ d ∈ List.replicate n 0 ++ l.reverse, d = -1 ∨ d = 0 ∨ d = 1 := by
    intro l n hl d hd
    rcases List.mem_append.1 hd with h | h
    · exact Or.inr (Or.inl (List.eq_of_mem_replicate h))
    · exact hl d (List.mem_reverse.1 h)
  have hr : ∀ (l : List ℤ), (∀ d ∈ l, d = -1 ∨ d = 0 ∨ d = 1) →
      ∀ d ∈ l.reverse, d = -1 ∨ d = 0 ∨ d = 1 := fun l hl d hd => hl d (List.mem_reverse.1 hd)
  unfold Curve.padNafs
  simp only [List.length_reverse]
  split_ifs with h1 h2
  · refine ⟨?_, ?_, ?_, hz sa _, hr sb⟩
    · simp only [List.length_append, List.length_replicate, List.length_reverse]; omega
    · simp [nafVal_append_zeros]
    · simp
  · refine ⟨?_, ?_, ?_, hr sa, hz sb _⟩
    · simp only [List.length_append, List.length_replicate, List.length_reverse]; omega
    · simp
    · simp [nafVal_append_zeros]
  · refine ⟨?_, ?_, ?_, hr sa, hr sb⟩
    · simp only [List.length_reverse]; omega
    · simp
    · simp

example : Curve.padNafs [1, 0, -1] [1] = ([1, 0, -1], [0, 0, 1]) := by decide

/-- general form of the two-scalar invariant, from an arbitrary represented start value -/
theorem fold2_rel_from {S : Type*} (R : S → G → Prop) (f : S → ℤ × ℤ → S) (gP gQ : G)
    (hf : ∀ s h A B, R s h → (A = -1 ∨ A = 0 ∨ A = 1) → (B = -1 ∨ B = 0 ∨ B = 1) →
      R (f s (A, B)) ((h + h) + (A • gP + B • gQ)))
    (la lb : List ℤ) (hlen : la.length = lb.length)
    (ha : ∀ d ∈ la, d = -1 ∨ d = 0 ∨ d = 1) (hb : ∀ d ∈ lb, d = -1 ∨ d = 0 ∨ d = 1)
    (s : S) (h : G) (hs : R s h) :
    R ((la.zip lb).foldl f s)
      ((2 : ℤ) ^ la.length • h + (nafVal la.reverse • gP + nafVal lb.reverse • gQ)) := by
  induction la generalizing lb s h with
  | nil =>
    cases lb with
    | nil => simpa using hs
    | cons b lb => simp at hlen
  | cons a la ih =>
    cases lb with
    | nil => simp at hlen
    | cons b lb =>
      have hlen' : la.length = lb.length := by simpa using hlen
      have := ih lb hlen' (fun x hx => ha x (List.mem_cons_of_mem _ hx))
        (fun x hx => hb x (List.mem_cons_of_mem _ hx)) (f s (a, b)) _
        (hf s h a b hs (ha a List.mem_cons_self) (hb b List.mem_cons_self))
      rw [List.zip_cons_cons, List.foldl_cons]
      convert this using 1
      simp only [List.reverse_cons, nafVal_append, List.length_reverse, List.length_cons, nafVal_cons,
        nafVal_nil, ← hlen']
      module

/-- Relational two-scalar invariant (Shamir's trick as in `mul_add`): `la`, `lb` are the digit strings of the two
scalars, most significant first, of equal length. -/
theorem fold2_rel {S : Type*} (R : S → G → Prop) (f : S → ℤ × ℤ → S) (gP gQ : G) (s0 : S)
    (hf : ∀ s h A B, R s h → (A = -1 ∨ A = 0 ∨ A = 1) → (B = -1 ∨ B = 0 ∨ B = 1) →
      R (f s (A, B)) ((h + h) + (A • gP + B • gQ)))
    (h0 : R s0 0)
    (la lb : List ℤ) (hlen : la.length = lb.length)
    (ha : ∀ d ∈ la, d = -1 ∨ d = 0 ∨ d = 1) (hb : ∀ d ∈ lb, d = -1 ∨ d = 0 ∨ d = 1) :
    R ((la.zip lb).foldl f s0) (nafVal la.reverse • gP + nafVal lb.reverse • gQ) := by
  have := fold2_rel_from R f gP gQ hf la lb hlen ha hb s0 0 h0
  simpa using this

/-- the loop of `mul_add` on the padded NAFs of `a` and `b` computes `a • gP + b • gQ`, for all integers -/
theorem mulAdd_rel {S : Type*} (R : S → G → Prop) (f : S → ℤ × ℤ → S) (gP gQ : G) (s0 : S)
    (hf : ∀ s h A B, R s h → (A = -1 ∨ A = 0 ∨ A = 1) → (B = -1 ∨ B = 0 ∨ B = 1) →
      R (f s (A, B)) ((h + h) + (A • gP + B • gQ)))
    (h0 : R s0 0) (a b : ℤ) :
    let nafs := Curve.padNafs (Curve.naf a).reverse (Curve.naf b).reverse
    R ((nafs.1.zip nafs.2).foldl f s0) (a • gP + b • gQ) := by
  intro nafs
  obtain ⟨hlen, hva, hvb, hda, hdb⟩ := padNafs_spec (Curve.naf a) (Curve.naf b)
  have := fold2_rel R f gP gQ s0 hf h0 nafs.1 nafs.2 hlen (hda (naf_digits a)) (hdb (naf_digits b))
  rwa [hva, hvb, naf_sum, naf_sum] at this

/-- the two-scalar step on group elements -/
def step2 (gP gQ : G) (acc : G) (AB : ℤ × ℤ) : G := (acc + acc) + (AB.1 • gP + AB.2 • gQ)

theorem mulAdd_eq (gP gQ : G) (a b : ℤ) :
    let nafs := Curve.padNafs (Curve.naf a).reverse (Curve.naf b).reverse
    (nafs.1.zip nafs.2).foldl (step2 gP gQ) 0 = a • gP + b • gQ :=
  mulAdd_rel (fun s h => s = h) (step2 gP gQ) gP gQ 0 (fun s h A B hs _ _ => by subst hs; rfl) rfl a b

example :
    let nafs := Curve.padNafs (Curve.naf 11).reverse (Curve.naf (-3)).reverse
    (nafs.1.zip nafs.2).foldl (step2 (7 : ℤ) (100 : ℤ)) 0 = (11 : ℤ) • (7 : ℤ) + (-3 : ℤ) • (100 : ℤ) :=
  mulAdd_eq _ _ _ _

end Group

/-! ### 5. the recoding of `_mul_precompute` (right-to-left, with the table `2^i • g`) -/

/-- integer part of one iteration of `for X2, Y2 in self.__precompute`: (signed digit, new value of `other`) -/
def recStep (other : ℤ) : ℤ × ℤ :=
  if pmod other 2 ≠ 0 then
    if pmod other 4 ≥ 2 then (-1, pdiv (other + 1) 2)
    else (1, pdiv (other - 1) 2)
  else (0, pdiv other 2)

/-- the first component of the loop state of `_mul_precompute` evolves by `recStep`, whatever the coordinates -/
theorem mulPrecomputeStep_fst (p a : ℤ) (st : ℤ × ℤ × ℤ × ℤ) (e : ℤ × ℤ) :
    (Curve.mulPrecomputeStep p a st e).1 = (recStep st.1).2 := by
  unfold Curve.mulPrecomputeStep recStep
  dsimp only
  split_ifs <;> rfl

/-- the coordinates part of `mulPrecomputeStep`, by the digit of `recStep` -/
theorem mulPrecomputeStep_snd (p a : ℤ) (st : ℤ × ℤ × ℤ × ℤ) (e : ℤ × ℤ) :
    (Curve.mulPrecomputeStep p a st e).2 =
      if (recStep st.1).1 = -1 then Gen.k_add st.2.1 st.2.2.1 st.2.2.2 e.1 (-e.2) 1 p a
      else if (recStep st.1).1 = 1 then Gen.k_add st.2.1 st.2.2.1 st.2.2.2 e.1 e.2 1 p a
      else st.2 := by
  unfold Curve.mulPrecomputeStep recStep
  dsimp only
  by_cases h1 : pmod st.1 2 ≠ 0 <;> by_cases h2 : pmod st.1 4 ≥ 2 <;> simp [h1, h2]

example : (Curve.mulPrecomputeStep 23 1 (7, 0, 0, 1) (3, 10)).1 = (recStep 7).2 :=
  mulPrecomputeStep_fst _ _ _ _

/-- the recoding of `_mul_precompute` is the NAF recoding -/
theorem recStep_eq_nafStep (m : ℤ) : recStep m = Curve.nafStep m := by
  unfold recStep Curve.nafStep pmod pdiv
  simp only [Curve.fmod2, Curve.fmod4, Curve.fdiv2]
  split_ifs <;> simp only [Prod.mk.injEq] <;> omega

theorem recStep_spec (m : ℤ) :
    (recStep m).1 + 2 * (recStep m).2 = m ∧
    ((recStep m).1 = -1 ∨ (recStep m).1 = 0 ∨ (recStep m).1 = 1) ∧
    (0 ≤ m → 0 ≤ (recStep m).2 ∧ 2 * (recStep m).2 ≤ m + 1) := by
  unfold recStep pmod pdiv
  simp only [Curve.fmod2, Curve.fmod4, Curve.fdiv2]
  split_ifs <;> (refine ⟨?_, ?_, ?_⟩ <;> omega)

theorem recStep_zero : recStep 0 = (0, 0) := by decide
theorem recStep_one : recStep 1 = (1, 0) := by decide

/-- value of `other` after `j` iterations -/
def recRem : ℕ → ℤ → ℤ
  | 0, k => k
  | j + 1, k => recRem j (recStep k).2

/-- the signed digits produced by the first `j` iterations (least significant first) -/
def recDigits : ℕ → ℤ → List ℤ
  | 0, _ => []
  | j + 1, k => (recStep k).1 :: recDigits j (recStep k).2

@[simp] theorem recDigits_length (j : ℕ) (k : ℤ) : (recDigits j k).length = j := by
  induction j generalizing k with
  | zero => rfl
  | succ j ih => simp [recDigits, ih]

theorem recRem_add (a b : ℕ) (k : ℤ) : recRem (a + b) k = recRem b (recRem a k) := by
  induction a generalizing k with
  | zero => simp [recRem]
  | succ a ih => rw [Nat.succ_add]; simp only [recRem]; exact ih _

theorem recDigits_add (a b : ℕ) (k : ℤ) :
    recDigits (a + b) k = recDigits a k ++ recDigits b (recRem a k) := by
  induction a generalizing k with
  | zero => simp [recRem, recDigits]
  | succ a ih => rw [Nat.succ_add]; simp only [recRem, recDigits, List.cons_append]; rw [ih]

theorem recRem_succ' (j : ℕ) (k : ℤ) : recRem (j + 1) k = (recStep (recRem j k)).2 := by
  rw [recRem_add]; rfl

theorem recRem_zero' (j : ℕ) : recRem j 0 = 0 := by
  induction j with
  | zero => rfl
  | succ j ih => simp only [recRem, recStep_zero]; exact ih

theorem recDigits_zero' (j : ℕ) : recDigits j 0 = List.replicate j 0 := by
  induction j with
  | zero => rfl
  | succ j ih => simp only [recDigits, recStep_zero, List.replicate_succ]; rw [ih]

theorem recDigits_digits (j : ℕ) (k : ℤ) : ∀ d ∈ recDigits j k, d = -1 ∨ d = 0 ∨ d = 1 := by
  induction j generalizing k with
  | zero => simp [recDigits]
  | succ j ih =>
    intro d hd
    rcases List.mem_cons.1 hd with rfl | hd
    · exact (recStep_spec k).2.1
    · exact ih _ d hd

/-- the value identity, for every integer and every number of iterations -/
theorem rec_value (j : ℕ) (k : ℤ) : k = nafVal (recDigits j k) + 2 ^ j * recRem j k := by
  induction j generalizing k with
  | zero => simp [recDigits, recRem]
  | succ j ih =>
    have h1 := (recStep_spec k).1
    have h2 := ih (recStep k).2
    simp only [recDigits, recRem, nafVal_cons, pow_succ]
    linear_combination (-1 : ℤ) * h1 + 2 * h2

/-- loop invariant of the recoding for `k ≥ 0`: after `j` iterations the digits `d_0 … d_{j-1}` and the remainder
`k_j` satisfy `k = Σ_{i<j} d_i 2^i + k_j 2^j`, `0 ≤ k_j ≤ k / 2^j + 1`. -/
theorem rec_invariant (j : ℕ) (k : ℤ) (h0 : 0 ≤ k) :
    k = nafVal (recDigits j k) + 2 ^ j * recRem j k ∧
    (∀ d ∈ recDigits j k, d = -1 ∨ d = 0 ∨ d = 1) ∧
    0 ≤ recRem j k ∧ recRem j k ≤ k / 2 ^ j + 1 := by
  refine ⟨rec_value j k, recDigits_digits j k, ?_⟩
  induction j with
  | zero => simp [recRem, h0]
  | succ j ih =>
    rw [recRem_succ']
    have h := (recStep_spec (recRem j k)).2.2 ih.1
    have hdiv : k / 2 ^ (j + 1) = k / 2 ^ j / 2 := by
      rw [pow_succ, Int.ediv_ediv_of_nonneg (by positivity)]
    rw [hdiv]
    omega

example : (13 : ℤ) = nafVal (recDigits 2 13) + 2 ^ 2 * recRem 2 13 := (rec_invariant 2 13 (by decide)).1
example : recRem 2 13 ≤ 13 / 2 ^ 2 + 1 := (rec_invariant 2 13 (by decide)).2.2.2

/-- If `0 ≤ k < 2^(L-1)` then `L` iterations consume `k` completely: the `L` digits sum to `k` and the remainder is `0`.
(`L = m + 1` is tight for `k < 2^m`: `k = 3`, `m = 2` needs 3 iterations.)  Downstream: the table has the entries
`2^0 … 2^m` (`L = m + 1`) with `m` minimal such that `2^m ≥ 4·o`, and `0 ≤ k < 2·o`, so `k < 2^(m-1)`. -/
theorem recDigits_sum (k : ℤ) (L : ℕ) (h0 : 0 ≤ k) (hk : k < 2 ^ (L - 1)) (hL : 1 ≤ L) :
    nafVal (recDigits L k) = k ∧ recRem L k = 0 := by
  obtain ⟨j, rfl⟩ : ∃ j, L = j + 1 := ⟨L - 1, by omega⟩
  simp only [Nat.add_sub_cancel] at hk
  have hrem : recRem (j + 1) k = 0 := by
    obtain ⟨_, _, hlo, hhi⟩ := rec_invariant j k h0
    rw [Int.ediv_eq_zero_of_lt h0 hk] at hhi
    rw [recRem_succ']
    have h01 : recRem j k = 0 ∨ recRem j k = 1 := by omega
    rcases h01 with h | h <;> rw [h]
    · rw [recStep_zero]
    · rw [recStep_one]
  have := rec_value (j + 1) k
  rw [hrem] at this
  exact ⟨by linarith, hrem⟩

example : nafVal (recDigits 3 3) = 3 ∧ recRem 3 3 = 0 := recDigits_sum 3 3 (by decide) (by decide) (by decide)
example : recDigits 3 3 = [-1, 0, 1] := by decide
example : recRem 2 3 = 1 := by decide   -- `L = m + 1` is tight

/-- once the remainder is `0` it stays `0` and only zero digits follow -/
theorem recDigits_stable (k : ℤ) (L n : ℕ) (h : recRem L k = 0) :
    recRem (L + n) k = 0 ∧ recDigits (L + n) k = recDigits L k ++ List.replicate n 0 := by
  rw [recRem_add, recDigits_add, h, recRem_zero', recDigits_zero']; exact ⟨rfl, rfl⟩

/-- the form needed for the generator table: `o > 0` the declared order, `2^m ≥ 4·o`, `0 ≤ k < 2·o`, table length
`L ≥ m + 1`. -/
theorem recDigits_sum_table (o k : ℤ) (m L : ℕ) (hm : 4 * o ≤ 2 ^ m) (h0 : 0 ≤ k) (hk : k < 2 * o)
    (hL : m + 1 ≤ L) : nafVal (recDigits L k) = k ∧ recRem L k = 0 := by
  have hm1 : 1 ≤ m := by
    rcases m with _ | m
    · simp at hm; omega
    · omega
  have hk' : k < 2 ^ (m + 1 - 1) := by
    obtain ⟨m', rfl⟩ : ∃ m', m = m' + 1 := ⟨m - 1, by omega⟩
    rw [pow_succ] at hm
    simp only [Nat.add_sub_cancel]
    rw [pow_succ]
    omega
  obtain ⟨hs, hr⟩ := recDigits_sum k (m + 1) h0 hk' (by omega)
  obtain ⟨n, rfl⟩ : ∃ n, L = m + 1 + n := ⟨L - (m + 1), by omega⟩
  obtain ⟨hr', hd'⟩ := recDigits_stable k (m + 1) n hr
  exact ⟨by rw [hd', nafVal_append_zeros, hs], hr'⟩

example : nafVal (recDigits 6 9) = 9 ∧ recRem 6 9 = 0 :=
  recDigits_sum_table 5 9 5 6 (by decide) (by decide) (by decide) (by decide)

section Group
variable {G : Type*} [AddCommGroup G]

/-- general form of the table-loop invariant: the table entries from position `i` on, starting from a represented
value `h`.  `R s h`: the concrete accumulator `s` represents `h`; `T e t`: the table entry `e` represents `t`. -/
theorem recFold_rel_from {S E : Type*} (R : S → G → Prop) (T : E → G → Prop) (f : ℤ × S → E → ℤ × S) (g : G)
    (hf1 : ∀ st e, (f st e).1 = (recStep st.1).2)
    (hf2 : ∀ st e h t, R st.2 h → T e t → R (f st e).2 (h + (recStep st.1).1 • t))
    (table : List E) (i : ℕ)
    (hT : ∀ j (hj : j < table.length), T table[j] ((2 : ℤ) ^ (i + j) • g))
    (k : ℤ) (s : S) (h : G) (hs : R s h) :
    (table.foldl f (k, s)).1 = recRem table.length k ∧
    R (table.foldl f (k, s)).2 (h + ((2 : ℤ) ^ i * nafVal (recDigits table.length k)) • g) := by
  induction table generalizing i k s h with
  | nil => simpa [recRem, recDigits] using hs
  | cons e table ih =>
    have hT0 : T e ((2 : ℤ) ^ i • g) := hT 0 (by simp)
    have hT' : ∀ j (hj : j < table.length), T table[j] ((2 : ℤ) ^ (i + 1 + j) • g) := by
      intro j hj
      have := hT (j + 1) (by simp; omega)
      rw [show i + (j + 1) = i + 1 + j by omega] at this
      exact this
    have h1 := hf1 (k, s) e
    have h2 := hf2 (k, s) e h _ hs hT0
    have := ih (i + 1) hT' (recStep k).2 (f (k, s) e).2 _ h2
    rw [List.foldl_cons, ← Prod.mk.eta (p := f (k, s) e), h1]
    simp only [List.length_cons, recRem, recDigits, nafVal_cons]
    refine ⟨this.1, ?_⟩
    convert this.2 using 1
    simp only [pow_succ]
    module

/-- Relational invariant of the loop of `_mul_precompute`: the state is `(other, accumulator)`, the `i`-th table entry
represents `2^i • g`; after the loop `other` is `recRem L k` and the accumulator represents `(Σ d_i 2^i) • g`. -/
theorem recFold_rel {S E : Type*} (R : S → G → Prop) (T : E → G → Prop) (f : ℤ × S → E → ℤ × S) (g : G)
    (hf1 : ∀ st e, (f st e).1 = (recStep st.1).2)
    (hf2 : ∀ st e h t, R st.2 h → T e t → R (f st e).2 (h + (recStep st.1).1 • t))
    (table : List E) (hT : ∀ j (hj : j < table.length), T table[j] ((2 : ℤ) ^ j • g))
    (k : ℤ) (s0 : S) (hs : R s0 0) :
    (table.foldl f (k, s0)).1 = recRem table.length k ∧
    R (table.foldl f (k, s0)).2 (nafVal (recDigits table.length k) • g) := by
  have := recFold_rel_from R T f g hf1 hf2 table 0 (by simpa using hT) k s0 0 hs
  simpa using this

/-- the loop of `_mul_precompute` computes `k • g` when `0 ≤ k < 2^(L-1)`, `L ≥ 1` the table length -/
theorem mulPrecompute_rel {S E : Type*} (R : S → G → Prop) (T : E → G → Prop) (f : ℤ × S → E → ℤ × S) (g : G)
    (hf1 : ∀ st e, (f st e).1 = (recStep st.1).2)
    (hf2 : ∀ st e h t, R st.2 h → T e t → R (f st e).2 (h + (recStep st.1).1 • t))
    (table : List E) (hT : ∀ j (hj : j < table.length), T table[j] ((2 : ℤ) ^ j • g))
    (k : ℤ) (s0 : S) (hs : R s0 0)
    (h0 : 0 ≤ k) (hk : k < 2 ^ (table.length - 1)) (hL : 1 ≤ table.length) :
    (table.foldl f (k, s0)).1 = 0 ∧ R (table.foldl f (k, s0)).2 (k • g) := by
  obtain ⟨h1, h2⟩ := recFold_rel R T f g hf1 hf2 table hT k s0 hs
  obtain ⟨hs, hr⟩ := recDigits_sum k table.length h0 hk hL
  rw [hs] at h2; rw [hr] at h1
  exact ⟨h1, h2⟩

/-- the table loop on group elements -/
def stepT (st : ℤ × G) (t : G) : ℤ × G := ((recStep st.1).2, st.2 + (recStep st.1).1 • t)

example : ([1, 2, 4, 8, 16].foldl stepT ((11 : ℤ), (0 : ℤ))) = (0, (11 : ℤ) • (1 : ℤ)) := by
  have := mulPrecompute_rel (G := ℤ) (fun s h => s = h) (fun e t => e = t) stepT 1
    (fun _ _ => rfl) (fun st e h t hs ht => by subst hs; subst ht; rfl) [1, 2, 4, 8, 16]
    (by decide) 11 0 rfl (by decide) (by decide) (by decide)
  exact Prod.ext this.1 this.2

end Group

/-! ### 6. `leftmost_bit` -/

theorem leftmostLoop_spec (x result : ℕ) (h : 0 < result)
    (hr : ∃ i, result = 2 ^ (i + 1) ∧ 2 ^ i ≤ x) :
    ∃ j, Curve.leftmostLoop x result h = 2 ^ j ∧ 2 ^ j ≤ x ∧ x < 2 ^ (j + 1) := by
  fun_induction Curve.leftmostLoop x result h with
  | case1 result h h2 ih =>
    obtain ⟨i, rfl, hi⟩ := hr
    exact ih ⟨i + 1, by rw [pow_succ 2 (i + 1)]; omega, h2⟩
  | case2 result h h2 =>
    obtain ⟨i, rfl, hi⟩ := hr
    refine ⟨i, ?_, hi, by omega⟩
    rw [pow_succ]; omega

/-- for `x > 0`, `leftmost_bit(x)` is the power of two `2^j` with `2^j ≤ x < 2^(j+1)` -/
theorem leftmostBit_spec (x : ℕ) (hx : 0 < x) :
    ∃ j, Curve.leftmostBit x = 2 ^ j ∧ 2 ^ j ≤ x ∧ x < 2 ^ (j + 1) := by
  unfold Curve.leftmostBit
  rw [Curve.leftmostLoop]
  simp only [show (1 : ℕ) ≤ x from hx, dite_true]
  exact leftmostLoop_spec x (2 * 1) (by decide) ⟨0, rfl, hx⟩

theorem leftmostBit_eq (x : ℕ) (hx : 0 < x) : Curve.leftmostBit x = 2 ^ Nat.log2 x := by
  obtain ⟨j, hj, h1, h2⟩ := leftmostBit_spec x hx
  rw [hj, (Nat.log2_eq_iff (by omega)).2 ⟨h1, h2⟩]

example : ∃ j, Curve.leftmostBit 21 = 2 ^ j ∧ 2 ^ j ≤ 21 ∧ 21 < 2 ^ (j + 1) := leftmostBit_spec 21 (by decide)
example : Curve.leftmostBit 21 = 16 := by rw [leftmostBit_eq 21 (by decide)]; decide

end Naf
