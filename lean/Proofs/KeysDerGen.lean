import Proofs.KeysDerId
/-!
# Proofs.KeysDerGen — private keys written by an independent encoder, over the version field and all optional fields

RFC 5958 files with `version` 0 or 1, any optional fields after `privateKey` (attributes, publicKey), wrapping an
RFC 5915 ECPrivateKey with any optional fields; and bare RFC 5915 files with `[0] namedCurve` followed by anything:
`from_der` loads them as `from_string` of the (left-padded) scalar bytes on the named curve.
-/
namespace KeysP
open Keys Asn1Spec

theorem encodeInteger_zero : Der.encodeInteger 0 = Asn1.enc (.int 0) := by decide +kernel
theorem int_zero_length : (Asn1.enc (.int 0)).length = 3 := by decide +kernel

/-- the written form is the general form at version 1 with both embedded optionals and no top-level optional -/
theorem oneAsymmetricKey_eq_general (d : Bytes) (curveOid : List Nat) (pt : Bytes) :
    oneAsymmetricKey d curveOid pt =
      oneAsymmetricKeyG 1 d curveOid [.ctx 0 (.oid curveOid), .ctx 1 (.bits 0 pt)] [] := rfl

theorem ecPrivateKey_eq_general (d : Bytes) (curveOid : List Nat) (pt : Bytes) :
    ecPrivateKey d curveOid pt = ecPrivateKeyG d [.ctx 0 (.oid curveOid), .ctx 1 (.bits 0 pt)] := rfl

/-- **PKCS#8, version 0 or 1, any optional fields** -/
theorem sk_fromDer_pkcs8_general (E : Ext) (c : Curve) (hc : c ∈ Gen.curveTable) (hfind : findCurve c.oid = .ok c)
    (v : Nat) (hv : v = 0 ∨ v = 1) (d : Bytes) (opts tail : List Asn1)
    (hsize : (oneAsymmetricKeyG v d c.oid opts tail).enc.length < 65536) :
    SK.fromDer E (oneAsymmetricKeyG v d c.oid opts tail).enc = SK.fromString E c (padLeft c d) := by
  have hi : Der.encodeInteger v = Asn1.enc (.int v) ∧ (Asn1.enc (.int v)).length = 3 := by
    rcases hv with h | h <;> subst h
    · exact ⟨encodeInteger_zero, int_zero_length⟩
    · exact ⟨encodeInteger_one, int_one_length⟩
  have hpk := idPk_length
  have hi1 := int_one_length
  -- the bytes, as nested `tlv`s
  have e0 : (oneAsymmetricKeyG v d c.oid opts tail).enc =
      tlv 0x30 (Asn1.enc (.int v) ++ (tlv 0x30 (Asn1.enc (.oid id_ecPublicKey) ++ Asn1.enc (.oid c.oid)) ++
        (tlv 0x04 (tlv 0x30 (Asn1.enc (.int 1) ++ (tlv 0x04 d ++ Asn1.encList opts))) ++ Asn1.encList tail))) := by
    simp [oneAsymmetricKeyG, ecPrivateKeyG, Asn1.enc, Asn1.encList]
  rw [e0] at hsize ⊢
  simp only [tlv_length, List.length_append] at hsize
  -- the same bytes in the model encoder's shape
  have s1 : Der.encodeOctetString d = tlv 0x04 d := encodeOctetString_tlv _ (by omega)
  have s2 : Der.encodeSequence (Der.encodeInteger 1 :: Der.encodeOctetString d :: [Asn1.encList opts]) =
      tlv 0x30 (Asn1.enc (.int 1) ++ (tlv 0x04 d ++ Asn1.encList opts)) := by
    rw [encodeSequence_tlv _ (by
      simp only [List.flatten_cons, List.flatten_nil, List.append_nil, List.length_append, encodeInteger_one, s1, tlv_length]
      omega), encodeInteger_one, s1]
    simp
  have s3 : Der.encodeSequence [Asn1.enc (.oid id_ecPublicKey), Asn1.enc (.oid c.oid)] =
      tlv 0x30 (Asn1.enc (.oid id_ecPublicKey) ++ Asn1.enc (.oid c.oid)) := by
    rw [encodeSequence_tlv _ (by simp only [List.flatten_cons, List.flatten_nil, List.append_nil, List.length_append]; omega)]
    simp
  have s4 : Der.encodeOctetString (tlv 0x30 (Asn1.enc (.int 1) ++ (tlv 0x04 d ++ Asn1.encList opts))) =
      tlv 0x04 (tlv 0x30 (Asn1.enc (.int 1) ++ (tlv 0x04 d ++ Asn1.encList opts))) :=
    encodeOctetString_tlv _ (by simp only [tlv_length, List.length_append]; omega)
  have s5 : Der.encodeSequence [Der.encodeInteger v, Der.encodeSequence [Asn1.enc (.oid id_ecPublicKey), Asn1.enc (.oid c.oid)],
      Der.encodeOctetString (Der.encodeSequence (Der.encodeInteger 1 :: Der.encodeOctetString d :: [Asn1.encList opts])),
      Asn1.encList tail] =
      tlv 0x30 (Asn1.enc (.int v) ++ (tlv 0x30 (Asn1.enc (.oid id_ecPublicKey) ++ Asn1.enc (.oid c.oid)) ++
        (tlv 0x04 (tlv 0x30 (Asn1.enc (.int 1) ++ (tlv 0x04 d ++ Asn1.encList opts))) ++ Asn1.encList tail))) := by
    rw [s2, s3, s4, hi.1, encodeSequence_tlv _ (by
      simp only [List.flatten_cons, List.flatten_nil, List.append_nil, List.length_append, tlv_length]
      omega)]
    simp
  rw [← s5]
  refine sk_fromDer_pkcs8_pieces E c v hv _ _ d [Asn1.encList opts] (Asn1.encList tail)
    (by rw [encodeOid_ecPublicKey_spec]) (table_encodedOid _ hc) hfind (small_lt _ ?_)
  rw [s5]
  simp only [tlv_length, List.length_append]
  omega

/-- **bare ECPrivateKey with `[0] namedCurve`, anything after it** (with or without `[1] publicKey`) -/
theorem sk_fromDer_ssleay_general (E : Ext) (c : Curve) (hc : c ∈ Gen.curveTable) (hfind : findCurve c.oid = .ok c)
    (d : Bytes) (rest : List Asn1)
    (hsize : (ecPrivateKeyG d (.ctx 0 (.oid c.oid) :: rest)).enc.length < 65536) :
    SK.fromDer E (ecPrivateKeyG d (.ctx 0 (.oid c.oid) :: rest)).enc = SK.fromString E c (padLeft c d) := by
  have hi1 := int_one_length
  have e0 : (ecPrivateKeyG d (.ctx 0 (.oid c.oid) :: rest)).enc =
      tlv 0x30 (Asn1.enc (.int 1) ++ (tlv 0x04 d ++ (tlv (UInt8.ofNat (0xA0 + 0)) (Asn1.enc (.oid c.oid)) ++ Asn1.encList rest))) := by
    simp [ecPrivateKeyG, Asn1.enc, Asn1.encList]
  rw [e0] at hsize ⊢
  simp only [tlv_length, List.length_append] at hsize
  have s1 : Der.encodeOctetString d = tlv 0x04 d := encodeOctetString_tlv _ (by omega)
  have s2 : Der.encodeConstructed 0 (Asn1.enc (.oid c.oid)) = tlv (UInt8.ofNat (0xA0 + 0)) (Asn1.enc (.oid c.oid)) :=
    encodeConstructed_tlv 0 _ (by omega)
  have s3 : Der.encodeSequence [Der.encodeInteger 1, Der.encodeOctetString d, Der.encodeConstructed 0 (Asn1.enc (.oid c.oid)),
      Asn1.encList rest] =
      tlv 0x30 (Asn1.enc (.int 1) ++ (tlv 0x04 d ++ (tlv (UInt8.ofNat (0xA0 + 0)) (Asn1.enc (.oid c.oid)) ++ Asn1.encList rest))) := by
    rw [s1, s2, encodeInteger_one, encodeSequence_tlv _ (by
      simp only [List.flatten_cons, List.flatten_nil, List.append_nil, List.length_append, tlv_length]
      omega)]
    simp
  rw [← s3]
  refine sk_fromDer_ssleay_pieces E c d _ (Asn1.encList rest) (table_encodedOid _ hc) hfind (small_lt _ ?_)
  rw [s3]
  simp only [tlv_length, List.length_append]
  omega

end KeysP
