import Proofs.NTCip2
/-!
# NTCip — `square_root_mod_prime(a, p)` for `p ≡ 1 (mod 8)`: the `for b in xrange(2, p)` search

* `exists_nonresidue_disc`: some `b` with `2 ≤ b < p` has `b² − 4a` a non-residue (so "No b found" is unreachable);
* `sqrtSearch_spec`: the loop stops at the first such `b` and returns a reduced square root of `a`;
* `sqrt_1mod8`: the two together.
The Jacobi-symbol model is tied to Mathlib's `jacobiSym` by the hypothesis `hj` (proved separately).
-/
namespace NTCip
open NT NTProofs

variable {p : ℕ} [hp : Fact p.Prime]

/-- in `ZMod p`, `p ≡ 1 (mod 4)`, `A ≠ 0` a square: some `b ∉ {0, 1}` has `b² − 4A` a non-square -/
theorem exists_b_zmod (hp4 : p % 4 = 1) (A : ZMod p) (hA : A ≠ 0) (hsq : IsSquare A) :
    ∃ b : ZMod p, b ≠ 0 ∧ b ≠ 1 ∧ ¬ IsSquare (b ^ 2 - 4 * A) := by
  by_contra h
  push Not at h
  have hp2 : p ≠ 2 := by omega
  have h2 : (2 : ZMod p) ≠ 0 := by
    intro h
    have : (p : ℕ) ∣ 2 := (ZMod.natCast_eq_zero_iff 2 p).mp (by exact_mod_cast h)
    have := Nat.le_of_dvd (by norm_num) this
    have := hp.out.two_le
    omega
  have h4A : 4 * A ≠ 0 := by
    have : (4 : ZMod p) = 2 * 2 := by norm_num
    rw [this]; exact mul_ne_zero (mul_ne_zero h2 h2) hA
  obtain ⟨r, hr⟩ := hsq
  obtain ⟨i, hi⟩ : IsSquare (-1 : ZMod p) := ZMod.exists_sq_eq_neg_one_iff.mpr (by omega)
  have all : ∀ b : ZMod p, IsSquare (b ^ 2 - 4 * A) := by
    intro b
    by_cases hb0 : b = 0
    · subst hb0
      exact ⟨i * (2 * r), by rw [hr]; linear_combination (4 * r * r) * hi⟩
    by_cases hb1 : b = 1
    · subst hb1
      have hm0 : (-1 : ZMod p) ≠ 0 := by simp
      have hm1 : (-1 : ZMod p) ≠ 1 := by
        intro h
        apply h2
        linear_combination -h
      have := h (-1) hm0 hm1
      simpa using this
    exact h b hb0 hb1
  have closed : ∀ x : ZMod p, IsSquare x → IsSquare (x - 4 * A) := by
    rintro x ⟨s, rfl⟩
    have := all s
    rwa [pow_two] at this
  have mult : ∀ k : ℕ, IsSquare (-(k : ZMod p) * (4 * A)) := by
    intro k
    induction k with
    | zero => simp
    | succ k ih =>
      have := closed _ ih
      convert this using 1
      push_cast; ring
  have every : ∀ x : ZMod p, IsSquare x := by
    intro x
    have := mult (-x / (4 * A)).val
    rw [ZMod.natCast_zmod_val, neg_div, neg_neg, div_mul_cancel₀ _ h4A] at this
    exact this
  obtain ⟨x, hx⟩ := FiniteField.exists_nonsquare (F := ZMod p) (by rw [ZMod.ringChar_zmod_n]; exact hp2)
  exact hx (every x)

/-- (C) a suitable `b` exists in the range of the `for` loop -/
theorem exists_nonresidue_disc (hp8 : p % 8 = 1) (a : ℤ) (ha0 : 0 < a) (hap : a < p)
    (hsq : IsSquare ((a : ℤ) : ZMod p)) :
    ∃ b : ℤ, 2 ≤ b ∧ b < p ∧ jacobiSym (b * b - 4 * a) p = -1 := by
  have hA : ((a : ℤ) : ZMod p) ≠ 0 := by
    intro h
    have := (ZMod.intCast_zmod_eq_zero_iff_dvd a p).mp h
    have := Int.eq_zero_of_dvd_of_nonneg_of_lt (le_of_lt ha0) hap this
    omega
  obtain ⟨b, hb0, hb1, hns⟩ := exists_b_zmod (by omega) ((a : ℤ) : ZMod p) hA hsq
  have hval : ((b.val : ℕ) : ZMod p) = b := ZMod.natCast_zmod_val b
  have hlt : b.val < p := ZMod.val_lt b
  have hv0 : b.val ≠ 0 := by
    intro h; rw [h] at hval; exact hb0 (by simpa using hval.symm)
  have hv1 : b.val ≠ 1 := by
    intro h; rw [h] at hval; exact hb1 (by simpa using hval.symm)
  refine ⟨(b.val : ℤ), by omega, by omega, ?_⟩
  rw [← jacobiSym.legendreSym.to_jacobiSym, legendreSym.eq_neg_one_iff]
  convert hns using 1
  push_cast
  rw [hval, pow_two]

/-- the `for b in xrange(…)` loop: if some `b'` in the remaining range has `jacobi(b'² − 4a, p) = −1`, the
loop returns (at the first such `b'`) a reduced square root of `a` -/
theorem sqrtSearch_spec (hp8 : p % 8 = 1) (a : ℤ) (hsq : IsSquare ((a : ℤ) : ZMod p))
    (hj : ∀ x : ℤ, NT.jacobi x p = .ok (jacobiSym x p)) :
    ∀ (cnt : ℕ) (b : ℤ), (∃ b' : ℤ, b ≤ b' ∧ b' < b + cnt ∧ jacobiSym (b' * b' - 4 * a) p = -1) →
      ∃ r : ℤ, sqrtSearch a p cnt b = .ok r ∧ 0 ≤ r ∧ r < p ∧ (r * r) % p = a % p
  | 0, b, ⟨b', h1, h2, _⟩ => by simp at h2; omega
  | cnt+1, b, ⟨b', h1, h2, h3⟩ => by
    unfold sqrtSearch
    simp only [hj, bind, Except.bind]
    by_cases hb : jacobiSym (b * b - 4 * a) p = -1
    · obtain ⟨f0, hf, r0, r1, r2⟩ := sqrt_step hp8 a b hsq (by rw [jacobiSym.legendreSym.to_jacobiSym]; exact hb)
      simp only [hb, ↓reduceIte, hf]
      exact ⟨f0, by simp, r0, r1, r2⟩
    · simp only [hb, ↓reduceIte]
      have hne : b' ≠ b := by rintro rfl; exact hb h3
      exact sqrtSearch_spec hp8 a hsq hj cnt (b + 1) ⟨b', by omega, by push_cast at h2; omega, h3⟩

/-- **`square_root_mod_prime`, branch `p ≡ 1 (mod 8)`**: for `p` prime, `0 < a < p` a quadratic residue, the
search loop `for b in xrange(2, p)` raises nothing ("No b found" and both asserts are unreachable) and
returns `r ∈ [0, p)` with `r² ≡ a (mod p)`. -/
theorem sqrt_1mod8 (hp8 : p % 8 = 1) (a : ℤ) (ha0 : 0 < a) (hap : a < p)
    (hsq : IsSquare ((a : ℤ) : ZMod p))
    (hj : ∀ x : ℤ, NT.jacobi x p = .ok (jacobiSym x p)) :
    ∃ r : ℤ, NT.sqrtSearch a p ((p : ℤ) - 2).toNat 2 = .ok r ∧ 0 ≤ r ∧ r < p ∧ (r * r) % p = a % p := by
  obtain ⟨b, hb2, hbp, hb⟩ := exists_nonresidue_disc hp8 a ha0 hap hsq
  exact sqrtSearch_spec hp8 a hsq hj _ 2 ⟨b, hb2, by omega, hb⟩

/-- the same with the residue hypothesis in the `∃ r, r * r = a` form -/
theorem sqrt_1mod8' (hp8 : p % 8 = 1) (a : ℤ) (ha0 : 0 < a) (hap : a < p)
    (hsq : ∃ r : ZMod p, r * r = ((a : ℤ) : ZMod p))
    (hj : ∀ x : ℤ, NT.jacobi x p = .ok (jacobiSym x p)) :
    ∃ r : ℤ, NT.sqrtSearch a p ((p : ℤ) - 2).toNat 2 = .ok r ∧ 0 ≤ r ∧ r < p ∧ (r * r) % p = a % p :=
  sqrt_1mod8 hp8 a ha0 hap (by obtain ⟨r, hr⟩ := hsq; exact ⟨r, hr.symm⟩) hj

/-- non-vacuity: `p = 17`, `a = 2 = 6²`: the loop stops at `b = 6` and returns `6` -/
example : NT.sqrtSearch 2 17 ((17 : ℤ) - 2).toNat 2 = .ok 6 := by decide +kernel
example : IsSquare (((2 : ℤ) : ZMod 17)) := ⟨6, by decide⟩
example : NT.polyExpMod [0, 1] 9 [2, -6, 1] 17 = .ok [6, 0] := by decide +kernel

end NTCip
