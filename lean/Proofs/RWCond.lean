import Proofs.RWInv
/-! # Proofs.RWCond — the conditional acquires may be modelled as one atomic "test and acquire"

`ifeq c k (acq L)` is `if self.__counter == k: lock.acquire()`: the real thread tests once and is then committed to the
acquire, whereas a blocked model thread re-evaluates the test when it retries.  The two agree because, while a thread
sits at a conditional instruction of a light switch (it holds that switch's mutex), no step of any thread changes that
switch's counter. -/
set_option linter.unusedVariables false
namespace RW

/-- the light-switch counters are frozen while some thread is at the conditional instruction of that switch -/
def CtrFrozen (s s' : CS) : Prop :=
  ((s.cnt .reader 4 ≠ 0 ∨ s.cnt .reader 10 ≠ 0) → s'.sh.rc = s.sh.rc) ∧
  ((s.cnt .writer 2 ≠ 0 ∨ s.cnt .writer 8 ≠ 0) → s'.sh.wc = s.sh.wc)

set_option hygiene false in
macro "rw_frozen " hs:ident : tactic => `(tactic| (
  obtain ⟨hc, ins, sh', hins, hex, hs'⟩ := cstep_ok' $hs
  subst hs'
  clear $hs
  simp only [GP, Gen.RW.progs, Progs.round, Progs.acq, Progs.rel, Gen.RW.reader_acquire, Gen.RW.reader_release,
    Gen.RW.writer_acquire, Gen.RW.writer_release, List.cons_append, List.nil_append, List.getElem?_cons_succ,
    List.getElem?_cons_zero, List.getElem?_nil, Option.some.injEq, reduceCtorEq] at hins
  subst hins
  simp only [exec_ok] at hex
  simp only [CtrFrozen]
  first
    | (subst hex; rw_fin)
    | (obtain ⟨h1, hex⟩ := hex; subst hex; rw_fin)
    | (rcases hex with ⟨h0, h1, hex⟩ | ⟨h0, hex⟩ <;> subst hex <;> rw_fin)))

theorem frozen_r0 (s s' : CS) (nxt : Option Role) (h : RInv s) (hs : cstep GP ⟨.reader, 0, nxt⟩ s = .ok s') : CtrFrozen s s' := by
  rw_frozen hs
theorem frozen_r1 (s s' : CS) (nxt : Option Role) (h : RInv s) (hs : cstep GP ⟨.reader, 1, nxt⟩ s = .ok s') : CtrFrozen s s' := by
  rw_frozen hs
theorem frozen_r2 (s s' : CS) (nxt : Option Role) (h : RInv s) (hs : cstep GP ⟨.reader, 2, nxt⟩ s = .ok s') : CtrFrozen s s' := by
  rw_frozen hs
theorem frozen_r3 (s s' : CS) (nxt : Option Role) (h : RInv s) (hs : cstep GP ⟨.reader, 3, nxt⟩ s = .ok s') : CtrFrozen s s' := by
  rw_frozen hs
theorem frozen_r4 (s s' : CS) (nxt : Option Role) (h : RInv s) (hs : cstep GP ⟨.reader, 4, nxt⟩ s = .ok s') : CtrFrozen s s' := by
  rw_frozen hs
theorem frozen_r5 (s s' : CS) (nxt : Option Role) (h : RInv s) (hs : cstep GP ⟨.reader, 5, nxt⟩ s = .ok s') : CtrFrozen s s' := by
  rw_frozen hs
theorem frozen_r6 (s s' : CS) (nxt : Option Role) (h : RInv s) (hs : cstep GP ⟨.reader, 6, nxt⟩ s = .ok s') : CtrFrozen s s' := by
  rw_frozen hs
theorem frozen_r7 (s s' : CS) (nxt : Option Role) (h : RInv s) (hs : cstep GP ⟨.reader, 7, nxt⟩ s = .ok s') : CtrFrozen s s' := by
  rw_frozen hs
theorem frozen_r8 (s s' : CS) (nxt : Option Role) (h : RInv s) (hs : cstep GP ⟨.reader, 8, nxt⟩ s = .ok s') : CtrFrozen s s' := by
  rw_frozen hs
theorem frozen_r9 (s s' : CS) (nxt : Option Role) (h : RInv s) (hs : cstep GP ⟨.reader, 9, nxt⟩ s = .ok s') : CtrFrozen s s' := by
  rw_frozen hs
theorem frozen_r10 (s s' : CS) (nxt : Option Role) (h : RInv s) (hs : cstep GP ⟨.reader, 10, nxt⟩ s = .ok s') : CtrFrozen s s' := by
  rw_frozen hs
theorem frozen_r11 (s s' : CS) (nxt : Option Role) (h : RInv s) (hs : cstep GP ⟨.reader, 11, nxt⟩ s = .ok s') : CtrFrozen s s' := by
  rw_frozen hs
theorem frozen_w0 (s s' : CS) (nxt : Option Role) (h : RInv s) (hs : cstep GP ⟨.writer, 0, nxt⟩ s = .ok s') : CtrFrozen s s' := by
  rw_frozen hs
theorem frozen_w1 (s s' : CS) (nxt : Option Role) (h : RInv s) (hs : cstep GP ⟨.writer, 1, nxt⟩ s = .ok s') : CtrFrozen s s' := by
  rw_frozen hs
theorem frozen_w2 (s s' : CS) (nxt : Option Role) (h : RInv s) (hs : cstep GP ⟨.writer, 2, nxt⟩ s = .ok s') : CtrFrozen s s' := by
  rw_frozen hs
theorem frozen_w3 (s s' : CS) (nxt : Option Role) (h : RInv s) (hs : cstep GP ⟨.writer, 3, nxt⟩ s = .ok s') : CtrFrozen s s' := by
  rw_frozen hs
theorem frozen_w4 (s s' : CS) (nxt : Option Role) (h : RInv s) (hs : cstep GP ⟨.writer, 4, nxt⟩ s = .ok s') : CtrFrozen s s' := by
  rw_frozen hs
theorem frozen_w5 (s s' : CS) (nxt : Option Role) (h : RInv s) (hs : cstep GP ⟨.writer, 5, nxt⟩ s = .ok s') : CtrFrozen s s' := by
  rw_frozen hs
theorem frozen_w6 (s s' : CS) (nxt : Option Role) (h : RInv s) (hs : cstep GP ⟨.writer, 6, nxt⟩ s = .ok s') : CtrFrozen s s' := by
  rw_frozen hs
theorem frozen_w7 (s s' : CS) (nxt : Option Role) (h : RInv s) (hs : cstep GP ⟨.writer, 7, nxt⟩ s = .ok s') : CtrFrozen s s' := by
  rw_frozen hs
theorem frozen_w8 (s s' : CS) (nxt : Option Role) (h : RInv s) (hs : cstep GP ⟨.writer, 8, nxt⟩ s = .ok s') : CtrFrozen s s' := by
  rw_frozen hs
theorem frozen_w9 (s s' : CS) (nxt : Option Role) (h : RInv s) (hs : cstep GP ⟨.writer, 9, nxt⟩ s = .ok s') : CtrFrozen s s' := by
  rw_frozen hs

theorem rinv_ctr_frozen (l : Lbl) (s s' : CS) (h : RInv s) (hs : cstep GP l s = .ok s') : CtrFrozen s s' := by
  obtain ⟨r, k, nxt⟩ := l
  have hlen : k < (GP.round r).length := by
    obtain ⟨_, ins, _, hins, _⟩ := cstep_ok' hs
    exact (List.getElem?_eq_some_iff.mp hins).1
  cases r
  · rw [round_len_reader] at hlen
    rcases k with _|_|_|_|_|_|_|_|_|_|_|_|k
    · exact frozen_r0 s s' nxt h hs
    · exact frozen_r1 s s' nxt h hs
    · exact frozen_r2 s s' nxt h hs
    · exact frozen_r3 s s' nxt h hs
    · exact frozen_r4 s s' nxt h hs
    · exact frozen_r5 s s' nxt h hs
    · exact frozen_r6 s s' nxt h hs
    · exact frozen_r7 s s' nxt h hs
    · exact frozen_r8 s s' nxt h hs
    · exact frozen_r9 s s' nxt h hs
    · exact frozen_r10 s s' nxt h hs
    · exact frozen_r11 s s' nxt h hs
    · omega
  · rw [round_len_writer] at hlen
    rcases k with _|_|_|_|_|_|_|_|_|_|k
    · exact frozen_w0 s s' nxt h hs
    · exact frozen_w1 s s' nxt h hs
    · exact frozen_w2 s s' nxt h hs
    · exact frozen_w3 s s' nxt h hs
    · exact frozen_w4 s s' nxt h hs
    · exact frozen_w5 s s' nxt h hs
    · exact frozen_w6 s s' nxt h hs
    · exact frozen_w7 s s' nxt h hs
    · exact frozen_w8 s s' nxt h hs
    · exact frozen_w9 s s' nxt h hs
    · omega

end RW
