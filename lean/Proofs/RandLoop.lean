import Proofs.RandBasic
/-!
# Proofs.RandLoop — the rejection loop of `randrange` as a function of the chunks handed out
-/
namespace Rand

theorem hist_snoc (hist : List Nat) (u i : Nat) :
    (hist ++ [u]) ++ List.replicate i u = hist ++ List.replicate (i + 1) u := by
  rw [List.append_assoc, List.replicate_succ]; rfl

/-- a successful run of the loop: `j` rejected chunks, then an accepted one; every request has size
`upper256 order`; the history grows by exactly these requests -/
theorem randrangeLoop_ok {ent : Entropy} {order : Int} {fuel : Nat} {hist : List Nat} {k : Nat} {hist' : List Nat}
    (h : randrangeLoop ent order fuel hist = some (.ok (k, hist'))) :
    ∃ j, j < fuel ∧ hist' = hist ++ List.replicate (j + 1) (upper256 order) ∧
      (∀ i, i < j → ∃ c, ent (hist ++ List.replicate (i + 1) (upper256 order)) = .ok c ∧ oneDraw order c = .ok none) ∧
      ∃ c, ent (hist ++ List.replicate (j + 1) (upper256 order)) = .ok c ∧ oneDraw order c = .ok (some k) := by
  induction fuel generalizing hist with
  | zero => simp [randrangeLoop] at h
  | succ f ih =>
    unfold randrangeLoop at h
    simp only at h
    split at h
    · cases h
    · rename_i chunk hent
      split at h
      · cases h
      · rename_i k' hd
        simp only [Option.some.injEq, Except.ok.injEq, Prod.mk.injEq] at h
        obtain ⟨rfl, rfl⟩ := h
        exact ⟨0, by omega, rfl, fun i hi => absurd hi (by omega), chunk, hent, hd⟩
      · rename_i hd
        obtain ⟨j, hj, hh, hrej, c, hc, hcd⟩ := ih h
        refine ⟨j + 1, by omega, ?_, ?_, c, ?_, hcd⟩
        · rw [hh, hist_snoc]
        · intro i hi
          cases i with
          | zero => exact ⟨chunk, hent, hd⟩
          | succ i =>
            obtain ⟨c', hc', hcd'⟩ := hrej i (by omega)
            exact ⟨c', by rw [← hist_snoc]; exact hc', hcd'⟩
        · rw [← hist_snoc]; exact hc

/-- replayability: two entropy sources that hand out the same chunks (or exceptions) to the requests of
this call give the same outcome — value, history and exception alike -/
theorem randrangeLoop_congr {ent₁ ent₂ : Entropy} {order : Int} (fuel : Nat) (hist : List Nat)
    (h : ∀ i, ent₁ (hist ++ List.replicate (i + 1) (upper256 order)) = ent₂ (hist ++ List.replicate (i + 1) (upper256 order))) :
    randrangeLoop ent₁ order fuel hist = randrangeLoop ent₂ order fuel hist := by
  induction fuel generalizing hist with
  | zero => rfl
  | succ f ih =>
    unfold randrangeLoop
    simp only
    have h0 := h 0
    simp only [Nat.zero_add, List.replicate_one] at h0
    rw [h0]
    split
    · rfl
    · split
      · rfl
      · rfl
      · apply ih
        intro i
        rw [hist_snoc]; exact h (i + 1)

end Rand

namespace Rand

/-- the scripted-stream source answers request number `|pre| + 1` with the `size` bytes that follow
the `sum pre` bytes already handed out -/
theorem streamEntropy_snoc (s : Bytes) (pre : List Nat) (size : Nat) :
    streamEntropy s (pre ++ [size]) =
      if pre.sum + size > s.length then .error .indexError else .ok ((s.drop pre.sum).take size) := by
  simp [streamEntropy, List.getLast?_append]

theorem streamEntropy_shift (s : Bytes) (hist pre : List Nat) (size : Nat) (hsum : hist.sum ≤ s.length) :
    streamEntropy s (hist ++ (pre ++ [size])) = streamEntropy (s.drop hist.sum) (pre ++ [size]) := by
  rw [← List.append_assoc, streamEntropy_snoc, streamEntropy_snoc]
  simp only [List.sum_append, List.length_drop, List.drop_drop]
  by_cases h : hist.sum + pre.sum + size > s.length
  · rw [if_pos h, if_pos (by omega)]
  · rw [if_neg h, if_neg (by omega)]

def relabel (hist : List Nat) : Option (Res (Nat × List Nat)) → Option (Res (Nat × List Nat)) :=
  Option.map (Except.map fun p => (p.1, hist ++ p.2))

theorem randrangeLoop_stream_shift (s : Bytes) (order : Int) (hist : List Nat) (hsum : hist.sum ≤ s.length) (fuel : Nat) :
    ∀ h2 : List Nat, randrangeLoop (streamEntropy s) order fuel (hist ++ h2) =
      relabel hist (randrangeLoop (streamEntropy (s.drop hist.sum)) order fuel h2) := by
  induction fuel with
  | zero => intro h2; rfl
  | succ f ih =>
    intro h2
    unfold randrangeLoop
    simp only
    rw [List.append_assoc, streamEntropy_shift s hist h2 _ hsum]
    split
    · rfl
    · split
      · rfl
      · simp [relabel, Except.map]
      · exact ih _

end Rand

namespace Rand

/-- converse of `randrangeLoop_ok`: `j` rejected chunks followed by an accepted one make the loop return it -/
theorem randrangeLoop_complete {ent : Entropy} {order : Int} (j : Nat) :
    ∀ (fuel : Nat) (hist : List Nat) (k : Nat), j < fuel →
      (∀ i, i < j → ∃ c, ent (hist ++ List.replicate (i + 1) (upper256 order)) = .ok c ∧ oneDraw order c = .ok none) →
      (∃ c, ent (hist ++ List.replicate (j + 1) (upper256 order)) = .ok c ∧ oneDraw order c = .ok (some k)) →
      randrangeLoop ent order fuel hist = some (.ok (k, hist ++ List.replicate (j + 1) (upper256 order))) := by
  induction j with
  | zero =>
    intro fuel hist k hf _ hacc
    obtain ⟨f, rfl⟩ : ∃ f, fuel = f + 1 := ⟨fuel - 1, by omega⟩
    obtain ⟨c, hc, hd⟩ := hacc
    simp only [Nat.zero_add, List.replicate_one] at hc ⊢
    unfold randrangeLoop
    simp only [hc, hd]
  | succ j ih =>
    intro fuel hist k hf hrej hacc
    obtain ⟨f, rfl⟩ : ∃ f, fuel = f + 1 := ⟨fuel - 1, by omega⟩
    obtain ⟨c0, hc0, hd0⟩ := hrej 0 (by omega)
    simp only [Nat.zero_add, List.replicate_one] at hc0
    unfold randrangeLoop
    simp only [hc0, hd0]
    rw [ih f (hist ++ [upper256 order]) k (by omega), hist_snoc]
    · intro i hi
      obtain ⟨c, hc, hd⟩ := hrej (i + 1) (by omega)
      exact ⟨c, by rw [hist_snoc]; exact hc, hd⟩
    · obtain ⟨c, hc, hd⟩ := hacc
      exact ⟨c, by rw [hist_snoc]; exact hc, hd⟩

end Rand

theorem Rand.sum_replicate (j u : Nat) : (List.replicate j u).sum = j * u := by
  induction j with
  | zero => simp
  | succ j ih => rw [List.replicate_succ, List.sum_cons, ih, Nat.succ_mul]; omega
