import Proofs.RandBasic
/-!
# Proofs.RandLoop — the rejection loop of `randrange` as a function of the chunks handed out
-/
namespace Rand

theorem hist_snoc (hist : List Nat) (u i : Nat) :
    (hist ++ [u]) ++ List.replicate i u = hist ++ List.replicate (i + 1) u := by
  rw [List.append_assoc, List.replicate_succ]; rfl

/-- a successful run of the loop: `j` rejected chunks, then an accepted one; every request has size
`upper256 order`; the history grows by exactly these requests -/
theorem randrangeLoop_ok {ent : Entropy} {order : Int} {fuel : Nat} {hist : List Nat} {k : Nat} {hist' : List Nat}
    (h : randrangeLoop ent order fuel hist = some (.ok (k, hist'))) :
    ∃ j, j < fuel ∧ hist' = hist ++ List.replicate (j + 1) (upper256 order) ∧
      (∀ i, i < j → ∃ c, ent (hist ++ List.replicate (i + 1) (upper256 order)) = .ok c ∧ oneDraw order c = .ok none) ∧
      ∃ c, ent (hist ++ List.replicate (j + 1) (upper256 order)) = .ok c ∧ oneDraw order c = .ok (some k) := by
  induction fuel generalizing hist with
  | zero => simp [randrangeLoop] at h
  | succ f ih =>
    unfold randrangeLoop at h
    simp only at h
    split at h
    · cases h
    · rename_i chunk hent
      split at h
      · cases h
      · rename_i k' hd
        simp only [Option.some.injEq, Except.ok.injEq, Prod.mk.injEq] at h
        obtain ⟨rfl, rfl⟩ := h
        exact ⟨0, by omega, rfl, fun i hi => absurd hi (by omega), chunk, hent, hd⟩
      · rename_i hd
        obtain ⟨j, hj, hh, hrej, c, hc, hcd⟩ := ih h
        refine ⟨j + 1, by omega, ?_, ?_, c, ?_, hcd⟩
        · rw [hh, hist_snoc]
        · intro i hi
          cases i with
          | zero => exact ⟨chunk, hent, hd⟩
          | succ i =>
            obtain ⟨c', hc', hcd'⟩ := hrej i (by omega)
            exact ⟨c', by rw [← hist_snoc]; exact hc', hcd'⟩
        · rw [← hist_snoc]; exact hc

/-- replayability: two entropy sources that hand out the same chunks (or exceptions) to the requests of
this call give the same outcome — value, history and exception alike -/
theorem randrangeLoop_congr {ent₁ ent₂ : Entropy} {order : Int} (fuel : Nat) (hist : List Nat)
    (h : ∀ i, ent₁ (hist ++ List.replicate (i + 1) (upper256 order)) = ent₂ (hist ++ List.replicate (i + 1) (upper256 order))) :
    randrangeLoop ent₁ order fuel hist = randrangeLoop ent₂ order fuel hist := by
  induction fuel generalizing hist with
  | zero => rfl
  | succ f ih =>
    unfold randrangeLoop
    simp only
    have h0 := h 0
    simp only [Nat.zero_add, List.replicate_one] at h0
    rw [h0]
    split
    · rfl
    · split
      · rfl
      · rfl
      · apply ih
        intro i
        rw [hist_snoc]; exact h (i + 1)

end Rand
