import Proofs.EcdsaInstCurve
import Proofs.EcdsaInstToy
/-!
# Proofs.EcdsaInstLegacy — `PointOpsCorrect` for a curve whose generator object is a legacy affine `Point`
(user-built `curves.Curve` over `ellipticcurve.Point`: no `mul_add`, so `Public_key.verifies` computes
`u1 * G + u2 * Q` with `Point.__mul__`, `PointJacobi.__mul__` and the mixed `__add__`/`__radd__` dispatch).
Point objects: INFINITY, `PointJacobi` and legacy `Point` values denoting elements of ⟨G⟩, declared order `n` or none.
-/
namespace Ecdsa.OnCurve
open Curve Jac GroupInterface WeierstrassCurve

/-- like `OrdInv`, with legacy points allowed -/
def OrdInvL (n : Int) : Pt → Prop
  | .infinity => True
  | .jac J => J.order = some n ∨ (J.order = none ∧ J.generator = false)
  | .aff A => A.order = some n ∨ A.order = none

theorem ordInvL_of_ordInv {n : Int} {A : Pt} (h : OrdInv n A) : OrdInvL n A := by
  cases A with
  | infinity => trivial
  | jac J => exact h
  | aff _ => exact absurd h (by simp [OrdInv])

theorem mkPoint_ord {c : CurveFp} {x y : Int} {A : AffPt} (h : mkPoint c x y none = .ok A) : A.order = none := by
  unfold mkPoint at h
  split at h
  · injection h with h; subst h; rfl
  · cases h

theorem coordsOut_ordL {n : Int} {o : Option Int} (ho : o = some n ∨ o = none) (c : CurveFp) (t : Int × Int × Int) :
    OrdInvL n (coordsOut c o t) := by
  unfold coordsOut
  split
  · trivial
  · rcases ho with h | h
    · left; exact h
    · right; exact ⟨h, rfl⟩

theorem jac_ord_cases {n : Int} {J : PJ} (h : OrdInvL n (.jac J)) : J.order = some n ∨ J.order = none := by
  rcases h with h | ⟨h, _⟩
  · exact Or.inl h
  · exact Or.inr h

theorem pjAddCore_ordL {n : Int} {P Q : PJ} {R : Pt} (hP : OrdInvL n (.jac P)) (h : pjAddCore P Q = .ok R) : OrdInvL n R := by
  unfold pjAddCore at h
  split at h
  · cases h
  · injection h with h; subst h; exact coordsOut_ordL (jac_ord_cases hP) _ _

theorem pjAdd_ordL {n : Int} {P : PJ} {o R : Pt} (hP : OrdInvL n (.jac P)) (ho : OrdInvL n o) (h : pjAdd P o = .ok R) :
    OrdInvL n R := by
  unfold pjAdd at h
  split at h
  · injection h with h; subst h; exact ho
  · cases o with
    | infinity => injection h with h; subst h; exact hP
    | jac Q =>
      simp only at h
      split at h
      · injection h with h; subst h; exact hP
      · exact pjAddCore_ordL hP h
    | aff A => exact pjAddCore_ordL hP h

theorem affDouble_ordL {n : Int} {P : AffPt} {R : Pt} (h : affDouble P = .ok R) : OrdInvL n R := by
  unfold affDouble at h
  simp only [bind, Except.bind] at h
  split at h
  · cases h
  · split at h
    · cases h
    · rename_i A hA
      injection h with h; subst h
      exact Or.inr (mkPoint_ord hA)

theorem affAdd_ordL {n : Int} {P : AffPt} {o R : Pt} (hP : OrdInvL n (.aff P)) (ho : OrdInvL n o) (h : affAdd P o = .ok R) :
    OrdInvL n R := by
  cases o with
  | jac Q => exact pjAdd_ordL ho hP h
  | infinity => injection h with h; subst h; exact hP
  | aff Q =>
    simp only [affAdd] at h
    split at h
    · cases h
    · split at h
      · split at h
        · injection h with h; subst h; trivial
        · exact affDouble_ordL h
      · simp only [bind, Except.bind] at h
        cases hi : Curve.inverseMod (Q.x - P.x) P.curve.p with
        | error e => rw [hi] at h; cases h
        | ok inv =>
          rw [hi] at h
          simp only at h
          split at h
          · cases h
          · rename_i A hA
            injection h with h; subst h
            exact Or.inr (mkPoint_ord hA)

theorem ptAdd_ordL {n : Int} {A B R : Pt} (hA : OrdInvL n A) (hB : OrdInvL n B) (h : ptAdd A B = .ok R) : OrdInvL n R := by
  cases A with
  | jac P => exact pjAdd_ordL hA hB h
  | infinity =>
    cases B with
    | infinity => injection h with h; subst h; trivial
    | jac Q => exact pjAdd_ordL (o := .infinity) hB trivial h
    | aff Q => injection h with h; subst h; exact hB
  | aff P => exact affAdd_ordL hA hB h

theorem ptDouble_ordL {n : Int} {A R : Pt} (hA : OrdInvL n A) (h : ptDouble A = .ok R) : OrdInvL n R := by
  cases A with
  | infinity => injection h with h; subst h; trivial
  | jac P =>
    injection h with h; subst h
    unfold pjDouble
    split
    · trivial
    · exact coordsOut_ordL (jac_ord_cases hA) _ _
  | aff P => exact affDouble_ordL h

theorem affMulLoop_ordL {n : Int} (self negSelf : Pt) (e e3 i : Nat) (result R : Pt) (hs : OrdInvL n self)
    (hn : OrdInvL n negSelf) (hr : OrdInvL n result) (h : affMulLoop self negSelf e e3 i result = .ok R) : OrdInvL n R := by
  induction i using Nat.strongRecOn generalizing result with
  | _ i ih =>
    rw [affMulLoop] at h
    split at h
    · rename_i hi
      simp only [bind, Except.bind, pure, Except.pure] at h
      cases h1 : ptDouble result with
      | error err => rw [h1] at h; cases h
      | ok r1 =>
        rw [h1] at h
        simp only at h
        have o1 := ptDouble_ordL hr h1
        have tail : ∀ r2, OrdInvL n r2 →
            (if (e3 &&& i == 0 && e &&& i != 0) = true then
              (ptAdd r2 negSelf >>= fun v => affMulLoop self negSelf e e3 (i / 2) v)
             else affMulLoop self negSelf e e3 (i / 2) r2) = Except.ok R → OrdInvL n R := by
          intro r2 o2 ht
          simp only [bind, Except.bind] at ht
          split at ht
          · cases h3 : ptAdd r2 negSelf with
            | error err => rw [h3] at ht; cases ht
            | ok r3 =>
              rw [h3] at ht
              exact ih (i / 2) (by omega) r3 (ptAdd_ordL o2 hn h3) ht
          · exact ih (i / 2) (by omega) r2 o2 ht
        split at h
        · cases h2 : ptAdd r1 self with
          | error err => rw [h2] at h; cases h
          | ok r2 =>
            rw [h2] at h
            simp only at h
            exact tail r2 (ptAdd_ordL o1 hs h2) (by simp only [bind, Except.bind]; exact h)
        · exact tail r1 o1 (by simp only [bind, Except.bind]; exact h)
    · injection h with h; subst h; exact hr

theorem mkPoint_fields {c : CurveFp} {x y : Int} {o : Option Int} {A : AffPt} (h : mkPoint c x y o = .ok A) : A.order = o := by
  unfold mkPoint at h
  split at h
  · injection h with h; subst h; rfl
  · cases h

theorem affMulPos_ordL {n : Int} {P : AffPt} {e : Int} {R : Pt} (hP : OrdInvL n (.aff P)) (h : affMulPos P e = .ok R) :
    OrdInvL n R := by
  unfold affMulPos at h
  simp only [bind, Except.bind] at h
  split at h
  · cases h
  · rename_i N hN
    have hNo : OrdInvL n (.aff N) := by
      have := mkPoint_fields hN
      show N.order = some n ∨ N.order = none
      rw [this]; exact hP
    exact affMulLoop_ordL _ _ _ _ _ _ _ hP hNo hP h

theorem affMul_tail {n : Int} {P : AffPt} {e : Int} {R : Pt} (hP : OrdInvL n (.aff P)) (c : Bool)
    (h : (if c = true then Except.ok Pt.infinity
          else if e < 0 then (affNeg P >>= fun N => affMulPos N (-e)) else affMulPos P e) = Except.ok R) :
    OrdInvL n R := by
  split at h
  · injection h with h; subst h; trivial
  · split at h
    · simp only [bind, Except.bind] at h
      cases hN : affNeg P with
      | error err => rw [hN] at h; cases h
      | ok N =>
        rw [hN] at h
        have hNo : OrdInvL n (.aff N) := Or.inr (mkPoint_fields hN)
        exact affMulPos_ordL hNo h
    · exact affMulPos_ordL hP h

theorem affMul_ordL {n : Int} {P : AffPt} {e : Int} {R : Pt} (hP : OrdInvL n (.aff P)) (h : affMul P e = .ok R) :
    OrdInvL n R := by
  unfold affMul at h
  exact affMul_tail hP _ h

theorem ptMulWith_ordL {n : Int} {A R : Pt} {k : Int} (hA : OrdInvL n A) (h : ptMulWith [] A k = .ok R) : OrdInvL n R := by
  cases A with
  | infinity => injection h with h; subst h; trivial
  | jac P => exact ordInvL_of_ordInv (pjMulWith_ord (n := n) hA h)
  | aff P => exact affMul_ordL hA h

variable {p : ℕ} [hp : Fact p.Prime] {a b : ℤ}

/-- the curve description `c` with a legacy `Point` generator matches the group context `C` -/
structure MatchesL (c : Affine.Crv) (C : Ctx p a b) : Prop where
  hp2 : p ≠ 2
  cp : c.p = p
  ca : c.a = a
  cb : c.b = b
  cn : c.n = C.n
  n_prime : Nat.Prime c.n.toNat
  jac : c.jac = false
  genRep : AffRep p a b C.H ⟨crvOf c, c.gx, c.gy, some c.n⟩ C.G

def ValidL (C : Ctx p a b) (A : Pt) : Prop := OrdInvL C.n A ∧ ∃ g, PtRep p a b C.H A g

theorem validL_rep {C : Ctx p a b} {A : Pt} (h : ValidL C A) : PtRep p a b C.H A (den C A) := by
  obtain ⟨g, hg⟩ := h.2
  rw [den_eq hg]; exact hg

theorem ptMulOK_ofL {C : Ctx p a b} {A : Pt} (h : ValidL C A) : PtMulOK p a b C.H A (den C A) := by
  have hr := validL_rep h
  cases A with
  | infinity => exact hr
  | jac J => exact mulOK_of C hr h.1
  | aff Af =>
    refine ⟨hr, ?_⟩
    intro m hm
    rcases h.1 with ho | ho
    · rw [ho] at hm
      simp only [truthy] at hm
      split_ifs at hm
      cases hm
      exact C.order_annihilates (AffRep.mem hr)
    · rw [ho] at hm; simp [truthy] at hm

theorem val_cast_range {x : ℤ} (h0 : 0 ≤ x) (h1 : x < p) : ((ZMod.val (x : ZMod p) : ℕ) : ℤ) = x := by
  have : ((x.toNat : ℕ) : ZMod p) = (x : ZMod p) := by
    have e : ((x.toNat : ℕ) : ℤ) = x := Int.toNat_of_nonneg h0
    rw [← e]; push_cast; rw [e]
  rw [← this, ZMod.val_natCast, Nat.mod_eq_of_lt (by omega)]
  exact Int.toNat_of_nonneg h0

/-- **the instance for a legacy-`Point` generator** -/
theorem pointOpsCorrect_legacy (c : Affine.Crv) (C : Ctx p a b) (M : MatchesL c C) :
    PointOpsCorrect (ops c) C.G (den C) (xcOf (p := p) (a := a) (b := b)) (ValidL C) where
  n_prime := M.n_prime
  nG := by show c.n • C.G = 0; rw [M.cn]; exact C.hn
  G_ne := AffRep.ne_zero M.genRep
  xc_none R := by
    cases R with
    | zero => exact ⟨fun _ => rfl, fun _ => rfl⟩
    | some x y h => exact ⟨fun h => (by cases h), fun h => absurd h (Affine.Point.some_ne_zero _)⟩
  xc_neg R := by
    cases R with
    | zero => rfl
    | some x y h => rfl
  xc_range R x h := by
    cases R with
    | zero => cases h
    | some x' y' h' =>
      injection h with h; subst h
      refine ⟨by positivity, ?_⟩
      show ((ZMod.val x' : ℕ) : ℤ) < c.p
      rw [M.cp]
      exact_mod_cast ZMod.val_lt x'
  mulG k := by
    have hgen : genOf c = .aff ⟨crvOf c, c.gx, c.gy, some c.n⟩ := by simp [genOf, M.jac]
    have hord : OrdInvL C.n (.aff ⟨crvOf c, c.gx, c.gy, some c.n⟩) := Or.inl (by rw [M.cn])
    obtain ⟨R, hR, rR⟩ := legacy_mul M.hp2 C M.genRep (Or.inl (by rw [M.cn])) k
    refine ⟨R, ?_, ⟨affMul_ordL hord hR, _, rR⟩, den_eq rR⟩
    show ptMulWith [] (genOf c) k = .ok R
    rw [hgen]; exact hR
  mulAddG h := by
    have : (ops c).genHasMulAdd = false := M.jac
    rw [this] at h; cases h
  mul k Q hQ := by
    obtain ⟨R, hR, rR⟩ := ptMul_correct M.hp2 C.n2t (ptMulOK_ofL hQ) k
    exact ⟨R, hR, ⟨ptMulWith_ordL hQ.1 hR, _, rR⟩, den_eq rR⟩
  add A B hA hB := by
    obtain ⟨R, hR, rR⟩ := GroupInterface.add M.hp2 C (validL_rep hA) (validL_rep hB)
    exact ⟨R, hR, ⟨ptAdd_ordL hA.1 hB.1 hR, _, rR⟩, den_eq rR⟩
  isInf A hA := by
    show ptIsInf A = true ↔ _
    rw [ptIsInf_eq]
    exact eq_infinity_iff C (validL_rep hA)
  xOf A hA hne := by
    rcases result_cases (validL_rep hA) with ⟨_, h0⟩ | ⟨J, rfl, hJ, _⟩ | ⟨Af, rfl, hAf, _⟩
    · exact absurd h0 hne
    · exact ⟨_, xOf_spec hJ, xcOf_xOf hne⟩
    · obtain ⟨_, hx, _, _, hns, hg⟩ := hAf
      refine ⟨Af.x, rfl, ?_⟩
      rw [← hg]
      show some ((ZMod.val (Af.x : ZMod p) : ℕ) : ℤ) = some Af.x
      rw [val_cast_range hx.1 hx.2]
  yOf A hA hne := by
    rcases result_cases (validL_rep hA) with ⟨_, h0⟩ | ⟨J, rfl, hJ, _⟩ | ⟨Af, rfl, hAf, _⟩
    · exact absurd h0 hne
    · obtain ⟨x, y, _, ey, _, _, y0, y1, _⟩ := GroupInterface.xy hJ
      exact ⟨y, ey, y0, by show y < c.p; rw [M.cp]; exact y1⟩
    · obtain ⟨_, _, hy, _, _, _⟩ := hAf
      exact ⟨Af.y, rfl, hy.1, by show Af.y < c.p; rw [M.cp]; exact hy.2⟩
  isInfObj A hA hne := by
    rcases result_cases (validL_rep hA) with ⟨_, h0⟩ | ⟨J, rfl, _, _⟩ | ⟨Af, rfl, _, _⟩
    · exact absurd h0 hne
    · rfl
    · rfl
  fromAffine A hA := by
    cases A with
    | infinity => exact ⟨hA, rfl⟩
    | jac J => exact ⟨hA, rfl⟩
    | aff Af =>
      have hAf : AffRep p a b C.H Af (den C (.aff Af)) := validL_rep hA
      have hJ := AffRep.pj C.n2t hAf false
      have hpt : PtRep p a b C.H (.jac (pjFromAffine Af)) (den C (.aff Af)) := hJ
      refine ⟨⟨?_, _, hpt⟩, den_eq hpt⟩
      show (pjFromAffine Af).order = some C.n ∨ ((pjFromAffine Af).order = none ∧ (pjFromAffine Af).generator = false)
      rcases hA.1 with h | h
      · left; exact h
      · right; exact ⟨h, rfl⟩
  scale A hA := by
    cases A with
    | infinity => exact ⟨.infinity, rfl, hA, rfl⟩
    | aff Af => exact ⟨.aff Af, rfl, hA, rfl⟩
    | jac J =>
      have hJ : PJRep p a b C.H J (den C (.jac J)) := validL_rep hA
      obtain ⟨S, hS, rS, _, _, so, sg⟩ := GroupInterface.scale hJ
      refine ⟨.jac S, ?_, ⟨?_, _, rS⟩, den_eq (A := .jac S) rS⟩
      · show (do let S ← pjScale J; Except.ok (Pt.jac S)) = _
        rw [hS]; rfl
      · rcases hA.1 with h | ⟨h, hg⟩
        · left; rw [so, h]
        · right; exact ⟨by rw [so, h], by rw [sg, hg]⟩

end Ecdsa.OnCurve

namespace Ecdsa.OnCurve
open Curve Jac GroupInterface WeierstrassCurve

/-- the toy curve with a legacy `Point` generator: `11,1,6,2,7,13,1,a` -/
def toyCrvL : Affine.Crv := ⟨11, 1, 6, 2, 7, 13, 1, false⟩

/-- non-vacuity of `MatchesL` -/
theorem toy_matchesL : ∃ C : Ctx 11 1 6, MatchesL toyCrvL C := by
  obtain ⟨C, M⟩ := toy_matches
  obtain ⟨x, y, ex, ey, _, _, _, _, hns, hg⟩ := GroupInterface.xy M.genRep
  have hx : x = 2 := by
    have : pjX ⟨crvOf toyCrv, toyCrv.gx, toyCrv.gy, 1, some toyCrv.n, true⟩ = .ok 2 := rfl
    rw [this] at ex; injection ex with ex; exact ex.symm
  have hy : y = 7 := by
    have : pjY ⟨crvOf toyCrv, toyCrv.gx, toyCrv.gy, 1, some toyCrv.n, true⟩ = .ok 7 := rfl
    rw [this] at ey; injection ey with ey; exact ey.symm
  subst hx; subst hy
  refine ⟨C, ⟨M.hp2, rfl, rfl, rfl, M.cn, M.n_prime, rfl, ?_⟩⟩
  exact ⟨⟨rfl, rfl, rfl⟩, ⟨by decide, by decide⟩, ⟨by decide, by decide⟩, C.G_mem, hns, hg.symm⟩

end Ecdsa.OnCurve
