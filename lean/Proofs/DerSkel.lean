/-!
# Proofs.DerSkel — source skeletons of `der.py` the model follows

The control skeleton (statements, tests, slice bounds, constants; messages and comments dropped) of every
function that `Model/Der.lean` / `Model/Util.lean` transcribe, AS TRANSCRIBED.  `harness/translate/gen_der.py` re-extracts the
same skeleton from the working tree on every run (`Generated/DerGuards.lean`, `Generated/UtilGuards.lean`) and
`Props/C11.tie_skeleton` / `Props/C12.tie_skeleton` prove the two equal: a change of the source's control flow that
the model does not follow breaks the proof.  Update an entry ONLY together with the model function it describes.
-/
namespace Der.Skel

def encode_constructed : List String := [
  "return int2byte(160 + tag) + encode_length(len(value)) + value"
]

def encode_integer : List String := [
  "assert r >= 0",
  "h = ('%x' % r).encode()",
  "if len(h) % 2",
  ".h = b('0') + h",
  "s = binascii.unhexlify(h)",
  "num = str_idx_as_int(s, 0)",
  "if num <= 127",
  ".return b('\\x02') + encode_length(len(s)) + s",
  "else",
  ".return b('\\x02') + encode_length(len(s) + 1) + b('\\x00') + s"
]

def encode_bitstring : List String := [
  "encoded_unused = b''",
  "len_extra = 0",
  "if unused is _sentry",
  ".call warnings.warn",
  "else",
  ".if unused is not None",
  "..if not 0 <= unused <= 7",
  "...raise ValueError",
  "..if unused",
  "...if not s",
  "....raise ValueError",
  "...last = str_idx_as_int(s, -1)",
  "...if last & 2 ** unused - 1",
  "....raise ValueError",
  "..encoded_unused = int2byte(unused)",
  "..len_extra = 1",
  "return b('\\x03') + encode_length(len(s) + len_extra) + encoded_unused + s"
]

def encode_octet_string : List String := [
  "return b('\\x04') + encode_length(len(s)) + s"
]

def encode_oid : List String := [
  "assert 0 <= first < 2 and 0 <= second <= 39 or (first == 2 and 0 <= second)",
  "body = b''.join(chain([encode_number(40 * first + second)], (encode_number(p) for p in pieces)))",
  "return b'\\x06' + encode_length(len(body)) + body"
]

def encode_sequence : List String := [
  "total_len = sum([len(p) for p in encoded_pieces])",
  "return b('0') + encode_length(total_len) + b('').join(encoded_pieces)"
]

def encode_number : List String := [
  "b128_digits = []",
  "while n",
  ".call b128_digits.insert(0, n & 127 | 128)",
  ".n = n >> 7",
  "if not b128_digits",
  ".call b128_digits.append(0)",
  "b128_digits[-1] &= 127",
  "return b('').join([int2byte(d) for d in b128_digits])"
]

def is_sequence : List String := [
  "return string and string[:1] == b'0'"
]

def remove_constructed : List String := [
  "if not string",
  ".raise UnexpectedDER",
  "s0 = str_idx_as_int(string, 0)",
  "if s0 & 224 != 160",
  ".raise UnexpectedDER",
  "tag = s0 & 31",
  "(length, llen) = read_length(string[1:])",
  "if length > len(string) - 1 - llen",
  ".raise UnexpectedDER",
  "body = string[1 + llen:1 + llen + length]",
  "rest = string[1 + llen + length:]",
  "return (tag, body, rest)"
]

def remove_sequence : List String := [
  "if not string",
  ".raise UnexpectedDER",
  "if string[:1] != b'0'",
  ".n = str_idx_as_int(string, 0)",
  ".raise UnexpectedDER",
  "(length, lengthlength) = read_length(string[1:])",
  "if length > len(string) - 1 - lengthlength",
  ".raise UnexpectedDER",
  "endseq = 1 + lengthlength + length",
  "return (string[1 + lengthlength:endseq], string[endseq:])"
]

def remove_octet_string : List String := [
  "if not string",
  ".raise UnexpectedDER",
  "if string[:1] != b'\\x04'",
  ".n = str_idx_as_int(string, 0)",
  ".raise UnexpectedDER",
  "(length, llen) = read_length(string[1:])",
  "if length > len(string) - 1 - llen",
  ".raise UnexpectedDER",
  "body = string[1 + llen:1 + llen + length]",
  "rest = string[1 + llen + length:]",
  "return (body, rest)"
]

def remove_object : List String := [
  "if not string",
  ".raise UnexpectedDER",
  "if string[:1] != b'\\x06'",
  ".n = str_idx_as_int(string, 0)",
  ".raise UnexpectedDER",
  "(length, lengthlength) = read_length(string[1:])",
  "body = string[1 + lengthlength:1 + lengthlength + length]",
  "rest = string[1 + lengthlength + length:]",
  "if not body",
  ".raise UnexpectedDER",
  "if len(body) != length",
  ".raise UnexpectedDER",
  "numbers = []",
  "while body",
  ".(n, ll) = read_number(body)",
  ".call numbers.append(n)",
  ".body = body[ll:]",
  "n0 = numbers.pop(0)",
  "if n0 < 80",
  ".first = n0 // 40",
  "else",
  ".first = 2",
  "second = n0 - 40 * first",
  "call numbers.insert(0, first)",
  "call numbers.insert(1, second)",
  "return (tuple(numbers), rest)"
]

def remove_integer : List String := [
  "if not string",
  ".raise UnexpectedDER",
  "if string[:1] != b'\\x02'",
  ".n = str_idx_as_int(string, 0)",
  ".raise UnexpectedDER",
  "(length, llen) = read_length(string[1:])",
  "if length > len(string) - 1 - llen",
  ".raise UnexpectedDER",
  "if length == 0",
  ".raise UnexpectedDER",
  "numberbytes = string[1 + llen:1 + llen + length]",
  "rest = string[1 + llen + length:]",
  "msb = str_idx_as_int(numberbytes, 0)",
  "if not msb < 128",
  ".raise UnexpectedDER",
  "if length > 1 and (not msb)",
  ".smsb = str_idx_as_int(numberbytes, 1)",
  ".if smsb < 128",
  "..raise UnexpectedDER",
  "return (int(binascii.hexlify(numberbytes), 16), rest)"
]

def read_number : List String := [
  "number = 0",
  "llen = 0",
  "if not string",
  ".raise UnexpectedDER",
  "if str_idx_as_int(string, 0) == 128",
  ".raise UnexpectedDER",
  "while True",
  ".if llen >= len(string)",
  "..raise UnexpectedDER",
  ".number = number << 7",
  ".d = str_idx_as_int(string, llen)",
  ".number += d & 127",
  ".llen += 1",
  ".if not d & 128",
  "..break",
  "return (number, llen)"
]

def encode_length : List String := [
  "assert l >= 0",
  "if l < 128",
  ".return int2byte(l)",
  "s = ('%x' % l).encode()",
  "if len(s) % 2",
  ".s = b('0') + s",
  "s = binascii.unhexlify(s)",
  "llen = len(s)",
  "return int2byte(128 | llen) + s"
]

def read_length : List String := [
  "if not string",
  ".raise UnexpectedDER",
  "num = str_idx_as_int(string, 0)",
  "if not num & 128",
  ".return (num & 127, 1)",
  "llen = num & 127",
  "if not llen",
  ".raise UnexpectedDER",
  "if llen > len(string) - 1",
  ".raise UnexpectedDER",
  "msb = str_idx_as_int(string, 1)",
  "if not msb or (llen == 1 and msb < 128)",
  ".raise UnexpectedDER",
  "return (int(binascii.hexlify(string[1:1 + llen]), 16), 1 + llen)"
]

def remove_bitstring : List String := [
  "if not string",
  ".raise UnexpectedDER",
  "if expect_unused is _sentry",
  ".call warnings.warn",
  "num = str_idx_as_int(string, 0)",
  "if string[:1] != b'\\x03'",
  ".raise UnexpectedDER",
  "(length, llen) = read_length(string[1:])",
  "if not length",
  ".raise UnexpectedDER",
  "if length > len(string) - 1 - llen",
  ".raise UnexpectedDER",
  "body = string[1 + llen:1 + llen + length]",
  "rest = string[1 + llen + length:]",
  "if expect_unused is not _sentry",
  ".unused = str_idx_as_int(body, 0)",
  ".if not 0 <= unused <= 7",
  "..raise UnexpectedDER",
  ".if expect_unused is not None and expect_unused != unused",
  "..raise UnexpectedDER",
  ".body = body[1:]",
  ".if unused",
  "..if not body",
  "...raise UnexpectedDER",
  "..last = str_idx_as_int(body, -1)",
  "..if last & 2 ** unused - 1",
  "...raise UnexpectedDER",
  ".if expect_unused is None",
  "..body = (body, unused)",
  "return (body, rest)"
]

def str_idx_as_int : List String := [
  "val = string[index]",
  "if isinstance(val, integer_types)",
  ".return val",
  "return ord(val)"
]

end Der.Skel
