import Proofs.KeysPem
/-!
# Proofs.KeysB64 — the concrete model of CPython's lenient base64 decoder inverts the exact encoder
(`b64decodeCPython (b64encode d) = some d`), so the PEM round trips hold for the driver's `Ext` without a base64
hypothesis.  (For the real `base64` module this equation remains the assumed contract of an external function; the
correspondence run compares the model decoder with the real one on ~6000 strings per run.)
-/
namespace KeysP
open Keys

theorem b64Val_char : ∀ i : Fin 64, b64Val (b64Char i.val) = some i.val ∧ b64Char i.val ≠ 61 := by decide

theorem u8_ofNat_toNat' (a : UInt8) : UInt8.ofNat a.toNat = a := by simp

/-- one full group: three bytes in, four characters out, three bytes back -/
theorem a2b_group (a b c : UInt8) (rest : Bytes) (l p : Nat) (acc : Bytes) :
    a2bLoop (b64Char (a.toNat / 4) :: b64Char (a.toNat % 4 * 16 + b.toNat / 16)
      :: b64Char (b.toNat % 16 * 4 + c.toNat / 64) :: b64Char (c.toNat % 64) :: rest) 0 l p acc
      = a2bLoop rest 0 0 0 (c :: b :: a :: acc) := by
  have ha := a.toNat_lt; have hb := b.toNat_lt; have hc := c.toNat_lt
  obtain ⟨v0, n0⟩ := b64Val_char ⟨a.toNat / 4, by omega⟩
  obtain ⟨v1, n1⟩ := b64Val_char ⟨a.toNat % 4 * 16 + b.toNat / 16, by omega⟩
  obtain ⟨v2, n2⟩ := b64Val_char ⟨b.toNat % 16 * 4 + c.toNat / 64, by omega⟩
  obtain ⟨v3, n3⟩ := b64Val_char ⟨c.toNat % 64, by omega⟩
  simp only at v0 v1 v2 v3 n0 n1 n2 n3
  rw [a2bLoop, if_neg n0, v0]; simp only
  rw [a2bLoop, if_neg n1, v1]; simp only
  rw [a2bLoop, if_neg n2, v2]; simp only
  rw [a2bLoop, if_neg n3, v3]; simp only
  have e1 : a.toNat / 4 * 4 + (a.toNat % 4 * 16 + b.toNat / 16) / 16 = a.toNat := by omega
  have e2 : (a.toNat % 4 * 16 + b.toNat / 16) % 16 * 16 + (b.toNat % 16 * 4 + c.toNat / 64) / 4 = b.toNat := by omega
  have e3 : (b.toNat % 16 * 4 + c.toNat / 64) % 4 * 64 + c.toNat % 64 = c.toNat := by omega
  rw [e1, e2, e3, u8_ofNat_toNat', u8_ofNat_toNat', u8_ofNat_toNat']

theorem a2b_pad2 (l : Nat) (acc : Bytes) : a2bLoop [61, 61] 2 l 0 acc = some acc.reverse := by simp [a2bLoop]
theorem a2b_pad1 (l : Nat) (acc : Bytes) : a2bLoop [61] 3 l 0 acc = some acc.reverse := by simp [a2bLoop]

theorem a2b_encode (s : Bytes) (l p : Nat) (acc : Bytes) :
    a2bLoop (b64encode s) 0 l p acc = some (acc.reverse ++ s) := by
  induction s using b64encode.induct generalizing l p acc with
  | case1 => simp [b64encode, a2bLoop]
  | case2 a =>
    have ha := a.toNat_lt
    obtain ⟨v0, n0⟩ := b64Val_char ⟨a.toNat / 4, by omega⟩
    obtain ⟨v1, n1⟩ := b64Val_char ⟨a.toNat % 4 * 16, by omega⟩
    simp only at v0 v1 n0 n1
    rw [b64encode, a2bLoop, if_neg n0, v0]; simp only
    rw [a2bLoop, if_neg n1, v1]; simp only
    have e1 : a.toNat / 4 * 4 + a.toNat % 4 * 16 / 16 = a.toNat := by omega
    rw [e1, u8_ofNat_toNat']
    rw [a2b_pad2]
    simp
  | case3 a b =>
    have ha := a.toNat_lt; have hb := b.toNat_lt
    obtain ⟨v0, n0⟩ := b64Val_char ⟨a.toNat / 4, by omega⟩
    obtain ⟨v1, n1⟩ := b64Val_char ⟨a.toNat % 4 * 16 + b.toNat / 16, by omega⟩
    obtain ⟨v2, n2⟩ := b64Val_char ⟨b.toNat % 16 * 4, by omega⟩
    simp only at v0 v1 v2 n0 n1 n2
    rw [b64encode, a2bLoop, if_neg n0, v0]; simp only
    rw [a2bLoop, if_neg n1, v1]; simp only
    rw [a2bLoop, if_neg n2, v2]; simp only
    have e1 : a.toNat / 4 * 4 + (a.toNat % 4 * 16 + b.toNat / 16) / 16 = a.toNat := by omega
    have e2 : (a.toNat % 4 * 16 + b.toNat / 16) % 16 * 16 + b.toNat % 16 * 4 / 4 = b.toNat := by omega
    rw [e1, e2, u8_ofNat_toNat', u8_ofNat_toNat']
    rw [a2b_pad1]
    simp
  | case4 a b c rest ih =>
    rw [b64encode, a2b_group, ih]
    simp

/-- the model of CPython's decoder inverts the encoder -/
theorem b64decodeCPython_encode (d : Bytes) : b64decodeCPython (b64encode d) = some d := by
  unfold b64decodeCPython
  rw [a2b_encode]; rfl

end KeysP
