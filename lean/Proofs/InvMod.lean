import Model.Curve
import Mathlib.Data.Int.GCD
import Mathlib.Data.Int.ModEq
import Mathlib.Data.ZMod.Basic
import Mathlib.Algebra.Field.ZMod
import Mathlib.Data.Nat.Prime.Basic
import Mathlib.Tactic.Ring
import Mathlib.Tactic.Linarith
/-!
# Proofs.InvMod — correctness of the model of `numbertheory.inverse_mod`
-/
namespace InvMod
open Curve

/-- invariant of the extended Euclid loop -/
theorem xgcdAux_spec (a m : ℤ) (r : ℕ) (s : ℤ) (r' : ℕ) (s' : ℤ)
    (h1 : (r : ℤ) ≡ s * a [ZMOD m]) (h2 : (r' : ℤ) ≡ s' * a [ZMOD m]) :
    (xgcdAux r s r' s').1 = Nat.gcd r r' ∧
      ((xgcdAux r s r' s').1 : ℤ) ≡ (xgcdAux r s r' s').2 * a [ZMOD m] := by
  fun_induction xgcdAux r s r' s' with
  | case1 s r' s' => simpa using h2
  | case2 r s r' s' ih =>
    have h3 : ((r' % (r + 1) : ℕ) : ℤ) ≡ (s' - ((r' / (r + 1) : ℕ) : ℤ) * s) * a [ZMOD m] := by
      have e : ((r' % (r + 1) : ℕ) : ℤ) = (r' : ℤ) - ((r' / (r + 1) : ℕ) : ℤ) * ((r + 1 : ℕ) : ℤ) := by
        have := Nat.div_add_mod r' (r + 1)
        have : (((r + 1) * (r' / (r + 1)) + r' % (r + 1) : ℕ) : ℤ) = (r' : ℤ) := by rw [this]
        push_cast at this ⊢
        linarith
      rw [e]
      have := (h2.sub ((Int.ModEq.refl ((r' / (r + 1) : ℕ) : ℤ)).mul h1))
      have e2 : (s' - ((r' / (r + 1) : ℕ) : ℤ) * s) * a = s' * a - ((r' / (r + 1) : ℕ) : ℤ) * (s * a) := by ring
      rw [e2]; exact this
    obtain ⟨g1, g2⟩ := ih h3 h1
    refine ⟨?_, g2⟩
    rw [g1, Nat.succ_eq_add_one, Nat.gcd_rec (r + 1) r']

example : xgcdAux 3 1 11 0 = (1, 4) := by simp [xgcdAux]

example : (xgcdAux 3 1 11 0).1 = Nat.gcd 3 11 ∧
    ((xgcdAux 3 1 11 0).1 : ℤ) ≡ (xgcdAux 3 1 11 0).2 * 3 [ZMOD 11] :=
  xgcdAux_spec 3 11 3 1 11 0 (by decide) (by decide)

/-- the Euclid run started by `powInv` computes `gcd a m` and a Bezout coefficient for `a` -/
theorem xgcd_start (a m : ℤ) (hm : m ≠ 0) :
    (xgcdAux (a % (m.natAbs : ℤ)).toNat 1 m.natAbs 0).1 = Int.gcd a m ∧
      ((xgcdAux (a % (m.natAbs : ℤ)).toNat 1 m.natAbs 0).1 : ℤ) ≡
        (xgcdAux (a % (m.natAbs : ℤ)).toNat 1 m.natAbs 0).2 * a [ZMOD m] := by
  have hn : (m.natAbs : ℤ) ≠ 0 := by simpa using hm
  have hnn : 0 ≤ a % (m.natAbs : ℤ) := Int.emod_nonneg _ hn
  have hdvd : m ∣ (m.natAbs : ℤ) := Int.dvd_natAbs.mpr dvd_rfl
  have h1 : (((a % (m.natAbs : ℤ)).toNat : ℕ) : ℤ) ≡ 1 * a [ZMOD m] := by
    rw [Int.toNat_of_nonneg hnn, one_mul]
    exact Int.emod_emod_of_dvd a hdvd
  have h2 : ((m.natAbs : ℕ) : ℤ) ≡ 0 * a [ZMOD m] := by
    rw [zero_mul]
    exact (Int.modEq_zero_iff_dvd).mpr hdvd
  obtain ⟨g1, g2⟩ := xgcdAux_spec a m _ 1 _ 0 h1 h2
  refine ⟨?_, g2⟩
  rw [g1]
  have e : Int.gcd a m = Int.gcd (a % (m.natAbs : ℤ)) (m.natAbs : ℤ) := by
    rw [Int.gcd_emod]; simp [Int.gcd, Int.natAbs_abs]
  rw [e]
  obtain ⟨k, hk⟩ := Int.eq_ofNat_of_zero_le hnn
  rw [hk]
  simp [Int.gcd, Int.natAbs_abs]

/-- Python `%` agrees with the residue modulo the divisor -/
theorem pmod_modEq (u m : ℤ) : pmod u m ≡ u [ZMOD m] := by
  unfold pmod
  rw [Int.fmod_eq_emod]
  split
  · simpa using Int.mod_modEq u m
  · exact (Int.add_modEq_right).trans (Int.mod_modEq u m)

theorem pmod_range_pos (u m : ℤ) (hm : 0 < m) : 0 ≤ pmod u m ∧ pmod u m < m := by
  unfold pmod
  rw [Int.fmod_eq_emod_of_nonneg u hm.le]
  exact ⟨Int.emod_nonneg _ hm.ne', Int.emod_lt_of_pos _ hm⟩

theorem pmod_range_neg (u m : ℤ) (hm : m < 0) : m < pmod u m ∧ pmod u m ≤ 0 := by
  unfold pmod
  rw [Int.fmod_eq_emod]
  have h0 : 0 ≤ u % m := Int.emod_nonneg _ hm.ne
  have h1 : u % m < -m := by
    have := Int.emod_lt_of_pos u (show 0 < -m by omega)
    rwa [Int.emod_neg] at this
  by_cases hd : m ∣ u
  · rw [if_pos (Or.inr hd), Int.emod_eq_zero_of_dvd hd]; omega
  · rw [if_neg (by rintro (h | h); omega; exact hd h)]
    have : u % m ≠ 0 := fun h => hd (Int.dvd_of_emod_eq_zero h)
    omega

theorem powInv_ok (a m : ℤ) (hm : m ≠ 0) (hg : Int.gcd a m = 1) :
    ∃ r, powInv a m = .ok r ∧ (r * a) ≡ 1 [ZMOD m] ∧
      (0 < m → 0 ≤ r ∧ r < m) ∧ (m < 0 → m < r ∧ r ≤ 0) := by
  obtain ⟨g1, g2⟩ := xgcd_start a m hm
  rw [hg] at g1
  rw [g1] at g2
  refine ⟨pmod ((xgcdAux (a % (m.natAbs : ℤ)).toNat 1 m.natAbs 0).2 % (m.natAbs : ℤ)) m,
    ?_, ?_, pmod_range_pos _ m, pmod_range_neg _ m⟩
  · simp only [powInv, if_neg hm, g1, if_true]
  · have hdvd : m ∣ (m.natAbs : ℤ) := Int.dvd_natAbs.mpr dvd_rfl
    have h1 : pmod ((xgcdAux (a % (m.natAbs : ℤ)).toNat 1 m.natAbs 0).2 % (m.natAbs : ℤ)) m ≡
        (xgcdAux (a % (m.natAbs : ℤ)).toNat 1 m.natAbs 0).2 [ZMOD m] :=
      (pmod_modEq _ m).trans (Int.emod_emod_of_dvd _ hdvd)
    exact (h1.mul_right a).trans (by simpa using g2.symm)

theorem powInv_err (a m : ℤ) (h : m = 0 ∨ Int.gcd a m ≠ 1) : powInv a m = .error .valueError := by
  by_cases hm : m = 0
  · simp [powInv, hm]
  · have hg : Int.gcd a m ≠ 1 := h.resolve_left hm
    obtain ⟨g1, -⟩ := xgcd_start a m hm
    simp only [powInv, if_neg hm, g1, if_neg hg]

example : powInv 3 11 = .ok 4 := by simp [powInv, xgcdAux, pmod]

example : ∃ r, powInv 3 11 = .ok r ∧ (r * 3) ≡ 1 [ZMOD 11] ∧ 0 ≤ r ∧ r < 11 := by
  obtain ⟨r, h1, h2, h3, -⟩ := powInv_ok 3 11 (by decide) (by decide)
  exact ⟨r, h1, h2, h3 (by decide)⟩

example : ∃ r, powInv 3 (-11) = .ok r ∧ (r * 3) ≡ 1 [ZMOD (-11)] ∧ -11 < r ∧ r ≤ 0 := by
  obtain ⟨r, h1, h2, -, h4⟩ := powInv_ok 3 (-11) (by decide) (by decide)
  exact ⟨r, h1, h2, h4 (by decide)⟩

example : powInv 3 (-11) = .ok (-7) := by
  simp [powInv, xgcdAux, pmod]

example : powInv 4 6 = .error .valueError := powInv_err 4 6 (Or.inr (by decide))
example : powInv 4 0 = .error .valueError := powInv_err 4 0 (Or.inl rfl)

/-! ### `inverse_mod` -/

theorem inverseMod_zero (m : ℤ) : inverseMod 0 m = .ok 0 := by simp [inverseMod]

example : inverseMod 0 11 = .ok 0 := inverseMod_zero 11

theorem gcd_prime_of_not_dvd (p : ℕ) (hp : p.Prime) (z : ℤ) (hz : ¬ (p : ℤ) ∣ z) :
    Int.gcd z p = 1 := by
  have h : ¬ p ∣ z.natAbs := fun h => hz (Int.natCast_dvd.mpr h)
  have := (Nat.Prime.coprime_iff_not_dvd hp).mpr h
  rw [Int.gcd_comm]
  simpa [Int.gcd] using this

theorem inverseMod_prime (p : ℕ) (hp : p.Prime) (z : ℤ) (hz : ¬ (p : ℤ) ∣ z) :
    ∃ zi : ℤ, inverseMod z p = .ok zi ∧ 0 ≤ zi ∧ zi < p ∧ (zi * z) % p = 1 := by
  have hz0 : z ≠ 0 := fun h => hz (h ▸ dvd_zero _)
  have hp0 : (0 : ℤ) < p := by exact_mod_cast hp.pos
  obtain ⟨r, h1, h2, h3, -⟩ := powInv_ok z p hp0.ne' (gcd_prime_of_not_dvd p hp z hz)
  refine ⟨r, by simp [inverseMod, hz0, h1], (h3 hp0).1, (h3 hp0).2, ?_⟩
  have h1p : (1 : ℤ) < p := by exact_mod_cast hp.one_lt
  rw [h2, Int.emod_eq_of_lt (by decide) h1p]

example : ∃ zi : ℤ, inverseMod 3 (11 : ℕ) = .ok zi ∧ 0 ≤ zi ∧ zi < (11 : ℕ) ∧ (zi * 3) % (11 : ℕ) = 1 :=
  inverseMod_prime 11 (by decide) 3 (by decide)

theorem inverseMod_prime_cast (p : ℕ) [Fact p.Prime] (z : ℤ) (hz : (z : ZMod p) ≠ 0) :
    ∃ zi : ℤ, inverseMod z p = .ok zi ∧ 0 ≤ zi ∧ zi < p ∧ (zi : ZMod p) = (z : ZMod p)⁻¹ := by
  have hp : p.Prime := Fact.out
  have hd : ¬ (p : ℤ) ∣ z := fun h => hz ((ZMod.intCast_zmod_eq_zero_iff_dvd z p).mpr h)
  obtain ⟨zi, h1, h2, h3, h4⟩ := inverseMod_prime p hp z hd
  refine ⟨zi, h1, h2, h3, eq_inv_of_mul_eq_one_left ?_⟩
  have : ((zi * z : ℤ) : ZMod p) = ((1 : ℤ) : ZMod p) := by
    apply (ZMod.intCast_eq_intCast_iff _ _ _).mpr
    have h1p : (1 : ℤ) < p := by exact_mod_cast hp.one_lt
    show (zi * z) % p = 1 % p
    rw [h4, Int.emod_eq_of_lt (by decide) h1p]
  simpa using this

private theorem fact_prime_11 : Fact (Nat.Prime 11) := ⟨by decide⟩

example : ∃ zi : ℤ, inverseMod 3 (11 : ℕ) = .ok zi ∧ 0 ≤ zi ∧ zi < (11 : ℕ) ∧
    (zi : ZMod 11) = ((3 : ℤ) : ZMod 11)⁻¹ :=
  haveI := fact_prime_11
  inverseMod_prime_cast 11 3 (by decide +revert)

theorem inverseMod_prime_dvd (p : ℕ) (hp : p.Prime) (z : ℤ) (hz0 : z ≠ 0) (hz : (p : ℤ) ∣ z) :
    inverseMod z p = .error .valueError := by
  simp only [inverseMod, if_neg hz0]
  apply powInv_err
  right
  intro h
  have : (p : ℤ) ∣ 1 := by
    have := Int.dvd_gcd hz (dvd_refl (p : ℤ))
    rw [h] at this
    exact_mod_cast this
  have := Int.eq_one_of_dvd_one (by positivity) this
  exact hp.one_lt.ne' (by exact_mod_cast this)

example : inverseMod 22 (11 : ℕ) = .error .valueError :=
  inverseMod_prime_dvd 11 (by decide) 22 (by decide) (by decide)

end InvMod
