import Proofs.ThreadsOps
import Proofs.MulTable
import Proofs.Legacy
/-! # Proofs.ThreadsRep — the hypotheses `ObjOK` of the thread theorems hold for every stored point that denotes an
element of a subgroup without 2-torsion (the C06 / C07 results: `scale_preserves`, `pjEqInf_false`,
`precomputeTable_correct_min`) -/
namespace ThreadProgs
open WeierstrassCurve WeierstrassCurve.Jacobian Curve Jac

variable {p : ℕ} [hp : Fact p.Prime] {a b : ℤ} {H : AddSubgroup (Grp (a : ZMod p) (b : ZMod p))}

/-- canonical pairs of the same group element are equal -/
theorem EntryRep.unique {e e' : ℤ × ℤ} {t : Grp (a : ZMod p) (b : ZMod p)} (h : EntryRep p a b H e t)
    (h' : EntryRep p a b H e' t) : e = e' := by
  obtain ⟨rx, ry, _, hn, he⟩ := h
  obtain ⟨rx', ry', _, hn', he'⟩ := h'
  have e0 := he.trans he'.symm
  rw [Affine.Point.some.injEq] at e0
  have h1 := (InRange.cast_inj rx rx').mp e0.1
  have h2 := (InRange.cast_inj ry ry').mp e0.2
  exact Prod.ext h1 h2

theorem pow_bracket_unique {o : ℤ} {m m' : ℕ} (h1 : 4 * o ≤ 2 ^ m) (h2 : 2 ^ (m - 1) < 4 * o)
    (h1' : 4 * o ≤ 2 ^ m') (h2' : 2 ^ (m' - 1) < 4 * o) (hm : 0 < m) (hm' : 0 < m') : m = m' := by
  by_contra hne
  rcases Nat.lt_or_gt_of_ne hne with hlt | hlt
  · have : (2 : ℤ) ^ m ≤ 2 ^ (m' - 1) := pow_le_pow_right₀ (by norm_num) (by omega)
    omega
  · have : (2 : ℤ) ^ m' ≤ 2 ^ (m - 1) := pow_le_pow_right₀ (by norm_num) (by omega)
    omega

/-- the table built from two stored representations of the same element (same declared order) is the same list -/
theorem precomputeTable_rep_indep (hH : NoOrder2 H) {P P' : PJ} {g} (hP : PJRep p a b H P g) (hP' : PJRep p a b H P' g)
    {o : ℤ} (ho : truthy P.order = some o) (ho' : truthy P'.order = some o) (hpos : 0 < o) :
    ∃ table, precomputeTable P = .ok table ∧ precomputeTable P' = .ok table ∧ table.isEmpty = false := by
  obtain ⟨T, hT, hE, m, hm, hb, hmin⟩ := precomputeTable_correct_min hH hP ho hpos
  obtain ⟨T', hT', hE', m', hm', hb', hmin'⟩ := precomputeTable_correct_min hH hP' ho' hpos
  have hm0 : 0 < m := by
    rcases m with _ | m
    · simp at hb; omega
    · omega
  have hm0' : 0 < m' := by
    rcases m' with _ | m'
    · simp at hb'; omega
    · omega
  have hmm : m = m' := pow_bracket_unique hb hmin hb' hmin' hm0 hm0'
  have hlen : T.length = T'.length := by rw [hm, hm', hmm]
  have heq : T = T' := by
    apply List.ext_getElem hlen
    intro j hj hj'
    exact EntryRep.unique (hE j hj) (hE' j hj')
  subst heq
  refine ⟨T, hT, hT', ?_⟩
  cases T with
  | nil => simp at hm
  | cons x xs => rfl

/-- **`ObjOK` from the C06/C07 theorems**: a shared object whose initial triple is a stored representation
(`Jac.PJRep`: coordinates in [0, p), on the curve, non-identity) of an element of a subgroup `H` without 2-torsion, whose
`cS` is what `scale()` computes, and — for a generator — whose declared order is positive and whose `tF` is what
`_maybe_precompute` computes, satisfies all the hypotheses of the thread theorems -/
theorem objOK_of_rep (hH : NoOrder2 H) (E : Env) (id : Nat) (g : Grp (a : ZMod p) (b : ZMod p))
    (hP : PJRep p a b H (mkPJ (E.info id) (E.c0 id)) g)
    (hS : pjScale (mkPJ (E.info id) (E.c0 id)) = .ok (mkPJ (E.info id) (E.cS id)))
    (hgen : (E.info id).generator = true → ∃ o, truthy (E.info id).order = some o ∧ 0 < o ∧
      precomputeTable (mkPJ (E.info id) (E.c0 id)) = .ok (E.tF id))
    (hnogen : (E.info id).generator = false → E.tF id = []) : ObjOK E id := by
  obtain ⟨S, hS', hSrep, hz, _, _, _⟩ := pjScale_correct hP
  rw [hS] at hS'
  injection hS' with hS'
  subst hS'
  have i0 := pjEqInf_false hP
  have iS := pjEqInf_false hSrep
  refine ⟨hS, hz, ?_, ?_, ?_, hnogen⟩
  · show ((E.c0 id).2.1 == 0 || (E.c0 id).2.2 == 0) = ((E.cS id).2.1 == 0 || (E.cS id).2.2 == 0)
    have e0 : pjEqInf (mkPJ (E.info id) (E.c0 id)) = ((E.c0 id).2.1 == 0 || (E.c0 id).2.2 == 0) := rfl
    have eS : pjEqInf (mkPJ (E.info id) (E.cS id)) = ((E.cS id).2.1 == 0 || (E.cS id).2.2 == 0) := rfl
    rw [← e0, ← eS, i0, iS]
  · have y0 : (E.c0 id).2.1 ≠ 0 := hP.y_ne
    have yS : (E.cS id).2.1 ≠ 0 := hSrep.y_ne
    simp [y0, yS]
  · intro hg
    obtain ⟨o, ho, hpos, ht⟩ := hgen hg
    obtain ⟨T, h1, h2, hne⟩ := precomputeTable_rep_indep hH hP hSrep (o := o) ho ho hpos
    rw [ht] at h1
    injection h1 with h1
    subst h1
    exact ⟨ht, h2, hne⟩

end ThreadProgs
