import Model.NumberTheory
import Model.NumberTheoryExtra
import Generated.RestGuards
import Mathlib.Tactic.CongrExclamation
/-!
# Proofs.NTGuards — guard ties: the tests and integer expressions of the hand-written models of `numbertheory.py` are
the ones `harness/translate/gen_rest.py` extracts from the source on every run (`Generated/RestGuards.lean`, `Gen.Rest.*`)

`square_root_mod_prime`: the model equals the same control flow written over the GENERATED guards (`sqrtG`); `is_prime`:
the pieces the model is built from (my translator, `Gen.NT.*`) coincide with der's independent extraction; `factorization`,
`order_mod`, `largest_factor_relatively_prime`, `phi`, `modular_exp`, `jacobi`, `inverse_mod`: each test of the model is the
generated guard.  A change of a comparison or constant in the source changes `Gen.Rest.*` and breaks these proofs.
-/
namespace NTGuards
open NT NTX Gen.Rest

/-- `square_root_mod_prime` written over the generated guards (`pow`, `jacobi`, the b-loop are the model's) -/
def sqrtG (a p : Int) : Res Int :=
  if !numbertheory_square_root_mod_prime_assert0 a p then .error .assertionError
  else if !numbertheory_square_root_mod_prime_assert1 p then .error .assertionError
  else if numbertheory_square_root_mod_prime_if0 a then .ok 0
  else if numbertheory_square_root_mod_prime_if1 p then .ok a
  else do
    let jac ← jacobi a p
    if numbertheory_square_root_mod_prime_if2 jac then .error .squareRoot
    else if numbertheory_square_root_mod_prime_if3 p then .ok (powMod a (pdiv (p + 1) 4).toNat p)
    else if numbertheory_square_root_mod_prime_if4 p then
      if numbertheory_square_root_mod_prime_if5 (powMod a (pdiv (p - 1) 4).toNat p) then .ok (powMod a (pdiv (p + 3) 8).toNat p)
      else if numbertheory_square_root_mod_prime_if6 (powMod a (pdiv (p - 1) 4).toNat p) p then
        .ok (numbertheory_square_root_mod_prime_ret4 a
          (powMod (numbertheory_square_root_mod_prime_e0 a) (numbertheory_square_root_mod_prime_e1 p).toNat p) p)
      else .error .runtimeError
    else sqrtSearch a p (p - 2).toNat 2

theorem sqrt_guard_tie (a p : Int) : squareRootModPrime a p = sqrtG a p := by
  unfold squareRootModPrime sqrtG
  have e5 : ∀ d : Int, (numbertheory_square_root_mod_prime_if5 d = true) = (d = 1) := by
    intro d; simp [numbertheory_square_root_mod_prime_if5]
  have e6 : ∀ d p : Int, (numbertheory_square_root_mod_prime_if6 d p = true) = (d = p - 1) := by
    intro d p; simp [numbertheory_square_root_mod_prime_if6]
  simp only [e5, e6,numbertheory_square_root_mod_prime_assert0, numbertheory_square_root_mod_prime_assert1,
    numbertheory_square_root_mod_prime_if0, numbertheory_square_root_mod_prime_if1, numbertheory_square_root_mod_prime_if2,
    numbertheory_square_root_mod_prime_if3, numbertheory_square_root_mod_prime_if4,
    numbertheory_square_root_mod_prime_ret4, numbertheory_square_root_mod_prime_e0,
    numbertheory_square_root_mod_prime_e1, pmod, pdiv, Bool.not_eq_true', Bool.and_eq_false_iff, decide_eq_false_iff_not,
    decide_eq_true_eq]
  by_cases h1 : 0 ≤ a <;> by_cases h2 : a < p <;> simp [h1, h2] <;> congr!

/-- the inner search of the p ≡ 1 (mod 8) branch: its test and its two expressions -/
theorem sqrt_search_guards (a p b j : Int) :
    (decide (j = -1) = numbertheory_square_root_mod_prime_if8 j) ∧
    (4 * a = numbertheory_square_root_mod_prime_e2 a) ∧ (pdiv (p + 1) 2 = numbertheory_square_root_mod_prime_e3 p) :=
  ⟨rfl, rfl, rfl⟩

/-- `is_prime`: the pieces of my translator are der's guards -/
theorem is_prime_guard_tie (y n j s r g lg : Int) :
    Gen.NT.mr_enter y n = numbertheory_is_prime_if4 y n ∧
    Gen.NT.mr_loop_cond j s y n = numbertheory_is_prime_while1 j s y n ∧
    Gen.NT.mr_final_fail y n = numbertheory_is_prime_if6 y n ∧
    Gen.NT.mr_gcd_const = numbertheory_is_prime_e1 ∧
    Gen.NT.mr_n_bits lg = numbertheory_is_prime_let2 lg ∧
    (decide (g ≠ 1) = numbertheory_is_prime_if2 g) ∧
    (n - 1 = numbertheory_is_prime_let5 n) ∧
    (decide (pmod r 2 = 0) = numbertheory_is_prime_while0 r) ∧
    (s + 1 = numbertheory_is_prime_let6 s) ∧ (pdiv r 2 = numbertheory_is_prime_let7 r) ∧
    (decide (y = 1) = numbertheory_is_prime_if5 y) ∧ (j + 1 = numbertheory_is_prime_let13 j) :=
  ⟨rfl, rfl, rfl, rfl, by simp [Gen.NT.mr_n_bits, numbertheory_is_prime_let2], rfl, rfl, rfl, rfl, rfl, rfl, rfl⟩

/-- `jacobi`: my pieces vs der's -/
theorem jacobi_guard_tie (a n a1 e s : Int) :
    Gen.NT.jacobi_assert1 a n = numbertheory_jacobi_assert0 n ∧ Gen.NT.jacobi_assert2 a n = numbertheory_jacobi_assert1 n ∧
    Gen.NT.jacobi_loop_cond a1 = numbertheory_jacobi_while0 a1 ∧
    Gen.NT.jacobi_loop_body a1 e = (numbertheory_jacobi_e0 a1, numbertheory_jacobi_e1 e) ∧
    (Int.fmod a n = numbertheory_jacobi_let0 a n) ∧ (Int.fmod n a1 = numbertheory_jacobi_e2 n a1) ∧
    (-s = numbertheory_jacobi_let5 s) :=
  ⟨rfl, rfl, rfl, rfl, rfl, rfl, rfl⟩

/-- `factorization`, `phi`, `order_mod`, `largest_factor_relatively_prime`, `modular_exp`, `inverse_mod` (fallback): tests and
expressions of the models -/
theorem misc_guard_tie (n count m z x result d e low high lm len : Int) :
    (decide (n < 2) = numbertheory_factorization_if0 n) ∧ (count + 1 = numbertheory_factorization_let5 count) ∧
    (count + 1 = numbertheory_factorization_let13 count) ∧ (decide (n > 1) = numbertheory_factorization_if9 n) ∧
    (decide (n < 3) = numbertheory_phi_if0 n) ∧ (decide (len < 1) = numbertheory_carmichael_of_factorized_if0 len) ∧
    (decide (m ≤ 1) = numbertheory_order_mod_if0 m) ∧ (decide (z ≠ 1) = numbertheory_order_mod_while0 z) ∧
    (pmod (z * x) m = numbertheory_order_mod_let2 z x m) ∧ (result + 1 = numbertheory_order_mod_let3 result) ∧
    (decide (d ≤ 1) = numbertheory_largest_factor_relatively_prime_if0 d) ∧
    (decide (e < 0) = numbertheory_modular_exp_if0 e) ∧
    Gen.NT.inv_loop_cond low = numbertheory_inverse_mod_v2_while0 low ∧
    (Gen.NT.inv_loop_body lm low 0 high).2.1 = numbertheory_inverse_mod_v2_e1 high low (numbertheory_inverse_mod_v2_let4 high low) :=
  ⟨rfl, rfl, rfl, rfl, rfl, rfl, rfl, rfl, rfl, rfl, rfl, rfl, rfl, rfl⟩

/-- the models use exactly these tests: `factorization` / `phi` / `order_mod` / `modular_exp` unfold to them -/
theorem models_use_guards (lg : Int → Int) (n x m b e : Int) :
    (factorization lg n = if numbertheory_factorization_if0 n then .ok [] else factorization lg n) ∧
    (phi lg n = if numbertheory_phi_if0 n then .ok 1 else phi lg n) ∧
    (orderMod x m = if numbertheory_order_mod_if0 m then .ok 0 else orderMod x m) ∧
    (modularExp b e m = if numbertheory_modular_exp_if0 e then .negativeExponent else modularExp b e m) := by
  refine ⟨?_, ?_, ?_, ?_⟩
  · by_cases h : n < 2 <;> simp [numbertheory_factorization_if0, h, factorization]
  · by_cases h : n < 3 <;> simp [numbertheory_phi_if0, h, phi]
  · by_cases h : m ≤ 1 <;> simp [numbertheory_order_mod_if0, h, orderMod]
  · by_cases h : e < 0 <;> simp [numbertheory_modular_exp_if0, h, modularExp]

end NTGuards
