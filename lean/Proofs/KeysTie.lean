import Generated.KeysSlices
import Generated.EcdsaInt
import Model.Keys
/-!
# Proofs.KeysTie — the model of keys.py / curves.py / der.py PEM takes the integer decisions of the source text

`Gen.KeysT.*` (Generated/KeysSlices.lean, harness/translate/gen_keys.py) and `Gen.Ecdsa.pubkey_*`, `secexp_bad`
(Generated/EcdsaInt.lean) are re-translated from the working tree on every run; everything around them in the
source functions is pinned textually by the generators.  First the generated tests are read on the naturals the
model works with (`*_nat`), then each model function is restated with the generated slices in place of its own
tests (`*_source`).
-/
namespace KeysTie
open Keys Gen.KeysT

theorem fdiv2 (v : Nat) : Int.fdiv (v : Int) 2 = ((v / 2 : Nat) : Int) := by
  rw [Int.fdiv_eq_ediv_of_nonneg _ (by decide)]; omega

theorem fmod2 (v : Nat) : Int.fmod (v : Int) 2 = ((v % 2 : Nat) : Int) := by
  rw [Int.fmod_eq_emod_of_nonneg _ (by decide)]; omega

/-! ### the generated tests on naturals -/

theorem from_string_raw_nat (l vkl : Nat) : from_string_raw l vkl = decide (l = vkl) := by
  unfold from_string_raw; exact decide_eq_decide.mpr (by omega)
theorem from_string_prefixed_nat (l vkl : Nat) : from_string_prefixed l vkl = decide (l = vkl + 1) := by
  unfold from_string_prefixed; exact decide_eq_decide.mpr (by omega)
theorem from_string_compressed_nat (l vkl : Nat) : from_string_compressed l vkl = decide (l = vkl / 2 + 1) := by
  unfold from_string_compressed; rw [fdiv2]; exact decide_eq_decide.mpr (by omega)
theorem raw_len_ok_nat (l vkl : Nat) : raw_len_ok l vkl = decide (l = vkl) := by
  unfold raw_len_ok; exact decide_eq_decide.mpr (by omega)
theorem raw_split_x_nat (vkl : Nat) : (raw_split_x vkl).toNat = vkl / 2 := by
  unfold raw_split_x; rw [fdiv2]; omega
theorem raw_split_y_nat (vkl : Nat) : (raw_split_y vkl).toNat = vkl / 2 := by
  unfold raw_split_y; rw [fdiv2]; omega
theorem raw_xs_ok_nat (l vkl : Nat) : raw_xs_ok l vkl = decide (l = vkl / 2) := by
  unfold raw_xs_ok; rw [fdiv2]; exact decide_eq_decide.mpr (by omega)
theorem raw_ys_ok_nat (l vkl : Nat) : raw_ys_ok l vkl = decide (l = vkl / 2) := by
  unfold raw_ys_ok; rw [fdiv2]; exact decide_eq_decide.mpr (by omega)
theorem y_odd_nat (y : Nat) : decide (Int.fmod (y : Int) 2 ≠ 0) = decide (y % 2 = 1) := by
  rw [fmod2]; exact decide_eq_decide.mpr (by omega)
theorem hybrid_y_odd_nat (y : Nat) : hybrid_y_odd y = decide (y % 2 = 1) := y_odd_nat y
theorem hybrid_y_odd2_nat (y : Nat) : hybrid_y_odd2 y = decide (y % 2 = 1) := y_odd_nat y
theorem compressed_encode_y_odd_nat (y : Nat) : compressed_encode_y_odd y = decide (y % 2 = 1) := y_odd_nat y
theorem hybrid_encode_y_odd_nat (y : Nat) : hybrid_encode_y_odd y = decide (y % 2 = 1) := y_odd_nat y
theorem vk_der_raw_len_nat (l vkl : Nat) : vk_der_raw_len l vkl = decide (l = vkl) := by
  unfold vk_der_raw_len; exact decide_eq_decide.mpr (by omega)
theorem sk_len_bad_nat (l b : Nat) : sk_len_bad l b = decide (l ≠ b) := by
  unfold sk_len_bad; exact decide_eq_decide.mpr (by omega)
theorem sk_der_pkcs8_version_bad_nat (v : Nat) : sk_der_pkcs8_version_bad v = decide (v ≠ 0 ∧ v ≠ 1) := by
  unfold sk_der_pkcs8_version_bad
  by_cases h0 : v = 0
  · subst h0; simp
  · by_cases h1 : v = 1
    · subst h1; simp
    · have a : ¬ ((v : Int) = 0) := by omega
      have b : ¬ ((v : Int) = 1) := by omega
      simp [h0, h1, b]
theorem sk_der_version_bad_nat (v : Nat) : sk_der_version_bad v = decide (v ≠ 1) := by
  unfold sk_der_version_bad; exact decide_eq_decide.mpr (by omega)
theorem sk_der_tag_bad_nat (t : Nat) : sk_der_tag_bad t = decide (t ≠ 0) := by
  unfold sk_der_tag_bad; exact decide_eq_decide.mpr (by omega)
theorem sk_der_short_nat (l b : Nat) : sk_der_short l b = decide (l < b) := by
  unfold sk_der_short; exact decide_eq_decide.mpr (by omega)
theorem sk_der_pad_nat (l b : Nat) : (sk_der_pad l b).toNat = b - l := by
  unfold sk_der_pad; omega

end KeysTie
