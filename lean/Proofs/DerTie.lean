import Generated.DerGuards
import Proofs.DerSkel
import Proofs.DerDigits
/-!
# Proofs.DerTie — the tests and integer expressions of the model `Model/Der.lean` are the ones
`harness/translate/gen_der.py` extracts from the current `src/ecdsa/der.py` (`Generated/DerGuards.lean`).

Bytes are quantified exhaustively (`forall_u8` + kernel evaluation), lengths and numbers over all of ℕ.
-/
set_option linter.unusedSimpArgs false
namespace C11.Tie
open Gen.Der Der

theorem skeleton :
    skel_encode_constructed = Der.Skel.encode_constructed ∧ skel_encode_integer = Der.Skel.encode_integer
    ∧ skel_encode_bitstring = Der.Skel.encode_bitstring ∧ skel_encode_octet_string = Der.Skel.encode_octet_string
    ∧ skel_encode_oid = Der.Skel.encode_oid ∧ skel_encode_sequence = Der.Skel.encode_sequence
    ∧ skel_encode_number = Der.Skel.encode_number ∧ skel_is_sequence = Der.Skel.is_sequence
    ∧ skel_remove_constructed = Der.Skel.remove_constructed ∧ skel_remove_sequence = Der.Skel.remove_sequence
    ∧ skel_remove_octet_string = Der.Skel.remove_octet_string ∧ skel_remove_object = Der.Skel.remove_object
    ∧ skel_remove_integer = Der.Skel.remove_integer ∧ skel_read_number = Der.Skel.read_number
    ∧ skel_encode_length = Der.Skel.encode_length ∧ skel_read_length = Der.Skel.read_length
    ∧ skel_remove_bitstring = Der.Skel.remove_bitstring ∧ skel_str_idx_as_int = Der.Skel.str_idx_as_int :=
  ⟨rfl, rfl, rfl, rfl, rfl, rfl, rfl, rfl, rfl, rfl, rfl, rfl, rfl, rfl, rfl, rfl, rfl, rfl⟩

theorem pand_nat (a b : Nat) : pand (a : Int) (b : Int) = ((a &&& b : Nat) : Int) := by simp [pand]
theorem por_nat (a b : Nat) : por (a : Int) (b : Int) = ((a ||| b : Nat) : Int) := by simp [por]

/-! ### the shared buffer test and slice bounds -/

theorem tooLong_eq (length : Nat) (s : Bytes) (llen : Nat) :
    tooLong length s llen = remove_integer_if2 length s.length llen
    ∧ tooLong length s llen = remove_octet_string_if2 length s.length llen
    ∧ tooLong length s llen = remove_sequence_if2 length s.length llen
    ∧ tooLong length s llen = remove_constructed_if2 length s.length llen
    ∧ tooLong length s llen = remove_bitstring_if4 length s.length llen :=
  ⟨rfl, rfl, rfl, rfl, rfl⟩

theorem slice_bounds (llen length : Nat) :
    ((1 + llen : Nat) : Int) = remove_integer_e0 llen ∧ ((1 + llen + length : Nat) : Int) = remove_integer_e1 llen length
    ∧ ((1 + llen + length : Nat) : Int) = remove_integer_e2 llen length
    ∧ ((1 + llen : Nat) : Int) = remove_octet_string_e0 llen ∧ ((1 + llen + length : Nat) : Int) = remove_octet_string_e1 llen length
    ∧ ((1 + llen + length : Nat) : Int) = remove_octet_string_e2 llen length
    ∧ ((1 + llen : Nat) : Int) = remove_sequence_e0 llen ∧ ((1 + llen + length : Nat) : Int) = remove_sequence_let2 llen length
    ∧ ((1 + llen : Nat) : Int) = remove_constructed_e0 llen ∧ ((1 + llen + length : Nat) : Int) = remove_constructed_e1 llen length
    ∧ ((1 + llen + length : Nat) : Int) = remove_constructed_e2 llen length
    ∧ ((1 + llen : Nat) : Int) = remove_object_e0 llen ∧ ((1 + llen + length : Nat) : Int) = remove_object_e1 llen length
    ∧ ((1 + llen + length : Nat) : Int) = remove_object_e2 llen length
    ∧ ((1 + llen : Nat) : Int) = remove_bitstring_e0 llen ∧ ((1 + llen + length : Nat) : Int) = remove_bitstring_e1 llen length
    ∧ ((1 + llen + length : Nat) : Int) = remove_bitstring_e2 llen length := by
  simp only [remove_integer_e0, remove_integer_e1, remove_integer_e2, remove_octet_string_e0, remove_octet_string_e1,
    remove_octet_string_e2, remove_sequence_e0, remove_sequence_let2, remove_constructed_e0, remove_constructed_e1,
    remove_constructed_e2, remove_object_e0, remove_object_e1, remove_object_e2, remove_bitstring_e0,
    remove_bitstring_e1, remove_bitstring_e2]
  omega

/-! ### length -/

theorem read_length_bytes : ∀ num : UInt8,
    decide (num &&& 0x80 = 0) = read_length_if1 num.toNat
    ∧ ((num &&& 0x7f).toNat : Int) = read_length_ret0 num.toNat
    ∧ ((num &&& 0x7f).toNat : Int) = read_length_let1 num.toNat := by
  apply forall_u8; decide +kernel

theorem read_length_minimal : ∀ msb : UInt8, ∀ llen : Nat,
    decide (msb = 0 ∨ (llen = 1 ∧ msb < 0x80)) = read_length_if4 msb.toNat llen := by
  intro msb llen
  have h1 : msb = 0 ↔ msb.toNat = 0 := u8_eq_zero_iff msb
  have h2 : msb < 0x80 ↔ msb.toNat < 128 := u8_lt_iff msb 0x80
  simp only [read_length_if4, h1, h2]
  by_cases a : msb.toNat = 0 <;> by_cases b : llen = 1 <;> by_cases c : msb.toNat < 128 <;> simp [a, b, c] <;> omega

theorem read_length_nat (llen restlen : Nat) :
    decide (llen = 0) = read_length_if2 llen
    ∧ decide (llen > restlen) = read_length_if3 llen ((restlen + 1 : Nat) : Int)
    ∧ ((1 + llen : Nat) : Int) = read_length_ret3 llen := by
  simp only [read_length_if2, read_length_if3, read_length_ret3]
  refine ⟨?_, ?_, by omega⟩
  · by_cases a : llen = 0 <;> simp [a]
  · by_cases a : llen > restlen
    · simp [a] <;> omega
    · simp [a] <;> omega

theorem encode_length_guards (l llen : Nat) :
    decide ((l : Int) ≥ 0) = encode_length_assert0 l
    ∧ decide (l < 0x80) = encode_length_if0 l
    ∧ ((0x80 ||| llen : Nat) : Int) = encode_length_e0 llen := by
  simp only [encode_length_assert0, encode_length_if0, encode_length_e0]
  refine ⟨by first | rfl | trivial | simp, ?_, ?_⟩
  · by_cases a : l < 0x80 <;> simp [a] <;> omega
  · exact (por_nat 128 llen).symm

/-! ### INTEGER -/

theorem encode_integer_guards (r : Int) (lens : Nat) :
    decide (r ≥ 0) = encode_integer_assert0 r ∧ ((lens + 1 : Nat) : Int) = encode_integer_e0 lens := by
  simp only [encode_integer_assert0, encode_integer_e0]; exact ⟨by first | rfl | trivial | simp, by omega⟩

theorem integer_bytes : ∀ b : UInt8,
    decide (b ≤ 0x7f) = encode_integer_if1 b.toNat
    ∧ decide (¬ b < 0x80) = remove_integer_if4 b.toNat
    ∧ decide (b < 0x80) = remove_integer_if6 b.toNat := by
  apply forall_u8; decide +kernel

theorem remove_integer_guards (length : Nat) (msb : UInt8) :
    decide (length = 0) = remove_integer_if3 length
    ∧ decide (length > 1 ∧ msb = 0) = remove_integer_if5 length msb.toNat := by
  have h1 : msb = 0 ↔ msb.toNat = 0 := u8_eq_zero_iff msb
  simp only [remove_integer_if3, remove_integer_if5, h1]
  refine ⟨?_, ?_⟩
  · by_cases a : length = 0 <;> simp [a]
  · by_cases a : length > 1 <;> by_cases b : msb.toNat = 0 <;> simp [a, b] <;> omega

/-! ### constructed -/

theorem constructed_bytes : ∀ s0 : UInt8,
    decide (s0 &&& 0xE0 ≠ 0xA0) = remove_constructed_if1 s0.toNat
    ∧ ((s0 &&& 0x1F).toNat : Int) = remove_constructed_let1 s0.toNat := by
  apply forall_u8; decide +kernel

theorem encode_constructed_tag (tag : Int) : (0xA0 + tag) = encode_constructed_e0 tag := rfl

/-! ### base-128 numbers and OID -/

theorem number_bytes : ∀ d : UInt8,
    decide (d = 0x80) = read_number_if1 d.toNat
    ∧ decide (d &&& 0x80 = 0) = read_number_if3 d.toNat := by
  apply forall_u8; decide +kernel

theorem read_number_step (number : Nat) (d : UInt8) :
    ((number <<< 7 : Nat) : Int) = read_number_let2 number
    ∧ (((number <<< 7) + (d &&& 0x7F).toNat : Nat) : Int) = read_number_let4 (number <<< 7 : Nat) d.toNat := by
  refine ⟨?_, ?_⟩
  · simp only [read_number_let2, Nat.shiftLeft_eq]; norm_cast
  · simp only [read_number_let4, pand_nat]
    have : ((127 : Int)) = ((127 : Nat) : Int) := rfl
    rw [this, pand_nat, UInt8.toNat_and]
    norm_cast

theorem encode_number_step (n : Nat) :
    ((((n &&& 0x7F) ||| 0x80 : Nat)) : Int) = encode_number_e0 n
    ∧ ((n >>> 7 : Nat) : Int) = encode_number_let1 n := by
  refine ⟨?_, ?_⟩
  · simp only [encode_number_e0]
    have h1 : ((127 : Int)) = ((127 : Nat) : Int) := rfl
    have h2 : ((128 : Int)) = ((128 : Nat) : Int) := rfl
    rw [h1, h2, pand_nat, por_nat]
  · simp only [encode_number_let1, Nat.shiftRight_eq_div_pow]
    rw [Int.fdiv_eq_ediv_of_nonneg _ (by decide)]
    norm_cast

theorem oid_arcs (n0 : Nat) :
    decide (n0 < 80) = remove_object_if4 n0
    ∧ ((n0 / 40 : Nat) : Int) = remove_object_let8 n0
    ∧ ((n0 - 40 * (if n0 < 80 then n0 / 40 else 2) : Nat) : Int)
        = remove_object_let10 n0 ((if n0 < 80 then n0 / 40 else 2 : Nat) : Int) := by
  simp only [remove_object_if4, remove_object_let8, remove_object_let10]
  refine ⟨?_, ?_, ?_⟩
  · by_cases a : n0 < 80 <;> simp [a] <;> omega
  · rw [Int.fdiv_eq_ediv_of_nonneg _ (by decide)]; norm_cast
  · split <;> omega

theorem oid_length_test (lenbody length : Nat) : decide (lenbody ≠ length) = remove_object_if3 lenbody length := by
  simp only [remove_object_if3]
  by_cases a : lenbody = length <;> simp [a] <;> omega

theorem encode_oid_guards (first second : Int) :
    decide ((0 ≤ first ∧ first < 2 ∧ 0 ≤ second ∧ second ≤ 39) ∨ (first = 2 ∧ 0 ≤ second)) = encode_oid_assert0 first second
    ∧ 40 * first + second = encode_oid_e0 first second := by
  refine ⟨?_, rfl⟩
  simp only [encode_oid_assert0]
  by_cases a : 0 ≤ first <;> by_cases b : first < 2 <;> by_cases c : 0 ≤ second <;> by_cases d : second ≤ 39
    <;> by_cases e : first = 2 <;> simp [a, b, c, d, e] <;> omega

/-! ### BIT STRING -/

theorem unused_range (u : Int) (un : Nat) :
    decide (¬ (0 ≤ u ∧ u ≤ 7)) = encode_bitstring_if2 u
    ∧ decide (¬ un ≤ 7) = remove_bitstring_if6 un := by
  simp only [encode_bitstring_if2, remove_bitstring_if6]
  refine ⟨?_, ?_⟩
  · by_cases a : 0 ≤ u <;> by_cases b : u ≤ 7 <;> simp [a, b]
  · by_cases b : un ≤ 7 <;> simp [b] <;> omega

theorem pad_bits : ∀ last : UInt8, ∀ u : Fin 8,
    padBits last u.val = encode_bitstring_if5 last.toNat u.val
    ∧ padBits last u.val = remove_bitstring_if10 last.toNat u.val := by
  apply forall_u8; decide +kernel

theorem bitstring_length (length lens lenextra : Nat) :
    decide (length = 0) = remove_bitstring_if3 length
    ∧ ((lens + lenextra : Nat) : Int) = encode_bitstring_e0 lens lenextra := by
  simp only [remove_bitstring_if3, encode_bitstring_e0]
  refine ⟨?_, by omega⟩
  by_cases a : length = 0 <;> simp [a]

end C11.Tie
