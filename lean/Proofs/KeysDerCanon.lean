import Proofs.KeysPem
/-!
# Proofs.KeysDerCanon — an accepted DER public key *is* the canonical SubjectPublicKeyInfo of a table curve
-/
namespace KeysP
open Keys Asn1Spec

theorem bind_ok {α β : Type} {x : Res α} {f : α → Res β} {b : β} (h : (x >>= f) = .ok b) :
    ∃ a, x = .ok a ∧ f a = .ok b := by
  cases x with
  | error e' => simp only [bind, Except.bind] at h; cases h
  | ok a => exact ⟨a, rfl, h⟩

/-- an accepted point string has one of the three lengths -/
theorem fromString_ok_length (E : Ext) (c : Curve) (s : Bytes) (v : Bool) (k : VK) (h : VK.fromString E c s v = .ok k) :
    s.length ≤ 2 * Util.orderlen c.p + 1 := by
  by_contra hlen
  have hl := orderlen_pos c.p
  unfold VK.fromString at h
  rw [decodePoint_badlen E c s v (by omega) (by omega) (by omega)] at h
  cases h

/-- reading an OID gives back exactly the bytes `encode_oid` writes for the arcs read -/
theorem removeObject_ok_enc {s rest : Bytes} {arcs : List Nat} (h : Der.removeObject s = .ok (arcs, rest)) :
    ∃ e, encodeOidList arcs = .ok e ∧ s = e ++ rest := by
  obtain ⟨first, second, pieces, ha, hd, hl, hs⟩ := Der.removeObject_ok h
  subst ha
  exact ⟨_, Der.encodeOid_eq first second pieces hd hl, hs⟩

/-- **accepted ⇒ canonical SPKI**: the input is byte for byte the DER of
`SEQUENCE { SEQUENCE { id-ecPublicKey, <OID of a table curve> }, BIT STRING (0 unused bits) pt }`, `pt` is not of the raw
length, and the key is what `from_string` makes of `pt` -/
theorem vk_fromDer_ok (E : Ext) (s : Bytes) (k : VK) (h : VK.fromDer E s = .ok k) :
    ∃ c : Curve, c ∈ Gen.curveTable ∧ ∃ pt : Bytes, s = (spki c.oid pt).enc ∧ pt.length ≠ c.vkLen ∧
      VK.fromString E c pt true = .ok k := by
  unfold VK.fromDer at h
  obtain ⟨⟨s1, empty⟩, h1, h⟩ := bind_ok h
  simp only at h
  split at h
  · cases h
  rename_i he1
  simp only [ne_eq, not_not] at he1
  obtain ⟨⟨s2, bitstr⟩, h2, h⟩ := bind_ok h
  simp only at h
  obtain ⟨⟨oidPk, rest⟩, h3, h⟩ := bind_ok h
  simp only at h
  obtain ⟨⟨oidCurve, empty2⟩, h4, h⟩ := bind_ok h
  simp only at h
  split at h
  · cases h
  rename_i he2
  simp only [ne_eq, not_not] at he2
  split at h
  · cases h
  rename_i hpk
  simp only [ne_eq, not_not] at hpk
  obtain ⟨curve, h5, h⟩ := bind_ok h
  obtain ⟨⟨pointStr, o, empty3⟩, h6, h⟩ := bind_ok h
  simp only at h
  split at h
  · cases h
  rename_i he3
  simp only [ne_eq, not_not] at he3
  split at h
  · cases h
  rename_i hraw
  obtain ⟨hcm, hco⟩ := findCurve_ok h5
  -- reassemble the input
  obtain ⟨q1, _⟩ := Der.removeSequence_ok h1
  obtain ⟨q2, _⟩ := Der.removeSequence_ok h2
  obtain ⟨e1, he1', q3⟩ := removeObject_ok_enc h3
  obtain ⟨e2, he2', q4⟩ := removeObject_ok_enc h4
  obtain ⟨_, _, _, _, _, q5⟩ := Der.removeBitstring_some_ok h6
  rw [he1, List.append_nil] at q1
  rw [he2, List.append_nil] at q4
  rw [he3, List.append_nil] at q5
  rw [hpk, encodeOid_ecPublicKey_spec] at he1'
  have := ok_inj he1'; subst this
  have hte := table_encodedOid _ hcm
  unfold Curve.encodedOid at hte
  rw [← hco, hte] at he2'
  have := ok_inj he2'; subst this
  have hptl : pointStr.length ≤ 133 := by
    have := fromString_ok_length E curve pointStr true k h
    have := (table_orderlen_le _ hcm).1
    omega
  refine ⟨curve, hcm, pointStr, ?_, hraw, h⟩
  rw [(spki_shape curve hcm pointStr hptl).1, q1, q2, q3, q4, q5]
  simp [Der.encodeSequence]

end KeysP
