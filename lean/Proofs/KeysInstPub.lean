import Proofs.KeysInst
import Proofs.NamedCurves
/-!
# Proofs.KeysInstPub — discharging the public-point hypotheses for the composed model

For every row of the generated curve table, with `p` and `n` prime: `(generator * d).scale()` computed by the
point-arithmetic model (`KeysWire.pubPointModel` = `Curve.pjMul` on the generator object, table path, then `pjScale`) is,
for every `1 ≤ d < n`, a point with coordinates in `[0, p)` — never INFINITY, never an exception — that satisfies the
curve equation and passes the model's subgroup test.  This is C07's `mul` theorem through `GroupInterface` on the
context `Named.baseCtx` (order of the base point checked by the kernel), plus: `n` prime and `G ≠ 0` give `d • G ≠ 0`.
-/
namespace KeysP
open Keys Curve Jac GroupInterface WeierstrassCurve

theorem onCurve_eq_containsPoint (r : Gen.CurveRow) (x y : Int) :
    onCurve r x y = Curve.containsPoint (KeysWire.curveFp r) x y := by
  simp only [onCurve, Gen.Keys.contains_point, Curve.containsPoint, pmod, KeysWire.curveFp]
  by_cases h : (y * y - ((x * x + r.a) * x + r.b)).fmod (r.p : ℤ) = 0
  · simp [h]
  · simp [h]

/-- an in-range affine point of ⟨G⟩ is on the curve and passes the model's `n * point == INFINITY` -/
theorem valid_of_mem (r : Gen.CurveRow) [Fact r.p.Prime] (K : Named.Checked r) (hn : r.n.Prime) (X Y : ℤ)
    (hx : 0 ≤ X ∧ X < r.p) (hy : 0 ≤ Y ∧ Y < r.p)
    (hns : (shortW ((r.a : ℤ) : ZMod r.p) ((r.b : ℤ) : ZMod r.p)).toAffine.Nonsingular (X : ZMod r.p) (Y : ZMod r.p))
    (hm : Affine.Point.some _ _ hns ∈ (Named.baseCtx r K).H) :
    onCurve r X Y = true ∧ KeysWire.subgroupOkModel r X.toNat Y.toNat = true := by
  have M := Named.matches_row K hn
  have hc : Jac.OnCurve r.p r.a r.b (KeysWire.curveFp r) := ⟨rfl, rfl, rfl⟩
  constructor
  · rw [onCurve_eq_containsPoint]; exact Jac.containsPoint_of hc hns
  · have hP := pjRep_of_coords (Named.baseCtx r K).n2t (KeysWire.curveFp r) hc X Y hx hy hns hm (some (r.n : ℤ)) false
    obtain ⟨R, hR, hrep⟩ := GroupInterface.mul M.hp2 (Named.baseCtx r K) hP (Or.inl rfl) (r.n : ℤ)
    have h0 : (r.n : ℤ) • Affine.Point.some _ _ hns = 0 := (Named.baseCtx r K).order_annihilates hm
    rw [h0] at hrep
    have hinf := (GroupInterface.eq_infinity_iff (Named.baseCtx r K) hrep).mpr rfl
    unfold KeysWire.subgroupOkModel
    rw [Int.toNat_of_nonneg hx.1, Int.toNat_of_nonneg hy.1, hR]
    exact hinf

/-- **the public key of every `d ∈ [1, n-1]`** in the composed model: exists, has reduced coordinates, is a valid point -/
theorem pubKey_model (r : Gen.CurveRow) (hr : r ∈ Gen.curveTable) [Fact r.p.Prime] (hn : r.n.Prime) (d : Nat)
    (h1 : 1 ≤ d) (h2 : d < r.n) :
    ∃ x y : Nat, KeysWire.pubPointModel r d = some ((x : Int), (y : Int)) ∧ ValidPoint KeysWire.modelExt r x y := by
  have K := Named.checked_of_mem hr
  have M := Named.matches_row K hn
  have hG : PJRep r.p r.a r.b (Named.baseCtx r K).H ⟨KeysWire.curveFp r, r.gx, r.gy, 1, some r.n, true⟩
      (Named.baseCtx r K).G := M.genRep
  obtain ⟨R, hR, hrep⟩ := GroupInterface.mul M.hp2 (Named.baseCtx r K) hG (Or.inl rfl) (d : ℤ)
  have hG0 : (Named.baseCtx r K).G ≠ 0 := by
    rcases result_cases (R := .jac ⟨KeysWire.curveFp r, r.gx, r.gy, 1, some r.n, true⟩) hG with
      ⟨h, _⟩ | ⟨_, _, _, h⟩ | ⟨_, h, _⟩
    · cases h
    · exact h
    · cases h
  have hnG : r.n • (Named.baseCtx r K).G = 0 := by
    have := (Named.baseCtx r K).hn
    rwa [show (Named.baseCtx r K).n = (r.n : ℤ) from rfl, natCast_zsmul] at this
  haveI := Fact.mk hn
  have hord : addOrderOf (Named.baseCtx r K).G = r.n := addOrderOf_eq_prime hnG hG0
  have hne : (d : ℤ) • (Named.baseCtx r K).G ≠ 0 := by
    rw [natCast_zsmul]
    intro h0
    have := addOrderOf_dvd_of_nsmul_eq_zero h0
    rw [hord] at this
    have := Nat.le_of_dvd (by omega) this
    omega
  have hmem : (d : ℤ) • (Named.baseCtx r K).G ∈ (Named.baseCtx r K).H := (Named.baseCtx r K).smul_mem d
  -- from in-range integer coordinates denoting d • G to the claim
  have fin : ∀ X Y : ℤ, (0 ≤ X ∧ X < r.p) → (0 ≤ Y ∧ Y < r.p) →
      (∃ hns : (shortW ((r.a : ℤ) : ZMod r.p) ((r.b : ℤ) : ZMod r.p)).toAffine.Nonsingular (X : ZMod r.p) (Y : ZMod r.p),
        (d : ℤ) • (Named.baseCtx r K).G = Affine.Point.some _ _ hns) →
      ∃ x y : Nat, (some (X, Y) : Option (Int × Int)) = some ((x : Int), (y : Int)) ∧ ValidPoint KeysWire.modelExt r x y := by
    intro X Y hx hy ⟨hns, hg⟩
    have hm : Affine.Point.some _ _ hns ∈ (Named.baseCtx r K).H := by rw [← hg]; exact hmem
    obtain ⟨v1, v2⟩ := valid_of_mem r K hn X Y hx hy hns hm
    refine ⟨X.toNat, Y.toNat, by rw [Int.toNat_of_nonneg hx.1, Int.toNat_of_nonneg hy.1], ?_, ?_, ?_, ?_⟩
    · have := hx.2; have := hx.1; omega
    · have := hy.2; have := hy.1; omega
    · rw [Int.toNat_of_nonneg hx.1, Int.toNat_of_nonneg hy.1]; exact v1
    · intro _; exact v2
  unfold KeysWire.pubPointModel
  rw [hR]
  rcases result_cases hrep with ⟨_, h0⟩ | ⟨J, hJ, hJrep, _⟩ | ⟨A, hA, hArep, _⟩
  · exact absurd h0 hne
  · subst hJ
    obtain ⟨S, hS, hSrep, hz, _⟩ := GroupInterface.scale hJrep
    obtain ⟨x, y, ex, ey, x0, x1, y0, y1, hns, hg⟩ := GroupInterface.xy hSrep
    have exS : pjX S = .ok S.x := by unfold pjX; rw [if_pos hz]
    have eyS : pjY S = .ok S.y := by unfold pjY; rw [if_pos hz]
    rw [exS] at ex; rw [eyS] at ey
    injection ex with ex; injection ey with ey
    subst ex ey
    simp only [hS]
    exact fin S.x S.y ⟨x0, x1⟩ ⟨y0, y1⟩ ⟨hns, hg⟩
  · subst hA
    obtain ⟨_, hx, hy, _, hns, hg⟩ := hArep
    simp only
    exact fin A.x A.y hx hy ⟨hns, hg.symm⟩

/-- hence `PubSpec` and well-formed signing keys for every scalar -/
theorem pubSpec_model (r : Gen.CurveRow) (hr : r ∈ Gen.curveTable) [Fact r.p.Prime] (hn : r.n.Prime) :
    PubSpec KeysWire.modelExt r := by
  intro d h1 h2
  obtain ⟨x, y, hp, hv⟩ := pubKey_model r hr hn d h1 h2
  exact ⟨x, y, hp, hv.1, hv.2.1⟩

end KeysP
