import Proofs.KeysPoint
/-!
# Proofs.KeysString — `VerifyingKey.from_string`: accepted ⇔ SEC 1 encoding of a valid point; rejections are
`MalformedPointError`
-/
namespace KeysP
open Keys

/-- `s` is one of the four encodings of the coordinate pair `(x, y)` at coordinate length `l`
(format only: lengths, prefix byte, big-endian coordinates, parity rule).  The compressed form carries `x` and the
parity of `y`; that `y` is a square root is the curve-equation conjunct of `ValidPoint`.  For `l = 1` a 2-byte
string is read as the raw form (the code tests the raw length first). -/
def Encodes (l : Nat) (s : Bytes) (x y : Nat) : Prop :=
  (s.length = 2 * l ∧ x = beVal (s.take l) ∧ y = beVal (s.drop l)) ∨
  (s.length = 2 * l + 1 ∧ s.take 1 = [0x04] ∧ x = beVal ((s.drop 1).take l) ∧ y = beVal ((s.drop 1).drop l)) ∨
  (s.length = 2 * l + 1 ∧ ((s.take 1 = [0x06] ∧ y % 2 = 0) ∨ (s.take 1 = [0x07] ∧ y % 2 = 1)) ∧
      x = beVal ((s.drop 1).take l) ∧ y = beVal ((s.drop 1).drop l)) ∨
  (s.length = l + 1 ∧ s.length ≠ 2 * l ∧ ((s.take 1 = [0x02] ∧ y % 2 = 0) ∨ (s.take 1 = [0x03] ∧ y % 2 = 1)) ∧
      x = beVal (s.drop 1))

theorem vkLen_eq (c : Curve) : c.vkLen = 2 * Util.orderlen c.p := rfl
theorem vkLen_half (c : Curve) : c.vkLen / 2 = Util.orderlen c.p := by rw [vkLen_eq]; omega

theorem fromRawEncoding_ok (c : Curve) (s : Bytes) (h : s.length = 2 * Util.orderlen c.p) :
    fromRawEncoding c s = .ok (beVal (s.take (Util.orderlen c.p)), beVal (s.drop (Util.orderlen c.p))) := by
  have hl := orderlen_pos c.p
  unfold fromRawEncoding
  rw [vkLen_half, vkLen_eq]
  have e1 : ¬ (s.length ≠ 2 * Util.orderlen c.p) := by omega
  have e2 : ¬ ((s.take (Util.orderlen c.p)).length ≠ Util.orderlen c.p) := by rw [List.length_take]; omega
  have e3 : ¬ ((s.drop (Util.orderlen c.p)).length ≠ Util.orderlen c.p) := by rw [List.length_drop]; omega
  simp only [e1, e2, e3, if_false]
  have n1 : s.take (Util.orderlen c.p) ≠ [] := by
    intro hh; have := congrArg List.length hh; simp only [List.length_take, List.length_nil] at this; omega
  have n2 : s.drop (Util.orderlen c.p) ≠ [] := by
    intro hh; have := congrArg List.length hh; simp only [List.length_drop, List.length_nil] at this; omega
  rw [stringToNumber_ok _ n1, stringToNumber_ok _ n2]
  rfl

theorem fromRawEncoding_err (c : Curve) (s : Bytes) (e : PyErr) (h : fromRawEncoding c s = .error e) :
    s.length ≠ 2 * Util.orderlen c.p := by
  intro hl
  rw [fromRawEncoding_ok c s hl] at h; cases h

/-! ### the dispatch -/

theorem decodePoint_raw (E : Ext) (c : Curve) (s : Bytes) (v : Bool) (h : s.length = 2 * Util.orderlen c.p) :
    decodePoint E c s v = .ok ((beVal (s.take (Util.orderlen c.p)) : Int), (beVal (s.drop (Util.orderlen c.p)) : Int)) := by
  unfold decodePoint
  rw [vkLen_eq, if_pos h, fromRawEncoding_ok c s h]; rfl

theorem drop1_len (s : Bytes) (l : Nat) (h : s.length = 2 * l + 1) : (s.drop 1).length = 2 * l := by
  rw [List.length_drop]; omega

theorem decodePoint_unc (E : Ext) (c : Curve) (s : Bytes) (v : Bool) (h : s.length = 2 * Util.orderlen c.p + 1)
    (h4 : s.take 1 = [0x04]) :
    decodePoint E c s v = .ok ((beVal ((s.drop 1).take (Util.orderlen c.p)) : Int),
      (beVal ((s.drop 1).drop (Util.orderlen c.p)) : Int)) := by
  unfold decodePoint
  rw [vkLen_eq]
  have e1 : ¬ s.length = 2 * Util.orderlen c.p := by omega
  have e2 : ¬ (s.take 1 = [0x06] ∨ s.take 1 = [0x07]) := by rw [h4]; decide
  rw [if_neg e1, if_pos h, if_neg e2, if_pos h4, fromRawEncoding_ok c _ (drop1_len s _ h)]; rfl

theorem decodePoint_hyb (E : Ext) (c : Curve) (s : Bytes) (h : s.length = 2 * Util.orderlen c.p + 1)
    (h67 : s.take 1 = [0x06] ∨ s.take 1 = [0x07]) :
    decodePoint E c s true =
      (let x := beVal ((s.drop 1).take (Util.orderlen c.p))
       let y := beVal ((s.drop 1).drop (Util.orderlen c.p))
       if (y % 2 = 1 ∧ s.take 1 ≠ [0x07]) ∨ (¬ y % 2 = 1 ∧ s.take 1 ≠ [0x06]) then .error .malformedPoint
       else .ok ((x : Int), (y : Int))) := by
  unfold decodePoint
  rw [vkLen_eq]
  have e1 : ¬ s.length = 2 * Util.orderlen c.p := by omega
  rw [if_neg e1, if_pos h, if_pos h67]
  unfold fromHybrid
  have e2 : ¬ (s.take 1 ≠ [0x06] ∧ s.take 1 ≠ [0x07]) := by
    rcases h67 with h6 | h7
    · simp [h6]
    · simp [h7]
  rw [if_neg e2, fromRawEncoding_ok c _ (drop1_len s _ h)]
  simp only [true_and]
  split <;> rfl

theorem decodePoint_badprefix (E : Ext) (c : Curve) (s : Bytes) (v : Bool) (h : s.length = 2 * Util.orderlen c.p + 1)
    (h4 : s.take 1 ≠ [0x04]) (h6 : s.take 1 ≠ [0x06]) (h7 : s.take 1 ≠ [0x07]) :
    decodePoint E c s v = .error .malformedPoint := by
  unfold decodePoint
  rw [vkLen_eq]
  have e1 : ¬ s.length = 2 * Util.orderlen c.p := by omega
  have e2 : ¬ (s.take 1 = [0x06] ∨ s.take 1 = [0x07]) := by simp [h6, h7]
  rw [if_neg e1, if_pos h, if_neg e2, if_neg h4]

theorem decodePoint_comp (E : Ext) (c : Curve) (s : Bytes) (v : Bool) (h : s.length = Util.orderlen c.p + 1)
    (h2 : s.length ≠ 2 * Util.orderlen c.p) : decodePoint E c s v = fromCompressed E c s := by
  unfold decodePoint
  rw [vkLen_half, vkLen_eq]
  have hl := orderlen_pos c.p
  have e2 : ¬ s.length = 2 * Util.orderlen c.p + 1 := by omega
  rw [if_neg h2, if_neg e2, if_pos h]

theorem decodePoint_badlen (E : Ext) (c : Curve) (s : Bytes) (v : Bool) (h1 : s.length ≠ 2 * Util.orderlen c.p)
    (h2 : s.length ≠ 2 * Util.orderlen c.p + 1) (h3 : s.length ≠ Util.orderlen c.p + 1) :
    decodePoint E c s v = .error .malformedPoint := by
  unfold decodePoint
  rw [vkLen_half, vkLen_eq, if_neg h1, if_neg h2, if_neg h3]

/-! ### the compressed form -/

/-- what `_from_compressed` computes when the prefix is `02`/`03` and the square root exists -/
theorem fromCompressed_eq (E : Ext) (c : Curve) (hp : 0 < c.p) (s : Bytes) (hlen : 2 ≤ s.length)
    (h23 : s.take 1 = [0x02] ∨ s.take 1 = [0x03]) :
    fromCompressed E c s =
      (match E.sqrtModP (alphaOf c (beVal (s.drop 1))) c.p with
       | .error .squareRoot => .error .malformedPoint
       | .error e => .error e
       | .ok beta =>
         .ok ((beVal (s.drop 1) : Int),
           if (decide (s.take 1 = [0x02])) = decide (pmod beta 2 ≠ 0) then (c.p : Int) - beta else beta)) := by
  unfold fromCompressed
  have e1 : ¬ (s.take 1 ≠ [0x02] ∧ s.take 1 ≠ [0x03]) := by
    rcases h23 with h | h <;> simp [h]
  have n1 : s.drop 1 ≠ [] := by
    intro hh; have := congrArg List.length hh; rw [List.length_drop] at this; simp at this; omega
  have e2 : ¬ c.p = 0 := by omega
  rw [if_neg e1, stringToNumber_ok _ n1]
  simp only [if_neg e2]
  rfl

theorem pmod_two (b : Int) : pmod b 2 = b % 2 := by
  unfold pmod; exact Int.fmod_eq_emod_of_nonneg _ (by decide)

theorem compY_parity (p : Nat) (hodd : p % 2 = 1) (beta : Int) (hb0 : 0 ≤ beta) (hbp : beta < p) (b : Bool)
    (hY : (if b = decide (beta % 2 ≠ 0) then (p : Int) - beta else beta) < p) :
    (if b = decide (beta % 2 ≠ 0) then (p : Int) - beta else beta).toNat % 2 = (if b then 0 else 1) := by
  rcases Int.emod_two_eq_zero_or_one beta with h | h <;> cases b <;> simp [h] at hY ⊢ <;> omega

theorem compY_eq (p : Nat) (hodd : p % 2 = 1) (beta : Int) (_hb0 : 0 ≤ beta) (_hbp : beta < p) (b : Bool) (y : Nat)
    (_hy : y < p) (hrel : (y : Int) = beta ∨ (y : Int) = p - beta) (hpar : y % 2 = if b then 0 else 1) :
    (if b = decide (beta % 2 ≠ 0) then (p : Int) - beta else beta) = (y : Int) := by
  rcases Int.emod_two_eq_zero_or_one beta with h | h <;> cases b <;> simp [h] at hpar ⊢ <;> rcases hrel with r | r <;> omega

/-- accepted compressed encodings: exactly those with `x < p`, a root `y < p` of the right parity -/
theorem fromString_comp_iff (E : Ext) (c : Curve) (hpr : c.p.Prime) (hodd : c.p % 2 = 1) (hn : c.n ≠ 0)
    (hs : SqrtSpec E.sqrtModP c.p) (s : Bytes) (h : s.length = Util.orderlen c.p + 1)
    (h2 : s.length ≠ 2 * Util.orderlen c.p) (h23 : s.take 1 = [0x02] ∨ s.take 1 = [0x03]) (k : VK) :
    VK.fromString E c s true = .ok k ↔
      k.curve = c ∧ k.x = beVal (s.drop 1) ∧ ((s.take 1 = [0x02] ∧ k.y % 2 = 0) ∨ (s.take 1 = [0x03] ∧ k.y % 2 = 1)) ∧
        ValidPoint E c k.x k.y := by
  have hp : 0 < c.p := hpr.pos
  have hl := orderlen_pos c.p
  have ha := alphaOf_range c hp (beVal (s.drop 1))
  unfold VK.fromString
  rw [decodePoint_comp E c s true h h2, fromCompressed_eq E c hp s (by omega) h23]
  cases hq : E.sqrtModP (alphaOf c (beVal (s.drop 1))) c.p with
  | error e =>
    obtain ⟨he, hno⟩ := hs.err _ e ha.1 ha.2 hq
    subst he
    simp only
    constructor
    · intro hh; cases hh
    · rintro ⟨_, hx, _, ⟨_, _, hc, _⟩⟩
      rw [hx] at hc
      exact absurd ((onCurve_iff_alpha c hp _ _).mp hc) (hno _)
  | ok beta =>
    obtain ⟨hb0, hbp, hbr⟩ := hs.ok _ beta ha.1 ha.2 hq
    simp only
    rw [fromPublicPoint_ok_iff E c hn, pmod_two]
    have hbool : (s.take 1 = [0x02] → decide (s.take 1 = [0x02]) = true) ∧
        (s.take 1 = [0x03] → decide (s.take 1 = [0x02]) = false) := by
      refine ⟨fun h => decide_eq_true h, fun h => decide_eq_false ?_⟩
      rw [h]; decide
    generalize decide (s.take 1 = [0x02]) = b at hbool ⊢
    constructor
    · rintro ⟨_, hy0, hv, hk⟩
      obtain ⟨hvx, hvy, hvc, hvs⟩ := hv
      have hYlt : (if b = decide (beta % 2 ≠ 0) then (c.p : Int) - beta else beta) < c.p := by omega
      have hpar := compY_parity c.p hodd beta hb0 hbp b hYlt
      subst hk
      refine ⟨rfl, Int.toNat_natCast _, ?_, ⟨hvx, hvy, hvc, hvs⟩⟩
      rcases h23 with h02 | h03
      · left; refine ⟨h02, ?_⟩
        rw [hbool.1 h02] at hpar ⊢; simpa using hpar
      · right; refine ⟨h03, ?_⟩
        rw [hbool.2 h03] at hpar ⊢; simpa using hpar
    · rintro ⟨hc, hx, hpar, hv⟩
      obtain ⟨hvx, hvy, hvc, hvs⟩ := hv
      have hroot : ((k.y : Int) * k.y - alphaOf c (beVal (s.drop 1))) % (c.p : Int) = 0 := by
        have := (onCurve_iff_alpha c hp k.x k.y).mp hvc
        rwa [hx] at this
      have hrel := roots_rel c.p hpr _ (k.y : Int) beta ⟨by omega, by omega⟩ ⟨hb0, hbp⟩ hroot hbr
      have hpar' : k.y % 2 = if b then 0 else 1 := by
        rcases hpar with ⟨h02, hev⟩ | ⟨h03, hod⟩
        · rw [hbool.1 h02]; exact hev
        · rw [hbool.2 h03]; exact hod
      rw [compY_eq c.p hodd beta hb0 hbp b k.y hvy hrel hpar']
      simp only [Int.toNat_natCast]
      refine ⟨by omega, by omega, ⟨by omega, hvy, by rw [← hx]; exact hvc, by rw [← hx]; exact hvs⟩, ?_⟩
      cases k; simp_all

theorem fromCompressed_badprefix (E : Ext) (c : Curve) (s : Bytes) (h2 : s.take 1 ≠ [0x02]) (h3 : s.take 1 ≠ [0x03]) :
    fromCompressed E c s = .error .malformedPoint := by
  unfold fromCompressed
  rw [if_pos ⟨h2, h3⟩]

/-- hybrid form with the validate flag as given -/
theorem decodePoint_hyb' (E : Ext) (c : Curve) (s : Bytes) (v : Bool) (h : s.length = 2 * Util.orderlen c.p + 1)
    (h67 : s.take 1 = [0x06] ∨ s.take 1 = [0x07]) :
    decodePoint E c s v = .error .malformedPoint ∨
    decodePoint E c s v = .ok ((beVal ((s.drop 1).take (Util.orderlen c.p)) : Int),
      (beVal ((s.drop 1).drop (Util.orderlen c.p)) : Int)) := by
  unfold decodePoint
  rw [vkLen_eq]
  have e1 : ¬ s.length = 2 * Util.orderlen c.p := by omega
  rw [if_neg e1, if_pos h, if_pos h67]
  unfold fromHybrid
  have e2 : ¬ (s.take 1 ≠ [0x06] ∧ s.take 1 ≠ [0x07]) := by
    rcases h67 with h6 | h7
    · simp [h6]
    · simp [h7]
  rw [if_neg e2, fromRawEncoding_ok c _ (drop1_len s _ h)]
  simp only
  split
  · left; rfl
  · right; rfl

/-- every rejection of `from_string` is `MalformedPointError` -/
theorem fromString_err (E : Ext) (c : Curve) (hp : 0 < c.p) (hs : SqrtSpec E.sqrtModP c.p) (s : Bytes) (v : Bool)
    (e : PyErr) (h : VK.fromString E c s v = .error e) : e = .malformedPoint := by
  have hl := orderlen_pos c.p
  unfold VK.fromString at h
  have key : ∀ e', decodePoint E c s v = .error e' → e' = .malformedPoint := by
    intro e' hd
    by_cases h1 : s.length = 2 * Util.orderlen c.p
    · rw [decodePoint_raw E c s v h1] at hd; cases hd
    · by_cases h2 : s.length = 2 * Util.orderlen c.p + 1
      · by_cases h67 : s.take 1 = [0x06] ∨ s.take 1 = [0x07]
        · rcases decodePoint_hyb' E c s v h2 h67 with r | r
          · rw [r] at hd; injection hd with hd; exact hd.symm
          · rw [r] at hd; cases hd
        · by_cases h4 : s.take 1 = [0x04]
          · rw [decodePoint_unc E c s v h2 h4] at hd; cases hd
          · rw [decodePoint_badprefix E c s v h2 h4 (fun h => h67 (Or.inl h)) (fun h => h67 (Or.inr h))] at hd
            injection hd with hd; exact hd.symm
      · by_cases h3 : s.length = Util.orderlen c.p + 1
        · rw [decodePoint_comp E c s v h3 h1] at hd
          by_cases h23 : s.take 1 = [0x02] ∨ s.take 1 = [0x03]
          · rw [fromCompressed_eq E c hp s (by omega) h23] at hd
            have ha := alphaOf_range c hp (beVal (s.drop 1))
            cases hq : E.sqrtModP (alphaOf c (beVal (s.drop 1))) c.p with
            | error e'' =>
              obtain ⟨he, _⟩ := hs.err _ e'' ha.1 ha.2 hq
              subst he
              rw [hq] at hd; simp only at hd
              injection hd with hd; exact hd.symm
            | ok beta => rw [hq] at hd; simp only at hd; cases hd
          · rw [fromCompressed_badprefix E c s (fun h => h23 (Or.inl h)) (fun h => h23 (Or.inr h))] at hd
            injection hd with hd; exact hd.symm
        · rw [decodePoint_badlen E c s v h1 h2 h3] at hd
          injection hd with hd; exact hd.symm
  cases hd : decodePoint E c s v with
  | error e' =>
    rw [hd] at h; simp only at h
    injection h with h; rw [← h]; exact key e' hd
  | ok xy =>
    rw [hd] at h; simp only at h
    exact fromPublicPoint_err E c _ _ v e h

/-- **accepted ⇔ SEC 1 encoding of a valid point** (validation on), and the key is the encoded point -/
theorem fromString_ok_iff (E : Ext) (c : Curve) (hpr : c.p.Prime) (hodd : c.p % 2 = 1) (hn : c.n ≠ 0)
    (hs : SqrtSpec E.sqrtModP c.p) (s : Bytes) (k : VK) :
    VK.fromString E c s true = .ok k ↔
      k.curve = c ∧ Encodes (Util.orderlen c.p) s k.x k.y ∧ ValidPoint E c k.x k.y := by
  have hl := orderlen_pos c.p
  have hp : 0 < c.p := hpr.pos
  have mk : ∀ (x y : Nat), (k.curve = c ∧ k.x = x ∧ k.y = y) ↔ k = ⟨c, x, y⟩ := by
    intro x y; constructor
    · rintro ⟨h1, h2, h3⟩; cases k; simp_all
    · intro h; subst h; exact ⟨rfl, rfl, rfl⟩
  by_cases h1 : s.length = 2 * Util.orderlen c.p
  · unfold VK.fromString
    rw [decodePoint_raw E c s true h1]; simp only
    rw [fromPublicPoint_ok_iff E c hn]
    simp only [Int.toNat_natCast]
    constructor
    · rintro ⟨_, _, hv, hk⟩
      subst hk
      exact ⟨rfl, Or.inl ⟨h1, rfl, rfl⟩, hv⟩
    · rintro ⟨hc, henc, hv⟩
      rcases henc with ⟨_, hx, hy⟩ | ⟨hh, _⟩ | ⟨hh, _⟩ | ⟨_, hh, _⟩
      · refine ⟨by omega, by omega, ?_, (mk _ _).mp ⟨hc, hx, hy⟩⟩
        rw [← hx, ← hy]; exact hv
      · omega
      · omega
      · exact absurd h1 hh
  · by_cases h2 : s.length = 2 * Util.orderlen c.p + 1
    · by_cases h4 : s.take 1 = [0x04]
      · unfold VK.fromString
        rw [decodePoint_unc E c s true h2 h4]; simp only
        rw [fromPublicPoint_ok_iff E c hn]
        simp only [Int.toNat_natCast]
        constructor
        · rintro ⟨_, _, hv, hk⟩
          subst hk
          exact ⟨rfl, Or.inr (Or.inl ⟨h2, h4, rfl, rfl⟩), hv⟩
        · rintro ⟨hc, henc, hv⟩
          rcases henc with ⟨hh, _⟩ | ⟨_, _, hx, hy⟩ | ⟨_, hpre, _⟩ | ⟨hh, _⟩
          · omega
          · refine ⟨by omega, by omega, ?_, (mk _ _).mp ⟨hc, hx, hy⟩⟩
            rw [← hx, ← hy]; exact hv
          · rw [h4] at hpre; rcases hpre with ⟨hh, _⟩ | ⟨hh, _⟩ <;> exact absurd hh (by decide)
          · omega
      · by_cases h67 : s.take 1 = [0x06] ∨ s.take 1 = [0x07]
        · unfold VK.fromString
          rw [decodePoint_hyb E c s h2 h67]
          simp only
          by_cases hm : (beVal ((s.drop 1).drop (Util.orderlen c.p)) % 2 = 1 ∧ s.take 1 ≠ [0x07]) ∨
              (¬ beVal ((s.drop 1).drop (Util.orderlen c.p)) % 2 = 1 ∧ s.take 1 ≠ [0x06])
          · rw [if_pos hm]
            constructor
            · intro hh; cases hh
            · rintro ⟨_, henc, _⟩
              rcases henc with ⟨hh, _⟩ | ⟨_, hpre, _⟩ | ⟨_, hpre, _, hy⟩ | ⟨hh, _⟩
              · omega
              · exact absurd hpre h4
              · rw [← hy] at hm
                rcases hpre with ⟨p6, ev⟩ | ⟨p7, od⟩
                · rcases hm with ⟨m1, _⟩ | ⟨_, m2⟩
                  · omega
                  · exact absurd p6 m2
                · rcases hm with ⟨_, m2⟩ | ⟨m1, _⟩
                  · exact absurd p7 m2
                  · exact absurd od m1
              · omega
          · rw [if_neg hm]; simp only
            rw [fromPublicPoint_ok_iff E c hn]
            simp only [Int.toNat_natCast]
            constructor
            · rintro ⟨_, _, hv, hk⟩
              subst hk
              refine ⟨rfl, Or.inr (Or.inr (Or.inl ⟨h2, ?_, rfl, rfl⟩)), hv⟩
              show (s.take 1 = [0x06] ∧ beVal ((s.drop 1).drop (Util.orderlen c.p)) % 2 = 0) ∨
                (s.take 1 = [0x07] ∧ beVal ((s.drop 1).drop (Util.orderlen c.p)) % 2 = 1)
              have hmod := Nat.mod_two_eq_zero_or_one (beVal ((s.drop 1).drop (Util.orderlen c.p)))
              rcases h67 with p6 | p7
              · left; refine ⟨p6, ?_⟩
                rcases hmod with z | o
                · exact z
                · exfalso; apply hm; left; refine ⟨o, ?_⟩; rw [p6]; decide
              · right; refine ⟨p7, ?_⟩
                rcases hmod with z | o
                · exfalso; apply hm; right; refine ⟨by omega, ?_⟩; rw [p7]; decide
                · exact o
            · rintro ⟨hc, henc, hv⟩
              rcases henc with ⟨hh, _⟩ | ⟨_, hpre, _⟩ | ⟨_, _, hx, hy⟩ | ⟨hh, _⟩
              · omega
              · exact absurd hpre h4
              · refine ⟨by omega, by omega, ?_, (mk _ _).mp ⟨hc, hx, hy⟩⟩
                rw [← hx, ← hy]; exact hv
              · omega
        · unfold VK.fromString
          rw [decodePoint_badprefix E c s true h2 h4 (fun h => h67 (Or.inl h)) (fun h => h67 (Or.inr h))]
          simp only
          constructor
          · intro hh; cases hh
          · rintro ⟨_, henc, _⟩
            rcases henc with ⟨hh, _⟩ | ⟨_, hpre, _⟩ | ⟨_, hpre, _⟩ | ⟨hh, _⟩
            · omega
            · exact absurd hpre h4
            · rcases hpre with ⟨p6, _⟩ | ⟨p7, _⟩
              · exact absurd (Or.inl p6) h67
              · exact absurd (Or.inr p7) h67
            · omega
    · by_cases h3 : s.length = Util.orderlen c.p + 1
      · by_cases h23 : s.take 1 = [0x02] ∨ s.take 1 = [0x03]
        · rw [fromString_comp_iff E c hpr hodd hn hs s h3 h1 h23 k]
          constructor
          · rintro ⟨hc, hx, hpar, hv⟩
            exact ⟨hc, Or.inr (Or.inr (Or.inr ⟨h3, h1, hpar, hx⟩)), hv⟩
          · rintro ⟨hc, henc, hv⟩
            rcases henc with ⟨hh, _⟩ | ⟨hh, _⟩ | ⟨hh, _⟩ | ⟨_, _, hpar, hx⟩
            · omega
            · omega
            · omega
            · exact ⟨hc, hx, hpar, hv⟩
        · unfold VK.fromString
          rw [decodePoint_comp E c s true h3 h1,
            fromCompressed_badprefix E c s (fun h => h23 (Or.inl h)) (fun h => h23 (Or.inr h))]
          simp only
          constructor
          · intro hh; cases hh
          · rintro ⟨_, henc, _⟩
            rcases henc with ⟨hh, _⟩ | ⟨hh, _⟩ | ⟨hh, _⟩ | ⟨_, _, hpar, _⟩
            · omega
            · omega
            · omega
            · rcases hpar with ⟨p2, _⟩ | ⟨p3, _⟩
              · exact absurd (Or.inl p2) h23
              · exact absurd (Or.inr p3) h23
      · unfold VK.fromString
        rw [decodePoint_badlen E c s true h1 h2 h3]
        simp only
        constructor
        · intro hh; cases hh
        · rintro ⟨_, henc, _⟩
          rcases henc with ⟨hh, _⟩ | ⟨hh, _⟩ | ⟨hh, _⟩ | ⟨hh, _⟩ <;> omega

end KeysP
