import Proofs.KeysTotal
import Proofs.KeysDerRT
/-!
# Proofs.KeysDerTotal — the DER loaders fail only with `UnexpectedDER`, `UnknownCurveError`, `MalformedPointError`
-/
namespace KeysP
open Keys

/-- the documented exceptions of the key loaders -/
def Documented (e : PyErr) : Prop := e = .unexpectedDER ∨ e = .malformedPoint ∨ e = .unknownCurve

theorem bind_err {α β : Type} {x : Res α} {f : α → Res β} {e : PyErr} (h : (x >>= f) = .error e) :
    x = .error e ∨ ∃ a, x = .ok a ∧ f a = .error e := by
  cases x with
  | error e' => left; simp only [bind, Except.bind] at h; injection h with h; rw [h]
  | ok a => right; exact ⟨a, rfl, h⟩

theorem findCurve_ok {oid : List Nat} {c : Curve} (h : findCurve oid = .ok c) : c ∈ Gen.curveTable ∧ c.oid = oid := by
  unfold findCurve findCurveIn at h
  split at h
  · rename_i c' hf
    injection h with h; subst h
    exact ⟨List.mem_of_find?_eq_some hf, by simpa using List.find?_some hf⟩
  · cases h

theorem findCurve_err {oid : List Nat} {e : PyErr} (h : findCurve oid = .error e) : e = .unknownCurve := by
  unfold findCurve findCurveIn at h
  split at h
  · cases h
  · injection h with h; exact h.symm

theorem table_p_pos : ∀ c ∈ Gen.curveTable, 0 < c.p := by decide +kernel

/-- `VerifyingKey.from_der`: only documented errors -/
theorem vk_fromDer_err (E : Ext) (hsq : ∀ c ∈ Gen.curveTable, SqrtSpec E.sqrtModP c.p) (s : Bytes) (e : PyErr)
    (h : VK.fromDer E s = .error e) : Documented e := by
  unfold VK.fromDer at h
  rcases bind_err h with h | ⟨⟨s1, empty⟩, _, h⟩
  · exact Or.inl (Der.removeSequence_err h)
  simp only at h
  split at h
  · injection h with h; exact Or.inl h.symm
  rcases bind_err h with h | ⟨⟨s2, bitstr⟩, _, h⟩
  · exact Or.inl (Der.removeSequence_err h)
  simp only at h
  rcases bind_err h with h | ⟨⟨oidPk, rest⟩, _, h⟩
  · exact Or.inl (Der.removeObject_err h)
  simp only at h
  rcases bind_err h with h | ⟨⟨oidCurve, empty2⟩, _, h⟩
  · exact Or.inl (Der.removeObject_err h)
  simp only at h
  split at h
  · injection h with h; exact Or.inl h.symm
  split at h
  · injection h with h; exact Or.inl h.symm
  rcases bind_err h with h | ⟨curve, hcv, h⟩
  · exact Or.inr (Or.inr (findCurve_err h))
  rcases bind_err h with h | ⟨⟨pointStr, _, empty3⟩, _, h⟩
  · exact Or.inl (Der.removeBitstring_err h)
  simp only at h
  split at h
  · injection h with h; exact Or.inl h.symm
  split at h
  · injection h with h; exact Or.inl h.symm
  have hc := (findCurve_ok hcv).1
  exact Or.inr (Or.inl (fromString_err E curve (table_p_pos _ hc) (hsq _ hc) _ _ _ h))

/-- the shared tail of the private-key parser; hypothesis-free since F14 (`SK.fromString` fails only with `MalformedPointError` for every `Ext`) -/
theorem ecPrivateKeyTail_err' (E : Ext) (version : Nat) (s : Bytes) (curve : Option Curve) (e : PyErr)
    (h : SK.ecPrivateKeyTail E version s curve = .error e) : Documented e := by
  unfold SK.ecPrivateKeyTail at h
  split at h
  · injection h with h; exact Or.inl h.symm
  rcases bind_err h with h | ⟨⟨privkeyStr, s'⟩, _, h⟩
  · exact Or.inl (Der.removeOctetString_err h)
  simp only at h
  rcases bind_err h with h | ⟨c, _, h⟩
  · cases curve with
    | some c0 => simp only at h; cases h
    | none =>
      simp only at h
      rcases bind_err h with h | ⟨⟨tag, curveOidStr, rest⟩, _, h⟩
      · exact Or.inl (Der.removeConstructed_err h)
      simp only at h
      split at h
      · injection h with h; exact Or.inl h.symm
      rcases bind_err h with h | ⟨⟨curveOid, empty⟩, _, h⟩
      · exact Or.inl (Der.removeObject_err h)
      simp only at h
      split at h
      · injection h with h; exact Or.inl h.symm
      · exact Or.inr (Or.inr (findCurve_err h))
  · exact Or.inr (Or.inl (sk_fromString_err' E c _ _ h))

/-- `SigningKey.from_der`: only documented errors, for every `Ext` -/
theorem sk_fromDer_err' (E : Ext) (s : Bytes) (e : PyErr) (h : SK.fromDer E s = .error e) : Documented e := by
  unfold SK.fromDer at h
  rcases bind_err h with h | ⟨⟨s1, empty⟩, _, h⟩
  · exact Or.inl (Der.removeSequence_err h)
  simp only at h
  split at h
  · injection h with h; exact Or.inl h.symm
  rcases bind_err h with h | ⟨⟨version, s2⟩, _, h⟩
  · exact Or.inl (Der.removeInteger_err h)
  simp only at h
  split at h
  · split at h
    · injection h with h; exact Or.inl h.symm
    rcases bind_err h with h | ⟨⟨sequence, s3⟩, _, h⟩
    · exact Or.inl (Der.removeSequence_err h)
    simp only at h
    rcases bind_err h with h | ⟨⟨algorithmOid, algorithmIdentifier⟩, _, h⟩
    · exact Or.inl (Der.removeObject_err h)
    simp only at h
    rcases bind_err h with h | ⟨⟨curveOid, empty2⟩, _, h⟩
    · exact Or.inl (Der.removeObject_err h)
    simp only at h
    rcases bind_err h with h | ⟨curve, _, h⟩
    · exact Or.inr (Or.inr (findCurve_err h))
    split at h
    · injection h with h; exact Or.inl h.symm
    split at h
    · injection h with h; exact Or.inl h.symm
    rcases bind_err h with h | ⟨⟨s4, _⟩, _, h⟩
    · exact Or.inl (Der.removeOctetString_err h)
    simp only at h
    rcases bind_err h with h | ⟨⟨s5, empty3⟩, _, h⟩
    · exact Or.inl (Der.removeSequence_err h)
    simp only at h
    split at h
    · injection h with h; exact Or.inl h.symm
    rcases bind_err h with h | ⟨⟨version2, s6⟩, _, h⟩
    · exact Or.inl (Der.removeInteger_err h)
    simp only at h
    exact ecPrivateKeyTail_err' E version2 s6 (some curve) e h
  · exact ecPrivateKeyTail_err' E version s2 none e h

theorem ecPrivateKeyTail_err (E : Ext) (hpub : ∀ c ∈ Gen.curveTable, PubSpec E c) (version : Nat) (s : Bytes)
    (curve : Option Curve) (hcv : ∀ c, curve = some c → c ∈ Gen.curveTable) (e : PyErr)
    (h : SK.ecPrivateKeyTail E version s curve = .error e) : Documented e := by
  unfold SK.ecPrivateKeyTail at h
  split at h
  · injection h with h; exact Or.inl h.symm
  rcases bind_err h with h | ⟨⟨privkeyStr, s'⟩, _, h⟩
  · exact Or.inl (Der.removeOctetString_err h)
  simp only at h
  rcases bind_err h with h | ⟨c, hc, h⟩
  · -- the curve lookup
    cases curve with
    | some c0 => simp only at h; cases h
    | none =>
      simp only at h
      rcases bind_err h with h | ⟨⟨tag, curveOidStr, rest⟩, _, h⟩
      · exact Or.inl (Der.removeConstructed_err h)
      simp only at h
      split at h
      · injection h with h; exact Or.inl h.symm
      rcases bind_err h with h | ⟨⟨curveOid, empty⟩, _, h⟩
      · exact Or.inl (Der.removeObject_err h)
      simp only at h
      split at h
      · injection h with h; exact Or.inl h.symm
      · exact Or.inr (Or.inr (findCurve_err h))
  · have hmem : c ∈ Gen.curveTable := by
      cases curve with
      | some c0 =>
        simp only at hc
        injection hc with hc; subst hc
        exact hcv _ rfl
      | none =>
        simp only at hc
        rcases hx : Der.removeConstructed s' with _ | ⟨tag, curveOidStr, rest⟩
        · rw [hx] at hc; simp only [bind, Except.bind] at hc; cases hc
        · rw [hx] at hc; simp only [bind, Except.bind] at hc
          split at hc
          · cases hc
          · rcases hy : Der.removeObject curveOidStr with _ | ⟨curveOid, empty⟩
            · rw [hy] at hc; simp only at hc; cases hc
            · rw [hy] at hc; simp only at hc
              split at hc
              · cases hc
              · exact (findCurve_ok hc).1
    exact Or.inr (Or.inl (sk_fromString_err E c (hpub _ hmem) _ _ h))

/-- `SigningKey.from_der`: only documented errors -/
theorem sk_fromDer_err (E : Ext) (hpub : ∀ c ∈ Gen.curveTable, PubSpec E c) (s : Bytes) (e : PyErr)
    (h : SK.fromDer E s = .error e) : Documented e := by
  unfold SK.fromDer at h
  rcases bind_err h with h | ⟨⟨s1, empty⟩, _, h⟩
  · exact Or.inl (Der.removeSequence_err h)
  simp only at h
  split at h
  · injection h with h; exact Or.inl h.symm
  rcases bind_err h with h | ⟨⟨version, s2⟩, _, h⟩
  · exact Or.inl (Der.removeInteger_err h)
  simp only at h
  split at h
  · split at h
    · injection h with h; exact Or.inl h.symm
    rcases bind_err h with h | ⟨⟨sequence, s3⟩, _, h⟩
    · exact Or.inl (Der.removeSequence_err h)
    simp only at h
    rcases bind_err h with h | ⟨⟨algorithmOid, algorithmIdentifier⟩, _, h⟩
    · exact Or.inl (Der.removeObject_err h)
    simp only at h
    rcases bind_err h with h | ⟨⟨curveOid, empty2⟩, _, h⟩
    · exact Or.inl (Der.removeObject_err h)
    simp only at h
    rcases bind_err h with h | ⟨curve, hcv, h⟩
    · exact Or.inr (Or.inr (findCurve_err h))
    split at h
    · injection h with h; exact Or.inl h.symm
    split at h
    · injection h with h; exact Or.inl h.symm
    rcases bind_err h with h | ⟨⟨s4, _⟩, _, h⟩
    · exact Or.inl (Der.removeOctetString_err h)
    simp only at h
    rcases bind_err h with h | ⟨⟨s5, empty3⟩, _, h⟩
    · exact Or.inl (Der.removeSequence_err h)
    simp only at h
    split at h
    · injection h with h; exact Or.inl h.symm
    rcases bind_err h with h | ⟨⟨version2, s6⟩, _, h⟩
    · exact Or.inl (Der.removeInteger_err h)
    simp only at h
    refine ecPrivateKeyTail_err E hpub version2 s6 (some curve) ?_ e h
    intro c hc; injection hc with hc; subst hc; exact (findCurve_ok hcv).1
  · exact ecPrivateKeyTail_err E hpub version s2 none (fun c hc => by cases hc) e h

end KeysP
