import Model.Keys
import Mathlib.Data.List.Induction
/-!
# Proofs.KeysBytes — fixed-length integer ↔ byte-string facts used by the key (de)serialisers
(`number_to_string` / `string_to_number` at the length `orderlen`).  Self-contained.
-/
namespace KeysP
open Keys

theorem hexDigits_lt (n : Nat) : n < 16 ^ hexDigits n := by
  induction n using Nat.strongRecOn with
  | _ n ih =>
    cases n with
    | zero => simp [hexDigits]
    | succ m =>
      rw [hexDigits]
      have := ih ((m + 1) / 16) (by omega)
      rw [Nat.pow_succ]; omega

theorem hexDigits_le_of_lt (n k : Nat) (h : n < 16 ^ k) : hexDigits n ≤ k := by
  induction n using Nat.strongRecOn generalizing k with
  | _ n ih =>
    cases n with
    | zero => simp [hexDigits]
    | succ m =>
      rw [hexDigits]
      cases k with
      | zero => simp at h
      | succ k =>
        have : (m + 1) / 16 < 16 ^ k := by rw [Nat.pow_succ] at h; omega
        have := ih ((m + 1) / 16) (by omega) k this
        omega

theorem hexLen_pos (n : Nat) : 1 ≤ hexLen n := by
  unfold hexLen; split
  · omega
  · cases n with
    | zero => contradiction
    | succ m => rw [hexDigits]; omega

theorem lt_pow_hexLen (n : Nat) : n < 16 ^ hexLen n := by
  unfold hexLen; split
  · subst_vars; decide
  · exact hexDigits_lt n

theorem hexLen_le_of_lt (n k : Nat) (hk : 1 ≤ k) (h : n < 16 ^ k) : hexLen n ≤ k := by
  unfold hexLen; split
  · exact hk
  · exact hexDigits_le_of_lt n k h

theorem pow256 (l : Nat) : 256 ^ l = 16 ^ (2 * l) := by
  rw [Nat.pow_mul]

theorem orderlen_pos (n : Nat) : 1 ≤ Util.orderlen n := by
  have := hexLen_pos n; unfold Util.orderlen; omega

/-- `n < 256 ^ orderlen n` (the byte length the code derives from the hex digits is enough) -/
theorem lt_pow_orderlen (n : Nat) : n < 256 ^ Util.orderlen n := by
  have h1 := lt_pow_hexLen n
  have h2 : hexLen n ≤ 2 * Util.orderlen n := by unfold Util.orderlen; omega
  rw [pow256]
  exact Nat.lt_of_lt_of_le h1 (Nat.pow_le_pow_right (by decide) h2)

/-- `number_to_string(num, order)` succeeds with the `orderlen order` low bytes whenever `num` fits -/
theorem numberToString_ok (num order : Nat) (h : num < 256 ^ Util.orderlen order) :
    Util.numberToString num order = .ok (beFixed (Util.orderlen order) num) := by
  have hl := orderlen_pos order
  have h2 : hexLen num ≤ 2 * Util.orderlen order := hexLen_le_of_lt _ _ (by omega) (by rw [← pow256]; exact h)
  unfold Util.numberToString
  simp only
  rw [Nat.max_eq_right h2]
  have e1 : ¬ (2 * Util.orderlen order % 2 = 1) := by omega
  have e2 : ¬ (2 * Util.orderlen order / 2 ≠ Util.orderlen order) := by omega
  simp only [e1, e2, if_false]

theorem numberToString_of_lt (num order : Nat) (h : num < order) :
    Util.numberToString num order = .ok (beFixed (Util.orderlen order) num) :=
  numberToString_ok num order (Nat.lt_trans h (lt_pow_orderlen order))

theorem beFixed_length (l n : Nat) : (beFixed l n).length = l := by
  induction l generalizing n with
  | zero => simp [beFixed]
  | succ l ih => simp [beFixed, ih]

theorem beVal_snoc (s : Bytes) (b : UInt8) : beVal (s ++ [b]) = beVal s * 256 + b.toNat := by
  simp [beVal, List.foldl_append]

theorem beVal_beFixed (l n : Nat) : beVal (beFixed l n) = n % 256 ^ l := by
  induction l generalizing n with
  | zero => simp [beFixed, beVal, Nat.mod_one]
  | succ l ih =>
    rw [beFixed, beVal_snoc, ih]
    have : (UInt8.ofNat (n % 256)).toNat = n % 256 := by
      simp [UInt8.toNat_ofNat']
    rw [this, Nat.pow_succ, Nat.mul_comm (256 ^ l) 256, Nat.mod_mul]
    omega

theorem beVal_beFixed_of_lt (l n : Nat) (h : n < 256 ^ l) : beVal (beFixed l n) = n := by
  rw [beVal_beFixed, Nat.mod_eq_of_lt h]

theorem beVal_lt (s : Bytes) : beVal s < 256 ^ s.length := by
  induction s using List.reverseRecOn with
  | nil => simp [beVal]
  | append_singleton s b ih =>
    rw [beVal_snoc, List.length_append, List.length_singleton, Nat.pow_succ]
    have := UInt8.toNat_lt_size b
    simp only [UInt8.size] at this
    omega

theorem beFixed_beVal (s : Bytes) : beFixed s.length (beVal s) = s := by
  induction s using List.reverseRecOn with
  | nil => simp [beFixed]
  | append_singleton s b ih =>
    rw [List.length_append, List.length_singleton, beFixed, beVal_snoc]
    have hb := UInt8.toNat_lt_size b
    simp only [UInt8.size] at hb
    have h1 : (beVal s * 256 + b.toNat) / 256 = beVal s := by omega
    have h2 : (beVal s * 256 + b.toNat) % 256 = b.toNat := by omega
    rw [h1, h2, ih]
    simp

theorem stringToNumber_ok (s : Bytes) (h : s ≠ []) : Util.stringToNumber s = .ok (beVal s) := by
  unfold Util.stringToNumber
  cases s with
  | nil => contradiction
  | cons a t => simp

theorem stringToNumber_beFixed (l n : Nat) (hl : 1 ≤ l) (h : n < 256 ^ l) :
    Util.stringToNumber (beFixed l n) = .ok n := by
  rw [stringToNumber_ok, beVal_beFixed_of_lt l n h]
  intro hnil
  have := beFixed_length l n
  rw [hnil] at this; simp at this; omega

theorem stringToNumber_err {s : Bytes} {e : PyErr} (h : Util.stringToNumber s = .error e) : s = [] ∧ e = .valueError := by
  unfold Util.stringToNumber at h
  cases s with
  | nil => simp at h; exact ⟨rfl, h.symm⟩
  | cons a t => simp at h

end KeysP
