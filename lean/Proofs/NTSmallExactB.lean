import Proofs.NTSmallCheck
namespace NTSmall
set_option maxRecDepth 1000000 in
theorem agree_B : agree 2700 4096 = true := by decide +kernel
end NTSmall
