import Proofs.EcdsaTruncate
/-!
# Proofs.EcdsaDecode — the only failures of the raw signature decoders are `MalformedSignature`
(the `assert`/`int("", 16)` failure modes kept in the model of `string_to_number_fixedlen` are unreachable)
-/
namespace Ecdsa

/-- what `verify_digest` needs of a decoder: it fails only with the two classes that are caught -/
def DecodeErrorsCaught {σ : Type} (dec : σ → Nat → Res (Nat × Nat)) : Prop :=
  ∀ sig n e, dec sig n = .error e → e = .unexpectedDER ∨ e = .malformedSignature

theorem fixedlen_ok (s : Bytes) (order : Nat) (h : s.length = Util.orderlen order) :
    Util.stringToNumberFixedlen s order = .ok (beVal s) := by
  have hp := orderlen_pos order
  unfold Util.stringToNumberFixedlen
  have : s.isEmpty = false := by
    cases s with
    | nil => simp at h; omega
    | cons _ _ => rfl
  simp [h, this]

theorem sigdecodeString_errors : DecodeErrorsCaught Util.sigdecodeString := by
  intro sig n e h
  unfold Util.sigdecodeString at h
  simp only at h
  split at h
  · cases h; exact Or.inr rfl
  · rename_i hl
    have hl : sig.length = 2 * Util.orderlen n := by simpa using hl
    rw [fixedlen_ok _ _ (by simp; omega), fixedlen_ok _ _ (by simp; omega)] at h
    cases h

theorem sigdecodeStrings_errors : DecodeErrorsCaught Util.sigdecodeStrings := by
  intro sig n e h
  unfold Util.sigdecodeStrings at h
  split at h
  · simp only at h
    split at h
    · cases h; exact Or.inr rfl
    · split at h
      · cases h; exact Or.inr rfl
      · rename_i h1 h2
        rw [fixedlen_ok _ _ (by simpa using h1), fixedlen_ok _ _ (by simpa using h2)] at h
        cases h
  · cases h; exact Or.inr rfl

end Ecdsa
