import Proofs.ThreadsKeys
import Proofs.ThreadsRep
import Props.C19g
/-! # Proofs.ThreadsValue — every accepted result has ONE observable value

`Op.acc` (the conclusion of `linearizable`) says: the result is the sequential function applied to admissible snapshots
(initial or scaled triple, empty or complete table, any allowed referent of a key).  Here the alternatives are collapsed:
for shared objects that are stored points of ⟨G⟩ (`Valid`), every admissible alternative has the same OBSERVABLE value —
the canonical affine pair / INFINITY for point results (`GroupInterface.canon`), the integer, the Boolean, the pair — and
that value is a function of the group elements the objects denote (`sval`).  Sources: the C06/C07 theorems through
`Proofs/GroupInterface.lean` and `C19g.rep_indep` (representation independence of `Model/Curve.lean`). -/
set_option linter.unusedVariables false
set_option linter.unusedSimpArgs false
namespace ThreadProgs
open WeierstrassCurve Curve Jac GroupInterface Threads Access

variable {p : ℕ} [hp : Fact p.Prime] {a b : ℤ}

/-- observable values -/
inductive ObsV
  | none
  | int (n : ℤ)
  | bool (b : Bool)
  | pt (v : Option (ℤ × ℤ))          -- a point: `none` = INFINITY, else the canonical affine pair
  | pair (a b : ℤ)
deriving DecidableEq, Repr

/-- the observable value of a result; `id0` = the object a pickled state belongs to.  A returned shared object is
observed through the value it holds; the table of a pickled state is not observable. -/
def obs (E : Env) (id0 : Nat) : Res Out → Res ObsV
  | .error e => .error e
  | .ok .none => .ok .none
  | .ok (.int n) => .ok (.int n)
  | .ok (.bool b) => .ok (.bool b)
  | .ok (.pair x y) => .ok (.pair x y)
  | .ok (.pt R) => (canon R).map .pt
  | .ok (.obj id) => (canon (.jac (mkPJ (E.info id) (E.c0 id)))).map .pt
  | .ok (.state c _) => (canon (.jac (mkPJ (E.info id0) c))).map .pt

/-- the shared objects are stored points of ⟨G⟩: object `id` denotes `g id` -/
structure Valid (C : Ctx p a b) (E : Env) (g : Nat → Grp (a : ZMod p) (b : ZMod p)) : Prop where
  rep : ∀ id, PJRep p a b C.H (mkPJ (E.info id) (E.c0 id)) (g id)
  ord : ∀ id, (E.info id).order = some C.n ∨ ((E.info id).order = none ∧ (E.info id).generator = false)
  scale : ∀ id, pjScale (mkPJ (E.info id) (E.c0 id)) = .ok (mkPJ (E.info id) (E.cS id))
  table : ∀ id, (E.info id).generator = true → precomputeTable (mkPJ (E.info id) (E.c0 id)) = .ok (E.tF id)
  notable : ∀ id, (E.info id).generator = false → E.tF id = []
  /-- all allowed referents of a key denote the same point -/
  targets : ∀ kid t t', E.targets kid t → E.targets kid t' → g t = g t'

section
variable {C : Ctx p a b} {E : Env} {g : Nat → Grp (a : ZMod p) (b : ZMod p)}

theorem Valid.objOK (hv : Valid C E g) (id : Nat) : ObjOK E id := by
  apply objOK_of_rep C.n2t E id (g id) (hv.rep id) (hv.scale id)
  · intro hg
    rcases hv.ord id with ho | ⟨_, hf⟩
    · exact ⟨C.n, by simp [ho, truthy, ne_of_gt C.hpos], C.hpos, hv.table id hg⟩
    · rw [hf] at hg; cases hg
  · exact hv.notable id

theorem Valid.repS (hv : Valid C E g) (id : Nat) : PJRep p a b C.H (mkPJ (E.info id) (E.cS id)) (g id) := by
  obtain ⟨S, hS, hrep, _⟩ := pjScale_correct (hv.rep id)
  rw [hv.scale id] at hS
  injection hS with hS
  subst hS
  exact hrep

theorem Valid.repGood (hv : Valid C E g) {id : Nat} {c : Coords} (hc : GoodC E id c) :
    PJRep p a b C.H (mkPJ (E.info id) c) (g id) := by
  rcases hc with rfl | rfl
  · exact hv.rep id
  · exact hv.repS id

theorem Valid.orderOK (hv : Valid C E g) (id : Nat) (c : Coords) : OrderOK C (mkPJ (E.info id) c) := hv.ord id

/-- the element as a member of ⟨G⟩ -/
def Valid.gH (hv : Valid C E g) (id : Nat) : C.H := ⟨g id, (hv.rep id).mem⟩

theorem Valid.genOK (hv : Valid C E g) (id : Nat) (c : Coords) : PointObj.GenOK (mkPJ (E.info id) c) := by
  intro hg
  rcases hv.ord id with ho | ⟨_, hf⟩
  · exact ⟨C.n, by show truthy (E.info id).order = _; simp [ho, truthy, ne_of_gt C.hpos]⟩
  · have : (E.info id).generator = true := hg
    rw [hf] at this; cases this

/-- every admissible (snapshot, table) pair is a hidden state of the same value in the sense of C19 -/
theorem Valid.hs (hp2 : p ≠ 2) (hv : Valid C E g) {id : Nat} {c : Coords} (hc : GoodC E id c) {t : Table}
    (ht : t = [] ∨ t = E.tF id) : C19g.HS C (mkPJ (E.info id) c) t (hv.gH id) := by
  have hord : (mkPJ (E.info id) c).order = some C.n ∨ (mkPJ (E.info id) c).order = none := by
    rcases hv.ord id with ho | ⟨ho, _⟩
    · exact Or.inl ho
    · exact Or.inr ho
  have h0 : C19g.HS C (mkPJ (E.info id) c) [] (hv.gH id) := ⟨hv.repGood hc, hord, Or.inl rfl⟩
  rcases ht with rfl | rfl
  · exact h0
  · by_cases hg : (E.info id).generator = true
    · let _ : DecidableEq C.H := Classical.decEq _
      have RI := C19g.rep_indep hp2 C (E.info id).curve (hv.rep id).1
      obtain ⟨t', et, hst, _⟩ := RI.hs_precompute h0 (hv.genOK id c)
      have hpre : maybePrecompute (mkPJ (E.info id) c) [] = .ok (E.tF id) := by
        have hgen : (mkPJ (E.info id) c).generator = true := hg
        simp only [maybePrecompute, hgen, Bool.not_true, List.isEmpty_nil, Bool.false_or, Bool.false_eq_true, if_false]
        exact precompute_good (hv.objOK id) hg hc
      rw [hpre] at et
      injection et with et
      subst et
      exact hst
    · rw [hv.notable id (by simpa using hg)]
      exact h0

/-! ### the canonical-data operations -/

theorem seqX_val (hv : Valid C E g) {id : Nat} {c : Coords} (hc : GoodC E id c) :
    seqX (E.info id) c = .ok (.int (xOf (g id))) := by
  simp only [seqX, (C19g.xyOf_spec (hv.repGood hc)).1, Except.map]

theorem seqY_val (hv : Valid C E g) {id : Nat} {c : Coords} (hc : GoodC E id c) :
    seqY (E.info id) c = .ok (.int (C19g.yOf (g id))) := by
  simp only [seqY, (C19g.xyOf_spec (hv.repGood hc)).2, Except.map]

theorem canon_obj (hv : Valid C E g) (id : Nat) {c : Coords} (hc : GoodC E id c) :
    canon (.jac (mkPJ (E.info id) c)) = .ok (canonOf (g id)) :=
  canon_spec (show PtRep p a b C.H (.jac (mkPJ (E.info id) c)) (g id) from hv.repGood hc)

theorem seqToAffine_val (hv : Valid C E g) {id : Nat} {c : Coords} (hc : GoodC E id c) (id0 : Nat) :
    obs E id0 (seqToAffine (E.info id) c) = .ok (.pt (canonOf (g id))) := by
  obtain ⟨A, e, hA, _⟩ := GroupInterface.to_affine (hv.repGood hc)
  simp only [seqToAffine, e, Except.map, obs]
  rw [canon_spec (show PtRep p a b C.H (.aff A) (g id) from hA)]

theorem seqDouble_val (hv : Valid C E g) {id : Nat} {c : Coords} (hc : GoodC E id c) (id0 : Nat) :
    obs E id0 (seqDouble (E.info id) c) = .ok (.pt (canonOf (g id + g id))) := by
  simp only [seqDouble, obs]
  rw [canon_spec (GroupInterface.double C (hv.repGood hc))]
  rfl

theorem seqNeg_val (hv : Valid C E g) {id : Nat} {c : Coords} (hc : GoodC E id c) (id0 : Nat) :
    obs E id0 (seqNeg (E.info id) c) = .ok (.pt (canonOf (-(g id)))) := by
  simp only [seqNeg, obs]
  rw [canon_spec (show PtRep p a b C.H (.jac (pjNeg (mkPJ (E.info id) c))) (-(g id)) from
    GroupInterface.neg (hv.repGood hc))]
  rfl

theorem isInf_good_false (hv : Valid C E g) {id : Nat} {c : Coords} (hc : GoodC E id c) : isInfC c = false :=
  pjEqInf_false (hv.repGood hc)

open Classical in
theorem seqEq_val (hv : Valid C E g) {s o : Nat} {ca cb : Coords} (ha : GoodC E s ca) (hb : GoodC E o cb) :
    seqEq (E.info s) ca (E.info o) cb = .ok (.bool (decide (g s = g o))) := by
  have hP := hv.repGood ha
  have hQ := hv.repGood hb
  have heqv : ((E.info s).curve.eqv (E.info o).curve) = true := hP.1.eqv hQ.1
  have hia := isInf_good_false hv ha
  have hib := isInf_good_false hv hb
  have hiff := ptEq_iff C.n2t (show PtRep p a b C.H (.jac (mkPJ (E.info s) ca)) (g s) from hP)
    (show PtRep p a b C.H (.jac (mkPJ (E.info o) cb)) (g o) from hQ)
  have hpt : ptEq (.jac (mkPJ (E.info s) ca)) (.jac (mkPJ (E.info o) cb)) =
      coordsEq (E.info s).curve.p ca.1 ca.2.1 ca.2.2 cb.1 cb.2.1 cb.2.2 := by
    have h1 : ((mkPJ (E.info s) ca).curve.eqv (mkPJ (E.info o) cb).curve) = true := heqv
    simp only [isInfC] at hia hib
    simp only [ptEq, pjEq, h1, Bool.not_true, Bool.false_eq_true, if_false, eqCoords]
    have : ((mkPJ (E.info s) ca).y == 0 || (mkPJ (E.info s) ca).z == 0 || (mkPJ (E.info o) cb).y == 0 ||
        (mkPJ (E.info o) cb).z == 0) = false := by
      show (ca.2.1 == 0 || ca.2.2 == 0 || cb.2.1 == 0 || cb.2.2 == 0) = false
      rw [Bool.or_assoc, Bool.or_assoc, ← Bool.or_assoc (ca.2.1 == 0)]
      simp only [hia, Bool.false_or, hib]
    simp only [this, Bool.false_eq_true, if_false]
    rfl
  simp only [seqEq, heqv, Bool.not_true, Bool.false_eq_true, if_false, hia, hib, Bool.or_self]
  congr 2
  rw [← hpt]
  by_cases h : g s = g o
  · simp only [h, decide_true]; exact hiff.mpr h
  · simp only [h, decide_false]
    cases hb' : ptEq (.jac (mkPJ (E.info s) ca)) (.jac (mkPJ (E.info o) cb)) with
    | false => rfl
    | true => exact absurd (hiff.mp hb') h

/-! ### point-valued results: what a result denotes -/

/-- a result value `o` denotes the group element `v`: the shared object `i` itself (then `v` is its value), INFINITY, or
a freshly created stored point -/
def OutDen (C : Ctx p a b) (g : Nat → Grp (a : ZMod p) (b : ZMod p)) (o : Out) (v : Grp (a : ZMod p) (b : ZMod p)) : Prop :=
  match o with
  | .obj i => v = g i
  | .pt .infinity => v = 0
  | .pt (.jac J) => PJRep p a b C.H J v
  | _ => False

theorem OutDen.obs (hv : Valid C E g) {o : Out} {v} (h : OutDen C g o v) (id0 : Nat) :
    obs E id0 (.ok o) = .ok (.pt (canonOf v)) := by
  cases o with
  | obj i =>
    have : v = g i := h
    subst this
    simp only [ThreadProgs.obs, canon_obj hv i (Or.inl rfl), Except.map]
  | pt R =>
    cases R with
    | infinity => have : v = 0 := h; subst this; rfl
    | jac J =>
      simp only [ThreadProgs.obs]
      rw [canon_spec (show PtRep p a b C.H (.jac J) v from h)]; rfl
    | aff A => exact absurd h (by simp [OutDen])
  | none => exact absurd h (by simp [OutDen])
  | int n => exact absurd h (by simp [OutDen])
  | bool b => exact absurd h (by simp [OutDen])
  | state c t => exact absurd h (by simp [OutDen])
  | pair x y => exact absurd h (by simp [OutDen])

/-- a `PtRep` point value that is not a legacy point is an `OutDen` -/
theorem outDen_of_ptRep {R : Pt} {v} (h : PtRep p a b C.H R v) (hna : ∀ A, R ≠ .aff A) : OutDen C g (.pt R) v := by
  cases R with
  | infinity => exact h
  | jac J => exact h
  | aff A => exact absurd rfl (hna A)

/-- what an operand of `+` (a shared object or a call result) denotes -/
def OpDen (C : Ctx p a b) (g : Nat → Grp (a : ZMod p) (b : ZMod p)) (s : Loc) (o : Obj) (v : Grp (a : ZMod p) (b : ZMod p)) : Prop :=
  match s.fresh o with
  | .shared => v = g (s.obj o)
  | .inf => v = 0
  | .pj P => PJRep p a b C.H P v

theorem opDen_retOperand {s : Loc} {o : Obj} {v} (h : OpDen C g s o v) : OutDen C g (retOperand s o) v := by
  unfold OpDen at h
  unfold retOperand
  cases hf : s.fresh o with
  | shared => rw [hf] at h; exact h
  | inf => rw [hf] at h; exact h
  | pj P => rw [hf] at h; exact h

/-- snapshots of an operand: whether it is the identity, and (if not) the stored point it is -/
theorem opDen_snapshot (hv : Valid C E g) {s : Loc} {o : Obj} {v} (h : OpDen C g s o v) {c : Coords}
    (hc : GoodOp E s o c) :
    (isInfC c = true ∧ v = 0) ∨ (isInfC c = false ∧ PJRep p a b C.H (mkPJ (infoOf E.info s o) c) v) := by
  unfold OpDen at h
  unfold GoodOp at hc
  unfold infoOf
  cases hf : s.fresh o with
  | shared =>
    rw [hf] at h hc
    simp only
    subst h
    exact Or.inr ⟨isInf_good_false hv hc, hv.repGood hc⟩
  | inf =>
    rw [hf] at h hc
    subst hc
    exact Or.inl ⟨by decide, h⟩
  | pj P =>
    rw [hf] at h hc
    simp only
    subst hc
    have e : mkPJ ⟨P.curve, P.order, P.generator⟩ (asCoords (freshVal (.pj P) .coords)) = P := rfl
    exact Or.inr ⟨by rw [show isInfC (asCoords (freshVal (Fresh.pj P) Fld.coords)) = pjEqInf P from rfl]; exact pjEqInf_false h,
      by rw [e]; exact h⟩

/-- **`A + B`** on shared objects or call results: every accepted result denotes the sum -/
theorem addG_den (hp2 : p ≠ 2) (hv : Valid C E g) {s : Loc} {va vb} (ha : OpDen C g s .self va) (hb : OpDen C g s .other vb)
    {o : Out} (h : accAddG E s (.ok o)) : OutDen C g o (va + vb) := by
  obtain ⟨ca, cb, hca, hcb, hr⟩ := h
  rcases opDen_snapshot hv ha hca with ⟨hia, h0⟩ | ⟨hia, hP⟩
  · simp only [seqAddG, hia, if_true, Except.ok.injEq] at hr
    subst hr; subst h0
    rw [zero_add]; exact opDen_retOperand hb
  · rcases opDen_snapshot hv hb hcb with ⟨hib, h0⟩ | ⟨hib, hQ⟩
    · simp only [seqAddG, hia, hib, Bool.false_eq_true, if_false, if_true, Except.ok.injEq] at hr
      subst hr; subst h0
      rw [add_zero]; exact opDen_retOperand ha
    · have heqv : ((infoOf E.info s .self).curve.eqv (infoOf E.info s .other).curve) = true := hP.1.eqv hQ.1
      obtain ⟨R, e, hR⟩ := pjAddCore_correct hp2 C.n2t hP hQ
      simp only [seqAddG, hia, hib, Bool.false_eq_true, if_false, heqv, Bool.not_true, e, Except.map,
        Except.ok.injEq] at hr
      subst hr
      apply outDen_of_ptRep hR
      intro A hA
      rw [hA] at e
      unfold pjAddCore at e
      split at e
      · cases e
      · injection e with e
        exact absurd e (C19g.coordsOut_not_aff _ _ _ _)

theorem addG_no_error (hp2 : p ≠ 2) (hv : Valid C E g) {s : Loc} {va vb} (ha : OpDen C g s .self va)
    (hb : OpDen C g s .other vb) {e : PyErr} (h : accAddG E s (.error e)) : False := by
  obtain ⟨ca, cb, hca, hcb, hr⟩ := h
  rcases opDen_snapshot hv ha hca with ⟨hia, h0⟩ | ⟨hia, hP⟩
  · simp [seqAddG, hia] at hr
  · rcases opDen_snapshot hv hb hcb with ⟨hib, h0⟩ | ⟨hib, hQ⟩
    · simp [seqAddG, hia, hib] at hr
    · have heqv : ((infoOf E.info s .self).curve.eqv (infoOf E.info s .other).curve) = true := hP.1.eqv hQ.1
      obtain ⟨R, e', hR⟩ := pjAddCore_correct hp2 C.n2t hP hQ
      simp [seqAddG, hia, hib, heqv, e', Except.map] at hr

/-- **`P * k`**: every accepted result denotes `k • g` (the object itself for k = 1), and `*` never raises -/
theorem mul_den (hp2 : p ≠ 2) (hv : Valid C E g) {id : Nat} {k : ℤ} {r : Res Out} (h : accMul E id k r) :
    ∃ o, r = .ok o ∧ OutDen C g o (k • g id) ∧ (∀ i, o = .obj i → i = id) := by
  obtain ⟨c, t, hc, ht, hr⟩ := h
  have hy : (c.2.1 == 0) = false := by
    have : c.2.1 ≠ 0 := (hv.repGood hc).y_ne
    simpa using this
  by_cases hk0 : k = 0
  · subst hk0
    simp only [seqMul, hy, beq_self_eq_true, Bool.or_true, if_true] at hr
    exact ⟨_, hr, by simp [OutDen], by intro i hi; cases hi⟩
  · have hk0' : (k == 0) = false := by simpa using hk0
    by_cases hk1 : k = 1
    · subst hk1
      simp only [seqMul, hy, hk0', Bool.or_self, Bool.false_eq_true, if_false, beq_self_eq_true, if_true] at hr
      exact ⟨_, hr, by simp [OutDen], by intro i hi; injection hi with hi; exact hi.symm⟩
    · have hk1' : (k == 1) = false := by simpa using hk1
      let _ : DecidableEq C.H := Classical.decEq _
      have RI := C19g.rep_indep hp2 C (E.info id).curve (hv.rep id).1
      obtain ⟨v, ev, hvv⟩ := RI.hs_mul k (hv.hs hp2 hc ht) (hv.genOK id c) hk0 hk1
      simp only [seqMul, hy, hk0', hk1', Bool.or_self, Bool.false_eq_true, if_false, ev, Except.map] at hr
      refine ⟨_, hr, ?_, by intro i hi; cases hi⟩
      rcases hvv with ⟨e1, e2⟩ | ⟨J, e1, _, hJ, _, _⟩
      · subst e1
        have : k • g id = 0 := by
          have := congrArg Subtype.val e2
          simpa [Valid.gH] using this
        simp [OutDen, this]
      · subst e1
        have : PJRep p a b C.H J (k • g id) := by
          have := hJ.1
          simpa [Valid.gH] using this
        exact this

theorem opDen_sum_self {a' b' : Nat} {o1 o2 : Out} {v} (h : OutDen C g o1 v) (hid : ∀ i, o1 = .obj i → i = a') :
    OpDen C g (sumLoc a' b' o1 o2) .self v := by
  unfold OpDen
  cases o1 with
  | obj i =>
    have := hid i rfl; subst this
    exact h
  | pt R =>
    cases R with
    | infinity => exact h
    | jac J => exact h
    | aff A => exact absurd h (by simp [OutDen])
  | none => exact absurd h (by simp [OutDen])
  | int n => exact absurd h (by simp [OutDen])
  | bool b => exact absurd h (by simp [OutDen])
  | state c t => exact absurd h (by simp [OutDen])
  | pair x y => exact absurd h (by simp [OutDen])

theorem opDen_sum_other {a' b' : Nat} {o1 o2 : Out} {v} (h : OutDen C g o2 v) (hid : ∀ i, o2 = .obj i → i = b') :
    OpDen C g (sumLoc a' b' o1 o2) .other v := by
  unfold OpDen
  cases o2 with
  | obj i =>
    have := hid i rfl; subst this
    exact h
  | pt R =>
    cases R with
    | infinity => exact h
    | jac J => exact h
    | aff A => exact absurd h (by simp [OutDen])
  | none => exact absurd h (by simp [OutDen])
  | int n => exact absurd h (by simp [OutDen])
  | bool b => exact absurd h (by simp [OutDen])
  | state c t => exact absurd h (by simp [OutDen])
  | pair x y => exact absurd h (by simp [OutDen])

theorem opDen_of_outDen {G : Nat} {o : Out} {v} (h : OutDen C g o v) (s : Loc) (hs : s.self = objOf o G)
    (hf : s.selfFresh = freshOf o) : OpDen C g s .self v := by
  unfold OpDen
  simp only [Loc.fresh, Loc.obj, hf, hs]
  cases o with
  | obj i => exact h
  | pt R =>
    cases R with
    | infinity => exact h
    | jac J => exact h
    | aff A => exact absurd h (by simp [OutDen])
  | none => exact absurd h (by simp [OutDen])
  | int n => exact absurd h (by simp [OutDen])
  | bool b => exact absurd h (by simp [OutDen])
  | state c t => exact absurd h (by simp [OutDen])
  | pair x y => exact absurd h (by simp [OutDen])

/-- **`self * ka + other * kb`** (the fall-back paths of `mul_add`) denotes `ka • g_self + kb • g_other` -/
theorem sum_den (hp2 : p ≠ 2) (hv : Valid C E g) {a' b' : Nat} {ka kb : ℤ} {r : Res Out} (h : accSum E a' b' ka kb r) :
    ∃ o, r = .ok o ∧ OutDen C g o (ka • g a' + kb • g b') := by
  rcases h with ⟨e, he, _⟩ | ⟨o1, h1, h⟩
  · obtain ⟨o, ho, _⟩ := mul_den hp2 hv he; cases ho
  · obtain ⟨o1', e1, d1, i1⟩ := mul_den hp2 hv h1
    injection e1 with e1; subst e1
    rcases h with ⟨e, he, _⟩ | ⟨o2, h2, hadd⟩
    · obtain ⟨o, ho, _⟩ := mul_den hp2 hv he; cases ho
    · obtain ⟨o2', e2, d2, i2⟩ := mul_den hp2 hv h2
      injection e2 with e2; subst e2
      have ha := opDen_sum_self (a' := a') (b' := b') (o2 := o2) d1 i1
      have hb := opDen_sum_other (a' := a') (b' := b') (o1 := o1) d2 i2
      cases r with
      | error e => exact absurd hadd (fun h => addG_no_error hp2 hv ha hb h)
      | ok o => exact ⟨o, rfl, addG_den hp2 hv ha hb hadd⟩

theorem redMA_smul (hv : Valid C E g) (id : Nat) (k : ℤ) {h : Grp (a : ZMod p) (b : ZMod p)} (hh : h ∈ C.H) :
    redMA (E.info id) k • h = k • h := by
  unfold redMA
  rcases hv.ord id with ho | ⟨ho, _⟩
  · have : truthy (E.info id).order = some C.n := by rw [ho]; exact C19g.truthy_n C
    simp only [this, pmod]
    rw [Int.fmod_eq_emod_of_nonneg k (le_of_lt C.hpos)]
    exact C.smul_mod hh k
  · simp [ho, truthy]

theorem mulAddLoop_eq (i i' : ObjInfo) (c1 c2 : Coords) (sm om : ℤ) :
    mulAddLoop i c1 c2 sm om = PointObj.mulAddLoop (mkPJ i c1) (mkPJ i' c2) sm om := rfl

theorem pApBInf_eq (i i' : ObjInfo) (c1 c2 : Coords) :
    pApBInf i c1 c2 = PointObj.tripleInf (Gen.k_add (mkPJ i c1).x (mkPJ i c1).y (mkPJ i c1).z (mkPJ i' c2).x (mkPJ i' c2).y
      (mkPJ i' c2).z (mkPJ i c1).curve.p (mkPJ i c1).curve.a) := rfl

/-- **`a.mul_add(ka, b, kb)`**: every accepted result denotes `ka • g_a + kb • g_b` -/
theorem mulAdd_den (hp2 : p ≠ 2) (hv : Valid C E g) {s o : Nat} {ka kb : ℤ} {r : Res Out} (h : accMulAdd E s o ka kb r) :
    ∃ out, r = .ok out ∧ OutDen C g out (ka • g s + kb • g o) := by
  have hinf : isInfC (E.c0 o) = false := isInf_good_false hv (Or.inl rfl)
  simp only [accMulAdd, hinf, Bool.false_or] at h
  rcases h with ⟨hc, hm⟩ | ⟨hc, hk, hm⟩ | ⟨hc, hk, _, hsum⟩ | ⟨hc, hk, _, _, hsum⟩ | ⟨hc, hk, _, hpab, hr⟩
  · have : kb = 0 := by simpa using hc
    subst this
    obtain ⟨out, e, d, _⟩ := mul_den hp2 hv hm
    exact ⟨out, e, by simpa using d⟩
  · have : ka = 0 := by simpa using hk
    subst this
    obtain ⟨out, e, d, _⟩ := mul_den hp2 hv hm
    exact ⟨out, e, by simpa using d⟩
  · exact sum_den hp2 hv hsum
  · obtain ⟨out, e, d⟩ := sum_den hp2 hv hsum
    rw [redMA_smul hv s ka (hv.rep s).mem, redMA_smul hv s kb (hv.rep o).mem] at d
    exact ⟨out, e, d⟩
  · refine ⟨_, hr, ?_⟩
    have hP := hv.repS s
    have hQ := hv.repS o
    have hne : g s + g o ≠ 0 := by
      intro h0
      have := (C19g.sumInf_iff hp2 C hP hQ).mpr h0
      rw [← pApBInf_eq (E.info s) (E.info o)] at this
      rw [this] at hpab; cases hpab
    have hrep := C19g.mulAddLoop_rep hp2 C hP hQ (hv.objOK s).zS (hv.objOK o).zS hne
      (redMA (E.info s) ka) (redMA (E.info s) kb)
    rw [redMA_smul hv s ka (hv.rep s).mem, redMA_smul hv s kb (hv.rep o).mem] at hrep
    rw [← mulAddLoop_eq (E.info s) (E.info o)] at hrep
    apply outDen_of_ptRep hrep
    intro A hA
    exact absurd hA (C19g.coordsOut_not_aff _ _ _ _)

/-! ### the value of every operation -/

theorem x_val (hv : Valid C E g) {id : Nat} {r : Res Out}
    (h : r = seqX (E.info id) (E.c0 id) ∨ r = seqX (E.info id) (E.cS id)) : r = .ok (.int (xOf (g id))) := by
  rcases h with h | h
  · rw [h, seqX_val hv (Or.inl rfl)]
  · rw [h, seqX_val hv (Or.inr rfl)]

theorem y_val (hv : Valid C E g) {id : Nat} {r : Res Out}
    (h : r = seqY (E.info id) (E.c0 id) ∨ r = seqY (E.info id) (E.cS id)) : r = .ok (.int (C19g.yOf (g id))) := by
  rcases h with h | h
  · rw [h, seqY_val hv (Or.inl rfl)]
  · rw [h, seqY_val hv (Or.inr rfl)]

open Classical in
theorem eq_val (hv : Valid C E g) {s o : Nat} {r : Res Out} (h : accEq E s o r) :
    r = .ok (.bool (decide (g s = g o))) := by
  obtain ⟨ca, cb, ha, hb, hr⟩ := h
  rw [hr, seqEq_val hv ha hb]

theorem add_val (hp2 : p ≠ 2) (hv : Valid C E g) {s o : Nat} {r : Res Out} (h : accAdd E s o r) (id0 : Nat) :
    obs E id0 r = .ok (.pt (canonOf (g s + g o))) := by
  have h' : accAddG E { self := s, other := o } r := h
  have ha : OpDen C g { self := s, other := o } .self (g s) := rfl
  have hb : OpDen C g { self := s, other := o } .other (g o) := rfl
  cases r with
  | error e => exact absurd h' (fun h => addG_no_error hp2 hv ha hb h)
  | ok out => exact (addG_den hp2 hv ha hb h').obs hv id0

theorem mul_val (hp2 : p ≠ 2) (hv : Valid C E g) {id : Nat} {k : ℤ} {r : Res Out} (h : accMul E id k r) (id0 : Nat) :
    obs E id0 r = .ok (.pt (canonOf (k • g id))) := by
  obtain ⟨o, e, d, _⟩ := mul_den hp2 hv h
  subst e
  exact d.obs hv id0

theorem mulAdd_val (hp2 : p ≠ 2) (hv : Valid C E g) {s o : Nat} {ka kb : ℤ} {r : Res Out}
    (h : accMulAdd E s o ka kb r) (id0 : Nat) : obs E id0 r = .ok (.pt (canonOf (ka • g s + kb • g o))) := by
  obtain ⟨out, e, d⟩ := mulAdd_den hp2 hv h
  subst e
  exact d.obs hv id0

theorem fromAffine_val (hp2 : p ≠ 2) (hv : Valid C E g) {id : Nat} {gen : ℤ} {r : Res Out}
    (h : ∃ ca cb, GoodC E id ca ∧ GoodC E id cb ∧
      r = fromAffineOut (E.info id) gen (seqX (E.info id) ca) (seqY (E.info id) cb)) (id0 : Nat) :
    obs E id0 r = .ok (.pt (canonOf (g id))) := by
  obtain ⟨ca, cb, hca, hcb, hr⟩ := h
  rw [hr, seqX_val hv hca, seqY_val hv hcb]
  simp only [fromAffineOut]
  let _ : DecidableEq C.H := Classical.decEq _
  have RI := C19g.rep_indep hp2 C (E.info id).curve (hv.rep id).1
  have hs := RI.hs_fromXY (gen != 0) (hv.hs hp2 (id := id) (Or.inl rfl) (Or.inl rfl))
  have hrep : PJRep p a b C.H ⟨(E.info id).curve, xOf (g id), C19g.yOf (g id), 1, (E.info id).order, gen != 0⟩ (g id) := hs.1
  simp only [obs]
  rw [canon_spec (show PtRep p a b C.H (.jac _) (g id) from hrep)]
  rfl

/-- the encoders: x() and y() of (possibly different, but equal-valued) referents of the key -/
theorem keyXY_val (hv : Valid C E g) {kid : Nat} {f : Out → ℤ → ℤ} {r : Res Out} {t0 : Nat} (ht0 : E.targets kid t0)
    (h : accKeyXY E kid (fun ox oy r => r = pairOf ox oy (f oy)) r) :
    r = .ok (.pair (xOf (g t0)) (f (.int (C19g.yOf (g t0))) (C19g.yOf (g t0)))) := by
  obtain ⟨t1, ht1, h⟩ := h
  have e1 : g t1 = g t0 := hv.targets kid t1 t0 ht1 ht0
  rcases h with ⟨e, he, _⟩ | ⟨ox, hox, t2, ht2, h⟩
  · have := x_val hv he; cases this
  · have hx := x_val hv hox
    injection hx with hx; subst hx
    have e2 : g t2 = g t0 := hv.targets kid t2 t0 ht2 ht0
    rcases h with ⟨e, he, _⟩ | ⟨oy, hoy, hr⟩
    · have := y_val hv he; cases this
    · have hy := y_val hv hoy
      injection hy with hy; subst hy
      rw [hr, e1, e2]
      rfl

theorem keyPrecompute_val (hp2 : p ≠ 2) (hv : Valid C E g) {kid : Nat} {lz : Bool} {r : Res Out}
    (h : accKeyPrecompute E kid lz r) : r = .ok .none := by
  obtain ⟨t1, ht1, h⟩ := h
  rcases h with ⟨e, he, _⟩ | ⟨o1, _, h⟩
  · have := fromAffine_val hp2 hv (gen := 1) he 0
    simp [obs] at this
  · cases lz with
    | true => simpa using h
    | false =>
      simp only [Bool.false_eq_true, if_false] at h
      obtain ⟨t2, _, h⟩ := h
      rcases h with ⟨e, he, _⟩ | ⟨o2, _, hr⟩
      · obtain ⟨o, ho, _⟩ := mul_den hp2 hv he; cases ho
      · exact hr

/-- x() of a call result of the generator: the affine x of what it denotes (0 for INFINITY, as the model computes) -/
theorem xofRes_val (hv : Valid C E g) {G : Nat} {o : Out} {v} (hd : OutDen C g o v)
    {rx : Res Out} (h : accXofRes E G o rx) : rx = .ok (.int (xOf v)) := by
  obtain ⟨c, hc, hr⟩ := h
  have hop : OpDen C g { self := objOf o G, selfFresh := freshOf o } .self v := opDen_of_outDen hd _ rfl rfl
  rcases opDen_snapshot hv hop hc with ⟨hi, h0⟩ | ⟨hi, hP⟩
  · -- INFINITY: the local operand has coordinates (0, 0, 1)
    subst h0
    unfold GoodOp at hc
    cases o with
    | pt R =>
      cases R with
      | infinity =>
        simp only [Loc.fresh, freshOf] at hc
        subst hc
        rw [hr]
        simp [seqX, pjX, mkPJ, freshVal, asCoords, Except.map, xOf]
      | jac J =>
        exfalso
        simp only [Loc.fresh, freshOf] at hc
        subst hc
        have h1 : isInfC (asCoords (freshVal (Fresh.pj J) Fld.coords)) = pjEqInf J := rfl
        rw [h1, pjEqInf_false (show PJRep p a b C.H J 0 from hd)] at hi
        cases hi
      | aff A => exact absurd hd (by simp [OutDen])
    | obj i =>
      simp only [Loc.fresh, freshOf, Loc.obj, objOf] at hc
      rw [isInf_good_false hv hc] at hi; cases hi
    | none => exact absurd hd (by simp [OutDen])
    | int n => exact absurd hd (by simp [OutDen])
    | bool b => exact absurd hd (by simp [OutDen])
    | state c t => exact absurd hd (by simp [OutDen])
    | pair x y => exact absurd hd (by simp [OutDen])
  · rw [hr]
    have hP' : PJRep p a b C.H (mkPJ (E.info (objOf o G)) c) v := ⟨(hv.rep (objOf o G)).1, hP.2.1, hP.2.2⟩
    simp only [seqX, (C19g.xyOf_spec hP').1, Except.map]

/-- `Private_key.sign`: THE signature (or the one exception) determined by the nonce, the hash, the secret and the
element the generator denotes -/
theorem keySign_val (hp2 : p ≠ 2) (hv : Valid C E g) {G : Nat} {hash rk d : ℤ} {r : Res Out}
    (h : accKeySign E G hash rk d r) :
    r = signPost (orderOf (E.info G)) (pmod rk (orderOf (E.info G))) hash d
      (.int (xOf (signMult (orderOf (E.info G)) rk • g G))) := by
  rcases h with ⟨e, he, _⟩ | ⟨o, ho, h⟩
  · obtain ⟨o', e', _⟩ := mul_den hp2 hv he; cases e'
  · obtain ⟨o', e', d', i'⟩ := mul_den hp2 hv ho
    injection e' with e'; subst e'
    rcases h with ⟨e, he, _⟩ | ⟨ox, hox, hr⟩
    · have := xofRes_val hv d' he; cases this
    · have := xofRes_val hv d' hox
      injection this with this; subst this
      exact hr

open Classical in
/-- is the result of `G.mul_add` the identity? -/
theorem infOfRes_val (hv : Valid C E g) {G : Nat} {o : Out} {v} (hd : OutDen C g o v)
    {rb : Res Out} (h : accInfOfRes E G o rb) : rb = .ok (.bool (decide (v = 0))) := by
  obtain ⟨c, hc, hr⟩ := h
  have hop : OpDen C g { self := objOf o G, otherInf := true, selfFresh := freshOf o } .self v :=
    opDen_of_outDen hd _ rfl rfl
  rw [hr]
  rcases opDen_snapshot hv hop hc with ⟨hi, h0⟩ | ⟨hi, hP⟩
  · simp [hi, h0]
  · have : v ≠ 0 := good_ne_zero hP.2.2
    simp [hi, this]

open Classical in
/-- the verdict of `verifies` as a function of the denoted elements -/
noncomputable def verifyVal (n hash r s : ℤ) (gG gT : Grp (a : ZMod p) (b : ZMod p)) : Res Out :=
  if r < 1 || r > n - 1 then .ok (.bool false)
  else if s < 1 || s > n - 1 then .ok (.bool false)
  else match inverseMod s n with
    | .error e => .error e
    | .ok c =>
      let v := pmod (hash * c) n • gG + pmod (r * c) n • gT
      if v = 0 then .ok (.bool false) else verifyPost n r (.int (xOf v))

open Classical in
/-- `Public_key.verifies`: THE verdict determined by hash, (r, s) and the elements the generator and the key's point
denote (all allowed referents of the key denote the same element) -/
theorem keyVerifies_val (hp2 : p ≠ 2) (hv : Valid C E g) {kid G : Nat} {hash r s : ℤ} {res : Res Out} {t0 : Nat}
    (ht0 : E.targets kid t0) (h : accKeyVerifies E kid G hash r s res) :
    res = verifyVal (orderOf (E.info G)) hash r s (g G) (g t0) := by
  unfold accKeyVerifies at h
  unfold verifyVal
  simp only at h ⊢
  split
  · rename_i h1; simpa [h1] using h
  · rename_i h1
    simp only [h1, Bool.false_eq_true, if_false] at h
    split
    · rename_i h2; simpa [h2] using h
    · rename_i h2
      simp only [h2, Bool.false_eq_true, if_false] at h
      cases hc : inverseMod s (orderOf (E.info G)) with
      | error e => simpa [hc] using h
      | ok c =>
        simp only [hc] at h ⊢
        obtain ⟨t, ht, h⟩ := h
        have et : g t = g t0 := hv.targets kid t t0 ht ht0
        rcases h with ⟨e, he, _⟩ | ⟨o, ho, h⟩
        · obtain ⟨out, eo, _⟩ := mulAdd_den hp2 hv he; cases eo
        · obtain ⟨out, eo, d⟩ := mulAdd_den hp2 hv ho
          injection eo with eo; subst eo
          rw [et] at d
          rcases h with ⟨e, he, _⟩ | ⟨ob, hob, h⟩
          · have := infOfRes_val hv d he; cases this
          · have hb := infOfRes_val hv d hob
            injection hb with hb; subst hb
            simp only [isTrue] at h
            split
            · rename_i hz
              simpa [hz] using h
            · rename_i hz
              simp only [hz, decide_false, Bool.false_eq_true, if_false] at h
              rcases h with ⟨e, he, _⟩ | ⟨ox, hox, hr⟩
              · have := xofRes_val hv d he; cases this
              · have := xofRes_val hv d hox
                injection this with this; subst this
                exact hr

end
end ThreadProgs
