import Proofs.NTCip1
import Mathlib.Algebra.QuadraticAlgebra.Defs
import Mathlib.NumberTheory.LegendreSymbol.JacobiSymbol
import Mathlib.FieldTheory.Finite.Basic
import Mathlib.Algebra.CharP.Lemmas
import Mathlib.Algebra.CharP.Algebra
/-!
# NTCip2 — the algebra behind the `p ≡ 1 (mod 8)` branch of `square_root_mod_prime` (Cipolla / Lucas)

In `K = 𝔽_p[x]/(x² − b x + a)` (`QuadraticAlgebra (ZMod p) (-a) b`; not assumed to be a field) with
`D = b² − 4a` a non-residue and `a` a residue, `w = x^((p+1)/2)` is a constant `w₀` with `w₀² = a`.
-/
namespace NTCip
open NT NTProofs

variable {p : ℕ} [hp : Fact p.Prime]

/-- In any commutative ring of characteristic p containing 𝔽_p: if t² = b t − a, p odd and
    D = b² − 4a is a non-residue mod p, then t^p = b − t and t^(p+1) = a. -/
theorem cipolla_core {K : Type*} [CommRing K] [Algebra (ZMod p) K] [CharP K p] (hp2 : p ≠ 2)
    (a b : ZMod p) (t : K) (ht : t ^ 2 = algebraMap _ K b * t - algebraMap _ K a)
    (hD : (b ^ 2 - 4 * a) ^ (p / 2) = -1) :
    t ^ p = algebraMap _ K b - t ∧ t ^ (p + 1) = algebraMap _ K a := by
  set B := algebraMap (ZMod p) K b with hB
  set A := algebraMap (ZMod p) K a with hA
  set δ := 2 * t - B with hδ
  have hδ2 : δ ^ 2 = algebraMap (ZMod p) K (b ^ 2 - 4 * a) := by
    simp only [hδ, map_sub, map_mul, map_pow, map_ofNat, ← hB, ← hA]
    linear_combination 4 * ht
  have hodd : p % 2 = 1 := hp.out.eq_two_or_odd.resolve_left hp2
  have hpe : p = 2 * (p / 2) + 1 := by omega
  -- δ^p = -δ
  have hδp : δ ^ p = -δ := by
    rw [hpe, pow_succ, pow_mul, hδ2, ← map_pow, hD]; simp
  -- frobenius is additive and fixes the prime field
  have hBp : B ^ p = B := by rw [hB, ← map_pow, ZMod.pow_card]
  have h2p : (2 : K) ^ p = 2 := by
    have : (2 : K) = algebraMap (ZMod p) K 2 := (map_ofNat (algebraMap (ZMod p) K) 2).symm
    rw [this, ← map_pow, ZMod.pow_card]
  have h2t : (2 * t) ^ p = 2 * (B - t) := by
    have : 2 * t = δ + B := by rw [hδ]; ring
    rw [this, add_pow_char δ B, hδp, hBp, hδ]; ring
  have h2unit : IsUnit (2 : K) := by
    have h2 : (2 : ZMod p) ≠ 0 := by
      intro h
      have : (p : ℕ) ∣ 2 := (ZMod.natCast_eq_zero_iff 2 p).mp (by exact_mod_cast h)
      have := Nat.le_of_dvd (by norm_num) this
      have := hp.out.two_le
      omega
    have : (2 : K) = algebraMap (ZMod p) K 2 := (map_ofNat (algebraMap (ZMod p) K) 2).symm
    rw [this]; exact (IsUnit.mk0 _ h2).map _
  have htp : t ^ p = B - t := by
    have : (2 : K) * t ^ p = 2 * (B - t) := by
      rw [← h2t, mul_pow, h2p]
    exact h2unit.mul_left_cancel this
  refine ⟨htp, ?_⟩
  rw [pow_succ, htp]
  linear_combination -ht

/-- `x^((p+1)/2)` in `𝔽_p[x]/(x² − b x + a)` is a constant whose square is `a` -/
theorem cipolla_sqrt (hp2 : p ≠ 2) (a b r : ZMod p) (hr : r * r = a)
    (hD : (b ^ 2 - 4 * a) ^ (p / 2) = -1) (hns : ¬ IsSquare (b ^ 2 - 4 * a)) :
    ((⟨0, 1⟩ : QuadraticAlgebra (ZMod p) (-a) b) ^ ((p + 1) / 2)).im = 0 ∧
    ((⟨0, 1⟩ : QuadraticAlgebra (ZMod p) (-a) b) ^ ((p + 1) / 2)).re *
      ((⟨0, 1⟩ : QuadraticAlgebra (ZMod p) (-a) b) ^ ((p + 1) / 2)).re = a := by
  have : CharP (QuadraticAlgebra (ZMod p) (-a) b) p :=
    charP_of_injective_algebraMap QuadraticAlgebra.algebraMap_injective p
  set ω : QuadraticAlgebra (ZMod p) (-a) b := ⟨0, 1⟩ with hω
  have hω2 : ω ^ 2 = algebraMap _ _ b * ω - algebraMap _ _ a := by
    ext <;> simp [hω, pow_two]
  obtain ⟨-, h⟩ := cipolla_core hp2 a b ω hω2 hD
  have hodd : p % 2 = 1 := hp.out.eq_two_or_odd.resolve_left hp2
  set w := ω ^ ((p + 1) / 2) with hw
  have hww : w * w = algebraMap _ _ a := by
    rw [hw, ← pow_add, ← h]; congr 1; omega
  have h1 : w.re * w.re + (-a) * w.im * w.im = a := by
    have := congrArg QuadraticAlgebra.re hww
    simpa using this
  have h2 : w.re * w.im + w.im * w.re + b * w.im * w.im = 0 := by
    have := congrArg QuadraticAlgebra.im hww
    simpa using this
  have him : w.im = 0 := by
    by_contra him
    have h3 : 2 * w.re + b * w.im = 0 := by
      have : w.im * (2 * w.re + b * w.im) = 0 := by linear_combination h2
      exact (mul_eq_zero.mp this).resolve_left him
    apply hns
    refine ⟨2 * r / w.im, ?_⟩
    field_simp
    linear_combination (4 : ZMod p) * h1 + (b * w.im - 2 * w.re) * h3 + (-4 : ZMod p) * hr
  refine ⟨him, ?_⟩
  rw [him] at h1
  simpa using h1

/-- the body of the `for b in xrange(2, p)` loop once `jacobi(b*b - 4*a, p) == -1`: `polynomial_exp_mod`
returns `[f0, 0]` (so `ff[1]` exists and the `assert ff[1] == 0` holds) with `f0` a reduced square root of `a` -/
theorem sqrt_step (hp8 : p % 8 = 1) (a b : ℤ) (hsq : IsSquare ((a : ℤ) : ZMod p))
    (hleg : legendreSym p (b * b - 4 * a) = -1) :
    ∃ f0 : ℤ, polyExpMod [0, 1] (pdiv ((p : ℤ) + 1) 2) [a, -b, 1] p = .ok [f0, 0] ∧
      0 ≤ f0 ∧ f0 < p ∧ (f0 * f0) % p = a % p := by
  have hp2 : p ≠ 2 := by omega
  have hp1 : (1 : ℤ) < p := by have := hp.out.two_le; omega
  obtain ⟨r, hr⟩ := hsq
  have hDcast : (((b * b - 4 * a : ℤ)) : ZMod p) = (b : ZMod p) ^ 2 - 4 * (a : ZMod p) := by
    push_cast; ring
  have hD : ((b : ZMod p) ^ 2 - 4 * (a : ZMod p)) ^ (p / 2) = -1 := by
    rw [← hDcast, ← legendreSym.eq_pow, hleg]; simp
  have hns : ¬ IsSquare ((b : ZMod p) ^ 2 - 4 * (a : ZMod p)) := by
    rw [← hDcast]; exact (legendreSym.eq_neg_one_iff p).mp hleg
  obtain ⟨him, hre⟩ := cipolla_sqrt hp2 (a : ZMod p) (b : ZMod p) r hr.symm hD hns
  have : CharP (QuadraticAlgebra (ZMod p) (-(a : ZMod p)) (b : ZMod p)) p :=
    charP_of_injective_algebraMap QuadraticAlgebra.algebraMap_injective p
  have hpK : (((p : ℕ) : ℤ) : QuadraticAlgebra (ZMod p) (-(a : ZMod p)) (b : ZMod p)) = 0 := by
    rw [Int.cast_natCast]; exact CharP.cast_eq_zero _ p
  set ω : QuadraticAlgebra (ZMod p) (-(a : ZMod p)) (b : ZMod p) := ⟨0, 1⟩ with hω
  have hroot : evalL [a, -b, 1] ω = 0 := by
    ext <;> simp [evalL, hω]
  have hbase : evalL [0, 1] ω = ω := by
    ext <;> simp [evalL, hω]
  have he : pdiv ((p : ℤ) + 1) 2 = (((p + 1) / 2 : ℕ) : ℤ) := by
    rw [pdiv_eq_ediv (by norm_num)]; omega
  obtain ⟨q, hq, hev, hlen, hrange⟩ := polyExpMod_spec hpK (by omega) ω [a, -b, 1] rfl (by simp) hroot
    (fun l => l.length = 2 ∧ InRange (p : ℤ) l)
    (by
      intro m1 m2 q h1 h2 hq
      obtain ⟨q', hq', -, hl, hr⟩ := polyMulMod_spec hpK (by omega) ω m1 m2 [a, -b, 1] rfl (by simp) hroot
      rw [hq] at hq'
      cases hq'
      exact ⟨by rw [hl, h1.1, h2.1]; rfl, hr (by omega)⟩)
    [0, 1] (pdiv ((p : ℤ) + 1) 2) (by rw [he]; omega) (by rw [he]; omega)
    ⟨rfl, by intro c hc; simp at hc; omega⟩
    (by intro h; rw [he] at h; omega)
  match q, hlen with
  | [f0, f1], _ =>
    rw [hbase, he, Int.toNat_natCast] at hev
    have hf1 : ((f1 : ℤ) : ZMod p) = 0 := by
      rw [← hev] at him; simpa [evalL, hω] using him
    have hf0 : ((f0 : ℤ) : ZMod p) * ((f0 : ℤ) : ZMod p) = (a : ZMod p) := by
      rw [← hev] at hre; simpa [evalL, hω] using hre
    have r0 := hrange f0 (by simp)
    have r1 := hrange f1 (by simp)
    have hf1z : f1 = 0 := by
      have := (ZMod.intCast_zmod_eq_zero_iff_dvd f1 p).mp hf1
      exact Int.eq_zero_of_dvd_of_nonneg_of_lt r1.1 r1.2 this
    subst hf1z
    refine ⟨f0, hq, r0.1, r0.2, ?_⟩
    have : ((f0 * f0 : ℤ) : ZMod p) = ((a : ℤ) : ZMod p) := by push_cast; exact hf0
    exact (ZMod.intCast_eq_intCast_iff _ _ _).mp this

end NTCip
