import Model.NumberTheory
import Proofs.NTInv
import Mathlib.NumberTheory.LegendreSymbol.JacobiSymbol
/-! `numbertheory.jacobi` equals Mathlib's Jacobi symbol (C15) -/
namespace NTProofs
open NT NumberTheorySymbols

/-- the generated straight-line code after the loop, in readable form -/
theorem jacobi_post_eq {α : Type} (a1 e n : Int) (REC : Int → Int → Int → α) (DONE : Int → α) :
    Gen.NT.jacobi_post a1 e n REC DONE =
      (let s : Int := if e % 2 = 0 ∨ n % 8 = 1 ∨ n % 8 = 7 then 1 else -1
       if a1 = 1 then DONE s
       else REC (if n % 4 = 3 ∧ a1 % 4 = 3 then -s else s) (Int.fmod n a1) a1) := by
  have h2 : Int.fmod e 2 = e % 2 := Int.fmod_eq_emod_of_nonneg e (by decide)
  have h8 : Int.fmod n 8 = n % 8 := Int.fmod_eq_emod_of_nonneg n (by decide)
  have h4 : Int.fmod n 4 = n % 4 := Int.fmod_eq_emod_of_nonneg n (by decide)
  have h4' : Int.fmod a1 4 = a1 % 4 := Int.fmod_eq_emod_of_nonneg a1 (by decide)
  unfold Gen.NT.jacobi_post
  simp only [h2, h8, h4, h4', Bool.or_eq_true, Bool.and_eq_true, decide_eq_true_eq]
  by_cases c1 : (e % 2 = 0 ∨ n % 8 = 1) ∨ n % 8 = 7
  · have c1' : e % 2 = 0 ∨ n % 8 = 1 ∨ n % 8 = 7 := by tauto
    simp only [c1, c1', ↓reduceIte]
    by_cases c2 : a1 = 1 <;> by_cases c3 : n % 4 = 3 ∧ a1 % 4 = 3 <;> simp [c2, c3]
  · have c1' : ¬ (e % 2 = 0 ∨ n % 8 = 1 ∨ n % 8 = 7) := by tauto
    simp only [c1, c1', ↓reduceIte]
    by_cases c2 : a1 = 1 <;> by_cases c3 : n % 4 = 3 ∧ a1 % 4 = 3 <;> simp [c2, c3]

theorem jacobi_pre_eq {α : Type} (a n : Int) (LOOP : Int → Int → α) (DONE : Int → α) :
    Gen.NT.jacobi_pre a n LOOP DONE =
      (if Int.fmod a n = 0 then DONE 0 else if Int.fmod a n = 1 then DONE 1 else LOOP (Int.fmod a n) 0) := by
  unfold Gen.NT.jacobi_pre
  by_cases c1 : Int.fmod a n = 0 <;> by_cases c2 : Int.fmod a n = 1 <;> simp [c1, c2]

theorem jacobiStrip_spec : ∀ (fuel : Nat) (a1 e : Int), 0 < a1 → a1 < fuel →
    ∃ (k : Nat) (m : Int), jacobiStrip fuel a1 e = some (m, e + k) ∧ a1 = 2 ^ k * m ∧ m % 2 = 1 ∧ 0 < m := by
  intro fuel
  induction fuel with
  | zero => intro a1 e h0 h1; simp at h1; omega
  | succ f ih =>
    intro a1 e h0 h1
    unfold jacobiStrip
    simp only [Gen.NT.jacobi_loop_cond, Gen.NT.jacobi_loop_body, decide_eq_true_eq,
      Int.fmod_eq_emod_of_nonneg a1 (show (0 : Int) ≤ 2 by decide),
      Int.fdiv_eq_ediv_of_nonneg a1 (show (0 : Int) ≤ 2 by decide)]
    by_cases hc : a1 % 2 = 0
    · simp only [hc, ↓reduceIte]
      obtain ⟨k, m, h1', h2, h3, h4⟩ := ih (a1 / 2) (e + 1) (by omega) (by push_cast at h1; omega)
      refine ⟨k + 1, m, ?_, ?_, h3, h4⟩
      · rw [h1']; congr 2; push_cast; ring
      · rw [pow_succ, mul_assoc, mul_comm 2 m, ← mul_assoc, ← h2]; omega
    · simp only [hc, ↓reduceIte]
      exact ⟨0, a1, by simp, by simp, by omega, h0⟩

/-- J(2^k · m | n) for odd n -/
theorem jacobi_two_pow_mul (k : Nat) (m : Int) (n : Nat) (hn : n % 2 = 1) :
    J((2 : Int) ^ k * m | n) = (if k % 2 = 0 ∨ n % 8 = 1 ∨ n % 8 = 7 then 1 else -1) * J(m | n) := by
  rw [jacobiSym.mul_left, jacobiSym.pow_left, jacobiSym.at_two (Nat.odd_iff.mpr hn),
    ZMod.χ₈_nat_eq_if_mod_eight, if_neg (by omega)]
  have h8 : n % 8 = 1 ∨ n % 8 = 3 ∨ n % 8 = 5 ∨ n % 8 = 7 := by omega
  rcases Nat.even_or_odd' k with ⟨j, rfl | rfl⟩
  · rcases h8 with h | h | h | h <;> simp [h, pow_mul]
  · rcases h8 with h | h | h | h <;> simp [h, pow_succ, pow_mul] <;> omega

theorem jacobiF_eq : ∀ (fuel : Nat) (a : Int) (n : Nat), 3 ≤ n → n % 2 = 1 → n < fuel →
    jacobiF fuel a n = .ok J(a | n) := by
  intro fuel
  induction fuel with
  | zero => intro a n _ _ h; omega
  | succ f ih =>
    intro a n hn3 hodd hlt
    have hnpos : (0 : Int) < n := by omega
    unfold jacobiF
    have hA1 : Gen.NT.jacobi_assert1 a n = true := by simp [Gen.NT.jacobi_assert1]; omega
    have hA2 : Gen.NT.jacobi_assert2 a n = true := by
      simp only [Gen.NT.jacobi_assert2, decide_eq_true_eq, Int.fmod_eq_emod_of_nonneg (n : Int) (show (0 : Int) ≤ 2 by decide)]
      omega
    simp only [hA1, hA2, Bool.not_true, Bool.false_eq_true, ↓reduceIte, jacobi_pre_eq,
      Int.fmod_eq_emod_of_nonneg a (le_of_lt hnpos)]
    have hmod : J(a | n) = J(a % n | n) := jacobiSym.mod_left a n
    have h0 : 0 ≤ a % n := Int.emod_nonneg a (by omega)
    have hl : a % n < n := Int.emod_lt_of_pos a hnpos
    rw [hmod]
    generalize a % (n : Int) = a' at h0 hl
    by_cases c0 : a' = 0
    · subst c0; simp only [↓reduceIte]; rw [jacobiSym.zero_left (by omega)]
    by_cases c1 : a' = 1
    · subst c1; simp only [show ¬ ((1 : Int) = 0) by decide, ↓reduceIte]; rw [jacobiSym.one_left]
    simp only [c0, c1, ↓reduceIte]
    obtain ⟨k, m, hs, ham, hm2, hm0⟩ := jacobiStrip_spec (a'.natAbs + 1) a' 0 (by omega) (by omega)
    rw [hs]
    simp only [jacobi_post_eq, zero_add]
    have hJ := jacobi_two_pow_mul k m n hodd
    rw [ham, hJ]
    have hk2 : ((k : Int) % 2 = 0) ↔ (k % 2 = 0) := by omega
    have hn8a : ((n : Int) % 8 = 1) ↔ (n % 8 = 1) := by omega
    have hn8b : ((n : Int) % 8 = 7) ↔ (n % 8 = 7) := by omega
    simp only [hk2, hn8a, hn8b]
    by_cases cm : m = 1
    · subst cm; simp [jacobiSym.one_left]
    simp only [cm, ↓reduceIte]
    -- m ≥ 3, odd, m < n
    have hmle : m ≤ a' := by
      have : (1 : Int) ≤ 2 ^ k := one_le_pow₀ (by decide)
      rw [ham]; nlinarith
    obtain ⟨M, rfl⟩ : ∃ M : Nat, m = M := ⟨m.toNat, by omega⟩
    have hM3 : 3 ≤ M := by omega
    have hModd : M % 2 = 1 := by omega
    have hMlt : M < f := by omega
    have hrec := ih (Int.fmod n M) M hM3 hModd hMlt
    rw [hrec, Int.fmod_eq_emod_of_nonneg _ (by omega), ← jacobiSym.mod_left]
    have hqr := jacobiSym.quadratic_reciprocity_if (a := M) (b := n) hModd hodd
    have hn4 : ((n : Int) % 4 = 3) ↔ (n % 4 = 3) := by omega
    have hM4 : ((M : Int) % 4 = 3) ↔ (M % 4 = 3) := by omega
    simp only [hn4, hM4, Except.map]
    rw [← hqr]
    congr 1
    by_cases q : M % 4 = 3 ∧ n % 4 = 3
    · have q' : n % 4 = 3 ∧ M % 4 = 3 := ⟨q.2, q.1⟩
      simp only [q, q', and_self, ↓reduceIte]; ring
    · have q' : ¬ (n % 4 = 3 ∧ M % 4 = 3) := fun h => q ⟨h.2, h.1⟩
      simp only [q, q', ↓reduceIte]

/-- `jacobi(a, n)` for every integer `a` and every odd `n ≥ 3` is Mathlib's Jacobi symbol -/
theorem jacobi_eq (a : Int) (n : Nat) (hn3 : 3 ≤ n) (hodd : n % 2 = 1) : jacobi a n = .ok J(a | n) := by
  unfold jacobi; exact jacobiF_eq _ a n hn3 hodd (by simp)

/-- the assertions: `AssertionError` for `n < 3` and for even `n` -/
theorem jacobi_assert (a n : Int) (h : n < 3 ∨ n % 2 = 0) : jacobi a n = .error .assertionError := by
  unfold jacobi jacobiF
  by_cases h3 : n < 3
  · have : Gen.NT.jacobi_assert1 a n = false := by simp [Gen.NT.jacobi_assert1]; omega
    simp [this]
  · have h2 : n % 2 = 0 := by omega
    have h1 : Gen.NT.jacobi_assert1 a n = true := by simp [Gen.NT.jacobi_assert1]; omega
    have : Gen.NT.jacobi_assert2 a n = false := by
      simp only [Gen.NT.jacobi_assert2, decide_eq_false_iff_not, Int.fmod_eq_emod_of_nonneg n (show (0 : Int) ≤ 2 by decide)]
      omega
    simp [h1, this]

end NTProofs
