import Model.Ecdsa
import Mathlib.Data.Int.ModEq
import Mathlib.Data.Int.GCD
import Mathlib.Data.Nat.Prime.Basic
import Mathlib.Data.ZMod.Basic
import Mathlib.Tactic.Ring
import Mathlib.Tactic.Linarith
/-!
# Proofs.EcdsaNt — `Ecdsa.inverseMod` (the model of `numbertheory.inverse_mod` = `pow(a, -1, m)`) is the modular inverse
-/
namespace Ecdsa

theorem xgcd_spec (a b : Nat) :
    (xgcd a b).1 * (a : Int) + (xgcd a b).2.1 * (b : Int) = ((xgcd a b).2.2 : Int) ∧ (xgcd a b).2.2 = Nat.gcd a b := by
  fun_induction xgcd a b with
  | case1 b => simp
  | case2 a b r ih =>
    obtain ⟨h1, h2⟩ := ih
    refine ⟨?_, ?_⟩
    · simp only
      have hdiv : (b : Int) = ((b % (a+1) : Nat) : Int) + ((a+1 : Nat) : Int) * ((b / (a+1) : Nat) : Int) := by
        exact_mod_cast (Nat.mod_add_div b (a+1)).symm
      rw [← h1]
      generalize ((b / (a+1) : Nat) : Int) = q at *
      generalize ((b % (a+1) : Nat) : Int) = m at *
      rw [hdiv]; push_cast; ring
    · simp only
      rw [h2]; exact (Nat.gcd_rec (a+1) b).symm

theorem pmod_eq_emod (a m : Int) (hm : 0 < m) : pmod a m = a % m := by
  unfold pmod; rw [Int.fmod_eq_emod]; simp [le_of_lt hm]

/-- `inverseMod` on a positive modulus, with the naturals named -/
theorem inverseMod_unfold (a m : Int) (hm : 0 < m) (ha : a ≠ 0) :
    ∃ A M : Nat, (A : Int) = a % m ∧ (M : Int) = m ∧
      inverseMod a m = if (xgcd A M).2.2 ≠ 1 then .error .valueError else .ok (pmod (xgcd A M).1 m) := by
  refine ⟨(a % (m.natAbs : Int)).toNat, m.natAbs, ?_, Int.natAbs_of_nonneg (le_of_lt hm), ?_⟩
  · rw [Int.natAbs_of_nonneg (le_of_lt hm)]; exact Int.toNat_of_nonneg (Int.emod_nonneg a (ne_of_gt hm))
  · simp [inverseMod, ha, ne_of_gt hm]

/-- success: an invertible `a` gives the inverse in `[0, m)` -/
theorem inverseMod_ok (a m : Int) (hm : 0 < m) (ha : a ≠ 0) (hg : Int.gcd a m = 1) :
    ∃ c, inverseMod a m = .ok c ∧ 0 ≤ c ∧ c < m ∧ a * c ≡ 1 [ZMOD m] := by
  obtain ⟨A, M, hA, hM, hdef⟩ := inverseMod_unfold a m hm ha
  obtain ⟨h1, h2⟩ := xgcd_spec A M
  have hgcd : (xgcd A M).2.2 = 1 := by
    rw [h2]
    have : Nat.gcd A M = Int.gcd (a % m) m := by rw [← hA, ← hM]; rfl
    rw [this, Int.gcd_emod]; exact hg
  refine ⟨pmod (xgcd A M).1 m, ?_, ?_, ?_, ?_⟩
  · rw [hdef]; simp [hgcd]
  · rw [pmod_eq_emod _ _ hm]; exact Int.emod_nonneg _ (ne_of_gt hm)
  · rw [pmod_eq_emod _ _ hm]; exact Int.emod_lt_of_pos _ hm
  · rw [pmod_eq_emod _ _ hm]
    rw [hA, hM, hgcd] at h1
    generalize (xgcd A M).1 = x at *
    generalize (xgcd A M).2.1 = y at *
    have e1 : a * (x % m) ≡ a * x [ZMOD m] := (Int.mod_modEq x m).mul_left a
    have e2 : a * x ≡ (a % m) * x [ZMOD m] := (Int.mod_modEq a m).symm.mul_right x
    have e3 : (a % m) * x ≡ 1 [ZMOD m] := by
      have : (a % m) * x = 1 - y * m := by push_cast at h1; linarith
      rw [this]
      exact Int.modEq_iff_dvd.mpr ⟨y, by ring⟩
    exact e1.trans (e2.trans e3)

/-- failure: `pow(a, -1, m)` raises `ValueError` exactly when `a` is not invertible -/
theorem inverseMod_err (a m : Int) (hm : 0 < m) (ha : a ≠ 0) (hg : Int.gcd a m ≠ 1) :
    inverseMod a m = .error .valueError := by
  obtain ⟨A, M, hA, hM, hdef⟩ := inverseMod_unfold a m hm ha
  obtain ⟨_, h2⟩ := xgcd_spec A M
  have : Nat.gcd A M = Int.gcd (a % m) m := by rw [← hA, ← hM]; rfl
  rw [hdef, h2, this, Int.gcd_emod]; simp [hg]

theorem inverseMod_zero (m : Int) : inverseMod 0 m = .ok 0 := by simp [inverseMod]

/-- the spec-level inverse: `k⁻¹` in `ZMod n`, as the integer in `[0, n)` -/
noncomputable def invZ (n k : Int) : Int := (((k : ZMod n.toNat)⁻¹).val : Int)

theorem coprime_of_prime_range {n k : Int} (hn : Nat.Prime n.toNat) (h1 : 1 ≤ k) (h2 : k < n) : Int.gcd k n = 1 := by
  have hnpos : 0 < n := by
    rcases lt_or_ge 0 n with h | h
    · exact h
    · rw [Int.toNat_of_nonpos h] at hn; exact absurd hn (by decide)
  have hk : k = (k.toNat : Int) := (Int.toNat_of_nonneg (by omega)).symm
  have hn' : n = (n.toNat : Int) := (Int.toNat_of_nonneg (by omega)).symm
  rw [hk, hn', Int.gcd_natCast_natCast, Nat.gcd_comm]
  exact (Nat.Prime.coprime_iff_not_dvd hn).mpr (fun hd => by
    have := Nat.le_of_dvd (by omega) hd; omega)

/-- `invZ` is *the* inverse: any `c ∈ [0, n)` with `k·c ≡ 1` is it -/
theorem invZ_unique {n k c : Int} (hnpos : 0 < n) (c0 : 0 ≤ c) (cn : c < n) (hmul : k * c ≡ 1 [ZMOD n]) : invZ n k = c := by
  have : NeZero n.toNat := ⟨by omega⟩
  have hn' : ((n.toNat : Nat) : Int) = n := Int.toNat_of_nonneg (le_of_lt hnpos)
  have hz : (k : ZMod n.toNat) * (c : ZMod n.toNat) = 1 := by
    have := (ZMod.intCast_eq_intCast_iff (k * c) 1 n.toNat).mpr (by rw [hn']; exact hmul)
    simpa using this
  have hinv : (k : ZMod n.toNat)⁻¹ = (c : ZMod n.toNat) := ZMod.inv_eq_of_mul_eq_one _ _ _ hz
  unfold invZ; rw [hinv, ZMod.val_intCast, hn']; exact Int.emod_eq_of_lt c0 cn

/-- whenever `k` is invertible modulo `n > 0`, the model's `inverse_mod` *is* the inverse in `ZMod n` -/
theorem inverseMod_eq_invZ_of_coprime {n k : Int} (hnpos : 0 < n) (hk : k ≠ 0) (hg : Int.gcd k n = 1) :
    inverseMod k n = .ok (invZ n k) ∧ 0 ≤ invZ n k ∧ invZ n k < n ∧ k * invZ n k ≡ 1 [ZMOD n] := by
  obtain ⟨c, hc, c0, cn, hmul⟩ := inverseMod_ok k n hnpos hk hg
  rw [invZ_unique hnpos c0 cn hmul]; exact ⟨hc, c0, cn, hmul⟩

/-- for a prime modulus and `1 ≤ k < n` -/
theorem inverseMod_eq_invZ {n k : Int} (hn : Nat.Prime n.toNat) (h1 : 1 ≤ k) (h2 : k < n) :
    inverseMod k n = .ok (invZ n k) ∧ 0 ≤ invZ n k ∧ invZ n k < n ∧ k * invZ n k ≡ 1 [ZMOD n] :=
  inverseMod_eq_invZ_of_coprime (by omega) (by omega) (coprime_of_prime_range hn h1 h2)

end Ecdsa
