import Proofs.RWInv
/-! # Proofs.RWSim — the thread-level semantics and its counting abstraction simulate each other
(generic in the programs), and every reachable configuration of the generated programs satisfies `RInv` -/
namespace RW

def SRes.map {α β : Type} (f : α → β) : SRes α → SRes β
  | .ok a => .ok (f a)
  | .blocked => .blocked
  | .err => .err
  | .none => .none

theorem advance_pt {P : Progs} {t : Thread} {r rest} (hr : t.rounds = r :: rest) :
    (advance P t).pt = dest P r t.pc rest.head? := by
  unfold advance dest
  rw [hr]
  simp only
  split
  · simp [Thread.pt]
  · cases rest <;> simp [Thread.pt]

theorem pt_of_rounds {t : Thread} {r rest} (hr : t.rounds = r :: rest) : t.pt = some (r, t.pc) := by
  simp [Thread.pt, hr]

theorem cntAt_set (thr : List Thread) (i : Nat) (t t' : Thread) (src : Role × Nat)
    (hi : thr[i]? = some t) (hpt : t.pt = some src) :
    cntAt (thr.set i t') = move (cntAt thr) src t'.pt := by
  funext r k
  obtain ⟨hlt, hget⟩ := List.getElem?_eq_some_iff.mp hi
  simp only [cntAt, move]
  rw [List.countP_set hlt, hget]
  by_cases h1 : (r, k) = src
  · have : t.pt = some (r, k) := by rw [hpt, h1]
    simp [h1, this]
  · have : ¬ t.pt = some (r, k) := by rw [hpt]; intro h; exact h1 (Option.some.inj h).symm
    simp [h1, this]

theorem cntAt_ne_zero {thr : List Thread} {i : Nat} {t : Thread} {r k} (hi : thr[i]? = some t)
    (hpt : t.pt = some (r, k)) : cntAt thr r k ≠ 0 := by
  have hmem : t ∈ thr := List.mem_of_getElem? hi
  have : 0 < cntAt thr r k := List.countP_pos_iff.mpr ⟨t, hmem, by simp [hpt]⟩
  omega

theorem exists_of_cntAt_ne_zero {thr : List Thread} {r k} (h : cntAt thr r k ≠ 0) :
    ∃ (i : Nat) (t : Thread) (rest : List Role), thr[i]? = some t ∧ t.rounds = r :: rest ∧ t.pc = k := by
  have hpos : 0 < cntAt thr r k := by omega
  obtain ⟨t, hmem, hp⟩ := List.countP_pos_iff.mp hpos
  obtain ⟨i, hi⟩ := List.getElem?_of_mem hmem
  simp only [decide_eq_true_eq] at hp
  obtain ⟨rounds, pc⟩ := t
  cases rounds with
  | nil => simp [Thread.pt] at hp
  | cons r' rest =>
    simp only [Thread.pt, Option.some.injEq, Prod.mk.injEq] at hp
    obtain ⟨rfl, rfl⟩ := hp
    exact ⟨i, _, rest, hi, rfl, rfl⟩

/-- **simulation, thread → abstraction**: the step of thread `i` (at role `r`, pc `t.pc`) is exactly the abstract
step with that label, outcome by outcome (`ok` / `blocked` / `err`) -/
theorem sim_step (P : Progs) (c : Cfg) (i : Nat) (t : Thread) (r : Role) (rest : List Role)
    (ht : c.thr[i]? = some t) (hr : t.rounds = r :: rest) :
    cstep P ⟨r, t.pc, rest.head?⟩ (abs c) = (tstep P c i).map abs := by
  have hpt := pt_of_rounds hr
  have hne : (abs c).cnt r t.pc ≠ 0 := cntAt_ne_zero ht hpt
  unfold cstep tstep
  simp only [hne, if_false, ht, hr]
  cases hins : (P.round r)[t.pc]? with
  | none => rfl
  | some ins =>
    simp only [abs]
    cases hex : exec ins c.sh with
    | ok sh' =>
      simp only [SRes.map, abs]
      rw [cntAt_set c.thr i t (advance P t) (r, t.pc) ht hpt, advance_pt hr]
    | blocked => rfl
    | err => rfl

/-- **simulation, abstraction → thread**: an abstract step with label `(r, k)` that is not `none` is the step of
some thread that is at `(r, k)` -/
theorem sim_back (P : Progs) (c : Cfg) (r : Role) (k : Nat) (h : (abs c).cnt r k ≠ 0) :
    ∃ (i : Nat) (t : Thread) (rest : List Role), c.thr[i]? = some t ∧ t.rounds = r :: rest ∧ t.pc = k ∧
      cstep P ⟨r, k, rest.head?⟩ (abs c) = (tstep P c i).map abs := by
  obtain ⟨i, t, rest, hi, hr, hk⟩ := exists_of_cntAt_ne_zero h
  refine ⟨i, t, rest, hi, hr, hk, ?_⟩
  rw [← hk]
  exact sim_step P c i t r rest hi hr

/-- a thread-level `ok` step is an abstract `ok` step -/
theorem sim_ok {P : Progs} {c c' : Cfg} {i : Nat} (h : tstep P c i = .ok c') :
    ∃ l, cstep P l (abs c) = .ok (abs c') := by
  cases ht : c.thr[i]? with
  | none => simp [tstep, ht] at h
  | some t =>
    cases hr : t.rounds with
    | nil => simp [tstep, ht, hr] at h
    | cons r rest =>
      refine ⟨⟨r, t.pc, rest.head?⟩, ?_⟩
      rw [sim_step P c i t r rest ht hr, h]; rfl

/-! ## the invariant holds in every reachable configuration of the generated programs -/

theorem cntAt_init_succ (rs : List (List Role)) (r : Role) (k : Nat) :
    cntAt (rs.map fun l => (⟨l, 0⟩ : Thread)) r (k + 1) = 0 := by
  unfold cntAt
  rw [List.countP_eq_zero]
  intro t ht
  obtain ⟨l, _, rfl⟩ := List.mem_map.mp ht
  cases l <;> simp [Thread.pt]

theorem rinv_init (rs : List (List Role)) : RInv (abs (Cfg.init GP rs)) := by
  have h0 : GP.ctr0 = 0 := by decide
  simp only [RInv, abs, Cfg.init, Shared.init, h0]
  have e : ∀ r k, cntAt (rs.map fun l => (⟨l, 0⟩ : Thread)) r (k + 1) = 0 := cntAt_init_succ rs
  simp only [e .reader 0, e .reader 1, e .reader 2, e .reader 3, e .reader 4, e .reader 5, e .reader 6, e .reader 7,
    e .reader 8, e .reader 9, e .reader 10, e .writer 0, e .writer 1, e .writer 2, e .writer 3, e .writer 4,
    e .writer 5, e .writer 6, e .writer 7, e .writer 8]
  simp

theorem reach_rinv {rs : List (List Role)} {c : Cfg} (h : Reach GP rs c) : RInv (abs c) := by
  induction h with
  | init => exact rinv_init rs
  | step i _ hs ih =>
    obtain ⟨l, hl⟩ := sim_ok hs
    exact rinv_cstep l _ _ ih hl

end RW
