import Lean
/-! `#audit_ns NS` prints, for every theorem whose name starts with `NS.`, the axioms it depends on:
`AUDIT <name> :: ax1,ax2,…` (one line per theorem; used by harness/lib/common.py) -/
open Lean Elab Command

elab "#audit_ns " ns:ident : command => do
  let env ← getEnv
  let nsn := ns.getId
  let mut names : Array Name := #[]
  for (n, ci) in env.constants.map₁.toList do
    if nsn.isPrefixOf n && !n.isInternal then
      match ci with
      | .thmInfo _ => names := names.push n
      | _ => pure ()
  for n in names.qsort (fun a b => a.toString < b.toString) do
    let axs ← liftCoreM (collectAxioms n)
    IO.println s!"AUDIT {n} :: {",".intercalate (axs.toList.map toString)}"
