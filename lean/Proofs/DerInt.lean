import Proofs.DerTlv
/-!
# Proofs.DerInt — the INTEGER codec (non-negative integers, minimal two's-complement content octets)
-/
set_option linter.unusedSimpArgs false
namespace Der

theorem u8_x80 : (0x80 : UInt8).toNat = 128 := rfl
theorem u8_x7f : (0x7f : UInt8).toNat = 127 := rfl

theorem u8_lt80_iff_le7f (b : UInt8) : b < 0x80 ↔ b ≤ 0x7f := by
  rw [u8_lt_iff, u8_le_iff, u8_x80, u8_x7f]; omega

theorem beVal_zero_cons (s : Bytes) : beVal (0 :: s) = beVal s := by
  rw [beVal_cons]; simp

/-- what `remove_integer` demands of the content octets -/
def IntBodyOK (body : Bytes) : Prop :=
  ∃ msb tl, body = msb :: tl ∧ msb < 0x80 ∧ (msb = 0 → ∀ c tl', tl = c :: tl' → ¬ c < 0x80)

theorem intBody_ne_nil (r : Nat) : intBody r ≠ [] := by
  unfold intBody
  have := hexBytes_ne_nil r
  match hm : hexBytes r, this with
  | b :: t, _ => simp only; split <;> simp

/-- accepted content octets are exactly the encoder's content octets of their value -/
theorem intBody_beVal {body : Bytes} (h : IntBodyOK body) : intBody (beVal body) = body := by
  obtain ⟨msb, tl, rfl, h1, h2⟩ := h
  by_cases h0 : msb = 0
  · subst h0
    cases tl with
    | nil => decide
    | cons c tl' =>
      have hc := h2 rfl c tl' rfl
      have hc0 : c ≠ 0 := by
        intro hz; subst hz; exact hc (by decide)
      have hno : NoLead0 (c :: tl') := by
        intro b t hb; simp only [List.cons.injEq] at hb; rw [← hb.1]; exact hc0
      rw [beVal_zero_cons]
      unfold intBody
      rw [hexBytes_beVal _ hno (by simp)]
      simp only
      rw [if_neg (by rw [← u8_lt80_iff_le7f]; exact hc)]
  · have hno : NoLead0 (msb :: tl) := by
      intro b t hb; simp only [List.cons.injEq] at hb; rw [← hb.1]; exact h0
    unfold intBody
    rw [hexBytes_beVal _ hno (by simp)]
    simp only
    rw [if_pos ((u8_lt80_iff_le7f msb).mp h1)]

/-- the encoder's content octets pass the reader's checks, and carry the value -/
theorem intBody_ok (r : Nat) : IntBodyOK (intBody r) ∧ beVal (intBody r) = r := by
  unfold intBody
  have hne := hexBytes_ne_nil r
  have hv := beVal_hexBytes r
  match hm : hexBytes r, hne with
  | b :: t, _ =>
    rw [hm] at hv
    simp only
    split
    · rename_i hb
      refine ⟨⟨b, t, rfl, (u8_lt80_iff_le7f b).mpr hb, ?_⟩, hv⟩
      intro hb0 c tl' htl
      -- a leading zero of hexBytes r with more bytes is impossible
      exfalso
      by_cases hr : r = 0
      · subst hr
        have : hexBytes 0 = [0] := rfl
        rw [this] at hm
        simp only [List.cons.injEq] at hm
        rw [← hm.2] at htl; cases htl
      · have := beMin_noLead0 r
        rw [← hexBytes_pos r (by omega), hm] at this
        exact this b t rfl hb0
    · rename_i hb
      refine ⟨⟨0, b :: t, rfl, by decide, ?_⟩, ?_⟩
      · intro _ c tl' htl
        simp only [List.cons.injEq] at htl
        rw [← htl.1, u8_lt80_iff_le7f]; exact hb
      · rw [beVal_zero_cons]; exact hv

/-- the checks `remove_integer` makes on the content octets -/
def intCheck (body rest : Bytes) : Res (Nat × Bytes) :=
  match body with
  | [] => .error .unexpectedDER
  | [msb] => if msb < 0x80 then .ok (beVal body, rest) else .error .unexpectedDER
  | msb :: smsb :: _ =>
    if ¬ msb < 0x80 then .error .unexpectedDER
    else if msb = 0 ∧ smsb < 0x80 then .error .unexpectedDER
    else .ok (beVal body, rest)

/-- `remove_integer` on a TLV whose content octets are `body` -/
theorem removeInteger_tlv (body rest : Bytes) (hl : body.length < 256 ^ 127) :
    removeInteger (0x02 :: (encodeLength body.length ++ body ++ rest)) = intCheck body rest := by
  unfold intCheck
  unfold removeInteger
  simp only [List.drop_succ_cons, List.drop_zero, List.append_assoc]
  rw [if_neg (by simp), readLength_encodeLength _ hl]
  simp only [bind, Except.bind]
  have := tooLong_enc 0x02 body rest
  rw [List.append_assoc] at this
  rw [this]
  simp only [Bool.false_eq_true, if_false]
  rw [drop_hdr, drop_hdr_add]
  simp only [List.take_left', List.drop_left']
  match body with
  | [] => simp
  | [msb] =>
    simp only [List.length_singleton, List.take_left', List.drop_left', Nat.one_ne_zero, if_false,
      idx_zero_cons, List.cons_append, List.nil_append, List.take_succ_cons, List.take_zero, List.drop_succ_cons, List.drop_zero]
    by_cases h : msb < 0x80
    · simp [h]
    · simp [h]
  | msb :: smsb :: tl =>
    simp only [List.length_cons, idx_zero_cons, idx_one_cons]
    rw [if_neg (by omega)]
    by_cases h : msb < 0x80
    · by_cases h0 : msb = 0
      · by_cases h2 : smsb < 0x80
        · simp [h, h0, h2]
        · subst h0; simp [h2]
      · simp [h, h0]
    · simp [h]

theorem removeInteger_encode (r : Nat) (rest : Bytes) (hl : (intBody r).length < 256 ^ 127) :
    removeInteger (encodeInteger r ++ rest) = .ok (r, rest) := by
  unfold encodeInteger
  have := removeInteger_tlv (intBody r) rest hl
  simp only [List.cons_append, List.nil_append, List.append_assoc] at this ⊢
  rw [this]; unfold intCheck
  obtain ⟨⟨msb, tl, hb, h1, h2⟩, hv⟩ := intBody_ok r
  rw [hb] at hv ⊢
  clear this hl
  cases tl with
  | nil => simp only; rw [if_pos h1, hv]
  | cons smsb tl' =>
    simp only
    rw [if_neg (by simpa using h1), if_neg, hv]
    intro ⟨hz, hs⟩
    exact h2 hz smsb tl' rfl hs

/-- either the input is a TLV with tag 2 whose declared length fits, or the reader fails with `UnexpectedDER` -/
theorem removeInteger_cases (s : Bytes) :
    (∃ body rest0, s = 0x02 :: (encodeLength body.length ++ body ++ rest0) ∧ body.length < 256 ^ 127)
    ∨ removeInteger s = .error .unexpectedDER := by
  match s with
  | [] => right; rfl
  | t :: s' =>
    by_cases ht : t = 0x02
    · subst ht
      rcases tlv_cases 0x02 s' with h | h | ⟨length, llen, h1, h2⟩
      · left; exact h
      · right; unfold removeInteger; simp only [bind, Except.bind, h]; simp
      · right; unfold removeInteger; simp only [bind, Except.bind, h1, h2]; simp
    · right; unfold removeInteger; simp [ht]

theorem removeInteger_ok {s rest : Bytes} {v : Nat} (h : removeInteger s = .ok (v, rest)) :
    s = encodeInteger v ++ rest ∧ (intBody v).length < 256 ^ 127 := by
  rcases removeInteger_cases s with ⟨body, rest0, rfl, hl⟩ | hc
  · rw [removeInteger_tlv body rest0 hl] at h; unfold intCheck at h
    have key : IntBodyOK body ∧ v = beVal body ∧ rest = rest0 := by
      match body, h with
      | [msb], h =>
        simp only at h
        split at h
        · rename_i h1
          simp only [Except.ok.injEq, Prod.mk.injEq] at h
          exact ⟨⟨msb, [], rfl, h1, by intro _ c tl' hh; cases hh⟩, h.1.symm, h.2.symm⟩
        · cases h
      | msb :: smsb :: tl, h =>
        simp only at h
        split at h
        · cases h
        · rename_i h1
          split at h
          · cases h
          · rename_i h2
            simp only [Except.ok.injEq, Prod.mk.injEq] at h
            refine ⟨⟨msb, smsb :: tl, rfl, by simpa using h1, ?_⟩, h.1.symm, h.2.symm⟩
            intro hz c tl' hh hc
            simp only [List.cons.injEq] at hh
            exact h2 ⟨hz, by rw [hh.1]; exact hc⟩
    obtain ⟨hok, rfl, rfl⟩ := key
    rw [encodeInteger, intBody_beVal hok]
    exact ⟨by simp, hl⟩
  · rw [hc] at h; cases h

theorem removeInteger_err {s : Bytes} {e : PyErr} (h : removeInteger s = .error e) : e = .unexpectedDER := by
  rcases removeInteger_cases s with ⟨body, rest0, rfl, hl⟩ | hc
  · rw [removeInteger_tlv body rest0 hl] at h; unfold intCheck at h
    match body, h with
    | [], h => cases h; rfl
    | [msb], h =>
      simp only at h
      split at h
      · cases h
      · cases h; rfl
    | msb :: smsb :: tl, h =>
      simp only at h
      split at h
      · cases h; rfl
      · split at h
        · cases h; rfl
        · cases h
  · rw [hc] at h; cases h; rfl

/-- a convenient sufficient condition for the domain: `r < 256^126` (content octets ≤ 127 bytes) -/
theorem intBody_length_le (r k : Nat) (hk : 0 < k) (h : r < 256 ^ k) : (intBody r).length ≤ k + 1 := by
  unfold intBody
  have hne := hexBytes_ne_nil r
  have hlen := hexBytes_length_le r k hk h
  match hm : hexBytes r, hne with
  | b :: t, _ =>
    rw [hm] at hlen
    simp only
    split <;> simp only [List.length_cons] at * <;> omega

end Der
