import Proofs.DerDigits
import Model.Util
/-!
# Proofs.UtilNum — `orderlen`, `number_to_string`, `string_to_number(_fixedlen)`: fixed length, mutually inverse
-/
set_option linter.unusedSimpArgs false
namespace Util
open Der

/-! ## hex digits -/

theorem hexDigits_zero : hexDigits 0 = 0 := by rw [hexDigits]
theorem hexDigits_pos (n : Nat) (h : 0 < n) : hexDigits n = hexDigits (n / 16) + 1 := by
  cases n with
  | zero => omega
  | succ n => rw [hexDigits]

/-- `n < 16^(hexDigits n)` -/
theorem lt_pow_hexDigits (n : Nat) : n < 16 ^ hexDigits n := by
  induction n using hexDigits.induct with
  | case1 => simp [hexDigits_zero]
  | case2 n ih =>
    rw [hexDigits_pos (n+1) (by omega), Nat.pow_succ]
    omega

/-- `16^(hexDigits n - 1) ≤ n` for `n > 0` -/
theorem pow_hexDigits_le (n : Nat) (h : 0 < n) : 16 ^ (hexDigits n - 1) ≤ n := by
  induction n using hexDigits.induct with
  | case1 => omega
  | case2 n ih =>
    rw [hexDigits_pos (n+1) (by omega)]
    simp only [Nat.add_sub_cancel]
    by_cases hq : (n + 1) / 16 = 0
    · rw [hq, hexDigits_zero]; simp
    · have := ih (by omega)
      have hp : hexDigits ((n+1)/16) = (hexDigits ((n+1)/16) - 1) + 1 := by
        rw [hexDigits_pos _ (by omega)]; simp
      rw [hp, Nat.pow_succ]
      omega

theorem hexDigits_le_iff (n k : Nat) : hexDigits n ≤ k ↔ n < 16 ^ k := by
  constructor
  · intro h
    exact Nat.lt_of_lt_of_le (lt_pow_hexDigits n) (Nat.pow_le_pow_right (by decide) h)
  · intro h
    by_cases hn : n = 0
    · subst hn; simp [hexDigits_zero]
    · have h1 := pow_hexDigits_le n (by omega)
      have h2 : 16 ^ (hexDigits n - 1) < 16 ^ k := Nat.lt_of_le_of_lt h1 h
      have := (Nat.pow_lt_pow_iff_right (a := 16) (by decide)).mp h2
      omega

theorem hexLen_pos (n : Nat) : 1 ≤ hexLen n := by
  unfold hexLen; split
  · omega
  · rw [hexDigits_pos n (by omega)]; omega

theorem hexLen_le_iff (n k : Nat) (hk : 1 ≤ k) : hexLen n ≤ k ↔ n < 16 ^ k := by
  unfold hexLen; split
  · subst_vars
    constructor
    · intro _; exact Nat.pow_pos (by decide)
    · intro _; exact hk
  · exact hexDigits_le_iff n k

theorem pow256 (l : Nat) : 256 ^ l = 16 ^ (2 * l) := by
  rw [Nat.pow_mul]

/-! ## `orderlen` -/

theorem orderlen_pos (n : Nat) : 1 ≤ orderlen n := by
  unfold orderlen; have := hexLen_pos n; omega

/-- `orderlen n` is the least `l` with `n < 256^l` (for `n ≥ 1`) -/
theorem orderlen_spec (n : Nat) (hn : 1 ≤ n) :
    n < 256 ^ orderlen n ∧ 256 ^ (orderlen n - 1) ≤ n ∧ ∀ l, n < 256 ^ l → orderlen n ≤ l := by
  have hne : n ≠ 0 := by omega
  have hlen : hexLen n = hexDigits n := by unfold hexLen; rw [if_neg hne]
  have h1 := lt_pow_hexDigits n
  have h2 := pow_hexDigits_le n hn
  have hpos : 1 ≤ hexDigits n := by rw [hexDigits_pos n hn]; omega
  unfold orderlen
  rw [hlen]
  refine ⟨?_, ?_, ?_⟩
  · rw [pow256]
    exact Nat.lt_of_lt_of_le h1 (Nat.pow_le_pow_right (by decide) (by omega))
  · rw [pow256]
    exact Nat.le_trans (Nat.pow_le_pow_right (by decide) (by omega)) h2
  · intro l hl
    rw [pow256] at hl
    have h3 : 16 ^ (hexDigits n - 1) < 16 ^ (2 * l) := Nat.lt_of_le_of_lt h2 hl
    have := (Nat.pow_lt_pow_iff_right (a := 16) (by decide)).mp h3
    omega

/-- the byte length of `n`: `⌈bitlen(n)/8⌉`, characterised by `256^(l-1) ≤ n < 256^l` -/
theorem orderlen_unique (n l : Nat) (hn : 1 ≤ n) (h1 : n < 256 ^ l) (h2 : 256 ^ (l - 1) ≤ n) : orderlen n = l := by
  obtain ⟨a, b, c⟩ := orderlen_spec n hn
  have hle := c l h1
  have h3 : 256 ^ (l - 1) < 256 ^ orderlen n := Nat.lt_of_le_of_lt h2 a
  have := (Nat.pow_lt_pow_iff_right (a := 256) (by decide)).mp h3
  have := orderlen_pos n
  omega

theorem orderlen_zero : orderlen 0 = 1 := by decide

theorem lt_pow_orderlen_of_lt {r n : Nat} (h : r < n) : r < 256 ^ orderlen n :=
  Nat.lt_trans h (orderlen_spec n (by omega)).1

/-! ## `number_to_string` -/

theorem fits_iff (num l : Nat) (hl : 1 ≤ l) :
    (max (hexLen num) (2 * l) % 2 ≠ 1 ∧ max (hexLen num) (2 * l) / 2 = l) ↔ num < 256 ^ l := by
  rw [pow256, ← hexLen_le_iff num (2 * l) (by omega)]
  constructor
  · intro ⟨h1, h2⟩
    by_cases h : hexLen num ≤ 2 * l
    · exact h
    · rw [Nat.max_eq_left (by omega)] at h1 h2; omega
  · intro h
    rw [Nat.max_eq_right h]; omega

theorem numberToString_eq (num order : Nat) (h : num < 256 ^ orderlen order) :
    numberToString num order = .ok (beFixed (orderlen order) num) := by
  have := (fits_iff num (orderlen order) (orderlen_pos order)).mpr h
  unfold numberToString
  simp only
  rw [if_neg this.1, if_neg (by simpa using this.2)]

theorem numberToString_ok {num order : Nat} {s : Bytes} (h : numberToString num order = .ok s) :
    num < 256 ^ orderlen order ∧ s = beFixed (orderlen order) num := by
  unfold numberToString at h
  simp only at h
  split at h
  · cases h
  · rename_i h1
    split at h
    · cases h
    · rename_i h2
      simp only [Except.ok.injEq] at h
      exact ⟨(fits_iff num (orderlen order) (orderlen_pos order)).mp ⟨h1, by simpa using h2⟩, h.symm⟩

/-- `number_to_string` fails exactly when `num` does not fit into `orderlen(order)` bytes
(`binascii.Error` for an odd number of hex digits, `AssertionError` for an even one) -/
theorem numberToString_err {num order : Nat} {e : PyErr} (h : numberToString num order = .error e) :
    256 ^ orderlen order ≤ num ∧ (e = .binasciiError ∨ e = .assertionError) := by
  refine ⟨?_, ?_⟩
  · apply Nat.le_of_not_lt; intro hlt
    rw [numberToString_eq num order hlt] at h; cases h
  · unfold numberToString at h
    simp only at h
    split at h
    · cases h; exact Or.inl rfl
    · split at h
      · cases h; exact Or.inr rfl
      · cases h

/-- fixed length, and the value is recovered by `string_to_number` -/
theorem numberToString_spec {num order : Nat} {s : Bytes} (h : numberToString num order = .ok s) :
    s.length = orderlen order ∧ beVal s = num := by
  obtain ⟨h1, rfl⟩ := numberToString_ok h
  exact ⟨beFixed_length _ _, beVal_beFixed_of_lt _ _ h1⟩

/-! ## `string_to_number`, `string_to_number_fixedlen` -/

theorem stringToNumber_eq (s : Bytes) (h : s ≠ []) : stringToNumber s = .ok (beVal s) := by
  unfold stringToNumber
  cases s with
  | nil => exact absurd rfl h
  | cons => rfl

theorem stringToNumberFixedlen_eq (s : Bytes) (order : Nat) (h : s.length = orderlen order) :
    stringToNumberFixedlen s order = .ok (beVal s) := by
  unfold stringToNumberFixedlen
  rw [if_neg (by simpa using h)]
  have := orderlen_pos order
  cases s with
  | nil => simp at h; omega
  | cons => rfl

theorem stringToNumberFixedlen_ok {s : Bytes} {order v : Nat} (h : stringToNumberFixedlen s order = .ok v) :
    s.length = orderlen order ∧ v = beVal s := by
  unfold stringToNumberFixedlen at h
  split at h
  · cases h
  · rename_i hl
    split at h
    · cases h
    · simp only [Except.ok.injEq] at h
      exact ⟨by simpa using hl, h.symm⟩

/-- the `int(b"", 16)` branch is unreachable: only the `assert` can fail -/
theorem stringToNumberFixedlen_err {s : Bytes} {order : Nat} {e : PyErr} (h : stringToNumberFixedlen s order = .error e) :
    s.length ≠ orderlen order ∧ e = .assertionError := by
  by_cases hl : s.length = orderlen order
  · rw [stringToNumberFixedlen_eq s order hl] at h; cases h
  · unfold stringToNumberFixedlen at h
    rw [if_pos (by simpa using hl)] at h
    cases h; exact ⟨hl, rfl⟩

/-! ## inverses -/

theorem string_number_inverse (num order : Nat) (h : num < 256 ^ orderlen order) :
    ∃ s, numberToString num order = .ok s ∧ s.length = orderlen order
      ∧ stringToNumber s = .ok num ∧ stringToNumberFixedlen s order = .ok num := by
  refine ⟨beFixed (orderlen order) num, numberToString_eq num order h, beFixed_length _ _, ?_, ?_⟩
  · have hne : beFixed (orderlen order) num ≠ [] := by
      intro hc
      have := beFixed_length (orderlen order) num
      rw [hc] at this
      have := orderlen_pos order
      simp at *; omega
    rw [stringToNumber_eq _ hne, beVal_beFixed_of_lt _ _ h]
  · rw [stringToNumberFixedlen_eq _ _ (beFixed_length _ _), beVal_beFixed_of_lt _ _ h]

theorem number_string_inverse (s : Bytes) (order : Nat) (h : s.length = orderlen order) :
    ∃ v, stringToNumberFixedlen s order = .ok v ∧ stringToNumber s = .ok v ∧ v < 256 ^ orderlen order
      ∧ numberToString v order = .ok s := by
  have hlt : beVal s < 256 ^ orderlen order := by rw [← h]; exact beVal_lt s
  have hne : s ≠ [] := by
    intro hc; subst hc; have := orderlen_pos order; simp at h; omega
  refine ⟨beVal s, stringToNumberFixedlen_eq s order h, stringToNumber_eq s hne, hlt, ?_⟩
  rw [numberToString_eq _ _ hlt, ← h, beFixed_beVal]

end Util

/-! ## `orderlen` in terms of the bit length (appended) -/
namespace Util

theorem bitLength_zero : bitLength 0 = 0 := by rw [bitLength]
theorem bitLength_pos (n : Nat) (h : 0 < n) : bitLength n = bitLength (n / 2) + 1 := by
  cases n with
  | zero => omega
  | succ n => rw [bitLength]

theorem lt_two_pow_bitLength (n : Nat) : n < 2 ^ bitLength n := by
  induction n using bitLength.induct with
  | case1 => simp [bitLength_zero]
  | case2 n ih => rw [bitLength_pos (n+1) (by omega), Nat.pow_succ]; omega

theorem two_pow_bitLength_le (n : Nat) (h : 0 < n) : 2 ^ (bitLength n - 1) ≤ n := by
  induction n using bitLength.induct with
  | case1 => omega
  | case2 n ih =>
    rw [bitLength_pos (n+1) (by omega)]
    simp only [Nat.add_sub_cancel]
    by_cases hq : (n + 1) / 2 = 0
    · rw [hq, bitLength_zero]; simp
    · have := ih (by omega)
      have hp : bitLength ((n+1)/2) = (bitLength ((n+1)/2) - 1) + 1 := by
        rw [bitLength_pos _ (by omega)]; simp
      rw [hp, Nat.pow_succ]; omega

/-- `orderlen n = ⌈bitlen(n) / 8⌉` for `n ≥ 1` (the wording of the property) -/
theorem orderlen_eq_bitLength (n : Nat) (hn : 1 ≤ n) : orderlen n = (bitLength n + 7) / 8 := by
  have h1 := lt_two_pow_bitLength n
  have h2 := two_pow_bitLength_le n hn
  have hb : 1 ≤ bitLength n := by rw [bitLength_pos n hn]; omega
  have p256 : ∀ l, 256 ^ l = 2 ^ (8 * l) := by intro l; rw [Nat.pow_mul]
  apply orderlen_unique n _ hn
  · rw [p256]
    exact Nat.lt_of_lt_of_le h1 (Nat.pow_le_pow_right (by decide) (by omega))
  · rw [p256]
    exact Nat.le_trans (Nat.pow_le_pow_right (by decide) (by omega)) h2

/-- which exception `number_to_string` raises when the number does not fit: `binascii.Error` for an odd number of hex
digits, `AssertionError` for an even one -/
theorem numberToString_error_kind (num order : Nat) (h : 256 ^ orderlen order ≤ num) :
    numberToString num order = if hexLen num % 2 = 1 then .error .binasciiError else .error .assertionError := by
  have hl := orderlen_pos order
  have hbig : 2 * orderlen order < hexLen num := by
    apply Nat.lt_of_not_le; intro hc
    have := (hexLen_le_iff num (2 * orderlen order) (by omega)).mp hc
    rw [← pow256] at this; omega
  unfold numberToString
  simp only
  rw [Nat.max_eq_left (by omega)]
  split
  · rfl
  · rw [if_pos (by omega)]

end Util
