import Model.Ecdh
import Generated.EcdhSlices
import Proofs.EcdhSimp
/-!
# Proofs.EcdhTie — semantics of the generated ECDH programs over the state space of `Model/Ecdh.lean`

`Gen.Ecdh.*` (Generated/EcdhSlices.lean) is class `ECDH` of `src/ecdsa/ecdh.py`, re-translated on every run into
a small statement language.  `run` below is the Python reading of that language on the model's objects:

* values: `None`, a `Curve` object, its `.curve` (`CurveFp`), a `SigningKey`/`VerifyingKey`, their
  `.privkey`/`.pubkey`, a point, `INFINITY`, an int, a byte string;
* attribute load on `None` is `AttributeError`; `not x` is `x is None` for the objects in play (`Curve`,
  `SigningKey`, `VerifyingKey` define neither `__bool__` nor `__len__`); `==`/`!=` on `Curve` objects is identity;
  `a == b == c` is `a == b and b == c` (short-circuit); `point == INFINITY` is `env.isInf`;
* call arguments are evaluated left to right, then the callee runs; `self.m(…)` runs the generated method `m`
  (state changes made before an exception persist); the key constructors, `*`, `.x()`, `.p()`,
  `number_to_string` are those of the model's `Env`;
* `raise C(…)` is the `PyErr` constructor of class `C`.
A construct the semantics does not give a meaning to (wrong type, unknown name) is `PyErr.other`; fuel exhaustion
too (`run` is given more fuel than the deepest call chain needs).

`Props/C05t.lean`: `Ecdh.step` and `Ecdh.init` are `run` of the generated methods.
-/
namespace EcdhTie
open Ecdh Gen.Ecdh

inductive Val (Crv Pt : Type) where
  | none
  | crv (c : Crv)                 -- curves.Curve
  | curveFp (c : Crv)             -- curves.Curve.curve
  | sk (k : SKey Crv Pt)
  | vk (k : VKey Crv Pt)
  | privkey (k : SKey Crv Pt)     -- SigningKey.privkey
  | pubkey (k : VKey Crv Pt)      -- VerifyingKey.pubkey
  | pt (p : Pt)
  | infinity
  | int (i : Int)
  | bytes (b : Bytes)
  | bool (b : Bool)
  | cont                          -- a statement completed normally
  | returned (v : Val Crv Pt)     -- a `return` was executed

abbrev Vars (Crv Pt : Type) := List (String × Val Crv Pt)

inductive Task (Crv Pt : Type) where
  | e (x : Expr)
  | c (x : Cond)
  | s (x : Stmt)
  | l (xs : List Stmt)
  | m (name : String) (args : List (Val Crv Pt))

abbrev R (Crv Pt : Type) := State Crv Pt × Vars Crv Pt × Res (Val Crv Pt)

def excOf : String → PyErr
  | "NoKeyError" => .noKey
  | "NoCurveError" => .noCurve
  | "InvalidCurveError" => .invalidCurve
  | "InvalidSharedSecretError" => .invalidSharedSecret
  | _ => .other

section
variable {Crv Pt Ent : Type} [DecidableEq Crv]

def andThen (r : R Crv Pt) (k : State Crv Pt → Vars Crv Pt → Val Crv Pt → R Crv Pt) : R Crv Pt :=
  match r with
  | (st, vs, .error e) => (st, vs, .error e)
  | (st, vs, .ok v) => k st vs v

def getSelf (st : State Crv Pt) : String → Res (Val Crv Pt)
  | "curve" => .ok (match st.curve with | some c => .crv c | none => .none)
  | "private_key" => .ok (match st.priv with | some k => .sk k | none => .none)
  | "public_key" => .ok (match st.pub with | some k => .vk k | none => .none)
  | _ => .error .attributeError

def setSelf (st : State Crv Pt) : String → Val Crv Pt → Res (State Crv Pt)
  | "curve", .crv c => .ok { st with curve := some c }
  | "curve", .none => .ok { st with curve := none }
  | "private_key", .sk k => .ok { st with priv := some k }
  | "private_key", .none => .ok { st with priv := none }
  | "public_key", .vk k => .ok { st with pub := some k }
  | "public_key", .none => .ok { st with pub := none }
  | _, _ => .error .other

def getAttr : Val Crv Pt → String → Res (Val Crv Pt)
  | .none, _ => .error .attributeError
  | .sk k, "curve" => .ok (.crv k.curve)
  | .sk k, "privkey" => .ok (.privkey k)
  | .vk k, "curve" => .ok (.crv k.curve)
  | .vk k, "pubkey" => .ok (.pubkey k)
  | .privkey k, "secret_multiplier" => .ok (.int k.d)
  | .pubkey k, "point" => .ok (.pt k.point)
  | .crv c, "curve" => .ok (.curveFp c)
  | _, _ => .error .other

def callMethod0 (env : Env Crv Pt Ent) : Val Crv Pt → String → Res (Val Crv Pt)
  | .none, _ => .error .attributeError
  | .sk k, "get_verifying_key" => .ok (.vk k.vk)
  | .curveFp c, "p" => .ok (.int (env.fieldP c))
  | .pt p, "x" => (env.xOf p).map .int
  | _, _ => .error .other

def mulV (env : Env Crv Pt Ent) : Val Crv Pt → Val Crv Pt → Res (Val Crv Pt)
  | .pt p, .int d => (env.mul p d).map .pt
  | _, _ => .error .other

def truthy : Val Crv Pt → Res Bool
  | .none => .ok false
  | .crv _ => .ok true
  | .sk _ => .ok true
  | .vk _ => .ok true
  | _ => .error .other

def eqV (env : Env Crv Pt Ent) : Val Crv Pt → Val Crv Pt → Res Bool
  | .none, .none => .ok true
  | .none, .crv _ => .ok false
  | .crv _, .none => .ok false
  | .crv a, .crv b => .ok (decide (a = b))
  | .pt p, .infinity => .ok (env.isInf p)
  | _, _ => .error .other

/-- the functions `ecdh.py` imports, applied to evaluated arguments (positional, then the keyword one) -/
def callExt (env : Env Crv Pt Ent) (ent : Option Ent) : String → List (Val Crv Pt) → Option (String × Val Crv Pt) → Res (Val Crv Pt)
  | "SigningKey.generate", [], some ("curve", .crv c) =>
    match ent with
    | some e => (env.generate c e).map .sk
    | none => .error .other
  | "SigningKey.from_string", [.bytes b], some ("curve", .crv c) => (env.skFromString c b).map .sk
  | "SigningKey.from_der", [.bytes b], none => (env.skFromDer b).map .sk
  | "SigningKey.from_pem", [.bytes b], none => (env.skFromPem b).map .sk
  | "VerifyingKey.from_string", [.bytes b, .crv c], none => (env.vkFromString c b).map .vk
  | "VerifyingKey.from_string", [.bytes _, .none], none => .error .attributeError   -- None.verifying_key_length
  | "VerifyingKey.from_der", [.bytes b], none => (env.vkFromDer b).map .vk
  | "VerifyingKey.from_pem", [.bytes b], none => (env.vkFromPem b).map .vk
  | "number_to_string", [.int v, .int p], none => (numberToStringInt v p.toNat).map .bytes
  | _, _, _ => .error .other

def lookupVar (vs : Vars Crv Pt) (n : String) : Res (Val Crv Pt) :=
  match vs.find? (·.1 = n) with
  | some p => .ok p.2
  | none => .error .other

def bindParams : List String → List (Val Crv Pt) → Vars Crv Pt
  | [], _ => []
  | p :: ps, [] => (p, .none) :: bindParams ps []
  | p :: ps, a :: as => (p, a) :: bindParams ps as

def run (env : Env Crv Pt Ent) (ent : Option Ent) : Nat → State Crv Pt → Vars Crv Pt → Task Crv Pt → R Crv Pt
  | 0, st, vs, _ => (st, vs, .error .other)
  | f+1, st, vs, task =>
    let call (st : State Crv Pt) (vs : Vars Crv Pt) (fn : String) (args : List (Val Crv Pt)) (kw : Option (String × Val Crv Pt)) : R Crv Pt :=
      (st, vs, callExt env ent fn args kw)
    let selfCall (st : State Crv Pt) (vs : Vars Crv Pt) (m : String) (args : List (Val Crv Pt)) : R Crv Pt :=
      andThen (run env ent f st vs (.m m args)) fun st _ v => (st, vs, .ok v)
    match task with
    | .e x =>
      match x with
      | .selfAttr a => (st, vs, getSelf st a)
      | .var n => (st, vs, lookupVar vs n)
      | .noneLit => (st, vs, .ok .none)
      | .infinity => (st, vs, .ok .infinity)
      | .attr e a => andThen (run env ent f st vs (.e e)) fun st vs v => (st, vs, getAttr v a)
      | .mcall0 e m => andThen (run env ent f st vs (.e e)) fun st vs v => (st, vs, callMethod0 env v m)
      | .mul a b =>
        andThen (run env ent f st vs (.e a)) fun st vs va =>
        andThen (run env ent f st vs (.e b)) fun st vs vb => (st, vs, mulV env va vb)
      | .selfCall0 m => selfCall st vs m []
      | .selfCall1 m a => andThen (run env ent f st vs (.e a)) fun st vs va => selfCall st vs m [va]
      | .call1 fn a => andThen (run env ent f st vs (.e a)) fun st vs va => call st vs fn [va] none
      | .call2 fn a b =>
        andThen (run env ent f st vs (.e a)) fun st vs va =>
        andThen (run env ent f st vs (.e b)) fun st vs vb => call st vs fn [va, vb] none
      | .callKw fn kw v => andThen (run env ent f st vs (.e v)) fun st vs vv => call st vs fn [] (some (kw, vv))
      | .call1Kw fn a kw v =>
        andThen (run env ent f st vs (.e a)) fun st vs va =>
        andThen (run env ent f st vs (.e v)) fun st vs vv => call st vs fn [va] (some (kw, vv))
    | .c x =>
      match x with
      | .truthy e => andThen (run env ent f st vs (.e e)) fun st vs v => (st, vs, (truthy v).map .bool)
      | .falsy e => andThen (run env ent f st vs (.e e)) fun st vs v => (st, vs, (truthy v).map fun b => .bool (!b))
      | .eq a b =>
        andThen (run env ent f st vs (.e a)) fun st vs va =>
        andThen (run env ent f st vs (.e b)) fun st vs vb => (st, vs, (eqV env va vb).map .bool)
      | .ne a b =>
        andThen (run env ent f st vs (.e a)) fun st vs va =>
        andThen (run env ent f st vs (.e b)) fun st vs vb => (st, vs, (eqV env va vb).map fun r => .bool (!r))
      | .notEq3 a b c =>
        andThen (run env ent f st vs (.e a)) fun st vs va =>
        andThen (run env ent f st vs (.e b)) fun st vs vb =>
          match eqV env va vb with
          | .error e => (st, vs, .error e)
          | .ok false => (st, vs, .ok (.bool true))
          | .ok true =>
            andThen (run env ent f st vs (.e c)) fun st vs vc => (st, vs, (eqV env vb vc).map fun r => .bool (!r))
    | .s x =>
      match x with
      | .setSelf a e =>
        andThen (run env ent f st vs (.e e)) fun st vs v =>
          match setSelf st a v with
          | .ok st' => (st', vs, .ok .cont)
          | .error err => (st, vs, .error err)
      | .setLocal n e => andThen (run env ent f st vs (.e e)) fun st vs v => (st, (n, v) :: vs, .ok .cont)
      | .ifRaise c exc =>
        andThen (run env ent f st vs (.c c)) fun st vs v =>
          match v with
          | .bool true => (st, vs, .error (excOf exc))
          | .bool false => (st, vs, .ok .cont)
          | _ => (st, vs, .error .other)
      | .ifDo c s =>
        andThen (run env ent f st vs (.c c)) fun st vs v =>
          match v with
          | .bool true => run env ent f st vs (.s s)
          | .bool false => (st, vs, .ok .cont)
          | _ => (st, vs, .error .other)
      | .ret e => andThen (run env ent f st vs (.e e)) fun st vs v => (st, vs, .ok (.returned v))
      | .exprStmt e => andThen (run env ent f st vs (.e e)) fun st vs _ => (st, vs, .ok .cont)
    | .l xs =>
      match xs with
      | [] => (st, vs, .ok .none)                     -- falling off the end returns None
      | s :: rest =>
        andThen (run env ent f st vs (.s s)) fun st vs v =>
          match v with
          | .returned r => (st, vs, .ok r)
          | _ => run env ent f st vs (.l rest)
    | .m name args =>
      match Gen.Ecdh.methods.find? (·.name = name) with
      | none => (st, vs, .error .attributeError)
      | some md => andThen (run env ent f st (bindParams md.params args) (.l md.body)) fun st _ v => (st, vs, .ok v)

/-! ### unfolding equations (one per construct), used by `simp` to execute a generated program symbolically -/
section
variable (env : Env Crv Pt Ent) (ent : Option Ent) (f : Nat) (st : State Crv Pt) (vs : Vars Crv Pt)

theorem run_selfAttr (a : String) : run env ent (f+1) st vs (.e (.selfAttr a)) = (st, vs, getSelf st a) := rfl
theorem run_var (n : String) : run env ent (f+1) st vs (.e (.var n)) = (st, vs, lookupVar vs n) := rfl
theorem run_noneLit : run env ent (f+1) st vs (.e .noneLit) = (st, vs, .ok .none) := rfl
theorem run_infinity : run env ent (f+1) st vs (.e .infinity) = (st, vs, .ok .infinity) := rfl
theorem run_attr (e : Expr) (a : String) : run env ent (f+1) st vs (.e (.attr e a)) =
    andThen (run env ent f st vs (.e e)) fun st vs v => (st, vs, getAttr v a) := rfl
theorem run_mcall0 (e : Expr) (m : String) : run env ent (f+1) st vs (.e (.mcall0 e m)) =
    andThen (run env ent f st vs (.e e)) fun st vs v => (st, vs, callMethod0 env v m) := rfl
theorem run_mul (a b : Expr) : run env ent (f+1) st vs (.e (.mul a b)) =
    andThen (run env ent f st vs (.e a)) fun st vs va =>
    andThen (run env ent f st vs (.e b)) fun st vs vb => (st, vs, mulV env va vb) := rfl
theorem run_selfCall0 (m : String) : run env ent (f+1) st vs (.e (.selfCall0 m)) =
    andThen (run env ent f st vs (.m m [])) fun st _ v => (st, vs, .ok v) := rfl
theorem run_selfCall1 (m : String) (a : Expr) : run env ent (f+1) st vs (.e (.selfCall1 m a)) =
    andThen (run env ent f st vs (.e a)) fun st vs va =>
    andThen (run env ent f st vs (.m m [va])) fun st _ v => (st, vs, .ok v) := rfl
theorem run_call1 (fn : String) (a : Expr) : run env ent (f+1) st vs (.e (.call1 fn a)) =
    andThen (run env ent f st vs (.e a)) fun st vs va => (st, vs, callExt env ent fn [va] none) := rfl
theorem run_call2 (fn : String) (a b : Expr) : run env ent (f+1) st vs (.e (.call2 fn a b)) =
    andThen (run env ent f st vs (.e a)) fun st vs va =>
    andThen (run env ent f st vs (.e b)) fun st vs vb => (st, vs, callExt env ent fn [va, vb] none) := rfl
theorem run_callKw (fn kw : String) (v : Expr) : run env ent (f+1) st vs (.e (.callKw fn kw v)) =
    andThen (run env ent f st vs (.e v)) fun st vs vv => (st, vs, callExt env ent fn [] (some (kw, vv))) := rfl
theorem run_call1Kw (fn : String) (a : Expr) (kw : String) (v : Expr) : run env ent (f+1) st vs (.e (.call1Kw fn a kw v)) =
    andThen (run env ent f st vs (.e a)) fun st vs va =>
    andThen (run env ent f st vs (.e v)) fun st vs vv => (st, vs, callExt env ent fn [va] (some (kw, vv))) := rfl
theorem run_truthy (e : Expr) : run env ent (f+1) st vs (.c (.truthy e)) =
    andThen (run env ent f st vs (.e e)) fun st vs v => (st, vs, (truthy v).map .bool) := rfl
theorem run_falsy (e : Expr) : run env ent (f+1) st vs (.c (.falsy e)) =
    andThen (run env ent f st vs (.e e)) fun st vs v => (st, vs, (truthy v).map fun b => .bool (!b)) := rfl
theorem run_eq (a b : Expr) : run env ent (f+1) st vs (.c (.eq a b)) =
    andThen (run env ent f st vs (.e a)) fun st vs va =>
    andThen (run env ent f st vs (.e b)) fun st vs vb => (st, vs, (eqV env va vb).map .bool) := rfl
theorem run_ne (a b : Expr) : run env ent (f+1) st vs (.c (.ne a b)) =
    andThen (run env ent f st vs (.e a)) fun st vs va =>
    andThen (run env ent f st vs (.e b)) fun st vs vb => (st, vs, (eqV env va vb).map fun r => .bool (!r)) := rfl
theorem run_notEq3 (a b c : Expr) : run env ent (f+1) st vs (.c (.notEq3 a b c)) =
    andThen (run env ent f st vs (.e a)) fun st vs va =>
    andThen (run env ent f st vs (.e b)) fun st vs vb =>
      match eqV env va vb with
      | .error e => (st, vs, .error e)
      | .ok false => (st, vs, .ok (.bool true))
      | .ok true =>
        andThen (run env ent f st vs (.e c)) fun st vs vc => (st, vs, (eqV env vb vc).map fun r => .bool (!r)) := rfl
theorem run_setSelf (a : String) (e : Expr) : run env ent (f+1) st vs (.s (.setSelf a e)) =
    andThen (run env ent f st vs (.e e)) fun st vs v =>
      match setSelf st a v with
      | .ok st' => (st', vs, .ok .cont)
      | .error err => (st, vs, .error err) := rfl
theorem run_setLocal (n : String) (e : Expr) : run env ent (f+1) st vs (.s (.setLocal n e)) =
    andThen (run env ent f st vs (.e e)) fun st vs v => (st, (n, v) :: vs, .ok .cont) := rfl
theorem run_ifRaise (c : Cond) (exc : String) : run env ent (f+1) st vs (.s (.ifRaise c exc)) =
    andThen (run env ent f st vs (.c c)) fun st vs v =>
      match v with
      | .bool true => (st, vs, .error (excOf exc))
      | .bool false => (st, vs, .ok .cont)
      | _ => (st, vs, .error .other) := rfl
theorem run_ifDo (c : Cond) (s : Stmt) : run env ent (f+1) st vs (.s (.ifDo c s)) =
    andThen (run env ent f st vs (.c c)) fun st vs v =>
      match v with
      | .bool true => run env ent f st vs (.s s)
      | .bool false => (st, vs, .ok .cont)
      | _ => (st, vs, .error .other) := rfl
theorem run_ret (e : Expr) : run env ent (f+1) st vs (.s (.ret e)) =
    andThen (run env ent f st vs (.e e)) fun st vs v => (st, vs, .ok (.returned v)) := rfl
theorem run_exprStmt (e : Expr) : run env ent (f+1) st vs (.s (.exprStmt e)) =
    andThen (run env ent f st vs (.e e)) fun st vs _ => (st, vs, .ok .cont) := rfl
theorem run_nil : run env ent (f+1) st vs (.l []) = (st, vs, .ok .none) := rfl
theorem run_cons (s : Stmt) (rest : List Stmt) : run env ent (f+1) st vs (.l (s :: rest)) =
    andThen (run env ent f st vs (.s s)) fun st vs v =>
      match v with
      | .returned r => (st, vs, .ok r)
      | _ => run env ent f st vs (.l rest) := rfl
theorem run_method (name : String) (args : List (Val Crv Pt)) : run env ent (f+1) st vs (.m name args) =
    match Gen.Ecdh.methods.find? (·.name = name) with
    | none => (st, vs, .error .attributeError)
    | some md => andThen (run env ent f st (bindParams md.params args) (.l md.body)) fun st _ v => (st, vs, .ok v) := rfl

omit [DecidableEq Crv] in
theorem andThen_ok (st : State Crv Pt) (vs : Vars Crv Pt) (v : Val Crv Pt)
    (k : State Crv Pt → Vars Crv Pt → Val Crv Pt → R Crv Pt) : andThen (st, vs, .ok v) k = k st vs v := rfl
omit [DecidableEq Crv] in
theorem andThen_error (st : State Crv Pt) (vs : Vars Crv Pt) (e : PyErr)
    (k : State Crv Pt → Vars Crv Pt → Val Crv Pt → R Crv Pt) : andThen (st, vs, .error e) k = (st, vs, .error e) := rfl
end

/-- a public method call on the object: state after it and the outcome -/
def callPublic (env : Env Crv Pt Ent) (ent : Option Ent) (st : State Crv Pt) (name : String) (args : List (Val Crv Pt)) :
    State Crv Pt × Res (Val Crv Pt) :=
  let r := run env ent 40 st [] (.m name args)
  (r.1, r.2.2)

/-- what a public method hands back to the caller -/
def toOut : Val Crv Pt → Res (Out Crv Pt)
  | .none => .ok .none
  | .vk k => .ok (.vk k)
  | .int v => .ok (.int v)
  | .bytes b => .ok (.bytes b)
  | _ => .error .other

def ofCrv : Option Crv → Val Crv Pt
  | some c => .crv c
  | none => .none

/-- the Python call an `Op` of the model stands for: method name, arguments, and (for key generation) what the
entropy source delivers -/
def opCall : Op Crv Pt Ent → String × List (Val Crv Pt) × Option Ent
  | .setCurve c => ("set_curve", [ofCrv c], none)
  | .genPriv e => ("generate_private_key", [], some e)
  | .loadPriv sk => ("load_private_key", [.sk sk], none)
  | .loadPrivBytes b => ("load_private_key_bytes", [.bytes b], none)
  | .loadPrivDer b => ("load_private_key_der", [.bytes b], none)
  | .loadPrivPem b => ("load_private_key_pem", [.bytes b], none)
  | .getPub => ("get_public_key", [], none)
  | .loadPub vk => ("load_received_public_key", [.vk vk], none)
  | .loadPubBytes b => ("load_received_public_key_bytes", [.bytes b], none)
  | .loadPubDer b => ("load_received_public_key_der", [.bytes b], none)
  | .loadPubPem b => ("load_received_public_key_pem", [.bytes b], none)
  | .secret => ("generate_sharedsecret", [], none)
  | .secretBytes => ("generate_sharedsecret_bytes", [], none)

/-- executing the generated method for `op` -/
def stepSource (env : Env Crv Pt Ent) (s : State Crv Pt) (op : Op Crv Pt Ent) : State Crv Pt × Res (Out Crv Pt) :=
  let r := callPublic env (opCall op).2.2 s (opCall op).1 (opCall op).2.1
  (r.1, r.2.bind toOut)

end
end EcdhTie
