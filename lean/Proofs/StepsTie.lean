import Model.Curve
import Generated.Steps
/-!
# Proofs.StepsTie — the step functions of the hand-written folds ARE the generated loop bodies

`Generated/Steps.lean` is rewritten from `ellipticcurve.py` on every run (loop bodies of `_naf`, `_mul_precompute`,
`__mul__`, `mul_add`; `contains_point`; the arithmetic of `__eq__`, `scale`, `x`, `y`).  The equalities below make every
theorem about `Curve.nafStep`, `mulPrecomputeStep`, `mulNafStep`, `mulAddStep`, `containsPoint`, `coordsEq`, `pjScale`,
`pjX`, `pjY` a theorem about the current source text: a change in one of those bodies breaks the equality.
(core Lean only: no Mathlib needed)
-/
namespace StepsTie
open Curve

theorem nafStep_tie (m : Int) : nafStep m = Gen.s_naf_step m := by
  unfold nafStep Gen.s_naf_step pmod pdiv
  simp only [ne_eq, decide_not, Bool.not_eq_eq_eq_not, Bool.not_true, decide_eq_false_iff_not, ite_not,
    ge_iff_le, decide_eq_true_eq]
  repeat' split
  all_goals first | rfl | (exfalso; omega) | simp_all

theorem mulPrecomputeStep_tie (p a : Int) (st : Int × Int × Int × Int) (e : Int × Int) :
    mulPrecomputeStep p a st e =
      Gen.s_mul_precompute_step st.1 st.2.1 st.2.2.1 st.2.2.2 e.1 e.2 p a := by
  unfold mulPrecomputeStep Gen.s_mul_precompute_step pmod pdiv
  simp only [ne_eq, decide_not, Bool.not_eq_eq_eq_not, Bool.not_true, decide_eq_false_iff_not, ite_not,
    ge_iff_le, decide_eq_true_eq]
  repeat' split
  all_goals first | rfl | (exfalso; omega) | simp_all

theorem mulNafStep_tie (p a X2 Y2 : Int) (acc : Int × Int × Int) (i : Int) :
    mulNafStep p a X2 Y2 acc i = Gen.s_mul_step acc.1 acc.2.1 acc.2.2 X2 Y2 i p a := by
  unfold mulNafStep Gen.s_mul_step
  simp only [decide_eq_true_eq, gt_iff_lt]
  repeat' split
  all_goals first | rfl | (exfalso; omega) | simp_all

theorem mulAddStep_tie (p a : Int) (P1 P2 mAmB pAmB mApB pApB acc : Int × Int × Int) (A B : Int) :
    mulAddStep p a P1 P2 mAmB pAmB mApB pApB acc (A, B) =
      Gen.s_mul_add_step acc.1 acc.2.1 acc.2.2 A B P1.1 P1.2.1 P1.2.2 P2.1 P2.2.1 P2.2.2
        mAmB.1 mAmB.2.1 mAmB.2.2 pAmB.1 pAmB.2.1 pAmB.2.2 mApB.1 mApB.2.1 mApB.2.2 pApB.1 pApB.2.1 pApB.2.2
        p a := by
  unfold mulAddStep Gen.s_mul_add_step
  simp only [decide_eq_true_eq]
  repeat' split
  all_goals first | rfl | (exfalso; omega) | simp_all

/-- the four combined points of `mul_add` exactly as `pjMulAddWith` computes them -/
theorem combos_tie (X1 Y1 Z1 X2 Y2 Z2 p a : Int) :
    Gen.s_mul_add_combos X1 Y1 Z1 X2 Y2 Z2 p a =
      let mAmB := Gen.k_add X1 (-Y1) Z1 X2 (-Y2) Z2 p a
      let pAmB := Gen.k_add X1 Y1 Z1 X2 (-Y2) Z2 p a
      let mApB := Gen.k_add X1 (-Y1) Z1 X2 Y2 Z2 p a
      let pApB := Gen.k_add X1 Y1 Z1 X2 Y2 Z2 p a
      (mAmB.1, mAmB.2.1, mAmB.2.2, pAmB.1, pAmB.2.1, pAmB.2.2, mApB.1, mApB.2.1, mApB.2.2,
        pApB.1, pApB.2.1, pApB.2.2) := rfl

theorem containsPoint_tie (c : CurveFp) (x y : Int) :
    containsPoint c x y = Gen.s_contains_point x y c.p c.a c.b := by
  rfl

theorem coordsEq_tie (p x1 y1 z1 x2 y2 z2 : Int) :
    coordsEq p x1 y1 z1 x2 y2 z2 = Gen.s_eq_coords x1 y1 z1 x2 y2 z2 p := by
  rfl

theorem pjScale_tie (P : PJ) (zi : Int) (hz : P.z ≠ 1) (hi : inverseMod P.z P.curve.p = .ok zi) :
    pjScale P = .ok { P with x := (Gen.s_scale_coords P.x P.y zi P.curve.p).1,
                             y := (Gen.s_scale_coords P.x P.y zi P.curve.p).2, z := 1 } := by
  simp only [pjScale, if_neg hz, hi]
  rfl

theorem pjX_tie (P : PJ) (zi : Int) (hz : P.z ≠ 1) (hi : inverseMod P.z P.curve.p = .ok zi) :
    pjX P = .ok (Gen.s_x_coord P.x zi P.curve.p) := by
  simp only [pjX, if_neg hz, hi]
  rfl

theorem pjY_tie (P : PJ) (zi : Int) (hz : P.z ≠ 1) (hi : inverseMod P.z P.curve.p = .ok zi) :
    pjY P = .ok (Gen.s_y_coord P.y zi P.curve.p) := by
  simp only [pjY, if_neg hz, hi]
  rfl

end StepsTie
