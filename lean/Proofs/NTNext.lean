import Model.NumberTheory
import Proofs.NTPrime
import Mathlib.NumberTheory.Bertrand
/-! `next_prime` (C16): terminates (Bertrand), skips no prime, returns something `is_prime` accepts -/
namespace NTProofs
open NT Gen.NT

theorem nextPrimeLoop_spec (lg : Int → Int) (q : Nat) (hq : q.Prime) : ∀ (fuel : Nat) (c : Nat), c ≤ q → (q - c) % 2 = 0 →
    (q - c) / 2 < fuel →
    ∃ r : Nat, nextPrimeLoop lg fuel c = .ok (r : Int) ∧ c ≤ r ∧ r ≤ q ∧ isPrime lg r = .ok true ∧
      ∀ m : Nat, c ≤ m → m < r → (m - c) % 2 = 0 → isPrime lg m = .ok false := by
  intro fuel
  induction fuel with
  | zero => intro c _ _ h; omega
  | succ f ih =>
    intro c hc hpar hf
    unfold nextPrimeLoop
    obtain ⟨b, hb⟩ := isPrime_total' lg c
    simp only [bind, Except.bind, hb]
    cases b with
    | true =>
      simp only [↓reduceIte]
      exact ⟨c, rfl, le_refl _, hc, hb, fun m h1 h2 _ => by omega⟩
    | false =>
      simp only [Bool.false_eq_true, ↓reduceIte]
      have hne : c ≠ q := by
        rintro rfl
        rw [isPrime_complete lg c hq] at hb; cases hb
      obtain ⟨r, h1, h2, h3, h4, h5⟩ := ih (c + 2) (by omega) (by omega) (by omega)
      refine ⟨r, by push_cast at h1; exact h1, by omega, h3, h4, ?_⟩
      intro m hm1 hm2 hm3
      by_cases hmc : m = c
      · subst hmc; exact hb
      · exact h5 m (by omega) hm2 (by omega)

/-- the full behaviour of `next_prime` for a start value ≥ 2 -/
theorem nextPrime_spec (lg : Int → Int) (start : Nat) (hs : 2 ≤ start) :
    ∃ r : Nat, nextPrime lg start = .ok (r : Int) ∧ start < r ∧ isPrime lg r = .ok true ∧
      ∀ q : Nat, start < q → q < r → ¬ q.Prime := by
  obtain ⟨c, hc⟩ : ∃ c : Nat, orOne ((start : Int) + 1) = c ∧ c % 2 = 1 ∧ start + 1 ≤ c ∧ c ≤ start + 2 := by
    unfold orOne
    rw [pmod_eq_emod (by decide)]
    by_cases h : ((start : Int) + 1) % 2 = 0
    · exact ⟨start + 2, by rw [if_pos h]; push_cast; ring, by omega, by omega, by omega⟩
    · exact ⟨start + 1, by rw [if_neg h]; push_cast; ring, by omega, by omega, by omega⟩
  obtain ⟨hc0, hc1, hc2, hc3⟩ := hc
  obtain ⟨q, hq, hq1, hq2⟩ := Nat.exists_prime_lt_and_le_two_mul c (by omega)
  have hqodd : q % 2 = 1 := by
    rcases hq.eq_two_or_odd with h | h
    · omega
    · exact h
  obtain ⟨r, h1, h2, h3, h4, h5⟩ := nextPrimeLoop_spec lg q hq (c + 2) c (by omega) (by omega) (by omega)
  refine ⟨r, ?_, by omega, h4, ?_⟩
  · unfold nextPrime
    rw [if_neg (by omega), hc0]
    simp only [Int.toNat_natCast]
    exact h1
  · intro m hm1 hm2 hmp
    by_cases hpar : m % 2 = 0
    · have := (Nat.Prime.eq_one_or_self_of_dvd hmp 2 (by omega)); omega
    · have := h5 m (by omega) hm2 (by omega)
      rw [isPrime_complete lg m hmp] at this; cases this

theorem nextPrime_small (lg : Int → Int) (start : Int) (hs : start < 2) : nextPrime lg start = .ok 2 := by
  unfold nextPrime; rw [if_pos hs]

end NTProofs
