import Proofs.UtilNum
import Proofs.DerEnc
/-!
# Proofs.UtilSig — the three signature codecs of `util.py` (raw string, string pair, DER)
-/
set_option linter.unusedSimpArgs false
namespace Util
open Der

/-! ## raw string pair -/

theorem sigencodeStrings_eq (r s n : Nat) (hr : r < 256 ^ orderlen n) (hs : s < 256 ^ orderlen n) :
    sigencodeStrings r s n = .ok (beFixed (orderlen n) r, beFixed (orderlen n) s) := by
  unfold sigencodeStrings
  rw [numberToString_eq r n hr, numberToString_eq s n hs]; rfl

theorem sigencodeStrings_ok {r s n : Nat} {p : Bytes × Bytes} (h : sigencodeStrings r s n = .ok p) :
    r < 256 ^ orderlen n ∧ s < 256 ^ orderlen n ∧ p = (beFixed (orderlen n) r, beFixed (orderlen n) s) := by
  unfold sigencodeStrings at h
  simp only [bind, Except.bind] at h
  split at h
  · cases h
  · rename_i a ha
    split at h
    · cases h
    · rename_i b hb
      obtain ⟨h1, rfl⟩ := numberToString_ok ha
      obtain ⟨h2, rfl⟩ := numberToString_ok hb
      simp only [Except.ok.injEq] at h
      exact ⟨h1, h2, h.symm⟩

theorem sigdecodeStrings_pair (a b : Bytes) (n : Nat) :
    sigdecodeStrings [a, b] n =
      if a.length ≠ orderlen n then .error .malformedSignature
      else if b.length ≠ orderlen n then .error .malformedSignature
      else .ok (beVal a, beVal b) := by
  unfold sigdecodeStrings
  simp only
  split
  · rfl
  · rename_i ha
    split
    · rfl
    · rename_i hb
      rw [stringToNumberFixedlen_eq a n (by simpa using ha), stringToNumberFixedlen_eq b n (by simpa using hb)]
      rfl

theorem sigdecodeStrings_ok {rs : List Bytes} {n r s : Nat} (h : sigdecodeStrings rs n = .ok (r, s)) :
    ∃ a b, rs = [a, b] ∧ a.length = orderlen n ∧ b.length = orderlen n ∧ r = beVal a ∧ s = beVal b := by
  match rs, h with
  | [a, b], h =>
    rw [sigdecodeStrings_pair] at h
    split at h
    · cases h
    · rename_i ha
      split at h
      · cases h
      · rename_i hb
        simp only [Except.ok.injEq, Prod.mk.injEq] at h
        exact ⟨a, b, rfl, by simpa using ha, by simpa using hb, h.1.symm, h.2.symm⟩
  | [], h => simp [sigdecodeStrings] at h
  | [_], h => simp [sigdecodeStrings] at h
  | _ :: _ :: _ :: _, h => simp [sigdecodeStrings] at h

theorem sigdecodeStrings_err {rs : List Bytes} {n : Nat} {e : PyErr} (h : sigdecodeStrings rs n = .error e) :
    e = .malformedSignature := by
  match rs, h with
  | [a, b], h =>
    rw [sigdecodeStrings_pair] at h
    split at h
    · cases h; rfl
    · split at h
      · cases h; rfl
      · cases h
  | [], h => simp [sigdecodeStrings] at h; exact h.symm
  | [_], h => simp [sigdecodeStrings] at h; exact h.symm
  | _ :: _ :: _ :: _, h => simp [sigdecodeStrings] at h; exact h.symm

/-! ## raw string -/

theorem sigencodeString_eq (r s n : Nat) (hr : r < 256 ^ orderlen n) (hs : s < 256 ^ orderlen n) :
    sigencodeString r s n = .ok (beFixed (orderlen n) r ++ beFixed (orderlen n) s) := by
  unfold sigencodeString
  rw [sigencodeStrings_eq r s n hr hs]; rfl

theorem sigencodeString_ok {r s n : Nat} {e : Bytes} (h : sigencodeString r s n = .ok e) :
    r < 256 ^ orderlen n ∧ s < 256 ^ orderlen n ∧ e = beFixed (orderlen n) r ++ beFixed (orderlen n) s := by
  unfold sigencodeString at h
  simp only [bind, Except.bind] at h
  split at h
  · cases h
  · rename_i p hp
    obtain ⟨h1, h2, rfl⟩ := sigencodeStrings_ok hp
    simp only [Except.ok.injEq] at h
    exact ⟨h1, h2, h.symm⟩

theorem sigdecodeString_eval (sig : Bytes) (n : Nat) :
    sigdecodeString sig n =
      if sig.length ≠ 2 * orderlen n then .error .malformedSignature
      else .ok (beVal (sig.take (orderlen n)), beVal (sig.drop (orderlen n))) := by
  unfold sigdecodeString
  simp only
  split
  · rfl
  · rename_i hl
    have hl' : sig.length = 2 * orderlen n := by simpa using hl
    rw [stringToNumberFixedlen_eq _ n (by rw [List.length_take]; omega),
      stringToNumberFixedlen_eq _ n (by rw [List.length_drop]; omega)]
    rfl

/-! ## DER -/

theorem encodeLength_length_le (l : Nat) (h : l < 256 ^ 127) : (encodeLength l).length ≤ 128 := by
  unfold encodeLength
  split
  · simp
  · have := hexBytes_length_le l 127 (by decide) h
    simp only [List.length_cons]; omega

theorem encodeInteger_length_le (r : Nat) (h : r < 256 ^ 126) : (encodeInteger r).length ≤ 256 := by
  have h1 := intBody_length_le r 126 (by decide) h
  have h2 : (intBody r).length < 256 ^ 127 := Nat.lt_of_le_of_lt h1 (by decide)
  have h3 := encodeLength_length_le _ h2
  unfold encodeInteger
  simp only [List.length_append, List.length_cons, List.length_nil]
  omega

theorem sigencodeDer_eq (r s n : Nat) (hr : (intBody r).length < 256 ^ 127) (hs : (intBody s).length < 256 ^ 127)
    (hl : (encodeInteger r ++ encodeInteger s).length < 256 ^ 127) :
    sigencodeDer r s n = .ok (encodeSequence [encodeInteger r, encodeInteger s]) := by
  unfold sigencodeDer
  rw [encodeIntegerPy_eq r hr, encodeIntegerPy_eq s hs]
  simp only [bind, Except.bind]
  exact encodeSequencePy_eq _ (by simpa using hl)

theorem sigencodeDer_ok {r s n : Nat} {e : Bytes} (h : sigencodeDer r s n = .ok e) :
    e = encodeSequence [encodeInteger r, encodeInteger s] := by
  unfold sigencodeDer at h
  simp only [bind, Except.bind] at h
  split at h
  · cases h
  · rename_i a ha
    split at h
    · cases h
    · rename_i b hb
      have h1 := (encodeIntegerPy_ok ha).2
      have h2 := (encodeIntegerPy_ok hb).2
      simp only [Int.toNat_natCast] at h1 h2
      subst h1 h2
      exact encodeSequencePy_ok h

theorem sigdecodeDer_encode (r s n : Nat) (hr : (intBody r).length < 256 ^ 127) (hs : (intBody s).length < 256 ^ 127)
    (hl : (encodeInteger r ++ encodeInteger s).length < 256 ^ 127) :
    sigdecodeDer (encodeSequence [encodeInteger r, encodeInteger s]) n = .ok (r, s) := by
  unfold sigdecodeDer
  have h1 := removeSequence_encode [encodeInteger r, encodeInteger s] [] (by simpa using hl)
  rw [List.append_nil] at h1
  rw [h1]
  simp only [bind, Except.bind, List.flatten_cons, List.flatten_nil, List.append_nil, ne_eq, not_true_eq_false, if_false]
  rw [removeInteger_encode r _ hr]
  simp only
  have h2 := removeInteger_encode s [] hs
  rw [List.append_nil] at h2
  rw [h2]
  simp

/-- accepted ⇒ the input is the canonical encoding of the decoded pair -/
theorem sigdecodeDer_ok {sig : Bytes} {n r s : Nat} (h : sigdecodeDer sig n = .ok (r, s)) :
    sig = encodeSequence [encodeInteger r, encodeInteger s]
    ∧ (intBody r).length < 256 ^ 127 ∧ (intBody s).length < 256 ^ 127
    ∧ (encodeInteger r ++ encodeInteger s).length < 256 ^ 127 := by
  unfold sigdecodeDer at h
  simp only [bind, Except.bind] at h
  split at h
  · cases h
  · rename_i v hv
    obtain ⟨body, empty⟩ := v
    simp only at h
    split at h
    · cases h
    · rename_i he
      have he' : empty = [] := by simpa using he
      subst he'
      split at h
      · cases h
      · rename_i v1 hv1
        obtain ⟨r', rest⟩ := v1
        simp only at h
        split at h
        · cases h
        · rename_i v2 hv2
          obtain ⟨s', empty2⟩ := v2
          simp only at h
          split at h
          · cases h
          · rename_i he2
            have he2' : empty2 = [] := by simpa using he2
            subst he2'
            simp only [Except.ok.injEq, Prod.mk.injEq] at h
            obtain ⟨rfl, rfl⟩ := h
            obtain ⟨hs1, hl1⟩ := removeSequence_ok hv
            obtain ⟨hs2, hl2⟩ := removeInteger_ok hv1
            obtain ⟨hs3, hl3⟩ := removeInteger_ok hv2
            rw [List.append_nil] at hs1 hs3
            subst hs3
            subst hs2
            refine ⟨?_, hl2, hl3, hl1⟩
            rw [hs1]; simp [encodeSequence]

theorem sigdecodeDer_err {sig : Bytes} {n : Nat} {e : PyErr} (h : sigdecodeDer sig n = .error e) :
    e = .unexpectedDER := by
  unfold sigdecodeDer at h
  simp only [bind, Except.bind] at h
  split at h
  · rename_i e' he; cases h; exact removeSequence_err he
  · rename_i v hv
    obtain ⟨body, empty⟩ := v
    simp only at h
    split at h
    · cases h; rfl
    · split at h
      · rename_i e' he; cases h; exact removeInteger_err he
      · rename_i v1 hv1
        obtain ⟨r', rest⟩ := v1
        simp only at h
        split at h
        · rename_i e' he; cases h; exact removeInteger_err he
        · rename_i v2 hv2
          obtain ⟨s', empty2⟩ := v2
          simp only at h
          split at h
          · cases h; rfl
          · cases h

end Util

/-! ## DER strictness classes (appended) -/
namespace Util
open Der

/-- bytes after the SEQUENCE -/
theorem sigdecodeDer_trailing (r s n : Nat) (junk : Bytes) (hl : (encodeInteger r ++ encodeInteger s).length < 256 ^ 127)
    (hj : junk ≠ []) :
    sigdecodeDer (encodeSequence [encodeInteger r, encodeInteger s] ++ junk) n = .error .unexpectedDER := by
  unfold sigdecodeDer
  rw [removeSequence_encode [encodeInteger r, encodeInteger s] junk (by simpa using hl)]
  simp [bind, Except.bind, hj]

/-- bytes after `s` inside the SEQUENCE (a third INTEGER is one instance) -/
theorem sigdecodeDer_inner_junk (r s n : Nat) (junk : Bytes) (hr : (intBody r).length < 256 ^ 127)
    (hs : (intBody s).length < 256 ^ 127) (hl : (encodeInteger r ++ encodeInteger s ++ junk).length < 256 ^ 127)
    (hj : junk ≠ []) :
    sigdecodeDer (encodeSequence [encodeInteger r, encodeInteger s, junk]) n = .error .unexpectedDER := by
  unfold sigdecodeDer
  have h1 := removeSequence_encode [encodeInteger r, encodeInteger s, junk] [] (by simpa [List.append_assoc] using hl)
  rw [List.append_nil] at h1
  rw [h1]
  simp only [bind, Except.bind, List.flatten_cons, List.flatten_nil, List.append_nil, ne_eq, not_true_eq_false, if_false]
  rw [removeInteger_encode r _ hr]
  simp only
  rw [removeInteger_encode s junk hs]
  simp [hj]

/-- a SEQUENCE with a single INTEGER -/
theorem sigdecodeDer_single (r n : Nat) (hr : (intBody r).length < 256 ^ 127)
    (hl : (encodeInteger r).length < 256 ^ 127) :
    sigdecodeDer (encodeSequence [encodeInteger r]) n = .error .unexpectedDER := by
  unfold sigdecodeDer
  have h1 := removeSequence_encode [encodeInteger r] [] (by simpa using hl)
  rw [List.append_nil] at h1
  rw [h1]
  simp only [bind, Except.bind, List.flatten_cons, List.flatten_nil, List.append_nil, ne_eq, not_true_eq_false, if_false]
  have h2 := removeInteger_encode r [] hr
  rw [List.append_nil] at h2
  rw [h2]
  rfl

end Util
