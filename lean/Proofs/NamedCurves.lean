import Proofs.NamedChecks
import Proofs.EcdsaInstRecover
import Generated.Curves
/-!
# Proofs.NamedCurves — the 17 named curves of the GENERATED table `Gen.curveTable` satisfy the standing hypotheses of
the ECDSA-level theorems, with the order of the base point CHECKED (not assumed)

For every row `r` of `Gen.curveTable` (regenerated from `curves.py` / `ecdsa.py` on every run) kernel evaluation
(`rowChecks`, one `decide +kernel`) establishes: p odd, n odd, base point coordinates reduced and on the curve,
4a³ + 27b² ≢ 0 (mod p), and `n • (Gx, Gy) = ∞` by the certified reference multiplication of `Proofs/CertAffine.lean`
(proved equal to Mathlib's `•` without any hypothesis on 2-torsion).  Hence, with `p` prime (needed for `ZMod p` to be a
field at all) and `n` prime as the only remaining hypotheses: `n • ⟦G⟧ = 0`, the group context `baseCtx r`, N2T for ⟨G⟩,
and `Ecdsa.OnCurve.Matches (crvOf r) (baseCtx r)`.  With the additional SEC 2 fact #E(𝔽_p) = n (cofactor 1):
`MatchesRec`.
-/
namespace Named
open WeierstrassCurve Jac GroupInterface Ecdsa Ecdsa.OnCurve

/-- the curve description the driver receives for a row of the table (`PointJacobi` generator) -/
def crvOf (r : Gen.CurveRow) : Affine.Crv := ⟨r.p, r.a, r.b, r.gx, r.gy, r.n, r.h, true⟩

/-- the checks, unpacked -/
structure Checked (r : Gen.CurveRow) : Prop where
  p_gt : 2 < r.p
  n_gt : 1 < r.n
  n_odd : r.n % 2 = 1
  gx_lt : r.gx < r.p
  gy_pos : 0 < r.gy
  gy_lt : r.gy < r.p
  eqn : ((r.gy : Int) * r.gy - ((r.gx : Int) ^ 3 + r.a * r.gx + r.b)) % (r.p : Int) = 0
  disc : (4 * r.a ^ 3 + 27 * r.b ^ 2) % (r.p : Int) ≠ 0
  nG : CertAff.mulIsZero r.p r.a r.n r.gx r.gy = true

theorem checked_of {r : Gen.CurveRow} (h : rowChecks r = true) : Checked r := by
  simp only [rowChecks, Bool.and_eq_true, decide_eq_true_eq, beq_iff_eq, bne_iff_ne, ne_eq] at h
  obtain ⟨⟨⟨⟨⟨⟨⟨⟨⟨h1, _⟩, h3⟩, h4⟩, h5⟩, h6⟩, h7⟩, h8⟩, h9⟩, h10⟩ := h
  exact ⟨h1, h3, h4, h5, h6, h7, h8, h9, h10⟩

theorem checked_of_mem {r : Gen.CurveRow} (h : r ∈ Gen.curveTable) : Checked r := checked_of (all_rows_checked r h)

section
variable {r : Gen.CurveRow} [hp : Fact (Nat.Prime r.p)]

theorem p_ne_two (K : Checked r) : r.p ≠ 2 := by have := K.p_gt; omega

theorem two_ne_zero' (K : Checked r) : (2 : ZMod r.p) ≠ 0 := by
  intro h0
  have : ((2 : ℕ) : ZMod r.p) = 0 := by exact_mod_cast h0
  rw [ZMod.natCast_eq_zero_iff] at this
  have := Nat.le_of_dvd (by decide) this
  have := K.p_gt
  omega

/-- the base point is a nonsingular affine point -/
theorem G_nonsingular (K : Checked r) :
    (shortW (r.a : ZMod r.p) (r.b : ZMod r.p)).toAffine.Nonsingular ((r.gx : ℤ) : ZMod r.p) ((r.gy : ℤ) : ZMod r.p) := by
  rw [Affine.nonsingular_iff']
  constructor
  · rw [Affine.equation_iff]
    have : ((((r.gy : Int) * r.gy - ((r.gx : Int) ^ 3 + r.a * r.gx + r.b) : ℤ)) : ZMod r.p) = 0 := by
      rw [ZMod.intCast_zmod_eq_zero_iff_dvd]; exact Int.dvd_of_emod_eq_zero K.eqn
    push_cast at this
    simp only [shortW]
    push_cast
    linear_combination this
  · right
    simp only [shortW]
    have hy : (((r.gy : ℤ)) : ZMod r.p) ≠ 0 := by
      intro h0
      rw [ZMod.intCast_zmod_eq_zero_iff_dvd] at h0
      have := Int.le_of_dvd (by exact_mod_cast K.gy_pos) h0
      have := K.gy_lt
      omega
    simpa using mul_ne_zero (two_ne_zero' K) hy

/-- the base point as an element of Mathlib's group of the curve -/
def Gpt (r : Gen.CurveRow) [Fact (Nat.Prime r.p)] (K : Checked r) : Grp (r.a : ZMod r.p) (r.b : ZMod r.p) :=
  Affine.Point.some _ _ (G_nonsingular K)

/-- **the order of the base point is checked**: `n • ⟦G⟧ = 0` from the kernel evaluation of the certified reference
multiplication on the generated constants (no hypothesis besides `p` prime) -/
theorem nG_eq_zero (K : Checked r) : (r.n : ℤ) • Gpt r K = 0 := by
  rw [natCast_zsmul]
  exact CertAff.mulIsZero_sound (p_ne_two K) _ _ (G_nonsingular K) r.n K.nG

/-- the group context of a row: base point, order, N2T for ⟨G⟩ discharged -/
def baseCtx (r : Gen.CurveRow) [Fact (Nat.Prime r.p)] (K : Checked r) : Ctx r.p r.a r.b where
  G := Gpt r K
  n := r.n
  hn := nG_eq_zero K
  hodd := by have := K.n_odd; omega
  hpos := by have := K.n_gt; omega

theorem crv_onCurve (r : Gen.CurveRow) : Jac.OnCurve r.p r.a r.b (Ecdsa.OnCurve.crvOf (crvOf r)) := ⟨rfl, rfl, rfl⟩

/-- **`OnCurve.Matches`**: the standing hypotheses of the ECDSA-level theorems hold for the row, given `n` prime -/
theorem matches_row (K : Checked r) (hn : Nat.Prime r.n) : Matches (crvOf r) (baseCtx r K) where
  hp2 := p_ne_two K
  cp := rfl
  ca := rfl
  cb := rfl
  cn := rfl
  n_prime := by show Nat.Prime ((r.n : ℤ)).toNat; rwa [Int.toNat_natCast]
  jac := rfl
  genRep :=
    pjRep_of_coords (baseCtx r K).n2t _ (crv_onCurve r) r.gx r.gy
      ⟨Int.natCast_nonneg _, by exact_mod_cast K.gx_lt⟩ ⟨Int.natCast_nonneg _, by exact_mod_cast K.gy_lt⟩
      (G_nonsingular K) (baseCtx r K).G_mem (some (r.n : ℤ)) true

/-- the discriminant of the curve does not vanish in `ZMod p` -/
theorem delta_ne_zero (K : Checked r) : (shortW (r.a : ZMod r.p) (r.b : ZMod r.p)).toAffine.Δ ≠ 0 := by
  have hd : (shortW (r.a : ZMod r.p) (r.b : ZMod r.p)).toAffine.Δ =
      -(2 : ZMod r.p) ^ 4 * (4 * (r.a : ZMod r.p) ^ 3 + 27 * (r.b : ZMod r.p) ^ 2) := by
    simp [WeierstrassCurve.Δ, WeierstrassCurve.b₂, WeierstrassCurve.b₄, WeierstrassCurve.b₆, WeierstrassCurve.b₈, shortW]
    ring
  rw [hd]
  refine mul_ne_zero (neg_ne_zero.mpr (pow_ne_zero _ (two_ne_zero' K))) ?_
  intro h0
  apply K.disc
  apply Int.emod_eq_zero_of_dvd
  rw [← ZMod.intCast_zmod_eq_zero_iff_dvd]
  push_cast; exact h0

/-- under the SEC 2 / FIPS fact #E(𝔽_p) = n (cofactor 1) the base point generates the whole group -/
theorem zmultiples_eq_top (K : Checked r) (hn : Nat.Prime r.n)
    (hcard : Nat.card (Grp (r.a : ZMod r.p) (r.b : ZMod r.p)) = r.n) : (baseCtx r K).H = ⊤ := by
  haveI : Finite (Grp (r.a : ZMod r.p) (r.b : ZMod r.p)) :=
    Nat.finite_of_card_ne_zero (by rw [hcard]; exact hn.ne_zero)
  apply AddSubgroup.eq_top_of_card_eq
  rw [hcard]
  show Nat.card (AddSubgroup.zmultiples (Gpt r K)) = r.n
  rw [Nat.card_zmultiples]
  haveI := Fact.mk hn
  apply addOrderOf_eq_prime
  · have := nG_eq_zero K; rwa [natCast_zsmul] at this
  · exact Affine.Point.some_ne_zero _

/-- **`OnCurve.MatchesRec`** (what public-key recovery and point decoding need), given additionally #E(𝔽_p) = n -/
theorem matchesRec_row (K : Checked r) (hn : Nat.Prime r.n)
    (hcard : Nat.card (Grp (r.a : ZMod r.p) (r.b : ZMod r.p)) = r.n) : MatchesRec (crvOf r) (baseCtx r K) where
  toMatches := matches_row K hn
  allInH x y x0 x1 y0 y1 hc := by
    have hpos : (0 : ℤ) < (crvOf r).p := by show (0 : ℤ) < r.p; have := K.p_gt; omega
    have hon := (containsPoint_iff_onC (crvOf r) hpos x y).mp hc
    have heq : (shortW (r.a : ZMod r.p) (r.b : ZMod r.p)).toAffine.Equation (x : ZMod r.p) (y : ZMod r.p) := by
      rw [Affine.equation_iff]
      have : ((((y * y - (x ^ 3 + r.a * x + r.b) : ℤ))) : ZMod r.p) = 0 := by
        rw [ZMod.intCast_zmod_eq_zero_iff_dvd]; exact Int.dvd_of_emod_eq_zero hon
      push_cast at this
      simp only [shortW]
      linear_combination this
    have hns := (Affine.equation_iff_nonsingular_of_Δ_ne_zero (delta_ne_zero K)).mp heq
    exact ⟨hns, by rw [zmultiples_eq_top K hn hcard]; exact AddSubgroup.mem_top _⟩

end

end Named
