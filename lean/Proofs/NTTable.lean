import Generated.NTTables
import Mathlib.Data.Nat.Prime.Basic
import Mathlib.Data.List.Range
import Mathlib.Tactic.NormNum.Prime
import Mathlib.Tactic.IntervalCases
/-! the generated `smallprimes` table is exactly the ascending list of the primes ≤ 1229 (C16) -/
namespace NTProofs
open Gen.NT
set_option maxRecDepth 100000

/-- boolean certificate: `n ≥ 2` has no divisor among the primes below 37 other than itself -/
def tdPrime (n : Nat) : Bool := 2 ≤ n && [2, 3, 5, 7, 11, 13, 17, 19, 23, 29, 31].all fun d => n % d != 0 || n == d

/-- kernel evaluation on the GENERATED table -/
theorem table_cert : smallprimesN = (List.range 1230).filter tdPrime := by decide +kernel

theorem prime_lt_37 (q : Nat) (hq : q.Prime) (h : q < 37) : q ∈ [2, 3, 5, 7, 11, 13, 17, 19, 23, 29, 31] := by
  have h2 := hq.two_le
  interval_cases q <;> first | decide | (exfalso; revert hq; norm_num)

theorem tdPrime_iff (n : Nat) (hn : n < 1369) : tdPrime n = true ↔ n.Prime := by
  constructor
  · intro h
    simp only [tdPrime, Bool.and_eq_true, decide_eq_true_eq, List.all_eq_true, Bool.or_eq_true, bne_iff_ne, ne_eq,
      beq_iff_eq] at h
    obtain ⟨h2, hall⟩ := h
    by_contra hnp
    have hq : (n.minFac).Prime := Nat.minFac_prime (by omega)
    have hsq : n.minFac * n.minFac ≤ n := by
      have := Nat.minFac_sq_le_self (by omega) hnp; simpa [sq] using this
    have hlt : n.minFac < 37 := by
      by_contra hge
      have := Nat.mul_le_mul (Nat.le_of_not_lt hge) (Nat.le_of_not_lt hge)
      omega
    have hm := prime_lt_37 _ hq hlt
    rcases hall _ hm with h | h
    · exact h (Nat.mod_eq_zero_of_dvd (Nat.minFac_dvd n))
    · exact hnp (h ▸ hq)
  · intro hp
    simp only [tdPrime, Bool.and_eq_true, decide_eq_true_eq, List.all_eq_true, Bool.or_eq_true, bne_iff_ne, ne_eq,
      beq_iff_eq]
    refine ⟨hp.two_le, fun d hd => ?_⟩
    by_cases hdv : n % d = 0
    · right
      have hdvd : d ∣ n := Nat.dvd_of_mod_eq_zero hdv
      rcases (Nat.dvd_prime hp).mp hdvd with h | h
      · subst h; exact absurd hd (by decide)
      · exact h.symm
    · left; exact hdv

theorem mem_smallprimesN (n : Nat) : n ∈ smallprimesN ↔ n.Prime ∧ n ≤ 1229 := by
  rw [table_cert, List.mem_filter, List.mem_range]
  constructor
  · rintro ⟨h1, h2⟩; exact ⟨(tdPrime_iff n (by omega)).mp h2, by omega⟩
  · rintro ⟨h1, h2⟩; exact ⟨by omega, (tdPrime_iff n (by omega)).mpr h1⟩

theorem smallprimesN_sorted : smallprimesN.Pairwise (· < ·) := by
  rw [table_cert]; exact List.Pairwise.filter _ List.pairwise_lt_range

theorem mem_smallprimes (n : Int) : n ∈ smallprimes ↔ 0 ≤ n ∧ n.toNat.Prime ∧ n ≤ 1229 := by
  simp only [smallprimes, List.mem_map]
  constructor
  · rintro ⟨k, hk, rfl⟩
    have := (mem_smallprimesN k).mp hk
    refine ⟨Int.natCast_nonneg k, by simpa using this.1, by have := this.2; simp; omega⟩
  · rintro ⟨h0, hp, hle⟩
    refine ⟨n.toNat, (mem_smallprimesN _).mpr ⟨hp, by omega⟩, by simp; omega⟩

theorem smallprimes_sorted : smallprimes.Pairwise (· < ·) := by
  unfold smallprimes
  rw [List.pairwise_map]
  exact smallprimesN_sorted.imp (fun h => by simpa using h)

theorem smallprimes_getLast : smallprimes.getLast? = some 1229 := by decide +kernel

theorem smallprimes_length : smallprimes.length = 201 := by decide +kernel

end NTProofs
