import Proofs.MulNaf
import Proofs.Legacy
/-!
# Proofs.MulAdd — `PointJacobi.mul_add`: the interleaved double-scalar loop and all its early exits
-/
namespace Jac
open WeierstrassCurve WeierstrassCurve.Jacobian Curve

variable {p : ℕ} [hp : Fact p.Prime] {a b : ℤ} {H : AddSubgroup (Grp (a : ZMod p) (b : ZMod p))}

/-- range of the result of `_add` when the second operand is not an identity representation -/
theorem k_add_inRange' {X1 Y1 Z1 X2 Y2 Z2 : ℤ} (a : ℤ) (hy : Y2 ≠ 0) (hz0 : Z2 ≠ 0) (hx : InRange p X2)
    (hz : InRange p Z2) : InRange3 p (Gen.k_add X1 Y1 Z1 X2 Y2 Z2 p a) := by
  unfold Gen.k_add
  split_ifs with c1 c2
  · exact ⟨hx, inRange_fmod _, hz⟩
  · simp [hy, hz0] at c2
  · unfold Gen.k_add_with_z_1; simp only []; split_ifs
    · exact k_double_with_z_1_inRange _ _ _
    · exact ⟨inRange_fmod _, inRange_fmod _, inRange_fmod _⟩
  · unfold Gen.k_add_with_z_eq; simp only []; split_ifs
    · exact k_double_inRange _ _ _ _
    · exact ⟨inRange_fmod _, inRange_fmod _, inRange_fmod _⟩
  · unfold Gen.k_add_with_z2_1; simp only []; split_ifs
    · exact k_double_with_z_1_inRange _ _ _
    · exact ⟨inRange_fmod _, inRange_fmod _, inRange_fmod _⟩
  · unfold Gen.k_add_with_z2_1; simp only []; split_ifs
    · exact k_double_with_z_1_inRange _ _ _
    · exact ⟨inRange_fmod _, inRange_fmod _, inRange_fmod _⟩
  · unfold Gen.k_add_with_z_ne; simp only []; split_ifs
    · exact k_double_inRange _ _ _ _
    · exact ⟨inRange_fmod _, inRange_fmod _, inRange_fmod _⟩

/-- a combined point `±A ± B` of `mul_add` -/
theorem combo_rep (hp2 : p ≠ 2) (hH : NoOrder2 H) {X1 Y1 Z1 X2 Y2 Z2 : ℤ} {g h}
    (h1 : IRep p a b H (X1, Y1, Z1) g) (h2 : IRep p a b H (X2, Y2, Z2) h) (hy : Y2 ≠ 0) (hz0 : Z2 ≠ 0)
    (hx : InRange p X2) (hz : InRange p Z2) :
    AccRep p a b H (Gen.k_add X1 Y1 Z1 X2 Y2 Z2 p a) (g + h) :=
  ⟨k_add_correct hp2 hH h1 h2, k_add_inRange' a hy hz0 hx hz⟩

theorem accRep_add' (hp2 : p ≠ 2) (hH : NoOrder2 H) {t : ℤ × ℤ × ℤ} {h} (ht : AccRep p a b H t h)
    {q : ℤ × ℤ × ℤ} {g} (hq : AccRep p a b H q g) :
    AccRep p a b H (Gen.k_add t.1 t.2.1 t.2.2 q.1 q.2.1 q.2.2 p a) (h + g) :=
  accRep_add hp2 hH ht hq.1 hq.2.1 hq.2.2.2

/-- one iteration of the loop of `mul_add` -/
theorem mulAddStep_rep (hp2 : p ≠ 2) (hH : NoOrder2 H) {P1 P2 mAmB pAmB mApB pApB : ℤ × ℤ × ℤ} {g h}
    (h1 : IRep p a b H P1 g) (r1 : InRange p P1.1) (r1z : InRange p P1.2.2)
    (h2 : IRep p a b H P2 h) (r2 : InRange p P2.1) (r2z : InRange p P2.2.2)
    (hmm : AccRep p a b H mAmB (-g + -h)) (hpm : AccRep p a b H pAmB (g + -h))
    (hmp : AccRep p a b H mApB (-g + h)) (hpp : AccRep p a b H pApB (g + h))
    (t : ℤ × ℤ × ℤ) (h0) (A B : ℤ) (ht : AccRep p a b H t h0)
    (hA : A = -1 ∨ A = 0 ∨ A = 1) (hB : B = -1 ∨ B = 0 ∨ B = 1) :
    AccRep p a b H (mulAddStep p a P1 P2 mAmB pAmB mApB pApB t (A, B))
      ((h0 + h0) + (A • g + B • h)) := by
  have hd := accRep_double hH ht
  have n1 : IRep p a b H (P1.1, -P1.2.1, P1.2.2) (-g) := irep_neg h1
  have n2 : IRep p a b H (P2.1, -P2.2.1, P2.2.2) (-h) := irep_neg h2
  unfold mulAddStep
  simp only []
  rcases hA with rfl | rfl | rfl <;> rcases hB with rfl | rfl | rfl <;>
    simp only [one_ne_zero, if_false, if_true, Int.reduceNeg, Left.neg_neg_iff, zero_lt_one,
      Int.neg_eq_zero, lt_self_iff_false, neg_smul, one_smul, zero_smul, add_zero, zero_add, Int.reduceLT]
  · exact accRep_add' hp2 hH hd hmm
  · have := accRep_add hp2 hH hd n1 r1 r1z; simpa using this
  · exact accRep_add' hp2 hH hd hmp
  · have := accRep_add hp2 hH hd n2 r2 r2z; simpa using this
  · exact hd
  · exact accRep_add hp2 hH hd h2 r2 r2z
  · exact accRep_add' hp2 hH hd hpm
  · exact accRep_add hp2 hH hd h1 r1 r1z
  · exact accRep_add' hp2 hH hd hpp

/-- "multiplying the stored object `S` (table state `t`) by any integer is correct" -/
def MulSpec (p : ℕ) [Fact p.Prime] (a b : ℤ) (H : AddSubgroup (Grp (a : ZMod p) (b : ZMod p)))
    (t : List (ℤ × ℤ)) (S : PJ) (g : Grp (a : ZMod p) (b : ZMod p)) : Prop :=
  ∀ k, ∃ R, pjMulWith t S k = .ok R ∧ PtRep p a b H R (k • g)

/-- what `mul_add` needs from the single multiplications of an operand `P` whose table state is `pre` -/
def MulEnv (p : ℕ) [Fact p.Prime] (a b : ℤ) (H : AddSubgroup (Grp (a : ZMod p) (b : ZMod p)))
    (pre : List (ℤ × ℤ)) (P : PJ) (g : Grp (a : ZMod p) (b : ZMod p)) : Prop :=
  ∃ t, maybePrecompute P pre = .ok t ∧
    ∀ S, PJRep p a b H S g → S.order = P.order → S.generator = P.generator → MulSpec p a b H t S g

theorem ptIsInf_zero {other : Pt} {h} (hO : PtRep p a b H other h) (hi : ptIsInf other = true) : h = 0 := by
  cases other with
  | infinity => exact hO
  | jac Q => simp [ptIsInf, pjEqInf_false hO] at hi
  | aff A => simp [ptIsInf] at hi

theorem reduce2_smul {g h : Grp (a : ZMod p) (b : ZMod p)} {ord : Option ℤ}
    (ho : ∀ n, truthy ord = some n → n • g = 0 ∧ n • h = 0) (sm om : ℤ) :
    (match truthy ord with
      | some o => (pmod sm o, pmod om o)
      | none => (sm, om)).1 • g +
    (match truthy ord with
      | some o => (pmod sm o, pmod om o)
      | none => (sm, om)).2 • h = sm • g + om • h := by
  cases hh : truthy ord with
  | none => rfl
  | some o =>
    simp only [smul_pmod (ho o hh).1 sm o (dvd_refl o), smul_pmod (ho o hh).2 om o (dvd_refl o)]

/-- the part of `mul_add` after both operands are `PointJacobi` objects and the early exits are passed -/
theorem mulAdd_main (hp2 : p ≠ 2) (hH : NoOrder2 H) {P Q : PJ} {g h}
    (hP : PJRep p a b H P g) (hQ : PJRep p a b H Q h)
    (ho : ∀ n, truthy P.order = some n → n • g = 0 ∧ n • h = 0)
    {tP tQ : List (ℤ × ℤ)}
    (mP : ∀ S, PJRep p a b H S g → S.order = P.order → S.generator = P.generator → MulSpec p a b H tP S g)
    (mQ : ∀ S, PJRep p a b H S h → S.order = Q.order → S.generator = Q.generator → MulSpec p a b H tQ S h)
    (sm om : ℤ) :
    ∃ R, (if !tP.isEmpty && !tQ.isEmpty then do
        let r1 ← pjMulWith tP P sm
        let r2 ← pjMulWith tQ Q om
        ptAdd r1 r2
      else
        let (sm, om) := match truthy P.order with
          | some o => (pmod sm o, pmod om o)
          | none => (sm, om)
        let p' := P.curve.p
        let a' := P.curve.a
        do
        let SP ← pjScale P
        let SQ ← pjScale Q
        let P1 := (SP.x, SP.y, SP.z)
        let P2 := (SQ.x, SQ.y, SQ.z)
        let mAmB := Gen.k_add SP.x (-SP.y) SP.z SQ.x (-SQ.y) SQ.z p' a'
        let pAmB := Gen.k_add SP.x SP.y SP.z SQ.x (-SQ.y) SQ.z p' a'
        let mApB := Gen.k_add SP.x (-SP.y) SP.z SQ.x SQ.y SQ.z p' a'
        let pApB := Gen.k_add SP.x SP.y SP.z SQ.x SQ.y SQ.z p' a'
        if pApB.2.1 == 0 || pApB.2.2 == 0 then do
          let r1 ← pjMulWith tP SP sm
          let r2 ← pjMulWith tQ SQ om
          ptAdd r1 r2
        else
          let nafs := padNafs (naf sm).reverse (naf om).reverse
          let acc := (nafs.1.zip nafs.2).foldl (mulAddStep p' a' P1 P2 mAmB pAmB mApB pApB) (0, 0, 1)
          .ok (coordsOut P.curve P.order acc)) = .ok R ∧ PtRep p a b H R (sm • g + om • h) := by
  split_ifs with hboth
  · obtain ⟨r1, e1, h1⟩ := mP P hP rfl rfl sm
    obtain ⟨r2, e2, h2⟩ := mQ Q hQ rfl rfl om
    simp only [e1, e2, ok_bind]
    exact ptAdd_correct hp2 hH h1 h2
  · obtain ⟨SP, eSP, rSP, zSP, cSP, oSP, gSP⟩ := pjScale_correct hP
    obtain ⟨SQ, eSQ, rSQ, zSQ, cSQ, oSQ, gSQ⟩ := pjScale_correct hQ
    rw [← reduce2_smul ho sm om]
    generalize (match truthy P.order with
          | some o => (pmod sm o, pmod om o)
          | none => (sm, om)) = sc
    obtain ⟨sm', om'⟩ := sc
    simp only [eSP, eSQ, ok_bind, hP.1.1, hP.1.2.1]
    have i1 := rSP.irep
    have i2 := rSQ.irep
    have yQ := rSQ.y_ne
    have zQ := rSQ.z_ne
    have nyQ : -SQ.y ≠ 0 := neg_ne_zero.mpr yQ
    have xr := rSQ.2.1.1
    have zr := rSQ.2.1.2.2
    have hpp := combo_rep hp2 hH i1 i2 yQ zQ xr zr
    have hpm := combo_rep hp2 hH i1 (irep_neg i2) nyQ zQ xr zr
    have hmp := combo_rep hp2 hH (irep_neg i1) i2 yQ zQ xr zr
    have hmm := combo_rep hp2 hH (irep_neg i1) (irep_neg i2) nyQ zQ xr zr
    split_ifs with hinf
    · obtain ⟨r1, e1, h1⟩ := mP SP rSP oSP gSP sm'
      obtain ⟨r2, e2, h2⟩ := mQ SQ rSQ oSQ gSQ om'
      simp only [e1, e2, ok_bind]
      exact ptAdd_correct hp2 hH h1 h2
    · refine ⟨_, rfl, ?_⟩
      have hl := Naf.mulAdd_rel (AccRep p a b H)
        (mulAddStep p a (SP.x, SP.y, SP.z) (SQ.x, SQ.y, SQ.z)
          (Gen.k_add SP.x (-SP.y) SP.z SQ.x (-SQ.y) SQ.z p a)
          (Gen.k_add SP.x SP.y SP.z SQ.x (-SQ.y) SQ.z p a)
          (Gen.k_add SP.x (-SP.y) SP.z SQ.x SQ.y SQ.z p a)
          (Gen.k_add SP.x SP.y SP.z SQ.x SQ.y SQ.z p a)) g h (0, 0, 1)
        (fun t h0 A B ht hA hB => mulAddStep_rep hp2 hH i1 rSP.2.1.1 rSP.2.1.2.2 i2 xr zr hmm hpm hmp hpp
          t h0 A B ht hA hB) accRep_sentinel sm' om'
      exact coordsOut_rep hP.1 _ hl.1 hl.2

/-- **`PointJacobi.mul_add`** with explicit table states; the single multiplications it falls back on are
hypotheses (`MulSpec`, `MulEnv`) discharged in `Proofs/MulAll.lean` by the NAF-path and table-path theorems -/
theorem pjMulAddWith_correct (hp2 : p ≠ 2) (hH : NoOrder2 H) {P : PJ} {other : Pt} {g h}
    (hP : PJRep p a b H P g) (hO : PtRep p a b H other h)
    (ho : ∀ n, truthy P.order = some n → n • g = 0 ∧ n • h = 0)
    {preP preQ : List (ℤ × ℤ)}
    (m0 : MulSpec p a b H preP P g)
    (mO : ∀ k, ∃ R, ptMulWith preQ other k = .ok R ∧ PtRep p a b H R (k • h))
    (eP : MulEnv p a b H preP P g)
    (eQ : ∀ Q, PJRep p a b H Q h → (other = .jac Q ∨ ∃ A, other = .aff A ∧ Q = pjFromAffine A) →
      MulEnv p a b H preQ Q h)
    (sm om : ℤ) :
    ∃ R, pjMulAddWith preP preQ P sm other om = .ok R ∧ PtRep p a b H R (sm • g + om • h) := by
  unfold pjMulAddWith
  split_ifs with c1 c2
  · -- other == INFINITY or other_mul == 0
    obtain ⟨R, e, hR⟩ := m0 sm
    refine ⟨R, e, ?_⟩
    have : om • h = 0 := by
      simp only [Bool.or_eq_true, beq_iff_eq] at c1
      rcases c1 with c1 | c1
      · rw [ptIsInf_zero hO c1, smul_zero]
      · rw [c1, zero_smul]
    rwa [this, add_zero]
  · -- self_mul == 0
    obtain ⟨R, e, hR⟩ := mO om
    refine ⟨R, e, ?_⟩
    simp only [beq_iff_eq] at c2
    rwa [c2, zero_smul, zero_add]
  · simp only [Bool.or_eq_true, beq_iff_eq, not_or] at c1
    have key : ∀ Q, PJRep p a b H Q h → (other = .jac Q ∨ ∃ A, other = .aff A ∧ Q = pjFromAffine A) →
        ∃ R, (do
          let tP ← maybePrecompute P preP
          let tQ ← maybePrecompute Q preQ
          if !tP.isEmpty && !tQ.isEmpty then do
            let r1 ← pjMulWith tP P sm
            let r2 ← pjMulWith tQ Q om
            ptAdd r1 r2
          else
            let (sm, om) := match truthy P.order with
              | some o => (pmod sm o, pmod om o)
              | none => (sm, om)
            let p' := P.curve.p
            let a' := P.curve.a
            do
            let SP ← pjScale P
            let SQ ← pjScale Q
            let P1 := (SP.x, SP.y, SP.z)
            let P2 := (SQ.x, SQ.y, SQ.z)
            let mAmB := Gen.k_add SP.x (-SP.y) SP.z SQ.x (-SQ.y) SQ.z p' a'
            let pAmB := Gen.k_add SP.x SP.y SP.z SQ.x (-SQ.y) SQ.z p' a'
            let mApB := Gen.k_add SP.x (-SP.y) SP.z SQ.x SQ.y SQ.z p' a'
            let pApB := Gen.k_add SP.x SP.y SP.z SQ.x SQ.y SQ.z p' a'
            if pApB.2.1 == 0 || pApB.2.2 == 0 then do
              let r1 ← pjMulWith tP SP sm
              let r2 ← pjMulWith tQ SQ om
              ptAdd r1 r2
            else
              let nafs := padNafs (naf sm).reverse (naf om).reverse
              let acc := (nafs.1.zip nafs.2).foldl (mulAddStep p' a' P1 P2 mAmB pAmB mApB pApB) (0, 0, 1)
              .ok (coordsOut P.curve P.order acc)) = .ok R ∧ PtRep p a b H R (sm • g + om • h) := by
      intro Q hQ hQo
      obtain ⟨tP, etP, mP⟩ := eP
      obtain ⟨tQ, etQ, mQ⟩ := eQ Q hQ hQo
      simp only [etP, etQ, ok_bind]
      exact mulAdd_main hp2 hH hP hQ ho mP mQ sm om
    cases other with
    | infinity => simp [ptIsInf] at c1
    | jac Q => exact key Q hO (Or.inl rfl)
    | aff A => exact key (pjFromAffine A) (AffRep.pj hH hO false) (Or.inr ⟨A, rfl, rfl⟩)

end Jac
